/-
  C07 — helper lemmas for `Ptk/Props/C07.lean` (the property theorems live there).
-/
import Ptk.Props.C07Defs
namespace Ptk.C07
open Ptk.Py

/-! ## helper lemmas -/

theorem buf_eta (t : Buf) (b : Buf) (h : t.text = b.text) :
    ({ text := t.text, cur := b.cur } : Buf) = b := by
  cases b; cases t; simp_all

theorem saveToUndo_buf (c : Bool) (s : St) : (saveToUndo c s).buf = s.buf := by
  simp [saveToUndo]

theorem saveToUndo_redo (c : Bool) (s : St) :
    (saveToUndo c s).redo = if c then [] else s.redo := by
  simp [saveToUndo]

theorem saveToUndo_true_redo (s : St) : (saveToUndo true s).redo = [] := by
  simp [saveToUndo]

/-- after a save the top of the undo stack is exactly the current (text, cursor) -/
theorem saveToUndo_top (c : Bool) (s : St) :
    ∃ rest, (saveToUndo c s).undo = s.buf :: rest := by
  unfold saveToUndo
  cases hu : s.undo with
  | nil => exact ⟨[], by simp⟩
  | cons top rest =>
    by_cases h : top.text = s.buf.text
    · exact ⟨rest, by simp [h]⟩
    · exact ⟨top :: rest, by simp [h]⟩

theorem saveToUndo_sublist (c : Bool) (s : St) (log : List Buf)
    (h : s.undo.Sublist (s.buf :: log)) : (saveToUndo c s).undo.Sublist (s.buf :: log) := by
  unfold saveToUndo
  cases hu : s.undo with
  | nil => simp
  | cons top rest =>
    rw [hu] at h
    by_cases ht : top.text = s.buf.text
    · simp only [ht, if_true]
      show (s.buf :: rest).Sublist (s.buf :: log)
      apply List.Sublist.cons_cons
      rcases List.sublist_cons_iff.mp h with h1 | ⟨r, hr, h2⟩
      · exact (List.sublist_cons_self top rest).trans h1
      · cases hr; exact h2
    · simp only [ht, if_false]
      apply List.Sublist.cons_cons
      rcases List.sublist_cons_iff.mp h with h1 | ⟨r, hr, _⟩
      · exact h1
      · cases hr; exact absurd rfl ht

theorem undoLoop_some {b : Buf} {u : List Buf} {t : Buf} {rest : List Buf}
    (h : undoLoop b u = some (t, rest)) :
    ∃ pre, u = pre ++ t :: rest ∧ (∀ p ∈ pre, p.text = b.text) ∧ t.text ≠ b.text := by
  induction u with
  | nil => unfold undoLoop at h; cases h
  | cons x xs ih =>
    unfold undoLoop at h
    by_cases hx : x.text ≠ b.text
    · rw [if_pos hx] at h
      cases h
      exact ⟨[], by simp, by simp, hx⟩
    · rw [if_neg hx] at h
      obtain ⟨pre, h1, h2, h3⟩ := ih h
      refine ⟨x :: pre, by simp [h1], ?_, h3⟩
      intro p hp
      rcases List.mem_cons.mp hp with rfl | hp
      · simpa using hx
      · exact h2 p hp

theorem undoLoop_none {b : Buf} {u : List Buf} (h : undoLoop b u = none) :
    ∀ p ∈ u, p.text = b.text := by
  induction u with
  | nil => simp
  | cons x xs ih =>
    unfold undoLoop at h
    by_cases hx : x.text ≠ b.text
    · rw [if_pos hx] at h; cases h
    · rw [if_neg hx] at h
      intro p hp
      rcases List.mem_cons.mp hp with rfl | hp
      · simpa using hx
      · exact ih h p hp

theorem undoLoop_sublist {b : Buf} {u : List Buf} {t : Buf} {rest : List Buf}
    (h : undoLoop b u = some (t, rest)) : (t :: rest).Sublist u := by
  obtain ⟨pre, h1, _, _⟩ := undoLoop_some h
  rw [h1]; exact List.sublist_append_right pre (t :: rest)

theorem undo_some {s : St} {t : Buf} {rest : List Buf} (h : undoLoop s.buf s.undo = some (t, rest)) :
    undo s = { buf := t, undo := rest, redo := s.buf :: s.redo } := by
  simp [undo, h]

theorem undo_none {s : St} (h : undoLoop s.buf s.undo = none) :
    undo s = { buf := s.buf, undo := [], redo := s.redo } := by
  simp [undo, h]

theorem undoN_replicate (n : Nat) (s : St) :
    (List.replicate n Act.undo).foldl act s = undoN n s := by
  induction n generalizing s with
  | zero => rfl
  | succ n ih => simp [List.replicate_succ, act, undoN, ih]

theorem callHandler_eq (h : Nat) (rule : Bool → Bool) (body : List Act) (k : KSt) :
    callHandler h rule body k = { st := body.foldl act (boundary rule h k), prev := some h } := rfl

theorem callHandlerO_eq (o : Outcome) (h : Nat) (rule : Bool → Bool) (body : List Act) (k : KSt) :
    callHandlerO o h rule body k = { st := body.foldl act (boundary rule h k), prev := prevAfter o h } := rfl

theorem callHandlerO_ok (h : Nat) (rule : Bool → Bool) (body : List Act) (k : KSt) :
    callHandlerO .ok h rule body k = callHandler h rule body k := rfl

theorem boundary_buf (rule : Bool → Bool) (h : Nat) (k : KSt) : (boundary rule h k).buf = k.st.buf := by
  unfold boundary; split <;> simp [saveToUndo_buf]

theorem body_run (b : Body) (s : St) : b.acts.foldl act s = b.run s := by
  cases b with
  | edit f => rfl
  | undo n post => simp [Body.acts, Body.run, List.foldl_append, undoN_replicate, act]
  | redo post => simp [Body.acts, Body.run, act]
  | save c => rfl
  | reset d => rfl
  | roUndo fx post => simp [Body.acts, Body.run, act]
  | roRedo fx => rfl

theorem stepK_eq (k : KSt) (c : Cmd) :
    stepK k c = { st := c.body.run (boundary c.rule c.h k), prev := prevAfter c.out c.h } := by
  simp [stepK, callHandlerO_eq, body_run]

theorem runI_cmds (cs : List Cmd) (k : KSt) : runI (cmdsI cs) k = runK cs k := by
  induction cs generalizing k with
  | nil => rfl
  | cons c cs ih => simp only [cmdsI, List.map_cons, runI, runK, List.foldl_cons] at *; exact ih _

theorem runI_append (a b : List Item) (k : KSt) : runI (a ++ b) k = runI b (runI a k) := by
  simp [runI, List.foldl_append]

/-! ### read-only undo / redo -/

theorem undoRO_fixed (s : St) : undoRO true s = s := rfl
theorem redoRO_fixed (s : St) : redoRO true s = s := rfl

theorem undoRO_buf (fx : Bool) (s : St) : (undoRO fx s).buf = s.buf := by
  unfold undoRO; split
  · rfl
  · split <;> rfl

theorem redoRO_buf (fx : Bool) (s : St) : (redoRO fx s).buf = s.buf := by
  unfold redoRO; split
  · rfl
  · split <;> rfl

/-! ### the log invariant -/

theorem mid_undo {L : List Buf} {s : St} (h : Mid L s) : Mid L (undo s) := by
  obtain ⟨hU, hR, hB⟩ := h
  cases hl : undoLoop s.buf s.undo with
  | none =>
    rw [undo_none hl]
    exact ⟨by simp, hR, hB⟩
  | some p =>
    obtain ⟨t, rest⟩ := p
    rw [undo_some hl]
    have hs := undoLoop_sublist hl
    refine ⟨((List.sublist_cons_self t rest).trans hs).trans hU, ?_, ?_⟩
    · intro r hr
      rcases List.mem_cons.mp hr with rfl | hr
      · exact hB
      · exact hR r hr
    · exact hU.subset (hs.subset (by simp))

theorem mid_undoN {L : List Buf} (n : Nat) {s : St} (h : Mid L s) : Mid L (undoN n s) := by
  induction n generalizing s with
  | zero => exact h
  | succ n ih => exact ih (mid_undo h)

/-- a read-only undo (shipped or fixed) keeps the invariant: what it leaves on the stacks was really held -/
theorem mid_undoRO {L : List Buf} (fx : Bool) {s : St} (h : Mid L s) : Mid L (undoRO fx s) := by
  obtain ⟨hU, hR, hB⟩ := h
  unfold undoRO
  split
  · exact ⟨hU, hR, hB⟩
  · cases hl : undoLoop s.buf s.undo with
    | none => exact ⟨by simp, hR, hB⟩
    | some p =>
      obtain ⟨t, rest⟩ := p
      have hs := undoLoop_sublist hl
      refine ⟨((List.sublist_cons_self t rest).trans hs).trans hU, ?_, hB⟩
      intro r hr
      rcases List.mem_cons.mp hr with rfl | hr
      · exact hB
      · exact hR r hr

theorem boundary_mid (rule : Bool → Bool) (h : Nat) (g : G) (hI : Inv g) :
    let s1 := boundary rule h g.k
    s1.undo.Sublist (g.k.st.buf :: g.log) ∧ (∀ r ∈ s1.redo, r ∈ g.k.st.buf :: g.log) ∧
      s1.buf = g.k.st.buf := by
  obtain ⟨hU, hR⟩ := hI
  intro s1
  refine ⟨?_, ?_, boundary_buf rule h g.k⟩
  · show (boundary rule h g.k).undo.Sublist _
    unfold boundary; split
    · exact saveToUndo_sublist true g.k.st g.log (hU.trans (List.sublist_cons_self _ _))
    · exact hU.trans (List.sublist_cons_self _ _)
  · show ∀ r ∈ (boundary rule h g.k).redo, _
    unfold boundary; split
    · simp [saveToUndo_redo]
    · intro r hr; exact List.mem_cons_of_mem _ (hR r hr)

theorem inv_step_cmd (g : G) (c : Cmd) (hI : Inv g) : Inv (stepG g (.cmd c)) := by
  obtain ⟨h1, h2, h3⟩ := boundary_mid c.rule c.h g hI
  unfold Inv stepG
  simp only [stepI, stepK_eq]
  generalize boundary c.rule c.h g.k = s1 at h1 h2 h3
  cases hb : c.body with
  | edit f => exact ⟨h1, h2⟩
  | undo n post =>
    have hm : Mid (g.k.st.buf :: g.log) s1 := ⟨h1, h2, by rw [h3]; simp⟩
    have := mid_undoN n hm
    exact ⟨this.1, this.2.1⟩
  | redo post =>
    simp only [Body.run]
    unfold redo
    cases hr : s1.redo with
    | nil => exact ⟨h1, by simp [hr]⟩
    | cons r rest =>
      refine ⟨?_, ?_⟩
      · have := saveToUndo_sublist false s1 g.log (by rw [h3]; exact h1)
        rw [h3] at this; exact this
      · intro x hx; exact h2 x (by rw [hr]; exact List.mem_cons_of_mem _ hx)
  | save cl =>
    simp only [Body.run]
    refine ⟨?_, ?_⟩
    · have := saveToUndo_sublist cl s1 g.log (by rw [h3]; exact h1)
      rw [h3] at this; exact this
    · rw [saveToUndo_redo]; split
      · simp
      · exact h2
  | reset d => simp [Body.run, reset]
  | roUndo fx post =>
    have hm : Mid (g.k.st.buf :: g.log) s1 := ⟨h1, h2, by rw [h3]; simp⟩
    have := mid_undoRO fx hm
    exact ⟨this.1, this.2.1⟩
  | roRedo fx =>
    simp only [Body.run]
    unfold redoRO
    split
    · exact ⟨h1, h2⟩
    · cases hr : s1.redo with
      | nil => exact ⟨h1, by simp [hr]⟩
      | cons r rest =>
        refine ⟨?_, ?_⟩
        · have := saveToUndo_sublist false s1 g.log (by rw [h3]; exact h1)
          rw [h3] at this; exact this
        · intro x hx; exact h2 x (by rw [hr]; exact List.mem_cons_of_mem _ hx)

theorem inv_step (g : G) (it : Item) (hI : Inv g) : Inv (stepG g it) := by
  cases it with
  | cmd c => exact inv_step_cmd g c hI
  | kpReset => exact hI
  | cpr => exact hI
  | ext f => exact hI

theorem inv_run (items : List Item) (g : G) (hI : Inv g) : Inv (runG items g) := by
  induction items generalizing g with
  | nil => exact hI
  | cons c cs ih => exact ih _ (inv_step g c hI)

theorem inv_init (b0 : Buf) : Inv (gInit b0) := by
  simp [Inv, gInit, kInit, reset]

theorem runG_k (items : List Item) (g : G) : (runG items g).k = runI items g.k := by
  induction items generalizing g with
  | nil => rfl
  | cons c cs ih => simp [runG, runI, List.foldl_cons] at *; exact ih _

theorem undoTrace_some {n : Nat} {s : St} {t : Buf} {rest : List Buf}
    (hl : undoLoop s.buf s.undo = some (t, rest)) :
    undoTrace (n + 1) s = t :: undoTrace n (undo s) := by
  simp [undoTrace, hl]

theorem undoTrace_none {n : Nat} {s : St} (hl : undoLoop s.buf s.undo = none) :
    undoTrace (n + 1) s = [] := by
  simp [undoTrace, hl]

/-- the (text, cursor) and redo stack after `redo` only depend on (text, cursor) and redo stack before -/
theorem redo_congr {x y : St} (hb : x.buf = y.buf) (hr : x.redo = y.redo) :
    (redo x).buf = (redo y).buf ∧ (redo x).redo = (redo y).redo := by
  unfold redo
  rw [hr]
  cases y.redo with
  | nil => simp [hb, hr]
  | cons r rest => simp

theorem undoChanges_text {s : St} (h : undoLoop s.buf s.undo ≠ none) :
    (undo s).buf.text ≠ s.buf.text := by
  cases hl : undoLoop s.buf s.undo with
  | none => exact absurd hl h
  | some p =>
    obtain ⟨t, rest⟩ := p
    obtain ⟨_, _, _, h3⟩ := undoLoop_some hl
    rw [undo_some hl]; exact h3

theorem botText_saveToUndo (c : Bool) (s : St) : botText (saveToUndo c s) = botText s := by
  unfold botText saveToUndo
  cases hu : s.undo with
  | nil => simp
  | cons top rest =>
    by_cases ht : top.text = s.buf.text
    · cases rest with
      | nil => simp [ht]
      | cons y ys => simp [ht, List.getLast?_cons_cons]
    · simp [ht, List.getLast?_cons_cons]

theorem botText_undo (s : St) : botText (undo s) = botText s := by
  cases hl : undoLoop s.buf s.undo with
  | none =>
    rw [undo_none hl]
    unfold botText
    cases hg : s.undo.getLast? with
    | none => simp
    | some b => simp; exact (undoLoop_none hl b (List.mem_of_getLast? hg)).symm
  | some p =>
    obtain ⟨t, rest⟩ := p
    obtain ⟨pre, h1, _, _⟩ := undoLoop_some hl
    rw [undo_some hl]
    unfold botText
    rw [h1]
    cases rest with
    | nil => simp
    | cons y ys =>
      cases hz : (y :: ys).getLast? with
      | none => simp at hz
      | some z => simp [List.getLast?_cons_cons, hz]

theorem botText_undoN (n : Nat) (s : St) : botText (undoN n s) = botText s := by
  induction n generalizing s with
  | zero => rfl
  | succ n ih => simp [undoN, ih, botText_undo]

theorem botText_setBuf (s : St) (b : Buf) (h : s.undo ≠ [] ∨ b.text = s.buf.text) :
    botText { s with buf := b } = botText s := by
  unfold botText
  cases hg : s.undo.getLast? with
  | some x => simp
  | none =>
    simp
    rcases h with h | h
    · exact absurd (List.getLast?_eq_none_iff.mp hg) h
    · exact h

theorem botText_redo (s : St) : botText (redo s) = botText s := by
  unfold redo
  cases hr : s.redo with
  | nil => rfl
  | cons r rest =>
    obtain ⟨rest', hrest⟩ := saveToUndo_top false s
    have h1 := botText_saveToUndo false s
    have h2 := botText_setBuf (saveToUndo false s) r (Or.inl (by rw [hrest]; simp))
    simp only [] at h2 ⊢
    unfold botText at h1 h2 ⊢
    simp only [saveToUndo_buf] at h1 h2
    rw [hrest] at h1 h2 ⊢
    simp at h1 h2 ⊢
    exact h1

theorem undo_length (s : St) : (undo s).undo.length ≤ s.undo.length - 1 := by
  cases hl : undoLoop s.buf s.undo with
  | none => rw [undo_none hl]; simp
  | some p =>
    obtain ⟨t, rest⟩ := p
    obtain ⟨pre, h1, _, _⟩ := undoLoop_some hl
    rw [undo_some hl, h1]; simp <;> omega

theorem botText_boundary (rule : Bool → Bool) (h : Nat) (k : KSt) :
    botText (boundary rule h k) = botText k.st := by
  unfold boundary; split
  · exact botText_saveToUndo true k.st
  · rfl

theorem botText_undoRO (s : St) : botText (undoRO true s) = botText s := rfl
theorem botText_redoRO (s : St) : botText (redoRO true s) = botText s := rfl

/-- **Theorem A, one step.**  A covered item keeps the text at the bottom of the undo stack. -/
theorem botText_step (k : KSt) (it : Item) (hc : it.Covered k) : botText (stepI k it).st = botText k.st := by
  cases it with
  | kpReset => rfl
  | cpr => rfl
  | ext f =>
    show botText { k.st with buf := f k.st.buf } = _
    exact botText_setBuf _ _ hc
  | cmd c =>
    simp only [stepI, stepK_eq]
    have hb1 : botText (boundary c.rule c.h k) = botText k.st := botText_boundary _ _ _
    simp only [Item.Covered, Cmd.Covered] at hc
    cases hbody : c.body with
    | edit f =>
      rw [hbody] at hc
      simp only [Body.run]
      rw [← hb1]
      apply botText_setBuf
      rcases hc with hs | ⟨hu, _⟩ | ht
      · left
        unfold boundary; rw [if_pos hs]
        obtain ⟨rest, hr⟩ := saveToUndo_top true k.st
        rw [hr]; simp
      · left
        unfold boundary; split
        · obtain ⟨rest, hr⟩ := saveToUndo_top true k.st
          rw [hr]; simp
        · exact hu
      · right; rw [boundary_buf]; exact ht
    | undo n post =>
      rw [hbody] at hc
      simp only [Body.run]
      rw [botText_setBuf _ _ (Or.inr (hc _)), botText_undoN]; exact hb1
    | redo post =>
      rw [hbody] at hc
      simp only [Body.run]
      rw [botText_setBuf _ _ (Or.inr (hc _)), botText_redo]; exact hb1
    | save cl => simp only [Body.run]; rw [botText_saveToUndo]; exact hb1
    | reset d => rw [hbody] at hc; exact absurd hc id
    | roUndo fx post =>
      rw [hbody] at hc
      obtain ⟨rfl, hp⟩ := hc
      simp only [Body.run]
      rw [botText_setBuf _ _ (Or.inr (hp _)), botText_undoRO]; exact hb1
    | roRedo fx =>
      rw [hbody] at hc
      subst hc
      simp only [Body.run]; rw [botText_redoRO]; exact hb1

theorem botText_run (items : List Item) (k : KSt) (hd : Disciplined items k) :
    botText (runI items k).st = botText k.st := by
  induction items generalizing k with
  | nil => rfl
  | cons it its ih =>
    obtain ⟨h1, h2⟩ := hd
    show botText (runI its (stepI k it)).st = _
    rw [ih _ h2, botText_step k it h1]

theorem pinv_step (isEditH : Nat → Bool) (k : KSt) (c : Cmd)
    (hsaves : isEditH c.h = true → c.rule false = true)
    (hkind : c.body.isEdit = isEditH c.h) (hI : PInv isEditH k) : PInv isEditH (stepK k c) := by
  rw [stepK_eq]
  intro h hh hE
  have hch : h = c.h := by
    cases ho : c.out <;> simp [prevAfter, ho] at hh <;> exact hh.symm
  subst hch
  cases hbody : c.body with
  | edit f =>
    simp only [Body.run]
    unfold boundary
    by_cases hrep : k.prev = some c.h
    · split
      · obtain ⟨rest, hr⟩ := saveToUndo_top true k.st
        exact ⟨by rw [hr]; simp, saveToUndo_true_redo k.st⟩
      · exact hI c.h hrep hE
    · have : c.rule (decide (k.prev = some c.h)) = true := by simp [hrep, hsaves hE]
      rw [if_pos this]
      obtain ⟨rest, hr⟩ := saveToUndo_top true k.st
      exact ⟨by rw [hr]; simp, saveToUndo_true_redo k.st⟩
  | undo n post => rw [hbody] at hkind; rw [← hkind] at hE; cases hE
  | redo post => rw [hbody] at hkind; rw [← hkind] at hE; cases hE
  | save cl => rw [hbody] at hkind; rw [← hkind] at hE; cases hE
  | reset d => rw [hbody] at hkind; rw [← hkind] at hE; cases hE
  | roUndo fx post => rw [hbody] at hkind; rw [← hkind] at hE; cases hE
  | roRedo fx => rw [hbody] at hkind; rw [← hkind] at hE; cases hE

theorem pinv_stepI (isEditH : Nat → Bool) (k : KSt) (it : Item)
    (hsaves : ∀ c, it = .cmd c → isEditH c.h = true → c.rule false = true)
    (hkind : ∀ c, it = .cmd c → c.body.isEdit = isEditH c.h) (hI : PInv isEditH k) :
    PInv isEditH (stepI k it) := by
  cases it with
  | cmd c => exact pinv_step isEditH k c (hsaves c rfl) (hkind c rfl) hI
  | kpReset => intro h hh; simp [stepI, kpReset] at hh
  | cpr => exact hI
  | ext f => exact hI

theorem wf_tail {isEditH : Nat → Bool} {it : Item} {its : List Item} (h : WF isEditH (it :: its)) :
    WF isEditH its :=
  ⟨fun c hc => h.saves c (List.mem_cons_of_mem _ hc), fun c hc => h.kind c (List.mem_cons_of_mem _ hc),
   fun c hc => h.post c (List.mem_cons_of_mem _ hc), fun c hc => h.noReset c (List.mem_cons_of_mem _ hc),
   fun c hc => h.roFixed c (List.mem_cons_of_mem _ hc)⟩

/-- **Theorem B.**  A statically well-formed session (with covered external edits) is disciplined. -/
theorem wf_disciplined (isEditH : Nat → Bool) (items : List Item) (k : KSt) (hwf : WF isEditH items)
    (hext : ExtOK items k) (hI : PInv isEditH k) :
    Disciplined items k ∧ PInv isEditH (runI items k) := by
  induction items generalizing k with
  | nil => exact ⟨trivial, hI⟩
  | cons it its ih =>
    obtain ⟨he1, he2⟩ := hext
    have hstep : PInv isEditH (stepI k it) :=
      pinv_stepI isEditH k it (fun c hc => hwf.saves c (by rw [hc]; simp))
        (fun c hc => hwf.kind c (by rw [hc]; simp)) hI
    obtain ⟨hd, hp⟩ := ih (stepI k it) (wf_tail hwf) he2 hstep
    refine ⟨⟨?_, hd⟩, hp⟩
    cases it with
    | kpReset => trivial
    | cpr => trivial
    | ext f => exact he1
    | cmd c =>
      have hk := hwf.kind c (by simp)
      have hpost := hwf.post c (by simp)
      have hnr := hwf.noReset c (by simp)
      have hro := hwf.roFixed c (by simp)
      simp only [Item.Covered, Cmd.Covered]
      cases hbody : c.body with
      | edit f =>
        have hE : isEditH c.h = true := by rw [← hk, hbody]; rfl
        by_cases hrep : k.prev = some c.h
        · right; left; exact hI c.h hrep hE
        · left; simp [hrep, hwf.saves c (by simp) hE]
      | undo n post => rw [hbody] at hpost; exact hpost
      | redo post => rw [hbody] at hpost; exact hpost
      | save cl => trivial
      | reset d => rw [hbody] at hnr; cases hnr
      | roUndo fx post => rw [hbody] at hpost hro; exact ⟨hro, hpost⟩
      | roRedo fx => rw [hbody] at hro; exact hro

theorem pinv_init (isEditH : Nat → Bool) (b0 : Buf) : PInv isEditH (kInit b0) := by
  intro h hh; simp [kInit] at hh

theorem repeat_step (h : Nat) (rule : Bool → Bool) (g : Buf → Buf) (k : KSt)
    (hp : k.prev = some h) (hr1 : rule true = false) :
    callHandler h rule [Act.edit g] k = { st := { k.st with buf := g k.st.buf }, prev := some h } := by
  simp [callHandler_eq, boundary, hp, hr1, act]

theorem runSame_repeat (h : Nat) (rule : Bool → Bool) (fs : List (Buf → Buf)) (k : KSt)
    (hp : k.prev = some h) (hr1 : rule true = false) :
    (runSame h rule fs k).st.undo = k.st.undo ∧ (runSame h rule fs k).st.redo = k.st.redo := by
  induction fs generalizing k with
  | nil => exact ⟨rfl, rfl⟩
  | cons f fs ih =>
    have := ih (callHandler h rule [Act.edit f] k) (by rw [repeat_step h rule f k hp hr1])
    simp only [runSame, List.foldl_cons] at this ⊢
    rw [repeat_step h rule f k hp hr1] at this ⊢
    exact this

theorem vinv_save (c : Bool) (s : St) (h : VInv s) : VInv (saveToUndo c s) := by
  obtain ⟨hb, hu, hr⟩ := h
  refine ⟨by rw [saveToUndo_buf]; exact hb, ?_, ?_⟩
  · unfold saveToUndo
    cases hs : s.undo with
    | nil => simpa using hb
    | cons top rest =>
      rw [hs] at hu
      by_cases ht : top.text = s.buf.text
      · simp only [ht, if_true]
        intro u hu'
        rcases List.mem_cons.mp hu' with rfl | hu'
        · exact hb
        · exact hu u (List.mem_cons_of_mem _ hu')
      · simp only [ht, if_false]
        intro u hu'
        rcases List.mem_cons.mp hu' with rfl | hu'
        · exact hb
        · exact hu u hu'
  · rw [saveToUndo_redo]; split
    · simp
    · exact hr

theorem vinv_undo (s : St) (h : VInv s) : VInv (undo s) := by
  obtain ⟨hb, hu, hr⟩ := h
  cases hl : undoLoop s.buf s.undo with
  | none => rw [undo_none hl]; exact ⟨hb, by simp, hr⟩
  | some p =>
    obtain ⟨t, rest⟩ := p
    have hs := undoLoop_sublist hl
    rw [undo_some hl]
    refine ⟨hu t (hs.subset (by simp)), fun u hu' => hu u (hs.subset (List.mem_cons_of_mem _ hu')), ?_⟩
    intro r hr'
    rcases List.mem_cons.mp hr' with rfl | hr'
    · exact hb
    · exact hr r hr'

theorem vinv_undoN (n : Nat) (s : St) (h : VInv s) : VInv (undoN n s) := by
  induction n generalizing s with
  | zero => exact h
  | succ n ih => exact ih _ (vinv_undo s h)

theorem vinv_redo (s : St) (h : VInv s) : VInv (redo s) := by
  unfold redo
  cases hr : s.redo with
  | nil => exact h
  | cons r rest =>
    have hs := vinv_save false s h
    obtain ⟨_, _, hr'⟩ := h
    rw [hr] at hr'
    exact ⟨hr' r (by simp), hs.2.1, fun x hx => hr' x (List.mem_cons_of_mem _ hx)⟩

theorem viFix_cases (b : Buf) :
    viFix b = b ∨ viFix b = { text := b.text, cur := b.cur - 1 } := by
  unfold viFix
  dsimp only
  split <;> (split <;> first | (right; rfl) | (left; rfl))

theorem adj_tail {a : Buf} {l : List Buf} (h : AdjDistinct (a :: l)) : AdjDistinct l := by
  cases l with
  | nil => trivial
  | cons b r => exact h.2

theorem adj_suffix {pre l : List Buf} (h : AdjDistinct (pre ++ l)) : AdjDistinct l := by
  induction pre with
  | nil => exact h
  | cons a pre ih => exact ih (adj_tail h)

theorem adj_saveToUndo (c : Bool) (s : St) (h : AdjDistinct s.undo) :
    AdjDistinct (saveToUndo c s).undo := by
  unfold saveToUndo
  cases hs : s.undo with
  | nil => trivial
  | cons top rest =>
    rw [hs] at h
    by_cases ht : top.text = s.buf.text
    · simp only [ht, if_true]
      cases rest with
      | nil => trivial
      | cons y ys => exact ⟨by rw [← ht]; exact h.1, h.2⟩
    · simp only [ht, if_false]
      exact ⟨fun e => ht e.symm, h⟩

theorem adj_undo (s : St) (h : AdjDistinct s.undo) : AdjDistinct (undo s).undo := by
  cases hl : undoLoop s.buf s.undo with
  | none => rw [undo_none hl]; trivial
  | some p =>
    obtain ⟨t, rest⟩ := p
    obtain ⟨pre, h1, _, _⟩ := undoLoop_some hl
    rw [undo_some hl]
    rw [h1] at h
    exact adj_tail (adj_suffix h)

theorem adj_redo (s : St) (h : AdjDistinct s.undo) : AdjDistinct (redo s).undo := by
  unfold redo
  cases s.redo with
  | nil => exact h
  | cons r rest => exact adj_saveToUndo false s h

theorem vinv_undoRO (fx : Bool) (s : St) (h : VInv s) : VInv (undoRO fx s) := by
  unfold undoRO
  split
  · exact h
  · obtain ⟨hb, hu, hr⟩ := h
    cases hl : undoLoop s.buf s.undo with
    | none => exact ⟨hb, by simp, hr⟩
    | some p =>
      obtain ⟨t, rest⟩ := p
      have hs := undoLoop_sublist hl
      refine ⟨hb, fun u hu' => hu u (hs.subset (List.mem_cons_of_mem _ hu')), ?_⟩
      intro r hr'
      rcases List.mem_cons.mp hr' with rfl | hr'
      · exact hb
      · exact hr r hr'

theorem vinv_redoRO (fx : Bool) (s : St) (h : VInv s) : VInv (redoRO fx s) := by
  unfold redoRO
  split
  · exact h
  · cases hr : s.redo with
    | nil => exact h
    | cons r rest =>
      have hs := vinv_save false s h
      obtain ⟨hb, _, hr'⟩ := h
      rw [hr] at hr'
      exact ⟨hb, hs.2.1, fun x hx => hr' x (List.mem_cons_of_mem _ hx)⟩

theorem adj_undoRO (fx : Bool) (s : St) (h : AdjDistinct s.undo) : AdjDistinct (undoRO fx s).undo := by
  unfold undoRO
  split
  · exact h
  · cases hl : undoLoop s.buf s.undo with
    | none => trivial
    | some p =>
      obtain ⟨t, rest⟩ := p
      obtain ⟨pre, h1, _, _⟩ := undoLoop_some hl
      rw [h1] at h
      exact adj_tail (adj_suffix h)

theorem adj_redoRO (fx : Bool) (s : St) (h : AdjDistinct s.undo) : AdjDistinct (redoRO fx s).undo := by
  unfold redoRO
  split
  · exact h
  · cases s.redo with
    | nil => exact h
    | cons r rest => exact adj_saveToUndo false s h

end Ptk.C07
