/-
  C11 — the two main window theorems: after scrolling and copying, for every previous scroll state,
  the cursor cell is drawn inside the window on the cursor's character
  (`wrap_cursor_in_window`, `nowrap_cursor_in_window`), for one-column cells.
-/
import Ptk.Props.C11Lines
namespace Ptk.C11
open Ptk.Py

/-! ### tying the scroll code's measurements to the copy loop's -/

theorem pwE_envFor (W : Widths) (c : Cfg) (width : Int) (height : Nat) (wrap : Bool) (mw l : Nat) :
    pwE (envFor W c width height wrap mw) l = fun k =>
      match c.prefixFn with
      | none => 0
      | some f => (f l k).length := rfl

/-- `get_height_for_line` of the real scroll code = the rows the copy loop uses (`lineH`) -/
theorem heightForLine_eq {W : Widths} (hW : W1 W) (c : Cfg) (width : Int) (height : Nat) (wrap : Bool)
    (mw l w : Nat) (hw : 1 ≤ w) (line : Text) :
    heightForLine W line w (prefixWidths W c.prefixFn l) none =
      lineH (envFor W c width height wrap mw) w l line.length := by
  unfold heightForLine lineH
  rw [if_neg (by omega)]
  simp only [all_one_W1 hW, Bool.false_eq_true, and_false, if_false]
  simp only [measWidth_W1 hW, textWidth_W1 hW, pwE_envFor, prefixWidths]
  cases h : c.prefixFn with
  | none =>
    simp only [Option.map_none, Nat.add_zero]
    exact fast_eq_loop w hw line.length line.length (Nat.le_refl _)
  | some f =>
    simp only [Option.map_some]

theorem heightForLine_stop_eq {W : Widths} (hW : W1 W) (c : Cfg) (width : Int) (height : Nat) (wrap : Bool)
    (mw l w : Nat) (hw : 1 ≤ w) (line : Text) (cx : Nat) (hcx : cx < line.length) :
    heightForLine W line w (prefixWidths W c.prefixFn l) (some (cx + 1)) =
      cursorH (envFor W c width height wrap mw) w l cx := by
  have := heightForLine_eq hW c width height wrap mw l w hw (line.take (cx + 1))
  rw [List.length_take, Nat.min_eq_left (by omega)] at this
  unfold cursorH
  rw [← this]
  unfold heightForLine
  rfl

/-- sum of the line heights as the scroll code adds them = as the copy loop stacks them -/
theorem sumH_eq_sumFrom (e : Env) (w : Nat) (lines : List Text) :
    ∀ (n vs : Nat), vs + n ≤ lines.length →
      sumH e w ((lines.drop vs).take n) vs = sumFrom (fun l => lineH e w l (lines.getD l []).length) vs n := by
  intro n
  induction n with
  | zero => intro vs _; simp [sumH, sumFrom]
  | succ n ih =>
    intro vs h
    have hlt : vs < lines.length := by omega
    have hd : lines.drop vs = lines[vs] :: lines.drop (vs + 1) := by
      rw [List.drop_eq_getElem_cons hlt]
    rw [hd, List.take_succ_cons, sumH, sumFrom, ih (vs + 1) (by omega)]
    congr 2
    simp [List.getD, hlt]

theorem cursorH_le_lineH (e : Env) (w l cx n : Nat) (hpw : ∀ k, pwE e l k < w) (h : cx + 1 ≤ n) :
    cursorH e w l cx ≤ lineH e w l n := by
  unfold cursorH lineH
  rw [heightLoop_fuel _ _ hpw (cx + 1 + pwE e l 0) (n + pwE e l 0) _ _ (Nat.le_refl _) (by omega)]
  exact heightLoop_mono _ _ hpw _ _ _ _ (by omega) (Nat.le_refl _)

theorem split_at {α : Type} (l : List α) (i : Nat) (h : i < l.length) :
    l = l.take i ++ l[i] :: l.drop (i + 1) := by
  conv => lhs; rw [← List.take_append_drop i l, List.drop_eq_getElem_cons h]

theorem drop_split {α : Type} (l : List α) (v i : Nat) (hv : v ≤ i) (h : i < l.length) :
    l.drop v = (l.drop v).take (i - v) ++ l[i] :: l.drop (i + 1) := by
  have h1 : i - v < (l.drop v).length := by simp; omega
  have := split_at (l.drop v) (i - v) h1
  have e1 : (l.drop v)[i - v] = l[i] := by
    rw [List.getElem_drop]; congr 1; omega
  have e2 : (l.drop v).drop (i - v + 1) = l.drop (i + 1) := by
    rw [List.drop_drop]; congr 1; omega
  rw [e1, e2] at this
  exact this

/-- **wrap_cursor_in_window / wrap_cursor_on_char / history independence.**
    Wrapping on, one-column cells, window at least 1×1, every prefix narrower than the window:
    for EVERY previous scroll state `s`, after scrolling (`scrollFor`) and copying (`copyBody`) the
    cell of the cursor `(cy, cx)` is drawn inside the window, `rowcol_to_yx` finds it (so the cursor is
    not reported at the fallback), and the screen cell there shows the cursor's character. -/
theorem wrap_cursor_in_window {W : Widths} (hW : W1 W) (c : Cfg) (lines : List Text) (w height mw : Nat)
    (hw : 1 ≤ w) (hh : 1 ≤ height)
    (hpfx : ∀ f, c.prefixFn = some f → ∀ l k, (f l k).length < w)
    (cy cx : Nat) (hcy : cy < lines.length) (hcx : cx < (lines.getD cy []).length) (s : Scroll) :
    let s' := scrollFor W c lines w height true cy cx s
    let r := copyBody (envFor W c w height true mw) lines s'
    ∃ yc xc : Nat, yc < height ∧ xc < w ∧ cursorFound r cy cx = true ∧
      cursorScreen r cy cx = ((yc : Int) + c.ypos, (xc : Int) + (c.xpos + mw)) ∧
      cellAt r.cells ((yc : Int) + c.ypos, (xc : Int) + (c.xpos + mw)) = [(lines.getD cy [])[cx]] := by
  intro s' r
  let e := envFor W c w height true mw
  have hpw : ∀ l k, pwE e l k < w := by
    intro l k
    show pwE (envFor W c w height true mw) l k < w
    rw [pwE_envFor]
    cases h : c.prefixFn with
    | none => exact hw
    | some f => exact hpfx f h l k
  have hline : lines.getD cy [] = lines[cy] := by simp [List.getD, hcy]
  have hcx' : cx < lines[cy].length := by rw [← hline]; exact hcx
  have hdec := split_at lines[cy] cx hcx'
  have hch : (lines.getD cy [])[cx] = lines[cy][cx] := List.getElem_of_eq hline _
  -- the scroll state
  have hs' : s' = scrollWrap (fun l => lineH e w l (lines.getD l []).length) (cursorH e w cy cx)
      lines.length cy height c.top c.bottom c.beyond s := by
    show scrollFor W c lines w height true cy cx s = _
    unfold scrollFor
    simp only [if_true]
    rw [if_neg (by omega)]
    simp only [Int.toNat_natCast]
    rw [heightForLine_stop_eq hW c w height true mw cy w hw _ cx hcx]
    have : (fun l => heightForLine W (lines.getD l []) w (prefixWidths W c.prefixFn l) none) =
        fun l => lineH e w l (lines.getD l []).length := by
      funext l; exact heightForLine_eq hW c w height true mw l w hw _
    rw [this]
  have hT1 : 1 ≤ cursorH e w cy cx := lineH_pos e w cy (cx + 1) (hpw cy)
  have hTle := cursorH_le_lineH e w cy cx (lines.getD cy []).length (hpw cy) (by omega)
  have hcur : ∀ (vs : Nat) (pre post : List Text) (yc : Int), s'.vs = vs → s'.hs = 0 →
      lines.drop vs = pre ++ (lines[cy].take cx ++ lines[cy][cx] :: lines[cy].drop (cx + 1)) :: post →
      vs + pre.length = cy →
      yc + 1 = -s'.vs2 + (sumH e w pre vs : Nat) + (cursorH e w cy cx : Nat) → 0 ≤ yc → yc < height →
      ∃ yc xc : Nat, yc < height ∧ xc < w ∧ cursorFound r cy cx = true ∧
        cursorScreen r cy cx = ((yc : Int) + c.ypos, (xc : Int) + (c.xpos + mw)) ∧
        cellAt r.cells ((yc : Int) + c.ypos, (xc : Int) + (c.xpos + mw)) = [(lines.getD cy [])[cx]] := by
    intro vs pre post yc h1 h2 h3 h4 h5 h6 h7
    have hlen : (lines[cy].take cx).length = cx := by simp; omega
    have := copyBody_wrap_cursor hW (e := e) rfl w rfl hpw lines pre post (lines[cy].take cx)
      (lines[cy].drop (cx + 1)) lines[cy][cx] s' vs h1 h2 h3 yc (by rw [h4, hlen]; exact h5) h6 h7
    rw [h4, hlen] at this
    obtain ⟨xc, hxc, f1, f2, f3⟩ := this
    refine ⟨yc.toNat, xc, by omega, hxc, f1, ?_, ?_⟩
    · rw [f2]; show (yc + c.ypos, (xc : Int) + (c.xpos + mw)) = _
      rw [Int.toNat_of_nonneg h6]
    · rw [Int.toNat_of_nonneg h6, hch]; exact f3
  by_cases htall : ((lineH e w cy (lines.getD cy []).length : Nat) : Int) > (height : Int) - c.top
  · obtain ⟨t1, t2, t3, t4, t5⟩ := scrollWrap_tall (fun l => lineH e w l (lines.getD l []).length)
      (cursorH e w cy cx) lines.length cy height c.top c.bottom c.beyond s (by omega) hT1 htall
    rw [← hs'] at t1 t2 t3 t4 t5
    refine hcur cy [] (lines.drop (cy + 1)) ((cursorH e w cy cx : Int) - 1 - s'.vs2) t1 t2 ?_ (by simp) ?_
      (by omega) (by omega)
    · rw [List.drop_eq_getElem_cons hcy, ← hdec]; simp
    · simp [sumH]; omega
  · obtain ⟨t1, t2, v, t3, t4, t5⟩ := scrollWrap_fit (fun l => lineH e w l (lines.getD l []).length)
      (cursorH e w cy cx) lines.length cy height c.top c.bottom c.beyond s hcy (by omega) (by omega) htall
    rw [← hs'] at t1 t2 t3
    have hsum := sumH_eq_sumFrom e w lines (cy - v) v (by omega)
    have hsplit : cy + 1 - v = (cy - v) + 1 := by omega
    rw [hsplit, sumFrom_succ_right] at t5
    have hvc : v + (cy - v) = cy := by omega
    rw [hvc] at t5
    have hpl : ((lines.drop v).take (cy - v)).length = cy - v := by simp; omega
    refine hcur v ((lines.drop v).take (cy - v)) (lines.drop (cy + 1))
      ((sumH e w ((lines.drop v).take (cy - v)) v : Nat) + (cursorH e w cy cx : Nat) - 1) t3 t1 ?_
      (by rw [hpl]; omega) (by rw [t2]; omega) (by omega) ?_
    · rw [← hdec]; exact drop_split lines v cy t4 hcy
    · rw [hsum]; push_cast at t5 ⊢; omega

/-- **nowrap_cursor_in_window / nowrap_cursor_on_char / history independence.**
    Wrapping off, one-column cells, window at least 1 high, the cursor line's prefix narrower than
    the window: for EVERY previous scroll state the cursor cell is drawn at row `cy - vertical_scroll`,
    column `prefix + cx - horizontal_scroll`, inside the window, found by `rowcol_to_yx`, showing the
    cursor's character. -/
theorem nowrap_cursor_in_window {W : Widths} (hW : W1 W) (c : Cfg) (lines : List Text) (w height mw : Nat)
    (hh : 1 ≤ height)
    (hpfx : match c.prefixFn with | none => 1 ≤ w | some f => ∀ l, (f l 0).length < w)
    (cy cx : Nat) (hcy : cy < lines.length) (hcx : cx < (lines.getD cy []).length) (s : Scroll) :
    let s' := scrollFor W c lines w height false cy cx s
    let r := copyBody (envFor W c w height false mw) lines s'
    ∃ yc xc : Nat, yc < height ∧ xc < w ∧ (yc : Int) = cy - s'.vs ∧ cursorFound r cy cx = true ∧
      cursorScreen r cy cx = ((yc : Int) + c.ypos, (xc : Int) + (c.xpos + mw)) ∧
      cellAt r.cells ((yc : Int) + c.ypos, (xc : Int) + (c.xpos + mw)) = [(lines.getD cy [])[cx]] := by
  intro s' r
  let e := envFor W c w height false mw
  have hline : lines.getD cy [] = lines[cy] := by simp [List.getD, hcy]
  have hcx' : cx < lines[cy].length := by rw [← hline]; exact hcx
  have hdec := split_at lines[cy] cx hcx'
  have hch : (lines.getD cy [])[cx] = lines[cy][cx] := List.getElem_of_eq hline _
  have hp0 : pwE e cy 0 < w ∧ prefix0Width W c.prefixFn cy = pwE e cy 0 := by
    show pwE (envFor W c w height false mw) cy 0 < w ∧ _ = pwE (envFor W c w height false mw) cy 0
    rw [pwE_envFor]; unfold prefix0Width
    cases h : c.prefixFn with
    | none => rw [h] at hpfx; exact ⟨hpfx, rfl⟩
    | some f => rw [h] at hpfx; exact ⟨hpfx cy, textWidth_W1 hW _⟩
  obtain ⟨hp0, hp0e⟩ := hp0
  -- the scroll state
  have hv := doScroll_visible c.beyond s.vs c.top c.bottom cy height lines.length (by omega) (by omega)
    (by omega) (by omega) (by omega)
  have hh' := doScroll_visible c.beyond s.hs c.left c.right cx ((w : Int) - pwE e cy 0)
    (max ((lines.getD cy []).length : Int) (s.hs + w)) (by omega) (by omega) (by omega) (by omega) (by omega)
  have hs' : s' = { vs := doScroll c.beyond s.vs c.top c.bottom cy height lines.length,
                    hs := doScroll c.beyond s.hs c.left c.right cx ((w : Int) - pwE e cy 0)
                            (max ((lines.getD cy []).length : Int) (s.hs + w)),
                    vs2 := 0 } := by
    show scrollFor W c lines w height false cy cx s = _
    unfold scrollFor scrollNoWrap
    simp only [Bool.false_eq_true, if_false]
    rw [hp0e, measWidth_W1 hW, measWidth_W1 hW, List.length_take, Nat.min_eq_left (by omega)]
  generalize doScroll c.beyond s.vs c.top c.bottom cy height lines.length = V at *
  generalize doScroll c.beyond s.hs c.left c.right cx ((w : Int) - pwE e cy 0)
    (max ((lines.getD cy []).length : Int) (s.hs + w)) = H at *
  have hlen : (lines[cy].take cx).length = cx := by simp; omega
  have hpl : ((lines.drop V.toNat).take (cy - V.toNat)).length = cy - V.toNat := by simp; omega
  have := copyBody_nowrap_cursor hW (e := e) rfl lines ((lines.drop V.toNat).take (cy - V.toNat))
    (lines.drop (cy + 1)) (lines[cy].take cx) (lines[cy].drop (cx + 1)) lines[cy][cx] s' V.toNat H.toNat
    (by rw [hs']; simp; omega) (by rw [hs']; simp; omega) (by rw [hs'])
    (by rw [← hdec]; exact drop_split lines V.toNat cy (by omega) hcy)
    (by rw [hpl]; show ((cy - V.toNat : Nat) : Int) < (height : Int); omega) (by rw [hlen]; omega)
    (by rw [hpl, hlen]
        have : V.toNat + (cy - V.toNat) = cy := by omega
        rw [this]; show _ < (w : Int); omega)
  rw [hpl, hlen] at this
  have hvc : V.toNat + (cy - V.toNat) = cy := by omega
  rw [hvc] at this
  obtain ⟨f1, f2, f3⟩ := this
  refine ⟨cy - V.toNat, pwE e cy 0 + cx - H.toNat, by omega, by omega, by rw [hs']; simp; omega, f1, ?_, ?_⟩
  · rw [f2]; rfl
  · rw [hch]; exact f3

end Ptk.C11
