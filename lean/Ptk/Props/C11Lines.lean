/-
  C11 — whole lines and the whole body copy (wrapping): `get_height_for_line` rows are exactly the
  rows `copy_line` uses, the cursor cell of a wrapped render (`copyBody_wrap_cursor`).
-/
import Ptk.Props.C11Copy
namespace Ptk.C11
open Ptk.Py

/-- width of `get_line_prefix(l, k)` (0 without a prefix function) -/
def pwE (e : Env) (l : Nat) : Nat → Nat := fun k =>
  match e.pfx with
  | none => 0
  | some f => (f l k).length

theorem prefixHook_geom {e : Env} (hW : W1 e.W) (l : Nat)
    (hfit : e.wrap = true → ∀ k, (pwE e l k : Int) ≤ e.width) : HookGeom (pwE e l) (prefixHook e l) := by
  intro st hx hr
  unfold prefixHook pwE
  cases hp : e.pfx with
  | none => simp [hx, hr]
  | some f =>
    simp only []
    unfold copyPlain
    have := fold_flat hW false l 0 id (f l st.wc) { st with col := 0, wc := 0, ret := false } rfl (by
      intro hwr
      have := hfit hwr st.wc
      simp [pwE, hp] at this
      simp [hx]; exact this)
    obtain ⟨a1, a2, _, _, _, _, _⟩ := this
    simp only [] at a1 a2 ⊢
    refine ⟨by rw [a1, hx]; simp, a2, by trivial, by trivial, by trivial⟩

@[simp] theorem lineInit_x (st : CS) : (lineInit st).x = st.x := rfl
@[simp] theorem lineInit_y (st : CS) : (lineInit st).y = st.y := rfl
@[simp] theorem lineInit_wc (st : CS) : (lineInit st).wc = 0 := rfl
@[simp] theorem lineInit_col (st : CS) : (lineInit st).col = 0 := rfl
@[simp] theorem lineInit_ret (st : CS) : (lineInit st).ret = false := rfl
@[simp] theorem lineInit_rc (st : CS) : (lineInit st).rc = st.rc := rfl
@[simp] theorem lineInit_cells (st : CS) : (lineInit st).cells = st.cells := rfl
@[simp] theorem lineInit_vl (st : CS) : (lineInit st).vl = st.vl := rfl
@[simp] theorem lineInit_rowCol (st : CS) : (lineInit st).rowCol = st.rowCol := rfl

/-- rows a whole line needs according to `get_height_for_line` (slow path form) -/
def lineH (e : Env) (w l : Nat) (n : Nat) : Nat :=
  heightLoop (pwE e l) w (n + pwE e l 0) (n + pwE e l 0) 1

/-- the state `copy_line` starts its character loop in (wrapping, no horizontal scroll) -/
theorem copyLine_wrap_unfold (e : Env) (l : Nat) (line : Text) (st : CS) :
    copyLine e 0 l line st =
      line.foldl (step e true l 0 (prefixHook e l))
        (prefixHook e l (lineInit st)) := by
  unfold copyLine hskip shiftX
  simp

/-- a wrapped line uses exactly `get_height_for_line` rows (`wrap_height_exact`), as long as
    it fits above the bottom of the window -/
theorem copyLine_wrap_rows {e : Env} (hW : W1 e.W) (hwrap : e.wrap = true) (w : Nat) (hw : e.width = w)
    (l : Nat) (hpw : ∀ k, pwE e l k < w) (line : Text) (st : CS) (hx : st.x = 0)
    (hy : st.y + (lineH e w l line.length : Nat) ≤ e.height) :
    let r := copyLine e 0 l line st
    r.ret = false ∧ r.y + 1 = st.y + (lineH e w l line.length : Nat) := by
  rw [copyLine_wrap_unfold]
  have hg := prefixHook_geom hW l (fun _ k => by rw [hw]; exact_mod_cast Nat.le_of_lt (hpw k))
  obtain ⟨q1, q2, q3, q4, q5⟩ := hg (lineInit st) hx rfl
  simp only [lineInit_y, lineInit_wc, lineInit_col] at q1 q2 q3 q4
  have := fold_wrap_geom hW hwrap w hw (pwE e l) hpw true l 0 (prefixHook e l) hg line
    (prefixHook e l (lineInit st)) (pwE e l 0) (line.length + pwE e l 0)
    q5 (by rw [q1]) (by rw [q3]; exact Nat.le_refl _) (Nat.le_of_lt (hpw 0)) (by omega)
    (by rw [q2, q3]; simp only [lineH] at hy; rw [Nat.add_comm (pwE e l 0)]; push_cast at hy ⊢; omega)
  obtain ⟨r1, r2, _⟩ := this
  refine ⟨r1, ?_⟩
  rw [q2, q3, Nat.add_comm (pwE e l 0)] at r2
  simp only [lineH]
  push_cast at r2 ⊢; omega

/-- rows needed up to and including the cell of column `cx` (`text_before_height`) -/
def cursorH (e : Env) (w l cx : Nat) : Nat := lineH e w l (cx + 1)

theorem find_head {α β : Type} [BEq α] (k : α) (hd : α × β) (tl : List (α × β)) (h : (hd.1 == k) = true) :
    (hd :: tl).find? (fun e => e.1 == k) = some hd := by
  simp [h]

/-- the cursor cell of a wrapped line: drawn at the row `text_before_height - 1` of the line,
    inside the window, showing the cursor's character; later writes do not touch it -/
theorem copyLine_wrap_cursor {e : Env} (hW : W1 e.W) (hwrap : e.wrap = true) (w : Nat) (hw : e.width = w)
    (l : Nat) (hpw : ∀ k, pwE e l k < w) (a b : Text) (c : Char) (st : CS) (hx : st.x = 0)
    (yc : Int) (hyc : yc + 1 = st.y + (cursorH e w l a.length : Nat)) (h0 : 0 ≤ yc) (h1 : yc < e.height) :
    let r := copyLine e 0 l (a ++ c :: b) st
    ∃ xc : Nat, xc < w ∧
      r.rc.find? (fun p => p.1 == (l, a.length)) = some ((l, a.length), (yc + e.ypos, (xc : Int) + e.xpos)) ∧
      cellAt r.cells (yc + e.ypos, (xc : Int) + e.xpos) = [c] ∧ yc ≤ r.y ∧
      (∃ nw, r.rc = nw ++ st.rc) ∧ (∃ nw, r.cells = nw ++ st.cells) := by
  rw [copyLine_wrap_unfold]
  have hg := prefixHook_geom hW l (fun _ k => by rw [hw]; exact_mod_cast Nat.le_of_lt (hpw k))
  obtain ⟨q1, q2, q3, q4, q5⟩ := hg (lineInit st) hx rfl
  simp only [lineInit_y, lineInit_wc, lineInit_col] at q1 q2 q3 q4
  have hsplit : a ++ c :: b = (a ++ [c]) ++ b := by simp
  rw [hsplit, List.foldl_append]
  have hlen : (a ++ [c]).length = a.length + 1 := by simp
  have := fold_wrap_geom hW hwrap w hw (pwE e l) hpw true l 0 (prefixHook e l) hg (a ++ [c])
    (prefixHook e l (lineInit st)) (pwE e l 0) (a.length + 1 + pwE e l 0)
    q5 (by rw [q1]) (by rw [q3]; exact Nat.le_refl _) (Nat.le_of_lt (hpw 0)) (by rw [hlen]; omega)
    (by rw [q2, q3, hlen, Nat.add_comm (pwE e l 0)]; simp only [cursorH, lineH] at hyc
        push_cast at hyc ⊢; omega)
  have hext0 := (prefixHook_ok hW true l 0 (lineInit st)).trans
    (fold_ext hW true l 0 (prefixHook e l) (prefixHook_ok hW true l 0) (a ++ [c]) (prefixHook e l (lineInit st)))
  have hext := fold_ext hW true l 0 (prefixHook e l) (prefixHook_ok hW true l 0) b
    (List.foldl (step e true l 0 (prefixHook e l)) (prefixHook e l (lineInit st)) (a ++ [c]))
  generalize List.foldl (step e true l 0 (prefixHook e l)) (prefixHook e l (lineInit st)) (a ++ [c]) = m at *
  generalize List.foldl (step e true l 0 (prefixHook e l)) m b = r at *
  obtain ⟨r1, r2, ⟨xr, x1, x2, x3, x4⟩, r4, r5⟩ := this
  rw [q2, q3, hlen, Nat.add_comm (pwE e l 0)] at r2
  simp only [cursorH, lineH] at hyc
  have hmy : m.y = yc := by
    push_cast at r2 hyc; omega
  have hxr : 0 < xr := by have := x4 (by simp); omega
  obtain ⟨k1, k2⟩ := r5 c (by simp) (by rw [hmy]; exact h0)
  have k2 := k2 rfl
  rw [hmy, x1] at k1 k2
  rw [q4, hlen] at k2
  -- the rest of the line and its prefixes
  obtain ⟨⟨nr, hnr, _, hkeys⟩, ⟨nc, hnc, hpos⟩, hposy⟩ := (⟨hext.rc, hext.cells, hext.pos⟩ :
    _ ∧ _ ∧ _)
  -- the entries before the cursor's: prefix of the start state
  obtain ⟨nr0, hnr0, _, _⟩ := hext0.rc
  obtain ⟨nc0, hnc0, _⟩ := hext0.cells
  refine ⟨xr - 1, by omega, ?_, ?_, ?_, ⟨nr ++ nr0, by rw [hnr, hnr0]; simp⟩, ⟨nc ++ nc0, by rw [hnc, hnc0]; simp⟩⟩
  · rw [hnr, find_rc_append]
    · cases hrc : m.rc with
      | nil => rw [hrc] at k2; simp at k2
      | cons hd tl =>
        rw [hrc] at k2; simp at k2
        rw [find_head _ hd tl (by rw [k2]; simp)]
        rw [k2]; congr 3; simp; omega
    · intro p hp
      have := hkeys p hp
      rw [r4, q4, hlen] at this
      intro he; rw [he] at this; simp at this; omega
  · rw [hnc, cellAt_append]
    · cases hcl : m.cells with
      | nil => rw [hcl] at k1; simp at k1
      | cons hd tl =>
        rw [hcl] at k1; simp at k1
        unfold cellAt
        rw [find_head _ hd tl (by rw [k1]; simp; omega)]
        rw [k1]
    · intro p hp
      have := hpos p hp
      rw [hmy, x1] at this
      intro he; rw [he] at this
      unfold Later at this; simp at this; omega
  · rw [hmy] at hposy; unfold Later at hposy; omega

/-! ### whole lines -/

/-- weak footprint of copying lines starting at `a`: never moves up, writes cells only on rows
    `≥ a.y`, adds `rowcol_to_yx` entries only for lines `≥ l0` -/
structure ExtY (e : Env) (l0 : Nat) (a r : CS) : Prop where
  y : a.y ≤ r.y
  cells : ∃ nw, r.cells = nw ++ a.cells ∧ ∀ p ∈ nw, a.y + e.ypos ≤ p.1.1
  rc : ∃ nw, r.rc = nw ++ a.rc ∧ ∀ p ∈ nw, l0 ≤ p.1.1

theorem ExtY.refl (e : Env) (l0 : Nat) (a : CS) : ExtY e l0 a a :=
  ⟨Int.le_refl _, ⟨[], rfl, by simp⟩, ⟨[], rfl, by simp⟩⟩

theorem ExtY.trans {e : Env} {l0 l1 : Nat} {a b c : CS} (hl : l0 ≤ l1) (h1 : ExtY e l0 a b)
    (h2 : ExtY e l1 b c) : ExtY e l0 a c := by
  obtain ⟨y1, ⟨n1, e1, f1⟩, ⟨m1, g1, k1⟩⟩ := h1
  obtain ⟨y2, ⟨n2, e2, f2⟩, ⟨m2, g2, k2⟩⟩ := h2
  refine ⟨Int.le_trans y1 y2, ⟨n2 ++ n1, by simp [e2, e1], ?_⟩, ⟨m2 ++ m1, by simp [g2, g1], ?_⟩⟩
  · intro p hp
    rcases List.mem_append.mp hp with hp | hp
    · have := f2 p hp; omega
    · exact f1 p hp
  · intro p hp
    rcases List.mem_append.mp hp with hp | hp
    · have := k2 p hp; omega
    · exact k1 p hp

theorem Ext.toExtY {e : Env} {i : Bool} {l s : Nat} {a r : CS} (h : Ext e i l s a r) : ExtY e l a r := by
  obtain ⟨p, _, ⟨n, en, fn⟩, ⟨m, em, _, km⟩⟩ := h
  refine ⟨by unfold Later at p; omega, ⟨n, en, fun q hq => ?_⟩, ⟨m, em, fun q hq => ?_⟩⟩
  · have := fn q hq; unfold Later at this; omega
  · have := (km q hq).1; omega

theorem copyLine_extY {e : Env} (hW : W1 e.W) (hs : Int) (l : Nat) (line : Text) (st : CS) :
    ExtY e l st (copyLine e hs l line st) := by
  unfold copyLine
  have h1 : ExtY e l st (prefixHook e l (lineInit st)) := by
    have := (prefixHook_ok hW true l 0 (lineInit st)).toExtY
    exact ⟨this.y, this.cells, this.rc⟩
  generalize prefixHook e l (lineInit st) = s1 at *
  generalize hskip e.W hs line = tr
  obtain ⟨h, ln, sk⟩ := tr
  simp only []
  have h2 : ExtY e l s1 (shiftX s1 h) := ⟨Int.le_refl _, ⟨[], rfl, by simp⟩, ⟨[], rfl, by simp⟩⟩
  have h3 := (fold_ext hW true l sk (prefixHook e l) (prefixHook_ok hW true l sk) ln (shiftX s1 h)).toExtY
  exact (h1.trans (Nat.le_refl _) h2).trans (Nat.le_refl _) h3

theorem copyLines_extY {e : Env} (hW : W1 e.W) (hs : Int) (lines : List Text) :
    ∀ (l0 : Nat) (st : CS), ExtY e l0 st (copyLines e hs lines l0 st) := by
  induction lines with
  | nil => intro l0 st; exact ExtY.refl ..
  | cons ln rest ih =>
    intro l0 st
    unfold copyLines
    split
    · have h1 : ExtY e l0 st (lineStart hs l0 st) :=
        ⟨Int.le_refl _, ⟨[], rfl, by simp⟩, ⟨[], rfl, by simp⟩⟩
      have h2 := copyLine_extY hW hs l0 ln (lineStart hs l0 st)
      generalize copyLine e hs l0 ln (lineStart hs l0 st) = s2 at *
      have h3 : ExtY e l0 s2 (lineEnd s2) :=
        ⟨by show s2.y ≤ s2.y + 1; omega, ⟨[], rfl, by simp⟩, ⟨[], rfl, by simp⟩⟩
      have h4 := ih (l0 + 1) (lineEnd s2)
      exact ExtY.trans (Nat.le_succ l0) ((h1.trans (Nat.le_refl _) h2).trans (Nat.le_refl _) h3) h4
    · exact ExtY.refl ..

theorem copyLines_append (e : Env) (hs : Int) (pre rest : List Text) :
    ∀ (l0 : Nat) (st : CS),
      copyLines e hs (pre ++ rest) l0 st = copyLines e hs rest (l0 + pre.length) (copyLines e hs pre l0 st) := by
  induction pre with
  | nil => intro l0 st; simp [copyLines]
  | cons ln pre ih =>
    intro l0 st
    simp only [List.cons_append, List.length_cons]
    by_cases hy : st.y < e.height
    · rw [copyLines, if_pos hy, copyLines, if_pos hy, ih]
      congr 1; omega
    · rw [copyLines, if_neg hy, copyLines, if_neg hy]
      cases rest with
      | nil => rfl
      | cons r rs => rw [copyLines, if_neg hy]

/-- rows the lines `ts` (numbered from `l`) need together -/
def sumH (e : Env) (w : Nat) : List Text → Nat → Nat
  | [], _ => 0
  | t :: ts, l => lineH e w l t.length + sumH e w ts (l + 1)

/-- wrapped lines that fit above the bottom of the window are stacked without gaps -/
theorem copyLines_wrap_fit {e : Env} (hW : W1 e.W) (hwrap : e.wrap = true) (w : Nat) (hw : e.width = w)
    (hpw : ∀ l k, pwE e l k < w) (pre : List Text) :
    ∀ (l0 : Nat) (st : CS), st.y + (sumH e w pre l0 : Nat) < e.height →
      (copyLines e 0 pre l0 st).y = st.y + (sumH e w pre l0 : Nat) := by
  induction pre with
  | nil => intro l0 st _; simp [copyLines, sumH]
  | cons t ts ih =>
    intro l0 st hy
    simp only [sumH] at hy ⊢
    push_cast at hy ⊢
    rw [copyLines, if_pos (by omega)]
    have h1 := copyLine_wrap_rows hW hwrap w hw l0 (hpw l0) t (lineStart 0 l0 st) rfl
      (by show st.y + _ ≤ _; omega)
    obtain ⟨_, h2⟩ := h1
    have h2 : (copyLine e 0 l0 t (lineStart 0 l0 st)).y + 1 = st.y + (lineH e w l0 t.length : Nat) := h2
    rw [ih (l0 + 1) (lineEnd _) (by show (copyLine e 0 l0 t (lineStart 0 l0 st)).y + 1 + _ < _; omega)]
    show (copyLine e 0 l0 t (lineStart 0 l0 st)).y + 1 + _ = _
    omega

theorem lineH_pos (e : Env) (w l n : Nat) (hpw : ∀ k, pwE e l k < w) : 1 ≤ lineH e w l n :=
  heightLoop_ge _ _ hpw _ _ _

/-- **the cursor cell after a wrapped render** (model level): if the scroll state puts the row of the
    cursor cell inside the window, the cell is drawn there, `rowcol_to_yx` finds it, it shows the
    cursor's character, and nothing drawn later overwrites it. -/
theorem copyBody_wrap_cursor {e : Env} (hW : W1 e.W) (hwrap : e.wrap = true) (w : Nat) (hw : e.width = w)
    (hpw : ∀ l k, pwE e l k < w) (lines pre post : List Text) (a b : Text) (c : Char) (s : Scroll)
    (vs : Nat) (hvs : s.vs = vs) (hhs : s.hs = 0)
    (hsplit : lines.drop vs = pre ++ (a ++ c :: b) :: post)
    (yc : Int) (hyc : yc + 1 = -s.vs2 + (sumH e w pre vs : Nat) + (cursorH e w (vs + pre.length) a.length : Nat))
    (h0 : 0 ≤ yc) (h1 : yc < e.height) :
    let r := copyBody e lines s
    ∃ xc : Nat, xc < w ∧ cursorFound r (vs + pre.length) a.length = true ∧
      cursorScreen r (vs + pre.length) a.length = (yc + e.ypos, (xc : Int) + e.xpos) ∧
      cellAt r.cells (yc + e.ypos, (xc : Int) + e.xpos) = [c] := by
  have hT := lineH_pos e w (vs + pre.length) (a.length + 1) (hpw _)
  unfold copyBody
  rw [hvs, hhs]
  simp only [Int.toNat_natCast]
  rw [hsplit, copyLines_append]
  have hpre := copyLines_wrap_fit hW hwrap w hw hpw pre vs (initCS s.vs2) (by
    show -s.vs2 + _ < _; simp only [cursorH] at hyc; omega)
  have hpre : (copyLines e 0 pre vs (initCS s.vs2)).y = -s.vs2 + (sumH e w pre vs : Nat) := hpre
  generalize copyLines e 0 pre vs (initCS s.vs2) = s1 at *
  rw [copyLines, if_pos (by simp only [cursorH] at hyc; omega)]
  have hc := copyLine_wrap_cursor hW hwrap w hw (vs + pre.length) (hpw _) a b c (lineStart 0 (vs + pre.length) s1)
    rfl yc (by show yc + 1 = s1.y + _; omega) h0 h1
  obtain ⟨xc, hxc, hfind, hcell, hyr, _, _⟩ := hc
  generalize copyLine e 0 (vs + pre.length) (a ++ c :: b) (lineStart 0 (vs + pre.length) s1) = s2 at *
  have hpost := copyLines_extY hW 0 post (vs + pre.length + 1) (lineEnd s2)
  obtain ⟨_, ⟨nc, hnc, hcy⟩, ⟨nr, hnr, hrow⟩⟩ := hpost
  have hnc : (copyLines e 0 post (vs + pre.length + 1) (lineEnd s2)).cells = nc ++ s2.cells := hnc
  have hnr : (copyLines e 0 post (vs + pre.length + 1) (lineEnd s2)).rc = nr ++ s2.rc := hnr
  have hfind' : (copyLines e 0 post (vs + pre.length + 1) (lineEnd s2)).rc.find?
      (fun p => p.1 == (vs + pre.length, a.length)) =
      some ((vs + pre.length, a.length), (yc + e.ypos, (xc : Int) + e.xpos)) := by
    rw [hnr, find_rc_append _ _ _ (fun p hp he => by have := hrow p hp; rw [he] at this; simp at this; omega)]
    exact hfind
  refine ⟨xc, hxc, ?_, ?_, ?_⟩
  · simp [cursorFound, hfind']
  · simp [cursorScreen, hfind']
  · rw [hnc, cellAt_append _ _ _ (fun p hp he => by
      have := hcy p hp; rw [he] at this
      have hy2 : (lineEnd s2).y = s2.y + 1 := rfl
      simp only [hy2] at this; omega)]
    exact hcell

/-! ### no wrapping -/

theorem skipLoop_W1 {W : Widths} (hW : W1 W) (line : Text) :
    ∀ (h : Nat) (k : Nat), h ≤ line.length →
      skipLoop W (h : Int) line k = (0, line.drop h, k + h) := by
  induction line with
  | nil => intro h k hh; simp at hh; subst hh; simp [skipLoop]
  | cons c cs ih =>
    intro h k hh
    cases h with
    | zero => simp [skipLoop]
    | succ h =>
      rw [skipLoop, if_pos (by omega)]
      have : ((h + 1 : Nat) : Int) - (measure W c : Nat) = (h : Int) := by rw [measure_W1 hW]; push_cast; omega
      rw [this, ih h (k + 1) (by simpa using hh)]
      simp; omega

theorem hskip_W1 {W : Widths} (hW : W1 W) (line : Text) (h : Nat) (hh : h ≤ line.length) :
    hskip W (h : Int) line = (0, line.drop h, h) := by
  unfold hskip
  split
  · rw [skipLoop_W1 hW line h 0 hh]; simp
  · rename_i h0
    have : h = 0 := by simpa using h0
    subst this; simp

theorem step_nowrap {e : Env} (hwrap : e.wrap = false) (i : Bool) (l s : Nat) (hook : CS → CS) (st : CS)
    (c : Char) (hr : st.ret = false) : step e i l s hook st c = putChar e i l s st c := by
  unfold step
  rw [if_neg (by simp [hr]), if_neg (by simp [hwrap])]

/-- without wrapping a line stays on its row -/
theorem copyLine_nowrap_y {e : Env} (hW : W1 e.W) (hwrap : e.wrap = false) (hs : Int) (l : Nat)
    (line : Text) (st : CS) : (copyLine e hs l line st).y = st.y := by
  unfold copyLine
  have hg := prefixHook_geom hW l (fun h => by simp [hwrap] at h)
  -- the prefix may even be wider than the window: `x` is all that moves
  have hy1 : (prefixHook e l (lineInit st)).y = st.y ∧ (prefixHook e l (lineInit st)).ret = false := by
    unfold prefixHook
    split
    · simp
    · unfold copyPlain
      rename_i f _
      have := fold_flat hW false l 0 id (f l (lineInit st).wc)
        { lineInit st with col := 0, wc := 0, ret := false } rfl (fun h => by simp [hwrap] at h)
      exact ⟨this.2.1, rfl⟩
  generalize prefixHook e l (lineInit st) = s1 at *
  generalize hskip e.W hs line = tr
  obtain ⟨h, ln, sk⟩ := tr
  have := fold_flat hW true l sk (prefixHook e l) ln (shiftX s1 h) hy1.2 (fun h => by simp [hwrap] at h)
  simp only []
  rw [this.2.1]; exact hy1.1

theorem copyLines_nowrap_y {e : Env} (hW : W1 e.W) (hwrap : e.wrap = false) (hs : Int) (pre : List Text) :
    ∀ (l0 : Nat) (st : CS), st.y + pre.length ≤ e.height →
      (copyLines e hs pre l0 st).y = st.y + pre.length := by
  induction pre with
  | nil => intro l0 st _; simp [copyLines]
  | cons t ts ih =>
    intro l0 st hy
    simp only [List.length_cons] at hy ⊢
    push_cast at hy ⊢
    rw [copyLines, if_pos (by omega)]
    have h1 : (lineEnd (copyLine e hs l0 t (lineStart hs l0 st))).y = st.y + 1 := by
      show (copyLine e hs l0 t (lineStart hs l0 st)).y + 1 = _
      rw [copyLine_nowrap_y hW hwrap]; rfl
    rw [ih (l0 + 1) _ (by rw [h1]; omega), h1]; omega

/-- the cursor cell of an unwrapped line: column `prefix + cx - horizontal_scroll` of its row -/
theorem copyLine_nowrap_cursor {e : Env} (hW : W1 e.W) (hwrap : e.wrap = false) (l : Nat)
    (a b : Text) (c : Char) (hs : Nat) (hhs : hs ≤ a.length) (st : CS) (hx : st.x = 0) (hy0 : 0 ≤ st.y)
    (hvis : ((pwE e l 0 + a.length - hs : Nat) : Int) < e.width) :
    let r := copyLine e hs l (a ++ c :: b) st
    let xc := pwE e l 0 + a.length - hs
    r.rc.find? (fun p => p.1 == (l, a.length)) = some ((l, a.length), (st.y + e.ypos, (xc : Int) + e.xpos)) ∧
      cellAt r.cells (st.y + e.ypos, (xc : Int) + e.xpos) = [c] := by
  unfold copyLine
  rw [hskip_W1 hW _ hs (by simp; omega)]
  simp only []
  have hdrop : (a ++ c :: b).drop hs = (a.drop hs ++ [c]) ++ b := by
    rw [List.drop_append_of_le_length hhs]; simp
  rw [hdrop, List.foldl_append, List.foldl_append]
  have hg := prefixHook_geom hW l (fun h => by simp [hwrap] at h)
  obtain ⟨q1, q2, q3, q4, q5⟩ := hg (lineInit st) hx rfl
  simp only [lineInit_y, lineInit_wc, lineInit_col] at q1 q2 q3 q4
  have hsx : shiftX (prefixHook e l (lineInit st)) 0 = prefixHook e l (lineInit st) := by
    unfold shiftX; simp
  rw [hsx]
  generalize prefixHook e l (lineInit st) = s1 at *
  have hf := fold_flat hW true l hs (prefixHook e l) (a.drop hs) s1 q5 (fun h => by simp [hwrap] at h)
  obtain ⟨f1, f2, _, f4, f5, _, _⟩ := hf
  generalize List.foldl (step e true l hs (prefixHook e l)) s1 (a.drop hs) = m1 at *
  simp only [List.foldl_cons, List.foldl_nil]
  rw [step_nowrap hwrap true l hs _ m1 c f5]
  have hm1x : m1.x = ((pwE e l 0 + a.length - hs : Nat) : Int) := by
    rw [f1, q1]; simp; omega
  have hv : 0 ≤ m1.x ∧ 0 ≤ m1.y ∧ m1.x < e.width := by
    refine ⟨by rw [hm1x]; simp, by rw [f2, q2]; exact hy0, by rw [hm1x]; exact hvis⟩
  obtain ⟨k1, k2⟩ := putChar_heads hW true l hs m1 c hv
  have k2 := k2 rfl
  obtain ⟨gx, gy, _, gc, _, _, _⟩ := putChar_geom hW true l hs m1 c
  have hext := fold_ext hW true l hs (prefixHook e l) (prefixHook_ok hW true l hs) b (putChar e true l hs m1 c)
  generalize putChar e true l hs m1 c = m2 at *
  obtain ⟨nr, hnr, _, hkeys⟩ := hext.rc
  obtain ⟨nc, hnc, hpos⟩ := hext.cells
  generalize List.foldl (step e true l hs (prefixHook e l)) m2 b = r at *
  have hcol : m1.col + hs = a.length := by rw [f4, q4]; simp; omega
  rw [f2, q2, hm1x] at k1 k2
  rw [hcol] at k2
  constructor
  · rw [hnr, find_rc_append]
    · cases hrc : m2.rc with
      | nil => rw [hrc] at k2; simp at k2
      | cons hd tl =>
        rw [hrc] at k2; simp at k2
        rw [find_head _ hd tl (by rw [k2]; simp)]
        rw [k2]
    · intro p hp he
      have := (hkeys p hp).2
      rw [he, gc] at this; simp at this; omega
  · rw [hnc, cellAt_append]
    · cases hcl : m2.cells with
      | nil => rw [hcl] at k1; simp at k1
      | cons hd tl =>
        rw [hcl] at k1; simp at k1
        unfold cellAt
        rw [find_head _ hd tl (by rw [k1]; simp)]
        rw [k1]
    · intro p hp he
      have := hpos p hp
      rw [he, gx, gy, f2, q2, hm1x] at this
      unfold Later at this; simp at this; omega

/-- **the cursor cell after an unwrapped render** (model level) -/
theorem copyBody_nowrap_cursor {e : Env} (hW : W1 e.W) (hwrap : e.wrap = false)
    (lines pre post : List Text) (a b : Text) (c : Char) (s : Scroll)
    (vs hs : Nat) (hvs : s.vs = vs) (hhs : s.hs = hs) (hv2 : s.vs2 = 0)
    (hsplit : lines.drop vs = pre ++ (a ++ c :: b) :: post)
    (hrow : (pre.length : Int) < e.height) (hle : hs ≤ a.length)
    (hvis : ((pwE e (vs + pre.length) 0 + a.length - hs : Nat) : Int) < e.width) :
    let r := copyBody e lines s
    let xc := pwE e (vs + pre.length) 0 + a.length - hs
    cursorFound r (vs + pre.length) a.length = true ∧
      cursorScreen r (vs + pre.length) a.length = ((pre.length : Int) + e.ypos, (xc : Int) + e.xpos) ∧
      cellAt r.cells ((pre.length : Int) + e.ypos, (xc : Int) + e.xpos) = [c] := by
  unfold copyBody
  rw [hvs, hhs, hv2]
  simp only [Int.toNat_natCast]
  rw [hsplit, copyLines_append]
  have hpre := copyLines_nowrap_y hW hwrap hs pre vs (initCS 0) (by show -0 + _ ≤ _; omega)
  have hpre : (copyLines e hs pre vs (initCS 0)).y = pre.length := by rw [hpre]; show -0 + _ = _; omega
  generalize copyLines e hs pre vs (initCS 0) = s1 at *
  rw [copyLines, if_pos (by omega)]
  have hc := copyLine_nowrap_cursor hW hwrap (vs + pre.length) a b c hs hle (lineStart hs (vs + pre.length) s1)
    rfl (by show 0 ≤ s1.y; omega) hvis
  obtain ⟨hfind, hcell⟩ := hc
  have hy2 := copyLine_nowrap_y hW hwrap hs (vs + pre.length) (a ++ c :: b) (lineStart hs (vs + pre.length) s1)
  have hsy : (lineStart (hs : Int) (vs + pre.length) s1).y = pre.length := hpre
  rw [hsy] at hfind hcell hy2
  generalize copyLine e hs (vs + pre.length) (a ++ c :: b) (lineStart hs (vs + pre.length) s1) = s2 at *
  have hpost := copyLines_extY hW hs post (vs + pre.length + 1) (lineEnd s2)
  obtain ⟨_, ⟨nc, hnc, hcy⟩, ⟨nr, hnr, hrw⟩⟩ := hpost
  have hnc : (copyLines e hs post (vs + pre.length + 1) (lineEnd s2)).cells = nc ++ s2.cells := hnc
  have hnr : (copyLines e hs post (vs + pre.length + 1) (lineEnd s2)).rc = nr ++ s2.rc := hnr
  have hfind' : (copyLines e hs post (vs + pre.length + 1) (lineEnd s2)).rc.find?
      (fun p => p.1 == (vs + pre.length, a.length)) =
      some ((vs + pre.length, a.length), ((pre.length : Int) + e.ypos,
        ((pwE e (vs + pre.length) 0 + a.length - hs : Nat) : Int) + e.xpos)) := by
    rw [hnr, find_rc_append _ _ _ (fun p hp he => by have := hrw p hp; rw [he] at this; simp at this; omega)]
    exact hfind
  refine ⟨?_, ?_, ?_⟩
  · simp [cursorFound, hfind']
  · simp [cursorScreen, hfind']
  · rw [hnc, cellAt_append _ _ _ (fun p hp he => by
      have := hcy p hp; rw [he] at this
      have hy3 : (lineEnd s2).y = s2.y + 1 := rfl
      simp only [hy3, hy2] at this; omega)]
    exact hcell

end Ptk.C11
