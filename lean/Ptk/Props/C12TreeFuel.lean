/-
  C12 — nested containers never run out of an EXPLICIT fuel (`Ptk.Model.C12Tree.treeFuel`).

  `render_total`: if no `_all_children` list of the tree is longer than `N`, no window or padding
  carries a weight above `W`, and the region is at most `A` wide and high, then with
  `fuel ≥ A · N · (W + 1) + 3 N + 3` every `_divide_widths` / `_divide_heights` that
  `write_to_screen` (and the `preferred_height` calls inside it) performs answers: the sizes
  handed down only shrink, the dimensions reported upwards carry the weights of the tree or the
  default weight.  `render_treeFuel`: the bound computed from the tree itself.
-/
import Ptk.Props.C12Tree
import Ptk.Props.C12Fuel
namespace Ptk.C12

/-- no split of the tree has more than `N` entries in `_all_children`, no window or padding a
    weight above `W` -/
inductive Node.Bounded (N W : Nat) : Node → Prop
  | win {id : Nat} {w h : Dim} : w.weight ≤ W → h.weight ≤ W → Node.Bounded N W (.win id w h)
  | hsplit {al : Align} {pad : Dim} {cs : List Node} :
      pad.weight ≤ W → 2 * cs.length + 1 ≤ N → (∀ c ∈ cs, Node.Bounded N W c) →
      Node.Bounded N W (.hsplit al pad cs)
  | vsplit {al : Align} {pad : Dim} {cs : List Node} :
      pad.weight ≤ W → 2 * cs.length + 1 ≤ N → (∀ c ∈ cs, Node.Bounded N W c) →
      Node.Bounded N W (.vsplit al pad cs)
  | winx {id : Nat} {sw sh : Spec} {cw ch : Option Nat} {dew deh : Bool} :
      sw.w.getD Gen.C12.defaultWeight ≤ W → sh.w.getD Gen.C12.defaultWeight ≤ W →
      Node.Bounded N W (.winx id sw sh cw ch dew deh)
  | cond {on : Bool} {c : Node} : Node.Bounded N W c → Node.Bounded N W (.cond on c)
  | sized {w h : Option Dim} {c : Node} :
      (∀ d, w = some d → d.weight ≤ W) → (∀ d, h = some d → d.weight ≤ W) →
      Node.Bounded N W c → Node.Bounded N W (.sized w h c)

theorem mapM?_some {α β : Type} {f : α → Option β} :
    ∀ {l : List α}, (∀ a ∈ l, ∃ b, f a = some b) → ∃ bs, mapM? f l = some bs := by
  intro l
  induction l with
  | nil => intro _; exact ⟨[], rfl⟩
  | cons a as ih =>
    intro h
    obtain ⟨b, hb⟩ := h a List.mem_cons_self
    obtain ⟨bs, hbs⟩ := ih (fun x hx => h x (List.mem_cons_of_mem _ hx))
    exact ⟨b :: bs, by unfold mapM?; rw [hb, hbs]⟩

theorem mapM?_length {α β : Type} {f : α → Option β} :
    ∀ {l : List α} {bs : List β}, mapM? f l = some bs → bs.length = l.length := by
  intro l bs h
  exact (mapM?_forall₂ f l bs h).length_eq.symm

/-! ### weights of the reported dimensions -/

theorem mkDim_weight {mn mx pr : Option Nat} {w : Option Nat} {d : Dim}
    (h : mkDim mn mx w pr = some d) : d.weight = w.getD Gen.C12.defaultWeight := by
  unfold mkDim at h
  simp only at h
  split_ifs at h <;> simp only [Option.some.injEq] at h <;> subst h <;> rfl

theorem dNone_weight : dNone.weight = Gen.C12.defaultWeight := by decide
theorem dPref0_weight : dPref0.weight = Gen.C12.defaultWeight := by decide

theorem sumDims_weight {ds : List Dim} {d : Dim} (h : sumDims ds = some d) :
    d.weight = Gen.C12.defaultWeight := mkDim_weight h

theorem maxDims_weight {ds : List Dim} {d : Dim} {W : Nat} (hW : Gen.C12.defaultWeight ≤ W)
    (hds : ∀ x ∈ ds, x.weight ≤ W) (h : maxDims ds = some d) : d.weight ≤ W := by
  unfold maxDims at h
  cases ds with
  | nil =>
    simp only [Dim.exact] at h
    rw [mkDim_weight h]; exact hW
  | cons d0 rest =>
    simp only at h
    split_ifs at h
    · simp only [Option.some.injEq] at h; subst h; exact hds _ List.mem_cons_self
    · rw [mkDim_weight h]; exact hW
    · unfold maxDimsNZ at h
      rw [mkDim_weight h]; exact hW


/-! ### `_all_children` of a bounded split -/

theorem allNodes_length (horizontal : Bool) (al : Align) (pad : Dim) (cs : List Node) :
    (allNodes horizontal al pad cs).length ≤ 2 * cs.length + 1 := by
  unfold allNodes
  simp only [List.length_append, List.length_dropLast]
  have hfm : ∀ (f : Node → Tag) (p : Tag × Node),
      (cs.flatMap fun c => [(f c, c), p]).length = 2 * cs.length := by
    intro f p
    induction cs with
    | nil => rfl
    | cons c cs ih => simp only [List.flatMap_cons, List.length_append, List.length_cons,
        List.length_nil, ih]; omega
  rw [hfm]
  split_ifs <;> simp <;> omega

theorem allNodes_bounded {N W : Nat} (hW : Gen.C12.defaultWeight ≤ W) {horizontal : Bool}
    {al : Align} {pad : Dim} {cs : List Node} (hp : pad.weight ≤ W)
    (hc : ∀ c ∈ cs, Node.Bounded N W c) :
    ∀ p ∈ allNodes horizontal al pad cs, Node.Bounded N W p.2 := by
  intro p hp'
  have hfill : Node.Bounded N W (.win auxId dPref0 dNone) :=
    .win (by rw [dPref0_weight]; exact hW) (by rw [dNone_weight]; exact hW)
  have hpad : Node.Bounded N W
      (if horizontal then Node.win auxId dNone pad else Node.win auxId pad dNone) := by
    split_ifs
    · exact .win (by rw [dNone_weight]; exact hW) hp
    · exact .win hp (by rw [dNone_weight]; exact hW)
  unfold allNodes at hp'
  simp only [List.mem_append] at hp'
  rcases hp' with hp' | hp'
  · have hp'' := (List.dropLast_sublist _).subset hp'
    simp only [List.mem_append, List.mem_flatMap] at hp''
    rcases hp'' with hp'' | ⟨c, hc', hp''⟩
    · split_ifs at hp'' <;> simp at hp''; subst hp''; exact hfill
    · simp only [List.mem_cons, List.not_mem_nil, or_false] at hp''
      rcases hp'' with rfl | rfl
      · exact hc c hc'
      · exact hpad
  · split_ifs at hp' <;> simp at hp'; subst hp'; exact hfill

/-! ### the dimensions a bounded tree reports carry bounded weights -/

theorem weights_of_forall₂ {α : Type} {f : α → Option Dim} {l : List α} {ds : List Dim} {W : Nat}
    (h : List.Forall₂ (fun a b => f a = some b) l ds)
    (hv : ∀ a ∈ l, ∀ d, f a = some d → d.weight ≤ W) : ∀ x ∈ ds, x.weight ≤ W := by
  intro d hd
  obtain ⟨a, ha, hs⟩ := forall₂_mem_right h hd
  exact hv a ha d hs

theorem mergeDims_weight {s : Spec} {content : Option Nat} {de : Bool} {d : Dim}
    (h : mergeDims s content de = some d) : d.weight = s.w.getD Gen.C12.defaultWeight := by
  unfold mergeDims at h
  rcases h0 : mkDim s.mn s.mx s.w s.pr with _ | d0
  · rw [h0] at h; simp at h
  · rw [h0] at h
    simp only at h
    rw [mkDim_weight h, Option.getD_some, mkDim_weight h0]

theorem exact0_weight {d : Dim} (h : Dim.exact 0 = some d) : d.weight = Gen.C12.defaultWeight :=
  mkDim_weight h

theorem prefW_weight {N W : Nat} (hW : Gen.C12.defaultWeight ≤ W) (fuel : Nat) :
    ∀ (d : Nat) (n : Node) (avail : Nat) (dim : Dim),
      n.Bounded N W → prefW fuel d n avail = some dim → dim.weight ≤ W := by
  intro d
  induction d with
  | zero =>
    intro n avail dim hb h
    cases hb with
    | win hw _ => simp only [prefW, Option.some.injEq] at h; subst h; exact hw
    | hsplit _ _ _ => simp only [prefW, Option.some.injEq] at h; subst h; rw [dNone_weight]; exact hW
    | vsplit _ _ _ => simp only [prefW, Option.some.injEq] at h; subst h; rw [dNone_weight]; exact hW
    | winx hw _ => simp only [prefW] at h; rw [mergeDims_weight h]; exact hw
    | cond _ => simp only [prefW, Option.some.injEq] at h; subst h; rw [dNone_weight]; exact hW
    | sized _ _ _ => simp only [prefW, Option.some.injEq] at h; subst h; rw [dNone_weight]; exact hW
  | succ d ih =>
    intro n avail dim hb h
    cases hb with
    | win hw _ => simp only [prefW, Option.some.injEq] at h; subst h; exact hw
    | winx hw _ => simp only [prefW] at h; rw [mergeDims_weight h]; exact hw
    | @cond on c hc =>
      simp only [prefW] at h
      split_ifs at h
      · exact ih c avail dim hc h
      · rw [exact0_weight h]; exact hW
    | @sized w hh c hw _ hc =>
      simp only [prefW] at h
      cases w with
      | some w' => simp only [Option.some.injEq] at h; subst h; exact hw _ rfl
      | none => exact ih c avail dim hc h
    | @hsplit al pad cs hp hn hc =>
      simp only [prefW] at h
      split_ifs at h with he
      · simp only [Option.some.injEq] at h; subst h; rw [dNone_weight]; exact hW
      · rcases hm : mapM? (fun c => prefW fuel d c avail) cs with _ | ds
        · rw [hm] at h; simp at h
        · rw [hm] at h
          simp only at h
          apply maxDims_weight hW _ h
          exact weights_of_forall₂ (mapM?_forall₂ _ _ _ hm)
            (fun c hc' dm hdm => ih c avail dm (hc c hc') hdm)
    | @vsplit al pad cs hp hn hc =>
      simp only [prefW] at h
      rcases hm : mapM? (fun c : Tag × Node => prefW fuel d c.2 avail) (allNodes false al pad cs)
        with _ | ds
      · rw [hm] at h; simp at h
      · rw [hm] at h
        rw [sumDims_weight h]; exact hW

/-- `preferred_width` never divides anything: it always answers -/
theorem prefW_total (fuel : Nat) : ∀ (d : Nat) (n : Node) (avail : Nat),
    n.Valid → ∃ dim, prefW fuel d n avail = some dim := by
  intro d
  induction d with
  | zero =>
    intro n avail hv
    cases hv with
    | @winx id sw sh cw ch dew deh hsw _ =>
      obtain ⟨d', h1, _⟩ := mergeDims_some hsw cw dew
      exact ⟨d', by simp only [prefW]; exact h1⟩
    | _ => exact ⟨_, rfl⟩
  | succ d ih =>
    intro n avail hv
    cases hv with
    | win _ _ => exact ⟨_, rfl⟩
    | @winx id sw sh cw ch dew deh hsw _ =>
      obtain ⟨d', h1, _⟩ := mergeDims_some hsw cw dew
      exact ⟨d', by simp only [prefW]; exact h1⟩
    | @cond on c hc =>
      simp only [prefW]
      split_ifs
      · exact ih c avail hc
      · exact ⟨⟨0, 0, 0, Gen.C12.defaultWeight⟩, by decide⟩
    | @sized w hh c _ _ hc =>
      simp only [prefW]
      cases w with
      | some w' => exact ⟨_, rfl⟩
      | none => exact ih c avail hc
    | @hsplit al pad cs hp hc =>
      simp only [prefW]
      split_ifs
      · exact ⟨_, rfl⟩
      · obtain ⟨ds, hds⟩ := mapM?_some (f := fun c => prefW fuel d c avail) (l := cs)
          (fun c hc' => ih c avail (hc c hc'))
        rw [hds]
        simp only
        have hvd : ValidDims ds := validDims_of_forall₂ (mapM?_forall₂ _ _ _ hds)
          (fun c hc' dm hdm => prefW_valid fuel d c avail dm (hc c hc') hdm)
        obtain ⟨dm, h1, _⟩ := maxDims_valid hvd
        exact ⟨dm, h1⟩
    | @vsplit al pad cs hp hc =>
      simp only [prefW]
      have hvalid := allNodes_valid (horizontal := false) (al := al) hp hc
      obtain ⟨ds, hds⟩ := mapM?_some (f := fun c : Tag × Node => prefW fuel d c.2 avail)
        (l := allNodes false al pad cs) (fun c hc' => ih c.2 avail (hvalid c hc'))
      rw [hds]
      simp only
      have hvd : ValidDims ds := validDims_of_forall₂ (mapM?_forall₂ _ _ _ hds)
        (fun c hc' dm hdm => prefW_valid fuel d c.2 avail dm (hvalid c hc') hdm)
      exact ⟨_, sumDims_eq hvd⟩


/-! ### one division inside the tree -/

/-- the fuel of the whole tree covers `fuelBound` of every division inside it -/
theorem fuelBound_le {ds : List Dim} {N W A avail : Nat} (hW : 1 ≤ W) (hl : ds.length ≤ N)
    (hw : ∀ x ∈ ds, x.weight ≤ W) (ha : avail ≤ A) :
    fuelBound ds avail ≤ A * (N * (W + 1)) + 3 * N + 3 := by
  have hmw : maxWeight ds ≤ W := by
    unfold maxWeight
    have : maxOf (ds.map (·.weight)) ≤ W := maxOf_le (by
      intro w hw'
      obtain ⟨x, hx, rfl⟩ := List.mem_map.mp hw'
      exact hw x hx)
    simp only [Nat.max_def]; split_ifs <;> omega
  unfold fuelBound stepBound gapBound
  have h1 : (avail - sumOf (·.min) ds) * (ds.length * (maxWeight ds + 1)) ≤ A * (N * (W + 1)) :=
    Nat.mul_le_mul (by omega) (Nat.mul_le_mul hl (by omega))
  omega

theorem divide_answers {ds : List Dim} (hv : ValidDims ds) {N W A avail fuel : Nat} (hW : 1 ≤ W)
    (hl : ds.length ≤ N) (hw : ∀ x ∈ ds, x.weight ≤ W) (ha : avail ≤ A)
    (hf : A * (N * (W + 1)) + 3 * N + 3 ≤ fuel) :
    divide fuel ds avail true = .tooSmall ∨ ∃ sizes, divide fuel ds avail true = .ok sizes := by
  have hF := le_trans (fuelBound_le hW hl hw ha) hf
  rcases h : divide fuel ds avail true with _ | _ | _ | sizes
  · exact Or.inl rfl
  · exact absurd h (divide_terminates_bound hv avail true hF)
  · exact absurd h (divide_no_error hv _ avail true)
  · exact Or.inr ⟨sizes, rfl⟩

theorem divideWidths_total {N W A fuel : Nat} (hW1 : 1 ≤ W) (hW : Gen.C12.defaultWeight ≤ W)
    (hf : A * (N * (W + 1)) + 3 * N + 3 ≤ fuel) (d : Nat) {al : Align} {pad : Dim}
    {cs : List Node} (hp : pad.Valid) (hc : ∀ c ∈ cs, Node.Valid c) (hpw : pad.weight ≤ W)
    (hn : 2 * cs.length + 1 ≤ N) (hb : ∀ c ∈ cs, Node.Bounded N W c) {width : Nat}
    (ha : width ≤ A) :
    ∃ r, divideWidths fuel d al pad cs width = some r ∧
      ∀ sizes, r = some sizes → sizes.length = (allNodes false al pad cs).length ∧ sizes.sum ≤ width := by
  unfold divideWidths
  simp only
  split_ifs with he
  · refine ⟨some [], rfl, ?_⟩
    intro sizes hs
    simp only [Option.some.injEq] at hs; subst hs
    rw [List.isEmpty_iff] at he
    simp [he]
  · have hvalid := allNodes_valid (horizontal := false) (al := al) hp hc
    have hbound := allNodes_bounded (N := N) hW (horizontal := false) (al := al) hpw hb
    obtain ⟨ds, hds⟩ := mapM?_some (f := fun c : Tag × Node => prefW fuel d c.2 width)
      (l := allNodes false al pad cs) (fun c hc' => prefW_total fuel d c.2 width (hvalid c hc'))
    rw [hds]
    simp only
    have hf2 := mapM?_forall₂ _ _ _ hds
    have hvd : ValidDims ds := validDims_of_forall₂ hf2
      (fun c hc' dm hdm => prefW_valid fuel d c.2 width dm (hvalid c hc') hdm)
    have hwd : ∀ x ∈ ds, x.weight ≤ W := weights_of_forall₂ hf2
      (fun c hc' dm hdm => prefW_weight hW fuel d c.2 width dm (hbound c hc') hdm)
    have hlen : ds.length ≤ N := by
      rw [mapM?_length hds]; exact le_trans (allNodes_length _ _ _ _) hn
    rcases divide_answers hvd hW1 hlen hwd ha hf with h | ⟨sizes, h⟩
    · rw [h]; exact ⟨none, rfl, by intro s hs; cases hs⟩
    · rw [h]
      refine ⟨some sizes, rfl, ?_⟩
      intro s hs
      simp only [Option.some.injEq] at hs; subst hs
      obtain ⟨_, hl, _⟩ := divide_ok_spec hvd h
      exact ⟨by rw [hl, mapM?_length hds], sum_le_avail hvd h⟩


theorem mem_le_sum {l : List Nat} {x : Nat} (h : x ∈ l) : x ≤ l.sum := by
  induction l with
  | nil => simp at h
  | cons a l ih =>
    simp only [List.sum_cons]
    rcases List.mem_cons.mp h with rfl | h
    · omega
    · have := ih h; omega

theorem prefH_weight {N W : Nat} (hW : Gen.C12.defaultWeight ≤ W) (fuel : Nat) :
    ∀ (d : Nat) (n : Node) (width availH : Nat) (dim : Dim),
      n.Bounded N W → prefH fuel d n width availH = some dim → dim.weight ≤ W := by
  intro d
  induction d with
  | zero =>
    intro n width availH dim hb h
    cases hb with
    | win _ hh => simp only [prefH, Option.some.injEq] at h; subst h; exact hh
    | hsplit _ _ _ => simp only [prefH, Option.some.injEq] at h; subst h; rw [dNone_weight]; exact hW
    | vsplit _ _ _ => simp only [prefH, Option.some.injEq] at h; subst h; rw [dNone_weight]; exact hW
    | winx _ hw => simp only [prefH] at h; rw [mergeDims_weight h]; exact hw
    | cond _ => simp only [prefH, Option.some.injEq] at h; subst h; rw [dNone_weight]; exact hW
    | sized _ _ _ => simp only [prefH, Option.some.injEq] at h; subst h; rw [dNone_weight]; exact hW
  | succ d ih =>
    intro n width availH dim hb h
    cases hb with
    | win _ hh => simp only [prefH, Option.some.injEq] at h; subst h; exact hh
    | winx _ hw => simp only [prefH] at h; rw [mergeDims_weight h]; exact hw
    | @cond on c hc =>
      simp only [prefH] at h
      split_ifs at h
      · exact ih c width availH dim hc h
      · rw [exact0_weight h]; exact hW
    | @sized w hh c _ hhw hc =>
      simp only [prefH] at h
      cases hh with
      | some h' => simp only [Option.some.injEq] at h; subst h; exact hhw _ rfl
      | none => exact ih c width availH dim hc h
    | @hsplit al pad cs hp hn hc =>
      simp only [prefH] at h
      rcases hm : mapM? (fun c : Tag × Node => prefH fuel d c.2 width availH) (allNodes true al pad cs)
        with _ | ds
      · rw [hm] at h; simp at h
      · rw [hm] at h
        rw [sumDims_weight h]; exact hW
    | @vsplit al pad cs hp hn hc =>
      simp only [prefH] at h
      rcases hdw : divideWidths fuel d al pad cs width with _ | _ | sizes
      · rw [hdw] at h; simp at h
      · rw [hdw] at h
        simp only [Option.some.injEq] at h; subst h; rw [dNone_weight]; exact hW
      · rw [hdw] at h
        simp only at h
        rcases hm : mapM? (fun p : Nat × (Tag × Node) => prefH fuel d p.2.2 p.1 availH)
            (sizes.zip (allNodes false al pad cs)) with _ | ds
        · rw [hm] at h; simp at h
        · rw [hm] at h
          simp only at h
          apply maxDims_weight hW _ h
          apply weights_of_forall₂ (mapM?_forall₂ _ _ _ hm)
          intro p hp' dm hdm
          exact ih p.2.2 p.1 availH dm
            (allNodes_bounded hW hp hc p.2 (List.of_mem_zip hp').2) hdm

/-- `preferred_height` answers whenever the width it is asked for is within the fuel's range -/
theorem prefH_total {N W A fuel : Nat} (hW1 : 1 ≤ W) (hW : Gen.C12.defaultWeight ≤ W)
    (hf : A * (N * (W + 1)) + 3 * N + 3 ≤ fuel) :
    ∀ (d : Nat) (n : Node) (width availH : Nat), n.Valid → n.Bounded N W → width ≤ A →
      ∃ dim, prefH fuel d n width availH = some dim := by
  intro d
  induction d with
  | zero =>
    intro n width availH hv _ _
    cases hv with
    | @winx id sw sh cw ch dew deh _ hsh =>
      obtain ⟨d', h1, _⟩ := mergeDims_some hsh ch deh
      exact ⟨d', by simp only [prefH]; exact h1⟩
    | _ => exact ⟨_, rfl⟩
  | succ d ih =>
    intro n width availH hv hb ha
    cases hv with
    | win _ _ => exact ⟨_, rfl⟩
    | @winx id sw sh cw ch dew deh _ hsh =>
      obtain ⟨d', h1, _⟩ := mergeDims_some hsh ch deh
      exact ⟨d', by simp only [prefH]; exact h1⟩
    | @cond on c hc =>
      cases hb with
      | cond hbc =>
        simp only [prefH]
        split_ifs
        · exact ih c width availH hc hbc ha
        · exact ⟨⟨0, 0, 0, Gen.C12.defaultWeight⟩, by decide⟩
    | @sized w hh c _ _ hc =>
      cases hb with
      | sized _ _ hbc =>
        simp only [prefH]
        cases hh with
        | some h' => exact ⟨_, rfl⟩
        | none => exact ih c width availH hc hbc ha
    | @hsplit al pad cs hp hc =>
      cases hb with
      | hsplit hpw hn hbc =>
        simp only [prefH]
        have hvalid := allNodes_valid (horizontal := true) (al := al) hp hc
        have hbound := allNodes_bounded (N := N) hW (horizontal := true) (al := al) hpw hbc
        obtain ⟨ds, hds⟩ := mapM?_some (f := fun c : Tag × Node => prefH fuel d c.2 width availH)
          (l := allNodes true al pad cs)
          (fun c hc' => ih c.2 width availH (hvalid c hc') (hbound c hc') ha)
        rw [hds]
        simp only
        have hvd : ValidDims ds := validDims_of_forall₂ (mapM?_forall₂ _ _ _ hds)
          (fun c hc' dm hdm => prefH_valid fuel d c.2 width availH dm (hvalid c hc') hdm)
        exact ⟨_, sumDims_eq hvd⟩
    | @vsplit al pad cs hp hc =>
      cases hb with
      | vsplit hpw hn hbc =>
        simp only [prefH]
        have hvalid := allNodes_valid (horizontal := false) (al := al) hp hc
        have hbound := allNodes_bounded (N := N) hW (horizontal := false) (al := al) hpw hbc
        obtain ⟨r, hr, hsz⟩ := divideWidths_total hW1 hW hf d hp hc hpw hn hbc ha
        rw [hr]
        rcases r with _ | sizes
        · exact ⟨_, rfl⟩
        · simp only
          obtain ⟨_, hsum⟩ := hsz sizes rfl
          obtain ⟨ds, hds⟩ := mapM?_some
            (f := fun p : Nat × (Tag × Node) => prefH fuel d p.2.2 p.1 availH)
            (l := sizes.zip (allNodes false al pad cs))
            (fun p hp' => by
              have hz := List.of_mem_zip hp'
              exact ih p.2.2 p.1 availH (hvalid p.2 hz.2) (hbound p.2 hz.2)
                (le_trans (mem_le_sum hz.1) (le_trans hsum ha)))
          rw [hds]
          simp only
          have hvd : ValidDims ds := validDims_of_forall₂ (mapM?_forall₂ _ _ _ hds)
            (fun p hp' dm hdm => prefH_valid fuel d p.2.2 p.1 availH dm
              (hvalid p.2 (List.of_mem_zip hp').2) hdm)
          obtain ⟨dm, h1, _⟩ := maxDims_valid hvd
          exact ⟨dm, h1⟩


theorem winx_total {fuel d : Nat} {t : Tag} {id : Nat} {sw sh : Spec} {cw ch : Option Nat}
    {dew deh : Bool} {r : Rect} (hsw : sw.OK) (hsh : sh.OK) :
    ∃ out, render fuel d t (.winx id sw sh cw ch dew deh) r = some out := by
  obtain ⟨dw, h1, _⟩ := mergeDims_some hsw cw dew
  obtain ⟨dh, h2, _⟩ := mergeDims_some hsh ch deh
  cases d <;> (simp only [render, winRect, h1, h2]; exact ⟨_, rfl⟩)

/-- **Rendering a tree never runs out of the explicit fuel**: with `fuel ≥ A · N · (W + 1) + 3 N + 3`
    — `A` at least the width and the height of the region, `N` the longest `_all_children` list,
    `W` the largest weight — every division inside `write_to_screen` answers, whatever the depth
    bound. -/
theorem render_total {N W A fuel : Nat} (hW1 : 1 ≤ W) (hW : Gen.C12.defaultWeight ≤ W)
    (hf : A * (N * (W + 1)) + 3 * N + 3 ≤ fuel) :
    ∀ (d : Nat) (t : Tag) (n : Node) (r : Rect), n.Valid → n.Bounded N W → r.w ≤ A → r.h ≤ A →
      ∃ out, render fuel d t n r = some out := by
  intro d
  induction d with
  | zero =>
    intro t n r hv _ _ _
    cases hv with
    | @winx id sw sh cw ch dew deh hsw hsh => exact winx_total hsw hsh
    | _ => exact ⟨_, rfl⟩
  | succ d ih =>
    intro t n r hv hb hw hh
    cases hv with
    | win _ _ => exact ⟨_, rfl⟩
    | @winx id sw sh cw ch dew deh hsw hsh => exact winx_total hsw hsh
    | @cond on c hc =>
      cases hb with
      | cond hbc =>
        simp only [render]
        split_ifs
        · exact ih _ c r hc hbc hw hh
        · exact ⟨_, rfl⟩
    | @sized w hh' c _ _ hc =>
      cases hb with
      | sized _ _ hbc =>
        simp only [render]
        exact ih _ c r hc hbc hw hh
    | @hsplit al pad cs hp hc =>
      cases hb with
      | hsplit hpw hn hbc =>
        simp only [render]
        have hvalid := allNodes_valid (horizontal := true) (al := al) hp hc
        have hbound := allNodes_bounded (N := N) hW (horizontal := true) (al := al) hpw hbc
        -- `_divide_heights` answers, and what it hands out fits
        generalize hg : (if cs.isEmpty = true then some (some []) else _) = sz0
        have hsz : ∃ sz, sz0 = some sz ∧ ∀ sizes, sz = some sizes → sizes.sum ≤ r.h := by
          split_ifs at hg with he
          · exact ⟨some [], hg.symm,
              by intro s hs; simp only [Option.some.injEq] at hs; subst hs; simp⟩
          · obtain ⟨ds, hds⟩ := mapM?_some
              (f := fun c : Tag × Node => prefH fuel d c.2 r.w r.h) (l := allNodes true al pad cs)
              (fun c hc' => prefH_total hW1 hW hf d c.2 r.w r.h (hvalid c hc') (hbound c hc') hw)
            rw [hds] at hg
            simp only at hg
            have hf2 := mapM?_forall₂ _ _ _ hds
            have hvd : ValidDims ds := validDims_of_forall₂ hf2
              (fun c hc' dm hdm => prefH_valid fuel d c.2 r.w r.h dm (hvalid c hc') hdm)
            have hwd : ∀ x ∈ ds, x.weight ≤ W := weights_of_forall₂ hf2
              (fun c hc' dm hdm => prefH_weight hW fuel d c.2 r.w r.h dm (hbound c hc') hdm)
            have hlen : ds.length ≤ N := by
              rw [mapM?_length hds]; exact le_trans (allNodes_length _ _ _ _) hn
            rcases divide_answers hvd hW1 hlen hwd hh hf with h | ⟨sizes, h⟩
            · rw [h] at hg; exact ⟨none, hg.symm, by intro s hs; cases hs⟩
            · rw [h] at hg
              refine ⟨some sizes, hg.symm, ?_⟩
              intro s hs
              simp only [Option.some.injEq] at hs; subst hs
              exact sum_le_avail hvd h
        obtain ⟨sz, hsz1, hsz2⟩ := hsz
        rw [hsz1]
        rcases sz with _ | sizes
        · exact ⟨_, rfl⟩
        · simp only [layout]
          have hfit := hsz2 sizes rfl
          have hb := offsets_zip_bounds sizes r.y
          obtain ⟨rs, hrs⟩ := mapM?_some
            (f := fun p : (Nat × Nat) × (Tag × Node) =>
              render fuel d p.2.1 p.2.2 ⟨r.x, p.1.1, r.w, p.1.2⟩)
            (l := ((offsets r.y sizes).zip sizes).zip (allNodes true al pad cs))
            (fun p hp' => by
              have hz := List.of_mem_zip hp'
              have := hb p.1 hz.1
              exact ih p.2.1 p.2.2 _ (hvalid p.2 hz.2) (hbound p.2 hz.2) hw (by simp only; omega))
          rw [hrs]
          exact ⟨_, rfl⟩
    | @vsplit al pad cs hp hc =>
      cases hb with
      | vsplit hpw hn hbc =>
        simp only [render]
        have hvalid := allNodes_valid (horizontal := false) (al := al) hp hc
        have hbound := allNodes_bounded (N := N) hW (horizontal := false) (al := al) hpw hbc
        by_cases he : cs.isEmpty = true
        · rw [if_pos he]; exact ⟨_, rfl⟩
        · rw [if_neg he]
          obtain ⟨rr, hr, hsz⟩ := divideWidths_total hW1 hW hf d hp hc hpw hn hbc hw
          rw [hr]
          rcases rr with _ | sizes
          · exact ⟨_, rfl⟩
          · simp only
            obtain ⟨_, hsum⟩ := hsz sizes rfl
            obtain ⟨hs, hhs⟩ := mapM?_some
              (f := fun p : Nat × (Tag × Node) => prefH fuel d p.2.2 p.1 r.h)
              (l := sizes.zip (allNodes false al pad cs))
              (fun p hp' => by
                have hz := List.of_mem_zip hp'
                exact prefH_total hW1 hW hf d p.2.2 p.1 r.h (hvalid p.2 hz.2) (hbound p.2 hz.2)
                  (le_trans (mem_le_sum hz.1) (le_trans hsum hw)))
            rw [hhs]
            simp only [layout]
            have hb := offsets_zip_bounds sizes r.x
            obtain ⟨rs, hrs⟩ := mapM?_some
              (f := fun p : (Nat × Nat) × (Tag × Node) =>
                render fuel d p.2.1 p.2.2 ⟨p.1.1, r.y, p.1.2, r.h⟩)
              (l := ((offsets r.x sizes).zip sizes).zip (allNodes false al pad cs))
              (fun p hp' => by
                have hz := List.of_mem_zip hp'
                have := hb p.1 hz.1
                exact ih p.2.1 p.2.2 _ (hvalid p.2 hz.2) (hbound p.2 hz.2) (by simp only; omega) hh)
            rw [hrs]
            exact ⟨_, rfl⟩


/-! ### the fuel computed from the tree itself -/

theorem Node.Bounded.mono {N W N' W' : Nat} (hN : N ≤ N') (hW : W ≤ W') :
    ∀ {n : Node}, n.Bounded N W → n.Bounded N' W'
  | _, .win h1 h2 => .win (le_trans h1 hW) (le_trans h2 hW)
  | _, .hsplit h1 h2 h3 => .hsplit (le_trans h1 hW) (le_trans h2 hN)
      (fun c hc => Node.Bounded.mono hN hW (h3 c hc))
  | _, .vsplit h1 h2 h3 => .vsplit (le_trans h1 hW) (le_trans h2 hN)
      (fun c hc => Node.Bounded.mono hN hW (h3 c hc))
  | _, .winx h1 h2 => .winx (le_trans h1 hW) (le_trans h2 hW)
  | _, .cond h1 => .cond (Node.Bounded.mono hN hW h1)
  | _, .sized h1 h2 h3 => .sized (fun d hd => le_trans (h1 d hd) hW) (fun d hd => le_trans (h2 d hd) hW)
      (Node.Bounded.mono hN hW h3)

theorem mem_attach_map {cs : List Node} (f : Node → Nat) {c : Node} (hc : c ∈ cs) :
    f c ∈ cs.attach.map fun ⟨c, _⟩ => f c :=
  List.mem_map.mpr ⟨⟨c, hc⟩, List.mem_attach _ _, rfl⟩

/-- every tree is bounded by its own `maxKids` and `maxW` -/
theorem Node.bounded_self : ∀ n : Node, n.Bounded n.maxKids n.maxW
  | .win _ w h => by
    refine .win ?_ ?_ <;> simp only [Node.maxW, Nat.max_def] <;> split_ifs <;> omega
  | .hsplit al pad cs => by
    have hk := le_foldl_max (cs.attach.map fun ⟨c, _⟩ => c.maxKids) (2 * cs.length + 1)
    have hw := le_foldl_max (cs.attach.map fun ⟨c, _⟩ => c.maxW) pad.weight
    refine .hsplit ?_ ?_ ?_
    · simp only [Node.maxW]; exact hw.1
    · simp only [Node.maxKids]; exact hk.1
    · intro c hc
      have := Node.bounded_self c
      apply this.mono
      · simp only [Node.maxKids]; exact hk.2 _ (mem_attach_map Node.maxKids hc)
      · simp only [Node.maxW]; exact hw.2 _ (mem_attach_map Node.maxW hc)
  | .vsplit al pad cs => by
    have hk := le_foldl_max (cs.attach.map fun ⟨c, _⟩ => c.maxKids) (2 * cs.length + 1)
    have hw := le_foldl_max (cs.attach.map fun ⟨c, _⟩ => c.maxW) pad.weight
    refine .vsplit ?_ ?_ ?_
    · simp only [Node.maxW]; exact hw.1
    · simp only [Node.maxKids]; exact hk.1
    · intro c hc
      have := Node.bounded_self c
      apply this.mono
      · simp only [Node.maxKids]; exact hk.2 _ (mem_attach_map Node.maxKids hc)
      · simp only [Node.maxW]; exact hw.2 _ (mem_attach_map Node.maxW hc)
  | .winx _ sw sh _ _ _ _ => by
    refine .winx ?_ ?_ <;> simp only [Node.maxW, Nat.max_def] <;> split_ifs <;> omega
  | .cond on c => .cond (by
      have := Node.bounded_self c
      simpa only [Node.maxW, Node.maxKids] using this)
  | .sized w h c => by
    have := Node.bounded_self c
    refine .sized ?_ ?_ (this.mono (by simp only [Node.maxKids]; exact le_refl _) ?_)
    · intro d hd; subst hd
      simp only [Node.maxW, Option.map_some, Option.getD_some, Nat.max_def]
      split_ifs <;> omega
    · intro d hd; subst hd
      simp only [Node.maxW, Option.map_some, Option.getD_some, Nat.max_def]
      split_ifs <;> omega
    · simp only [Node.maxW, Nat.max_def]; split_ifs <;> omega
termination_by n => sizeOf n
decreasing_by
  all_goals simp_wf
  all_goals first | (have := List.sizeOf_lt_of_mem hc; omega) | omega

/-- **`treeFuel` is enough**: rendering a tree of valid dimensions into a region with the fuel
    computed from the tree and the size of the region always answers — the driver runs `render`
    once, with `treeFuel`. -/
theorem render_treeFuel {n : Node} (hv : n.Valid) (d : Nat) (t : Tag) (r : Rect) {fuel : Nat}
    (hf : treeFuel n r.w r.h ≤ fuel) : ∃ out, render fuel d t n r = some out := by
  have hb : n.Bounded n.maxKids (Nat.max n.maxW (Nat.max 1 Gen.C12.defaultWeight)) :=
    (Node.bounded_self n).mono (le_refl _) (Nat.le_max_left _ _)
  have h1 : 1 ≤ Nat.max n.maxW (Nat.max 1 Gen.C12.defaultWeight) :=
    le_trans (Nat.le_max_left 1 _) (Nat.le_max_right _ _)
  have h2 : Gen.C12.defaultWeight ≤ Nat.max n.maxW (Nat.max 1 Gen.C12.defaultWeight) :=
    le_trans (Nat.le_max_right 1 _) (Nat.le_max_right _ _)
  exact render_total (A := Nat.max r.w r.h) h1 h2 hf d t n r hv hb (Nat.le_max_left _ _)
    (Nat.le_max_right _ _)


/-- the same for `preferred_height` at the root (`preferred_width` needs no fuel at all:
    `prefW_total`) -/
theorem prefH_treeFuel {n : Node} (hv : n.Valid) (d width availH : Nat) {fuel : Nat}
    (hf : treeFuel n width availH ≤ fuel) : ∃ dim, prefH fuel d n width availH = some dim := by
  have hb : n.Bounded n.maxKids (Nat.max n.maxW (Nat.max 1 Gen.C12.defaultWeight)) :=
    (Node.bounded_self n).mono (le_refl _) (Nat.le_max_left _ _)
  have h1 : 1 ≤ Nat.max n.maxW (Nat.max 1 Gen.C12.defaultWeight) :=
    le_trans (Nat.le_max_left 1 _) (Nat.le_max_right _ _)
  have h2 : Gen.C12.defaultWeight ≤ Nat.max n.maxW (Nat.max 1 Gen.C12.defaultWeight) :=
    le_trans (Nat.le_max_right 1 _) (Nat.le_max_right _ _)
  exact prefH_total (A := Nat.max width availH) h1 h2 hf d n width availH hv hb
    (Nat.le_max_left _ _)

/-! non-vacuity: the example tree of `Ptk.Props.C12Tree` (valid, two nested splits, a weight-0
    window) renders with the fuel computed from it; `#eval treeFuel exampleTree 10 6` is 118 -/
theorem exampleTree_valid : exampleTree.Valid := by
  have hn : dNone.Valid := dNone_valid
  refine .hsplit (by simp [Dim.Valid]) ?_
  intro c hc
  simp only [List.mem_cons, List.not_mem_nil, or_false] at hc
  rcases hc with rfl | rfl
  · exact .win hn (by simp [Dim.Valid])
  · refine .vsplit (by simp [Dim.Valid]) ?_
    intro c hc
    simp only [List.mem_cons, List.not_mem_nil, or_false] at hc
    rcases hc with rfl | rfl
    · exact .win (by simp only [Dim.Valid]; decide) hn
    · exact .win (by simp [Dim.Valid]) hn

example : ∃ out, render (treeFuel exampleTree 10 6) 2 (.user 0) exampleTree ⟨0, 0, 10, 6⟩ = some out :=
  render_treeFuel exampleTree_valid 2 (.user 0) ⟨0, 0, 10, 6⟩ (le_refl _)
example : render 118 2 (.user 0) exampleTree ⟨0, 0, 10, 6⟩
    = some [(.user 1, ⟨0, 0, 10, 2⟩), (.user 2, ⟨0, 2, 6, 4⟩), (.pad, ⟨6, 2, 1, 4⟩),
            (.user 3, ⟨7, 2, 3, 4⟩)] := by decide +kernel

end Ptk.C12
