/-
  C19 — cascade lemmas: `_merge_attrs` is last-wins and concrete, the `combos` test is
  "all classes present and the new one among them", the model's `list_of_attrs` equals the
  specified source list, a rule takes part iff all its classes occur, merged sheets are
  concatenated rule tables.
-/
import Ptk.Model.C19
namespace Ptk.C19
open Ptk.Py

/-- `v` is the value given to field `f` by the LAST element of `l` that sets it, or the
    default `d` when no element sets it. -/
def LastWins (f : Attrs → Option β) (l : List Attrs) (d v : β) : Prop :=
  (∃ pre a post, l = pre ++ a :: post ∧ f a = some v ∧ ∀ x ∈ post, f x = none) ∨
  ((∀ x ∈ l, f x = none) ∧ v = d)

theorem pyOr_lastWins (f : Attrs → Option β) (l : List Attrs) (d : β) :
    ∃ v, pyOr (some d :: l.map f) = some v ∧ LastWins f l d v := by
  unfold pyOr
  rw [List.reverse_cons, List.findSome?_append]
  cases h : List.findSome? id (List.map f l).reverse with
  | some v =>
    refine ⟨v, by simp, Or.inl ?_⟩
    rw [← List.map_reverse, List.findSome?_map] at h
    obtain ⟨l₁, a, l₂, hl, hfa, hnone⟩ := List.findSome?_eq_some_iff.mp h
    refine ⟨l₂.reverse, a, l₁.reverse, ?_, by simpa using hfa, ?_⟩
    · have := congrArg List.reverse hl
      simpa using this
    · intro x hx
      have := hnone x (by simpa using hx)
      simpa using this
  | none =>
    refine ⟨d, by simp, Or.inr ⟨?_, rfl⟩⟩
    rw [← List.map_reverse, List.findSome?_map] at h
    intro x hx
    have := List.findSome?_eq_none_iff.mp h x (by simpa using hx)
    simpa using this

end Ptk.C19
namespace Ptk.C19
def Concrete (a : Attrs) : Prop :=
  a.color.isSome ∧ a.bgcolor.isSome ∧ a.bold.isSome ∧ a.underline.isSome ∧ a.strike.isSome ∧
  a.italic.isSome ∧ a.blink.isSome ∧ a.reverse.isSome ∧ a.hidden.isSome

theorem mergeAttrs_last_wins (l : List Attrs) :
    ∃ c bg b u s i bl r h,
      mergeAttrs l = { color := some c, bgcolor := some bg, bold := some b, underline := some u,
                       strike := some s, italic := some i, blink := some bl, reverse := some r,
                       hidden := some h } ∧
      LastWins (·.color) l [] c ∧ LastWins (·.bgcolor) l [] bg ∧ LastWins (·.bold) l false b ∧
      LastWins (·.underline) l false u ∧ LastWins (·.strike) l false s ∧
      LastWins (·.italic) l false i ∧ LastWins (·.blink) l false bl ∧
      LastWins (·.reverse) l false r ∧ LastWins (·.hidden) l false h := by
  obtain ⟨c, hc, hc'⟩ := pyOr_lastWins (·.color) l []
  obtain ⟨bg, hbg, hbg'⟩ := pyOr_lastWins (·.bgcolor) l []
  obtain ⟨b, hb, hb'⟩ := pyOr_lastWins (·.bold) l false
  obtain ⟨u, hu, hu'⟩ := pyOr_lastWins (·.underline) l false
  obtain ⟨s, hs, hs'⟩ := pyOr_lastWins (·.strike) l false
  obtain ⟨i, hi, hi'⟩ := pyOr_lastWins (·.italic) l false
  obtain ⟨bl, hbl, hbl'⟩ := pyOr_lastWins (·.blink) l false
  obtain ⟨r, hr, hr'⟩ := pyOr_lastWins (·.reverse) l false
  obtain ⟨h, hh, hh'⟩ := pyOr_lastWins (·.hidden) l false
  refine ⟨c, bg, b, u, s, i, bl, r, h, ?_, hc', hbg', hb', hu', hs', hi', hbl', hr', hh'⟩
  unfold mergeAttrs
  rw [hc, hbg, hb, hu, hs, hi, hbl, hr, hh]

theorem mergeAttrs_concrete (l : List Attrs) : Concrete (mergeAttrs l) := by
  obtain ⟨c, bg, b, u, s, i, bl, r, h, heq, _⟩ := mergeAttrs_last_wins l
  rw [heq]; simp [Concrete]
end Ptk.C19
namespace Ptk.C19
open Ptk.Py

theorem setEq_iff (a b : List Text) : setEq a b = true ↔ (∀ x, x ∈ a ↔ x ∈ b) := by
  unfold setEq
  simp only [Bool.and_eq_true, List.all_eq_true, List.contains_iff_mem]
  constructor
  · rintro ⟨h1, h2⟩ x; exact ⟨h1 x, h2 x⟩
  · intro h; exact ⟨fun x hx => (h x).1 hx, fun x hx => (h x).2 hx⟩

theorem mem_of_mem_allSublists {l c : List α} (h : c ∈ allSublists l) : ∀ e ∈ c, e ∈ l := by
  induction l generalizing c with
  | nil => simp [allSublists] at h; subst h; simp
  | cons x xs ih =>
    simp only [allSublists, List.mem_append, List.mem_map] at h
    rcases h with h | ⟨c', hc', rfl⟩
    · intro e he; exact List.mem_cons_of_mem _ (ih h e he)
    · intro e he
      rcases List.mem_cons.mp he with rfl | he
      · simp
      · exact List.mem_cons_of_mem _ (ih hc' e he)

theorem filter_mem_allSublists (p : α → Bool) (l : List α) : l.filter p ∈ allSublists l := by
  induction l with
  | nil => simp [allSublists]
  | cons x xs ih =>
    simp only [allSublists, List.mem_append, List.mem_map, List.filter_cons]
    split
    · right; exact ⟨_, ih, rfl⟩
    · left; exact ih

/-- a rule with class set `names` is selected at the moment class `new` is processed, with
    `seen` the classes processed before -/
def Applies (seen : List Text) (new : Text) (names : List Text) : Prop :=
  new ∈ names ∧ ∀ n ∈ names, n = new ∨ n ∈ seen

theorem rule_applies_iff (seen : List Text) (new : Text) (names : List Text) :
    (combos seen new).any (setEq names) = true ↔ Applies seen new names := by
  unfold combos Applies
  simp only [List.any_cons, Bool.or_eq_true, List.any_eq_true, List.mem_map, List.mem_filter, setEq_iff]
  constructor
  · rintro (h | ⟨x, ⟨c, ⟨hc, _⟩, rfl⟩, hx⟩)
    · refine ⟨(h new).2 (by simp), fun n hn => Or.inl ?_⟩
      simpa using (h n).1 hn
    · refine ⟨(hx new).2 (by simp), fun n hn => ?_⟩
      have := (hx n).1 hn
      rcases List.mem_append.mp this with h | h
      · exact Or.inr (mem_of_mem_allSublists hc n h)
      · left; simpa using h
  · rintro ⟨hnew, hall⟩
    by_cases hc : (seen.filter (fun s => names.contains s)) = []
    · left
      intro x
      constructor
      · intro hx
        rcases hall x hx with rfl | hs
        · simp
        · exfalso
          have : x ∈ seen.filter (fun s => names.contains s) := by
            simp [List.mem_filter, hs, hx]
          rw [hc] at this; simp at this
      · intro hx; simp at hx; subst hx; exact hnew
    · right
      refine ⟨_, ⟨seen.filter (fun s => names.contains s), ⟨filter_mem_allSublists _ _, ?_⟩, rfl⟩, ?_⟩
      · cases h : seen.filter (fun s => names.contains s) with
        | nil => exact absurd h hc
        | cons _ _ => simp
      · intro x
        simp only [List.mem_append, List.mem_filter, List.contains_iff_mem, List.mem_singleton]
        constructor
        · intro hx
          rcases hall x hx with rfl | hs
          · right; rfl
          · left; exact ⟨hs, hx⟩
        · rintro (⟨_, hx⟩ | rfl)
          · exact hx
          · exact hnew
end Ptk.C19
namespace Ptk.C19
open Ptk.Py

/-- where an entry of `list_of_attrs` comes from -/
inductive Src where
  | dflt (a : Attrs)
  | rule (r : Rule)
  | inline (a : Attrs)
deriving DecidableEq, Repr

def Src.attrs : Src → Attrs
  | .dflt a => a
  | .rule r => r.attrs
  | .inline a => a

/-- Boolean form of `Applies` -/
def appliesB (seen : List Text) (new : Text) (r : Rule) : Bool :=
  r.names.contains new && r.names.all fun n => n == new || seen.contains n

theorem appliesB_iff (seen : List Text) (new : Text) (r : Rule) :
    appliesB seen new r = true ↔ Applies seen new r.names := by
  simp [appliesB, Applies]

/-- SPEC: sources contributed by the class names `names` (in order), `seen` = classes before -/
def classSources (rules : List Rule) : List Text → List Text → List Src
  | _, [] => []
  | seen, new :: rest =>
    (rules.filter (appliesB seen new)).map Src.rule ++ classSources rules (seen ++ [new]) rest

/-- SPEC: sources contributed by the parts of a style string -/
def partsSources (T : Tables) (sp : Char → Bool) (rules : List Rule) : List Text → List Text → Option (List Src)
  | _, [] => some []
  | seen, p :: ps =>
    if startsWith "class:".toList p then
      (partsSources T sp rules (seen ++ classPartNames p) ps).map
        (classSources rules seen (classPartNames p) ++ ·)
    else
      match parseStyleStr T sp p with
      | none => none
      | some a => (partsSources T sp rules seen ps).map (Src.inline a :: ·)

/-- SPEC of `list_of_attrs`: the default, the default rules (empty class set) in sheet order,
    then the parts from left to right -/
def sources (T : Tables) (sp : Char → Bool) (rules : List Rule) (styleStr : Text) (dflt : Attrs) :
    Option (List Src) :=
  (partsSources T sp rules [] (splitWs sp styleStr)).map fun s =>
    Src.dflt dflt :: ((rules.filter fun r => r.names.isEmpty).map Src.rule ++ s)

theorem applyClass_spec (rules : List Rule) (st : CascadeSt) (new : Text) (seen : List Text)
    (hseen : ∀ x, x ∈ st.seen ↔ x ∈ seen) :
    (applyClass rules st new).acc = st.acc ++ ((rules.filter (appliesB seen new)).map Src.rule).map Src.attrs ∧
    ∀ x, x ∈ (applyClass rules st new).seen ↔ x ∈ seen ++ [new] := by
  constructor
  · unfold applyClass
    simp only [List.map_map]
    congr 1
    have : (fun r : Rule => (combos st.seen new).any (setEq r.names)) = appliesB seen new := by
      funext r
      rw [Bool.eq_iff_iff, rule_applies_iff, appliesB_iff]
      unfold Applies
      constructor
      · rintro ⟨h1, h2⟩; exact ⟨h1, fun n hn => (h2 n hn).imp id (hseen n).1⟩
      · rintro ⟨h1, h2⟩; exact ⟨h1, fun n hn => (h2 n hn).imp id (hseen n).2⟩
    rw [this]
    rfl
  · intro x
    unfold applyClass
    simp only
    split
    · rename_i h
      have h' : new ∈ seen := (hseen new).1 (by simpa using h)
      simp only [List.mem_append, List.mem_singleton]
      constructor
      · intro hx; exact Or.inl ((hseen x).1 hx)
      · rintro (hx | rfl)
        · exact (hseen x).2 hx
        · exact (hseen x).2 h'
    · simp only [List.mem_append, List.mem_singleton]
      exact or_congr (hseen x) Iff.rfl

theorem foldl_applyClass_spec (rules : List Rule) (names : List Text) (st : CascadeSt) (seen : List Text)
    (hseen : ∀ x, x ∈ st.seen ↔ x ∈ seen) :
    (names.foldl (applyClass rules) st).acc = st.acc ++ (classSources rules seen names).map Src.attrs ∧
    ∀ x, x ∈ (names.foldl (applyClass rules) st).seen ↔ x ∈ seen ++ names := by
  induction names generalizing st seen with
  | nil => simp [classSources]; exact hseen
  | cons n ns ih =>
    obtain ⟨h1, h2⟩ := applyClass_spec rules st n seen hseen
    obtain ⟨h3, h4⟩ := ih (applyClass rules st n) (seen ++ [n]) h2
    simp only [List.foldl_cons, classSources, List.map_append]
    refine ⟨?_, ?_⟩
    · rw [h3, h1]; simp
    · intro x; rw [h4]; simp

theorem cascadeParts_spec (T : Tables) (sp : Char → Bool) (rules : List Rule) (parts : List Text)
    (st : CascadeSt) (seen : List Text) (hseen : ∀ x, x ∈ st.seen ↔ x ∈ seen) :
    (cascadeParts T sp rules st parts).map (·.acc) =
      (partsSources T sp rules seen parts).map fun s => st.acc ++ s.map Src.attrs := by
  induction parts generalizing st seen with
  | nil => simp [cascadeParts, partsSources]
  | cons p ps ih =>
    by_cases hcls : startsWith "class:".toList p = true
    · obtain ⟨h1, h2⟩ := foldl_applyClass_spec rules (classPartNames p) st seen hseen
      simp only [cascadeParts, cascadePart, partsSources, hcls, if_true]
      rw [ih _ _ h2, h1]
      cases partsSources T sp rules (seen ++ classPartNames p) ps <;> simp
    · simp only [cascadeParts, cascadePart, partsSources, hcls]
      cases hp : parseStyleStr T sp p with
      | none => simp
      | some a =>
        simp only [Option.map_some, Bool.false_eq_true, if_false]
        rw [ih { st with acc := st.acc ++ [a] } seen hseen]
        cases partsSources T sp rules seen ps <;> simp [Src.attrs]

/-- the model's `list_of_attrs` is exactly the specified source list -/
theorem listOfAttrs_eq_sources (T : Tables) (sp : Char → Bool) (rules : List Rule) (s : Text) (d : Attrs) :
    listOfAttrs T sp rules s d = (sources T sp rules s d).map (·.map Src.attrs) := by
  unfold listOfAttrs sources
  rw [cascadeParts_spec T sp rules _ _ [] (by simp)]
  cases partsSources T sp rules [] (splitWs sp s) <;> simp [Src.attrs, Function.comp_def]
end Ptk.C19

namespace Ptk.C19
open Ptk.Py
/-- all class names named by the `class:` parts of a style string, in processing order -/
def classNames (parts : List Text) : List Text :=
  (parts.filter (startsWith "class:".toList)).flatMap classPartNames

theorem mem_classSources (rules : List Rule) (r : Rule) (seen names : List Text) :
    Src.rule r ∈ classSources rules seen names ↔
      r ∈ rules ∧ ∃ pre new post, names = pre ++ new :: post ∧ Applies (seen ++ pre) new r.names := by
  induction names generalizing seen with
  | nil => simp [classSources]
  | cons n ns ih =>
    simp only [classSources, List.mem_append, List.mem_map, List.mem_filter, ih]
    constructor
    · rintro (⟨r', ⟨hr, ha⟩, heq⟩ | ⟨hr, pre, new, post, hns, ha⟩)
      · cases heq
        exact ⟨hr, [], n, ns, rfl, by simpa using (appliesB_iff seen n r).1 ha⟩
      · refine ⟨hr, n :: pre, new, post, by simp [hns], ?_⟩
        simpa using ha
    · rintro ⟨hr, pre, new, post, hns, ha⟩
      cases pre with
      | nil =>
        simp at hns
        obtain ⟨rfl, rfl⟩ := hns
        left
        exact ⟨r, ⟨hr, (appliesB_iff seen n r).2 (by simpa using ha)⟩, rfl⟩
      | cons x pre' =>
        simp at hns
        obtain ⟨rfl, rfl⟩ := hns
        right
        exact ⟨hr, pre', new, post, rfl, by simpa using ha⟩

theorem mem_partsSources (T : Tables) (sp : Char → Bool) (rules : List Rule) (r : Rule)
    (parts : List Text) (seen : List Text) (srcs : List Src)
    (h : partsSources T sp rules seen parts = some srcs) :
    Src.rule r ∈ srcs ↔
      r ∈ rules ∧ ∃ pre new post, classNames parts = pre ++ new :: post ∧
        Applies (seen ++ pre) new r.names := by
  induction parts generalizing seen srcs with
  | nil =>
    simp [partsSources] at h; subst h
    simp [classNames]
  | cons p ps ih =>
    by_cases hcls : startsWith "class:".toList p = true
    · simp only [partsSources, hcls, if_true] at h
      cases hrest : partsSources T sp rules (seen ++ classPartNames p) ps with
      | none => simp [hrest] at h
      | some rest =>
        simp [hrest] at h; subst h
        have hcn : classNames (p :: ps) = classPartNames p ++ classNames ps := by
          unfold classNames
          rw [List.filter_cons_of_pos hcls, List.flatMap_cons]
        rw [List.mem_append, mem_classSources, ih _ _ hrest, hcn]
        constructor
        · rintro (⟨hr, pre, new, post, hp, ha⟩ | ⟨hr, pre, new, post, hp, ha⟩)
          · exact ⟨hr, pre, new, post ++ classNames ps, by simp [hp], ha⟩
          · exact ⟨hr, classPartNames p ++ pre, new, post, by simp [hp], by simpa using ha⟩
        · rintro ⟨hr, pre, new, post, hp, ha⟩
          -- split position: inside `classPartNames p` or inside the rest
          rcases List.append_eq_append_iff.mp hp with ⟨a', h1, h2⟩ | ⟨c', h1, h2⟩
          · -- pre = classPartNames p ++ a'
            right
            refine ⟨hr, a', new, post, h2, ?_⟩
            rw [h1] at ha; simpa using ha
          · -- classPartNames p = pre ++ c', c' ++ classNames ps = new :: post
            cases c' with
            | nil =>
              right
              simp at h1 h2
              refine ⟨hr, [], new, post, by simpa using h2.symm, ?_⟩
              rw [h1]; simpa using ha
            | cons y c'' =>
              left
              simp at h2
              obtain ⟨h2a, h2b⟩ := h2
              subst h2a
              exact ⟨hr, pre, _, _, h1, ha⟩
    · simp only [partsSources, hcls] at h
      cases hp : parseStyleStr T sp p with
      | none => simp [hp] at h
      | some a =>
        cases hrest : partsSources T sp rules seen ps with
        | none => simp [hp, hrest] at h
        | some rest =>
          simp [hp, hrest] at h; subst h
          have hcn : classNames (p :: ps) = classNames ps := by
            unfold classNames
            rw [List.filter_cons_of_neg hcls]
          rw [hcn, ← ih _ _ hrest]
          simp
end Ptk.C19

namespace Ptk.C19
open Ptk.Py

/-- going through `rest`, a class set that is eventually complete is applied at the moment it
    becomes complete -/
theorem exists_applies (ns : List Text) (rest seen : List Text)
    (hall : ∀ n ∈ ns, n ∈ seen ∨ n ∈ rest) (hnot : ∃ n ∈ ns, n ∉ seen) :
    ∃ pre new post, rest = pre ++ new :: post ∧ Applies (seen ++ pre) new ns := by
  induction rest generalizing seen with
  | nil =>
    obtain ⟨n, hn, hns⟩ := hnot
    rcases hall n hn with h | h
    · exact absurd h hns
    · simp at h
  | cons x xs ih =>
    by_cases hsub : ∀ n ∈ ns, n ∈ seen ∨ n = x
    · -- complete now: x is the missing name
      obtain ⟨n, hn, hns⟩ := hnot
      have hx : n = x := by
        rcases hsub n hn with h | h
        · exact absurd h hns
        · exact h
      subst hx
      refine ⟨[], n, xs, rfl, hn, fun m hm => ?_⟩
      rcases hsub m hm with h | h
      · right; simpa using h
      · left; exact h
    · -- still incomplete after x
      have hsub' : ∃ n ∈ ns, ¬(n ∈ seen ∨ n = x) := by
        apply Classical.byContradiction
        intro hcon
        apply hsub
        intro n hn
        apply Classical.byContradiction
        intro hnn
        exact hcon ⟨n, hn, hnn⟩
      obtain ⟨n, hn, hnn⟩ := hsub'
      have := ih (seen ++ [x])
        (fun m hm => by
          rcases hall m hm with h | h
          · left; simp [h]
          · rcases List.mem_cons.mp h with rfl | h
            · left; simp
            · right; exact h)
        ⟨n, hn, by simpa [not_or] using hnn⟩
      obtain ⟨pre, new, post, hxs, ha⟩ := this
      exact ⟨x :: pre, new, post, by simp [hxs], by simpa using ha⟩

theorem applies_somewhere_iff (ns all : List Text) :
    (∃ pre new post, all = pre ++ new :: post ∧ Applies ([] ++ pre) new ns) ↔
      ns ≠ [] ∧ ∀ n ∈ ns, n ∈ all := by
  constructor
  · rintro ⟨pre, new, post, rfl, hnew, hall⟩
    refine ⟨List.ne_nil_of_mem hnew, fun n hn => ?_⟩
    rcases hall n hn with rfl | h
    · simp
    · simp at h; simp [h]
  · rintro ⟨hne, hall⟩
    apply exists_applies ns all [] (fun n hn => Or.inr (hall n hn))
    cases ns with
    | nil => exact absurd rfl hne
    | cons a _ => exact ⟨a, by simp, by simp⟩

/-- **Which rules take part.**  A rule of the sheet contributes to the resolution of a style
    string iff ALL its class names occur among the (expanded) class names of the string — in
    particular a rule for a combination of classes applies only when all of them are present;
    rules with an empty class set (default rules) always take part. -/
theorem rule_used_iff (T : Tables) (sp : Char → Bool) (rules : List Rule) (s : Text) (d : Attrs)
    (srcs : List Src) (h : sources T sp rules s d = some srcs) (r : Rule) :
    Src.rule r ∈ srcs ↔ r ∈ rules ∧ ∀ n ∈ r.names, n ∈ classNames (splitWs sp s) := by
  unfold sources at h
  cases hp : partsSources T sp rules [] (splitWs sp s) with
  | none => simp [hp] at h
  | some ps =>
    simp [hp] at h; subst h
    simp only [List.mem_cons, List.mem_append, List.mem_map, List.mem_filter, reduceCtorEq, false_or]
    rw [mem_partsSources T sp rules r _ [] ps hp, applies_somewhere_iff]
    constructor
    · rintro (⟨r', ⟨hr, hemp⟩, heq⟩ | ⟨hr, _, hall⟩)
      · cases heq
        refine ⟨hr, fun n hn => ?_⟩
        have : r.names = [] := by simpa using hemp
        rw [this] at hn; simp at hn
      · exact ⟨hr, hall⟩
    · rintro ⟨hr, hall⟩
      by_cases hemp : r.names = []
      · left; exact ⟨r, ⟨hr, by simp [hemp]⟩, rfl⟩
      · right; exact ⟨hr, hemp, hall⟩

/-- **Last-wins cascade.**  Whenever `get_attrs_for_style_str` returns, every attribute of the
    result is concrete and equals the value set by the LAST source (default argument, default
    rules, then rules / inline parts from left to right as listed by `sources`) that sets it;
    an attribute set by no source gets '' / False. -/
theorem cascade_last_wins (T : Tables) (sp : Char → Bool) (rules : List Rule) (s : Text) (d a : Attrs)
    (h : getAttrs T sp rules s d = some a) :
    ∃ srcs, sources T sp rules s d = some srcs ∧ Concrete a ∧
      ∃ c bg b u st i bl r hd,
        a = { color := some c, bgcolor := some bg, bold := some b, underline := some u,
              strike := some st, italic := some i, blink := some bl, reverse := some r,
              hidden := some hd } ∧
        LastWins (·.color) (srcs.map Src.attrs) [] c ∧
        LastWins (·.bgcolor) (srcs.map Src.attrs) [] bg ∧
        LastWins (·.bold) (srcs.map Src.attrs) false b ∧
        LastWins (·.underline) (srcs.map Src.attrs) false u ∧
        LastWins (·.strike) (srcs.map Src.attrs) false st ∧
        LastWins (·.italic) (srcs.map Src.attrs) false i ∧
        LastWins (·.blink) (srcs.map Src.attrs) false bl ∧
        LastWins (·.reverse) (srcs.map Src.attrs) false r ∧
        LastWins (·.hidden) (srcs.map Src.attrs) false hd := by
  unfold getAttrs at h
  rw [listOfAttrs_eq_sources] at h
  cases hs : sources T sp rules s d with
  | none => simp [hs] at h
  | some srcs =>
    simp [hs] at h
    subst h
    exact ⟨srcs, rfl, mergeAttrs_concrete _, mergeAttrs_last_wins _⟩

/-- the resolution is a function of the inputs alone (deterministic) and fails only when an
    inline part fails to parse -/
theorem getAttrs_isSome_iff (T : Tables) (sp : Char → Bool) (rules : List Rule) (s : Text) (d : Attrs) :
    (getAttrs T sp rules s d).isSome = (sources T sp rules s d).isSome := by
  unfold getAttrs
  rw [listOfAttrs_eq_sources]
  cases sources T sp rules s d <;> simp
end Ptk.C19
namespace Ptk.C19
open Ptk.Py

theorem compile_append (T : Tables) (sp rsp : Char → Bool) (a b : List (Text × Text)) :
    compile T sp rsp (a ++ b) =
      match compile T sp rsp a with
      | .error e => .error e
      | .ok x => match compile T sp rsp b with
        | .error e => .error e
        | .ok y => .ok (x ++ y) := by
  induction a with
  | nil => simp [compile]; cases compile T sp rsp b <;> rfl
  | cons r rs ih =>
    simp only [List.cons_append, compile]
    cases compileRule T sp rsp r with
    | error e => rfl
    | ok x =>
      simp only [ih]
      cases compile T sp rsp rs with
      | error e => rfl
      | ok xs =>
        cases compile T sp rsp b <;> rfl

/-- every sheet compiled on its own (`Style(rules_i)` for each i) -/
def compileEach (T : Tables) (sp rsp : Char → Bool) :
    List (List (Text × Text)) → Except Err (List (List Rule))
  | [] => .ok []
  | s :: ss => match compile T sp rsp s with
    | .error e => .error e
    | .ok r => match compileEach T sp rsp ss with
      | .error e => .error e
      | .ok rs => .ok (r :: rs)

/-- **Merging is concatenation.**  The rule table of `merge_styles(sheets)` is the concatenation,
    in order, of the rule tables of the individual sheets (`None` entries dropped); it exists
    exactly when every individual sheet can be built. -/
theorem merge_is_concat (T : Tables) (sp rsp : Char → Bool) (sheets : List (Option (List (Text × Text)))) :
    mergedRules T sp rsp sheets =
      match compileEach T sp rsp (sheets.filterMap id) with
      | .error e => .error e
      | .ok rs => .ok rs.flatten := by
  unfold mergedRules
  generalize sheets.filterMap id = l
  induction l with
  | nil => simp [compile, compileEach]
  | cons s ss ih =>
    simp only [List.flatten_cons, compile_append, compileEach, ih]
    cases compile T sp rsp s with
    | error e => rfl
    | ok r => cases compileEach T sp rsp ss <;> rfl

theorem query_build_eq (T : Tables) (sp rsp : Char → Bool) (sheets : List (Option (List (Text × Text)))) :
    query.build T sp rsp sheets =
      match compileEach T sp rsp (sheets.filterMap id) with
      | .error e => .error e
      | .ok _ => .ok () := by
  induction sheets with
  | nil => simp [query.build, compileEach]
  | cons s ss ih =>
    cases s with
    | none => simpa [query.build] using ih
    | some s =>
      simp only [query.build, List.filterMap_cons, id, compileEach, ih]
      cases compile T sp rsp s with
      | error e => rfl
      | ok r => cases compileEach T sp rsp (List.filterMap id ss) <;> rfl

/-- a query against merged sheets is the cascade over the concatenated rule tables: rules of a
    later sheet come later, hence win -/
theorem query_merged (T : Tables) (sp rsp : Char → Bool) (sheets : List (Option (List (Text × Text))))
    (rs : List (List Rule)) (h : compileEach T sp rsp (sheets.filterMap id) = .ok rs)
    (s : Text) (d : Attrs) :
    query T sp rsp sheets s d =
      match getAttrs T sp rs.flatten s d with
      | some a => .ok a
      | none => .error .value := by
  unfold query
  rw [query_build_eq, merge_is_concat, h]
  rfl
end Ptk.C19
