/-
  C01 — views and caches: the sequence version of "the text seen through every view of the buffer is
  the same" (edits interleaved with history working-line switches and `Buffer.document` reads through
  the FastDictCache), and the soundness of the line tables shared between Documents of equal text
  (`_text_to_document_cache`): a cached Document / line table never describes another text.
-/
import Ptk.Props.C01All
namespace Ptk.C01
open Ptk.Py

/-! ### `Buffer._document_cache` (FastDictCache keyed on (text, cursor)) -/

/-- every cached Document is the Document of its own key -/
def DCacheOK (c : DCache) : Prop := ∀ p ∈ c, p.2 = mkDoc p.1

theorem dlookup_ok (c : DCache) (hc : DCacheOK c) (k : DKey) (d : Doc) (h : dlookup c k = some d) :
    d = mkDoc k := by
  unfold dlookup at h
  cases hf : List.find? (fun p => p.1 == k) c with
  | none => rw [hf] at h; simp at h
  | some p =>
    rw [hf] at h; simp at h; subst h
    have hk := List.find?_some hf
    have hm := List.mem_of_find?_eq_some hf
    simp at hk
    rw [hc p hm, hk]

/-- a lookup through the cache — hit or miss, with or without eviction — returns the Document of
    exactly the requested (text, cursor), and the cache stays sound and bounded -/
theorem dget_ok (size : Nat) (c : DCache) (k : DKey) (hc : DCacheOK c) :
    (dget size c k).2 = mkDoc k ∧ DCacheOK (dget size c k).1 ∧
    (c.length ≤ size + 1 → (dget size c k).1.length ≤ size + 1) := by
  unfold dget
  cases hl : dlookup c k with
  | some d =>
    simp only []
    exact ⟨dlookup_ok c hc k d hl, hc, fun h => h⟩
  | none =>
    refine ⟨by rfl, ?_, ?_⟩
    · intro p hp
      simp only [] at hp
      rw [List.mem_append] at hp
      rcases hp with hp | hp
      · apply hc
        split at hp
        · exact List.mem_of_mem_drop hp
        · exact hp
      · simp at hp; subst hp; rfl
    · intro hlen
      by_cases hgt : c.length > size
      · simp [hgt]; omega
      · simp [hgt]; omega

example : (dget 1 [(("a".toList, 0), mkDoc ("a".toList, 0)), (("b".toList, 1), mkDoc ("b".toList, 1))] ("c".toList, 0)).1
    = [(("b".toList, 1), mkDoc ("b".toList, 1)), (("c".toList, 0), mkDoc ("c".toList, 0))] := by decide

theorem setCur_dcache (h : HBuf) (v : Int) : (h.setCur v).dcache = h.dcache := rfl
theorem setIndex_dcache (h : HBuf) (v : Nat) : (h.setIndex v).dcache = h.dcache := by
  unfold HBuf.setIndex; split <;> rfl

theorem hstep_dcache_ok (e : Env) (size : Nat) (h : HBuf) (hc : DCacheOK h.dcache) (op : HOp) :
    DCacheOK (hstep e size h op).dcache := by
  cases op <;> simp only [hstep]
  · exact hc
  · unfold HBuf.goToHistory; split
    · simp only [setCur_dcache, setIndex_dcache]; exact hc
    · exact hc
  · unfold HBuf.historyBackward; split
    · exact hc
    · simp only [setCur_dcache, setIndex_dcache]; exact hc
  · unfold HBuf.historyForward; split
    · simp only [setCur_dcache, setIndex_dcache]; exact hc
    · exact hc
  · exact hc
  · exact (dget_ok size h.dcache _ hc).2.1

theorem hrun_dcache_ok (e : Env) (size : Nat) (ops : List HOp) (h : HBuf) (hc : DCacheOK h.dcache) :
    DCacheOK (hrun e size h ops).dcache := by
  unfold hrun
  induction ops generalizing h with
  | nil => simpa
  | cons op ops ih => simp only [List.foldl_cons]; exact ih _ (hstep_dcache_ok e size h hc op)

/-- THE VIEWS THEOREM for sequences: after any finite interleaving of edits (Buffer methods, named
    commands, reshape), history working-line switches (go_to_history, history_backward/forward),
    resets and reads of `Buffer.document`, the text seen through every view is the same:
    `Buffer.text` = `_working_lines[working_index]` = `Buffer.document.text` (read through the
    FastDictCache), the document's cursor is the buffer's cursor, and it lies within the text -/
theorem views_agree_seq (e : Env) (size : Nat) (ops : List HOp) (h : HBuf) (hi : HInv h)
    (hc : DCacheOK h.dcache) :
    let h' := hrun e size h ops
    h'.text? = some h'.text ∧ h'.work[h'.idx]? = some h'.text ∧
    (h'.document size).2 = { text := h'.text, cur := h'.cur } ∧ h'.cur ≤ h'.text.length := by
  intro h'
  have hi' : HInv h' := hrun_hinv e size ops h hi
  have hc' : DCacheOK h'.dcache := hrun_dcache_ok e size ops h hc
  have ht : h'.work[h'.idx]? = some h'.text := by
    rw [HBuf.text_eq h' hi'.1]; exact List.getElem?_eq_getElem hi'.1
  refine ⟨ht, ht, ?_, hi'.2⟩
  exact (dget_ok size h'.dcache (h'.text, h'.cur) hc').1

def exEnv : Env :=
  { isSpace := (fun c => c == ' '), reSpace := (fun c => c == ' '), isBreak := (fun c => c == '\n'),
    f := id, hsBefore := [' '], hsAfter := [' '], commentPrefix := ['#'], commentArg := 1,
    killWordNegFixed := true, reshapeDefaultWidth := 80 }

example : (fun h : HBuf => (h.work, h.idx, h.cur))
    (hrun exEnv 10 { work := ["old".toList, "new".toList], idx := 1, cur := 3, dcache := [] }
      [.back 1, .edit (.base (.insert ['!'] false true)), .getDocument, .fwd 1])
    = (["old!".toList, "new".toList], 1, 3) := by decide

/-! ### `_text_to_document_cache`: line tables shared between Documents of equal text -/

/-- what a filled cell says is true of its owner text -/
def CellOK (c : Cell) : Prop :=
  (∀ ls, c.lines = some ls → ls = splitOn '\n' c.owner) ∧
  (∀ ix, c.idx = some ix → ix = lineStarts (splitOn '\n' c.owner))

/-- soundness invariant of the shared cache: every cell is right about its owner text, the
    dictionary maps a text to a cell owned by that text, and every live Document holds a cell owned
    by its own text -/
def CInv (s : CState) : Prop :=
  (∀ (a : Nat) (c : Cell), s.heap[a]? = some c → CellOK c) ∧
  (∀ p ∈ s.tmap, ∃ c, s.heap[p.2]? = some c ∧ c.owner = p.1) ∧
  (∀ d ∈ s.docs, ∃ c, s.heap[d.addr]? = some c ∧ c.owner = d.text)

theorem tlookup_mem (m : List (Text × Nat)) (t : Text) (a : Nat) (h : tlookup m t = some a) :
    (t, a) ∈ m := by
  unfold tlookup at h
  cases hf : List.find? (fun p => p.1 == t) m with
  | none => rw [hf] at h; simp at h
  | some p =>
    rw [hf] at h; simp at h
    have hk := List.find?_some hf
    have hm := List.mem_of_find?_eq_some hf
    simp at hk
    obtain ⟨p1, p2⟩ := p
    simp at hk h; subst hk; subst h; exact hm

theorem newDoc_cinv (s : CState) (hs : CInv s) (t : Text) (c : Nat) : CInv (s.newDoc t c) := by
  obtain ⟨h1, h2, h3⟩ := hs
  unfold CState.newDoc
  cases hl : tlookup s.tmap t with
  | some a =>
    simp only []
    refine ⟨h1, h2, ?_⟩
    intro d hd
    rw [List.mem_append] at hd
    rcases hd with hd | hd
    · exact h3 d hd
    · simp at hd; subst hd
      exact h2 (t, a) (tlookup_mem _ _ _ hl)
  | none =>
    simp only []
    have hnew : (s.heap ++ [{ owner := t, lines := none, idx := none }])[s.heap.length]? =
        some { owner := t, lines := none, idx := none } := by simp
    have hold : ∀ (a : Nat) (c : Cell), s.heap[a]? = some c → (s.heap ++ [{ owner := t, lines := none, idx := none }])[a]? = some c := by
      intro a c hac
      have : a < s.heap.length := by
        by_cases hlt : a < s.heap.length
        · exact hlt
        · rw [List.getElem?_eq_none (by omega)] at hac; cases hac
      rw [List.getElem?_append_left this]; exact hac
    refine ⟨?_, ?_, ?_⟩
    · intro a c hac
      by_cases hlt : a < s.heap.length
      · rw [List.getElem?_append_left hlt] at hac; exact h1 a c hac
      · by_cases heq : a = s.heap.length
        · subst heq; rw [hnew] at hac; cases hac
          unfold CellOK
          exact ⟨fun ls h => by simp at h, fun ix h => by simp at h⟩
        · rw [List.getElem?_eq_none (by simp; omega)] at hac; cases hac
    · intro p hp
      rw [List.mem_cons] at hp
      rcases hp with hp | hp
      · subst hp; exact ⟨_, hnew, rfl⟩
      · obtain ⟨c', hc1, hc2⟩ := h2 p hp
        exact ⟨c', hold _ _ hc1, hc2⟩
    · intro d hd
      rw [List.mem_append] at hd
      rcases hd with hd | hd
      · obtain ⟨c', hc1, hc2⟩ := h3 d hd
        exact ⟨c', hold _ _ hc1, hc2⟩
      · simp at hd; subst hd; exact ⟨_, hnew, rfl⟩

/-- replacing a cell by one with the same owner that is still right keeps the invariant -/
theorem set_cinv (s : CState) (hs : CInv s) (a : Nat) (c c' : Cell) (hc : s.heap[a]? = some c)
    (ho : c'.owner = c.owner) (hok : CellOK c') : CInv { s with heap := s.heap.set a c' } := by
  obtain ⟨h1, h2, h3⟩ := hs
  have hlt : a < s.heap.length := by
    by_cases hlt : a < s.heap.length
    · exact hlt
    · rw [List.getElem?_eq_none (by omega)] at hc; cases hc
  have key : ∀ (x : Nat) (cx : Cell), s.heap[x]? = some cx → ∃ cy, (s.heap.set a c')[x]? = some cy ∧ cy.owner = cx.owner := by
    intro x cx hx
    by_cases hxa : a = x
    · subst hxa
      rw [hc] at hx; cases hx
      exact ⟨c', by simp [hlt], ho⟩
    · exact ⟨cx, by rw [List.getElem?_set_ne hxa]; exact hx, rfl⟩
  refine ⟨?_, ?_, ?_⟩
  · intro x cx hx
    by_cases hxa : a = x
    · subst hxa
      simp [hlt] at hx; subst hx; exact hok
    · rw [List.getElem?_set_ne hxa] at hx; exact h1 x cx hx
  · intro p hp
    obtain ⟨cx, hx1, hx2⟩ := h2 p hp
    obtain ⟨cy, hy1, hy2⟩ := key _ _ hx1
    exact ⟨cy, hy1, by rw [hy2, hx2]⟩
  · intro d hd
    obtain ⟨cx, hx1, hx2⟩ := h3 d hd
    obtain ⟨cy, hy1, hy2⟩ := key _ _ hx1
    exact ⟨cy, hy1, by rw [hy2, hx2]⟩

/-- reading `.lines` through ANY live Document yields the lines of THAT Document's text, whatever
    was cached before and whoever filled the shared cell -/
theorem getLines_sound (s : CState) (hs : CInv s) (i : Nat) (d : DocRef) (hd : s.docs[i]? = some d) :
    (s.getLines i).2 = splitOn '\n' d.text ∧ CInv (s.getLines i).1 ∧ (s.getLines i).1.docs = s.docs := by
  have hmem : d ∈ s.docs := List.mem_of_getElem? hd
  obtain ⟨c, hc1, hc2⟩ := hs.2.2 d hmem
  cases hl : c.lines with
  | some ls =>
    have hval : s.getLines i = (s, ls) := by
      unfold CState.getLines; simp only [hd, hc1, hl]
    rw [hval]
    refine ⟨?_, hs, rfl⟩
    show ls = _
    rw [(hs.1 _ _ hc1).1 ls hl, hc2]
  | none =>
    have hval : s.getLines i = ({ s with heap := s.heap.set d.addr { c with lines := some (splitOn '\n' d.text) } },
        splitOn '\n' d.text) := by
      unfold CState.getLines; simp only [hd, hc1, hl]
    rw [hval]
    refine ⟨rfl, ?_, rfl⟩
    refine set_cinv s hs d.addr c { c with lines := some (splitOn '\n' d.text) } hc1 rfl ?_
    unfold CellOK
    refine ⟨?_, ?_⟩
    · intro ls h; simp at h; subst h; rw [hc2]
    · intro ix h; exact (hs.1 _ _ hc1).2 ix h

/-- reading `._line_start_indexes` through any live Document yields the line start table of that
    Document's own text -/
theorem getIndexes_sound (s : CState) (hs : CInv s) (i : Nat) (d : DocRef) (hd : s.docs[i]? = some d) :
    (s.getIndexes i).2 = lineStarts (splitOn '\n' d.text) ∧ CInv (s.getIndexes i).1 := by
  obtain ⟨hl, hs1, hdocs⟩ := getLines_sound s hs i d hd
  have hd1 : (s.getLines i).1.docs[i]? = some d := by rw [hdocs]; exact hd
  have hmem : d ∈ (s.getLines i).1.docs := List.mem_of_getElem? hd1
  obtain ⟨c, hc1, hc2⟩ := hs1.2.2 d hmem
  cases hx : c.idx with
  | some ix =>
    have hval : s.getIndexes i = ((s.getLines i).1, ix) := by
      unfold CState.getIndexes; simp only [hd1, hc1, hx]
    rw [hval]
    refine ⟨?_, hs1⟩
    show ix = _
    rw [(hs1.1 _ _ hc1).2 ix hx, hc2]
  | none =>
    let cell : Cell := { owner := c.owner, lines := c.lines, idx := some (lineStarts (s.getLines i).2) }
    have hval : s.getIndexes i = (CState.mk ((s.getLines i).fst.heap.set d.addr cell)
        (s.getLines i).fst.tmap (s.getLines i).fst.docs, lineStarts (s.getLines i).snd) := by
      unfold CState.getIndexes; simp only [hd1, hc1, hx, cell]
    rw [hval]
    refine ⟨by rw [hl], ?_⟩
    refine set_cinv _ hs1 d.addr c cell hc1 rfl ?_
    unfold CellOK
    refine ⟨?_, ?_⟩
    · intro ls h; exact (hs1.1 _ _ hc1).1 ls h
    · intro ix h
      have h' : some (lineStarts (s.getLines i).snd) = some ix := h
      cases h'; rw [hl, hc2]

theorem cstep_cinv (s : CState) (hs : CInv s) (op : COp) : CInv (cstep s op) := by
  cases op with
  | new t c => exact newDoc_cinv s hs t c
  | lines i =>
    simp only [cstep]
    cases hd : s.docs[i]? with
    | none => simp [CState.getLines, hd]; exact hs
    | some d => exact (getLines_sound s hs i d hd).2.1
  | indexes i =>
    simp only [cstep]
    cases hd : s.docs[i]? with
    | none =>
      have : (s.getLines i) = (s, []) := by simp [CState.getLines, hd]
      simp [CState.getIndexes, this, hd]; exact hs
    | some d => exact (getIndexes_sound s hs i d hd).2
  | gc keep =>
    obtain ⟨h1, h2, h3⟩ := hs
    exact ⟨h1, fun p hp => h2 p ((List.mem_filter.mp hp).1), h3⟩
  | drop i =>
    obtain ⟨h1, h2, h3⟩ := hs
    refine ⟨h1, fun p hp => h2 p ((List.mem_filter.mp hp).1), ?_⟩
    intro d hd
    exact h3 d (List.mem_of_mem_eraseIdx hd)

theorem crun_cinv (ops : List COp) (s : CState) (hs : CInv s) : CInv (crun s ops) := by
  unfold crun
  induction ops generalizing s with
  | nil => simpa
  | cons op ops ih => simp only [List.foldl_cons]; exact ih _ (cstep_cinv s hs op)

theorem cinv_empty : CInv { heap := [], tmap := [], docs := [] } :=
  ⟨by intro a c h; simp at h, by intro p h; simp at h, by intro d h; simp at h⟩

/-- THE SHARED-CACHE THEOREM: after any finite sequence of Document creations, reads of `.lines` /
    `._line_start_indexes` through any live Document, deaths of Documents and arbitrary loss of
    weak dictionary entries, the tables read through EVERY live Document are those of its own
    text: a cached line table never describes another text -/
theorem cache_never_describes_another_text (ops : List COp) (i : Nat) (d : DocRef) :
    let s := crun { heap := [], tmap := [], docs := [] } ops
    s.docs[i]? = some d →
      (s.getLines i).2 = splitOn '\n' d.text ∧
      (s.getIndexes i).2 = lineStarts (splitOn '\n' d.text) := by
  intro s hd
  have hs : CInv s := crun_cinv ops _ cinv_empty
  exact ⟨(getLines_sound s hs i d hd).1, (getIndexes_sound s hs i d hd).1⟩

example : (fun s : CState => (s.docs.map (·.addr), (s.getLines 0).2, (s.getIndexes 1).2))
    (crun { heap := [], tmap := [], docs := [] }
      [.new "a\nb".toList 0, .new "a\nb".toList 2, .lines 0, .new "c".toList 0, .drop 0, .indexes 0])
    = ([0, 1], ["a".toList, "b".toList], [0]) := by decide

end Ptk.C01
