/-
  C03 — structure of recognised sequences and of held-back prefixes, under a second set of
  decidable side conditions (`wf2`) on the table / digit class:

    * a recognised sequence of two or more characters starts with ESC (`match_head`) and can not
      grow into a longer one (`match_not_held`);
    * a held-back prefix is `ESC u w` with no ESC in `u` and `w` the ≤ 2 payload characters of an
      X10 mouse report (`held_struct`); its prefixes of length ≥ 2 are held back too (`held_take`);
    * a proper non-empty prefix of a recognised sequence is held back (`match_prefix_held`).
-/
import Ptk.Props.C03Decode
namespace Ptk.C03
open Ptk.Py

/-! ### decidable side conditions, second set -/

def wf2Entry (cfg : Cfg) (kv : Text × List String) : Bool :=
  (decide (kv.1.length ≤ 1) ||
    (kv.1.head? == some ESC && !kv.1.tail.contains ESC && !isPrefixOfLonger cfg kv.1))
  && (List.range kv.1.length).all fun i =>
       !isCpr cfg.isDigit (kv.1.take i) && !isMouse cfg.isDigit (kv.1.take i)

/-- * every table sequence of two or more characters starts with ESC, contains no other ESC and is
      not a proper prefix of anything longer (table sequence, CPR or mouse report);
    * no proper prefix of a table sequence is a complete CPR / mouse report;
    * `ESC \n` is not a table sequence; a lone ESC is held back;
    * ESC, `R`, `M`, `m`, `<` are not `\d` digits. -/
def wf2 (cfg : Cfg) : Bool :=
  cfg.table.all (wf2Entry cfg)
  && lookup cfg.table [ESC, '\n'] == []
  && isPrefixOfLonger cfg [ESC]
  && !cfg.isDigit ESC && !cfg.isDigit 'R' && !cfg.isDigit 'M' && !cfg.isDigit 'm' && !cfg.isDigit '<'

structure WF2 (cfg : Cfg) : Prop where
  entry : ∀ kv ∈ cfg.table, wf2Entry cfg kv = true
  escNl : lookup cfg.table [ESC, '\n'] = []
  escHeld : isPrefixOfLonger cfg [ESC] = true
  dEsc : cfg.isDigit ESC = false
  dR : cfg.isDigit 'R' = false
  dM : cfg.isDigit 'M' = false
  dm : cfg.isDigit 'm' = false
  dLt : cfg.isDigit '<' = false

theorem wf2_iff (cfg : Cfg) : wf2 cfg = true ↔ WF2 cfg := by
  unfold wf2
  simp only [Bool.and_eq_true, List.all_eq_true, beq_iff_eq, Bool.not_eq_true']
  constructor
  · rintro ⟨⟨⟨⟨⟨⟨⟨h1, h2⟩, h3⟩, h4⟩, h5⟩, h6⟩, h7⟩, h8⟩; exact ⟨h1, h2, h3, h4, h5, h6, h7, h8⟩
  · rintro ⟨h1, h2, h3, h4, h5, h6, h7, h8⟩; exact ⟨⟨⟨⟨⟨⟨⟨h1, h2⟩, h3⟩, h4⟩, h5⟩, h6⟩, h7⟩, h8⟩

/-- a table sequence of two or more characters: `ESC t`, no ESC in `t`, not held back -/
theorem wf2_long {cfg : Cfg} (h : WF2 cfg) {k : Text} {v : List String} (hm : (k, v) ∈ cfg.table)
    (hl : 2 ≤ k.length) : (∃ t, k = ESC :: t ∧ ESC ∉ t) ∧ isPrefixOfLonger cfg k = false := by
  have he := h.entry _ hm
  simp only [wf2Entry, Bool.and_eq_true, Bool.or_eq_true, decide_eq_true_eq, beq_iff_eq,
    Bool.not_eq_true', List.contains_eq_mem, decide_eq_false_iff_not] at he
  obtain ⟨he, _⟩ := he
  rcases he with he | ⟨⟨h1, h2⟩, h3⟩
  · omega
  · cases k with
    | nil => simp at hl
    | cons x t =>
      simp only [List.head?_cons, Option.some.injEq] at h1
      subst h1
      exact ⟨⟨t, rfl, by simpa using h2⟩, h3⟩

/-- no proper prefix of a table sequence is a CPR / mouse report -/
theorem wf2_noReport {cfg : Cfg} (h : WF2 cfg) {k : Text} {v : List String} (hm : (k, v) ∈ cfg.table)
    {i : Nat} (hi : i < k.length) :
    isCpr cfg.isDigit (k.take i) = false ∧ isMouse cfg.isDigit (k.take i) = false := by
  have he := h.entry _ hm
  simp only [wf2Entry, Bool.and_eq_true, List.all_eq_true, List.mem_range, Bool.not_eq_true'] at he
  exact he.2 i hi

theorem esc_not_DS {cfg : Cfg} (h : WF2 cfg) : isDS cfg.isDigit ESC = false := by
  simp only [isDS, h.dEsc, Bool.false_or]; decide

theorem esc_notin_allDS {cfg : Cfg} (h : WF2 cfg) {r : Text} (hr : r.all (isDS cfg.isDigit) = true) :
    ESC ∉ r := by
  intro hm
  rw [List.all_eq_true] at hr
  have := hr _ hm
  rw [esc_not_DS h] at this
  cases this

/-! ### recognised sequences start with ESC -/

theorem getMatch_escNl {cfg : Cfg} (h : WF2 cfg) : getMatch cfg [ESC, '\n'] = [] := by
  have h1 : isCpr cfg.isDigit [ESC, '\n'] = false := rfl
  have h2 : isMouse cfg.isDigit [ESC, '\n'] = false := rfl
  simp [getMatch, h1, h2, h.escNl]

/-- **a recognised sequence of two or more characters starts with ESC** -/
theorem match_head {cfg : Cfg} (h : WF2 cfg) {p : Text} (hm : getMatch cfg p ≠ [])
    (hl : 2 ≤ p.length) : ∃ t, p = ESC :: t := by
  unfold getMatch at hm
  split at hm
  · rename_i hc
    unfold isCpr at hc
    split at hc
    · rename_i r hr; exact ⟨_, csi_some hr⟩
    · cases hc
  · split at hm
    · rename_i hc
      unfold isMouse at hc
      split at hc
      · rename_i r hr; exact ⟨_, csi_some hr⟩
      · cases hc
    · obtain ⟨⟨t, ht, _⟩, _⟩ := wf2_long h (lookup_mem rfl hm) hl
      exact ⟨t, ht⟩

/-! ### held-back prefixes -/

/-- `ESC[Mabc` with no newline among `a b c` is a mouse report -/
theorem x10_match (cfg : Cfg) (a b c : Char) (ha : a ≠ '\n') (hb : b ≠ '\n') (hc : c ≠ '\n') :
    getMatch cfg [ESC, '[', 'M', a, b, c] ≠ [] := by
  have : isMouse cfg.isDigit [ESC, '[', 'M', a, b, c] = true := by
    simp [isMouse, csi, mouseBody, mDots, ha, hb, hc]
  unfold getMatch
  split
  · simp
  · simp

/-- **shape of a held-back prefix**: `ESC u w`, no ESC in `u`, `w` = the (at most two) payload
    characters of an X10 mouse report; with two payload characters any further character except a
    newline completes the report. -/
theorem held_struct {cfg : Cfg} (h : WF2 cfg) {g : Text} (hg : isPrefixOfLonger cfg g = true)
    (hne : g ≠ []) :
    ∃ u w, g = ESC :: (u ++ w) ∧ ESC ∉ u ∧ w.length ≤ 2 ∧
      (w.length = 2 → ∀ c, c ≠ '\n' → getMatch cfg (g ++ [c]) ≠ []) := by
  unfold isPrefixOfLonger at hg
  split at hg
  · rename_i hc
    simp only [Bool.or_eq_true] at hc
    rcases hc with hc | hc
    · unfold isCprPrefix at hc
      split at hc
      · rename_i r hr
        refine ⟨'[' :: r, [], by rw [csi_some hr]; simp, ?_, by simp, by simp⟩
        simp only [List.mem_cons, not_or]
        exact ⟨by decide, esc_notin_allDS h hc⟩
      · cases hc
    · unfold isMousePrefix at hc
      split at hc
      · rename_i r hr
        unfold mousePrefixBody at hc
        simp only [Bool.or_eq_true] at hc
        rcases hc with hc | hc
        · refine ⟨'[' :: r, [], by rw [csi_some hr]; simp, ?_, by simp, by simp⟩
          simp only [List.mem_cons, not_or]
          exact ⟨by decide, esc_notin_allDS h hc⟩
        · split at hc
          · rename_i c r'
            simp only [Bool.or_eq_true, Bool.and_eq_true, beq_iff_eq, decide_eq_true_eq] at hc
            rcases hc with ⟨hc1, hc2⟩ | ⟨⟨hc1, hc2⟩, hc3⟩
            · subst hc1
              refine ⟨'[' :: '<' :: r', [], by rw [csi_some hr]; simp, ?_, by simp, by simp⟩
              simp only [List.mem_cons, not_or]
              exact ⟨by decide, by decide, esc_notin_allDS h hc2⟩
            · subst hc1
              refine ⟨['[', 'M'], r', by rw [csi_some hr]; simp, by decide, hc2, ?_⟩
              intro hl c hcn
              rw [csi_some hr]
              match r', hl, hc3 with
              | [a, b], _, hc3 =>
                simp only [List.all_cons, List.all_nil, Bool.and_true, Bool.and_eq_true, bne_iff_ne, ne_eq] at hc3
                exact x10_match cfg a b c hc3.1 hc3.2 hcn
          · cases hc
      · cases hc
  · rw [List.any_eq_true] at hg
    obtain ⟨⟨k, v⟩, hm, hkv⟩ := hg
    simp only [Bool.and_eq_true, Bool.not_eq_true', bne_iff_ne, ne_eq] at hkv
    obtain ⟨⟨_, hpk⟩, hnk⟩ := hkv
    rw [List.isPrefixOf_iff_prefix] at hpk
    have hlen : 2 ≤ k.length := by
      have h1 := hpk.length_le
      have h2 : g.length ≠ 0 := by simpa using hne
      by_cases h3 : g.length = k.length
      · exact absurd (hpk.eq_of_length h3).symm hnk
      · omega
    obtain ⟨⟨t, rfl, ht⟩, _⟩ := wf2_long h hm hlen
    cases g with
    | nil => exact absurd rfl hne
    | cons x g' =>
      rw [List.cons_prefix_cons] at hpk
      obtain ⟨rfl, hp'⟩ := hpk
      exact ⟨g', [], by simp, fun hx => ht (hp'.subset hx), by simp, by simp⟩

theorem take_csi (r : Text) (i : Nat) (hi : 2 ≤ i) :
    (ESC :: '[' :: r).take i = ESC :: '[' :: r.take (i - 2) := by
  obtain ⟨n, rfl⟩ : ∃ n, i = n + 2 := ⟨i - 2, by omega⟩
  simp

theorem all_take {p : Char → Bool} {r : Text} (n : Nat) (h : r.all p = true) : (r.take n).all p = true :=
  all_of_prefix (List.take_prefix n r) h

theorem mousePrefixBody_take {dg : Char → Bool} {r : Text} (n : Nat) (h : mousePrefixBody dg r = true) :
    mousePrefixBody dg (r.take n) = true := by
  unfold mousePrefixBody at h ⊢
  simp only [Bool.or_eq_true] at h ⊢
  rcases h with h | h
  · exact Or.inl (all_take n h)
  · cases r with
    | nil => cases h
    | cons c r' =>
      cases n with
      | zero => left; rfl
      | succ n =>
        right
        simp only [List.take_succ_cons, Bool.or_eq_true, Bool.and_eq_true, beq_iff_eq,
          decide_eq_true_eq] at h ⊢
        rcases h with ⟨h1, h2⟩ | ⟨⟨h1, h2⟩, h3⟩
        · exact Or.inl ⟨h1, all_take n h2⟩
        · refine Or.inr ⟨⟨h1, ?_⟩, all_take n h3⟩
          simp; omega

/-- the prefixes (of length ≥ 2) of a held-back prefix are held back -/
theorem held_take {cfg : Cfg} {g : Text} (hg : isPrefixOfLonger cfg g = true) {i : Nat}
    (hi : 2 ≤ i) (hig : i ≤ g.length) : isPrefixOfLonger cfg (g.take i) = true := by
  unfold isPrefixOfLonger at hg ⊢
  split at hg
  · rename_i hc
    simp only [Bool.or_eq_true] at hc
    have : (isCprPrefix cfg.isDigit (g.take i) || isMousePrefix cfg.isDigit (g.take i)) = true := by
      simp only [Bool.or_eq_true]
      rcases hc with hc | hc
      · left
        unfold isCprPrefix at hc ⊢
        split at hc
        · rename_i r hr
          rw [csi_some hr, take_csi r i hi, csi_cons]
          exact all_take _ hc
        · cases hc
      · right
        unfold isMousePrefix at hc ⊢
        split at hc
        · rename_i r hr
          rw [csi_some hr, take_csi r i hi, csi_cons]
          exact mousePrefixBody_take _ hc
        · cases hc
    simp [this]
  · split
    · rfl
    · rw [List.any_eq_true] at hg ⊢
      obtain ⟨⟨k, v⟩, hm, hkv⟩ := hg
      simp only [Bool.and_eq_true, Bool.not_eq_true', bne_iff_ne, ne_eq] at hkv
      obtain ⟨⟨hv, hpk⟩, hnk⟩ := hkv
      rw [List.isPrefixOf_iff_prefix] at hpk
      refine ⟨(k, v), hm, ?_⟩
      simp only [Bool.and_eq_true, Bool.not_eq_true', bne_iff_ne, ne_eq, hv, true_and,
        List.isPrefixOf_iff_prefix]
      refine ⟨(List.take_prefix i g).trans hpk, ?_⟩
      intro e
      have h1 := hpk.length_le
      have h2 : k.length = i := by rw [e]; simp; omega
      exact hnk (hpk.eq_of_length (by omega)).symm

/-- a proper non-empty prefix of a recognised sequence is held back -/
theorem match_prefix_held {cfg : Cfg} (h2 : WF2 cfg) {P q : Text}
    (hm : getMatch cfg P ≠ []) (hq : q <+: P) (hne : q ≠ P) (hnil : q ≠ []) :
    isPrefixOfLonger cfg q = true := by
  unfold getMatch at hm
  split at hm
  · rename_i hc; exact cpr_held cfg h2.escHeld hc q hq hne hnil
  · split at hm
    · rename_i hc; exact mouse_held cfg h2.escHeld hc q hq hne hnil
    · exact isPrefixOfLonger_of_mem cfg (lookup_mem rfl hm) hm hq hne

/-! ### recognised sequences can not grow -/

theorem eq_dropLast_of_getLast? {α} {l : List α} {c : α} (h : l.getLast? = some c) :
    l = l.dropLast ++ [c] := by
  have hne : l ≠ [] := by intro e; rw [e] at h; cases h
  have h1 := List.dropLast_concat_getLast hne
  rw [List.getLast?_eq_some_getLast hne] at h
  cases h
  exact h1.symm

theorem dsM_shape {dg : Char → Bool} {x : Text} (h : dsM dg x = true) :
    ∃ d c, x = d ++ [c] ∧ (c = 'm' ∨ c = 'M') ∧ d ≠ [] ∧ d.all (isDS dg) = true := by
  unfold dsM at h
  split at h
  · rename_i c hc
    simp only [Bool.and_eq_true, Bool.or_eq_true, beq_iff_eq, Bool.not_eq_true', List.isEmpty_eq_false_iff] at h
    exact ⟨x.dropLast, c, eq_dropLast_of_getLast? hc, h.1.1, h.1.2, h.2⟩
  · cases h

theorem cprBody_shape {dg : Char → Bool} {r : Text} (h : cprBody dg r = true) :
    ∃ a b, r = a ++ ';' :: (b ++ ['R']) ∧ a ≠ [] ∧ a.all dg = true := by
  unfold cprBody at h
  rw [List.any_eq_true] at h
  obtain ⟨i, hi, h⟩ := h
  simp only [Bool.and_eq_true, beq_iff_eq] at h
  obtain ⟨⟨h1, h2⟩, h3⟩ := h
  rw [List.mem_range] at hi
  have hsplit : r = r.take i ++ ';' :: r.drop (i + 1) := by
    have hget : r[i] = ';' := by
      have := List.getElem?_eq_getElem hi
      rw [this] at h1; exact Option.some.inj h1
    rw [← hget]; simp
  unfold digitsR at h3
  split at h3
  · rename_i c hc
    simp only [Bool.and_eq_true, beq_iff_eq] at h3
    have := eq_dropLast_of_getLast? hc
    rw [h3.1] at this
    refine ⟨r.take i, (r.drop (i + 1)).dropLast, by rw [← this]; exact hsplit, ?_, ?_⟩
    · simp only [digits1, Bool.and_eq_true, Bool.not_eq_true', List.isEmpty_eq_false_iff] at h2; exact h2.1
    · simp only [digits1, Bool.and_eq_true] at h2; exact h2.2
  · cases h3

theorem notDS {dg : Char → Bool} {c : Char} (h1 : dg c = false) (h2 : c ≠ ';') : isDS dg c = false := by
  simp [isDS, h1, h2]

theorem not_allDS {dg : Char → Bool} {r : Text} {c : Char} (hm : c ∈ r) (hc : isDS dg c = false) :
    r.all (isDS dg) = false := by
  cases h : r.all (isDS dg) with
  | false => rfl
  | true => rw [List.all_eq_true] at h; rw [h c hm] at hc; cases hc

/-- a complete CPR report matches neither prefix pattern -/
theorem cprBody_not_prefix {dg : Char → Bool} (hR : dg 'R' = false) (hM : dg 'M' = false)
    (hLt : dg '<' = false) {r : Text} (h : cprBody dg r = true) :
    cprPrefixBody dg r = false ∧ mousePrefixBody dg r = false := by
  obtain ⟨a, b, rfl, ha, had⟩ := cprBody_shape h
  have hall : (a ++ ';' :: (b ++ ['R'])).all (isDS dg) = false :=
    not_allDS (c := 'R') (by simp) (notDS hR (by decide))
  refine ⟨hall, ?_⟩
  unfold mousePrefixBody
  rw [hall]
  cases a with
  | nil => exact absurd rfl ha
  | cons x a' =>
    simp only [List.all_cons, Bool.and_eq_true] at had
    simp only [List.cons_append, Bool.false_or, Bool.or_eq_false_iff, Bool.and_eq_false_iff, beq_eq_false_iff_ne]
    constructor
    · left; intro e; rw [e, hLt] at had; cases had.1
    · left; left; intro e; rw [e, hM] at had; cases had.1

/-- a complete mouse report matches neither prefix pattern -/
theorem mouseBody_not_prefix {dg : Char → Bool} (hm : dg 'm' = false) (hM : dg 'M' = false)
    (hLt : dg '<' = false) {r : Text} (h : mouseBody dg r = true) :
    cprPrefixBody dg r = false ∧ mousePrefixBody dg r = false := by
  have dm : isDS dg 'm' = false := notDS hm (by decide)
  have dM : isDS dg 'M' = false := notDS hM (by decide)
  have dLt : isDS dg '<' = false := notDS hLt (by decide)
  unfold mouseBody at h
  simp only [Bool.or_eq_true] at h
  rcases h with (h | h) | h
  · obtain ⟨d, c, rfl, hc, hd, hdall⟩ := dsM_shape h
    have hcDS : isDS dg c = false := by rcases hc with rfl | rfl <;> assumption
    have hall : (d ++ [c]).all (isDS dg) = false := not_allDS (c := c) (by simp) hcDS
    refine ⟨hall, ?_⟩
    unfold mousePrefixBody
    rw [hall]
    cases d with
    | nil => exact absurd rfl hd
    | cons x d' =>
      simp only [List.all_cons, Bool.and_eq_true] at hdall
      simp only [List.cons_append, Bool.false_or, Bool.or_eq_false_iff, Bool.and_eq_false_iff, beq_eq_false_iff_ne]
      constructor
      · left; intro e; rw [e, dLt] at hdall; cases hdall.1
      · left; left; intro e; rw [e, dM] at hdall; cases hdall.1
  · cases r with
    | nil => cases h
    | cons x r' =>
      simp only [Bool.and_eq_true, beq_iff_eq] at h
      obtain ⟨rfl, h⟩ := h
      obtain ⟨d, c, rfl, hc, hd, hdall⟩ := dsM_shape h
      have hcDS : isDS dg c = false := by rcases hc with rfl | rfl <;> assumption
      have hall : ('<' :: (d ++ [c])).all (isDS dg) = false := not_allDS (c := '<') (by simp) dLt
      have hall' : (d ++ [c]).all (isDS dg) = false := not_allDS (c := c) (by simp) hcDS
      refine ⟨hall, ?_⟩
      unfold mousePrefixBody
      rw [hall]
      simp [hall']
  · unfold mDots at h
    split at h
    · rename_i m a b c
      simp only [Bool.and_eq_true, beq_iff_eq] at h
      obtain ⟨⟨⟨rfl, _⟩, _⟩, _⟩ := h
      have hall : ['M', a, b, c].all (isDS dg) = false := not_allDS (c := 'M') (by simp) dM
      refine ⟨hall, ?_⟩
      unfold mousePrefixBody
      rw [hall]
      simp
    · cases h

/-- no table sequence properly extends `p` when `p` is a CPR / mouse report (`wf2`) -/
theorem no_ext_of_report {cfg : Cfg} (h2 : WF2 cfg) {p : Text}
    (hrep : isCpr cfg.isDigit p = true ∨ isMouse cfg.isDigit p = true) :
    (cfg.table.any fun kv => !kv.2.isEmpty && p.isPrefixOf kv.1 && kv.1 != p) = false := by
  cases hany : (cfg.table.any fun kv => !kv.2.isEmpty && p.isPrefixOf kv.1 && kv.1 != p) with
  | false => rfl
  | true =>
    exfalso
    rw [List.any_eq_true] at hany
    obtain ⟨⟨k, v⟩, hm, hkv⟩ := hany
    simp only [Bool.and_eq_true, Bool.not_eq_true', bne_iff_ne, ne_eq] at hkv
    obtain ⟨⟨_, hpk⟩, hnk⟩ := hkv
    rw [List.isPrefixOf_iff_prefix] at hpk
    have hlt : p.length < k.length := by
      have h1 := hpk.length_le
      by_cases h3 : p.length = k.length
      · exact absurd (hpk.eq_of_length h3).symm hnk
      · omega
    have := wf2_noReport h2 hm hlt
    rw [← List.prefix_iff_eq_take.1 hpk] at this
    rcases hrep with hr | hr
    · rw [hr] at this; cases this.1
    · rw [hr] at this; cases this.2

/-- **a recognised sequence of two or more characters can not grow**: it is not a proper prefix
    of a table sequence and matches neither prefix pattern -/
theorem match_not_held {cfg : Cfg} (h2 : WF2 cfg) {p : Text} (hm : getMatch cfg p ≠ [])
    (hl : 2 ≤ p.length) : isPrefixOfLonger cfg p = false := by
  unfold getMatch at hm
  split at hm
  · rename_i hc
    have hext := no_ext_of_report h2 (Or.inl hc)
    unfold isCpr at hc
    split at hc
    · rename_i r hr
      obtain ⟨h3, h4⟩ := cprBody_not_prefix h2.dR h2.dM h2.dLt hc
      unfold isPrefixOfLonger
      simp only [isCprPrefix, isMousePrefix, hr, h3, h4, Bool.or_self, Bool.false_eq_true, if_false]
      exact hext
    · cases hc
  · split at hm
    · rename_i hc
      have hext := no_ext_of_report h2 (Or.inr hc)
      unfold isMouse at hc
      split at hc
      · rename_i r hr
        obtain ⟨h3, h4⟩ := mouseBody_not_prefix h2.dm h2.dM h2.dLt hc
        unfold isPrefixOfLonger
        simp only [isCprPrefix, isMousePrefix, hr, h3, h4, Bool.or_self, Bool.false_eq_true, if_false]
        exact hext
      · cases hc
    · exact (wf2_long h2 (lookup_mem rfl hm) hl).2

end Ptk.C03
