/-
  Cross-model agreement, cluster "KeyProcessor and key bindings".

  Part 1 — the Readline numeric argument
  (src/prompt_toolkit/key_binding/key_processor.py: `KeyPressEvent.append_to_arg_count`,
  `KeyPressEvent.arg`).

  Canonical model: `Ptk.C04` (`Arg = Option (List Char)`: the string as the code keeps it,
  `appendArg`, `argValue cap`).  The other models keep an ABSTRACTION of that string:

    C01      `ArgStr = (neg, digits : List Nat)`      translation `str01 : ArgStr → List Char`
    C07      `Option Nat` (the digits read as a number)   `absNat : C04.Arg → Option Nat`
    C08      `Option Nat`                                  `absNat`
    C09      `Arg = none | dash | num i`, `Option Nat`     `abs09`, `absNat`
    C17.Buf  `Option Nat` (key codes 48..57)               `absNat`
    C05.Skel `Option Bool` ("is it exactly `-`")           `abs05`

  Every theorem is `C04 function = other model's function` modulo the stated translation.
-/
import Ptk.Model.C04Keys
import Ptk.Model.C01Cmd
import Ptk.Model.C07
import Ptk.Model.C08Session
import Ptk.Model.C09Vi
import Ptk.Model.C17Buf
import Ptk.Model.C05Skel
namespace Ptk.AgreeKey

/-! ### digits -/

/-- the character of the decimal digit `d`; a "digit" `d ≥ 10` (C01's `ArgKey.digit` ranges over
    all naturals) stands for a character that is no digit: `:` -/
def dch (d : Nat) : Char := if d < 10 then Char.ofNat (48 + d) else ':'

theorem dch_facts : ∀ d : Fin 10,
    C04.isDigitC (dch d.val) = true ∧ (dch d.val).toNat - '0'.toNat = d.val ∧ dch d.val ≠ '-' := by
  decide

theorem dch_digit {d : Nat} (h : d < 10) : C04.isDigitC (dch d) = true := (dch_facts ⟨d, h⟩).1
theorem dch_val {d : Nat} (h : d < 10) : (dch d).toNat - '0'.toNat = d := (dch_facts ⟨d, h⟩).2.1
theorem dch_ne_dash {d : Nat} (h : d < 10) : dch d ≠ '-' := (dch_facts ⟨d, h⟩).2.2

theorem dch_big {d : Nat} (h : ¬ d < 10) : dch d = ':' := by simp [dch, h]

theorem dch_ne_dash_all (d : Nat) : dch d ≠ '-' := by
  by_cases h : d < 10
  · exact dch_ne_dash h
  · rw [dch_big h]; decide

theorem dch_digit_iff (d : Nat) : C04.isDigitC (dch d) = decide (d < 10) := by
  by_cases h : d < 10
  · simp [dch_digit h, h]
  · rw [dch_big h]; simp [h]; decide

/-- the number a digit string stands for (`int(s)` for a string of digits) -/
def val (s : List Char) : Nat := C04.digitsVal s 0

theorem digitsVal_append (a b : List Char) (acc : Nat) :
    C04.digitsVal (a ++ b) acc = C04.digitsVal b (C04.digitsVal a acc) := by
  induction a generalizing acc with
  | nil => rfl
  | cons c cs ih => simp [C04.digitsVal, ih]

theorem val_snoc (s : List Char) (c : Char) : val (s ++ [c]) = val s * 10 + (c.toNat - '0'.toNat) := by
  simp [val, digitsVal_append, C04.digitsVal]

theorem val_single (c : Char) : val [c] = c.toNat - '0'.toNat := by
  simp [val, C04.digitsVal]

/-- `C04.digitsVal` on the characters of a digit list is `C01.digitsVal` (a left fold) -/
theorem digitsVal_map (ds : List Nat) (acc : Nat) (h : ∀ x ∈ ds, x < 10) :
    C04.digitsVal (ds.map dch) acc = ds.foldl (fun a d => a * 10 + d) acc := by
  induction ds generalizing acc with
  | nil => rfl
  | cons d ds ih =>
    have hd : d < 10 := h d (by simp)
    simp only [List.map_cons, C04.digitsVal, List.foldl_cons, dch_val hd]
    exact ih _ (fun x hx => h x (by simp [hx]))

theorem all_digit_map (ds : List Nat) (h : ∀ x ∈ ds, x < 10) :
    (ds.map dch).all C04.isDigitC = true := by
  simp only [List.all_map, List.all_eq_true]
  intro x hx
  exact dch_digit (h x hx)

/-! ### C01 (`ArgStr`) vs C04 -/

/-- the string an `ArgStr` stands for: optional `-`, then the digits -/
def str01 (a : C01.ArgStr) : List Char := (if a.neg then ['-'] else []) ++ a.digits.map dch

/-- the character an `ArgKey` stands for -/
def keyCh : C01.ArgKey → Char
  | .dash => '-'
  | .digit d => dch d

theorem str01_eq_dash (a : C01.ArgStr) :
    (str01 a == ['-']) = (a.neg && a.digits.isEmpty) := by
  obtain ⟨neg, ds⟩ := a
  cases neg
  · cases ds with
    | nil => simp [str01]
    | cons d ds =>
      cases ds with
      | nil => simp [str01, dch_ne_dash_all d]
      | cons _ _ => simp [str01]
  · cases ds <;> simp [str01]

/-- key_processor.py::KeyPressEvent.append_to_arg_count — `Ptk.C04.appendArg` =
    `Ptk.C01.argAppend`, for ALL current arguments and ALL keys, the failing `assert`s included
    (`none` on both sides: `data` no digit / `-` after something other than `-`).
    `C01.argAppend` returns `Option (Option ArgStr)` (outer `none` = AssertionError, the inner
    option is the new `key_processor.arg`, never `None`); `Option.bind … (Option.map str01)`
    flattens it to C04's `Option (List Char)`. -/
theorem arg_append_C04_C01 (cur : Option C01.ArgStr) (k : C01.ArgKey) :
    C04.appendArg (cur.map str01) (keyCh k) = (C01.argAppend cur k).bind (Option.map str01) := by
  cases k with
  | dash =>
    cases cur with
    | none => simp [C04.appendArg, C01.argAppend, keyCh, str01]
    | some a =>
      have h := str01_eq_dash a
      simp only [Option.map_some, keyCh, C04.appendArg, C01.argAppend, h]
      cases (a.neg && a.digits.isEmpty) <;> simp [str01, C04.isDigitC]
  | digit d =>
    have h2 : (dch d == '-') = false := by simpa using dch_ne_dash_all d
    by_cases hd : d < 10
    · have h1 := dch_digit hd
      cases cur with
      | none => simp [C04.appendArg, C01.argAppend, keyCh, str01, h1, h2, hd]
      | some a => simp [C04.appendArg, C01.argAppend, keyCh, str01, h1, h2, hd]
    · have h1 : C04.isDigitC (dch d) = false := by rw [dch_digit_iff]; simp [hd]
      simp [C04.appendArg, C01.argAppend, keyCh, h1, h2, hd]

/-- key_processor.py::KeyPressEvent.append_to_arg_count, a digit (special case of
    `arg_append_C04_C01`) -/
theorem arg_append_digit_C04_C01 (cur : Option C01.ArgStr) (d : Nat) :
    C04.appendArg (cur.map str01) (dch d) = (C01.argAppend cur (.digit d)).bind (Option.map str01) :=
  arg_append_C04_C01 cur (.digit d)

/-- key_processor.py::KeyPressEvent.append_to_arg_count, `-` (special case of
    `arg_append_C04_C01`; the former hypothesis "current is None or `-`" is gone: outside it both
    models now fail the assert) -/
theorem arg_append_dash_C04_C01 (cur : Option C01.ArgStr) :
    C04.appendArg (cur.map str01) '-' = (C01.argAppend cur .dash).bind (Option.map str01) :=
  arg_append_C04_C01 cur .dash

/-- the former disagreement witness (current `"1"`, data `"-"`): both models now answer with the
    failed assert, as the code does (AssertionError) -/
example : C04.appendArg ((some ⟨false, [1]⟩ : Option C01.ArgStr).map str01) '-' = none ∧
    C01.argAppend (some ⟨false, [1]⟩) .dash = none := by decide

/-- `key_processor.arg` after a handler that called `append_to_arg_count` (unchanged when the
    assert failed): `Ptk.C01.argFeed` = the same with `Ptk.C04.appendArg` -/
theorem arg_feed_C04_C01 (cur : Option C01.ArgStr) (k : C01.ArgKey) :
    (C01.argFeed cur k).map str01
      = (match C04.appendArg (cur.map str01) (keyCh k) with
         | some s => some s
         | none => cur.map str01) := by
  have hsome : ∀ r, C01.argAppend cur k = some r → ∃ a, r = some a := by
    intro r hr
    cases k with
    | dash =>
      cases cur with
      | none => simp [C01.argAppend] at hr; exact ⟨_, hr.symm⟩
      | some a =>
        simp only [C01.argAppend] at hr
        split at hr
        · simp at hr; exact ⟨_, hr.symm⟩
        · cases hr
    | digit d =>
      simp only [C01.argAppend] at hr
      split at hr
      · cases cur <;> (simp at hr; exact ⟨_, hr.symm⟩)
      · cases hr
  rw [arg_append_C04_C01, C01.argFeed]
  cases h : C01.argAppend cur k with
  | none => simp
  | some r =>
    obtain ⟨a, rfl⟩ := hsome r h
    simp

theorem str01_nonneg_ne_dash (ds : List Nat) (h : ∀ x ∈ ds, x < 10) :
    ∀ c cs, ds.map dch = c :: cs → c ≠ '-' := by
  intro c cs he
  cases ds with
  | nil => simp at he
  | cons d ds =>
    simp only [List.map_cons, List.cons.injEq] at he
    rw [← he.1]
    exact dch_ne_dash (h d (by simp))

/-- key_processor.py::KeyPressEvent.arg — `Ptk.C04.argValue cap` = `Ptk.C01.argVal cap 1`
    (C01's `clampTo` parameter is the literal `1` of the code; digits are `< 10`) -/
theorem arg_value_C04_C01 (cap : Nat) (cur : Option C01.ArgStr)
    (h : ∀ a, cur = some a → ∀ x ∈ a.digits, x < 10) :
    C04.argValue cap (cur.map str01) = some (C01.argVal cap 1 cur) := by
  cases cur with
  | none => rfl
  | some a =>
    have hd := h a rfl
    obtain ⟨neg, ds⟩ := a
    simp only at hd
    cases ds with
    | nil =>
      cases neg
      · simp [C04.argValue, C01.argVal, str01]
      · simp [C04.argValue, C01.argVal, str01]
    | cons d ds =>
      have hall := all_digit_map (d :: ds) hd
      have hv := digitsVal_map (d :: ds) 0 hd
      have hne : ((d :: ds).map dch).isEmpty = false := by simp
      cases neg
      · -- no sign
        have hfirst : dch d ≠ '-' := dch_ne_dash (hd d (by simp))
        have hs : str01 ⟨false, d :: ds⟩ = dch d :: ds.map dch := by simp [str01]
        have hnd : (dch d :: ds.map dch == ['-']) = false := by
          simp [hfirst]
        have hp : C04.pyInt (dch d :: ds.map dch) = some (C04.digitsVal (dch d :: ds.map dch) 0 : Int) := by
          have hall' : (dch d :: ds.map dch).all C04.isDigitC = true := by simpa using hall
          unfold C04.pyInt
          split
          · rename_i ds' he
            simp only [List.cons.injEq] at he
            exact absurd he.1 hfirst
          · simp only [List.isEmpty_cons, Bool.not_false, Bool.true_and, hall', if_true]
        have hv' : C04.digitsVal (dch d :: ds.map dch) 0 = C01.digitsVal (d :: ds) := by
          simpa [C01.digitsVal] using hv
        simp only [Option.map_some, hs, C04.argValue, hnd, List.isEmpty_cons, hp, hv', C01.argVal]
        simp
        split <;> rfl
      · -- leading `-`
        have hs : str01 ⟨true, d :: ds⟩ = '-' :: (dch d :: ds.map dch) := by simp [str01]
        have hnd : (('-' :: (dch d :: ds.map dch)) == ['-']) = false := by simp
        have hall' : (dch d :: ds.map dch).all C04.isDigitC = true := by simpa using hall
        have hp : C04.pyInt ('-' :: (dch d :: ds.map dch))
            = some (-(C04.digitsVal (dch d :: ds.map dch) 0 : Int)) := by
          simp only [C04.pyInt, List.isEmpty_cons, Bool.not_false, Bool.true_and, hall', if_true]
        have hv' : C04.digitsVal (dch d :: ds.map dch) 0 = C01.digitsVal (d :: ds) := by
          simpa [C01.digitsVal] using hv
        simp only [Option.map_some, hs, C04.argValue, hnd, List.isEmpty_cons, hp, hv', C01.argVal]
        simp
        split <;> rfl

example : C04.argValue 1000000 ((some ⟨true, [1, 2]⟩ : Option C01.ArgStr).map str01) = some (-12) := by
  decide

/-! ### the `Option Nat` abstraction (C07, C08, C09.viCount, C17.Buf) vs C04 -/

/-- the digits typed so far, read as a number -/
def absNat (a : C04.Arg) : Option Nat := a.map val

theorem pyInt_digits (s : List Char) (hne : s ≠ []) (hall : s.all C04.isDigitC = true) :
    C04.pyInt s = some (val s : Int) := by
  have hne' : s.isEmpty = false := by cases s <;> simp_all
  unfold C04.pyInt
  split
  · rename_i ds
    simp [C04.isDigitC] at hall
  · simp [hne', hall, val]

/-- `KeyPressEvent.arg` of a non-empty digit string, in terms of its number -/
theorem argValue_digits (cap : Nat) (s : List Char) (hne : s ≠ []) (hall : s.all C04.isDigitC = true) :
    C04.argValue cap (some s) = some (if val s ≥ cap then (1 : Int) else (val s : Int)) := by
  have hnd : (s == ['-']) = false := by
    cases s with
    | nil => simp
    | cons c cs =>
      cases cs with
      | nil =>
        simp [C04.isDigitC] at hall
        have : c ≠ '-' := by
          intro hc; subst hc; exact absurd hall (by decide)
        simp [this]
      | cons _ _ => simp
  have hne' : s.isEmpty = false := by cases s <;> simp_all
  simp only [C04.argValue, hnd, hne', pyInt_digits s hne hall]
  by_cases hc : val s ≥ cap
  · have : ((val s : Int) ≥ (cap : Int)) := by exact_mod_cast hc
    simp [hc, this]
  · have : ¬ ((val s : Int) ≥ (cap : Int)) := by
      intro h'; exact hc (by exact_mod_cast h')
    simp [hc, this]

/-- the region the `Option Nat` models cover: no argument, or a non-empty string of digits -/
def DigitArg (a : C04.Arg) : Prop := ∀ s, a = some s → s ≠ [] ∧ s.all C04.isDigitC = true

/-- key_processor.py::KeyPressEvent.arg — `Ptk.C04.argValue 1000000` = `Ptk.C07.argVal` -/
theorem arg_value_C04_C07 (a : C04.Arg) (h : DigitArg a) :
    C04.argValue 1000000 a = some (C07.argVal (absNat a) : Int) := by
  cases a with
  | none => rfl
  | some s =>
    obtain ⟨hne, hall⟩ := h s rfl
    rw [argValue_digits 1000000 s hne hall]
    simp only [absNat, Option.map_some, C07.argVal]
    by_cases hc : val s ≥ 1000000 <;> simp [hc]

/-- key_processor.py::KeyPressEvent.arg — `Ptk.C04.argValue 1000000` = `Ptk.C08.evArg`
    (`Ptk.C08.normArg`) -/
theorem arg_value_C04_C08 (a : C04.Arg) (h : DigitArg a) :
    C04.argValue 1000000 a = some (C08.evArg (absNat a) : Int) := by
  cases a with
  | none => rfl
  | some s =>
    obtain ⟨hne, hall⟩ := h s rfl
    rw [argValue_digits 1000000 s hne hall]
    simp only [absNat, Option.map_some, C08.evArg, C08.normArg]
    by_cases hc : val s ≥ 1000000 <;> simp [hc]

/-- key_processor.py::KeyPressEvent.arg — `Ptk.C04.argValue 1000000` = `Ptk.C09.viCount` -/
theorem arg_value_C04_C09vi (a : C04.Arg) (h : DigitArg a) :
    C04.argValue 1000000 a = some (C09.viCount (absNat a) : Int) := by
  cases a with
  | none => rfl
  | some s =>
    obtain ⟨hne, hall⟩ := h s rfl
    rw [argValue_digits 1000000 s hne hall]
    simp only [absNat, Option.map_some, C09.viCount]
    by_cases hc : val s ≥ 1000000 <;> simp [hc]

/-- key_processor.py::KeyPressEvent.arg — `Ptk.C04.argValue 1000000` = `Ptk.C17.Buf.Emacs.count` -/
theorem arg_value_C04_C17 (a : C04.Arg) (h : DigitArg a) :
    C04.argValue 1000000 a = some (C17.Buf.Emacs.count (absNat a) : Int) := by
  cases a with
  | none => rfl
  | some s =>
    obtain ⟨hne, hall⟩ := h s rfl
    rw [argValue_digits 1000000 s hne hall]
    simp only [absNat, Option.map_some, C17.Buf.Emacs.count]
    by_cases hc : val s ≥ 1000000 <;> simp [hc]

/-- `append_to_arg_count` of a digit, on the number: `n ↦ n * 10 + d` (no hypothesis on the
    current argument: a digit is appended to whatever is there) -/
theorem absNat_append_digit (a : C04.Arg) (c : Char) (hc : C04.isDigitC c = true) :
    absNat (C04.appendArg a c) = some ((absNat a).getD 0 * 10 + (c.toNat - '0'.toNat)) := by
  have hnd : (c == '-') = false := by
    cases h : (c == '-')
    · rfl
    · have : c = '-' := by simpa using h
      subst this; exact absurd hc (by decide)
  cases a with
  | none => simp [C04.appendArg, hc, hnd, absNat, val_single]
  | some s => simp [C04.appendArg, hc, hnd, absNat, val_snoc]

/-- the digit region is closed under appending a digit -/
theorem digitArg_append (a : C04.Arg) (c : Char) (hc : C04.isDigitC c = true) (h : DigitArg a) :
    DigitArg (C04.appendArg a c) := by
  have hnd : (c == '-') = false := by
    cases h : (c == '-')
    · rfl
    · have : c = '-' := by simpa using h
      subst this; exact absurd hc (by decide)
  intro s hs
  cases a with
  | none =>
    simp [C04.appendArg, hc, hnd] at hs
    subst hs; simp [hc]
  | some s0 =>
    simp [C04.appendArg, hc, hnd] at hs
    subst hs
    have := (h s0 rfl).2
    simp [this, hc]

/-- key_processor.py::KeyPressEvent.append_to_arg_count — `Ptk.C04.appendArg · '2'` / `· '3'` =
    the `arg := some (arg.getD 0 * 10 + 2)` / `+ 3` of `Ptk.C07.vkey` (`.d2`, `.d3`) -/
theorem arg_append_C04_C07 (a : C04.Arg) :
    absNat (C04.appendArg a '2') = some ((absNat a).getD 0 * 10 + 2) ∧
    absNat (C04.appendArg a '3') = some ((absNat a).getD 0 * 10 + 3) :=
  ⟨absNat_append_digit a '2' (by decide), absNat_append_digit a '3' (by decide)⟩

/-- the same, read off `Ptk.C07.vkey` itself: in navigation mode the keys `2` / `3` leave
    `absNat (appendArg arg ·)` in the session's `arg` -/
theorem arg_append_C04_C07_vkey (v : C07.VSt) (a : C04.Arg) (hins : v.ins = false)
    (ha : absNat a = v.arg) :
    (C07.vkey v .d2).arg = absNat (C04.appendArg a '2') ∧
    (C07.vkey v .d3).arg = absNat (C04.appendArg a '3') := by
  obtain ⟨h2, h3⟩ := arg_append_C04_C07 a
  rw [h2, h3, ha]
  unfold C07.vkey
  simp [hins]

/-- key_processor.py::KeyPressEvent.append_to_arg_count — `Ptk.C04.appendArg` =
    `Ptk.C08.hDigit` (the `arg` field it writes) -/
theorem arg_append_C04_C08 (ss0 : C08.Sess) (a : C04.Arg) (d : Fin 10) :
    (C08.hDigit ss0 (absNat a) d).arg = absNat (C04.appendArg a (dch d.val)) := by
  rw [absNat_append_digit a _ (dch_digit d.isLt), dch_val d.isLt]
  cases h : absNat a <;> simp [C08.hDigit]

theorem ofNat_digit_facts : ∀ k : Fin 10,
    C04.isDigitC (Char.ofNat (48 + k.val)) = true ∧
    (Char.ofNat (48 + k.val)).toNat - '0'.toNat = k.val := by decide

/-- key_processor.py::KeyPressEvent.append_to_arg_count — `Ptk.C04.appendArg` =
    `Ptk.C17.Buf.Emacs.appendArg` (a digit key is its code point 48..57) -/
theorem arg_append_C04_C17 (a : C04.Arg) (k : Nat) (hk : C17.Buf.Emacs.isDigit k = true) :
    absNat (C04.appendArg a (Char.ofNat k)) = C17.Buf.Emacs.appendArg (absNat a) k := by
  simp only [C17.Buf.Emacs.isDigit, Bool.and_eq_true, decide_eq_true_eq] at hk
  obtain ⟨j, rfl⟩ : ∃ j, k = 48 + j := ⟨k - 48, by omega⟩
  have hj : j < 10 := by omega
  obtain ⟨f1, f2⟩ := ofNat_digit_facts ⟨j, hj⟩
  simp only at f1 f2
  rw [absNat_append_digit a _ f1, f2]
  cases h : absNat a <;> simp [C17.Buf.Emacs.appendArg]

/-! ### C09 (`Arg = none | dash | num i`) vs C04 -/

/-- what C09 keeps of the argument string -/
def abs09 (a : C04.Arg) : C09.Arg :=
  match a with
  | none => .none
  | some s =>
    if s == ['-'] then .dash
    else if s.isEmpty then .none
    else .num ((C04.pyInt s).getD 0)

/-- key_processor.py::KeyPressEvent.arg — `Ptk.C04.argValue 1000000` = `Ptk.C09.Arg.val`:
    whenever `int(self._arg)` does not raise, the two values are equal (for every string) -/
theorem arg_value_C04_C09 (a : C04.Arg) (v : Int) (h : C04.argValue 1000000 a = some v) :
    v = (abs09 a).val := by
  cases a with
  | none => simp [C04.argValue] at h; simp [abs09, C09.Arg.val, h]
  | some s =>
    simp only [C04.argValue] at h
    by_cases h1 : (s == ['-']) = true
    · simp [h1] at h; simp [abs09, h1, C09.Arg.val, h]
    · simp only [h1] at h
      by_cases h2 : s.isEmpty = true
      · simp [h2] at h; simp [abs09, h1, h2, C09.Arg.val, h]
      · simp only [h2] at h
        cases hp : C04.pyInt s with
        | none => simp [hp] at h
        | some w =>
          simp only [hp] at h
          simp only [abs09, h1, h2, hp, C09.Arg.val]
          by_cases hc : w ≥ 1000000
          · simp [hc] at h ⊢; exact h.symm
          · simp [hc] at h ⊢; exact h.symm

example : (abs09 (some ['-', '1', '2'])).val = -12 := by decide

/-! ### C05.Skel (`Option Bool`: is the argument exactly `-`) vs C04 -/

def abs05 (a : C04.Arg) : Option Bool := a.map (· == ['-'])

/-- key_processor.py::KeyPressEvent.append_to_arg_count — `Ptk.C04.appendArg` (a digit) =
    handler class `.argDigit` of `Ptk.C05.Skel.effect` (`arg := some false`) -/
theorem arg_append_digit_C04_C05 (a : C04.Arg) (c : Char) (hc : C04.isDigitC c = true)
    (keys : List C05.Skel.KeyP) (hd : C05.Skel.HData) (e : C05.Skel.Key) (s : C05.Skel.Sk) :
    abs05 (C04.appendArg a c) = (C05.Skel.effect .argDigit keys (abs05 a) hd e s).arg := by
  have hne : c ≠ '-' := by intro h; subst h; exact absurd hc (by decide)
  have hnd : (c == '-') = false := by simpa using hne
  cases a with
  | none => simp [C04.appendArg, hc, hnd, abs05, C05.Skel.effect]
  | some s0 =>
    cases s0 with
    | nil => simp [C04.appendArg, hc, hnd, abs05, C05.Skel.effect]
    | cons x xs => simp [C04.appendArg, hc, hnd, abs05, C05.Skel.effect]

/-- key_processor.py::KeyPressEvent.append_to_arg_count — `Ptk.C04.appendArg · '-'` under the
    handler's own guard `if event._arg is None` = handler class `.metaDash` of
    `Ptk.C05.Skel.effect` (`s` = the skeleton with `arg` already cleared by `_call_handler`) -/
theorem arg_append_dash_C04_C05 (a : C04.Arg)
    (keys : List C05.Skel.KeyP) (hd : C05.Skel.HData) (e : C05.Skel.Key) (s : C05.Skel.Sk)
    (hs : s.arg = none) :
    abs05 (if a.isNone then C04.appendArg a '-' else none)
      = (C05.Skel.effect .metaDash keys (abs05 a) hd e s).arg := by
  cases a with
  | none => simp [C04.appendArg, abs05, C05.Skel.effect]
  | some s0 => simp [abs05, C05.Skel.effect, hs]

end Ptk.AgreeKey
