/-
  C03 — helper lemmas for "a complete sequence decodes to its key(s)": a sequence all of whose
  proper prefixes are held back is delivered in one piece; every proper prefix of a table key, of
  a CPR response and of a mouse report is held back.
-/
import Ptk.Props.C03Lossless
namespace Ptk.C03
open Ptk.Py

/-- every proper prefix of a table sequence is held back -/
theorem isPrefixOfLonger_of_mem (cfg : Cfg) {k p : Text} {v : List String}
    (hm : (k, v) ∈ cfg.table) (hv : v ≠ []) (hp : p <+: k) (hne : p ≠ k) :
    isPrefixOfLonger cfg p = true := by
  unfold isPrefixOfLonger
  split
  · rfl
  · rw [List.any_eq_true]
    refine ⟨(k, v), hm, ?_⟩
    have : v.isEmpty = false := by simpa [List.isEmpty_iff] using hv
    simp [this, List.isPrefixOf_iff_prefix.2 hp, Ne.symm hne]

/-- the normal-mode loop over the rest `q` of a sequence `k = p ++ q` whose part `p` is pending,
    when every proper prefix of `k` is held back -/
theorem feedNormal_held (cfg : Cfg) (k : Text) (v : List String) (hv : v ≠ [])
    (hg : getMatch cfg k = v)
    (hheld : ∀ p : Text, p <+: k → p ≠ k → p ≠ [] → isPrefixOfLonger cfg p = true) :
    ∀ (q p : Text) (s : St), p ++ q = k → q ≠ [] → s.pre = p → s.inPaste = false →
      feedNormal cfg q s =
        if isPrefixOfLonger cfg k then ({ s with pre := k }, [])
        else (callHandler cfg { s with pre := [] } v k, []) := by
  intro q
  induction q with
  | nil => intro p s _ h; exact absurd rfl h
  | cons c r ih =>
    intro p s hk _ hp hip
    have hvE : v.isEmpty = false := by simpa [List.isEmpty_iff] using hv
    rw [feedNormal]
    simp only [hip, Bool.false_eq_true, if_false]
    rw [sendChar_eq, proc_eq]
    have hne : (s.pre ++ [c]).isEmpty = false := by simp
    simp only [hne, Bool.false_eq_true, if_false, Bool.false_or]
    cases r with
    | nil =>
      have hk' : s.pre ++ [c] = k := by rw [hp]; exact hk
      simp only [hk', hg, hvE, Bool.not_false, if_true, feedNormal]
      by_cases hl : isPrefixOfLonger cfg k = true
      · simp [hl, hip]
      · simp [hl, hip]
    | cons c' r' =>
      have hpre : s.pre ++ [c] <+: k := ⟨c' :: r', by rw [hp, ← hk]; simp⟩
      have hneq : s.pre ++ [c] ≠ k := by
        intro e
        have : k.length = (s.pre ++ [c]).length := by rw [e]
        rw [← hk, hp] at this; simp at this
      have hl := hheld _ hpre hneq (by simp)
      simp only [hl, Bool.not_true, Bool.false_eq_true, if_false]
      rw [ih (p ++ [c]) { s with pre := s.pre ++ [c] } (by rw [← hk]; simp) (by simp) (by simp [hp]) hip]
      simp [hip]

/-- a sequence with a match, all of whose proper prefixes are held back, is delivered by
    `feed` + `flush` as ONE handler call with the whole sequence as data -/
theorem decode_held (cfg : Cfg) (k : Text) (v : List String) (hk : k ≠ []) (hv : v ≠ [])
    (hg : getMatch cfg k = v)
    (hheld : ∀ p : Text, p <+: k → p ≠ k → p ≠ [] → isPrefixOfLonger cfg p = true)
    (s : St) (hs : s.pre = []) (hp : s.inPaste = false) :
    flush cfg (feed cfg s k) = callHandler cfg s v k := by
  have hvE : v.isEmpty = false := by simpa [List.isEmpty_iff] using hv
  have hkE : k.isEmpty = false := by simpa [List.isEmpty_iff] using hk
  have hfn := feedNormal_held cfg k v hv hg hheld k [] s (by simp) hk hs hp
  have hs' : { s with pre := [] } = s := by cases s; simp_all
  by_cases hlong : isPrefixOfLonger cfg k = true
  · simp only [hlong, if_true] at hfn
    rw [feed_normalDone cfg s k hp (by rw [hfn]), hfn, flush_eq, proc_eq]
    simp [hkE, hg, hvE, hs']
  · simp only [hlong, Bool.false_eq_true, if_false] at hfn
    rw [feed_normalDone cfg s k hp (by rw [hfn]), hfn, flush_eq, proc_nil _ _ _ (by simp), hs']

/-- … and if the sequence cannot grow any further it is delivered at once, without a flush -/
theorem decode_now (cfg : Cfg) (k : Text) (v : List String) (hk : k ≠ []) (hv : v ≠ [])
    (hg : getMatch cfg k = v)
    (hheld : ∀ p : Text, p <+: k → p ≠ k → p ≠ [] → isPrefixOfLonger cfg p = true)
    (hlong : isPrefixOfLonger cfg k = false)
    (s : St) (hs : s.pre = []) (hp : s.inPaste = false) :
    feed cfg s k = callHandler cfg s v k := by
  have hfn := feedNormal_held cfg k v hv hg hheld k [] s (by simp) hk hs hp
  have hs' : { s with pre := [] } = s := by cases s; simp_all
  simp only [hlong, Bool.false_eq_true, if_false] at hfn
  rw [feed_normalDone cfg s k hp (by rw [hfn]), hfn, hs']

/-! ### proper prefixes of reports match the prefix recognisers -/

theorem prefix_dropLast {α : Type} {a b : List α} (h : a <+: b) (hne : a ≠ b) : a <+: b.dropLast := by
  obtain ⟨t, rfl⟩ := h
  cases t with
  | nil => simp at hne
  | cons x xs =>
    rw [List.dropLast_append_of_ne_nil (by simp)]
    exact List.prefix_append _ _

theorem all_of_prefix {p : Char → Bool} {a b : Text} (h : a <+: b) (hb : b.all p = true) :
    a.all p = true := by
  rw [List.all_eq_true] at hb ⊢
  exact fun x hx => hb x (h.subset hx)

theorem csi_cons (r : Text) : csi (ESC :: '[' :: r) = some r := by simp [csi]

/-- a non-empty proper prefix of `ESC [ r` is `ESC` or `ESC [ r'` with `r'` a proper prefix of `r` -/
theorem prefix_csi {p r : Text} (hp : p <+: ESC :: '[' :: r) (hne : p ≠ ESC :: '[' :: r)
    (hnil : p ≠ []) : p = [ESC] ∨ ∃ r', p = ESC :: '[' :: r' ∧ r' <+: r ∧ r' ≠ r := by
  cases p with
  | nil => exact absurd rfl hnil
  | cons a p1 =>
    rw [List.cons_prefix_cons] at hp
    obtain ⟨rfl, hp1⟩ := hp
    cases p1 with
    | nil => exact Or.inl rfl
    | cons b p2 =>
      rw [List.cons_prefix_cons] at hp1
      obtain ⟨rfl, hp2⟩ := hp1
      exact Or.inr ⟨p2, rfl, hp2, fun e => hne (by rw [e])⟩

theorem digits1_all {dg : Char → Bool} {x : Text} (h : digits1 dg x = true) :
    x.all (isDS dg) = true := by
  simp only [digits1, Bool.and_eq_true, List.all_eq_true] at h ⊢
  intro c hc
  simp [isDS, h.2 c hc]

theorem cprBody_dropLast {dg : Char → Bool} {r : Text} (h : cprBody dg r = true) :
    r.dropLast.all (isDS dg) = true := by
  unfold cprBody at h
  rw [List.any_eq_true] at h
  obtain ⟨i, hi, h⟩ := h
  simp only [Bool.and_eq_true, beq_iff_eq] at h
  obtain ⟨⟨h1, h2⟩, h3⟩ := h
  rw [List.mem_range] at hi
  have hsplit : r = r.take i ++ ';' :: r.drop (i + 1) := by
    have hget : r[i] = ';' := by
      have := List.getElem?_eq_getElem hi
      rw [this] at h1; exact Option.some.inj h1
    rw [← hget]
    simp
  unfold digitsR at h3
  cases hl : (r.drop (i + 1)).getLast? with
  | none => rw [hl] at h3; cases h3
  | some c =>
    rw [hl] at h3
    simp only [Bool.and_eq_true, beq_iff_eq] at h3
    have hne : r.drop (i + 1) ≠ [] := by
      intro e; rw [e] at hl; cases hl
    rw [hsplit, List.dropLast_append_of_ne_nil (by simp), List.dropLast_cons_of_ne_nil hne]
    rw [List.all_append, List.all_cons]
    simp [digits1_all h2, digits1_all h3.2, isDS]

/-- every non-empty proper prefix of a CPR response is held back (given that ESC alone is) -/
theorem cpr_held (cfg : Cfg) (hesc : isPrefixOfLonger cfg [ESC] = true) {k : Text}
    (hc : isCpr cfg.isDigit k = true) :
    ∀ p : Text, p <+: k → p ≠ k → p ≠ [] → isPrefixOfLonger cfg p = true := by
  intro p hp hne hnil
  unfold isCpr at hc
  split at hc
  · rename_i r hr
    rw [csi_some hr] at hp hne
    rcases prefix_csi hp hne hnil with rfl | ⟨r', rfl, hr1, hr2⟩
    · exact hesc
    · have := all_of_prefix (prefix_dropLast hr1 hr2) (cprBody_dropLast hc)
      simp [isPrefixOfLonger, isCprPrefix, csi_cons, cprPrefixBody, this]
  · cases hc

theorem dsM_dropLast {dg : Char → Bool} {x : Text} (h : dsM dg x = true) :
    x.dropLast.all (isDS dg) = true := by
  unfold dsM at h
  split at h
  · simp only [Bool.and_eq_true] at h; exact h.2
  · cases h

/-- every proper prefix of a mouse report body matches the mouse prefix pattern -/
theorem mouseBody_prefix {dg : Char → Bool} {r r' : Text} (h : mouseBody dg r = true)
    (hp : r' <+: r) (hne : r' ≠ r) : mousePrefixBody dg r' = true := by
  unfold mouseBody at h
  simp only [Bool.or_eq_true] at h
  unfold mousePrefixBody
  rcases h with (h | h) | h
  · simp [all_of_prefix (prefix_dropLast hp hne) (dsM_dropLast h)]
  · cases r with
    | nil => cases h
    | cons c x =>
      simp only [Bool.and_eq_true, beq_iff_eq] at h
      obtain ⟨rfl, hx⟩ := h
      cases r' with
      | nil => simp
      | cons c' x' =>
        rw [List.cons_prefix_cons] at hp
        obtain ⟨rfl, hp'⟩ := hp
        have := all_of_prefix (prefix_dropLast hp' (fun e => hne (by rw [e]))) (dsM_dropLast hx)
        simp [this]
  · unfold mDots at h
    split at h
    · rename_i m a b c
      simp only [Bool.and_eq_true, beq_iff_eq, bne_iff_ne, ne_eq] at h
      obtain ⟨⟨⟨rfl, ha⟩, hb⟩, _⟩ := h
      cases r' with
      | nil => simp
      | cons c' x' =>
        rw [List.cons_prefix_cons] at hp
        obtain ⟨rfl, hp'⟩ := hp
        have hx : x' <+: [a, b] := by
          have := prefix_dropLast hp' (fun e => hne (by rw [e]))
          simpa using this
        have hlen := hx.length_le
        have hall : x'.all (· != '\n') = true := by
          apply all_of_prefix hx
          simp [ha, hb]
        simp only [List.length_cons, List.length_nil] at hlen
        simp [hall, hlen]
    · cases h

/-- every non-empty proper prefix of a mouse report is held back (given that ESC alone is) -/
theorem mouse_held (cfg : Cfg) (hesc : isPrefixOfLonger cfg [ESC] = true) {k : Text}
    (hc : isMouse cfg.isDigit k = true) :
    ∀ p : Text, p <+: k → p ≠ k → p ≠ [] → isPrefixOfLonger cfg p = true := by
  intro p hp hne hnil
  unfold isMouse at hc
  split at hc
  · rename_i r hr
    rw [csi_some hr] at hp hne
    rcases prefix_csi hp hne hnil with rfl | ⟨r', rfl, hr1, hr2⟩
    · exact hesc
    · have := mouseBody_prefix hc hr1 hr2
      simp [isPrefixOfLonger, isMousePrefix, csi_cons, this]
  · cases hc

theorem isCpr_ne_nil {dg : Char → Bool} {k : Text} (h : isCpr dg k = true) : k ≠ [] := by
  intro e; rw [e] at h; cases h
theorem isMouse_ne_nil {dg : Char → Bool} {k : Text} (h : isMouse dg k = true) : k ≠ [] := by
  intro e; rw [e] at h; cases h

end Ptk.C03
