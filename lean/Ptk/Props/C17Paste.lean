/-
  C17 (fourth layer) — theorems about the byte parser's bracketed-paste mode (`Ptk.Model.C17Paste`),
  for EVERY normal-mode generator `N`, every text and every way of cutting it into reads.

    decText_encText / pasteKey_injective   the paste key press carries its text losslessly
    feed_eq_parse          `Vt100Parser.feed` = the character-by-character specification
    feeds_eq_parse / chunk_independent / feed_append
                           every chunking gives the same key presses and the same parser state
    parse_paste_none       in paste mode nothing is a key while the end mark is incomplete
    parse_paste_found      the first complete end mark ends the paste: one key press, rest re-fed
    paste_spec / paste_spec_chunked
                           ESC[200~ body ESC[201~ post  =  [paste body] ++ keys of post
    parseFrom_ready        the paste buffer never holds a complete end mark

  The accept boundary behind this parser is in `Ptk.Props.C17PasteApp`.
-/
import Ptk.Model.C17Paste
namespace Ptk.C17
open Ptk.Py

/-! ### the numbering of texts is injective: a paste key press carries exactly its text -/
theorem encText_ge_length (t : Text) : t.length ≤ encText t := by
  induction t with
  | nil => simp [encText]
  | cons c t ih =>
    simp only [encText, List.length_cons, encBase]
    omega

theorem char_lt (c : Char) : c.toNat + 1 < encBase := by
  have : c.toNat < 0x110000 := by
    rcases c.valid with h | h
    · show c.val.toNat < _; omega
    · show c.val.toNat < _; omega
  simp only [encBase]; omega

theorem decTextFuel_encText (t : Text) : ∀ f, t.length ≤ f → decTextFuel f (encText t) = t := by
  induction t with
  | nil => intro f _; cases f <;> simp [decTextFuel, encText]
  | cons c t ih =>
    intro f hf
    obtain ⟨f', rfl⟩ : ∃ f', f = f' + 1 := ⟨f - 1, by simp at hf; omega⟩
    have hc := char_lt c
    have hpos : (c.toNat + 1) + encBase * encText t ≠ 0 := by omega
    have hmod : ((c.toNat + 1) + encBase * encText t) % encBase = c.toNat + 1 := by
      rw [Nat.add_mul_mod_self_left]; exact Nat.mod_eq_of_lt hc
    have hdiv : ((c.toNat + 1) + encBase * encText t) / encBase = encText t := by
      rw [Nat.add_mul_div_left _ _ (by simp [encBase])]
      rw [Nat.div_eq_of_lt hc]; simp
    simp only [decTextFuel, encText, hpos, if_false, hmod, hdiv]
    rw [ih f' (by simp at hf; omega)]
    simp

theorem decText_encText (t : Text) : decText (encText t) = t :=
  decTextFuel_encText t _ (encText_ge_length t)

theorem encText_injective {a b : Text} (h : encText a = encText b) : a = b := by
  rw [← decText_encText a, ← decText_encText b, h]

theorem pasteKey_injective {a b : Text} (h : pasteKey a = pasteKey b) : a = b := by
  simp [pasteKey] at h; exact encText_injective h
end Ptk.C17

namespace Ptk.C17.Paste
open Ptk.Py Ptk.C17

/-! ### `sub in s` / `s.index(sub)` -/
theorem isPrefixOf'_iff (sub l : Text) : isPrefixOf' sub l = true ↔ sub <+: l := by
  induction sub generalizing l with
  | nil => simp [isPrefixOf']
  | cons a as ih =>
    cases l with
    | nil => simp [isPrefixOf']
    | cons b bs =>
      simp only [isPrefixOf', Bool.and_eq_true, beq_iff_eq, ih]
      constructor
      · rintro ⟨rfl, t, rfl⟩; exact ⟨t, rfl⟩
      · rintro ⟨t, h⟩; simp at h; exact ⟨h.1, t, h.2⟩

theorem findSub_none_iff (sub l : Text) : findSub? sub l = none ↔ ¬ sub <:+: l := by
  induction l with
  | nil =>
    cases sub with
    | nil => simp [findSub?]
    | cons a as => simp [findSub?]
  | cons x xs ih =>
    simp only [findSub?, List.infix_cons_iff]
    by_cases h : isPrefixOf' sub (x :: xs) = true
    · simp [h, (isPrefixOf'_iff _ _).1 h]
    · have h' : ¬ sub <+: x :: xs := fun hp => h ((isPrefixOf'_iff _ _).2 hp)
      simp [h, h', ih]

theorem findSub_some_bound {sub l : Text} {j : Nat} (h : findSub? sub l = some j) :
    j + sub.length ≤ l.length := by
  induction l generalizing j with
  | nil =>
    cases sub with
    | nil => simp [findSub?] at h; subst h; simp
    | cons a as => simp [findSub?] at h
  | cons x xs ih =>
    simp only [findSub?] at h
    by_cases hp : isPrefixOf' sub (x :: xs) = true
    · simp [hp] at h; subst h
      have := ((isPrefixOf'_iff _ _).1 hp).length_le; simpa using this
    · simp [hp] at h
      obtain ⟨j', hj, rfl⟩ := h
      have := ih hj; simp; omega

/-- the first occurrence: `sub` does not occur in `p`, and `p ++ [c]` ends with it -/
theorem findSub_at_suffix {sub : Text} (hne : sub ≠ []) (p : Text) (c : Char) (d : Text)
    (hno : ¬ sub <:+: p) (hs : sub <:+ p ++ [c]) :
    findSub? sub (p ++ [c] ++ d) = some (p.length + 1 - sub.length) := by
  induction p with
  | nil =>
    have : sub = [c] := by
      rcases List.suffix_cons_iff.1 hs with h | h
      · exact h
      · simp at h; exact absurd h hne
    subst this
    simp [findSub?, isPrefixOf']
  | cons x p ih =>
    have hno' := hno
    rw [List.infix_cons_iff] at hno'
    have h1 : ¬ sub <+: x :: p := fun h => hno' (Or.inl h)
    have h2 : ¬ sub <:+: p := fun h => hno' (Or.inr h)
    rcases List.suffix_cons_iff.1 (by simpa using hs) with h | h
    · -- the whole of it
      have hp : isPrefixOf' sub (x :: (p ++ [c] ++ d)) = true :=
        (isPrefixOf'_iff _ _).2 ⟨d, by rw [h]; simp⟩
      simp only [List.cons_append, findSub?, hp, if_true]
      rw [h]; simp
    · have hlen : sub.length ≤ p.length + 1 := by simpa using h.length_le
      have hp : ¬ isPrefixOf' sub (x :: (p ++ [c] ++ d)) = true := by
        intro hp
        have hp' := (isPrefixOf'_iff _ _).1 hp
        apply h1
        have e : (x :: p) <+: x :: (p ++ [c] ++ d) := ⟨[c] ++ d, by simp⟩
        exact List.prefix_of_prefix_length_le hp' e (by simpa using hlen)
      have := ih h2 h
      simp only [List.cons_append, findSub?, hp]
      simp only [List.append_assoc] at this ⊢
      rw [this]; simp; omega

theorem endMark_ne : endMark ≠ [] := by decide
theorem endMark_len : endMark.length = 6 := rfl

variable {ν : Type}

/-- the paste buffer never contains a complete end mark (it would have ended the paste) -/
def Ready (s : PS ν) : Prop := s.inPaste = true → ¬ endMark <:+: s.pbuf

theorem parseFrom_append (N : Norm ν) (s : PS ν × List Key) (a b : Text) :
    parseFrom N s (a ++ b) = parseFrom N (parseFrom N s a) b := by
  simp [parseFrom, List.foldl_append]

theorem parseFrom_cons (N : Norm ν) (s : PS ν × List Key) (c : Char) (d : Text) :
    parseFrom N s (c :: d) = parseFrom N (stepChar N s c) d := rfl

theorem stepChar_out (N : Norm ν) (s : PS ν) (out : List Key) (c : Char) :
    stepChar N (s, out) c = ((stepChar N (s, []) c).1, out ++ (stepChar N (s, []) c).2) := by
  unfold stepChar
  by_cases h : s.inPaste = true
  · simp only [h, if_true]
    split <;> simp
  · simp [h]

theorem parseFrom_out (N : Norm ν) (s : PS ν) (out : List Key) (d : Text) :
    parseFrom N (s, out) d = ((parseFrom N (s, []) d).1, out ++ (parseFrom N (s, []) d).2) := by
  induction d generalizing s out with
  | nil => simp [parseFrom]
  | cons c d ih =>
    rw [parseFrom_cons, parseFrom_cons, stepChar_out, ih, ih (stepChar N (s, []) c).1 (stepChar N (s, []) c).2]
    simp [List.append_assoc]

/-- in paste mode, as long as the end mark is not complete in the accumulated buffer, nothing
    comes out and everything is kept -/
theorem parse_paste_none (N : Norm ν) (g : ν) (p d : Text) (out : List Key)
    (h : findSub? endMark (p ++ d) = none) :
    parseFrom N (⟨g, true, p⟩, out) d = (⟨g, true, p ++ d⟩, out) := by
  induction d generalizing p with
  | nil => simp [parseFrom]
  | cons c d ih =>
    have hno := (findSub_none_iff _ _).1 h
    have hs : ¬ endMark <:+ p ++ [c] := by
      intro hs; apply hno
      have : p ++ c :: d = (p ++ [c]) ++ d := by simp
      rw [this]; exact List.infix_append_of_infix_left hs.isInfix
    rw [parseFrom_cons]
    have e : stepChar N (⟨g, true, p⟩, out) c = (⟨g, true, p ++ [c]⟩, out) := by
      simp [stepChar, hs]
    rw [e, ih (p ++ [c]) (by simpa using h)]
    simp

/-- … and when it becomes complete at index `j` of the accumulated buffer, the text before it is
    one paste key press and the text after it is parsed in normal mode -/
theorem parse_paste_found (N : Norm ν) (g : ν) (p d : Text) (out : List Key) (j : Nat)
    (hr : ¬ endMark <:+: p) (h : findSub? endMark (p ++ d) = some j) :
    parseFrom N (⟨g, true, p⟩, out) d =
      parseFrom N (⟨g, false, []⟩, out ++ [pasteKey ((p ++ d).take j)]) ((p ++ d).drop (j + endMark.length)) := by
  induction d generalizing p with
  | nil =>
    exfalso
    have := (findSub_none_iff endMark p).2 hr
    simp at h; rw [this] at h; cases h
  | cons c d ih =>
    rw [parseFrom_cons]
    have e0 : p ++ c :: d = (p ++ [c]) ++ d := by simp
    by_cases hs : endMark <:+ p ++ [c]
    · have hf := findSub_at_suffix endMark_ne p c d hr hs
      rw [← e0, h] at hf
      have hj : j = p.length + 1 - 6 := by simpa [endMark_len] using hf
      have hl : 6 ≤ p.length + 1 := by simpa [endMark_len] using hs.length_le
      have e : stepChar N (⟨g, true, p⟩, out) c =
          (⟨g, false, []⟩, out ++ [pasteKey ((p ++ [c]).take ((p ++ [c]).length - endMark.length))]) := by
        simp [stepChar, hs]
      rw [e, e0]
      have t1 : ((p ++ [c]) ++ d).take j = (p ++ [c]).take ((p ++ [c]).length - endMark.length) := by
        rw [List.take_append_of_le_length (by simp; omega)]
        simp [endMark_len, hj]
      have t2 : ((p ++ [c]) ++ d).drop (j + endMark.length) = d := by
        have : j + endMark.length = (p ++ [c]).length := by simp [endMark_len]; omega
        rw [this]; simp
      rw [t1, t2]
    · have hr' : ¬ endMark <:+: p ++ [c] := by
        rw [List.infix_concat_iff]; rintro (h1 | h1)
        · exact hs h1
        · exact hr h1
      have e : stepChar N (⟨g, true, p⟩, out) c = (⟨g, true, p ++ [c]⟩, out) := by
        simp [stepChar, hs]
      rw [e, ih (p ++ [c]) hr' (by rw [← e0]; exact h), e0]

/-- the normal-mode loop of `feed` = the specification on the consumed part; it stops exactly when
    the generator has switched to paste mode (with a fresh paste buffer) -/
theorem feedNormal_spec (N : Norm ν) (d : Text) (s : PS ν) (out : List Key) (hn : s.inPaste = false) :
    parseFrom N (s, out) d =
      parseFrom N ((feedNormal N d s out).1, (feedNormal N d s out).2.1) (feedNormal N d s out).2.2 ∧
    ((feedNormal N d s out).2.2 = [] ∨
      ((feedNormal N d s out).1.inPaste = true ∧ (feedNormal N d s out).1.pbuf = [] ∧
       (feedNormal N d s out).2.2.length < d.length)) := by
  induction d generalizing s out with
  | nil => simp [feedNormal, parseFrom]
  | cons c d ih =>
    simp only [feedNormal, hn, Bool.false_eq_true, if_false]
    have e : stepChar N (s, out) c =
        ({ nst := (N.send s.nst c).1, inPaste := (N.send s.nst c).2.2, pbuf := [] },
          out ++ (N.send s.nst c).2.1) := by
      simp [stepChar, hn]
    rw [parseFrom_cons, e]
    by_cases hp : (N.send s.nst c).2.2 = true
    · -- paste mode entered: the loop stops at the next character (or at the end of the data)
      cases d with
      | nil => simp [feedNormal, parseFrom]
      | cons c' d' =>
        simp only [feedNormal, hp, if_true]
        simp
    · have hp' : (N.send s.nst c).2.2 = false := by simpa using hp
      have := ih { nst := (N.send s.nst c).1, inPaste := (N.send s.nst c).2.2, pbuf := [] }
        (out ++ (N.send s.nst c).2.1) hp'
      refine ⟨this.1, ?_⟩
      rcases this.2 with h | ⟨h1, h2, h3⟩
      · exact Or.inl h
      · exact Or.inr ⟨h1, h2, by simp; omega⟩

/-- **`Vt100Parser.feed` computes the character-by-character specification** (for every normal-mode
    generator, every chunk, every parser state whose paste buffer holds no complete end mark) -/
theorem feedFuel_eq_parse (N : Norm ν) (n : Nat) : ∀ (s : PS ν) (d : Text) (out : List Key),
    Ready s → (if s.inPaste then s.pbuf.length else 0) + d.length + 1 ≤ n →
    feedFuel N n s d out = parseFrom N (s, out) d := by
  induction n with
  | zero => intro s d out _ h; omega
  | succ n ih =>
    intro s d out hr hm
    obtain ⟨g, ip, p⟩ := s
    cases ip with
    | true =>
      simp only [feedFuel, if_true]
      simp only [if_true] at hm
      have hr' : ¬ endMark <:+: p := hr rfl
      cases hf : findSub? endMark (p ++ d) with
      | none => simp only []; rw [parse_paste_none N g p d out hf]
      | some j =>
        simp only []
        rw [parse_paste_found N g p d out j hr' hf]
        have hb := findSub_some_bound hf
        apply ih
        · intro h; cases h
        · simp [endMark_len] at hb ⊢; omega
    | false =>
      simp only [feedFuel, Bool.false_eq_true, if_false]
      have sp := feedNormal_spec N d ⟨g, false, p⟩ out rfl
      rcases sp.2 with h | ⟨h1, h2, h3⟩
      · rw [sp.1, h]; simp [parseFrom]
      · by_cases he : (feedNormal N d ⟨g, false, p⟩ out).2.2.isEmpty = true
        · have : (feedNormal N d ⟨g, false, p⟩ out).2.2 = [] := by simpa using he
          rw [sp.1, this]; simp [parseFrom]
        · simp only [he]
          rw [sp.1]
          apply ih
          · intro _; rw [h2]; simp [endMark]
          · simp [h1, h2] at hm ⊢; omega

theorem feed_eq_parse (N : Norm ν) (s : PS ν) (d : Text) (hr : Ready s) :
    feed N s d = parse N s d := by
  unfold feed parse
  apply feedFuel_eq_parse N _ s d [] hr
  split <;> omega

/-! ### readiness is an invariant -/
theorem stepChar_ready (N : Norm ν) (s : PS ν × List Key) (c : Char) (h : Ready s.1) :
    Ready (stepChar N s c).1 := by
  unfold stepChar
  by_cases hp : s.1.inPaste = true
  · simp only [hp, if_true]
    by_cases hs : endMark <:+ s.1.pbuf ++ [c]
    · simp only [List.isSuffixOf_iff_suffix, hs, if_true]; intro h'; cases h'
    · simp only [List.isSuffixOf_iff_suffix, hs, if_false]
      intro _; simp only []
      rw [List.infix_concat_iff]; rintro (h1 | h1)
      · exact hs h1
      · exact h hp h1
  · simp only [hp]
    intro _; simp [endMark]

theorem parseFrom_ready (N : Norm ν) (s : PS ν × List Key) (d : Text) (h : Ready s.1) :
    Ready (parseFrom N s d).1 := by
  induction d generalizing s with
  | nil => exact h
  | cons c d ih => rw [parseFrom_cons]; exact ih _ (stepChar_ready N s c h)

theorem ready_init (g : ν) : Ready (⟨g, false, []⟩ : PS ν) := by intro h; cases h

/-! ### chunking does not matter -/

/-- feeding the chunks one after the other, the key presses of all reads concatenated -/
def feeds (N : Norm ν) : PS ν → List Text → PS ν × List Key
  | s, [] => (s, [])
  | s, c :: cs => ((feeds N (feed N s c).1 cs).1, (feed N s c).2 ++ (feeds N (feed N s c).1 cs).2)

/-- **Every chunking of the character stream gives the same key presses and the same parser
    state** as feeding it at once — in particular a chunk boundary anywhere inside the start mark,
    the pasted text or the end mark of a bracketed paste changes nothing. -/
theorem feeds_eq_parse (N : Norm ν) (s : PS ν) (hr : Ready s) (cs : List Text) :
    feeds N s cs = parse N s cs.flatten := by
  induction cs generalizing s with
  | nil => simp [feeds, parse, parseFrom]
  | cons c cs ih =>
    have e := feed_eq_parse N s c hr
    have hr' : Ready (feed N s c).1 := by rw [e]; exact parseFrom_ready N _ c hr
    simp only [feeds, List.flatten_cons]
    rw [ih _ hr', e]
    unfold parse
    rw [parseFrom_append, parseFrom_out N (parseFrom N (s, []) c).1 (parseFrom N (s, []) c).2]

theorem chunk_independent (N : Norm ν) (s : PS ν) (hr : Ready s) (cs₁ cs₂ : List Text)
    (h : cs₁.flatten = cs₂.flatten) : feeds N s cs₁ = feeds N s cs₂ := by
  rw [feeds_eq_parse N s hr, feeds_eq_parse N s hr, h]

theorem feed_append (N : Norm ν) (s : PS ν) (hr : Ready s) (a b : Text) :
    feed N s (a ++ b) = ((feed N (feed N s a).1 b).1, (feed N s a).2 ++ (feed N (feed N s a).1 b).2) := by
  have := feeds_eq_parse N s hr [a, b]
  simp only [feeds, List.flatten_cons, List.flatten_nil, List.append_nil] at this
  rw [feed_eq_parse N s (a ++ b) hr, ← this]

/-- what has come out so far is a prefix of what comes out in the end -/
theorem parse_append (N : Norm ν) (s : PS ν) (a b : Text) :
    parse N s (a ++ b) = ((parse N (parse N s a).1 b).1, (parse N s a).2 ++ (parse N (parse N s a).1 b).2) := by
  unfold parse
  rw [parseFrom_append, parseFrom_out N (parseFrom N (s, []) a).1 (parseFrom N (s, []) a).2]

/-! ### what a bracketed paste is -/

/-- the pasted text does not complete the end mark earlier than its real end mark does -/
def CleanBody (body : Text) : Prop := ¬ endMark <:+: body ++ endMark.dropLast

theorem cleanBody_of_no_esc (body : Text) (h : ESC ∉ body) : CleanBody body := by
  rintro ⟨a, b, hab⟩
  have hlen := congrArg List.length hab
  simp [endMark] at hlen
  have h1 : (a ++ endMark ++ b)[a.length]? = some ESC := by
    simp [endMark]
  rw [hab, List.getElem?_append_left (by omega)] at h1
  exact h (List.mem_of_getElem? h1)


theorem findSub_first {sub : Text} (hne : sub ≠ []) (A R : Text) (h : ¬ sub <:+: A ++ sub.dropLast) :
    findSub? sub (A ++ sub ++ R) = some A.length := by
  obtain ⟨i, l, rfl⟩ : ∃ i l, sub = i ++ [l] := by
    rcases List.eq_nil_or_concat sub with h | ⟨i, l, h⟩
    · exact absurd h hne
    · exact ⟨i, l, by simpa using h⟩
  simp only [List.dropLast_concat] at h
  have e : A ++ (i ++ [l]) ++ R = (A ++ i) ++ [l] ++ R := by simp
  rw [e, findSub_at_suffix hne (A ++ i) l R h ⟨A, by simp⟩]
  simp

/-- the generator, in state `g` with nothing pending, reads the start mark, hands nothing to the
    callback and ends in paste mode, back in state `g` -/
def StartOk (N : Norm ν) (g : ν) : Prop :=
  parse N ⟨g, false, []⟩ startMark = (⟨g, true, []⟩, [])

/-- **A bracketed paste is ONE key press whose data is exactly the text between the marks, and what
    follows the end mark is parsed as if the paste had not been there** (the characters after the
    end mark — Enter! — are ordinary input again). -/
theorem paste_spec (N : Norm ν) (g : ν) (hs : StartOk N g) (body post : Text) (hb : CleanBody body) :
    parse N ⟨g, false, []⟩ (startMark ++ body ++ endMark ++ post) =
      ((parse N ⟨g, false, []⟩ post).1, pasteKey body :: (parse N ⟨g, false, []⟩ post).2) := by
  have e : startMark ++ body ++ endMark ++ post = startMark ++ (body ++ endMark ++ post) := by simp
  rw [e, parse_append, hs]
  simp only [List.nil_append]
  have hf : findSub? endMark ([] ++ (body ++ endMark ++ post)) = some body.length := by
    simpa using findSub_first endMark_ne body post hb
  have := parse_paste_found N g [] (body ++ endMark ++ post) [] body.length (by simp [endMark]) hf
  unfold parse
  rw [this, parseFrom_out]
  have e6 : List.drop 6 (endMark ++ post) = post := rfl
  simp [endMark_len, e6]

/-- … under every chunking of the characters -/
theorem paste_spec_chunked (N : Norm ν) (g : ν) (hs : StartOk N g) (body post : Text)
    (hb : CleanBody body) (cs : List Text) (hc : cs.flatten = startMark ++ body ++ endMark ++ post) :
    feeds N ⟨g, false, []⟩ cs =
      ((parse N ⟨g, false, []⟩ post).1, pasteKey body :: (parse N ⟨g, false, []⟩ post).2) := by
  rw [feeds_eq_parse N _ (ready_init g), hc, paste_spec N g hs body post hb]
end Ptk.C17.Paste
