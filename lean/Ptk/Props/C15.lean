/-
  C15 — property theorems: asynchronous completions, validation and suggestions are never
  applied stale.

  The model (`Ptk.Model.C15`) is a labelled transition system: user actions of the `Buffer`
  API interleaved, in any order and without bound, with the segments of the completer /
  validator / auto-suggest coroutines between their awaits.  `Reachable` = every state any
  such interleaving can produce from a fresh buffer.  The invariant and its preservation are
  in `Ptk.Props.C15Inv`; here the property is read off it.

  All theorems about reachable states assume `CfgOK cfg`: `cfg.fixD1 = true`, i.e. the code as
  it is in /repo since commit 279c220 (`unfixed_dangles` shows the statement is false without
  it), and a positive `buffer_size`.  `cfg.threaded` chooses between an asynchronous completer
  and a `ThreadedCompleter` (producer thread + bounded queue, `Ptk.Model.C15Thread`); the
  theorems hold for both.
  User code is arbitrary: `env.comp`, `env.valid`, `env.sugg` are universally quantified.
-/
import Ptk.Props.C15Sched
import Ptk.Props.C15Common
namespace Ptk.C15
open Ptk.Py

variable {cfg : Config} {env : Env}

/-- states reachable from a fresh buffer by any finite interleaving of user actions and
    coroutine segments -/
def Reachable (cfg : Config) (env : Env) (s : St) : Prop :=
  ∃ (d : Doc) (as : List Act), d.WF ∧ s = run cfg env (init d) as

/-- **All interleavings, unbounded**: every reachable state satisfies the invariant. -/
theorem reachable_inv (hfix : CfgOK cfg) {s : St} (h : Reachable cfg env s) : Inv cfg env s := by
  obtain ⟨d, as, hd, rfl⟩ := h
  exact run_inv (init_inv d hd) hfix as

theorem reachable_step {s : St} (h : Reachable cfg env s) (a : Act) :
    Reachable cfg env (step cfg env s a).1 := by
  obtain ⟨d, as, hd, rfl⟩ := h
  refine ⟨d, as ++ [a], hd, ?_⟩
  simp [run, List.foldl_append]

/-! ### the completion menu describes the text -/

/-- Python's `before[:start]` for `start < 0` drops the last `-start` characters. -/
theorem sliceTo_neg (l : Text) (i : Int) (hi : i < 0) : sliceTo l i = l.take (l.length - (-i).toNat) := by
  unfold sliceTo slice normIdx
  simp [hi]
  congr 1; omega

/-- what "the completion applied to the original document" is: the text before the cursor
    minus its last `-start_position` characters, then the completion, then the text after. -/
theorem applyCompl_spec (d : Doc) (c : Completion) (hc : c.start ≤ 0) :
    applyCompl d c =
      ⟨d.before.take (d.before.length - (-c.start).toNat) ++ c.text ++ d.after,
       (d.before.take (d.before.length - (-c.start).toNat)).length + c.text.length⟩ := by
  unfold applyCompl
  by_cases h0 : c.start = 0
  · simp [h0]
  · have : c.start < 0 := by omega
    simp [h0, sliceTo_neg _ _ this]

/-- **menu_text_consistent**: whenever a completion menu exists, the buffer's text and cursor
    are exactly what the menu's state computes (`new_text_and_position`). -/
theorem menu_text_consistent (hfix : CfgOK cfg) {s : St} (h : Reachable cfg env s)
    {st : CState} (hcs : s.cs = some st) : st.newDoc = some ⟨s.text, s.cur⟩ :=
  ((reachable_inv hfix h).buf.cs_ok st hcs).text_eq

/-- … the original text and cursor when nothing is selected, -/
theorem menu_original (hfix : CfgOK cfg) {s : St} (h : Reachable cfg env s)
    {st : CState} (hcs : s.cs = some st) (hi : st.index = none) :
    s.text = st.orig.text ∧ s.cur = st.orig.cur := by
  have := menu_text_consistent hfix h hcs
  unfold CState.newDoc at this
  rw [hi] at this
  simp at this
  rw [this]; exact ⟨rfl, rfl⟩

/-- … and the original with the selected completion applied otherwise; in particular the
    selected completion exists (the index never dangles). -/
theorem menu_selected (hfix : CfgOK cfg) {s : St} (h : Reachable cfg env s)
    {st : CState} (hcs : s.cs = some st) {i : Nat} (hi : st.index = some i) :
    ∃ c, st.comps[i]? = some c ∧ (⟨s.text, s.cur⟩ : Doc) = applyCompl st.orig c := by
  have := menu_text_consistent hfix h hcs
  unfold CState.newDoc at this
  rw [hi] at this
  simp only at this
  split at this
  · rename_i c hc
    exact ⟨c, hc, by simpa using this.symm⟩
  · cases this

theorem index_valid (hfix : CfgOK cfg) {s : St} (h : Reachable cfg env s)
    {st : CState} (hcs : s.cs = some st) {i : Nat} (hi : st.index = some i) : i < st.comps.length :=
  index_lt_of_newDoc (menu_text_consistent hfix h hcs) hi

/-- no user-level call raises (IndexError / AssertionError) in a reachable state -/
theorem no_exception (hfix : CfgOK cfg) {s : St} (h : Reachable cfg env s) (a : Act) :
    (step cfg env s a).2 = false := by
  have hb := (reachable_inv hfix h).buf
  cases a with
  | next c dw => exact (completeNext_nav hb c dw).noexc
  | prev c dw => exact (completePrevious_nav hb c dw).noexc
  | cancel => exact (cancel_nav hb).noexc
  | tab => exact (tab_nav hb).noexc
  | apply c => exact (apply_nav hb c).noexc
  | histComplete => exact (histComplete_nav (reachable_inv hfix h)).2
  | _ => rfl

/-! ### completions, verdict and suggestion are never stale -/

/-- **completions_for_orig**: the completions of a published menu are a prefix of what the
    completer produces for the menu's original document (the stream may still be loading), or
    the `new_completion_from_position` image of such a list after its common part was inserted,
    or (menu opened by `start_history_lines_completion`) the history-lines completions of the
    original document. -/
theorem completions_for_orig (hfix : CfgOK cfg) {s : St} (h : Reachable cfg env s)
    {st : CState} (hcs : s.cs = some st) : Provenance env st :=
  ((reachable_inv hfix h).buf.cs_ok st hcs).prov

/-- (used by the non-vacuity example below) -/
def docAbC : Doc := ⟨['a', 'b'], 2⟩
def envDemoC : Env :=
  ⟨mkComp [⟨1, true, ['x', 'y']⟩, ⟨1, true, ['x', 'z']⟩], fun _ => none, fun _ => none, fun c => c == ' '⟩

/-- **Inserting the common part preserves the meaning of every completion**: after
    `insert_text(common_part)` the shortened completion
    (`new_completion_from_position(len(common_part))`) applied to the new document gives exactly
    the text and cursor the original completion gave on the original document. -/
theorem common_part_preserves_meaning {d : Doc} (hd : d.WF) {L : List Completion}
    (hne : commonSuffix d L ≠ []) {c : Completion} (hc : c ∈ L) (hs : c.start ≤ 0) :
    applyCompl ⟨d.before ++ commonSuffix d L ++ d.after, d.cur + (commonSuffix d L).length⟩
        (fromPos (commonSuffix d L).length c) =
      applyCompl d c := by
  obtain ⟨hsuf, hpre⟩ := commonSuffix_spec hne hc
  generalize commonSuffix d L = cp at *
  obtain ⟨k, hk⟩ : ∃ k : Nat, c.start = -(k : Int) := ⟨(-c.start).toNat, by omega⟩
  have hk' : (-c.start).toNat = k := by omega
  rw [hk'] at hsuf hpre
  obtain ⟨rest, hrest⟩ := hpre
  obtain ⟨pre, hpreq⟩ := hsuf
  -- the completion text is longer than `k`: it adds the non-empty common part
  have hlen : k ≤ c.text.length := by
    apply Nat.le_of_not_lt
    intro hlt
    have : c.text.drop k = [] := List.drop_eq_nil_of_le (by omega)
    rw [this] at hrest
    have : cp = [] := by
      cases cp with
      | nil => rfl
      | cons _ _ => simp at hrest
    exact hne this
  have htk : (c.text.take k).length = k := by simp; omega
  have hbl : d.before.length = d.cur := by
    unfold Doc.before; rw [List.length_take]; exact Nat.min_eq_left hd
  have hpl : pre.length = d.before.length - k := by
    have := congrArg List.length hpreq; simp at this; omega
  have hdec : c.text = c.text.take k ++ (cp ++ rest) := by
    rw [hrest]; exact (List.take_append_drop k c.text).symm
  have hnb : (⟨d.before ++ cp ++ d.after, d.cur + cp.length⟩ : Doc).before = d.before ++ cp := by
    show (d.before ++ cp ++ d.after).take (d.cur + cp.length) = d.before ++ cp
    rw [← hbl, ← List.length_append, List.take_left]
  have hna : (⟨d.before ++ cp ++ d.after, d.cur + cp.length⟩ : Doc).after = d.after := by
    show (d.before ++ cp ++ d.after).drop (d.cur + cp.length) = d.after
    rw [← hbl, ← List.length_append, List.drop_left]
  have hfp : fromPos cp.length c = ⟨rest, 0⟩ := by
    unfold fromPos
    have e1 : ((cp.length : Int) - c.start).toNat = k + cp.length := by omega
    rw [e1, ← List.drop_drop, ← hrest, List.drop_left']
    rfl
  have htake : d.before.take (d.before.length - k) = pre := by
    rw [← hpl, ← hpreq, List.take_left']; rfl
  rw [hfp, applyCompl_spec _ _ (by simp), applyCompl_spec _ _ hs, hnb, hna, hk', htake]
  simp only [Int.neg_zero, Int.toNat_zero, Nat.sub_zero, List.take_length]
  have e2 : pre ++ c.text = d.before ++ cp ++ rest := by
    rw [hdec, ← hpreq]; simp
  have e3 : pre.length + c.text.length = (d.before ++ cp).length + rest.length := by
    have := congrArg List.length e2; simp at this ⊢; omega
  rw [e2, e3]


/-- the hypotheses hold for the two completions "bxy", "bxz" (start -1) on "ab|": the common
    part is "x" -/
example : commonSuffix docAbC (envDemoC.comp docAbC) = ['x'] ∧ docAbC.WF ∧
    (⟨['b', 'x', 'y'], -1⟩ : Completion) ∈ envDemoC.comp docAbC := by
  unfold Doc.WF; decide

/-- a loading completer whose state object is still the buffer's (`proceed()`): the menu is
    for the document the completer was called with and holds exactly the first `i` results -/
theorem loading_link (hfix : CfgOK cfg) {s : St} (h : Reachable cfg env s)
    {m : Mode} {doc : Doc} {i tok : Nat} (ht : Task.cLoad m doc i tok ∈ s.tasks)
    {st : CState} (hcs : s.cs = some st) (htok : st.token = tok) :
    st.orig = doc ∧ st.comps = (env.comp doc).take i :=
  ((reachable_inv hfix h).task _ ht).2 st hcs htok

/-- **verdict_fresh**: a displayed verdict was computed by the validator from a document with
    exactly the current text (the cursor may have moved since: `_cursor_position_changed`
    keeps the verdict). -/
theorem verdict_fresh (hfix : CfgOK cfg) {s : St} (h : Reachable cfg env s) :
    (s.vs = .valid → s.verr = none ∧
        (cfg.hasV = false ∨ ∃ c, c ≤ s.text.length ∧ env.valid ⟨s.text, c⟩ = none)) ∧
    (s.vs = .invalid → ∃ c msg, c ≤ s.text.length ∧ env.valid ⟨s.text, c⟩ = some msg ∧ s.verr = some msg) :=
  ⟨(reachable_inv hfix h).buf.valid_fresh, (reachable_inv hfix h).buf.invalid_fresh⟩

/-- **suggestion_fresh** -/
theorem suggestion_fresh (hfix : CfgOK cfg) {s : St} (h : Reachable cfg env s)
    {t : Text} (ht : s.sugg = some t) : ∃ c, c ≤ s.text.length ∧ env.sugg ⟨s.text, c⟩ = some t :=
  (reachable_inv hfix h).buf.sugg_fresh t ht

/-! ### at most one coroutine of each kind -/

/-- **one_at_a_time**: per kind, the number of coroutines past the `running` check is the
    flag: at most one, and the flag is never stuck. -/
theorem one_at_a_time (hfix : CfgOK cfg) {s : St} (h : Reachable cfg env s) :
    cntC s.tasks ≤ 1 ∧ cntV s.tasks ≤ 1 ∧ cntS s.tasks ≤ 1 ∧
    (s.runC = true ↔ cntC s.tasks = 1) ∧ (s.runV = true ↔ cntV s.tasks = 1) ∧
    (s.runS = true ↔ cntS s.tasks = 1) := by
  have f := (reachable_inv hfix h).flags
  have hc := f.c; have hv := f.v; have hs := f.s
  cases hrc : s.runC <;> cases hrv : s.runV <;> cases hrs : s.runS <;>
    simp [hrc, hrv, hrs, b2n] at hc hv hs ⊢ <;> omega


/-! ### cycling through the menu, cancelling -/

/-- index selected by `complete_next()` -/
def nxtIdx (n : Nat) : Option Nat → Option Nat
  | none => some 0
  | some i => if i + 1 = n then none else some (i + 1)

/-- index selected by `complete_previous()` -/
def prvIdx (n : Nat) : Option Nat → Option Nat
  | none => some (n - 1)
  | some i => if i = 0 then none else some (i - 1)

theorem goToIndex_of_ne {st : CState} (hne : st.comps ≠ []) (idx : Option Nat) :
    st.goToIndex idx = { st with index := idx } := by
  unfold CState.goToIndex
  cases hc : st.comps with
  | nil => exact absurd hc hne
  | cons _ _ => simp

/-- one `complete_next()` on a good state with a non-empty menu -/
theorem next_spec {s : St} (hb : BufOK cfg env s) {st : CState} (hcs : s.cs = some st)
    (hne : st.comps ≠ []) :
    BufOK cfg env (completeNext cfg s 1 false).1 ∧
    (completeNext cfg s 1 false).1.cs = some { st with index := nxtIdx st.comps.length st.index } := by
  have hn : 0 < st.comps.length := List.length_pos_iff.mpr hne
  have hst := hb.cs_ok st hcs
  refine ⟨(completeNext_nav hb 1 false).buf, ?_⟩
  unfold completeNext
  rw [hcs]
  dsimp only
  cases hi : st.index with
  | none =>
    dsimp only
    rw [(goTo_spec hb hcs (some 0) (by intro j hj; cases hj; exact hn)).2.2.2, goToIndex_of_ne hne]
    rfl
  | some i =>
    have hlt := index_lt_of_newDoc hst.text_eq hi
    dsimp only
    split
    · rename_i he
      simp only [Bool.false_eq_true, if_false]
      rw [(goTo_spec hb hcs none (by intro j hj; cases hj)).2.2.2, goToIndex_of_ne hne]
      simp only [nxtIdx]
      rw [if_pos (by omega)]
    · rename_i he
      have hmin : min (st.comps.length - 1) (i + 1) = i + 1 := by omega
      rw [(goTo_spec hb hcs _ (by intro j hj; simp at hj; omega)).2.2.2, goToIndex_of_ne hne, hmin]
      simp only [nxtIdx]
      rw [if_neg (by omega)]

/-- one `complete_previous()` on a good state with a non-empty menu -/
theorem prev_spec {s : St} (hb : BufOK cfg env s) {st : CState} (hcs : s.cs = some st)
    (hne : st.comps ≠ []) :
    BufOK cfg env (completePrevious cfg s 1 false).1 ∧
    (completePrevious cfg s 1 false).1.cs = some { st with index := prvIdx st.comps.length st.index } := by
  have hn : 0 < st.comps.length := List.length_pos_iff.mpr hne
  have hst := hb.cs_ok st hcs
  refine ⟨(completePrevious_nav hb 1 false).buf, ?_⟩
  unfold completePrevious
  rw [hcs]
  dsimp only
  cases hi : st.index with
  | none =>
    dsimp only
    rw [(goTo_spec hb hcs _ (by intro j hj; simp at hj; omega)).2.2.2, goToIndex_of_ne hne]
    rfl
  | some i =>
    have hlt := index_lt_of_newDoc hst.text_eq hi
    dsimp only
    split
    · rename_i he
      simp only [Bool.false_eq_true, if_false]
      rw [(goTo_spec hb hcs none (by intro j hj; cases hj)).2.2.2, goToIndex_of_ne hne]
      simp only [prvIdx]
      rw [if_pos he]
    · rename_i he
      rw [(goTo_spec hb hcs _ (by intro j hj; simp at hj; omega)).2.2.2, goToIndex_of_ne hne]
      simp only [prvIdx]
      rw [if_neg he]

def nextN (cfg : Config) (s : St) : Nat → St
  | 0 => s
  | k + 1 => (completeNext cfg (nextN cfg s k) 1 false).1

def prevN (cfg : Config) (s : St) : Nat → St
  | 0 => s
  | k + 1 => (completePrevious cfg (prevN cfg s k) 1 false).1

theorem nextN_spec {s : St} (hb : BufOK cfg env s) {st : CState} (hcs : s.cs = some st)
    (hi : st.index = none) (hne : st.comps ≠ []) (k : Nat) (hk : k ≤ st.comps.length) :
    BufOK cfg env (nextN cfg s k) ∧
    (nextN cfg s k).cs = some { st with index := if k = 0 then none else some (k - 1) } := by
  induction k with
  | zero => exact ⟨hb, by simp [nextN, hcs, ← hi]⟩
  | succ k ih =>
    obtain ⟨hbk, hck⟩ := ih (by omega)
    have := next_spec hbk hck (by simpa using hne)
    refine ⟨this.1, ?_⟩
    show (completeNext cfg (nextN cfg s k) 1 false).1.cs = _
    rw [this.2]
    cases k with
    | zero => simp [nxtIdx]
    | succ j =>
      simp only [Nat.add_one_ne_zero, if_false, Nat.add_sub_cancel, nxtIdx]
      rw [if_neg (by omega)]

/-- **cycle_visits_all**: from a freshly opened menu with `n` completions, the `k+1`-th
    `complete_next()` selects completion `k` (for every `k < n`), and the text is the original
    with exactly that completion applied. -/
theorem cycle_visits_all {s : St} (hb : BufOK cfg env s) {st : CState} (hcs : s.cs = some st)
    (hi : st.index = none) (k : Nat) (hk : k < st.comps.length) :
    (nextN cfg s (k + 1)).cs = some { st with index := some k } ∧
    ∃ c, st.comps[k]? = some c ∧
      (⟨(nextN cfg s (k + 1)).text, (nextN cfg s (k + 1)).cur⟩ : Doc) = applyCompl st.orig c := by
  have hne : st.comps ≠ [] := by intro e; rw [e] at hk; simp at hk
  obtain ⟨hbk, hck⟩ := nextN_spec hb hcs hi hne (k + 1) (by omega)
  simp only [Nat.add_one_ne_zero, if_false, Nat.add_sub_cancel] at hck
  refine ⟨hck, ?_⟩
  have := (hbk.cs_ok _ hck).text_eq
  simp only [CState.newDoc] at this
  split at this
  · rename_i c hc
    exact ⟨c, hc, by simpa [St.doc] using this.symm⟩
  · cases this

/-- **cycle_wraps**: one more `complete_next()` after the last completion deselects, and the
    buffer shows the original text and cursor again. -/
theorem cycle_wraps {s : St} (hb : BufOK cfg env s) {st : CState} (hcs : s.cs = some st)
    (hi : st.index = none) (hne : st.comps ≠ []) :
    (nextN cfg s (st.comps.length + 1)).cs = some st ∧
    (nextN cfg s (st.comps.length + 1)).text = st.orig.text ∧
    (nextN cfg s (st.comps.length + 1)).cur = st.orig.cur := by
  have hn : 0 < st.comps.length := List.length_pos_iff.mpr hne
  obtain ⟨hbk, hck⟩ := nextN_spec hb hcs hi hne st.comps.length (Nat.le_refl _)
  rw [if_neg (by omega)] at hck
  have := next_spec hbk hck (by simpa using hne)
  have hcs' : (nextN cfg s (st.comps.length + 1)).cs = some st := by
    show (completeNext cfg (nextN cfg s st.comps.length) 1 false).1.cs = _
    rw [this.2]
    simp only [nxtIdx]
    rw [if_pos (by omega)]
    simp [← hi]
  refine ⟨hcs', ?_⟩
  have hb' : BufOK cfg env (nextN cfg s (st.comps.length + 1)) := this.1
  have := (hb'.cs_ok st hcs').text_eq
  simp only [CState.newDoc, hi] at this
  simp [St.doc] at this
  rw [this]; exact ⟨rfl, rfl⟩

theorem prevN_spec {s : St} (hb : BufOK cfg env s) {st : CState} (hcs : s.cs = some st)
    (hi : st.index = none) (hne : st.comps ≠ []) (k : Nat) (hk : k ≤ st.comps.length) :
    BufOK cfg env (prevN cfg s k) ∧
    (prevN cfg s k).cs = some { st with index := if k = 0 then none else some (st.comps.length - k) } := by
  induction k with
  | zero => exact ⟨hb, by simp [prevN, hcs, ← hi]⟩
  | succ k ih =>
    obtain ⟨hbk, hck⟩ := ih (by omega)
    have := prev_spec hbk hck (by simpa using hne)
    refine ⟨this.1, ?_⟩
    show (completePrevious cfg (prevN cfg s k) 1 false).1.cs = _
    rw [this.2]
    cases k with
    | zero => simp [prvIdx]
    | succ j =>
      simp only [Nat.add_one_ne_zero, if_false, prvIdx]
      rw [if_neg (by omega)]
      congr 3

/-- **cycle_backward**: `complete_previous()` visits the completions in reverse order
    (`n-1, n-2, …, 0`) and then wraps to the original text. -/
theorem cycle_backward {s : St} (hb : BufOK cfg env s) {st : CState} (hcs : s.cs = some st)
    (hi : st.index = none) (hne : st.comps ≠ []) :
    (∀ k, k < st.comps.length →
      (prevN cfg s (k + 1)).cs = some { st with index := some (st.comps.length - 1 - k) }) ∧
    (prevN cfg s (st.comps.length + 1)).cs = some st ∧
    (prevN cfg s (st.comps.length + 1)).text = st.orig.text ∧
    (prevN cfg s (st.comps.length + 1)).cur = st.orig.cur := by
  have hn : 0 < st.comps.length := List.length_pos_iff.mpr hne
  constructor
  · intro k hk
    have := (prevN_spec hb hcs hi hne (k + 1) (by omega)).2
    rw [this]; simp; omega
  · obtain ⟨hbk, hck⟩ := prevN_spec hb hcs hi hne st.comps.length (Nat.le_refl _)
    rw [if_neg (by omega)] at hck
    have := prev_spec hbk hck (by simpa using hne)
    have hcs' : (prevN cfg s (st.comps.length + 1)).cs = some st := by
      show (completePrevious cfg (prevN cfg s st.comps.length) 1 false).1.cs = _
      rw [this.2]
      simp only [prvIdx]
      rw [if_pos (by omega)]
      simp [← hi]
    refine ⟨hcs', ?_⟩
    have hb' : BufOK cfg env (prevN cfg s (st.comps.length + 1)) := this.1
    have := (hb'.cs_ok st hcs').text_eq
    simp only [CState.newDoc, hi] at this
    simp [St.doc] at this
    rw [this]; exact ⟨rfl, rfl⟩

/-- **cancel_restores**: `cancel_completion()` never raises, closes the menu and restores the
    original text and cursor, whatever was selected. -/
theorem cancel_restores {s : St} (hb : BufOK cfg env s) {st : CState} (hcs : s.cs = some st) :
    (cancelCompletion cfg s).2 = false ∧
    (cancelCompletion cfg s).1.cs = none ∧
    (cancelCompletion cfg s).1.text = st.orig.text ∧
    (cancelCompletion cfg s).1.cur = st.orig.cur := by
  have r := goTo_spec hb hcs none (by intro j hj; cases hj)
  have hnd : (st.goToIndex none).newDoc = some st.orig := by
    unfold CState.goToIndex
    split
    · rename_i he
      have hidx : st.index = none := by
        cases hi : st.index with
        | none => rfl
        | some i =>
          have := index_lt_of_newDoc (hb.cs_ok st hcs).text_eq hi
          have he : st.comps = [] := by simpa using he
          rw [he] at this; simp at this
      simp [CState.newDoc, hidx]
    · rfl
  have ht := (r.2.1.cs_ok _ r.2.2.2).text_eq
  rw [hnd] at ht
  simp only [Option.some.injEq] at ht
  unfold cancelCompletion
  rw [hcs]
  simp only [r.1]
  refine ⟨rfl, rfl, ?_, ?_⟩
  · show (goToCompletion cfg s none).1.text = _
    rw [ht]; rfl
  · show (goToCompletion cfg s none).1.cur = _
    rw [ht]; rfl

/-- `cancel_restores` for every reachable state -/
theorem cancel_restores_reachable (hfix : CfgOK cfg) {s : St} (h : Reachable cfg env s)
    {st : CState} (hcs : s.cs = some st) :
    (step cfg env s .cancel).2 = false ∧ (step cfg env s .cancel).1.cs = none ∧
    (step cfg env s .cancel).1.text = st.orig.text ∧ (step cfg env s .cancel).1.cur = st.orig.cur :=
  cancel_restores (reachable_inv hfix h).buf hcs


/-- the cycling laws in every reachable state whose menu was just opened: `n` presses of
    `complete_next()` visit completions `0 … n-1` in order, press `n+1` restores the original
    text; `complete_previous()` does the same backwards -/
theorem cycle_reachable (hfix : CfgOK cfg) {s : St} (h : Reachable cfg env s)
    {st : CState} (hcs : s.cs = some st) (hi : st.index = none) (hne : st.comps ≠ []) :
    (∀ k, k < st.comps.length → (nextN cfg s (k + 1)).cs = some { st with index := some k }) ∧
    (nextN cfg s (st.comps.length + 1)).text = st.orig.text ∧
    (nextN cfg s (st.comps.length + 1)).cur = st.orig.cur ∧
    (∀ k, k < st.comps.length →
      (prevN cfg s (k + 1)).cs = some { st with index := some (st.comps.length - 1 - k) }) ∧
    (prevN cfg s (st.comps.length + 1)).text = st.orig.text ∧
    (prevN cfg s (st.comps.length + 1)).cur = st.orig.cur := by
  have hb := (reachable_inv hfix h).buf
  have w := cycle_wraps hb hcs hi hne
  have b := cycle_backward hb hcs hi hne
  exact ⟨fun k hk => (cycle_visits_all hb hcs hi k hk).1, w.2.1, w.2.2, b.1, b.2.2.1, b.2.2.2⟩

/-! ### the mechanisms, step by step: a stale result is dropped, not published -/

/-- what "nothing is published" means for a completer segment: nothing the user sees changes,
    except that the coroutine may restart (`_Retry`) for the *current* document with a fresh,
    empty menu -/
def Unpublished (cfg : Config) (env : Env) (s : St) (m : Mode) (r : Seg) : Prop :=
  r.1.text = s.text ∧ r.1.cur = s.cur ∧ r.1.vs = s.vs ∧ r.1.verr = s.verr ∧ r.1.sugg = s.sugg ∧
  (r.1.cs = s.cs ∨ (s.cs = none ∧ r.1.cs = some ⟨s.doc, [], none, s.nextTok⟩ ∧
                    r.2 = (compBegin cfg env s m).2))

theorem appendCompl_stale {s : St} {tok : Nat} (hstale : proceed s tok = false) (c : Completion) :
    appendCompl s tok c = s := by
  unfold appendCompl
  unfold proceed at hstale
  split
  · rename_i st hcs
    rw [hcs] at hstale
    simp only at hstale
    rw [if_neg (by simpa using hstale)]
  · rfl

/-- the rest of `async_completer` after the loop, when `proceed()` is false -/
theorem compPost_stale (s : St) (m : Mode) (doc : Doc) (tok : Nat) (hstale : proceed s tok = false) :
    Unpublished cfg env s m (compPost cfg env s m doc tok) := by
  have hdrop : dropNoop cfg s doc tok = s := by
    unfold dropNoop
    unfold proceed at hstale
    split
    · rename_i st hcs
      rw [hcs] at hstale
      simp only at hstale
      simp [hstale]
    · rfl
  have hpost : compPost cfg env s m doc tok = compElse cfg env s m doc := by
    unfold compPost
    rw [hdrop]
    unfold compDispatch
    unfold proceed at hstale
    split
    · rename_i st hcs
      rw [hcs] at hstale
      simp only at hstale
      simp [hstale]
    · rfl
  rw [hpost]
  unfold compElse
  split
  · exact ⟨rfl, rfl, rfl, rfl, rfl, Or.inl rfl⟩
  · split
    · unfold compBegin
      split
      · exact ⟨rfl, rfl, rfl, rfl, rfl, Or.inl rfl⟩
      · rename_i hn
        have hn' : s.cs = none := by simpa using hn
        exact ⟨rfl, rfl, rfl, rfl, rfl, Or.inr ⟨hn', rfl, by simp [compBegin, hn']⟩⟩
    · exact ⟨rfl, rfl, rfl, rfl, rfl, Or.inl rfl⟩

/-- A completer stream delivers a result (or ends) after the buffer's state object was
    replaced or discarded (`proceed()` is false): nothing the user sees changes, except that
    the coroutine may restart for the *current* document with a fresh, empty menu. -/
theorem stale_completion_not_published (s : St) (m : Mode) (doc : Doc) (i tok : Nat)
    (hstale : proceed s tok = false) :
    Unpublished cfg env s m (compResume cfg env s m doc i tok) := by
  unfold compResume
  split
  · rename_i c hc
    simp only [appendCompl_stale hstale c, hstale, Bool.not_false, if_true]
    exact compPost_stale s m doc tok hstale
  · exact compPost_stale s m doc tok hstale

/-- The same with a `ThreadedCompleter`, element by element: a queue element that reaches the
    `async for` body after the state object was replaced changes nothing at all (the loop is
    left, `quitting` is set, the coroutine waits for the producer thread) … -/
theorem stale_threaded_item_not_published (s : St) (m : Mode) (doc : Doc) (tok : Nat) (h : HS) (j : Nat)
    (hstale : proceed s tok = false) {c : Completion} (hc : (env.comp doc)[j]? = some c) :
    compItemT cfg env s m doc tok h (.item j) = (s, some (.cCloseT m doc tok (quit h) false)) := by
  simp only [compItemT, hc, appendCompl_stale hstale c, hstale, Bool.not_false, if_true]

/-- … and when the producer thread has returned and the coroutine goes on after
    `await runner_f`, nothing is published either. -/
theorem stale_threaded_close_not_published (s : St) (m : Mode) (doc : Doc) (tok : Nat) (h : HS)
    (hstale : proceed s tok = false) (hex : h.pc.isExit = true) :
    Unpublished cfg env s m (compCloseT cfg env s m doc tok h false) := by
  simp only [compCloseT, hex, if_true, Bool.false_eq_true, if_false]
  exact compPost_stale s m doc tok hstale

/-- while the producer thread is still running, `await runner_f` does not return: the
    coroutine publishes nothing and keeps its `running` flag -/
theorem closing_waits_for_producer (s : St) (m : Mode) (doc : Doc) (tok : Nat) (h : HS) (c : Bool)
    (hex : h.pc.isExit = false) :
    compCloseT cfg env s m doc tok h c = (s, some (.cCloseT m doc tok h c)) := by
  simp [compCloseT, hex]

/-- The validator answers for a document that is no longer the buffer's — another text, another
    cursor position, or (`Document.__eq__` compares it too) another selection: no verdict is
    published (the coroutine validates the current document instead, or stops if a verdict
    exists already). -/
theorem stale_verdict_not_published (s : St) (doc : Doc) (sel : Option Nat)
    (hstale : s.doc ≠ doc ∨ s.sel ≠ sel) :
    (valResume env s doc sel).1.vs = s.vs ∧ (valResume env s doc sel).1.verr = s.verr ∧
    (valResume env s doc sel).1.text = s.text ∧
    ((valResume env s doc sel).2 = none ∨ (valResume env s doc sel).2 = some (.vWait s.doc s.sel)) := by
  unfold valResume
  rw [if_pos hstale]
  unfold valLoop
  split
  · exact ⟨rfl, rfl, rfl, Or.inl rfl⟩
  · exact ⟨rfl, rfl, rfl, Or.inr rfl⟩

/-- A verdict is published only by a validator that was called with the buffer's current
    document, and it is that document's verdict. -/
theorem verdict_published_for_current (s : St) (doc : Doc) (sel : Option Nat)
    (hpub : (valResume env s doc sel).1.vs ≠ s.vs) :
    s.doc = doc ∧ s.sel = sel ∧ (valResume env s doc sel).1.verr = env.valid s.doc ∧
    ((valResume env s doc sel).1.vs = .invalid ↔ (env.valid s.doc).isSome) := by
  by_cases hd : s.doc = doc ∧ s.sel = sel
  · obtain ⟨hd, hs⟩ := hd
    subst hd; subst hs
    refine ⟨rfl, rfl, ?_, ?_⟩
    · unfold valResume; simp only [ne_eq, not_true_eq_false, or_self, if_false]
      split <;> simp_all
    · unfold valResume; simp only [ne_eq, not_true_eq_false, or_self, if_false]
      split <;> simp_all
  · have : s.doc ≠ doc ∨ s.sel ≠ sel := by
      by_cases h1 : s.doc = doc
      · exact Or.inr (fun h2 => hd ⟨h1, h2⟩)
      · exact Or.inl h1
    exact absurd (stale_verdict_not_published (env := env) s doc sel this).1 hpub

/-- The suggester answers for a document that is no longer the buffer's (text, cursor or
    selection): nothing is published; the coroutine retries with the current document. -/
theorem stale_suggestion_not_published (s : St) (doc : Doc) (sel : Option Nat)
    (hstale : s.doc ≠ doc ∨ s.sel ≠ sel) :
    (sugResume env s doc sel).1.sugg = s.sugg ∧ (sugResume env s doc sel).1.text = s.text ∧
    ((sugResume env s doc sel).2 = none ∨ (sugResume env s doc sel).2 = some (.sWait s.doc s.sel)) := by
  unfold sugResume
  have : ¬ (s.doc = doc ∧ s.sel = sel) := by
    rintro ⟨a, b⟩; rcases hstale with h | h; exact h a; exact h b
  rw [if_neg this]
  unfold sugBegin
  split
  · exact ⟨rfl, rfl, Or.inl rfl⟩
  · exact ⟨rfl, rfl, Or.inr rfl⟩

/-- **a selection change alone discards an answer in flight**: the user starts (or leaves) a
    selection while the validator / suggester runs — text and cursor are the same, yet the
    answer is dropped and recomputed.  Allowed by the property (nothing stale is shown), and
    the reason `selection_state` is part of the model. -/
theorem selection_change_discards (s : St) (doc : Doc) (sel : Option Nat) (hsel : s.sel ≠ sel) :
    (valResume env s doc sel).1.vs = s.vs ∧ (sugResume env s doc sel).1.sugg = s.sugg :=
  ⟨(stale_verdict_not_published s doc sel (Or.inr hsel)).1,
   (stale_suggestion_not_published s doc sel (Or.inr hsel)).1⟩

/-- every change of text clears menu, verdict and suggestion in the same atomic step -/
theorem text_change_clears (s : St) (t : Text) (c : Nat) (ht : t ≠ s.text) :
    (setDocument cfg s t c).cs = none ∧ (setDocument cfg s t c).vs = .unknown ∧
    (setDocument cfg s t c).verr = none ∧ (setDocument cfg s t c).sugg = none := by
  rw [setDocument_cs, setDocument_vs, setDocument_verr, setDocument_sugg]
  simp [ht]

/-- a cursor move closes the menu -/
theorem cursor_change_clears (s : St) (t : Text) (c : Nat) (hc : c ≠ s.cur) :
    (setDocument cfg s t c).cs = none := by
  rw [setDocument_cs]; simp [hc]


/-! ### object identity: a foreign menu stops a loading completer -/

/-- the menu installed by `start_history_lines_completion` is a new object for the current
    document holding exactly the history-lines completions -/
theorem hist_menu_is_new {s : St} (h : Inv cfg env s) :
    ∃ idx, (histComplete cfg env s).1.cs =
      some ⟨s.doc, histComps env.isSpace s.doc, idx, s.nextTok⟩ := by
  unfold histComplete
  have h1 := setCompletions_inv h (histComps env.isSpace s.doc) (Or.inr (Or.inr rfl))
  have hcs : (setCompletions s (histComps env.isSpace s.doc)).cs =
      some ⟨s.doc, histComps env.isSpace s.doc, none, s.nextTok⟩ := rfl
  by_cases hn : histComps env.isSpace s.doc = []
  · rw [goTo_ignored hcs hn, (goTo_spec h1.buf hcs none (by intro j hj; cases hj)).2.2.2]
    exact ⟨none, by simp [CState.goToIndex, hn]⟩
  · rw [(goTo_spec h1.buf hcs (some 0) (by
      intro j hj; cases hj; exact List.length_pos_iff.mpr hn)).2.2.2]
    refine ⟨some 0, ?_⟩
    unfold CState.goToIndex
    cases hc : histComps env.isSpace s.doc with
    | nil => exact absurd hc hn
    | cons _ _ => simp

/-- **identity check**: after `start_history_lines_completion` no completer that is still
    loading passes `proceed()` — whatever it delivers later is dropped
    (`stale_completion_not_published`), even though a menu exists and even if the document
    is the one the completer was started for. -/
theorem foreign_menu_blocks_stream {s : St} (h : Inv cfg env s)
    {m : Mode} {doc : Doc} {i tok : Nat}
    (ht : Task.cLoad m doc i tok ∈ (histComplete cfg env s).1.tasks) :
    proceed (histComplete cfg env s).1 tok = false := by
  obtain ⟨idx, hcs⟩ := hist_menu_is_new h
  have hmem : Task.cLoad m doc i tok ∈ s.tasks := by
    have h1 := setCompletions_inv h (histComps env.isSpace s.doc) (Or.inr (Or.inr rfl))
    have hcs1 : (setCompletions s (histComps env.isSpace s.doc)).cs =
        some ⟨s.doc, histComps env.isSpace s.doc, none, s.nextTok⟩ := rfl
    unfold histComplete at ht
    by_cases hn : histComps env.isSpace s.doc = []
    · rw [goTo_ignored hcs1 hn] at ht
      exact mem_cLoad_pendExt (goTo_spec h1.buf hcs1 none (by intro j hj; cases hj)).2.2.1.ext ht
    · exact mem_cLoad_pendExt (goTo_spec h1.buf hcs1 (some 0) (by
        intro j hj; cases hj; exact List.length_pos_iff.mpr hn)).2.2.1.ext ht
  have hlt := (h.task _ hmem).1
  unfold proceed
  rw [hcs]
  simp; omega


/-! ### the unrepaired `async_completer` (before commit 279c220) violates the property -/

/-- the code as it was: the single no-op completion is dropped even while it is selected -/
def cfgUnfixed : Config := ⟨false, false, false, false, 10000, false, false, 1000⟩
def cfgFixed : Config := ⟨false, false, false, false, 10000, true, false, 1000⟩

/-- a completer whose only completion replaces the last three characters by themselves -/
def envNoop : Env := ⟨mkComp [⟨3, true, []⟩], fun _ => none, fun _ => none, fun c => c == ' '⟩

/-- start_completion(); the task starts; the completion arrives; the user selects it
    (complete_next) while the stream is still open; the stream ends -/
def witnessD1 : List Act :=
  [.startCompletion .plain, .start 0, .resume 0, .next 1 false, .resume 0]

/-- **Counterexample (defect D1, fixed in /repo by 279c220).**  With the unrepaired
    coroutine the schedule `witnessD1` reaches a state whose menu has no completions but
    `complete_index = 0`; `cancel_completion()` then raises instead of restoring the text. -/
theorem unfixed_dangles :
    (run cfgUnfixed envNoop (init ⟨['f', 'o', 'o'], 3⟩) witnessD1).cs =
      some ⟨⟨['f', 'o', 'o'], 3⟩, [], some 0, 0⟩ ∧
    (step cfgUnfixed envNoop (run cfgUnfixed envNoop (init ⟨['f', 'o', 'o'], 3⟩) witnessD1) .cancel).2 = true := by
  decide

/-- the same schedule on the repaired coroutine keeps the selected completion -/
theorem fixed_keeps_selected :
    (run cfgFixed envNoop (init ⟨['f', 'o', 'o'], 3⟩) witnessD1).cs =
      some ⟨⟨['f', 'o', 'o'], 3⟩, [⟨['f', 'o', 'o'], -3⟩], some 0, 0⟩ := by
  decide


/-! ### non-vacuity: concrete reachable states exercising every hypothesis above -/

def cfgAll : Config := ⟨true, true, true, true, 10000, true, false, 1000⟩
theorem cfgAll_ok : CfgOK cfgAll := ⟨rfl, by decide⟩

/-- completer: last char + "xy", last char + "xz" (common part "x"); validator: invalid iff
    (len + cursor) % 3 = 0; suggester: none iff len is even, else last two characters + "!" -/
def envDemo : Env :=
  ⟨mkComp [⟨1, true, ['x', 'y']⟩, ⟨1, true, ['x', 'z']⟩], mkValid 1 3 0, mkSugg 0 2 0 ['!'],
   fun c => c == ' '⟩

def docAb : Doc := ⟨['a', 'b'], 2⟩

/-- Tab-less completion with `select_first`, stream consumed to the end -/
def actsMenu : List Act := [.startCompletion .first, .start 0, .resume 0, .resume 0, .resume 0]

example : Reachable cfgAll envDemo (run cfgAll envDemo (init docAb) actsMenu) :=
  ⟨docAb, actsMenu, by unfold Doc.WF; decide, rfl⟩

/-- `menu_text_consistent` / `menu_selected` / `index_valid` / `completions_for_orig` are not
    vacuous: a reachable state with a menu, a selected completion and changed text -/
example :
    (run cfgAll envDemo (init docAb) actsMenu).cs =
      some ⟨docAb, [⟨['b', 'x', 'y'], -1⟩, ⟨['b', 'x', 'z'], -1⟩], some 0, 0⟩ ∧
    (run cfgAll envDemo (init docAb) actsMenu).text = ['a', 'b', 'x', 'y'] ∧
    (run cfgAll envDemo (init docAb) actsMenu).cur = 4 := by decide

/-- `loading_link`: a completer still loading, one completion delivered, menu still its own -/
example :
    (run cfgAll envDemo (init docAb) [.startCompletion .plain, .start 0, .resume 0]).tasks =
      [.cLoad .plain docAb 1 0] ∧
    ((run cfgAll envDemo (init docAb) [.startCompletion .plain, .start 0, .resume 0]).cs.map (·.comps)) =
      some [⟨['b', 'x', 'y'], -1⟩] := by decide

/-- staleness avoided: the user types while the stream is loading; the next result is not
    published for the new text — the coroutine retries for the new document -/
example :
    (run cfgAll envDemo (init docAb)
      [.startCompletion .plain, .start 0, .resume 0, .setText ['a', 'b', 'c'], .setCursor 3, .resume 0]).cs =
      some ⟨⟨['a', 'b', 'c'], 3⟩, [], none, 1⟩ := by decide

/-- the derived case of `completions_for_orig`: `insert_common_part` inserts "x" and
    publishes the shortened completions for the *new* document -/
example :
    (run cfgAll envDemo (init docAb) [.tab, .start 0, .resume 0, .resume 0, .resume 0]).cs =
      some ⟨⟨['a', 'b', 'x'], 3⟩, [⟨['y'], 0⟩, ⟨['z'], 0⟩], none, 1⟩ := by decide

/-- `verdict_fresh` (invalid case) and `suggestion_fresh` are not vacuous: after typing "a"
    the validator and the suggester run to completion -/
example :
    (run cfgAll envDemo (init docAb) [.insert ['a'], .start 0, .resume 0]).vs = .invalid ∧
    (run cfgAll envDemo (init docAb) [.insert ['a'], .start 0, .resume 0]).verr = some ['E', 'a'] := by decide
example :
    (run cfgAll envDemo (init docAb) [.insert ['a'], .start 2, .resume 0]).sugg = some ['b', 'a', '!'] := by
  decide
/-- valid case -/
example :
    (run cfgAll envDemo (init docAb) [.insert ['a'], .setCursor 2, .start 0, .resume 0]).vs = .valid := by
  decide
/-- a verdict that would be stale is not published: the text changes while the validator
    runs, the coroutine re-validates the new document instead -/
example :
    (run cfgAll envDemo (init docAb) [.insert ['a'], .start 0, .insert ['a'], .resume 0]).vs = .unknown ∧
    (run cfgAll envDemo (init docAb) [.insert ['a'], .start 0, .insert ['a'], .resume 0]).tasks.head? =
      some (.vWait ⟨['a', 'b', 'a', 'a'], 4⟩ none) := by decide

/-- `one_at_a_time`: a second completer started while the first is loading returns at once -/
example :
    cntC (run cfgAll envDemo (init docAb)
      [.startCompletion .plain, .startCompletion .first, .start 0, .start 0]).tasks = 1 ∧
    (run cfgAll envDemo (init docAb)
      [.startCompletion .plain, .startCompletion .first, .start 0, .start 0]).runC = true := by decide

/-- `foreign_menu_blocks_stream`: a completer is loading, the user opens the history-lines
    menu on "ab\na|": the stream's next result is dropped and the coroutine returns -/
example :
    (run cfgAll envDemo (init ⟨['a', 'b', '\n', 'a'], 4⟩)
      [.startCompletion .plain, .start 0, .histComplete]).cs =
      some ⟨⟨['a', 'b', '\n', 'a'], 4⟩, [⟨['a'], -1⟩, ⟨['a', 'b'], -1⟩], some 0, 1⟩ ∧
    (run cfgAll envDemo (init ⟨['a', 'b', '\n', 'a'], 4⟩)
      [.startCompletion .plain, .start 0, .histComplete, .resume 0]).tasks = [] ∧
    ((run cfgAll envDemo (init ⟨['a', 'b', '\n', 'a'], 4⟩)
      [.startCompletion .plain, .start 0, .histComplete, .resume 0]).cs.map (·.comps)) =
      some [⟨['a'], -1⟩, ⟨['a', 'b'], -1⟩] := by decide

/-- cancellation: the flag of a killed coroutine is cleared, a new one may start -/
example :
    (run cfgAll envDemo (init docAb) [.startCompletion .plain, .start 0, .kill 0]).runC = false ∧
    (run cfgAll envDemo (init docAb) [.startCompletion .plain, .start 0, .kill 0]).tasks = [] := by decide

/-- `cycle_*` / `cancel_restores`: their hypotheses hold in the reachable state with a freshly
    opened two-entry menu -/
example :
    (run cfgAll envDemo (init docAb) [.startCompletion .plain, .start 0, .resume 0, .resume 0, .resume 0]).cs =
      some ⟨docAb, [⟨['b', 'x', 'y'], -1⟩, ⟨['b', 'x', 'z'], -1⟩], none, 0⟩ := by decide
example :
    (nextN cfgAll (run cfgAll envDemo (init docAb)
      [.startCompletion .plain, .start 0, .resume 0, .resume 0, .resume 0]) 2).text = ['a', 'b', 'x', 'z'] ∧
    (nextN cfgAll (run cfgAll envDemo (init docAb)
      [.startCompletion .plain, .start 0, .resume 0, .resume 0, .resume 0]) 3).text = ['a', 'b'] := by decide

/-- `selection_change_discards`: typing starts the validator; the user starts a selection while it
    runs; the answer is dropped and the current document (with the selection) validated instead -/
example :
    (run cfgAll envDemo (init docAb) [.insert ['a'], .start 0, .startSel, .resume 0]).vs = .unknown ∧
    (run cfgAll envDemo (init docAb) [.insert ['a'], .start 0, .startSel, .resume 0]).tasks.head? =
      some (.vWait ⟨['a', 'b', 'a'], 3⟩ (some 0)) ∧
    (run cfgAll envDemo (init docAb) [.insert ['a'], .start 0, .startSel, .resume 0, .resume 0]).vs = .invalid := by
  decide

end Ptk.C15
