/-
  C15 — property theorems for the async transition system (`Ptk.Model.C15`).
-/
import Ptk.Model.C15
namespace Ptk.C15
open Ptk.Py

theorem init_no_menu (d : Doc) : (init d).cs = none := rfl

end Ptk.C15
