/-
  C02 — Document coordinates and motion queries are consistent and stay in bounds.
  Property theorems over the model `Ptk.Model.C02` (helper lemmas: `Ptk.Props.C02Lines`,
  `Ptk.Props.C02Scan`).  Every theorem is followed by a non-vacuity example.
-/
import Ptk.Props.C02Lines
import Ptk.Props.C02Scan
namespace Ptk.C02
open Ptk.Py

/-! ## 1. coordinates: index ↔ (row, col), agreement with `split("\n")`, views -/

/-- `text_before_cursor + text_after_cursor == text` -/
theorem before_after_concat (d : Doc) : d.before ++ d.after = d.text := by
  simp [Doc.before, Doc.after]
example : (Doc.mk ['a', '\n', 'b'] 2).before = ['a', '\n'] ∧ (Doc.mk ['a', '\n', 'b'] 2).after = ['b'] := by decide

/-- `"\n".join(lines) == text`, and no line contains a newline: `lines` is the split of the text -/
theorem lines_join (t : Text) : join ['\n'] (lines t) = t ∧ ∀ l ∈ lines t, '\n' ∉ l :=
  ⟨join_lines t, lines_allNoNL t⟩
example : lines ['a', '\n', '\n', 'b'] = [['a'], [], ['b']] := by decide

theorem count_pre (A : List Text) (hA : AllNoNL A) : (pre A).count '\n' = A.length := by
  induction A with
  | nil => rfl
  | cons a as ih =>
    have ha : NoNL a := hA a (by simp)
    have has : AllNoNL as := fun l hl => hA l (by simp [hl])
    simp only [pre, List.count_append, List.count_cons_self, List.length_cons, ih has]
    rw [List.count_eq_zero_of_not_mem ha]; omega

theorem count_post (B : List Text) (hB : AllNoNL B) : (post B).count '\n' = B.length := by
  induction B with
  | nil => rfl
  | cons b bs ih =>
    have hb : NoNL b := hB b (by simp)
    have hbs : AllNoNL bs := fun l hl => hB l (by simp [hl])
    simp only [post, List.count_append, List.count_cons_self, List.length_cons, ih hbs]
    rw [List.count_eq_zero_of_not_mem hb]; omega

/-- `line_count == text.count("\n") + 1` -/
theorem lineCount_eq (t : Text) : lineCount t = t.count '\n' + 1 := by
  obtain ⟨A, m1, m2, B, h⟩ := exists_normal' t 0 (Nat.zero_le _)
  unfold lineCount
  rw [h.lines]
  conv => rhs; rw [h.text]
  simp only [List.count_append, count_pre A h.hA, count_post B h.hB,
    List.count_eq_zero_of_not_mem h.h1, List.count_eq_zero_of_not_mem h.h2, List.length_append,
    List.length_singleton]
  omega
example : lineCount ['a', '\n', '\n', 'b'] = 3 := by decide

/-- the line start table is strictly increasing and starts at 0 (what `bisect` relies on) -/
theorem lineStarts_sorted (t : Text) :
    (lineStarts t).head? = some 0 ∧ (lineStarts t).Pairwise (· < ·) := by
  rw [lineStarts_eq]
  have hne : lines t ≠ [] := splitOn_ne_nil _ _
  constructor
  · cases h : lines t with
    | nil => exact absurd h hne
    | cons l ls => simp [startsOf]
  · generalize lines t = ls
    suffices ∀ p, (∀ x ∈ startsOf p ls, p ≤ x) ∧ (startsOf p ls).Pairwise (· < ·) from (this 0).2
    induction ls with
    | nil => intro p; simp [startsOf]
    | cons l ls ih =>
      intro p
      obtain ⟨h1, h2⟩ := ih (p + l.length + 1)
      simp only [startsOf, List.mem_cons, List.pairwise_cons]
      refine ⟨?_, ?_, h2⟩
      · rintro x (rfl | hx)
        · exact Nat.le_refl _
        · have := h1 x hx; omega
      · intro x hx; have := h1 x hx; omega
example : lineStarts ['a', 'b', '\n', '\n', 'c'] = [0, 3, 4] := by decide

/-- **index → (row, col) → index** is the identity on `0..len(text)` -/
theorem idx_pos_roundtrip (t : Text) (i : Nat) (hi : i ≤ t.length) :
    rowColToIndex t (indexToPos t i).1 (indexToPos t i).2 = i := by
  obtain ⟨A, m1, m2, B, h⟩ := exists_normal' t i hi
  rw [h.indexToPos, h.rowColToIndex, h.idx]
  simp only [List.length_append]
  omega
example : indexToPos ['a', 'b', '\n', 'c'] 3 = (1, 0) ∧ rowColToIndex ['a', 'b', '\n', 'c'] 1 0 = 3 := by
  decide

/-- **(row, col) → index → (row, col)** is the identity on valid positions
    (`row < line_count`, `col ≤ len(lines[row])`) -/
theorem pos_idx_roundtrip (t : Text) (r c : Nat) (hr : r < (lines t).length)
    (hc : c ≤ ((lines t)[r]).length) :
    indexToPos t (rowColToIndex t r c) = (r, c) := by
  have h := normal_of_rowcol t r c hr hc
  have hlen : ((lines t).take r).length = r := by simp; omega
  have e := h.rowColToIndex (c : Int)
  rw [hlen] at e
  rw [e]
  have hcc : (max 0 (min (c : Int) ((List.take c (lines t)[r] ++ List.drop c (lines t)[r]).length : Int))).toNat = c := by
    simp only [List.take_append_drop]; omega
  rw [hcc, h.indexToPos, hlen]
  simp; omega
example : rowColToIndex ['a', 'b', '\n', 'c'] 1 1 = 4 ∧ indexToPos ['a', 'b', '\n', 'c'] 4 = (1, 1) := by
  decide

/-- the translated position is a valid one, and it **agrees with splitting on newlines**:
    the row is the number of newlines before the index, the column is the distance to the last
    newline, and `lines[row]` is the text around the index up to the neighbouring newlines. -/
theorem pos_agrees_with_split (t : Text) (i : Nat) (hi : i ≤ t.length) :
    (indexToPos t i).1 = (t.take i).count '\n' ∧
    (indexToPos t i).2 = (rpartLast (t.take i)).length ∧
    (lines t)[(indexToPos t i).1]? = some (rpartLast (t.take i) ++ partFirst (t.drop i)) := by
  obtain ⟨A, m1, m2, B, h⟩ := exists_normal' t i hi
  rw [h.indexToPos, h.take, h.drop, rpartLast_normal A m1 h.h1, partFirst_normal B m2 h.h2, h.lines]
  refine ⟨?_, rfl, by simp⟩
  simp [List.count_append, count_pre A h.hA, List.count_eq_zero_of_not_mem h.h1]
example : (['a', '\n', 'b', 'c'].take 3).count '\n' = 1 ∧ rpartLast (['a', '\n', 'b', 'c'].take 3) = ['b'] ∧
    indexToPos ['a', '\n', 'b', 'c'] 3 = (1, 1) := by decide

/-- row / column / current line / line before and after the cursor **describe the same text** -/
theorem views_consistent (d : Doc) (hc : d.cur ≤ d.text.length) :
    row d < lineCount d.text ∧
    (lines d.text)[row d]? = some (currentLine d) ∧
    lineBefore d = (currentLine d).take (col d) ∧
    lineAfter d = (currentLine d).drop (col d) ∧
    col d = (lineBefore d).length ∧
    row d = d.before.count '\n' ∧
    '\n' ∉ currentLine d ∧
    rowColToIndex d.text (row d) (col d) = d.cur ∧
    (d.cur : Int) - col d + (currentLine d).length ≤ d.text.length := by
  obtain ⟨t, i⟩ := d
  obtain ⟨A, m1, m2, B, h⟩ := exists_normal' t i hc
  have hlen := h.length
  simp only [h.row, h.col, h.currentLine, h.lineBefore, h.lineAfter, lineCount, h.lines, Doc.before,
    h.take, h.rowColToIndex]
  refine ⟨by simp, by simp, by simp, by simp, trivial, ?_, h.noNL12, ?_, ?_⟩
  · simp [List.count_append, count_pre A h.hA, List.count_eq_zero_of_not_mem h.h1]
  · rw [h.idx]; simp only [List.length_append]; omega
  · rw [h.idx]; simp only [List.length_append]; omega
example : row ⟨['a', '\n', 'b', 'c'], 3⟩ = 1 ∧ col ⟨['a', '\n', 'b', 'c'], 3⟩ = 1 ∧
    currentLine ⟨['a', '\n', 'b', 'c'], 3⟩ = ['b', 'c'] := by decide

/-! ## 2. bounds and same-line for the character / line motions -/

/-- the motion keeps the cursor inside the text: `0 ≤ cursor + m ≤ len(text)` -/
def InBounds (d : Doc) (m : Int) : Prop :=
  0 ≤ (d.cur : Int) + m ∧ (d.cur : Int) + m ≤ d.text.length

/-- the target lies between the start and the end of the current line -/
def OnLine (d : Doc) (m : Int) : Prop :=
  (d.cur : Int) - col d ≤ d.cur + m ∧ (d.cur : Int) + m ≤ (d.cur : Int) - col d + (currentLine d).length

instance (d : Doc) (m : Int) : Decidable (InBounds d m) := by unfold InBounds; infer_instance
instance (d : Doc) (m : Int) : Decidable (OnLine d m) := by unfold OnLine; infer_instance

theorem onLine_normal (h : Normal t i A m1 m2 B) (m : Int) :
    OnLine ⟨t, i⟩ m ↔ (-(m1.length : Int) ≤ m ∧ m ≤ m2.length) := by
  simp only [OnLine, h.col, h.currentLine, List.length_append]
  constructor <;> intro ⟨a, b⟩ <;> constructor <;> omega

/-- a target on the current line is inside the text **and has the same row** as the cursor
    (this is what "stays on the current line" means for all within-line motions below) -/
theorem onLine_same_row (d : Doc) (hc : d.cur ≤ d.text.length) (m : Int) (h : OnLine d m) :
    InBounds d m ∧ row ⟨d.text, ((d.cur : Int) + m).toNat⟩ = row d := by
  obtain ⟨t, i⟩ := d
  obtain ⟨A, m1, m2, B, hn⟩ := exists_normal' t i hc
  have ⟨h1, h2⟩ := (onLine_normal hn m).mp h
  have hlen := hn.length
  have hidx := hn.idx
  constructor
  · constructor <;> simp only <;> omega
  · -- the target has the normal form (A, (m1++m2).take k, (m1++m2).drop k, B)
    let k := ((m1.length : Int) + m).toNat
    have hk : k ≤ (m1 ++ m2).length := by simp only [List.length_append, k]; omega
    have hn' : Normal t ((pre A).length + k) A ((m1 ++ m2).take k) ((m1 ++ m2).drop k) B := by
      refine ⟨hn.hA, ?_, ?_, hn.hB, ?_, ?_⟩
      · intro hm; exact hn.noNL12 (List.mem_of_mem_take hm)
      · intro hm; exact hn.noNL12 (List.mem_of_mem_drop hm)
      · rw [List.append_assoc (pre A), List.take_append_drop]
        rw [hn.text]; simp
      · simp; omega
    have e : ((i : Int) + m).toNat = (pre A).length + k := by simp only [k]; omega
    simp only [e, hn'.row, hn.row]
example : OnLine ⟨['a', '\n', 'b', 'c'], 3⟩ (-1) ∧ ¬ OnLine ⟨['a', '\n', 'b', 'c'], 3⟩ (-2) := by decide

theorem rowColToIndex_le (t : Text) (r c : Int) : rowColToIndex t r c ≤ t.length := by
  unfold rowColToIndex
  simp only
  omega

/-- `get_cursor_left_position` / `get_cursor_right_position` stay on the current line (any count) -/
theorem cursorLeft_on_line (d : Doc) (hc : d.cur ≤ d.text.length) (count : Int) :
    OnLine d (cursorLeft d count) := by
  obtain ⟨t, i⟩ := d
  obtain ⟨A, m1, m2, B, h⟩ := exists_normal' t i hc
  rw [onLine_normal h]
  simp only [cursorLeft, h.col, h.lineAfter]
  split <;> omega
example : cursorLeft ⟨['a', '\n', 'b', 'c'], 3⟩ 5 = -1 := by decide

theorem cursorRight_on_line (d : Doc) (hc : d.cur ≤ d.text.length) (count : Int) :
    OnLine d (cursorRight d count) := by
  obtain ⟨t, i⟩ := d
  obtain ⟨A, m1, m2, B, h⟩ := exists_normal' t i hc
  rw [onLine_normal h]
  simp only [cursorRight, h.col, h.lineAfter]
  split <;> omega
example : cursorRight ⟨['a', 'b', '\n', 'c'], 1⟩ 5 = 1 := by decide

/-- `get_start_of_line_position(after_whitespace)` lands on the line start / stays on the line -/
theorem startOfLine_on_line (isSpace : Char → Bool) (d : Doc) (hc : d.cur ≤ d.text.length) (aw : Bool) :
    OnLine d (startOfLine isSpace d aw) ∧
    (aw = false → (d.cur : Int) + startOfLine isSpace d aw = d.cur - col d) := by
  obtain ⟨t, i⟩ := d
  obtain ⟨A, m1, m2, B, h⟩ := exists_normal' t i hc
  rw [onLine_normal h]
  have hl : (lstrip isSpace (m1 ++ m2)).length ≤ (m1 ++ m2).length :=
    (List.dropWhile_suffix _).length_le
  simp only [startOfLine, h.col, h.lineBefore, h.currentLine]
  simp only [List.length_append] at hl ⊢
  cases aw <;> simp <;> omega
example : startOfLine (· == ' ') ⟨['a', '\n', ' ', 'c'], 4⟩ true = -1 := by decide

/-- `get_end_of_line_position()` lands on the line end -/
theorem endOfLine_on_line (d : Doc) (hc : d.cur ≤ d.text.length) :
    OnLine d (endOfLine d) ∧
    (d.cur : Int) + endOfLine d = d.cur - col d + (currentLine d).length := by
  obtain ⟨t, i⟩ := d
  obtain ⟨A, m1, m2, B, h⟩ := exists_normal' t i hc
  rw [onLine_normal h]
  simp only [endOfLine, h.col, h.lineAfter, h.currentLine, List.length_append]
  omega
example : endOfLine ⟨['a', 'b', '\n', 'c'], 0⟩ = 2 := by decide

/-- `last_non_blank_of_current_line_position()` stays on the line (also on blank lines: fix 3bfb87d) -/
theorem lastNonBlank_on_line (isSpace : Char → Bool) (d : Doc) (hc : d.cur ≤ d.text.length) :
    OnLine d (lastNonBlank isSpace d) := by
  obtain ⟨t, i⟩ := d
  obtain ⟨A, m1, m2, B, h⟩ := exists_normal' t i hc
  rw [onLine_normal h]
  have hl : (rstrip isSpace (m1 ++ m2)).length ≤ (m1 ++ m2).length := by
    unfold rstrip
    rw [List.length_reverse]
    exact Nat.le_trans (List.dropWhile_suffix _).length_le (by simp [Nat.add_comm])
  rw [List.length_append] at hl
  simp only [lastNonBlank, h.col, h.currentLine]
  omega
example : lastNonBlank (· == ' ') ⟨['a', '\n', ' ', ' '], 3⟩ = -1 ∧ lastNonBlank (· == ' ') ⟨[], 0⟩ = 0 := by
  decide

theorem takeWhile_spec (p : Char → Bool) (l : Text) :
    (∀ j c, j < (l.takeWhile p).length → l[j]? = some c → p c = true) ∧
    (∀ c, l[(l.takeWhile p).length]? = some c → p c = false) ∧
    (l.takeWhile p).length + (l.dropWhile p).length = l.length := by
  induction l with
  | nil => simp
  | cons x xs ih =>
    by_cases hx : p x = true
    · simp only [List.takeWhile_cons, List.dropWhile_cons, hx, if_true, List.length_cons]
      refine ⟨?_, ?_, by omega⟩
      · intro j c hj hc
        cases j with
        | zero => simp at hc; subst hc; exact hx
        | succ j => exact ih.1 j c (by omega) (by simpa using hc)
      · intro c hc; exact ih.2.1 c (by simpa using hc)
    · simp only [List.takeWhile_cons, List.dropWhile_cons, hx]
      refine ⟨by intro j c hj; simp at hj, ?_, by simp⟩
      intro c hc; simp at hc; subst hc; simpa using hx

/-- `get_start_of_line_position(after_whitespace=True)` lands on the first non-blank column of the
    line: only blanks before the target, no blank at the target -/
theorem startOfLine_afterWs_lands (isSpace : Char → Bool) (d : Doc) :
    ∃ k : Nat, (col d : Int) + startOfLine isSpace d true = k ∧
      (∀ (j : Nat) (c : Char), j < k → (currentLine d)[j]? = some c → isSpace c = true) ∧
      (∀ c, (currentLine d)[k]? = some c → isSpace c = false) := by
  obtain ⟨h1, h2, h3⟩ := takeWhile_spec isSpace (currentLine d)
  refine ⟨((currentLine d).takeWhile isSpace).length, ?_, h1, h2⟩
  simp only [startOfLine, lstrip, if_true]
  omega
example : startOfLine (· == ' ') ⟨[' ', ' ', 'a', ' '], 4⟩ true = -2 := by decide

/-- `last_non_blank_of_current_line_position()` lands on the last non-blank character of the
    line (only blanks after it); on a blank line it goes to column 0 -/
theorem lastNonBlank_lands (isSpace : Char → Bool) (d : Doc) :
    ∃ k : Nat, (col d : Int) + lastNonBlank isSpace d = k ∧
      (∀ (j : Nat) (c : Char), k < j → (currentLine d)[j]? = some c → isSpace c = true) ∧
      ((∃ c, (currentLine d)[k]? = some c ∧ isSpace c = false) ∨
       (k = 0 ∧ ∀ (j : Nat) (c : Char), (currentLine d)[j]? = some c → isSpace c = true)) := by
  generalize hl : currentLine d = l
  obtain ⟨h1, h2, h3⟩ := takeWhile_spec isSpace l.reverse
  -- n = length of the line without its trailing blanks
  have hn : (rstrip isSpace l).length = l.length - (l.reverse.takeWhile isSpace).length := by
    simp only [rstrip, List.length_reverse] at h3 ⊢; omega
  have hle : (l.reverse.takeWhile isSpace).length ≤ l.length := by
    simp only [List.length_reverse] at h3; omega
  -- trailing characters are blanks
  have htrail : ∀ j c, l.length - (l.reverse.takeWhile isSpace).length ≤ j → l[j]? = some c →
      isSpace c = true := by
    intro j c hj hc
    have hjl : j < l.length := by
      rcases Nat.lt_or_ge j l.length with h | h
      · exact h
      · rw [List.getElem?_eq_none h] at hc; cases hc
    apply h1 (l.length - 1 - j) c (by omega)
    rw [List.getElem?_reverse (by omega)]
    have : l.length - 1 - (l.length - 1 - j) = j := by omega
    rw [this]; exact hc
  -- the character before them is not
  have hlast : ∀ c, 0 < l.length - (l.reverse.takeWhile isSpace).length →
      l[l.length - (l.reverse.takeWhile isSpace).length - 1]? = some c → isSpace c = false := by
    intro c hpos hc
    apply h2 c
    rw [List.getElem?_reverse (by omega)]
    have : l.length - 1 - (l.reverse.takeWhile isSpace).length =
        l.length - (l.reverse.takeWhile isSpace).length - 1 := by omega
    rw [this]; exact hc
  refine ⟨l.length - (l.reverse.takeWhile isSpace).length - 1, ?_, ?_, ?_⟩
  · simp only [lastNonBlank, hl, hn]; omega
  · intro j c hj hc; exact htrail j c (by omega) hc
  · rcases Nat.eq_zero_or_pos (l.length - (l.reverse.takeWhile isSpace).length) with h0 | hpos
    · right
      exact ⟨by omega, fun j c hc => htrail j c (by omega) hc⟩
    · left
      have hlt : l.length - (l.reverse.takeWhile isSpace).length - 1 < l.length := by omega
      exact ⟨l[l.length - (l.reverse.takeWhile isSpace).length - 1], List.getElem?_eq_getElem hlt,
        hlast _ hpos (List.getElem?_eq_getElem hlt)⟩
example : lastNonBlank (· == ' ') ⟨['a', 'b', ' ', ' '], 0⟩ = 1 := by decide

/-- `get_column_cursor_position(column)` lands on column `clamp(column, 0, len(line))` of the line -/
theorem columnPos_on_line (d : Doc) (hc : d.cur ≤ d.text.length) (column : Int) :
    OnLine d (columnPos d column) ∧
    (col d : Int) + columnPos d column = max 0 (min ((currentLine d).length : Int) column) := by
  obtain ⟨t, i⟩ := d
  obtain ⟨A, m1, m2, B, h⟩ := exists_normal' t i hc
  rw [onLine_normal h]
  simp only [columnPos, h.col, h.currentLine, List.length_append]
  omega
example : columnPos ⟨['a', 'b', '\n', 'c'], 0⟩ 7 = 2 := by decide

/-- `get_cursor_up_position` / `get_cursor_down_position` stay inside the text (any count, any
    preferred column) -/
theorem cursorUp_in_bounds (d : Doc) (count : Int) (pref : Option Int) : InBounds d (cursorUp d count pref) := by
  simp only [InBounds, cursorUp]
  generalize hx : rowColToIndex d.text _ _ = x
  have : x ≤ d.text.length := hx ▸ rowColToIndex_le _ _ _
  omega
theorem cursorDown_in_bounds (d : Doc) (count : Int) (pref : Option Int) :
    InBounds d (cursorDown d count pref) := by
  simp only [InBounds, cursorDown]
  generalize hx : rowColToIndex d.text _ _ = x
  have : x ≤ d.text.length := hx ▸ rowColToIndex_le _ _ _
  omega
example : cursorUp ⟨['a', 'b', '\n', 'c'], 3⟩ 1 none = -3 ∧ cursorDown ⟨['a', 'b', '\n', 'c'], 1⟩ 4 none = 3 := by
  decide

/-- start / end of document -/
theorem document_ends_in_bounds (d : Doc) :
    (d.cur : Int) + startOfDocument d = 0 ∧ (d.cur : Int) + endOfDocument d = d.text.length := by
  simp only [startOfDocument, endOfDocument]; omega
example : endOfDocument ⟨['a', 'b'], 1⟩ = 1 := by decide

/-- `start_of_paragraph` / `end_of_paragraph` stay inside the text and never move the wrong way -/
theorem paragraph_in_bounds (isSpace : Char → Bool) (d : Doc) (hc : d.cur ≤ d.text.length)
    (count : Int) (flag : Bool) :
    InBounds d (startOfParagraph isSpace d count flag) ∧ startOfParagraph isSpace d count flag ≤ 0 ∧
    InBounds d (endOfParagraph isSpace d count flag) ∧ 0 ≤ endOfParagraph isSpace d count flag := by
  have hup := fun c p => cursorUp_in_bounds d c p
  have hdn := fun c p => cursorDown_in_bounds d c p
  simp only [InBounds] at hup hdn ⊢
  simp only [startOfParagraph, endOfParagraph, Doc.after, List.length_drop]
  refine ⟨?_, ?_, ?_, ?_⟩
  all_goals
    split
    · split
      · rename_i li _ _
        have a := hup (-li) none
        have b := hdn li none
        cases flag <;> simp <;> omega
      · omega
    · omega
example : startOfParagraph (· == ' ') ⟨['a', '\n', '\n', 'b', '\n', 'c'], 5⟩ 1 false = -2 ∧
    endOfParagraph (· == ' ') ⟨['a', '\n', '\n', 'b'], 0⟩ 1 false = 1 := by decide

/-! ## 3. find / find_backwards land on a real occurrence -/

theorem find_aux (eq : Char → Char → Bool) (sub text : Text) (incl : Bool) (count : Int) (r : Int)
    (h : findIn eq text sub incl count = some r) :
    ∃ n : Nat, r = n ∧ (if incl = true then 0 else 1) ≤ n ∧ n + sub.length ≤ text.length ∧ 1 ≤ count ∧
      matchAt eq sub (text.drop n) = true := by
  unfold findIn at h
  cases incl with
  | false =>
    simp only [Bool.not_false, if_true] at h
    split at h
    · cases h
    · rename_i hne
      obtain ⟨s, hs, rfl⟩ := Option.map_eq_some_iff.mp h
      have ⟨h1, h2⟩ := finditer_sound eq sub _ s (nth_mem hs)
      have hc := (nth_index hs).1
      simp only [List.length_drop] at h1
      have hpos : 0 < text.length := by
        cases text with
        | nil => simp at hne
        | cons _ _ => simp
      refine ⟨s + 1, by simp, by simp, by omega, hc, ?_⟩
      rw [List.drop_drop] at h2
      rw [Nat.add_comm]; exact h2
  | true =>
    simp only [Bool.not_true, Bool.false_eq_true, if_false] at h
    obtain ⟨s, hs, rfl⟩ := Option.map_eq_some_iff.mp h
    have ⟨h1, h2⟩ := finditer_sound eq sub _ s (nth_mem hs)
    exact ⟨s, rfl, by simp, h1, (nth_index hs).1, h2⟩

/-- **`find` lands on what it names**: a reported offset `r` is at/after the start point, the
    needle occurs at `cursor + r` (character equality `eq`, e.g. case-insensitive), the whole
    occurrence lies inside the text, and with `in_current_line` inside the current line. -/
theorem find_sound (eq : Char → Char → Bool) (d : Doc) (hc : d.cur ≤ d.text.length) (sub : Text)
    (inLine incl : Bool) (count r : Int) (h : find eq d sub inLine incl count = some r) :
    (if incl = true then 0 else 1) ≤ r ∧ 1 ≤ count ∧
    (d.cur : Int) + r + sub.length ≤ d.text.length ∧
    (inLine = true → OnLine d r ∧ OnLine d (r + sub.length)) ∧
    matchAt eq sub (d.text.drop (d.cur + r.toNat)) = true := by
  obtain ⟨t, i⟩ := d
  simp only at hc ⊢
  obtain ⟨A, m1, m2, B, hn⟩ := exists_normal' t i hc
  have hlen := hn.length
  have hidx := hn.idx
  have hdrop : ∀ n, t.drop (i + n) = (m2 ++ post B).drop n := by
    intro n; rw [← hn.drop, List.drop_drop]
  cases inLine with
  | true =>
    have h' : _ := find_aux eq sub m2 incl count r (by simpa [find, hn.lineAfter] using h)
    obtain ⟨n, rfl, h1, h2, h3, h4⟩ := h'
    refine ⟨by cases incl <;> simp at h1 ⊢ <;> omega, h3, by omega, ?_, ?_⟩
    · intro _
      rw [onLine_normal hn, onLine_normal hn]
      constructor <;> constructor <;> omega
    · simp only [Int.toNat_natCast, hdrop]
      rw [List.drop_append_of_le_length (by omega)]
      exact matchAt_append _ h4
  | false =>
    have h' : _ := find_aux eq sub (m2 ++ post B) incl count r
      (by simpa [find, Doc.after, hn.drop] using h)
    obtain ⟨n, rfl, h1, h2, h3, h4⟩ := h'
    simp only [List.length_append] at h2
    refine ⟨by cases incl <;> simp at h1 ⊢ <;> omega, h3, by omega, by simp, ?_⟩
    simp only [Int.toNat_natCast, hdrop]
    exact h4
example : find (· == ·) ⟨['a', 'b', 'a', 'b'], 0⟩ ['a', 'b'] false false 1 = some 2 ∧
    find (· == ·) ⟨['a', 'b', 'a', 'b'], 0⟩ ['a', 'b'] false true 2 = some 2 := by decide

/-- **`find` (count = 1) reports the nearest occurrence, and `None` only when there is none**:
    in the searched text (the rest of the line / of the document, from the start point on) the
    needle matches at no offset before the reported one; and if nothing is reported it matches
    nowhere. -/
theorem findIn_nearest (eq : Char → Char → Bool) (text sub : Text) (incl : Bool) :
    (∀ r : Int, findIn eq text sub incl 1 = some r →
        ∀ q : Nat, (if incl = true then 0 else 1) ≤ q → (q : Int) < r →
          matchAt eq sub (text.drop q) = false) ∧
    (findIn eq text sub incl 1 = none →
        ∀ q : Nat, (if incl = true then 0 else 1) ≤ q → q ≤ text.length →
          matchAt eq sub (text.drop q) = false) := by
  have hnth : ∀ ms : List Nat, nth ms 1 = ms[0]? := by intro ms; simp [nth]
  cases incl with
  | true =>
    obtain ⟨h1, h2⟩ := finditer_first eq sub text
    simp only [findIn, Bool.not_true, Bool.false_eq_true, if_false, hnth]
    constructor
    · intro r hr q _ hq
      obtain ⟨s, hs, rfl⟩ := Option.map_eq_some_iff.mp hr
      exact h1 s hs q (by omega)
    · intro hr q _ hq
      have : finditer eq sub text = [] := by
        cases hl : finditer eq sub text with
        | nil => rfl
        | cons a as => rw [hl] at hr; simp at hr
      exact h2 this q hq
  | false =>
    obtain ⟨h1, h2⟩ := finditer_first eq sub (text.drop 1)
    simp only [findIn, Bool.not_false, if_true, hnth, Bool.false_eq_true, if_false]
    constructor
    · intro r hr q hq1 hq
      split at hr
      · cases hr
      · obtain ⟨s, hs, rfl⟩ := Option.map_eq_some_iff.mp hr
        have := h1 s hs (q - 1) (by omega)
        rw [List.drop_drop] at this
        have e : 1 + (q - 1) = q := by omega
        rw [e] at this; exact this
    · intro hr q hq1 hq
      split at hr
      · rename_i hemp
        have : text = [] := by simpa using hemp
        rw [this] at hq; simp at hq; omega
      · have hnil : finditer eq sub (text.drop 1) = [] := by
          cases hl : finditer eq sub (text.drop 1) with
          | nil => rfl
          | cons a as => rw [hl] at hr; simp at hr
        have := h2 hnil (q - 1) (by simp only [List.length_drop]; omega)
        rw [List.drop_drop] at this
        have e : 1 + (q - 1) = q := by omega
        rw [e] at this; exact this

theorem find_nearest (eq : Char → Char → Bool) (d : Doc) (sub : Text) (inLine incl : Bool) :
    let text := if inLine = true then lineAfter d else d.after
    (∀ r : Int, find eq d sub inLine incl 1 = some r →
        ∀ q : Nat, (if incl = true then 0 else 1) ≤ q → (q : Int) < r →
          matchAt eq sub (text.drop q) = false) ∧
    (find eq d sub inLine incl 1 = none →
        ∀ q : Nat, (if incl = true then 0 else 1) ≤ q → q ≤ text.length →
          matchAt eq sub (text.drop q) = false) :=
  findIn_nearest eq _ sub incl
example : find (· == ·) ⟨['a', 'b', 'a', 'b'], 0⟩ ['b'] false false 1 = some 1 ∧
    find (· == ·) ⟨['a', 'b', 'a', 'b'], 0⟩ ['c'] false true 1 = none := by decide

/-- **`find_backwards` lands on what it names**: the needle occurs at `cursor + r`, entirely
    before the cursor (and inside the current line with `in_current_line`). -/
theorem findBackwards_sound (eq : Char → Char → Bool) (d : Doc) (hc : d.cur ≤ d.text.length)
    (sub : Text) (inLine : Bool) (count r : Int) (h : findBackwards eq d sub inLine count = some r) :
    0 ≤ (d.cur : Int) + r ∧ r + sub.length ≤ 0 ∧ 1 ≤ count ∧
    (inLine = true → OnLine d r ∧ OnLine d (r + sub.length)) ∧
    matchAt eq sub (d.text.drop ((d.cur : Int) + r).toNat) = true := by
  obtain ⟨t, i⟩ := d
  simp only at hc ⊢
  obtain ⟨A, m1, m2, B, hn⟩ := exists_normal' t i hc
  have hlen := hn.length
  have hidx := hn.idx
  -- `x` is the searched part of the text before the cursor, `y` what precedes it
  have key : ∀ (x y : Text), t.take i = y ++ x →
      (nth (finditer eq sub.reverse x.reverse) count).map (fun (s : Nat) => -(s : Int) - sub.length) = some r →
      -(x.length : Int) ≤ r ∧ r + sub.length ≤ 0 ∧ 1 ≤ count ∧
      matchAt eq sub (t.drop ((i : Int) + r).toNat) = true := by
    intro x y hxy hr
    obtain ⟨s, hs, rfl⟩ := Option.map_eq_some_iff.mp hr
    have ⟨h1, h2⟩ := finditer_sound eq _ _ s (nth_mem hs)
    simp only [List.length_reverse] at h1
    have h3 := matchAt_reverse h1 h2
    refine ⟨by omega, by omega, (nth_index hs).1, ?_⟩
    have hi : i = y.length + x.length := by
      have := congrArg List.length hxy
      simp at this; omega
    have ht : t = y ++ x ++ t.drop i := by rw [← hxy, List.take_append_drop]
    have e : ((i : Int) + (-(s : Int) - sub.length)).toNat = y.length + (x.length - s - sub.length) := by omega
    rw [e]
    have e3 : ∀ N, t.drop N = (y ++ (x ++ t.drop i)).drop N := by
      intro N; rw [← List.append_assoc, ← ht]
    rw [e3, List.drop_append, List.drop_eq_nil_of_le (by omega), List.nil_append]
    have e2 : y.length + (x.length - s - sub.length) - y.length = x.length - s - sub.length := by omega
    rw [e2, List.drop_append_of_le_length (by omega)]
    exact matchAt_append _ h3
  cases inLine with
  | true =>
    have hk := key m1 (pre A) hn.take (by simpa [findBackwards, hn.lineBefore] using h)
    obtain ⟨k1, k2, k3, k4⟩ := hk
    refine ⟨by omega, k2, k3, ?_, k4⟩
    intro _
    rw [onLine_normal hn, onLine_normal hn]
    constructor <;> constructor <;> omega
  | false =>
    have hk := key (t.take i) [] (by simp) (by simpa [findBackwards, Doc.before] using h)
    obtain ⟨k1, k2, k3, k4⟩ := hk
    simp only [List.length_take] at k1
    exact ⟨by omega, k2, k3, by simp, k4⟩
example : findBackwards (· == ·) ⟨['a', 'b', 'a', 'b'], 4⟩ ['a', 'b'] false 2 = some (-4) := by decide

/-! ## 4. brackets land on the partner and enclose a balanced interior -/

/-- the text strictly between indexes `a < b` : `text[a+1 : b]` -/
def interior (t : Text) (a b : Nat) : Text := (t.drop (a + 1)).take (b - a - 1)

theorem currentChar_eq (d : Doc) : currentChar d = d.text[d.cur]? := by
  simp [currentChar, charRel]
  omega

/-- **`find_enclosing_bracket_right`**: the reported offset points at `right_ch`, at or after the
    cursor, and the text strictly between cursor and target contains as many `left_ch` as
    `right_ch` (for distinct bracket characters). -/
theorem enclosingRight_sound (d : Doc) (l r : Char) (hne : l ≠ r) (endPos : Option Int) (m : Int)
    (h : enclosingRight d l r endPos = some m) :
    0 ≤ m ∧ d.text[d.cur + m.toNat]? = some r ∧
    (interior d.text d.cur (d.cur + m.toNat)).count l = (interior d.text d.cur (d.cur + m.toNat)).count r := by
  simp only [enclosingRight] at h
  split at h
  · rename_i hcc
    cases h
    rw [currentChar_eq] at hcc
    simp [hcc, interior]
  · obtain ⟨j, hj, rfl⟩ := Option.map_eq_some_iff.mp h
    generalize (endLimit d.text.length endPos).toNat = e at hj
    obtain ⟨n, hn0, hn, hbal, _⟩ := walk_spec l r hne 1 (by omega) 0 _ j hj
    have hjn : j = n := by omega
    subst hjn
    rw [List.getElem?_drop, List.getElem?_take] at hn
    have hlt : d.cur + 1 + j < e := by
      rcases Nat.lt_or_ge (d.cur + 1 + j) e with h | h
      · exact h
      · simp only [Nat.not_lt.mpr h, if_false] at hn; cases hn
    simp only [hlt, if_true] at hn
    refine ⟨by omega, ?_, ?_⟩
    · have : d.cur + ((j : Int) + 1).toNat = d.cur + 1 + j := by omega
      rw [this]; exact hn
    · have hseg : ((d.text.take e).drop (d.cur + 1)).take j = interior d.text d.cur (d.cur + ((j : Int) + 1).toNat) := by
        unfold interior
        rw [List.drop_take, List.take_take]
        congr 1
        omega
      rw [hseg] at hbal
      omega
example : enclosingRight ⟨['(', 'a', '(', ')', ')'], 1⟩ '(' ')' none = some 3 := by decide

/-- **`find_enclosing_bracket_left`**: same, looking backwards. -/
theorem enclosingLeft_sound (d : Doc) (hc : d.cur ≤ d.text.length) (l r : Char) (hne : l ≠ r)
    (startPos : Option Int) (m : Int) (h : enclosingLeft d l r startPos = some m) :
    m ≤ 0 ∧ 0 ≤ (d.cur : Int) + m ∧ d.text[((d.cur : Int) + m).toNat]? = some l ∧
    (interior d.text ((d.cur : Int) + m).toNat d.cur).count l =
      (interior d.text ((d.cur : Int) + m).toNat d.cur).count r := by
  simp only [enclosingLeft] at h
  split at h
  · rename_i hcc
    cases h
    rw [currentChar_eq] at hcc
    simp [hcc, interior]
  · obtain ⟨j, hj, rfl⟩ := Option.map_eq_some_iff.mp h
    generalize (startLimit startPos).toNat = s at hj
    obtain ⟨n, hn0, hn, hbal, _⟩ := walk_spec r l (fun e => hne e.symm) 1 (by omega) 0 _ j hj
    have hjn : j = n := by omega
    subst hjn
    -- X = text[s : cur]
    have hXlen : ((d.text.take d.cur).drop s).length = d.cur - s := by
      simp; omega
    have hjX : j < d.cur - s := by
      rcases Nat.lt_or_ge j (d.cur - s) with h | h
      · exact h
      · rw [List.getElem?_eq_none (by simp; omega)] at hn; cases hn
    rw [List.getElem?_reverse (by omega), hXlen, List.getElem?_drop, List.getElem?_take] at hn
    have e1 : s + (d.cur - s - 1 - j) = d.cur - 1 - j := by omega
    rw [e1] at hn
    have hlt : d.cur - 1 - j < d.cur := by omega
    simp only [hlt, if_true] at hn
    have e2 : ((d.cur : Int) + -((j : Int) + 1)).toNat = d.cur - 1 - j := by omega
    refine ⟨by omega, by omega, by rw [e2]; exact hn, ?_⟩
    rw [e2]
    have hseg : (((d.text.take d.cur).drop s).reverse.take j).reverse = interior d.text (d.cur - 1 - j) d.cur := by
      unfold interior
      rw [List.take_reverse, List.reverse_reverse, hXlen, List.drop_drop, List.drop_take]
      have a : s + (d.cur - s - j) = d.cur - j := by omega
      have b : d.cur - 1 - j + 1 = d.cur - j := by omega
      have c : d.cur - (d.cur - 1 - j) - 1 = j := by omega
      have c' : d.cur - (d.cur - j) = j := by omega
      rw [a, b, c, c']
    have hb := hbal
    rw [← List.count_reverse (l := List.take j _), ← List.count_reverse (l := List.take j _) (a := l), hseg] at hb
    omega
example : enclosingLeft ⟨['(', 'a', '(', ')', 'b'], 4⟩ '(' ')' none = some (-4) := by decide

theorem bracketPairs_ne : ∀ p ∈ bracketPairs, p.1 ≠ p.2 := by decide

/-- **`find_matching_bracket_position`**: a non-zero offset points from one bracket of a pair to
    its partner (right partner after, left partner before the cursor), inside the text, with a
    balanced interior. -/
theorem matchingBracket_sound (d : Doc) (hc : d.cur ≤ d.text.length) (startPos endPos : Option Int)
    (hm : matchingBracket d startPos endPos ≠ 0) :
    let m := matchingBracket d startPos endPos
    InBounds d m ∧ ∃ p ∈ bracketPairs,
      (0 < m ∧ d.text[d.cur]? = some p.1 ∧ d.text[d.cur + m.toNat]? = some p.2 ∧
        (interior d.text d.cur (d.cur + m.toNat)).count p.1 =
          (interior d.text d.cur (d.cur + m.toNat)).count p.2) ∨
      (m < 0 ∧ d.text[d.cur]? = some p.2 ∧ d.text[((d.cur : Int) + m).toNat]? = some p.1 ∧
        (interior d.text ((d.cur : Int) + m).toNat d.cur).count p.1 =
          (interior d.text ((d.cur : Int) + m).toNat d.cur).count p.2) := by
  intro m
  have key : ∀ ps : List (Char × Char), (∀ p ∈ ps, p.1 ≠ p.2) → matchingGo d startPos endPos ps ≠ 0 →
      InBounds d (matchingGo d startPos endPos ps) ∧ ∃ p ∈ ps,
      (0 < matchingGo d startPos endPos ps ∧ d.text[d.cur]? = some p.1 ∧
        d.text[d.cur + (matchingGo d startPos endPos ps).toNat]? = some p.2 ∧
        (interior d.text d.cur (d.cur + (matchingGo d startPos endPos ps).toNat)).count p.1 =
          (interior d.text d.cur (d.cur + (matchingGo d startPos endPos ps).toNat)).count p.2) ∨
      (matchingGo d startPos endPos ps < 0 ∧ d.text[d.cur]? = some p.2 ∧
        d.text[((d.cur : Int) + matchingGo d startPos endPos ps).toNat]? = some p.1 ∧
        (interior d.text ((d.cur : Int) + matchingGo d startPos endPos ps).toNat d.cur).count p.1 =
          (interior d.text ((d.cur : Int) + matchingGo d startPos endPos ps).toNat d.cur).count p.2) := by
    intro ps
    induction ps with
    | nil => intro _ h; simp [matchingGo] at h
    | cons p ps ih =>
      obtain ⟨a, b⟩ := p
      intro hne hnz
      have hab : a ≠ b := hne (a, b) (by simp)
      simp only [matchingGo] at hnz ⊢
      split
      · rename_i hca
        simp only [hca, if_true] at hnz
        cases hr : enclosingRight d a b endPos with
        | none => simp [hr] at hnz
        | some v =>
          simp only [hr, Option.getD_some] at hnz ⊢
          obtain ⟨h1, h2, h3⟩ := enclosingRight_sound d a b hab endPos v hr
          have hlt : d.cur + v.toNat < d.text.length := by
            rcases Nat.lt_or_ge (d.cur + v.toNat) d.text.length with h | h
            · exact h
            · rw [List.getElem?_eq_none h] at h2; cases h2
          refine ⟨⟨by omega, by omega⟩, (a, b), by simp, Or.inl ⟨by omega, ?_, h2, h3⟩⟩
          rw [← currentChar_eq]; exact hca
      · rename_i hca
        simp only [hca, if_false] at hnz
        split
        · rename_i hcb
          simp only [hcb, if_true] at hnz
          cases hr : enclosingLeft d a b startPos with
          | none => simp [hr] at hnz
          | some v =>
            simp only [hr, Option.getD_some] at hnz ⊢
            obtain ⟨h1, h2, h3, h4⟩ := enclosingLeft_sound d hc a b hab startPos v hr
            refine ⟨⟨by omega, by omega⟩, (a, b), by simp, Or.inr ⟨by omega, ?_, h3, h4⟩⟩
            rw [← currentChar_eq]; exact hcb
        · rename_i hcb
          simp only [hcb, if_false] at hnz
          obtain ⟨hb, p, hp, hor⟩ := ih (fun p hp => hne p (by simp [hp])) hnz
          exact ⟨hb, p, by simp [hp], hor⟩
  exact key bracketPairs bracketPairs_ne hm
example : matchingBracket ⟨['[', '(', ')', ']'], 0⟩ none none = 3 ∧
    matchingBracket ⟨['[', '(', ')', ']'], 3⟩ none none = -3 := by decide

/-! ## 5. word / WORD motions land on word boundaries -/

/-- index `p` is the first character of a word: it has a non-blank class and the character
    before it (if any) has a different class -/
def IsWordStart (cl : Char → Nat) (T : Text) (p : Nat) : Prop :=
  ∃ k, k ≠ 0 ∧ clsAt cl T p = some k ∧ (p = 0 ∨ clsAt cl T (p - 1) ≠ some k)

/-- index `p` is the (exclusive) end of a word: the character before it has a non-blank class and
    the character at `p` (if any) has a different class -/
def IsWordEnd (cl : Char → Nat) (T : Text) (p : Nat) : Prop :=
  ∃ k, k ≠ 0 ∧ 1 ≤ p ∧ clsAt cl T (p - 1) = some k ∧ clsAt cl T p ≠ some k

theorem clsAt_some_lt {cl : Char → Nat} {T : Text} {j k : Nat} (h : clsAt cl T j = some k) :
    j < T.length := by
  rcases Nat.lt_or_ge j T.length with h' | h'
  · exact h'
  · simp [clsAt, List.getElem?_eq_none h'] at h

theorem IsWordStart.lt {cl : Char → Nat} {T : Text} {p : Nat} (h : IsWordStart cl T p) : p < T.length := by
  obtain ⟨k, _, hk, _⟩ := h; exact clsAt_some_lt hk

theorem IsWordEnd.le {cl : Char → Nat} {T : Text} {p : Nat} (h : IsWordEnd cl T p) :
    1 ≤ p ∧ p ≤ T.length := by
  obtain ⟨k, _, h1, hk, _⟩ := h
  have := clsAt_some_lt hk; omega

/-- classes of the reversed text before the cursor -/
theorem clsAt_rev_take (cl : Char → Nat) (T : Text) (c : Nat) (hc : c ≤ T.length) (j : Nat) :
    clsAt cl (T.take c).reverse j = if j < c then clsAt cl T (c - 1 - j) else none := by
  have hl : (T.take c).length = c := by simp; omega
  split
  · rename_i hj
    simp only [clsAt]
    rw [List.getElem?_reverse (by omega), hl, List.getElem?_take_of_lt (by omega)]
  · rename_i hj
    simp only [clsAt]
    rw [List.getElem?_eq_none (by simp; omega)]; rfl

/-- **`find_next_word_beginning`** (count ≥ 1): moves forward onto the first character of a word -/
theorem nextWordBeginning_lands (sp : Char → Bool) (d : Doc) (count : Int) (WORD : Bool) (r : Int)
    (hcount : 1 ≤ count) (h : nextWordBeginningPos sp d count WORD = some r) :
    1 ≤ r ∧ IsWordStart (cls sp WORD) d.text (d.cur + r.toNat) := by
  simp only [nextWordBeginningPos] at h
  obtain ⟨p, hp, rfl⟩ := Option.map_eq_some_iff.mp h
  have hpos := nth_adjust_pos _ _ count hcount p hp
  obtain ⟨_, k, hk, hall, hleft, _⟩ := runs_spec _ _ p (nth_mem hp)
  refine ⟨by omega, k, hk, ?_, Or.inr ?_⟩
  · have := hall p.1 (Nat.le_refl _) (by omega)
    rw [Doc.after, clsAt_drop] at this
    simpa using this
  · rcases hleft with h0 | hl
    · omega
    · rw [Doc.after, clsAt_drop] at hl
      have e : d.cur + (p.1 : Int).toNat - 1 = d.cur + (p.1 - 1) := by omega
      rw [e]; exact hl
example : nextWordBeginningPos (· == ' ') ⟨['a', 'b', ' ', 'c'], 0⟩ 1 false = some 3 := by decide

/-- **`find_next_word_ending`** (count ≥ 1): moves forward onto the end of a word -/
theorem nextWordEnding_lands (sp : Char → Bool) (d : Doc) (incl : Bool) (count : Int) (WORD : Bool)
    (r : Int) (h : nextWordEndingPos sp d incl count WORD = some r) :
    1 ≤ r ∧ 1 ≤ count ∧ IsWordEnd (cls sp WORD) d.text (d.cur + r.toNat) := by
  simp only [nextWordEndingPos] at h
  obtain ⟨p, hp, rfl⟩ := Option.map_eq_some_iff.mp h
  obtain ⟨hlt, k, hk, hall, _, hright⟩ := runs_spec _ _ p (nth_mem hp)
  have hc := (nth_index hp).1
  cases incl with
  | true =>
    simp only [if_true] at hp hall hright ⊢
    refine ⟨by omega, hc, k, hk, by omega, ?_, ?_⟩
    · have := hall (p.2 - 1) (by omega) (by omega)
      rw [Doc.after, clsAt_drop] at this
      have e : d.cur + (p.2 : Int).toNat - 1 = d.cur + (p.2 - 1) := by omega
      rw [e]; exact this
    · rw [Doc.after, clsAt_drop] at hright
      simpa using hright
  | false =>
    simp only [Bool.false_eq_true, if_false] at hp hall hright ⊢
    refine ⟨by omega, hc, k, hk, by omega, ?_, ?_⟩
    · have := hall (p.2 - 1) (by omega) (by omega)
      rw [Doc.after, List.drop_drop, clsAt_drop] at this
      have e : d.cur + ((p.2 : Int) + 1).toNat - 1 = d.cur + 1 + (p.2 - 1) := by omega
      rw [e]; exact this
    · rw [Doc.after, List.drop_drop, clsAt_drop] at hright
      have e : d.cur + ((p.2 : Int) + 1).toNat = d.cur + 1 + p.2 := by omega
      rw [e]; exact hright
example : nextWordEndingPos (· == ' ') ⟨['a', 'b', ' ', 'c'], 0⟩ false 1 false = some 2 := by decide

/-- **`find_previous_word_beginning`** and **`find_start_of_previous_word`**: move backwards onto
    the first character of a word -/
theorem prevWordBeginning_lands (sp : Char → Bool) (d : Doc) (hc : d.cur ≤ d.text.length) (count : Int)
    (WORD : Bool) (r : Int)
    (h : prevWordBeginningPos sp d count WORD = some r ∨ findStartOfPreviousWord sp d count WORD = some r) :
    r ≤ -1 ∧ 0 ≤ (d.cur : Int) + r ∧ 1 ≤ count ∧
    IsWordStart (cls sp WORD) d.text ((d.cur : Int) + r).toNat := by
  have h' : (nth (runs (cls sp WORD) d.before.reverse) count).map (fun (r : Nat × Nat) => -(r.2 : Int)) = some r := by
    rcases h with h | h
    · simpa [prevWordBeginningPos] using h
    · simpa [findStartOfPreviousWord] using h
  obtain ⟨p, hp, rfl⟩ := Option.map_eq_some_iff.mp h'
  obtain ⟨hlt, k, hk, hall, _, hright⟩ := runs_spec _ _ p (nth_mem hp)
  have hcount := (nth_index hp).1
  simp only [Doc.before] at hall hright
  -- the last character of the run exists in the reversed text, so `p.2 ≤ cur`
  have hlast := hall (p.2 - 1) (by omega) (by omega)
  rw [clsAt_rev_take _ _ _ hc] at hlast
  have hle : p.2 - 1 < d.cur := by
    rcases Nat.lt_or_ge (p.2 - 1) d.cur with h | h
    · exact h
    · simp [Nat.not_lt.mpr h] at hlast
  simp only [hle, if_true] at hlast
  have e1 : ((d.cur : Int) + -(p.2 : Int)).toNat = d.cur - p.2 := by omega
  refine ⟨by omega, by omega, hcount, k, hk, ?_, ?_⟩
  · rw [e1]
    have : d.cur - 1 - (p.2 - 1) = d.cur - p.2 := by omega
    rw [this] at hlast; exact hlast
  · rw [e1]
    rw [clsAt_rev_take _ _ _ hc] at hright
    rcases Nat.lt_or_ge p.2 d.cur with hlt2 | hge
    · right
      simp only [hlt2, if_true] at hright
      have : d.cur - 1 - p.2 = d.cur - p.2 - 1 := by omega
      rw [this] at hright; exact hright
    · left; omega
example : prevWordBeginningPos (· == ' ') ⟨['a', 'b', ' ', 'c'], 4⟩ 2 false = some (-4) := by decide

/-- classes of the string scanned by `find_previous_word_ending` when there is a character under
    the cursor -/
theorem clsAt_prevEnding (cl : Char → Nat) (T : Text) (c : Nat) (hc : c < T.length) (j : Nat) :
    clsAt cl ((T.drop c).take 1 ++ (T.take c).reverse) j = if j ≤ c then clsAt cl T (c - j) else none := by
  have h1 : (T.drop c).take 1 = [T[c]] := by
    rw [List.drop_eq_getElem_cons hc]; rfl
  rw [h1]
  cases j with
  | zero => simp [clsAt, List.getElem?_eq_getElem hc]
  | succ j =>
    have : clsAt cl ([T[c]] ++ (T.take c).reverse) (j + 1) = clsAt cl (T.take c).reverse j := by
      simp [clsAt]
    rw [this, clsAt_rev_take _ _ _ (by omega)]
    have hiff : (j + 1 ≤ c) ↔ (j < c) := by omega
    simp only [hiff]
    split
    · congr 1; omega
    · rfl

/-- **`find_previous_word_ending`** (count ≥ 1, a character under the cursor): moves backwards onto
    the end of a word.  *Partial*: the full statement (all cursors) is false at
    `cursor == len(text)` — see `prevWordEnding_defect`. -/
theorem prevWordEnding_lands_partial (sp : Char → Bool) (d : Doc) (hc : d.cur < d.text.length)
    (count : Int) (hcount : 1 ≤ count) (WORD : Bool) (r : Int)
    (h : prevWordEndingPos sp d count WORD = some r) :
    r ≤ 0 ∧ IsWordEnd (cls sp WORD) d.text ((d.cur : Int) + r).toNat := by
  simp only [prevWordEndingPos] at h
  obtain ⟨p, hp, rfl⟩ := Option.map_eq_some_iff.mp h
  have hpos := nth_adjust_pos _ _ count hcount p hp
  obtain ⟨hlt, k, hk, hall, hleft, _⟩ := runs_spec _ _ p (nth_mem hp)
  simp only [Doc.after, Doc.before] at hall hleft
  have hfirst := hall p.1 (Nat.le_refl _) hlt
  rw [clsAt_prevEnding _ _ _ hc] at hfirst
  have hle : p.1 ≤ d.cur := by
    rcases Nat.lt_or_ge d.cur p.1 with h | h
    · simp [Nat.not_le.mpr h] at hfirst
    · exact h
  simp only [hle, if_true] at hfirst
  have e1 : ((d.cur : Int) + (-(p.1 : Int) + 1)).toNat = d.cur - p.1 + 1 := by omega
  refine ⟨by omega, k, hk, by omega, ?_, ?_⟩
  · rw [e1]; simpa using hfirst
  · rw [e1]
    rcases hleft with h0 | hl
    · omega
    · rw [clsAt_prevEnding _ _ _ hc] at hl
      have : p.1 - 1 ≤ d.cur := by omega
      simp only [this, if_true] at hl
      have e : d.cur - (p.1 - 1) = d.cur - p.1 + 1 := by omega
      rw [e] at hl; exact hl
example : prevWordEndingPos (· == ' ') ⟨['a', 'b', ' ', 'c', 'd'], 4⟩ 1 false = some (-2) := by decide

/-- the excluded region is a genuine defect of the code as it is: with the cursor at the end of
    `"ab cd"` the reported offset `-2` points at index 3 (`'c'`, the start of the word the cursor
    is in), which is not a word end; one position to the left the same call is right. -/
theorem prevWordEnding_defect :
    ∃ d : Doc, d.cur = d.text.length ∧
      prevWordEndingPos (· == ' ') d 1 false = some (-2) ∧
      clsAt (cls (· == ' ') false) d.text 2 = some 0 ∧
      ¬ IsWordEnd (cls (· == ' ') false) d.text ((d.cur : Int) + (-2)).toNat := by
  refine ⟨⟨['a', 'b', ' ', 'c', 'd'], 5⟩, rfl, by decide, by decide, ?_⟩
  rintro ⟨k, hk, _, h1, _⟩
  have : clsAt (cls (· == ' ') false) ['a', 'b', ' ', 'c', 'd'] 2 = some 0 := by decide
  have h1' : clsAt (cls (· == ' ') false) ['a', 'b', ' ', 'c', 'd'] 2 = some k := h1
  rw [this] at h1'
  exact hk (Option.some.inj h1').symm

/-- `find_previous_word_ending` (count ≥ 1) never leaves the text and never moves forward —
    for **every** cursor, including the end of the text where its target is off by one -/
theorem prevWordEnding_in_bounds (sp : Char → Bool) (d : Doc) (hc : d.cur ≤ d.text.length)
    (count : Int) (hcount : 1 ≤ count) (WORD : Bool) (r : Int)
    (h : prevWordEndingPos sp d count WORD = some r) : r ≤ 0 ∧ 1 ≤ (d.cur : Int) + r := by
  simp only [prevWordEndingPos] at h
  obtain ⟨p, hp, rfl⟩ := Option.map_eq_some_iff.mp h
  have hpos := nth_adjust_pos _ _ count hcount p hp
  obtain ⟨hlt, k, hk, hall, _, _⟩ := runs_spec _ _ p (nth_mem hp)
  have hfirst := clsAt_some_lt (hall p.1 (Nat.le_refl _) hlt)
  simp only [Doc.after, Doc.before, List.length_append, List.length_take, List.length_drop,
    List.length_reverse] at hfirst
  omega
example : prevWordEndingPos (· == ' ') ⟨['a', 'b', ' ', 'c', 'd'], 5⟩ 1 false = some (-2) := by decide

/-- **all word / WORD motion queries stay inside the text** for every non-zero count (negative
    counts delegate to the opposite direction) -/
theorem word_motions_in_bounds (sp : Char → Bool) (d : Doc) (hc : d.cur ≤ d.text.length)
    (count : Int) (hne : count ≠ 0) (WORD incl : Bool) (r : Int)
    (h : findNextWordBeginning sp d count WORD = some r ∨
         findPreviousWordBeginning sp d count WORD = some r ∨
         findNextWordEnding sp d incl count WORD = some r ∨
         findPreviousWordEnding sp d count WORD = some r ∨
         findStartOfPreviousWord sp d count WORD = some r) : InBounds d r := by
  have nb : ∀ c, 1 ≤ c → nextWordBeginningPos sp d c WORD = some r → InBounds d r := by
    intro c hc1 h
    obtain ⟨h1, h2⟩ := nextWordBeginning_lands sp d c WORD r hc1 h
    have := h2.lt
    constructor <;> omega
  have ne : ∀ i c, nextWordEndingPos sp d i c WORD = some r → InBounds d r := by
    intro i c h
    obtain ⟨h1, _, h2⟩ := nextWordEnding_lands sp d i c WORD r h
    have := h2.le
    constructor <;> omega
  have pb : ∀ c, prevWordBeginningPos sp d c WORD = some r → InBounds d r := by
    intro c h
    obtain ⟨h1, h2, _, _⟩ := prevWordBeginning_lands sp d hc c WORD r (Or.inl h)
    constructor <;> omega
  have pe : ∀ c, 1 ≤ c → prevWordEndingPos sp d c WORD = some r → InBounds d r := by
    intro c hc1 h
    obtain ⟨h1, h2⟩ := prevWordEnding_in_bounds sp d hc c hc1 WORD r h
    constructor <;> omega
  rcases h with h | h | h | h | h
  · simp only [findNextWordBeginning] at h
    split at h
    · exact pb _ h
    · exact nb _ (by omega) h
  · simp only [findPreviousWordBeginning] at h
    split at h
    · exact nb _ (by omega) h
    · exact pb _ h
  · simp only [findNextWordEnding] at h
    split at h
    · exact pe _ (by omega) h
    · exact ne _ _ h
  · simp only [findPreviousWordEnding] at h
    split at h
    · exact ne _ _ h
    · exact pe _ (by omega) h
  · obtain ⟨h1, h2, _, _⟩ := prevWordBeginning_lands sp d hc count WORD r (Or.inr h)
    constructor <;> omega
example : findNextWordEnding (· == ' ') ⟨['a', 'b', ' ', 'c', 'd'], 4⟩ false (-1) false = some (-2) := by
  decide

theorem currentWordEnd_le (cl : Char → Nat) (t : Text) (e : Nat) (h : currentWordEnd cl t = some e) :
    e ≤ t.length := by
  cases t with
  | nil => simp [currentWordEnd] at h
  | cons c cs =>
    simp only [currentWordEnd] at h
    split at h
    · cases h
    · have := prefixLen_le cl (cl c) cs
      cases h; simp; omega

theorem currentWordEndWs_le (cl : Char → Nat) (sp : Char → Bool) (t : Text) (e : Nat)
    (h : currentWordEndWs cl sp t = some e) : e ≤ t.length := by
  simp only [currentWordEndWs] at h
  obtain ⟨e0, h0, rfl⟩ := Option.map_eq_some_iff.mp h
  have h1 := currentWordEnd_le cl t e0 h0
  have h2 : ((t.drop e0).takeWhile sp).length ≤ (t.drop e0).length := (List.takeWhile_prefix _).length_le
  simp only [List.length_drop] at h2
  omega

/-- **`find_boundaries_of_current_word`**: both boundaries stay on the current line, the start is
    at or before the cursor, the end at or after it (all flag combinations) -/
theorem wordBoundaries_on_line (sp : Char → Bool) (d : Doc) (hc : d.cur ≤ d.text.length)
    (WORD lead trail : Bool) :
    (wordBoundaries sp d WORD lead trail).1 ≤ 0 ∧ 0 ≤ (wordBoundaries sp d WORD lead trail).2 ∧
    OnLine d (wordBoundaries sp d WORD lead trail).1 ∧ OnLine d (wordBoundaries sp d WORD lead trail).2 := by
  obtain ⟨t, i⟩ := d
  simp only at hc
  obtain ⟨A, m1, m2, B, hn⟩ := exists_normal' t i hc
  rw [onLine_normal hn, onLine_normal hn]
  have rxle : ∀ (ws : Bool) (x : Text) (e : Nat),
      (if ws = true then currentWordEndWs (cls sp WORD) sp x else currentWordEnd (cls sp WORD) x) = some e →
      e ≤ x.length := by
    intro ws x e h
    split at h
    · exact currentWordEndWs_le _ _ _ _ h
    · exact currentWordEnd_le _ _ _ h
  simp only [wordBoundaries, hn.lineBefore, hn.lineAfter]
  generalize hmb0 : (if lead = true then currentWordEndWs (cls sp WORD) sp m1.reverse
    else currentWordEnd (cls sp WORD) m1.reverse) = mb0
  generalize hma : (if trail = true then currentWordEndWs (cls sp WORD) sp m2
    else currentWordEnd (cls sp WORD) m2) = ma
  have hb0 : ∀ e, mb0 = some e → e ≤ m1.length := by
    intro e he; have := rxle lead m1.reverse e (by rw [hmb0, he]); simpa using this
  have ha : ∀ e, ma = some e → e ≤ m2.length := by
    intro e he; exact rxle trail m2 e (by rw [hma, he])
  -- whatever the alphabet test does, the final `match_before` is `none` or the original one
  generalize hmb : (if (!WORD && mb0.isSome && ma.isSome) = true then
      match index? t ((i : Int) - 1), index? t (i : Int) with
      | some c1, some c2 => if (isWordChar c1 != isWordChar c2) = true then none else mb0
      | _, _ => mb0
    else mb0) = mb
  have hb : ∀ e, mb = some e → e ≤ m1.length := by
    intro e he
    apply hb0
    rw [← hmb] at he
    split at he
    · split at he
      · split at he
        · cases he
        · exact he
      · exact he
    · exact he
  cases mb with
  | none =>
    cases ma with
    | none => simp
    | some e => have := ha e rfl; simp; omega
  | some eb =>
    have h1 := hb eb rfl
    cases ma with
    | none => simp; omega
    | some e => have := ha e rfl; simp; omega
example : wordBoundaries (· == ' ') ⟨['a', 'b', ' ', 'c'], 1⟩ false false true = (-1, 2) := by decide

/-! ## 6. up / down land on the clamped row and column -/

/-- `translate_row_col_to_index` for a valid row and any column lands on that row, at the column
    clamped to the line (generalises `pos_idx_roundtrip`) -/
theorem rowColToIndex_pos (t : Text) (r : Nat) (c : Int) (hr : r < (lines t).length) :
    indexToPos t (rowColToIndex t r c) = (r, (max 0 (min c (((lines t)[r]).length : Int))).toNat) := by
  have hcl : (max 0 (min c (((lines t)[r]).length : Int))).toNat ≤ ((lines t)[r]).length := by omega
  have h := normal_of_rowcol t r _ hr hcl
  have hlen : ((lines t).take r).length = r := by simp; omega
  have e := h.rowColToIndex c
  rw [hlen] at e
  rw [e]
  simp only [List.take_append_drop]
  have := h.indexToPos
  rw [hlen] at this
  rw [this]
  simp; omega

/-- rows past the last one are clamped to the last row (the `IndexError` branch) -/
theorem rowColToIndex_clamp_row (t : Text) (r : Int) (c : Int) (hr : ((lines t).length : Int) ≤ r) :
    rowColToIndex t r c = rowColToIndex t (((lines t).length - 1 : Nat) : Int) c := by
  have hne : lines t ≠ [] := splitOn_ne_nil _ _
  have hl : (lineStarts t).length = (lines t).length := by rw [lineStarts_eq, startsOf_length]
  have hpos : 0 < (lines t).length := List.length_pos_iff.mpr hne
  have hnneg : ¬ r < 0 := by omega
  have h1 : index? (lineStarts t) r = none := by
    unfold index?; simp only [hnneg, if_false]
    exact List.getElem?_eq_none (by omega)
  have h2 : index? (lines t) r = none := by
    unfold index?; simp only [hnneg, if_false]
    exact List.getElem?_eq_none (by omega)
  have h3 : index? (lineStarts t) (((lines t).length - 1 : Nat) : Int) = some ((lineStarts t).getLastD 0) := by
    rw [index?_natCast, List.getLastD_eq_getLast?, List.getLast?_eq_getElem?, hl]
    have : (lines t).length - 1 < (lineStarts t).length := by omega
    rw [List.getElem?_eq_getElem this]; rfl
  have h4 : index? (lines t) (((lines t).length - 1 : Nat) : Int) = some ((lines t).getLastD []) := by
    rw [index?_natCast, List.getLastD_eq_getLast?, List.getLast?_eq_getElem?]
    have : (lines t).length - 1 < (lines t).length := by omega
    rw [List.getElem?_eq_getElem this]; rfl
  simp only [rowColToIndex, h1, h2, h3, h4, hnneg, if_false]

/-- **`get_cursor_up_position`** (count ≥ 0): the target is on row `max(0, row - count)` at column
    `clamp(column, 0, len(line))`, where `column` is the preferred column or the current one -/
theorem cursorUp_sound (d : Doc) (hc : d.cur ≤ d.text.length) (count : Int) (hcount : 0 ≤ count)
    (pref : Option Int) :
    ∃ line, (lines d.text)[((row d : Int) - count).toNat]? = some line ∧
      indexToPos d.text ((d.cur : Int) + cursorUp d count pref).toNat =
        (((row d : Int) - count).toNat, (max 0 (min (pref.getD (col d)) (line.length : Int))).toNat) := by
  have hrow := (views_consistent d hc).1
  simp only [lineCount] at hrow
  have hr : ((row d : Int) - count).toNat < (lines d.text).length := by omega
  refine ⟨(lines d.text)[((row d : Int) - count).toNat], List.getElem?_eq_getElem hr, ?_⟩
  have e : (max 0 ((row d : Int) - count)) = ((((row d : Int) - count).toNat : Nat) : Int) := by omega
  simp only [cursorUp, e]
  have : ∀ x : Nat, ((d.cur : Int) + ((x : Int) - d.cur)).toNat = x := by intro x; omega
  rw [this, rowColToIndex_pos _ _ _ hr]
example : cursorUp ⟨['a', '\n', 'b', 'c', 'd'], 5⟩ 1 none = -4 ∧ indexToPos ['a', '\n', 'b', 'c', 'd'] 1 = (0, 1) := by
  decide

/-- **`get_cursor_down_position`** (count ≥ 0): the target is on row `min(row + count, last row)` at
    column `clamp(column, 0, len(line))` -/
theorem cursorDown_sound (d : Doc) (hc : d.cur ≤ d.text.length) (count : Int) (hcount : 0 ≤ count)
    (pref : Option Int) :
    ∃ line, (lines d.text)[min ((row d : Int) + count).toNat (lineCount d.text - 1)]? = some line ∧
      indexToPos d.text ((d.cur : Int) + cursorDown d count pref).toNat =
        (min ((row d : Int) + count).toNat (lineCount d.text - 1),
         (max 0 (min (pref.getD (col d)) (line.length : Int))).toNat) := by
  have hrow := (views_consistent d hc).1
  simp only [lineCount] at hrow ⊢
  obtain ⟨r', hr'⟩ : ∃ r', r' = min ((row d : Int) + count).toNat ((lines d.text).length - 1) := ⟨_, rfl⟩
  rw [← hr']
  have hr : r' < (lines d.text).length := by omega
  refine ⟨(lines d.text)[r'], List.getElem?_eq_getElem hr, ?_⟩
  have this : ∀ x : Nat, ((d.cur : Int) + ((x : Int) - d.cur)).toNat = x := by intro x; omega
  have key : ∀ c, rowColToIndex d.text ((row d : Int) + count) c = rowColToIndex d.text (r' : Int) c := by
    intro c
    rcases Nat.lt_or_ge ((row d : Int) + count).toNat (lines d.text).length with hlt | hge
    · congr 1; omega
    · rw [rowColToIndex_clamp_row _ _ _ (by omega)]
      congr 2; omega
  simp only [cursorDown]
  rw [key, this, rowColToIndex_pos _ _ _ hr]
example : cursorDown ⟨['a', 'b', 'c', '\n', 'd'], 2⟩ 3 none = 3 ∧ indexToPos ['a', 'b', 'c', '\n', 'd'] 5 = (1, 1) := by
  decide

/-! ## 7. the shared line-table cache is transparent -/

/-- a cache entry for text `t` is consistent: whatever is filled in equals the pure function -/
def Cache.Ok (c : Cache) (t : Text) : Prop :=
  (∀ ls, c.lines = some ls → ls = Ptk.C02.lines t) ∧
  (∀ idx, c.lineIndexes = some idx → idx = Ptk.C02.lineStarts t)

def Store.Ok (s : Store) : Prop := ∀ p ∈ s, p.2.Ok p.1

theorem Store.get_ok (s : Store) (hs : s.Ok) (t : Text) : (s.get t).Ok t := by
  unfold Store.get
  cases h : s.find? (·.1 == t) with
  | none => simp [Cache.Ok]
  | some p =>
    have hp := List.find?_some h
    have hm := List.mem_of_find?_eq_some h
    simp only [beq_iff_eq] at hp
    simpa [hp] using hs p hm

theorem Store.set_ok (s : Store) (hs : s.Ok) (t : Text) (c : Cache) (hc : c.Ok t) : (s.set t c).Ok := by
  intro p hp
  simp only [Store.set, List.mem_cons, List.mem_filter] at hp
  rcases hp with rfl | ⟨hp, _⟩
  · exact hc
  · exact hs p hp

theorem cachedLines_ok (c : Cache) (t : Text) (hc : c.Ok t) :
    (cachedLines c t).1 = lines t ∧ (cachedLines c t).2.Ok t := by
  unfold cachedLines
  cases h : c.lines with
  | some ls => exact ⟨hc.1 ls h, hc⟩
  | none =>
    refine ⟨rfl, ?_, ?_⟩
    · intro ls hls; simp at hls; exact hls.symm
    · intro idx hidx; exact hc.2 idx hidx

theorem cachedStarts_ok (c : Cache) (t : Text) (hc : c.Ok t) :
    (cachedStarts c t).1 = lineStarts t ∧ (cachedStarts c t).2.Ok t := by
  obtain ⟨h1, h2⟩ := cachedLines_ok c t hc
  unfold cachedStarts
  cases h : c.lineIndexes with
  | some idx => exact ⟨hc.2 idx h, hc⟩
  | none =>
    simp only [h1]
    refine ⟨rfl, ?_, ?_⟩
    · intro ls hls; exact h2.1 ls hls
    · intro idx hidx
      have := Option.some.inj hidx
      rw [← this]; rfl

theorem cacheStep_ok (s : Store) (hs : s.Ok) (op : CacheOp) :
    (cacheStep s op).1 = pureAns op ∧ (cacheStep s op).2.Ok := by
  cases op with
  | lines t =>
    obtain ⟨h1, h2⟩ := cachedLines_ok _ t (s.get_ok hs t)
    exact ⟨by simp only [cacheStep, pureAns, h1], s.set_ok hs t _ h2⟩
  | starts t =>
    obtain ⟨h1, h2⟩ := cachedStarts_ok _ t (s.get_ok hs t)
    exact ⟨by simp only [cacheStep, pureAns, h1], s.set_ok hs t _ h2⟩
  | indexToPos t i =>
    obtain ⟨h1, h2⟩ := cachedStarts_ok _ t (s.get_ok hs t)
    refine ⟨?_, s.set_ok hs t _ h2⟩
    simp only [cacheStep, pureAns, cachedIndexToPos, h1, indexToPos, findLineStart]
  | rowColToIndex t row col =>
    obtain ⟨h1, h2⟩ := cachedStarts_ok _ t (s.get_ok hs t)
    obtain ⟨h3, h4⟩ := cachedLines_ok _ t h2
    refine ⟨?_, s.set_ok hs t _ h4⟩
    simp only [cacheStep, pureAns, cachedRowColToIndex, h1, h3, rowColToIndex]
  | gc t =>
    refine ⟨rfl, ?_⟩
    intro p hp
    simp only [cacheStep, List.mem_filter] at hp
    exact hs p hp.1

/-- **cache transparency**: any interleaving of line / index queries (on any mix of texts, equal
    texts sharing one entry, entries dropped by the garbage collector at any time) answers exactly
    what the uncached functions answer, from any consistent store — in particular the empty one. -/
theorem cache_transparent (s : Store) (hs : s.Ok) (ops : List CacheOp) :
    (cacheRun s ops).1 = ops.map pureAns ∧ (cacheRun s ops).2.Ok := by
  induction ops generalizing s with
  | nil => exact ⟨rfl, hs⟩
  | cons op ops ih =>
    obtain ⟨h1, h2⟩ := cacheStep_ok s hs op
    obtain ⟨h3, h4⟩ := ih _ h2
    simp only [cacheRun, List.map_cons]
    exact ⟨by rw [h1, h3], h4⟩

theorem cache_transparent_empty (ops : List CacheOp) : (cacheRun [] ops).1 = ops.map pureAns :=
  (cache_transparent [] (by intro p hp; cases hp) ops).1
example : (cacheRun [] [.starts ['a', '\n', 'b'], .indexToPos ['a', '\n', 'b'] 2, .gc ['a', '\n', 'b'],
    .lines ['a', '\n', 'b'], .rowColToIndex ['a', '\n', 'b'] 1 1]).1 =
    [.starts [0, 2], .pos (1, 0), .none, .lines [['a'], ['b']], .index 3] := by decide

end Ptk.C02
