/-
  C20 — property theorems for the StdoutProxy / event-loop hand-off model (`Ptk.Model.C20`).

  All theorems are about every finite schedule `ops : List Op` (any number of writer threads,
  any interleaving of writer steps, flush-thread sections, loop steps, application start/stop,
  loop close/creation), by induction over the schedule.

  Two schedule restrictions appear as hypotheses; each excludes exactly one window in which the
  real code (after the F8 fix) still violates the property, and each window is refuted below on a
  concrete schedule (`*_witness`), replayed on the real code by the harness (known findings):

    `calm`      (a) a loop is not closed while it holds accepted callbacks that did not run or tasks
                    made by `run_in_terminal` that did not start,
                (b) the flush thread does not write directly (no application found) while such
                    callbacks / tasks are still waiting;
    `startCalm` no application starts between the flush thread's look-up that found none and
                the direct write that follows.
-/
import Ptk.Model.C20
namespace Ptk.C20
open Ptk.Py

/-! ### helpers -/
/-! ### list helpers -/

theorem outText_append (a b : List Ev) : outText (a ++ b) = outText a ++ outText b := by
  induction a with
  | nil => rfl
  | cons e es ih => cases e <;> simp [outText, ih]

theorem qText_append (a b : List Item) : qText (a ++ b) = qText a ++ qText b := by
  induction a with
  | nil => rfl
  | cons e es ih => cases e <;> simp [qText, ih]

theorem drain_fst (q : List Item) : (drain q).1 = qText q := by
  induction q with
  | nil => rfl
  | cons e es ih => cases e <;> simp [drain, qText, ih]

theorem rsplitNl_some {d b a : Text} (h : rsplitNl d = some (b, a)) : b ++ '\n' :: a = d := by
  induction d generalizing b a with
  | nil => simp [rsplitNl] at h
  | cons c cs ih =>
    unfold rsplitNl at h
    split at h
    · rename_i b' a' h'
      cases h
      simp [ih h']
    · split at h
      · cases h; subst_vars; rfl
      · cases h

theorem rsplitNl_some_after {d b a : Text} (h : rsplitNl d = some (b, a)) : '\n' ∉ a := by
  induction d generalizing b a with
  | nil => simp [rsplitNl] at h
  | cons c cs ih =>
    unfold rsplitNl at h
    split at h
    · rename_i b' a' h'
      cases h
      exact ih h'
    · rename_i h'
      split at h
      · cases h
        clear ih
        induction cs with
        | nil => simp
        | cons x xs ih2 =>
          unfold rsplitNl at h'
          split at h'
          · cases h'
          · rename_i h''
            split at h'
            · cases h'
            · rename_i hx
              simp only [List.mem_cons, not_or]
              exact ⟨fun e => hx e.symm, ih2 h''⟩
      · cases h

theorem rsplitNl_none {d : Text} : rsplitNl d = none ↔ '\n' ∉ d := by
  induction d with
  | nil => simp [rsplitNl]
  | cons c cs ih =>
    unfold rsplitNl
    split
    · rename_i b a h
      have : rsplitNl cs ≠ none := by simp [h]
      simp only [reduceCtorEq, false_iff, List.mem_cons, not_or, not_and, Classical.not_not]
      intro _
      exact Classical.byContradiction fun hn => this (ih.mpr hn)
    · rename_i h
      have hcs := ih.mp h
      split
      · subst_vars; simp
      · rename_i hc
        simp only [true_iff, List.mem_cons, not_or]
        exact ⟨fun e => hc e.symm, hcs⟩

/-! ### the stream of written characters -/

/-- the write calls of a schedule, in lock-acquisition order: (thread, data) -/
def writesOf : List Op → List (Nat × Text)
  | [] => []
  | .write t d :: os => (t, d) :: writesOf os
  | _ :: os => writesOf os

/-- the text of all write calls, in lock-acquisition order -/
def allText (ops : List Op) : Text := ((writesOf ops).map (·.2)).flatten

/-- where every written character is, from the terminal backwards to the line buffer -/
def stream (s : St) : Text :=
  outText s.log ++ cat (taskTexts s.tasks) ++ cat s.pending ++ held s.fl ++ qText s.queue ++ cat s.buffer

/-- the loop holds nothing of the proxy: no accepted callback, no task waiting for its first step -/
def loopIdle (s : St) : Bool := s.pending.isEmpty && s.tasks.isEmpty

/-- schedule restriction: the two windows in which the hand-off to the loop is not safe -/
def calmStep (s : St) : Op → Bool
  | .closeLoop => loopIdle s
  | .fl => match s.fl with
    | .ready none _ _ => loopIdle s
    | _ => true
  | _ => true

/-- the code as it is: `run_in_terminal` returns `ensure_future(run())`; no task is ever registered with the
    application -/
def NoReg (s : St) : Prop := s.regTasks = false ∧ ∀ k ∈ s.tasks, k.reg = false

theorem noReg_init (raw : Bool) : NoReg (init raw) := by simp [NoReg, init]

theorem filter_noReg {ts : List Task} (h : ∀ k ∈ ts, k.reg = false) :
    ts.filter notReg = ts ∧ ts.filter isReg = [] := by
  induction ts with
  | nil => simp
  | cons k ks ih =>
    have hk := h k (by simp)
    have := ih (fun x hx => h x (by simp [hx]))
    simp [List.filter, notReg, isReg, hk, this]

theorem taskTexts_append (a b : List Task) : taskTexts (a ++ b) = taskTexts a ++ taskTexts b := by
  simp [taskTexts]

theorem loopIdle_iff (s : St) : loopIdle s = true ↔ s.pending = [] ∧ s.tasks = [] := by
  simp [loopIdle]

def calm : St → List Op → Bool
  | _, [] => true
  | s, o :: os => calmStep s o && calm (step s o) os

def opText : Op → Text
  | .write _ d => d
  | _ => []

theorem allText_cons (o : Op) (os : List Op) : allText (o :: os) = opText o ++ allText os := by
  cases o <;> simp [allText, writesOf, opText]

theorem held_afterEmit (dn : Bool) : held (afterEmit dn) = [] := by
  cases dn <;> rfl

theorem noReg_step (s : St) (o : Op) (h : NoReg s) : NoReg (step s o) := by
  obtain ⟨hr, ht⟩ := h
  cases o with
  | write t d => simp only [step, doWrite]; split <;> exact ⟨hr, ht⟩
  | writeBad t => exact ⟨hr, ht⟩
  | flush t => exact ⟨hr, ht⟩
  | close => exact ⟨hr, ht⟩
  | fl =>
    simp only [step, flStep]
    split
    · split <;> exact ⟨hr, ht⟩
    · exact ⟨hr, ht⟩
    · exact ⟨hr, ht⟩
    · split <;> exact ⟨hr, ht⟩
    · exact ⟨hr, ht⟩
    · exact ⟨hr, ht⟩
  | run =>
    simp only [step, runStep]
    split
    · exact ⟨hr, ht⟩
    · refine ⟨hr, ?_⟩
      intro k hk
      simp only [List.mem_append, List.mem_singleton] at hk
      rcases hk with hk | rfl
      · exact ht k hk
      · simp [hr]
  | task =>
    simp only [step, taskStep]
    split
    · exact ⟨hr, ht⟩
    · rename_i k ts hts
      split <;> exact ⟨hr, fun x hx => ht x (by simp [hts, hx])⟩
  | start => simp only [step]; split <;> exact ⟨hr, ht⟩
  | stop =>
    simp only [step]
    split
    · exact ⟨hr, fun k hk => ht k (List.mem_filter.mp hk).1⟩
    · exact ⟨hr, ht⟩
  | finish => simp only [step]; split <;> exact ⟨hr, ht⟩
  | newLoop => simp only [step]; split <;> exact ⟨hr, ht⟩
  | closeLoop =>
    simp only [step]
    split
    · exact ⟨hr, by simp⟩
    · exact ⟨hr, ht⟩
  | inval => simp only [step]; split <;> exact ⟨hr, ht⟩
  | exit => simp only [step]; split <;> exact ⟨hr, ht⟩

theorem noReg_run (s : St) (ops : List Op) (h : NoReg s) : NoReg (runOps s ops) := by
  induction ops generalizing s with
  | nil => exact h
  | cons o os ih => exact ih _ (noReg_step s o h)

theorem stream_step (s : St) (o : Op) (hn : NoReg s) (h : calmStep s o = true) :
    stream (step s o) = stream s ++ opText o ∧ (step s o).lost = s.lost := by
  cases o with
  | write t d =>
    simp only [step, doWrite, opText]
    cases hr : rsplitNl d with
    | none => simp [stream, cat]
    | some p =>
      obtain ⟨b, a⟩ := p
      have := rsplitNl_some hr
      simp [stream, cat, qText_append, qText, ← this]
  | writeBad t => simp [step, opText]
  | flush t => simp [step, doFlush, stream, cat, qText_append, qText, opText]
  | close => simp [step, stream, qText_append, qText, opText]
  | fl =>
    simp only [step, flStep, opText, List.append_nil]
    cases hf : s.fl with
    | idle =>
      simp only
      cases hq : s.queue with
      | nil => simp [stream, hf, hq]
      | cons i q =>
        cases i with
        | done => simp [stream, hf, hq, held, qText]
        | text t =>
          cases t with
          | nil => simp [stream, hf, hq, held, qText]
          | cons c cs =>
            simp only
            have := drain_fst q
            cases hd : drain q with
            | mk r d =>
              rw [hd] at this
              simp at this
              simp [stream, hf, hq, held, qText, this]
    | batch txt dn => simp [stream, hf, held]
    | ready lp txt dn =>
      cases lp with
      | none =>
        simp only [calmStep, hf] at h
        obtain ⟨hp, ht⟩ := (loopIdle_iff s).mp h
        simp only [stream, held_afterEmit, hf, hp, ht]; simp [held, outText_append, outText, cat, taskTexts]
      | some g =>
        simp only
        split
        · simp only [stream, held_afterEmit, hf]; simp [held, cat]
        · simp [stream, hf, held]
    | relook g txt dn => simp [stream, hf, held]
    | exited => simp [stream, hf]
  | run =>
    simp only [step, runStep, opText, List.append_nil]
    cases hp : s.pending with
    | nil => simp [stream, hp]
    | cons t ps => simp [stream, hp, cat, taskTexts]
  | task =>
    simp only [step, taskStep, opText, List.append_nil]
    cases ht : s.tasks with
    | nil => simp [stream, ht]
    | cons k ts =>
      simp only
      split <;> simp [stream, ht, cat, taskTexts, outText_append, outText]
  | start =>
    simp only [step, opText, List.append_nil]
    split <;> simp [stream, outText_append, outText]
  | stop =>
    simp only [step, opText, List.append_nil]
    obtain ⟨h1, h2⟩ := filter_noReg hn.2
    split <;> simp [stream, outText_append, outText, h1, h2, taskTexts]
  | finish =>
    simp only [step, opText, List.append_nil]
    split <;> simp [stream]
  | newLoop =>
    simp only [step, opText, List.append_nil]
    split <;> simp [stream]
  | closeLoop =>
    simp only [calmStep] at h
    obtain ⟨hp, ht⟩ := (loopIdle_iff s).mp h
    simp only [step, opText, List.append_nil]
    split <;> simp [stream, hp, ht, taskTexts]
  | inval =>
    simp only [step, opText, List.append_nil]
    split <;> simp [stream, outText_append, outText]
  | exit =>
    simp only [step, opText, List.append_nil]
    split <;> simp [stream]

/-! ### positions of the write calls in the output -/

/-- text of the write calls `L`, the position where call `i` starts in it -/
def offset (L : List Text) (i : Nat) : Nat := (L.take i).flatten.length

theorem flatten_split (L : List Text) (i : Nat) (h : i < L.length) :
    L.flatten = (L.take i).flatten ++ L[i] ++ (L.drop (i + 1)).flatten := by
  induction L generalizing i with
  | nil => simp at h
  | cons x xs ih =>
    cases i with
    | zero => simp
    | succ j =>
      have hj : j < xs.length := by simpa using h
      have := ih j hj
      simp only [List.flatten_cons, List.take_succ_cons, List.getElem_cons_succ, List.drop_succ_cons]
      rw [this]; simp [List.append_assoc]

theorem offset_zero (L : List Text) : offset L 0 = 0 := by simp [offset]

theorem offset_succ (L : List Text) (i : Nat) (h : i < L.length) :
    offset L (i + 1) = offset L i + L[i].length := by
  unfold offset
  rw [List.take_succ_eq_append_getElem h]
  simp only [List.flatten_append, List.length_append, List.flatten_cons, List.flatten_nil, List.append_nil]

theorem offset_length (L : List Text) : offset L L.length = L.flatten.length := by
  simp [offset]

theorem offset_mono (L : List Text) (i j : Nat) (hij : i ≤ j) : offset L i ≤ offset L j := by
  induction hij with
  | refl => exact Nat.le_refl _
  | @step m hle ih =>
    show offset L i ≤ offset L (m + 1)
    by_cases hm : m < L.length
    · rw [offset_succ L m hm]; omega
    · have : offset L (m + 1) = offset L m := by
        simp [offset, List.take_of_length_le (Nat.le_of_not_lt hm),
          List.take_of_length_le (Nat.le_succ_of_le (Nat.le_of_not_lt hm))]
      omega

theorem segment_eq (L : List Text) (i : Nat) (h : i < L.length) :
    (L.flatten.drop (offset L i)).take L[i].length = L[i] := by
  rw [flatten_split L i h, offset]
  simp [List.append_assoc]

theorem segments_ordered (L : List Text) (i j : Nat) (hij : i < j) (hj : j < L.length) :
    offset L i + L[i].length ≤ offset L j := by
  have hi : i < L.length := Nat.lt_trans hij hj
  rw [← offset_succ L i hi]
  exact offset_mono L _ _ hij

/-! ### the prompt bracket -/

/-- what the terminal shows, as far as the prompt is concerned -/
inductive Ph where
  | off    -- no prompt on the screen (no application, or it has finished)
  | on     -- the prompt is drawn
  | sec0   -- the prompt was erased for a section, nothing written yet
  | sec1   -- the section has written its text, the redraw is due
deriving Repr, DecidableEq

/-- the only orders of terminal events that keep printed text out of the prompt:
    plain text while no prompt is shown; `erase, text, redraw` while one is shown -/
def phStep : Ph → Ev → Option Ph
  | .off, .out _ _ => some .off
  | .off, .draw => some .on
  | .on, .erase => some .sec0
  | .on, .draw => some .on          -- the application repaints its prompt
  | .on, .doneDraw => some .off
  | .sec0, .out _ _ => some .sec1
  | .sec1, .draw => some .on
  | _, _ => none

def phRun : Ph → List Ev → Option Ph
  | p, [] => some p
  | p, e :: es => match phStep p e with
    | some p' => phRun p' es
    | none => none

theorem phRun_append (p : Ph) (a b : List Ev) :
    phRun p (a ++ b) = (phRun p a).bind fun q => phRun q b := by
  induction a generalizing p with
  | nil => rfl
  | cons e es ih =>
    simp only [List.cons_append, phRun]
    cases phStep p e with
    | none => rfl
    | some q => exact ih q

def phaseOf (appOn : Bool) : Ph := if appOn then .on else .off

/-- schedule restriction for the bracket: no application starts between the flush thread's
    look-up that found none and the direct write that follows it -/
def startSafe (s : St) : Op → Bool
  | .start => match s.fl with
    | .ready none _ _ => false
    | _ => true
  | _ => true

def startCalm : St → List Op → Bool
  | _, [] => true
  | s, o :: os => startSafe s o && startCalm (step s o) os

/-- invariant behind `inside_bracket` -/
structure BInv (s : St) : Prop where
  ph : phRun .off s.log = some (phaseOf s.appOn)
  appLoop : (s.appOn = true ∨ s.winding = true) → s.loopOpen = true
  direct : ∀ t d, s.fl = .ready none t d → s.appOn = false
  relook : ∀ g t d, s.fl = .relook g t d → g < s.loopGen ∨ (g = s.loopGen ∧ s.loopOpen = false)
  ready : ∀ g t d, s.fl = .ready (some g) t d → g ≤ s.loopGen

theorem binv_init (raw : Bool) : BInv (init raw) := by
  constructor <;> simp [init, phRun, phaseOf]

theorem afterEmit_ne_ready (dn : Bool) (l : Option Nat) (t : Text) (d : Bool) : afterEmit dn ≠ .ready l t d := by
  cases dn <;> simp [afterEmit]
theorem afterEmit_ne_relook (dn : Bool) (g : Nat) (t : Text) (d : Bool) : afterEmit dn ≠ .relook g t d := by
  cases dn <;> simp [afterEmit]

theorem appLoop_none {s : St} (h : appLoop s = none) : s.appOn = false ∧ s.winding = false := by
  unfold appLoop at h
  cases ha : s.appOn <;> cases hw : s.winding <;> simp [ha, hw] at h ⊢

theorem appLoop_some {s : St} {g : Nat} (h : appLoop s = some g) :
    g = s.loopGen ∧ (s.appOn = true ∨ s.winding = true) := by
  unfold appLoop at h
  cases ha : s.appOn <;> cases hw : s.winding <;> simp [ha, hw] at h ⊢ <;> omega

theorem binv_step (s : St) (o : Op) (hs : startSafe s o = true) (h : BInv s) : BInv (step s o) := by
  obtain ⟨hph, hal, hdir, hrl, hrd⟩ := h
  cases o with
  | write t d =>
    simp only [step, doWrite]
    split <;> exact ⟨hph, hal, hdir, hrl, hrd⟩
  | writeBad t => exact ⟨hph, hal, hdir, hrl, hrd⟩
  | flush t => exact ⟨hph, hal, hdir, hrl, hrd⟩
  | close => exact ⟨hph, hal, hdir, hrl, hrd⟩
  | fl =>
    simp only [step, flStep]
    cases hf : s.fl with
    | idle =>
      simp only
      cases hq : s.queue with
      | nil => exact ⟨hph, hal, hdir, hrl, hrd⟩
      | cons i q =>
        cases i with
        | done => exact ⟨hph, hal, by simp, by simp, by simp⟩
        | text t =>
          cases t with
          | nil => exact ⟨hph, hal, by simp [hf], by simp [hf], by simp [hf]⟩
          | cons c cs => exact ⟨hph, hal, by simp, by simp, by simp⟩
    | batch txt dn =>
      simp only
      refine ⟨hph, hal, ?_, by simp, ?_⟩
      · intro t d he
        simp only [Fl.ready.injEq] at he
        exact (appLoop_none he.1).1
      · intro g t d he
        simp only [Fl.ready.injEq] at he
        have := (appLoop_some he.1).1
        show g ≤ s.loopGen
        omega
    | ready lp txt dn =>
      cases lp with
      | none =>
        have ha := hdir txt dn hf
        refine ⟨?_, hal, ?_, ?_, ?_⟩
        · simp only [phRun_append, hph, ha, phaseOf]; rfl
        · intro t d he; exact absurd he (afterEmit_ne_ready _ _ _ _)
        · intro g t d he; exact absurd he (afterEmit_ne_relook _ _ _ _)
        · intro g t d he; exact absurd he (afterEmit_ne_ready _ _ _ _)
      | some g =>
        simp only
        split
        · refine ⟨hph, hal, ?_, ?_, ?_⟩
          · intro t d he; exact absurd he (afterEmit_ne_ready _ _ _ _)
          · intro g t d he; exact absurd he (afterEmit_ne_relook _ _ _ _)
          · intro g t d he; exact absurd he (afterEmit_ne_ready _ _ _ _)
        · rename_i hn
          refine ⟨hph, hal, by simp, ?_, by simp⟩
          intro g' t d he
          simp only [Fl.relook.injEq] at he
          obtain ⟨rfl, -, -⟩ := he
          have hle := hrd g txt dn hf
          show g < s.loopGen ∨ (g = s.loopGen ∧ s.loopOpen = false)
          by_cases hg : g = s.loopGen
          · right; refine ⟨hg, ?_⟩
            cases ho : s.loopOpen with
            | false => rfl
            | true => exact absurd ⟨hg, ho⟩ hn
          · left; omega
    | relook g txt dn =>
      have hr := hrl g txt dn hf
      have hne : appLoop s ≠ some g := by
        intro he
        obtain ⟨hg, hw⟩ := appLoop_some he
        have := hal hw
        rcases hr with h1 | ⟨_, h2⟩
        · omega
        · simp [this] at h2
      simp only [hne, if_false]
      refine ⟨hph, hal, ?_, by simp, ?_⟩
      all_goals simp only
      · intro t d he
        simp only [Fl.ready.injEq] at he
        exact (appLoop_none he.1).1
      · intro g' t d he
        simp only [Fl.ready.injEq] at he
        have := (appLoop_some he.1).1
        show g' ≤ s.loopGen
        omega
    | exited => exact ⟨hph, hal, by simp [hf], by simp [hf], by simp [hf]⟩
  | run =>
    simp only [step, runStep]
    split <;> exact ⟨hph, hal, hdir, hrl, hrd⟩
  | task =>
    simp only [step, taskStep]
    cases hp : s.tasks with
    | nil => exact ⟨hph, hal, hdir, hrl, hrd⟩
    | cons k ts =>
      simp only
      by_cases ha : s.appOn = true
      · rw [if_pos ha]
        refine ⟨?_, hal, hdir, hrl, hrd⟩
        simp only [phRun_append, hph, ha, phaseOf]; rfl
      · have ha' : s.appOn = false := by simpa using ha
        rw [if_neg ha]
        refine ⟨?_, hal, hdir, hrl, hrd⟩
        simp only [phRun_append, hph, ha', phaseOf]; rfl
  | start =>
    simp only [step]
    split
    · rename_i hc
      have ha' : s.appOn = false := by simpa using hc.2.1
      refine ⟨?_, fun _ => hc.1, ?_, hrl, hrd⟩
      · simp only [phRun_append, hph, ha', phaseOf]; rfl
      · intro t d he
        have he' : s.fl = .ready none t d := he
        simp [startSafe, he'] at hs
    · exact ⟨hph, hal, hdir, hrl, hrd⟩
  | stop =>
    simp only [step]
    split
    · rename_i hc
      refine ⟨?_, fun _ => hal (Or.inl hc), by simp, hrl, hrd⟩
      simp only [phRun_append, hph, hc, phaseOf]; rfl
    · exact ⟨hph, hal, hdir, hrl, hrd⟩
  | finish =>
    simp only [step]
    split
    · refine ⟨hph, ?_, hdir, hrl, hrd⟩
      intro hw
      rcases hw with hw | hw
      · exact hal (Or.inl hw)
      · simp at hw
    · exact ⟨hph, hal, hdir, hrl, hrd⟩
  | newLoop =>
    simp only [step]
    split
    · exact ⟨hph, hal, hdir, hrl, hrd⟩
    · rename_i hc
      have ho : s.loopOpen = false := by simpa using hc
      refine ⟨hph, by simp, hdir, ?_, ?_⟩
      · intro g t d he
        rcases hrl g t d he with h1 | ⟨h2, _⟩
        · left; simp; omega
        · left; simp; omega
      · intro g t d he
        have := hrd g t d he
        simp; omega
  | closeLoop =>
    simp only [step]
    split
    · rename_i hc
      have ha' : s.appOn = false := by simpa using hc.2.1
      have hw' : s.winding = false := by simpa using hc.2.2
      refine ⟨hph, by simp [ha', hw'], hdir, ?_, hrd⟩
      intro g t d he
      rcases hrl g t d he with h1 | ⟨h2, _⟩
      · left; exact h1
      · right; exact ⟨h2, rfl⟩
    · exact ⟨hph, hal, hdir, hrl, hrd⟩
  | inval =>
    simp only [step]
    split
    · rename_i hc
      refine ⟨?_, hal, hdir, hrl, hrd⟩
      simp only [phRun_append, hph, hc, phaseOf]; rfl
    · exact ⟨hph, hal, hdir, hrl, hrd⟩
  | exit =>
    simp only [step]
    split <;> exact ⟨hph, hal, hdir, hrl, hrd⟩

/-! ### main theorems: exactly once, order, contiguity -/

theorem stream_run (s : St) (ops : List Op) (hn : NoReg s) (hc : calm s ops = true) :
    stream (runOps s ops) = stream s ++ allText ops ∧ (runOps s ops).lost = s.lost := by
  induction ops generalizing s with
  | nil => simp [runOps, allText, writesOf]
  | cons o os ih =>
    simp only [calm, Bool.and_eq_true] at hc
    obtain ⟨h1, h2⟩ := stream_step s o hn hc.1
    obtain ⟨h3, h4⟩ := ih (step s o) (noReg_step s o hn) hc.2
    simp only [runOps, h3, h4, h1, h2, allText_cons, List.append_assoc, and_self]

/-- **stream_invariant.**  At every state reachable by a calm schedule, the text already given to the
    output, followed by the tasks `run_in_terminal` made that did not start yet, the callbacks waiting in
    the loop, the text held by the flush thread, the queue and the line buffer, is exactly the
    concatenation of all write calls in lock-acquisition order; nothing was dropped — wherever the
    start, `exit()`, wake-up (`stop`) and return (`finish`) of the application fall between these steps. -/
theorem stream_invariant (raw : Bool) (ops : List Op) (hc : calm (init raw) ops = true) :
    stream (runOps (init raw) ops) = allText ops ∧ (runOps (init raw) ops).lost = [] := by
  have := stream_run (init raw) ops (noReg_init raw) hc
  simpa [stream, init, outText, cat, held, qText, taskTexts] using this

example : calm (init false) [.write 0 ['a'], .newLoop, .start, .write 1 ['b', '\n', 'c'], .fl, .fl, .fl,
    .write 0 ['\n'], .run, .stop] = true := by decide

theorem quiescent_iff (s : St) : quiescent s = true ↔
    cat s.buffer = [] ∧ qText s.queue = [] ∧ held s.fl = [] ∧ s.pending = [] ∧ s.tasks = [] := by
  simp [quiescent, and_assoc]

/-- **exactly_once_after_flush.**  Once nothing is in flight any more (after a flush and after the
    flush thread and the loop have done their work), the output text is exactly the concatenation of
    all write calls, in lock-acquisition order: no character lost, duplicated or invented. -/
theorem exactly_once_after_flush (raw : Bool) (ops : List Op) (hc : calm (init raw) ops = true)
    (hq : quiescent (runOps (init raw) ops) = true) :
    outText (runOps (init raw) ops).log = allText ops := by
  obtain ⟨h, -⟩ := stream_invariant raw ops hc
  obtain ⟨h1, h2, h3, h4, h5⟩ := (quiescent_iff _).mp hq
  unfold cat at h1
  simpa [stream, h1, h2, h3, h4, h5, cat, taskTexts] using h

/-- the data of the write calls of a schedule, in lock-acquisition order -/
def writeData (ops : List Op) : List Text := (writesOf ops).map (·.2)

theorem allText_eq (ops : List Op) : allText ops = (writeData ops).flatten := rfl

/-- **write_contiguous.**  In the final output the `i`-th write call (counted in lock order, whatever
    thread made it) occupies one contiguous segment, starting where the earlier calls end: its text is
    never split by text of another call. -/
theorem write_contiguous (raw : Bool) (ops : List Op) (hc : calm (init raw) ops = true)
    (hq : quiescent (runOps (init raw) ops) = true) (i : Nat) (hi : i < (writeData ops).length) :
    ((outText (runOps (init raw) ops).log).drop (offset (writeData ops) i)).take (writeData ops)[i].length
      = (writeData ops)[i] := by
  rw [exactly_once_after_flush raw ops hc hq, allText_eq]
  exact segment_eq _ i hi

/-- **segments_tile.**  The segments of consecutive write calls follow each other without gap or
    overlap and together cover the whole output: every written character appears exactly once. -/
theorem segments_tile (raw : Bool) (ops : List Op) (hc : calm (init raw) ops = true)
    (hq : quiescent (runOps (init raw) ops) = true) :
    offset (writeData ops) 0 = 0 ∧
    (∀ i (hi : i < (writeData ops).length),
      offset (writeData ops) (i + 1) = offset (writeData ops) i + (writeData ops)[i].length) ∧
    offset (writeData ops) (writeData ops).length = (outText (runOps (init raw) ops).log).length := by
  refine ⟨offset_zero _, fun i hi => offset_succ _ i hi, ?_⟩
  rw [exactly_once_after_flush raw ops hc hq, allText_eq, offset_length]

/-- **per_thread_order.**  Two write calls of the same thread appear in the output in the order in
    which the thread made them (the earlier one ends before the later one starts). -/
theorem per_thread_order (ops : List Op) (i j : Nat) (hij : i < j) (hj : j < (writesOf ops).length)
    (_same : ((writesOf ops)[i]'(Nat.lt_trans hij hj)).1 = ((writesOf ops)[j]).1) :
    offset (writeData ops) i + ((writesOf ops)[i]'(Nat.lt_trans hij hj)).2.length
      ≤ offset (writeData ops) j := by
  have hj' : j < (writeData ops).length := by simpa [writeData] using hj
  have := segments_ordered (writeData ops) i j hij hj'
  simpa [writeData] using this

/-- the same fact read off the output: the segment of the later call starts at or after the end of the
    segment of the earlier call, and both segments carry exactly the text of their call -/
theorem per_thread_order_output (raw : Bool) (ops : List Op) (hc : calm (init raw) ops = true)
    (hq : quiescent (runOps (init raw) ops) = true) (i j : Nat) (hij : i < j)
    (hj : j < (writeData ops).length) :
    let out := outText (runOps (init raw) ops).log
    let L := writeData ops
    (out.drop (offset L i)).take (L[i]'(Nat.lt_trans hij hj)).length = L[i]'(Nat.lt_trans hij hj) ∧
    (out.drop (offset L j)).take L[j].length = L[j] ∧
    offset L i + (L[i]'(Nat.lt_trans hij hj)).length ≤ offset L j := by
  exact ⟨write_contiguous raw ops hc hq i (Nat.lt_trans hij hj), write_contiguous raw ops hc hq j hj,
    segments_ordered _ i j hij hj⟩

-- non-vacuity: three threads, partial lines, an application that starts and stops
example :
    let ops : List Op := [.write 0 ['a'], .write 1 ['b', '\n', 'c'], .newLoop, .start, .fl, .fl, .write 2 ['x', '\n'],
      .fl, .run, .write 0 ['\n'], .flush 1, .fl, .fl, .task, .fl, .run, .stop, .task, .fl, .fl, .finish, .fl]
    calm (init false) ops = true ∧ quiescent (runOps (init false) ops) = true ∧
    outText (runOps (init false) ops).log = ['a', 'b', '\n', 'c', 'x', '\n', '\n'] := by decide

/-
  FULL statements (no `calm` hypothesis) of `stream_invariant` / `exactly_once_after_flush` /
  `write_contiguous` / `per_thread_order_output`:
      ∀ raw ops, quiescent (runOps (init raw) ops) = true → outText (runOps (init raw) ops).log = allText ops
  They are FALSE of the current code: `lost_when_loop_closes_witness` (K1) and `order_swapped_witness`
  (K2) below refute them on concrete schedules, and the harness replays both on the real code.  The
  theorems above are the `_partial` versions: `calm` excludes exactly those two windows.  What holds
  without any hypothesis is `conservation` / `no_duplication`.
-/
theorem exactly_once_after_flush_partial (raw : Bool) (ops : List Op) (hc : calm (init raw) ops = true)
    (hq : quiescent (runOps (init raw) ops) = true) :
    outText (runOps (init raw) ops).log = allText ops := exactly_once_after_flush raw ops hc hq

/-! ### main theorems: the prompt bracket -/

/-
  FULL statement of `inside_bracket` (no `startCalm` hypothesis) is FALSE of the current code:
  `text_on_prompt_witness` (K3).  `inside_bracket` is the `_partial` version: `startCalm` excludes exactly
  the schedules in which an application starts between the flush thread's `_get_app_loop() is None`
  and its direct write.
-/

theorem binv_run (s : St) (ops : List Op) (hs : startCalm s ops = true) (h : BInv s) :
    BInv (runOps s ops) := by
  induction ops generalizing s with
  | nil => exact h
  | cons o os ih =>
    simp only [startCalm, Bool.and_eq_true] at hs
    exact ih (step s o) hs.2 (binv_step s o hs.1 h)

/-- **inside_bracket.**  For every schedule in which no application starts inside the flush thread's
    "found no application → write directly" window, the sequence of terminal events is accepted by the
    automaton `phStep`: text is written plainly only while no prompt is on the screen, and while an
    application runs every batch is `erase; text; redraw`, the sections following each other without
    overlap.  The automaton ends in `on` exactly when an application is running. -/
theorem inside_bracket (raw : Bool) (ops : List Op) (hs : startCalm (init raw) ops = true) :
    phRun .off (runOps (init raw) ops).log = some (phaseOf (runOps (init raw) ops).appOn) :=
  (binv_run _ ops hs (binv_init raw)).ph

theorem inside_bracket_partial (raw : Bool) (ops : List Op) (hs : startCalm (init raw) ops = true) :
    phRun .off (runOps (init raw) ops).log = some (phaseOf (runOps (init raw) ops).appOn) :=
  inside_bracket raw ops hs

theorem phRun_split {p q : Ph} {pre post : List Ev} {e : Ev} (h : phRun p (pre ++ e :: post) = some q) :
    ∃ p1 p2, phRun p pre = some p1 ∧ phStep p1 e = some p2 ∧ phRun p2 post = some q := by
  rw [phRun_append] at h
  cases h1 : phRun p pre with
  | none => simp [h1] at h
  | some p1 =>
    simp only [h1, Option.bind_some, phRun] at h
    cases h2 : phStep p1 e with
    | none => simp [h2] at h
    | some p2 => exact ⟨p1, p2, rfl, h2, by simpa [h2] using h⟩

/-- **text_never_on_prompt.**  Whenever text reaches the output, the prompt is not on the screen: either
    no application is showing one (`off`) or the prompt has just been erased for this section (`sec0`). -/
theorem text_never_on_prompt (raw : Bool) (ops : List Op) (hs : startCalm (init raw) ops = true)
    (pre post : List Ev) (r : Bool) (t : Text)
    (hl : (runOps (init raw) ops).log = pre ++ .out r t :: post) :
    phRun .off pre = some .off ∨ phRun .off pre = some .sec0 := by
  have h := inside_bracket raw ops hs
  rw [hl] at h
  obtain ⟨p1, p2, h1, h2, -⟩ := phRun_split h
  cases p1 <;> simp [phStep] at h2 <;> simp [h1]

/-- **section_shape.**  A text written after an erase is followed by the redraw of the prompt before
    anything else happens on the terminal. -/
theorem section_shape (raw : Bool) (ops : List Op) (hs : startCalm (init raw) ops = true)
    (pre post : List Ev) (r : Bool) (t : Text)
    (hl : (runOps (init raw) ops).log = pre ++ .erase :: .out r t :: post) :
    ∃ post', post = .draw :: post' := by
  have h := inside_bracket raw ops hs
  rw [hl] at h
  obtain ⟨p1, p2, h1, h2, h3⟩ := phRun_split h
  have hp2 : p2 = .sec0 := by cases p1 <;> simp [phStep] at h2 <;> exact h2.symm
  subst hp2
  -- after `erase` the automaton is in sec0, the `out` moves it to sec1, which accepts only `draw`
  simp only [phRun, phStep] at h3
  cases post with
  | nil =>
    -- the log cannot end inside a section: the final phase is on/off
    simp [phRun, phaseOf] at h3
    split at h3 <;> simp at h3
  | cons e es =>
    cases e <;> simp [phRun, phStep] at h3
    exact ⟨es, rfl⟩

example : startCalm (init true) [.newLoop, .start, .write 0 ['a', '\n'], .fl, .fl, .fl, .run, .task, .stop, .finish,
    .write 1 ['b', '\n'], .fl, .fl, .fl] = true ∧
    (runOps (init true) [.newLoop, .start, .write 0 ['a', '\n'], .fl, .fl, .fl, .run, .task, .stop, .finish,
    .write 1 ['b', '\n'], .fl, .fl, .fl]).log = [.draw, .erase, .out true ['a', '\n'], .draw, .doneDraw, .out true ['b', '\n']] := by decide


/-! ### the flush thread stays alive (F8) -/

def hasDone : List Item → Bool
  | [] => false
  | .done :: _ => true
  | .text _ :: q => hasDone q

def flDone : Fl → Bool
  | .batch _ d => d
  | .ready _ _ d => d
  | .relook _ _ d => d
  | .exited => true
  | .idle => false

def noClose : List Op → Bool
  | [] => true
  | .close :: _ => false
  | _ :: os => noClose os

theorem hasDone_append (a b : List Item) : hasDone (a ++ b) = (hasDone a || hasDone b) := by
  induction a with
  | nil => rfl
  | cons e es ih => cases e <;> simp [hasDone, ih]

theorem drain_snd (q : List Item) : (drain q).2 = hasDone q := by
  induction q with
  | nil => rfl
  | cons e es ih => cases e <;> simp [drain, hasDone, ih]

theorem alive_step (s : St) (o : Op) (ho : o ≠ .close)
    (h : hasDone s.queue = false ∧ flDone s.fl = false) :
    hasDone (step s o).queue = false ∧ flDone (step s o).fl = false := by
  obtain ⟨hq, hf⟩ := h
  cases o with
  | close => exact absurd rfl ho
  | write t d =>
    simp only [step, doWrite]
    split <;> simp [hasDone_append, hasDone, hq, hf]
  | flush t => simp [step, doFlush, hasDone_append, hasDone, hq, hf]
  | fl =>
    simp only [step, flStep]
    cases hfl : s.fl with
    | idle =>
      simp only
      cases hq' : s.queue with
      | nil => simp [hq', hfl, hasDone, flDone]
      | cons i q =>
        rw [hq'] at hq
        cases i with
        | done => simp [hasDone] at hq
        | text t =>
          simp only [hasDone] at hq
          cases t with
          | nil => simp [hq, hfl, flDone]
          | cons c cs => simp [hasDone, flDone, drain_snd, hq]
    | batch txt dn => rw [hfl] at hf; simpa [flDone] using ⟨hq, hf⟩
    | ready lp txt dn =>
      rw [hfl] at hf
      simp only [flDone] at hf
      cases lp with
      | none => simp [hq, hf, afterEmit, flDone]
      | some g => simp only; split <;> simp [hq, hf, afterEmit, flDone]
    | relook g txt dn => rw [hfl] at hf; simpa [flDone] using ⟨hq, hf⟩
    | exited => rw [hfl] at hf; simp [flDone] at hf
  | writeBad t => exact ⟨hq, hf⟩
  | run => simp only [step, runStep]; split <;> exact ⟨hq, hf⟩
  | task =>
    simp only [step, taskStep]
    split
    · exact ⟨hq, hf⟩
    · split <;> exact ⟨hq, hf⟩
  | start => simp only [step]; split <;> exact ⟨hq, hf⟩
  | stop => simp only [step]; split <;> exact ⟨hq, hf⟩
  | finish => simp only [step]; split <;> exact ⟨hq, hf⟩
  | newLoop => simp only [step]; split <;> exact ⟨hq, hf⟩
  | closeLoop => simp only [step]; split <;> exact ⟨hq, hf⟩
  | inval => simp only [step]; split <;> exact ⟨hq, hf⟩
  | exit => simp only [step]; split <;> exact ⟨hq, hf⟩

/-- **flusher_alive.**  Unless `close()` is called, the flush thread never terminates — whatever the
    application and its event loop do (stop, loop closed between look-up and hand-off, new loop).
    (Before the F8 fix a closed loop killed the thread; see `f8_old_loses_new_delivers` below.) -/
theorem flusher_alive (raw : Bool) (ops : List Op) (hn : noClose ops = true) :
    (runOps (init raw) ops).fl ≠ .exited := by
  suffices h : ∀ s : St, hasDone s.queue = false ∧ flDone s.fl = false →
      hasDone (runOps s ops).queue = false ∧ flDone (runOps s ops).fl = false by
    have := (h (init raw) (by simp [init, hasDone, flDone])).2
    intro he; rw [he] at this; simp [flDone] at this
  intro s hs
  induction ops generalizing s with
  | nil => exact hs
  | cons o os ih =>
    have ho : o ≠ .close := by intro e; subst e; simp [noClose] at hn
    have hn' : noClose os = true := by cases o <;> simp_all [noClose]
    exact ih hn' (step s o) (alive_step s o ho hs)

example : noClose [.newLoop, .start, .write 0 ['a', '\n'], .fl, .fl, .stop, .finish, .closeLoop, .fl, .fl, .fl] = true ∧
    (runOps (init false) [.newLoop, .start, .write 0 ['a', '\n'], .fl, .fl, .stop, .finish, .closeLoop, .fl, .fl, .fl]).fl = .idle ∧
    (runOps (init false) [.newLoop, .start, .write 0 ['a', '\n'], .fl, .fl, .stop, .finish, .closeLoop, .fl, .fl, .fl]).log
      = [.draw, .doneDraw, .out false ['a', '\n']] := by decide

/-! ### the excluded windows are real: witnesses (known findings) -/

/-- K1: a callback was accepted by the loop, the application stops and the loop is closed before the
    callback ran: the text is gone although everything was flushed. -/
def k1 : List Op := [.newLoop, .start, .write 0 ['a', '\n'], .fl, .fl, .fl, .stop, .finish, .closeLoop, .flush 0, .fl]

theorem lost_when_loop_closes_witness :
    quiescent (runOps (init false) k1) = true ∧ calm (init false) k1 = false ∧
    outText (runOps (init false) k1).log = [] ∧ allText k1 = ['a', '\n'] ∧
    (runOps (init false) k1).lost = [['a', '\n']] := by decide

/-- K2: the flush thread hands `a` to a loop whose application has just stopped, then finds no
    application for `b` and writes it directly, before the loop ran the callback for `a`. -/
def k2 : List Op := [.newLoop, .start, .write 0 ['a', '\n'], .fl, .fl, .stop, .finish, .fl, .write 0 ['b', '\n'],
  .fl, .fl, .fl, .run, .task]

theorem order_swapped_witness :
    quiescent (runOps (init false) k2) = true ∧ calm (init false) k2 = false ∧
    outText (runOps (init false) k2).log = ['b', '\n', 'a', '\n'] ∧ allText k2 = ['a', '\n', 'b', '\n'] := by decide

/-- K3: the flush thread finds no application, an application starts and draws its prompt, the direct
    write lands on the drawn prompt. -/
def k3 : List Op := [.write 0 ['a', '\n'], .fl, .fl, .newLoop, .start, .fl]

theorem text_on_prompt_witness :
    startCalm (init false) k3 = false ∧
    (runOps (init false) k3).log = [.draw, .out false ['a', '\n']] ∧
    phRun .off (runOps (init false) k3).log = none := by decide


/-! ### conservation, for every schedule (also the ones that are not calm) -/

/-- every place where a written character can be: the output, callbacks / tasks dropped by a closed loop
    (or cancelled by the application, in the `regTasks` variant), tasks waiting for their first step,
    callbacks waiting in the loop, the flush thread's locals, the queue, the line buffer -/
def everywhere (s : St) : Text :=
  outText s.log ++ cat s.lost ++ cat (taskTexts s.tasks) ++ cat s.pending ++ held s.fl ++ qText s.queue ++ cat s.buffer

theorem count_filter_split (ts : List Task) (c : Char) :
    (cat (taskTexts (ts.filter notReg))).count c + (cat (taskTexts (ts.filter isReg))).count c
      = (cat (taskTexts ts)).count c := by
  induction ts with
  | nil => simp [taskTexts, cat]
  | cons k ks ih =>
    cases hk : k.reg <;>
      simp [List.filter, notReg, isReg, hk, taskTexts, cat, List.count_append] at ih ⊢ <;> omega

theorem count_step (s : St) (o : Op) (c : Char) :
    (everywhere (step s o)).count c = (everywhere s).count c + (opText o).count c := by
  cases o with
  | write t d =>
    simp only [step, doWrite, opText]
    cases hr : rsplitNl d with
    | none => simp [everywhere, cat, List.count_append]; omega
    | some p =>
      obtain ⟨b, a⟩ := p
      have := rsplitNl_some hr
      simp [everywhere, cat, qText_append, qText, ← this, List.count_append, List.count_cons]; omega
  | flush t => simp [step, doFlush, everywhere, cat, qText_append, qText, opText, List.count_append]
  | close => simp [step, everywhere, qText_append, qText, opText]
  | fl =>
    simp only [step, flStep, opText, List.count_nil, Nat.add_zero]
    cases hf : s.fl with
    | idle =>
      simp only
      cases hq : s.queue with
      | nil => simp [everywhere, hf, hq]
      | cons i q =>
        cases i with
        | done => simp [everywhere, hf, hq, held, qText]
        | text t =>
          cases t with
          | nil => simp [everywhere, hf, hq, held, qText]
          | cons c' cs =>
            simp only
            have := drain_fst q
            cases hd : drain q with
            | mk r d =>
              rw [hd] at this
              simp at this
              simp [everywhere, hf, hq, held, qText, this, List.count_append]
    | batch txt dn => simp [everywhere, hf, held]
    | ready lp txt dn =>
      cases lp with
      | none =>
        simp only [everywhere, held_afterEmit, hf]
        simp [held, outText_append, outText, cat, List.count_append]; omega
      | some g =>
        simp only
        split
        · simp only [everywhere, held_afterEmit, hf]; simp [held, cat, List.count_append]
        · simp [everywhere, hf, held]
    | relook g txt dn => simp [everywhere, hf, held]
    | exited => simp [everywhere, hf]
  | writeBad t => simp [step, opText]
  | run =>
    simp only [step, runStep, opText, List.count_nil, Nat.add_zero]
    cases hp : s.pending with
    | nil => simp [everywhere, hp]
    | cons t ps => simp [everywhere, hp, cat, taskTexts, List.count_append]
  | task =>
    simp only [step, taskStep, opText, List.count_nil, Nat.add_zero]
    cases hp : s.tasks with
    | nil => simp [everywhere, hp]
    | cons k ts =>
      simp only
      split <;> (simp [everywhere, hp, cat, taskTexts, outText_append, outText, List.count_append]; omega)
  | start =>
    simp only [step, opText, List.count_nil, Nat.add_zero]
    split <;> simp [everywhere, outText_append, outText]
  | stop =>
    simp only [step, opText, List.count_nil, Nat.add_zero]
    split
    · have := count_filter_split s.tasks c
      simp only [cat] at this
      simp [everywhere, outText_append, outText, cat, List.count_append]
      omega
    · rfl
  | finish =>
    simp only [step, opText, List.count_nil, Nat.add_zero]
    split <;> simp [everywhere]
  | newLoop =>
    simp only [step, opText, List.count_nil, Nat.add_zero]
    split <;> simp [everywhere]
  | closeLoop =>
    simp only [step, opText, List.count_nil, Nat.add_zero]
    split
    · simp [everywhere, cat, taskTexts, List.count_append]
    · rfl
  | inval =>
    simp only [step, opText, List.count_nil, Nat.add_zero]
    split <;> simp [everywhere, outText_append, outText]
  | exit =>
    simp only [step, opText, List.count_nil, Nat.add_zero]
    split <;> simp [everywhere]

/-- **conservation.**  For *every* schedule — including the ones in which a loop is closed with callbacks
    still waiting, or the flush thread overtakes the loop — no character is invented or duplicated: the
    characters in the output, in dropped callbacks, and still in flight are, as a multiset, exactly the
    characters written.  (What the non-calm schedules can break is only the order, and the arrival of
    the dropped callbacks' text.) -/
theorem conservation (raw : Bool) (ops : List Op) :
    (everywhere (runOps (init raw) ops)).Perm (allText ops) := by
  rw [List.perm_iff_count]
  intro c
  suffices h : ∀ s : St, (everywhere (runOps s ops)).count c = (everywhere s).count c + (allText ops).count c by
    have := h (init raw)
    simpa [everywhere, init, outText, cat, held, qText, taskTexts] using this
  intro s
  induction ops generalizing s with
  | nil => simp [runOps, allText, writesOf]
  | cons o os ih =>
    simp only [runOps, ih (step s o), count_step, allText_cons, List.count_append]; omega

/-- nothing is duplicated: the output never has more occurrences of a character than were written -/
theorem no_duplication (raw : Bool) (ops : List Op) (c : Char) :
    (outText (runOps (init raw) ops).log).count c ≤ (allText ops).count c := by
  have := (List.perm_iff_count.mp (conservation raw ops)) c
  simp only [everywhere, List.count_append] at this
  omega

example : (everywhere (runOps (init false) k1)) = ['a', '\n'] ∧ outText (runOps (init false) k1).log = [] := by decide


/-! ### the code before the F8 fix (commit 030f7c4), for the record -/

/-- `_write_and_flush` before the fix: `loop.call_soon_threadsafe` on a closed loop raised
    `RuntimeError` out of `_write_thread`: the flush thread ended, its text was gone -/
def flStepOld (s : St) : St :=
  match s.fl with
  | .ready (some g) _ _ => if g = s.loopGen ∧ s.loopOpen then flStep s else { s with fl := .exited }
  | _ => flStep s

def stepOld (s : St) : Op → St
  | .fl => flStepOld s
  | o => step s o

def runOpsOld (s : St) : List Op → St
  | [] => s
  | o :: os => runOpsOld (stepOld s o) os

/-- the F8 schedule: look-up, application stops, loop closed, hand-off; then another write and flush -/
def f8 : List Op := [.newLoop, .start, .write 0 ['a', '\n'], .fl, .fl, .stop, .finish, .closeLoop, .fl, .fl, .fl,
  .write 0 ['b', '\n'], .fl, .fl, .fl]

/-- **F8 (fixed).**  On the old code the schedule `f8` — which is calm, and contains no `close()` — kills the
    flush thread and loses both lines; on the current code both lines arrive and the thread lives. -/
theorem f8_old_loses_new_delivers :
    calm (init false) f8 = true ∧ noClose f8 = true ∧
    (runOpsOld (init false) f8).fl = .exited ∧ outText (runOpsOld (init false) f8).log = [] ∧
    (runOps (init false) f8).fl = .idle ∧
    outText (runOps (init false) f8).log = ['a', '\n', 'b', '\n'] := by decide

/-! ### driving to quiescence (`settle`): the epilogue "flush, then let everybody finish" -/

/-- the steps `settle` performs: sections of the flush thread, callbacks and task steps of the loop -/
def flRunTask (o : Op) : Prop := o = .fl ∨ o = .run ∨ o = .task

/-- `settle` only performs flush-thread and loop steps, and the schedule it performs is calm and
    start-calm: the loop works off what it holds before the flush thread moves on -/
theorem settle_is_calm_schedule (n : Nat) (s : St) :
    ∃ ops, settle n s = runOps s ops ∧ calm s ops = true ∧ startCalm s ops = true ∧
      ∀ o ∈ ops, flRunTask o := by
  induction n generalizing s with
  | zero => exact ⟨[], rfl, rfl, rfl, by simp⟩
  | succ n ih =>
    simp only [settle]
    by_cases ht : s.tasks.isEmpty = true
    · simp only [ht, Bool.not_true, Bool.false_eq_true, if_false]
      by_cases hp : s.pending.isEmpty = true
      · simp only [hp, Bool.not_true, Bool.false_eq_true, if_false]
        by_cases hf : flEnabled s = true
        · simp only [hf, if_true]
          obtain ⟨ops, h1, h2, h3, h4⟩ := ih (flStep s)
          refine ⟨.fl :: ops, by simpa [runOps, step] using h1, ?_, ?_, ?_⟩
          · simp only [calm, Bool.and_eq_true]
            refine ⟨?_, by simpa [step] using h2⟩
            simp only [calmStep]; split <;> simp [loopIdle, hp, ht]
          · simp only [startCalm, startSafe, Bool.true_and]; simpa [step] using h3
          · intro o ho; rcases List.mem_cons.mp ho with rfl | ho
            · exact Or.inl rfl
            · exact h4 o ho
        · simp only [hf, Bool.false_eq_true, if_false]
          exact ⟨[], rfl, rfl, rfl, by simp⟩
      · simp only [hp, Bool.not_false, if_true]
        obtain ⟨ops, h1, h2, h3, h4⟩ := ih (runStep s)
        refine ⟨.run :: ops, by simpa [runOps, step] using h1, ?_, ?_, ?_⟩
        · simp only [calm, calmStep, Bool.true_and]; simpa [step] using h2
        · simp only [startCalm, startSafe, Bool.true_and]; simpa [step] using h3
        · intro o ho; rcases List.mem_cons.mp ho with rfl | ho
          · exact Or.inr (Or.inl rfl)
          · exact h4 o ho
    · simp only [ht, Bool.not_false, if_true]
      obtain ⟨ops, h1, h2, h3, h4⟩ := ih (taskStep s)
      refine ⟨.task :: ops, by simpa [runOps, step] using h1, ?_, ?_, ?_⟩
      · simp only [calm, calmStep, Bool.true_and]; simpa [step] using h2
      · simp only [startCalm, startSafe, Bool.true_and]; simpa [step] using h3
      · intro o ho; rcases List.mem_cons.mp ho with rfl | ho
        · exact Or.inr (Or.inr rfl)
        · exact h4 o ho

/-- nothing can move any more: the loop has no task and no callback, the flush thread is blocked in `get()`
    or gone -/
def settled (s : St) : Bool := s.tasks.isEmpty && s.pending.isEmpty && !flEnabled s

theorem settled_quiescent (s : St) (h : settled s = true) (hfl : s.fl ≠ .exited) (hb : cat s.buffer = []) :
    quiescent s = true := by
  simp only [settled, Bool.and_eq_true, Bool.not_eq_true', List.isEmpty_iff] at h
  obtain ⟨⟨ht, hp⟩, hf⟩ := h
  rw [quiescent_iff]
  refine ⟨hb, ?_, ?_, hp, ht⟩
  · cases hfl' : s.fl <;> simp [flEnabled, hfl'] at hf
    · simp [hf, qText]
    · exact absurd hfl' hfl
  · cases hfl' : s.fl <;> simp [flEnabled, hfl'] at hf <;> simp [held]


/-! ### `settle` terminates: after a flush the text does arrive -/

/-- sections the flush thread still needs for the batch it holds, once `_get_app_loop` returned `l`
    (second look-up after a `RuntimeError`: the loop found is the application's current one) -/
def rankReady2 (s : St) : Option Nat → Nat
  | none => 2
  | some g => if g = s.loopGen ∧ s.loopOpen then 2 else 5

def relookTarget (s : St) (g : Nat) : Option Nat := if appLoop s = some g then none else appLoop s

def rankReady (s : St) : Option Nat → Nat
  | none => 2
  | some g => if g = s.loopGen ∧ s.loopOpen then 2 else 2 + rankReady2 s (relookTarget s g)

def rank (s : St) : Nat :=
  match s.fl with
  | .idle => 0
  | .exited => 0
  | .batch _ _ => 10
  | .ready l _ _ => rankReady s l
  | .relook g _ _ => 1 + rankReady2 s (relookTarget s g)

/-- what is left to do: queue items to take, sections of the flush thread, callbacks to run (each makes a
    task), tasks to start -/
def measure (s : St) : Nat := 21 * s.queue.length + 2 * rank s + 2 * s.pending.length + s.tasks.length

theorem rankReady2_le (s : St) (l : Option Nat) : rankReady2 s l ≤ 5 := by
  cases l <;> simp [rankReady2]; split <;> omega

theorem rankReady_le (s : St) (l : Option Nat) : rankReady s l ≤ 7 := by
  cases l with
  | none => simp [rankReady]
  | some g => simp only [rankReady]; split; omega; have := rankReady2_le s (relookTarget s g); omega

theorem run_decreases (s : St) (h : s.pending.isEmpty = false) : measure (runStep s) < measure s := by
  cases hp : s.pending with
  | nil => simp [hp] at h
  | cons t ps =>
    simp only [runStep, hp]
    have e : rank { s with pending := ps, tasks := s.tasks ++ [{ txt := t, reg := s.regTasks && s.appOn }] } = rank s := rfl
    simp only [measure, e, hp, List.length_append, List.length_cons, List.length_nil]
    omega

theorem task_decreases (s : St) (h : s.tasks.isEmpty = false) : measure (taskStep s) < measure s := by
  cases hp : s.tasks with
  | nil => simp [hp] at h
  | cons k ts =>
    simp only [taskStep, hp]
    split
    · have e : rank { s with tasks := ts, log := s.log ++ [.erase, .out s.raw k.txt, .draw] } = rank s := rfl
      simp only [measure, e, hp, List.length_cons]
      omega
    · have e : rank { s with tasks := ts, log := s.log ++ [.out s.raw k.txt] } = rank s := rfl
      simp only [measure, e, hp, List.length_cons]
      omega

theorem relookTarget_some {s : St} {g g' : Nat} (h : relookTarget s g = some g') : appLoop s = some g' := by
  unfold relookTarget at h
  split at h
  · cases h
  · exact h

theorem fl_decreases (s : St) (h : flEnabled s = true) : measure (flStep s) < measure s := by
  simp only [flStep]
  cases hf : s.fl with
  | idle =>
    simp only
    cases hq : s.queue with
    | nil => simp [flEnabled, hf, hq] at h
    | cons i q =>
      cases i with
      | done => simp [measure, rank, hf, hq]
      | text t =>
        cases t with
        | nil => simp [measure, rank, hf, hq]
        | cons c cs => simp [measure, rank, hf, hq]; omega
  | exited => simp [flEnabled, hf] at h
  | batch txt dn =>
    have := rankReady_le s (appLoop s)
    simp only [measure, rank, hf]
    have e : rankReady { s with fl := Fl.ready (appLoop s) txt dn } (appLoop s) = rankReady s (appLoop s) := by
      cases appLoop s <;> simp [rankReady, rankReady2, relookTarget, appLoop]
    simp only [e]; omega
  | ready lp txt dn =>
    cases lp with
    | none =>
      cases dn <;> simp [measure, rank, hf, afterEmit, rankReady]
    | some g =>
      simp only
      split
      · rename_i hc
        cases dn <;> simp [measure, rank, hf, afterEmit, rankReady, hc] <;> omega
      · rename_i hc
        simp only [measure, rank, hf, rankReady, hc, if_false]
        have e : rankReady2 { s with fl := Fl.relook g txt dn } (relookTarget { s with fl := Fl.relook g txt dn } g)
            = rankReady2 s (relookTarget s g) := by
          simp only [relookTarget, appLoop]
          split <;> simp [rankReady2]
        simp only [e]; omega
  | relook g txt dn =>
    simp only [measure, rank, hf]
    -- after the second look-up the flush thread holds `relookTarget s g`
    show 21 * s.queue.length + 2 * rankReady { s with fl := Fl.ready (relookTarget s g) txt dn } (relookTarget s g)
          + 2 * s.pending.length + s.tasks.length
        < 21 * s.queue.length + 2 * (1 + rankReady2 s (relookTarget s g)) + 2 * s.pending.length + s.tasks.length
    suffices hle : rankReady { s with fl := Fl.ready (relookTarget s g) txt dn } (relookTarget s g)
        ≤ rankReady2 s (relookTarget s g) by omega
    cases ht : relookTarget s g with
    | none => simp [rankReady, rankReady2]
    | some g' =>
      have hl := relookTarget_some ht
      have hl' : appLoop { s with fl := Fl.ready (some g') txt dn } = some g' := hl
      simp only [rankReady, rankReady2]
      split
      · omega
      · simp [relookTarget, hl', rankReady2]

theorem settle_settles (n : Nat) (s : St) (h : measure s ≤ n) : settled (settle n s) = true := by
  induction n generalizing s with
  | zero =>
    have hm : measure s = 0 := Nat.le_zero.mp h
    simp only [settle, settled]
    have hp : s.pending = [] := by
      cases hp : s.pending with
      | nil => rfl
      | cons t ps => simp [measure, hp] at hm
    have ht : s.tasks = [] := by
      cases ht : s.tasks with
      | nil => rfl
      | cons t ps => simp [measure, ht] at hm
    have hf : flEnabled s = false := by
      cases hfe : flEnabled s with
      | false => rfl
      | true => have := fl_decreases s hfe; omega
    simp [hp, ht, hf]
  | succ n ih =>
    simp only [settle]
    by_cases ht : s.tasks.isEmpty = true
    · simp only [ht, Bool.not_true, Bool.false_eq_true, if_false]
      by_cases hp : s.pending.isEmpty = true
      · simp only [hp, Bool.not_true, Bool.false_eq_true, if_false]
        by_cases hf : flEnabled s = true
        · simp only [hf, if_true]
          exact ih (flStep s) (by have := fl_decreases s hf; omega)
        · simp only [hf, Bool.false_eq_true, if_false]
          simp [settled, hp, ht, hf]
      · have hp' : s.pending.isEmpty = false := by simpa using hp
        simp only [hp', Bool.not_false, if_true]
        exact ih (runStep s) (by have := run_decreases s hp'; omega)
    · have ht' : s.tasks.isEmpty = false := by simpa using ht
      simp only [ht', Bool.not_false, if_true]
      exact ih (taskStep s) (by have := task_decreases s ht'; omega)


theorem runOps_append (s : St) (a b : List Op) : runOps s (a ++ b) = runOps (runOps s a) b := by
  induction a generalizing s with
  | nil => rfl
  | cons o os ih => simp only [List.cons_append, runOps]; exact ih _

theorem calm_append (s : St) (a b : List Op) : calm s (a ++ b) = (calm s a && calm (runOps s a) b) := by
  induction a generalizing s with
  | nil => simp [calm, runOps]
  | cons o os ih => simp only [List.cons_append, calm, runOps, ih, Bool.and_assoc]

theorem noClose_append (a b : List Op) : noClose (a ++ b) = (noClose a && noClose b) := by
  induction a with
  | nil => simp [noClose]
  | cons o os ih => cases o <;> simp [noClose, ih]

theorem allText_append (a b : List Op) : allText (a ++ b) = allText a ++ allText b := by
  induction a with
  | nil => simp [allText, writesOf]
  | cons o os ih => simp only [List.cons_append, allText_cons, ih, List.append_assoc]

theorem flrun_noWrites (ops : List Op) (h : ∀ o ∈ ops, flRunTask o) :
    allText ops = [] ∧ noClose ops = true := by
  induction ops with
  | nil => simp [allText, writesOf, noClose]
  | cons o os ih =>
    have ho := h o (by simp)
    have := ih (fun o' ho' => h o' (by simp [ho']))
    rcases ho with rfl | rfl | rfl <;> simp [allText_cons, opText, noClose, this]

theorem flrun_buffer (s : St) (ops : List Op) (h : ∀ o ∈ ops, flRunTask o) :
    (runOps s ops).buffer = s.buffer := by
  induction ops generalizing s with
  | nil => rfl
  | cons o os ih =>
    have ho := h o (by simp)
    rw [runOps, ih _ (fun o' ho' => h o' (by simp [ho']))]
    rcases ho with rfl | rfl | rfl
    · simp only [step, flStep]
      split
      · split <;> rfl
      · rfl
      · rfl
      · split <;> rfl
      · rfl
      · rfl
    · simp only [step, runStep]
      split <;> rfl
    · simp only [step, taskStep]
      split
      · rfl
      · split <;> rfl

/-- **flush_then_settle_delivers.**  Take any calm schedule without `close()`.  Let any thread call
    `flush()` and then let the loop and the flush thread run (`settle`, with at least `measure` steps of
    fuel — it needs no more).  Then nothing is in flight any more and the output is exactly the text of
    all write calls in lock-acquisition order.  (Safety *and* arrival: "after a flush every written
    character appears in the terminal output exactly once".) -/
theorem flush_then_settle_delivers (raw : Bool) (ops : List Op) (t : Nat)
    (hc : calm (init raw) ops = true) (hn : noClose ops = true) (n : Nat)
    (hfuel : measure (runOps (init raw) (ops ++ [.flush t])) ≤ n) :
    quiescent (settle n (runOps (init raw) (ops ++ [.flush t]))) = true ∧
    outText (settle n (runOps (init raw) (ops ++ [.flush t]))).log = allText ops := by
  obtain ⟨ops', h1, h2, -, h4⟩ := settle_is_calm_schedule n (runOps (init raw) (ops ++ [.flush t]))
  obtain ⟨hw, hnc⟩ := flrun_noWrites ops' h4
  have hrun : settle n (runOps (init raw) (ops ++ [.flush t])) = runOps (init raw) (ops ++ [.flush t] ++ ops') := by
    rw [h1, ← runOps_append]
  have hcalm : calm (init raw) (ops ++ [.flush t] ++ ops') = true := by
    rw [calm_append, h2, calm_append, hc]; simp [calm, calmStep]
  have hnoc : noClose (ops ++ [.flush t] ++ ops') = true := by
    simp [noClose_append, hn, hnc, noClose]
  have hall : allText (ops ++ [.flush t] ++ ops') = allText ops := by
    rw [allText_append, allText_append, hw]
    simp [allText_cons, opText]
    simp [allText, writesOf]
  have halive := flusher_alive raw _ hnoc
  have hset := settle_settles n _ hfuel
  have hbuf : cat (settle n (runOps (init raw) (ops ++ [.flush t]))).buffer = [] := by
    rw [h1, flrun_buffer _ _ h4, runOps_append]
    simp [runOps, step, doFlush, cat]
  have hq : quiescent (settle n (runOps (init raw) (ops ++ [.flush t]))) = true :=
    settled_quiescent _ hset (by rw [hrun]; exact halive) hbuf
  refine ⟨hq, ?_⟩
  rw [hrun] at hq ⊢
  rw [exactly_once_after_flush raw _ hcalm hq, hall]

-- non-vacuity: three writers, an application, text still everywhere (buffer, queue, flush thread, loop)
example :
    let ops : List Op := [.newLoop, .start, .write 0 ['a', '\n'], .fl, .fl, .fl, .write 1 ['b', '\n'], .fl, .fl,
      .write 2 ['c', '\n'], .write 0 ['d']]
    calm (init false) ops = true ∧ noClose ops = true ∧
    measure (runOps (init false) (ops ++ [.flush 1])) ≤ 80 ∧
    quiescent (runOps (init false) ops) = false ∧
    outText (settle 80 (runOps (init false) (ops ++ [.flush 1]))).log = ['a', '\n', 'b', '\n', 'c', '\n', 'd'] := by
  decide


/-! ### complete lines are never held back -/

theorem no_nl_step (s : St) (o : Op) (h : '\n' ∉ cat s.buffer) : '\n' ∉ cat (step s o).buffer := by
  cases o with
  | write t d =>
    simp only [step, doWrite]
    cases hr : rsplitNl d with
    | none =>
      have := rsplitNl_none.mp hr
      simp only [cat, List.flatten_append, List.flatten_cons, List.flatten_nil, List.append_nil,
        List.mem_append, not_or] at h ⊢
      exact ⟨h, this⟩
    | some p =>
      obtain ⟨b, a⟩ := p
      have := rsplitNl_some_after hr
      simpa [cat] using this
  | flush t => simp [step, doFlush, cat]
  | close => exact h
  | fl =>
    simp only [step, flStep]
    split
    · split <;> exact h
    · exact h
    · exact h
    · split <;> exact h
    · exact h
    · exact h
  | writeBad t => exact h
  | run => simp only [step, runStep]; split <;> exact h
  | task => simp only [step, taskStep]; split; exact h; split <;> exact h
  | start => simp only [step]; split <;> exact h
  | stop => simp only [step]; split <;> exact h
  | finish => simp only [step]; split <;> exact h
  | newLoop => simp only [step]; split <;> exact h
  | closeLoop => simp only [step]; split <;> exact h
  | inval => simp only [step]; split <;> exact h
  | exit => simp only [step]; split <;> exact h

/-- **no_newline_in_buffer.**  The line buffer never contains a newline: everything up to the last
    newline of a write is queued by that very write call; only an unfinished line waits for `flush()`. -/
theorem no_newline_in_buffer (raw : Bool) (ops : List Op) : '\n' ∉ cat (runOps (init raw) ops).buffer := by
  suffices h : ∀ s : St, '\n' ∉ cat s.buffer → '\n' ∉ cat (runOps s ops).buffer from h _ (by simp [init, cat])
  intro s hs
  induction ops generalizing s with
  | nil => exact hs
  | cons o os ih => exact ih _ (no_nl_step s o hs)

/-! ### `close()`: everything flushed before it arrives, then the flush thread ends -/

/-- text of the queue items behind the first `_Done` -/
def afterDone : List Item → Text
  | [] => []
  | .done :: q => qText q
  | .text _ :: q => afterDone q

structure CInv (s : St) : Prop where
  after : afterDone s.queue = []
  has : hasDone s.queue = true ∨ flDone s.fl = true
  drained : flDone s.fl = true → s.queue = [] ∨ s.fl = .exited
  gone : s.fl = .exited → qText s.queue = []

theorem cinv_flrun (s : St) (o : Op) (ho : flRunTask o) (h : CInv s) : CInv (step s o) := by
  obtain ⟨hafter, hhas, hdr, hgone⟩ := h
  rcases ho with rfl | rfl | rfl
  · simp only [step, flStep]
    cases hf : s.fl with
    | idle =>
      simp only
      have hhas' : hasDone s.queue = true := by
        rcases hhas with h | h
        · exact h
        · simp [hf, flDone] at h
      cases hq : s.queue with
      | nil => rw [hq] at hhas'; simp [hasDone] at hhas'
      | cons i q =>
        rw [hq] at hafter hhas'
        cases i with
        | done =>
          simp only [afterDone] at hafter
          exact ⟨by
            -- nothing but empty text behind the `_Done`
            clear hhas' hq
            induction q with
            | nil => rfl
            | cons x xs ih =>
              cases x with
              | done => simp only [qText] at hafter; simpa [afterDone] using hafter
              | text t =>
                simp only [qText, List.append_eq_nil_iff] at hafter
                simpa [afterDone] using ih hafter.2,
            Or.inr (by simp [flDone]), fun _ => Or.inr rfl, fun _ => hafter⟩
        | text t =>
          simp only [afterDone, hasDone] at hafter hhas'
          cases t with
          | nil => exact ⟨hafter, Or.inl hhas', by simp [hf, flDone], by simp [hf]⟩
          | cons c cs =>
            refine ⟨rfl, Or.inr ?_, fun _ => Or.inl rfl, by simp⟩
            simp [flDone, drain_snd, hhas']
    | batch txt dn =>
      refine ⟨hafter, ?_, ?_, by simp⟩
      · rcases hhas with h | h
        · exact Or.inl h
        · right; simpa [hf, flDone] using h
      · intro hd
        have : flDone s.fl = true := by simpa [hf, flDone] using hd
        rcases hdr this with h | h
        · exact Or.inl h
        · rw [hf] at h; cases h
    | ready lp txt dn =>
      have hdn : dn = true → s.queue = [] := by
        intro hd
        rcases hdr (by simp [hf, flDone, hd]) with h | h
        · exact h
        · rw [hf] at h; cases h
      cases lp with
      | none =>
        cases dn with
        | true =>
          have hq := hdn rfl
          exact ⟨hafter, Or.inr (by simp [afterEmit, flDone]), fun _ => Or.inr (by simp [afterEmit]), fun _ => by simp [hq, qText]⟩
        | false =>
          refine ⟨hafter, ?_, by simp [afterEmit, flDone], by simp [afterEmit]⟩
          rcases hhas with h | h
          · exact Or.inl h
          · simp [hf, flDone] at h
      | some g =>
        simp only
        split
        · cases dn with
          | true =>
            have hq := hdn rfl
            exact ⟨hafter, Or.inr (by simp [afterEmit, flDone]), fun _ => Or.inr (by simp [afterEmit]), fun _ => by simp [hq, qText]⟩
          | false =>
            refine ⟨hafter, ?_, by simp [afterEmit, flDone], by simp [afterEmit]⟩
            rcases hhas with h | h
            · exact Or.inl h
            · simp [hf, flDone] at h
        · refine ⟨hafter, ?_, ?_, by simp⟩
          · rcases hhas with h | h
            · exact Or.inl h
            · right; simpa [hf, flDone] using h
          · intro hd
            have : dn = true := by simpa [flDone] using hd
            exact Or.inl (hdn this)
    | relook g txt dn =>
      refine ⟨hafter, ?_, ?_, by simp⟩
      · rcases hhas with h | h
        · exact Or.inl h
        · right; simpa [hf, flDone] using h
      · intro hd
        have : flDone s.fl = true := by simpa [hf, flDone] using hd
        rcases hdr this with h | h
        · exact Or.inl h
        · rw [hf] at h; cases h
    | exited => exact ⟨hafter, hhas, hdr, hgone⟩
  · simp only [step, runStep]
    split <;> exact ⟨hafter, hhas, hdr, hgone⟩
  · simp only [step, taskStep]
    split
    · exact ⟨hafter, hhas, hdr, hgone⟩
    · split <;> exact ⟨hafter, hhas, hdr, hgone⟩

theorem cinv_run (s : St) (ops : List Op) (ho : ∀ o ∈ ops, flRunTask o) (h : CInv s) :
    CInv (runOps s ops) := by
  induction ops generalizing s with
  | nil => exact h
  | cons o os ih =>
    exact ih _ (fun o' ho' => ho o' (by simp [ho'])) (cinv_flrun s o (ho o (by simp)) h)

theorem alive_run (s : St) (ops : List Op) (hn : noClose ops = true)
    (hs : hasDone s.queue = false ∧ flDone s.fl = false) :
    hasDone (runOps s ops).queue = false ∧ flDone (runOps s ops).fl = false := by
  induction ops generalizing s with
  | nil => exact hs
  | cons o os ih =>
    have ho : o ≠ .close := by intro e; subst e; simp [noClose] at hn
    have hn' : noClose os = true := by cases o <;> simp_all [noClose]
    exact ih (step s o) hn' (alive_step s o ho hs)

theorem afterDone_noDone {q : List Item} (h : hasDone q = false) (x : Item) :
    afterDone (q ++ [x]) = [] ∧ (x = .done → hasDone (q ++ [x]) = true) := by
  induction q with
  | nil => cases x <;> simp [afterDone, hasDone, qText]
  | cons i is ih =>
    cases i with
    | done => simp [hasDone] at h
    | text t => simp only [hasDone] at h; simpa [afterDone, hasDone] using ih h

/-- **close_delivers.**  Take any calm schedule without `close()`; then `flush()` and `close()` (the
    `_Done` sentinel is queued) and let the loop and the flush thread run.  The flush thread terminates
    (so `close()`'s `join()` returns), nothing is left in flight, and the output is exactly the text
    of all write calls in lock-acquisition order. -/
theorem close_delivers (raw : Bool) (ops : List Op) (t : Nat)
    (hc : calm (init raw) ops = true) (hn : noClose ops = true) (n : Nat)
    (hfuel : measure (runOps (init raw) (ops ++ [.flush t, .close])) ≤ n) :
    let s := settle n (runOps (init raw) (ops ++ [.flush t, .close]))
    s.fl = .exited ∧ quiescent s = true ∧ outText s.log = allText ops := by
  intro s
  obtain ⟨ops', h1, h2, -, h4⟩ := settle_is_calm_schedule n (runOps (init raw) (ops ++ [.flush t, .close]))
  obtain ⟨hw, -⟩ := flrun_noWrites ops' h4
  have hrun : s = runOps (init raw) (ops ++ [.flush t, .close] ++ ops') := by
    show settle n _ = _
    rw [h1, ← runOps_append]
  have hcalm : calm (init raw) (ops ++ [.flush t, .close] ++ ops') = true := by
    rw [calm_append, h2, calm_append, hc]; simp [calm, calmStep]
  have hall : allText (ops ++ [.flush t, .close] ++ ops') = allText ops := by
    rw [allText_append, allText_append, hw]
    simp [allText_cons, opText]
    simp [allText, writesOf]
  -- the state right after `close`
  have halive := alive_run (init raw) (ops ++ [.flush t]) (by simp [noClose_append, hn, noClose])
    (by simp [init, hasDone, flDone])
  have hc0 : CInv (runOps (init raw) (ops ++ [.flush t, .close])) := by
    have e : ops ++ [.flush t, .close] = (ops ++ [.flush t]) ++ [.close] := by simp
    rw [e, runOps_append]
    simp only [runOps, step]
    obtain ⟨ha, hb⟩ := afterDone_noDone halive.1 .done
    refine ⟨ha, Or.inl (hb rfl), ?_, ?_⟩
    · intro hd; rw [halive.2] at hd; cases hd
    · intro he
      have := halive.2; rw [he] at this; simp [flDone] at this
  have hcs : CInv s := by rw [show s = _ from h1]; exact cinv_run _ ops' h4 hc0
  have hset : settled s = true := settle_settles n _ hfuel
  -- settled + a `_Done` somewhere ⇒ the thread has ended
  have hex : s.fl = .exited := by
    simp only [settled, Bool.and_eq_true, Bool.not_eq_true', List.isEmpty_iff] at hset
    obtain ⟨-, hf⟩ := hset
    cases hfl : s.fl <;> simp [flEnabled, hfl] at hf
    · rcases hcs.has with h | h
      · simp [hf, hasDone] at h
      · simp [hfl, flDone] at h
    · rfl
  have hbuf : cat s.buffer = [] := by
    rw [show s = _ from h1, flrun_buffer _ _ h4]
    have e : ops ++ [.flush t, .close] = (ops ++ [.flush t]) ++ [.close] := by simp
    rw [e, runOps_append, runOps_append]
    simp [runOps, step, doFlush, cat]
  have hq : quiescent s = true := by
    simp only [settled, Bool.and_eq_true, Bool.not_eq_true', List.isEmpty_iff] at hset
    rw [quiescent_iff]
    exact ⟨hbuf, hcs.gone hex, by simp [hex, held], hset.1.2, hset.1.1⟩
  refine ⟨hex, hq, ?_⟩
  rw [hrun] at hq ⊢
  rw [exactly_once_after_flush raw _ hcalm hq, hall]

example :
    let ops : List Op := [.newLoop, .start, .write 0 ['a', '\n'], .fl, .write 1 ['b'], .write 2 ['c', '\n', 'd']]
    calm (init false) ops = true ∧ noClose ops = true ∧
    measure (runOps (init false) (ops ++ [.flush 0, .close])) ≤ 120 ∧
    (settle 120 (runOps (init false) (ops ++ [.flush 0, .close]))).fl = .exited ∧
    outText (settle 120 (runOps (init false) (ops ++ [.flush 0, .close]))).log = ['a', '\n', 'b', 'c', '\n', 'd'] := by
  decide


/-! ### the exit-requested phase (`Application.exit()` called, `run_async` not yet resumed) -/

/-- `exiting` is a sub-phase of a running application -/
theorem exiting_implies_running (raw : Bool) (ops : List Op) :
    (runOps (init raw) ops).exiting = true → (runOps (init raw) ops).appOn = true := by
  suffices h : ∀ s : St, (s.exiting = true → s.appOn = true) →
      ((runOps s ops).exiting = true → (runOps s ops).appOn = true) from h _ (by simp [init])
  intro s hs
  induction ops generalizing s with
  | nil => exact hs
  | cons o os ih =>
    apply ih
    cases o with
    | write t d => simp only [step, doWrite]; split <;> exact hs
    | writeBad t => exact hs
    | flush t => exact hs
    | close => exact hs
    | fl =>
      simp only [step, flStep]
      split
      · split <;> exact hs
      · exact hs
      · exact hs
      · split <;> exact hs
      · exact hs
      · exact hs
    | run => simp only [step, runStep]; split <;> exact hs
    | task => simp only [step, taskStep]; split; exact hs; split <;> exact hs
    | start => simp only [step]; split; simp; exact hs
    | stop => simp only [step]; split; simp; exact hs
    | finish => simp only [step]; split <;> exact hs
    | newLoop => simp only [step]; split <;> exact hs
    | closeLoop => simp only [step]; split <;> exact hs
    | inval => simp only [step]; split <;> exact hs
    | exit => simp only [step]; split; (rename_i hc; intro _; exact hc); exact hs

/-- **exit_phase_section.**  A task that takes its first step while the application is in the exit-requested
    phase (`is_done` already true, prompt still drawn, final rendering pending) still emits its text as
    `erase; text; redraw`; the application stays in that phase, and the final rendering follows the
    redraw when `run_async` resumes.  (`in_terminal` tests `_is_running`, not `is_done`.) -/
theorem exit_phase_section (s : St) (k : Task) (ts : List Task)
    (hon : s.appOn = true) (_hex : s.exiting = true) (hp : s.tasks = k :: ts) :
    (step s .task).log = s.log ++ [.erase, .out s.raw k.txt, .draw] ∧
    (step s .task).appOn = true ∧ (step s .task).exiting = s.exiting ∧
    (step (step s .task) .stop).log = s.log ++ [.erase, .out s.raw k.txt, .draw, .doneDraw] := by
  simp [step, taskStep, hp, hon]

/-- what `in_terminal` would do if its early-out tested `app.is_done` instead of `not app._is_running`
    (the seeded regression C20-b): in the exit-requested phase it takes the "no application" shortcut -/
def taskStepIsDone (s : St) : St :=
  match s.tasks with
  | [] => s
  | k :: ts =>
    if s.appOn ∧ ¬ s.exiting then
      { s with tasks := ts, log := s.log ++ [.erase, .out s.raw k.txt, .draw] }
    else { s with tasks := ts, log := s.log ++ [.out s.raw k.txt] }

/-- the schedule of the exit window: the callback is accepted, `exit()` is called, the callback makes the
    task, the task runs, then `run_async` resumes -/
def exitWindow : List Op := [.newLoop, .start, .write 0 ['a', '\n'], .fl, .fl, .fl, .exit, .run, .task, .stop]

/-- **is_done_shortcut_witness.**  On the schedule `exitWindow` (start-calm and calm) the model of the
    current code keeps the bracket; with the `is_done` early-out the text is written onto the drawn prompt. -/
theorem is_done_shortcut_witness :
    startCalm (init false) exitWindow = true ∧ calm (init false) exitWindow = true ∧
    (runOps (init false) exitWindow).log = [.draw, .erase, .out false ['a', '\n'], .draw, .doneDraw] ∧
    phRun .off (runOps (init false) exitWindow).log = some .off ∧
    (let s := runOps (init false) [.newLoop, .start, .write 0 ['a', '\n'], .fl, .fl, .fl, .exit, .run]
     (step (taskStepIsDone s) .stop).log = [.draw, .out false ['a', '\n'], .doneDraw] ∧
     phRun .off (step (taskStepIsDone s) .stop).log = none) := by decide


end Ptk.C20
