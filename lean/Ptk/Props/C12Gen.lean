/-
  C12 — lemmas about the `take_using_weights` state machine (`Ptk.C12.Gen`):
  well-formedness is preserved, and the stream is fair: from every well-formed state every
  position is yielded after finitely many micro-steps.
-/
import Ptk.Model.C12
import Mathlib.Tactic.Ring
import Mathlib.Tactic.Linarith
namespace Ptk.C12

/-- well-formed generator state: all weights positive (zero weights were filtered),
    `max_weight` positive, one counter per item -/
structure Gen.WF (g : Gen) : Prop where
  len_items : g.items.length = g.ws.length
  len_taken : g.taken.length = g.ws.length
  pos_le : g.pos ≤ g.ws.length
  maxW_pos : 0 < g.maxW
  ws_pos : ∀ k, k < g.ws.length → 0 < g.ws.getD k 0

/-- position `k` would be yielded if the inner `for` reached it now -/
def Gen.Yieldable (g : Gen) (k : Nat) : Prop :=
  g.taken.getD k 0 * g.maxW < g.i * g.ws.getD k 0

instance (g : Gen) (k : Nat) : Decidable (g.Yieldable k) := by unfold Gen.Yieldable; infer_instance

/-- state after `t` micro-steps -/
def Gen.run : Nat → Gen → Gen
  | 0, g => g
  | t + 1, g => Gen.run t g.step.1

/-! #### single step facts -/

theorem Gen.step_items (g : Gen) : g.step.1.items = g.items := by
  unfold Gen.step; split_ifs <;> rfl

theorem Gen.step_ws (g : Gen) : g.step.1.ws = g.ws := by
  unfold Gen.step; split_ifs <;> rfl

theorem Gen.step_maxW (g : Gen) : g.step.1.maxW = g.maxW := by
  unfold Gen.step; split_ifs <;> rfl

theorem Gen.step_wf {g : Gen} (h : g.WF) : g.step.1.WF := by
  obtain ⟨h0, h1, h2, h3, h4⟩ := h
  unfold Gen.step
  split_ifs with hp hy ha
  · exact ⟨h0, by simp [h1], by simp; omega, h3, h4⟩
  · exact ⟨h0, h1, by simp; omega, h3, h4⟩
  · exact ⟨h0, h1, by simp, h3, h4⟩
  · exact ⟨h0, h1, by simp, h3, h4⟩

theorem Gen.step_out_lt {g : Gen} {p : Nat} (h : g.step.2 = some p) : p < g.ws.length := by
  unfold Gen.step at h
  split_ifs at h with hp hy ha
  · simp at h; omega

theorem Gen.step_out_eq {g : Gen} {p : Nat} (h : g.step.2 = some p) : p = g.pos := by
  unfold Gen.step at h
  split_ifs at h with hp hy ha
  · simp at h; omega

theorem Gen.step_yield {g : Gen} (hp : g.pos < g.ws.length) (hy : g.Yieldable g.pos) :
    g.step.2 = some g.pos := by
  unfold Gen.Yieldable at hy
  unfold Gen.step
  rw [if_pos hp, if_pos hy]

/-- a yieldable position stays yieldable until it is yielded -/
theorem Gen.step_yieldable {g : Gen} {k : Nat} (hy : g.Yieldable k) (hne : g.step.2 ≠ some k) :
    g.step.1.Yieldable k := by
  unfold Gen.Yieldable at *
  unfold Gen.step at hne ⊢
  split_ifs at hne ⊢ with hp hyp ha
  · have hk : g.pos ≠ k := by simpa using hne
    simp only
    rw [List.getD_eq_getElem?_getD, List.getElem?_set_ne hk, ← List.getD_eq_getElem?_getD]
    exact hy
  · exact hy
  · exact hy
  · simp only
    calc g.taken.getD k 0 * g.maxW < g.i * g.ws.getD k 0 := hy
      _ ≤ (g.i + 1) * g.ws.getD k 0 := Nat.mul_le_mul_right _ (Nat.le_succ _)

/-! #### fairness, part 1: a yieldable position is reached within one sweep -/

theorem Gen.fair_of_yieldable (k : Nat) :
    ∀ (d : Nat) (g : Gen), g.WF → k < g.ws.length → g.Yieldable k →
      (if g.pos ≤ k then k - g.pos else g.ws.length - g.pos + 1 + k) ≤ d →
      ∃ t, (g.run t).step.2 = some k := by
  intro d
  induction d with
  | zero =>
    intro g hwf hk hy hd
    have hpos : g.pos = k := by
      split_ifs at hd with h <;> omega
    refine ⟨0, ?_⟩
    subst hpos
    exact Gen.step_yield hk hy
  | succ d ih =>
    intro g hwf hk hy hd
    by_cases hpos : g.pos = k
    · refine ⟨0, ?_⟩
      subst hpos
      exact Gen.step_yield hk hy
    · have hne : g.step.2 ≠ some k := by
        intro h
        exact hpos (Gen.step_out_eq h).symm
      have hy' := Gen.step_yieldable hy hne
      have hwf' := Gen.step_wf hwf
      have hk' : k < g.step.1.ws.length := by rw [Gen.step_ws]; exact hk
      have hd' : (if g.step.1.pos ≤ k then k - g.step.1.pos
          else g.step.1.ws.length - g.step.1.pos + 1 + k) ≤ d := by
        rw [Gen.step_ws]
        have hple := hwf.pos_le
        unfold Gen.step
        split_ifs at hd ⊢ <;> simp at * <;> omega
      obtain ⟨t, ht⟩ := ih g.step.1 hwf' hk' hy' hd'
      exact ⟨t + 1, by simpa [Gen.run] using ht⟩

/-! #### fairness, part 2: every position becomes yieldable -/

/-- work left in the current round: `Σ (i * w_j - taken_j * maxW)` (truncated) -/
def phi (i m : Nat) : List Nat → List Nat → Nat
  | w :: ws, t :: ts => (i * w - t * m) + phi i m ws ts
  | _, _ => 0

theorem phi_set_lt (i m : Nat) (hm : 0 < m) :
    ∀ (ws ts : List Nat) (p : Nat), p < ws.length → ts.length = ws.length →
      ts.getD p 0 * m < i * ws.getD p 0 →
      phi i m ws (ts.set p (ts.getD p 0 + 1)) < phi i m ws ts := by
  intro ws
  induction ws with
  | nil => intro ts p hp; simp at hp
  | cons w ws ih =>
    intro ts p hp hl hy
    cases ts with
    | nil => simp at hl
    | cons t ts =>
      cases p with
      | zero =>
        simp only [List.set_cons_zero, phi, List.getD_cons_zero] at hy ⊢
        have : i * w - (t + 1) * m < i * w - t * m := by
          have : (t + 1) * m = t * m + m := by ring
          omega
        omega
      | succ p =>
        simp only [List.set_cons_succ, phi, List.getD_cons_succ] at hy ⊢
        have := ih ts p (by simpa using hp) (by simpa using hl) hy
        omega

/-- rounds until position `k` becomes yieldable (0 = yieldable now) -/
def Gen.lag (g : Gen) (k : Nat) : Nat := g.taken.getD k 0 * g.maxW + 1 - g.i * g.ws.getD k 0

theorem Gen.yieldable_of_lag {g : Gen} {k : Nat} (h : g.lag k = 0) : g.Yieldable k := by
  unfold Gen.lag at h; unfold Gen.Yieldable; omega

theorem Gen.step_of_yield {g : Gen} (hp : g.pos < g.ws.length) (hy : g.Yieldable g.pos) :
    g.step = ({ g with taken := g.taken.set g.pos (g.taken.getD g.pos 0 + 1), adding := true,
                       pos := g.pos + 1 }, some g.pos) := by
  unfold Gen.Yieldable at hy
  unfold Gen.step
  rw [if_pos hp, if_pos hy]

theorem Gen.step_of_skip {g : Gen} (hp : g.pos < g.ws.length) (hy : ¬ g.Yieldable g.pos) :
    g.step = ({ g with pos := g.pos + 1 }, none) := by
  unfold Gen.Yieldable at hy
  unfold Gen.step
  rw [if_pos hp, if_neg hy]

theorem Gen.step_of_wrap {g : Gen} (hp : ¬ g.pos < g.ws.length) (ha : g.adding = true) :
    g.step = ({ g with pos := 0, adding := false }, none) := by
  unfold Gen.step
  rw [if_neg hp, if_pos ha]

theorem Gen.step_of_round {g : Gen} (hp : ¬ g.pos < g.ws.length) (ha : g.adding = false) :
    g.step = ({ g with i := g.i + 1, pos := 0, adding := false }, none) := by
  unfold Gen.step
  rw [if_neg hp, if_neg (by simp [ha])]

/-- the termination measure of the search for position `k` -/
def Gen.meas (g : Gen) (k : Nat) : Nat × Nat × Nat × Nat :=
  (g.lag k, phi g.i g.maxW g.ws g.taken, (if g.adding then 1 else 0), g.ws.length - g.pos)

theorem Gen.meas_step_lt {g : Gen} {k : Nat} (hwf : g.WF) (hk : k < g.ws.length)
    (hy : ¬ g.Yieldable k) :
    Prod.Lex (· < ·) (Prod.Lex (· < ·) (Prod.Lex (· < ·) (· < ·))) (g.step.1.meas k) (g.meas k) := by
  have hple := hwf.pos_le
  have hlt := hwf.len_taken
  have hm := hwf.maxW_pos
  have hwk := hwf.ws_pos k hk
  by_cases hp : g.pos < g.ws.length
  · by_cases hyp : g.Yieldable g.pos
    · -- a yield at `pos ≠ k`: the lag of `k` is unchanged, `phi` decreases
      have hne : g.pos ≠ k := by
        intro h; rw [h] at hyp; exact hy hyp
      rw [Gen.step_of_yield hp hyp]
      unfold Gen.meas Gen.lag
      simp only
      rw [List.getD_eq_getElem?_getD, List.getElem?_set_ne hne, ← List.getD_eq_getElem?_getD]
      apply Prod.Lex.right
      apply Prod.Lex.left
      exact phi_set_lt g.i g.maxW hm g.ws g.taken g.pos hp hlt hyp
    · rw [Gen.step_of_skip hp hyp]
      unfold Gen.meas Gen.lag
      simp only
      apply Prod.Lex.right
      apply Prod.Lex.right
      apply Prod.Lex.right
      omega
  · cases ha : g.adding with
    | true =>
      rw [Gen.step_of_wrap hp ha]
      unfold Gen.meas Gen.lag
      simp only [ha]
      apply Prod.Lex.right
      apply Prod.Lex.right
      apply Prod.Lex.left
      simp
    | false =>
      rw [Gen.step_of_round hp ha]
      unfold Gen.meas Gen.lag
      simp only
      apply Prod.Lex.left
      unfold Gen.Yieldable at hy
      have : (g.i + 1) * g.ws.getD k 0 = g.i * g.ws.getD k 0 + g.ws.getD k 0 := by ring
      omega

/-- Fairness of the stream on the level of micro-steps: from every well-formed state, every
    position is yielded after finitely many micro-steps. -/
theorem Gen.fair_micro (k : Nat) (g : Gen) (hwf : g.WF) (hk : k < g.ws.length) :
    ∃ t, (g.run t).step.2 = some k := by
  by_cases hy : g.Yieldable k
  · exact Gen.fair_of_yieldable k _ g hwf hk hy (le_refl _)
  · have hwf' := Gen.step_wf hwf
    have hk' : k < g.step.1.ws.length := by rw [Gen.step_ws]; exact hk
    obtain ⟨t, ht⟩ := Gen.fair_micro k g.step.1 hwf' hk'
    exact ⟨t + 1, by simpa [Gen.run] using ht⟩
termination_by g.meas k
decreasing_by exact Gen.meas_step_lt hwf hk hy

/-! #### the `next` level -/

theorem Gen.next?_mono {g : Gen} {r : Nat × Gen} :
    ∀ {f f' : Nat}, g.next? f = some r → f ≤ f' → g.next? f' = some r := by
  intro f
  induction f generalizing g with
  | zero => intro f' h; simp [Gen.next?] at h
  | succ f ih =>
    intro f' h hle
    obtain ⟨f'', rfl⟩ : ∃ f'', f' = f'' + 1 := ⟨f' - 1, by omega⟩
    unfold Gen.next? at h ⊢
    rcases hs : g.step with ⟨g1, _ | p⟩
    · rw [hs] at h
      simp only at h ⊢
      exact ih h (by omega)
    · rw [hs] at h
      simpa using h

/-- what one `next` preserves -/
theorem Gen.next?_spec {g : Gen} (hwf : g.WF) :
    ∀ {f : Nat} {x : Nat} {g' : Gen}, g.next? f = some (x, g') →
      g'.WF ∧ g'.items = g.items ∧ g'.ws = g.ws ∧ g'.maxW = g.maxW ∧ x ∈ g.items := by
  intro f
  induction f generalizing g with
  | zero => intro x g' h; simp [Gen.next?] at h
  | succ f ih =>
    intro x g' h
    unfold Gen.next? at h
    rcases hs : g.step with ⟨g1, _ | p⟩
    · rw [hs] at h
      simp only at h
      have h1 : g1 = g.step.1 := by rw [hs]
      have := ih (g := g1) (by rw [h1]; exact Gen.step_wf hwf) h
      rw [h1, Gen.step_items, Gen.step_ws, Gen.step_maxW] at this
      exact this
    · rw [hs] at h
      simp only [Option.some.injEq, Prod.mk.injEq] at h
      obtain ⟨hx, hg⟩ := h
      have h1 : g1 = g.step.1 := by rw [hs]
      have hp : p < g.ws.length := Gen.step_out_lt (by rw [hs])
      subst hg
      refine ⟨by rw [h1]; exact Gen.step_wf hwf, by rw [h1, Gen.step_items],
        by rw [h1, Gen.step_ws], by rw [h1, Gen.step_maxW], ?_⟩
      rw [← hx, List.getD_eq_getElem?_getD]
      have hp' : p < g.items.length := by rw [hwf.len_items]; exact hp
      simp [hp']

/-- item `x` is yielded by the `m+1`-st of the next calls of `next` -/
inductive Gen.Eventually (x : Nat) : Gen → Nat → Prop
  | now {g g' : Gen} {f : Nat} : g.next? f = some (x, g') → Gen.Eventually x g 0
  | later {g g' : Gen} {f y m : Nat} : g.next? f = some (y, g') → Gen.Eventually x g' m →
      Gen.Eventually x g (m + 1)

theorem Gen.eventually_of_skip {x : Nat} {g : Gen} (hs : g.step.2 = none) {m : Nat}
    (h : Gen.Eventually x g.step.1 m) : Gen.Eventually x g m := by
  have hn : ∀ f, g.next? (f + 1) = g.step.1.next? f := by
    intro f
    conv_lhs => unfold Gen.next?
    rcases hs' : g.step with ⟨g1, _ | p⟩
    · rfl
    · rw [hs'] at hs; simp at hs
  cases h with
  | now h => exact .now (by rw [hn]; exact h)
  | later h h' => exact .later (by rw [hn]; exact h) h'

theorem Gen.eventually_of_micro (k : Nat) :
    ∀ (t : Nat) (g : Gen), (g.run t).step.2 = some k → ∃ m, Gen.Eventually (g.items.getD k 0) g m := by
  intro t
  induction t with
  | zero =>
    intro g h
    simp only [Gen.run] at h
    refine ⟨0, .now (f := 1) (g' := g.step.1) ?_⟩
    unfold Gen.next?
    rcases hs : g.step with ⟨g1, _ | p⟩
    · rw [hs] at h; simp at h
    · rw [hs] at h; simp at h; subst h; rfl
  | succ t ih =>
    intro g h
    simp only [Gen.run] at h
    obtain ⟨m, hm⟩ := ih g.step.1 h
    rw [Gen.step_items] at hm
    rcases hs : g.step.2 with _ | p
    · exact ⟨m, Gen.eventually_of_skip hs hm⟩
    · refine ⟨m + 1, .later (f := 1) (y := g.items.getD p 0) (g' := g.step.1) ?_ hm⟩
      unfold Gen.next?
      rcases hs' : g.step with ⟨g1, _ | q⟩
      · rw [hs'] at hs; simp at hs
      · rw [hs'] at hs; simp at hs; subst hs; rfl

/-- **Fairness of `take_using_weights`**: from every well-formed state, every item is yielded
    again after finitely many calls of `next`. -/
theorem Gen.fair {g : Gen} (hwf : g.WF) {x : Nat} (hx : x ∈ g.items) :
    ∃ m, Gen.Eventually x g m := by
  obtain ⟨k, hk, rfl⟩ := List.getElem_of_mem hx
  have hk' : k < g.ws.length := by rw [← hwf.len_items]; exact hk
  obtain ⟨t, ht⟩ := Gen.fair_micro k g hwf hk'
  obtain ⟨m, hm⟩ := Gen.eventually_of_micro k t g ht
  refine ⟨m, ?_⟩
  rw [List.getD_eq_getElem?_getD] at hm
  simpa [hk] using hm

end Ptk.C12
