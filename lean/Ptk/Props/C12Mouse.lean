/-
  C12 — consequences of `render_drawnOK` for what is registered per cell: mouse handlers
  (`Window._write_to_screen_at_index` registers the window's handler on the window's write
  position) and the 'window too small' replacement of a split.
-/
import Ptk.Props.C12Tree
import Ptk.Props.C12TreeFuel
namespace Ptk.C12

/-! ### mouse handlers and the 'window too small' replacement -/

/-- the cell `(x, y)` belongs to the rectangle -/
def Rect.contains (r : Rect) (x y : Nat) : Prop :=
  r.x ≤ x ∧ x < r.x + r.w ∧ r.y ≤ y ∧ y < r.y + r.h

instance (r : Rect) (x y : Nat) : Decidable (r.contains x y) := by unfold Rect.contains; infer_instance

theorem Rect.disjoint_not_both {a b : Rect} (h : a.disjoint b) {x y : Nat} (ha : a.contains x y) :
    ¬ b.contains x y := by
  unfold Rect.disjoint at h; unfold Rect.contains at *; omega

/-- **Mouse handler regions are well defined**: every drawn window registers its mouse handler on
    its own write position (`set_mouse_handler_for_range`); since the drawn windows are pairwise
    disjoint and inside the region of the root, every cell has at most one handler, no window's
    handler is overwritten by another window, and no cell outside the root region gets one. -/
theorem mouse_regions {fuel d : Nat} {t : Tag} {n : Node} {r : Rect} {out : List (Tag × Rect)}
    (hv : n.Valid) (h : render fuel d t n r = some out) (x y : Nat) :
    (out.filter fun p => decide (p.2.contains x y)).length ≤ 1 ∧
    (∀ p ∈ out, p.2.contains x y → r.contains x y) := by
  obtain ⟨hin, hdis⟩ := render_drawnOK fuel d t n r out hv h
  refine ⟨?_, ?_⟩
  · -- two different entries containing the cell would overlap
    have hp : (out.filter fun p => decide (p.2.contains x y)).Pairwise
        (fun a b => a.2.disjoint b.2) := hdis.sublist List.filter_sublist
    rcases hf : (out.filter fun p => decide (p.2.contains x y)) with _ | ⟨a, _ | ⟨b, rest⟩⟩
    · rw [hf]; simp
    · rw [hf]; simp
    · exfalso
      rw [hf] at hp
      have hab := (List.pairwise_cons.mp hp).1 b List.mem_cons_self
      have ha : a ∈ out.filter fun p => decide (p.2.contains x y) := by rw [hf]; simp
      have hb : b ∈ out.filter fun p => decide (p.2.contains x y) := by rw [hf]; simp
      have ha' := (List.mem_filter.mp ha).2
      have hb' := (List.mem_filter.mp hb).2
      simp only [decide_eq_true_eq] at ha' hb'
      exact Rect.disjoint_not_both hab ha' hb'
  · intro p hp hc
    have := hin p hp
    unfold Rect.inside at this; unfold Rect.contains at *; omega

/-- non-vacuity: in the example tree (4 windows drawn) the cell (6, 3) belongs to the padding
    column only -/
example : ∀ out, render 118 2 (.user 0) exampleTree ⟨0, 0, 10, 6⟩ = some out →
    (out.filter fun p => decide (p.2.contains 6 3)).length ≤ 1 :=
  fun _ h => (mouse_regions exampleTree_valid h 6 3).1
example : ((([(Tag.user 1, (⟨0, 0, 10, 2⟩ : Rect)), (.user 2, ⟨0, 2, 6, 4⟩), (.pad, ⟨6, 2, 1, 4⟩),
    (.user 3, ⟨7, 2, 3, 4⟩)] : List (Tag × Rect)).filter fun p => decide (p.2.contains 6 3)).map (·.1))
    = [.pad] := by decide

/-- **'Window too small'**: when the minimums of an HSplit do not fit, nothing of its children is
    drawn; the replacement window gets exactly the region of the split. -/
theorem hsplit_tooSmall {fuel d : Nat} {t : Tag} {al : Align} {pad : Dim} {cs : List Node}
    {r : Rect} {ds : List Dim} (hne : cs.isEmpty = false)
    (hds : mapM? (fun c : Tag × Node => prefH fuel d c.2 r.w r.h) (allNodes true al pad cs) = some ds)
    (hv : ValidDims ds) (hsmall : r.h < sumOf (·.min) ds) :
    render fuel (d + 1) t (.hsplit al pad cs) r
      = some (if visible r then [(.tooSmall, r)] else []) := by
  simp only [render, hne, Bool.false_eq_true, if_false, hds]
  rw [(tooSmall_iff hv fuel r.h true).mpr hsmall]

/-- the same for a VSplit (the test is made by `_divide_widths`) -/
theorem vsplit_tooSmall {fuel d : Nat} {t : Tag} {al : Align} {pad : Dim} {cs : List Node}
    {r : Rect} (hne : cs.isEmpty = false) (h : divideWidths fuel d al pad cs r.w = some none) :
    render fuel (d + 1) t (.vsplit al pad cs) r
      = some (if visible r then [(.tooSmall, r)] else []) := by
  simp only [render, hne, Bool.false_eq_true, if_false, h]

end Ptk.C12
