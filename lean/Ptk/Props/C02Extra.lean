/-
  C02 — further property theorems (second audited module): matching lines, the word under the
  cursor, nearest match of `find_backwards`.
-/
import Ptk.Props.C02
namespace Ptk.C02
open Ptk.Py

/-! ## 8. matching lines -/

theorem matchLoop_spec (f : Text → Bool) (mk : Nat → Int) (count : Int) (i : Nat) (res : Option Int)
    (ls : List Text) (v : Int) (h : matchLoop f mk count i res ls = some v) :
    res = some v ∨ ∃ j l, ls[j]? = some l ∧ f l = true ∧ v = mk (i + j) := by
  induction ls generalizing count i res with
  | nil => left; simpa [matchLoop] using h
  | cons l ls ih =>
    simp only [matchLoop] at h
    by_cases hf : f l = true
    · simp only [hf, if_true] at h
      split at h
      · right; exact ⟨0, l, by simp, hf, by cases h; simp⟩
      · rcases ih _ _ _ h with h' | ⟨j, l', hj, hfl, hv⟩
        · right; exact ⟨0, l, by simp, hf, by cases h'; simp⟩
        · right; exact ⟨j + 1, l', by simpa using hj, hfl, by rw [hv]; congr 1; omega⟩
    · have hf' : f l = false := by simpa using hf
      simp only [hf', Bool.false_eq_true, if_false] at h
      split at h
      · left; simpa using h
      · rcases ih _ _ _ h with h' | ⟨j, l', hj, hfl, hv⟩
        · left; simpa using h'
        · right; exact ⟨j + 1, l', by simpa using hj, hfl, by rw [hv]; congr 1; omega⟩

/-- **`find_next_matching_line` / `find_previous_matching_line`**: a reported relative line index
    points below / above the current row at a line that really satisfies the predicate -/
theorem matchingLine_sound (f : Text → Bool) (d : Doc) (hc : d.cur ≤ d.text.length) (count : Int)
    (li : Int) :
    (findNextMatchingLine f d count = some li →
      1 ≤ li ∧ ∃ l, (lines d.text)[row d + li.toNat]? = some l ∧ f l = true) ∧
    (findPreviousMatchingLine f d count = some li →
      li ≤ -1 ∧ 0 ≤ (row d : Int) + li ∧
      ∃ l, (lines d.text)[((row d : Int) + li).toNat]? = some l ∧ f l = true) := by
  constructor
  · intro h
    rcases matchLoop_spec _ _ _ _ _ _ _ h with h' | ⟨j, l, hj, hfl, rfl⟩
    · cases h'
    · refine ⟨by omega, l, ?_, hfl⟩
      rw [List.getElem?_drop] at hj
      have : row d + (1 + ((0 + j : Nat) : Int)).toNat = row d + 1 + j := by omega
      rw [this]; exact hj
  · intro h
    rcases matchLoop_spec _ _ _ _ _ _ _ h with h' | ⟨j, l, hj, hfl, rfl⟩
    · cases h'
    · have hjl : j < ((lines d.text).take (row d)).length := by
        rcases Nat.lt_or_ge j ((lines d.text).take (row d)).reverse.length with h | h
        · simpa using h
        · rw [List.getElem?_eq_none h] at hj; cases hj
      have hrow := (views_consistent d hc).1
      simp only [lineCount] at hrow
      have hlen : ((lines d.text).take (row d)).length = row d := by simp; omega
      rw [List.getElem?_reverse hjl, List.getElem?_take] at hj
      split at hj
      · refine ⟨by omega, by omega, l, ?_, hfl⟩
        have e : ((row d : Int) + (-1 - ((0 + j : Nat) : Int))).toNat = ((lines d.text).take (row d)).length - 1 - j := by
          omega
        rw [e]; exact hj
      · cases hj
example : findNextMatchingLine (fun l => l.isEmpty) ⟨['a', '\n', 'b', '\n', '\n', 'c'], 0⟩ 1 = some 2 ∧
    findPreviousMatchingLine (fun l => l.isEmpty) ⟨['a', '\n', '\n', 'c'], 3⟩ 1 = some (-1) := by decide

end Ptk.C02
