/-
  C02 — further property theorems (second audited module): matching lines, the word under the
  cursor, nearest match of `find_backwards`.
-/
import Ptk.Props.C02
namespace Ptk.C02
open Ptk.Py

/-! ## 8. matching lines -/

theorem matchLoop_spec (f : Text → Bool) (mk : Nat → Int) (count : Int) (i : Nat) (res : Option Int)
    (ls : List Text) (v : Int) (h : matchLoop f mk count i res ls = some v) :
    res = some v ∨ ∃ j l, ls[j]? = some l ∧ f l = true ∧ v = mk (i + j) := by
  induction ls generalizing count i res with
  | nil => left; simpa [matchLoop] using h
  | cons l ls ih =>
    simp only [matchLoop] at h
    by_cases hf : f l = true
    · simp only [hf, if_true] at h
      split at h
      · right; exact ⟨0, l, by simp, hf, by cases h; simp⟩
      · rcases ih _ _ _ h with h' | ⟨j, l', hj, hfl, hv⟩
        · right; exact ⟨0, l, by simp, hf, by cases h'; simp⟩
        · right; exact ⟨j + 1, l', by simpa using hj, hfl, by rw [hv]; congr 1; omega⟩
    · have hf' : f l = false := by simpa using hf
      simp only [hf', Bool.false_eq_true, if_false] at h
      split at h
      · left; simpa using h
      · rcases ih _ _ _ h with h' | ⟨j, l', hj, hfl, hv⟩
        · left; simpa using h'
        · right; exact ⟨j + 1, l', by simpa using hj, hfl, by rw [hv]; congr 1; omega⟩

/-- **`find_next_matching_line` / `find_previous_matching_line`**: a reported relative line index
    points below / above the current row at a line that really satisfies the predicate -/
theorem matchingLine_sound (f : Text → Bool) (d : Doc) (hc : d.cur ≤ d.text.length) (count : Int)
    (li : Int) :
    (findNextMatchingLine f d count = some li →
      1 ≤ li ∧ ∃ l, (lines d.text)[row d + li.toNat]? = some l ∧ f l = true) ∧
    (findPreviousMatchingLine f d count = some li →
      li ≤ -1 ∧ 0 ≤ (row d : Int) + li ∧
      ∃ l, (lines d.text)[((row d : Int) + li).toNat]? = some l ∧ f l = true) := by
  constructor
  · intro h
    rcases matchLoop_spec _ _ _ _ _ _ _ h with h' | ⟨j, l, hj, hfl, rfl⟩
    · cases h'
    · refine ⟨by omega, l, ?_, hfl⟩
      rw [List.getElem?_drop] at hj
      have : row d + (1 + ((0 + j : Nat) : Int)).toNat = row d + 1 + j := by omega
      rw [this]; exact hj
  · intro h
    rcases matchLoop_spec _ _ _ _ _ _ _ h with h' | ⟨j, l, hj, hfl, rfl⟩
    · cases h'
    · have hjl : j < ((lines d.text).take (row d)).length := by
        rcases Nat.lt_or_ge j ((lines d.text).take (row d)).reverse.length with h | h
        · simpa using h
        · rw [List.getElem?_eq_none h] at hj; cases hj
      have hrow := (views_consistent d hc).1
      simp only [lineCount] at hrow
      have hlen : ((lines d.text).take (row d)).length = row d := by simp; omega
      rw [List.getElem?_reverse hjl, List.getElem?_take] at hj
      split at hj
      · refine ⟨by omega, by omega, l, ?_, hfl⟩
        have e : ((row d : Int) + (-1 - ((0 + j : Nat) : Int))).toNat = ((lines d.text).take (row d)).length - 1 - j := by
          omega
        rw [e]; exact hj
      · cases hj
example : findNextMatchingLine (fun l => l.isEmpty) ⟨['a', '\n', 'b', '\n', '\n', 'c'], 0⟩ 1 = some 2 ∧
    findPreviousMatchingLine (fun l => l.isEmpty) ⟨['a', '\n', '\n', 'c'], 3⟩ 1 = some (-1) := by decide

/-! ## 9. the word under the cursor -/

theorem currentWordEnd_spec (cl : Char → Nat) (x : Text) :
    (∀ e, currentWordEnd cl x = some e →
      ∃ k, k ≠ 0 ∧ 1 ≤ e ∧ clsAt cl x 0 = some k ∧ (∀ j, j < e → clsAt cl x j = some k) ∧
        clsAt cl x e ≠ some k) ∧
    (currentWordEnd cl x = none → ∀ k, k ≠ 0 → clsAt cl x 0 ≠ some k) := by
  cases x with
  | nil => simp [currentWordEnd, clsAt]
  | cons c cs =>
    simp only [currentWordEnd]
    by_cases hz : cl c = 0
    · simp only [hz, if_true]
      refine ⟨(by intro e h; cases h), ?_⟩
      intro _ k hk
      simp [clsAt, hz]; omega
    · simp only [hz, if_false]
      refine ⟨?_, (by intro h; cases h)⟩
      intro e he
      cases he
      obtain ⟨h1, h2⟩ := prefixLen_spec cl (cl c) cs
      refine ⟨cl c, hz, by omega, by simp [clsAt], ?_, ?_⟩
      · intro j hj
        cases j with
        | zero => simp [clsAt]
        | succ j => rw [clsAt_cons_succ]; exact h1 j (by omega)
      · have : 1 + prefixLen cl (cl c) cs = prefixLen cl (cl c) cs + 1 := by omega
        rw [this, clsAt_cons_succ]; exact h2

theorem Normal.get_after (h : Normal t i A m1 m2 B) (j : Nat) (hj : j < m2.length) :
    t[i + j]? = m2[j]? := by
  have := h.drop
  have e : t[i + j]? = (t.drop i)[j]? := by rw [List.getElem?_drop]
  rw [e, this, List.getElem?_append_left hj]

theorem Normal.get_before (h : Normal t i A m1 m2 B) (j : Nat) (hj : j < m1.length) :
    t[i - 1 - j]? = m1.reverse[j]? := by
  have hidx := h.idx
  have e : t[i - 1 - j]? = (t.take i)[i - 1 - j]? := by
    rw [List.getElem?_take_of_lt (by omega)]
  rw [e, h.take, List.getElem?_append_right (by omega), List.getElem?_reverse hj]
  congr 1; omega

/-- classes 1 and 2 of the word regex are told apart by `[a-zA-Z0-9_]` membership; WORD has a
    single non-blank class -/
theorem cls_eq_of_nonzero (sp : Char → Bool) (WORD : Bool) (c1 c2 : Char)
    (h1 : cls sp WORD c1 ≠ 0) (h2 : cls sp WORD c2 ≠ 0)
    (hw : WORD = false → isWordChar c1 = isWordChar c2) : cls sp WORD c1 = cls sp WORD c2 := by
  cases WORD with
  | true =>
    simp only [cls, if_true, clsBig] at h1 h2 ⊢
    split at h1 <;> split at h2 <;> simp_all
  | false =>
    have := hw rfl
    simp only [cls, Bool.false_eq_true, if_false, clsWord] at h1 h2 ⊢
    rw [this] at h1 ⊢
    split at h1 <;> split at h2 <;> simp_all

theorem cls_ne_of_wordChar_ne (sp : Char → Bool) (c1 c2 : Char)
    (hw : isWordChar c1 ≠ isWordChar c2) : cls sp false c1 ≠ cls sp false c2 := by
  simp only [cls, Bool.false_eq_true, if_false, clsWord]
  cases h1 : isWordChar c1 <;> cases h2 : isWordChar c2 <;> simp_all <;> split <;> omega

/-- **`find_boundaries_of_current_word`** (no whitespace flags): when the reported span is
    non-empty, all its characters have one and the same non-blank class (it is a single word /
    WORD), and the span is maximal inside the current line: the character of the line after its
    end and the one before its start (if any) have another class. -/
theorem wordBoundaries_word (sp : Char → Bool) (d : Doc) (hc : d.cur ≤ d.text.length) (WORD : Bool) :
    let s := (wordBoundaries sp d WORD false false).1
    let e := (wordBoundaries sp d WORD false false).2
    s < e →
    ∃ k, k ≠ 0 ∧
      (∀ p : Nat, (d.cur : Int) + s ≤ p → (p : Int) < d.cur + e → clsAt (cls sp WORD) d.text p = some k) ∧
      clsAt (cls sp WORD) (lineAfter d) e.toNat ≠ some k ∧
      clsAt (cls sp WORD) (lineBefore d).reverse (-s).toNat ≠ some k := by
  obtain ⟨t, i⟩ := d
  simp only at hc
  obtain ⟨A, m1, m2, B, hn⟩ := exists_normal' t i hc
  have hidx := hn.idx
  obtain ⟨hb1, hb2⟩ := currentWordEnd_spec (cls sp WORD) m1.reverse
  obtain ⟨ha1, ha2⟩ := currentWordEnd_spec (cls sp WORD) m2
  -- classes of the text around the cursor
  have hafter : ∀ j, j < m2.length → clsAt (cls sp WORD) t (i + j) = clsAt (cls sp WORD) m2 j := by
    intro j hj; simp only [clsAt, hn.get_after j hj]
  have hbefore : ∀ j, j < m1.length → clsAt (cls sp WORD) t (i - 1 - j) = clsAt (cls sp WORD) m1.reverse j := by
    intro j hj; simp only [clsAt, hn.get_before j hj]
  simp only [wordBoundaries, hn.lineBefore, hn.lineAfter, Bool.false_eq_true, if_false]
  cases hmb : currentWordEnd (cls sp WORD) m1.reverse with
  | none =>
    cases hma : currentWordEnd (cls sp WORD) m2 with
    | none => simp
    | some ea =>
      obtain ⟨k, hk, hea, _, hall, hstop⟩ := ha1 ea hma
      have hle := currentWordEnd_le _ _ _ hma
      simp only [Option.isSome_none, Bool.and_false, Bool.false_and, Bool.false_eq_true, if_false]
      intro _
      refine ⟨k, hk, ?_, by simpa using hstop, by simpa using hb2 hmb k hk⟩
      intro p hp1 hp2
      have := hafter (p - i) (by omega)
      have e : i + (p - i) = p := by omega
      rw [e] at this; rw [this]; exact hall _ (by omega)
  | some eb =>
    obtain ⟨kb, hkb, heb, hb0, hball, hbstop⟩ := hb1 eb hmb
    have hble := currentWordEnd_le _ _ _ hmb
    simp only [List.length_reverse] at hble
    cases hma : currentWordEnd (cls sp WORD) m2 with
    | none =>
      simp only [Option.isSome_none, Bool.and_false, Bool.false_eq_true, if_false]
      intro _
      refine ⟨kb, hkb, ?_, by simpa using ha2 hma kb hkb, ?_⟩
      · intro p hp1 hp2
        have := hbefore (i - 1 - p) (by omega)
        have e : i - 1 - (i - 1 - p) = p := by omega
        rw [e] at this; rw [this]; exact hball _ (by omega)
      · have : (-(-(eb : Int))).toNat = eb := by omega
        rw [this]; exact hbstop
    | some ea =>
      obtain ⟨ka, hka, hea, ha0, haall, hastop⟩ := ha1 ea hma
      have hale := currentWordEnd_le _ _ _ hma
      -- the two characters around the cursor
      have hc1 : ∃ c1, t[i - 1]? = some c1 ∧ cls sp WORD c1 = kb := by
        have h0 := hn.get_before 0 (by omega)
        simp only [clsAt] at hb0
        cases hg : m1.reverse[0]? with
        | none => rw [hg] at hb0; simp at hb0
        | some c1 =>
          rw [hg] at hb0 h0
          exact ⟨c1, by simpa using h0, by simpa using hb0⟩
      have hc2 : ∃ c2, t[i]? = some c2 ∧ cls sp WORD c2 = ka := by
        have h0 := hn.get_after 0 (by omega)
        simp only [clsAt] at ha0
        cases hg : m2[0]? with
        | none => rw [hg] at ha0; simp at ha0
        | some c2 =>
          rw [hg] at ha0 h0
          exact ⟨c2, by simpa using h0, by simpa using ha0⟩
      obtain ⟨c1, hg1, hk1⟩ := hc1
      obtain ⟨c2, hg2, hk2⟩ := hc2
      have hi1 : index? t ((i : Int) - 1) = some c1 := by
        have : ((i : Int) - 1) = ((i - 1 : Nat) : Int) := by omega
        rw [this, index?_natCast]; exact hg1
      have hi2 : index? t (i : Int) = some c2 := by rw [index?_natCast]; exact hg2
      simp only [hi1, hi2, Option.isSome_some, Bool.and_true]
      -- the part after the cursor is a word in any case
      have hafterword : ∀ p : Nat, i ≤ p → p < i + ea → clsAt (cls sp WORD) t p = some ka := by
        intro p hp1 hp2
        have := hafter (p - i) (by omega)
        have e : i + (p - i) = p := by omega
        rw [e] at this; rw [this]; exact haall _ (by omega)
      have hbeforeword : ∀ p : Nat, i - eb ≤ p → p < i → clsAt (cls sp WORD) t p = some kb := by
        intro p hp1 hp2
        have := hbefore (i - 1 - p) (by omega)
        have e : i - 1 - (i - 1 - p) = p := by omega
        rw [e] at this; rw [this]; exact hball _ (by omega)
      cases WORD with
      | true =>
        have hkk : kb = ka := by
          rw [← hk1, ← hk2]
          exact cls_eq_of_nonzero sp true c1 c2 (by rw [hk1]; exact hkb) (by rw [hk2]; exact hka)
            (by intro h; cases h)
        subst hkk
        simp only [Bool.not_true, Bool.false_eq_true, if_false]
        intro _
        refine ⟨kb, hkb, ?_, by simpa using hastop, ?_⟩
        · intro p hp1 hp2
          rcases Nat.lt_or_ge p i with h | h
          · exact hbeforeword p (by omega) h
          · exact hafterword p h (by omega)
        · have : (-(-(eb : Int))).toNat = eb := by omega
          rw [this]; exact hbstop
      | false =>
        simp only [Bool.not_false, if_true]
        by_cases hw : isWordChar c1 = isWordChar c2
        · have hkk : kb = ka := by
            rw [← hk1, ← hk2]
            exact cls_eq_of_nonzero sp false c1 c2 (by rw [hk1]; exact hkb) (by rw [hk2]; exact hka)
              (fun _ => hw)
          subst hkk
          simp only [hw, bne_self_eq_false, Bool.false_eq_true, if_false]
          intro _
          refine ⟨kb, hkb, ?_, by simpa using hastop, ?_⟩
          · intro p hp1 hp2
            rcases Nat.lt_or_ge p i with h | h
            · exact hbeforeword p (by omega) h
            · exact hafterword p h (by omega)
          · have : (-(-(eb : Int))).toNat = eb := by omega
            rw [this]; exact hbstop
        · have hne : (isWordChar c1 != isWordChar c2) = true := by simpa using hw
          simp only [hne, if_true]
          intro _
          refine ⟨ka, hka, ?_, by simpa using hastop, ?_⟩
          · intro p hp1 hp2
            exact hafterword p (by omega) (by omega)
          · -- the character before the cursor has the other class
            have hcne := cls_ne_of_wordChar_ne sp c1 c2 hw
            rw [hk1, hk2] at hcne
            simp only [Int.neg_zero, Int.toNat_zero]
            rw [hb0]; intro e; exact hcne (Option.some.inj e)
example : wordBoundaries (· == ' ') ⟨['a', 'b', '.', ' '], 1⟩ false false false = (-1, 1) ∧
    wordBoundaries (· == ' ') ⟨['a', 'b', '.', ' '], 2⟩ false false false = (0, 1) := by decide

/-! ## 10. `find_backwards` reports the nearest occurrence -/

theorem matchAt_reverse' {eq : Char → Char → Bool} {sub x : Text} {p : Nat}
    (hp : p + sub.length ≤ x.length) (h : matchAt eq sub (x.drop p) = true) :
    matchAt eq sub.reverse (x.reverse.drop (x.length - p - sub.length)) = true := by
  have := @matchAt_reverse eq sub.reverse x.reverse p (by simpa using hp) (by simpa using h)
  simpa using this

/-- **`find_backwards` (count = 1) reports the occurrence nearest to the cursor, and `None` only
    when there is none**: in the searched text `x` (the text / the current line before the cursor)
    the needle matches at no start position after the reported one that still ends before the
    cursor; and if nothing is reported it matches nowhere in `x`. -/
theorem findBackwards_nearest (eq : Char → Char → Bool) (d : Doc) (sub : Text) (inLine : Bool) :
    let x := if inLine = true then lineBefore d else d.before
    (∀ r : Int, findBackwards eq d sub inLine 1 = some r →
        ∀ p : Nat, (x.length : Int) + r < p → p + sub.length ≤ x.length →
          matchAt eq sub (x.drop p) = false) ∧
    (findBackwards eq d sub inLine 1 = none →
        ∀ p : Nat, p + sub.length ≤ x.length → matchAt eq sub (x.drop p) = false) := by
  intro x
  have hnth : ∀ ms : List Nat, nth ms 1 = ms[0]? := by intro ms; simp [nth]
  have hx : (if inLine = true then (lineBefore d).reverse else d.before.reverse) = x.reverse := by
    simp only [x]; split <;> rfl
  obtain ⟨h1, h2⟩ := finditer_first eq sub.reverse x.reverse
  simp only [findBackwards, hx, hnth]
  constructor
  · intro r hr p hp1 hp2
    obtain ⟨s, hs, rfl⟩ := Option.map_eq_some_iff.mp hr
    have hno := h1 s hs (x.length - p - sub.length) (by omega)
    cases hm : matchAt eq sub (x.drop p) with
    | false => rfl
    | true => rw [matchAt_reverse' hp2 hm] at hno; cases hno
  · intro hr p hp2
    have hnil : finditer eq sub.reverse x.reverse = [] := by
      cases hl : finditer eq sub.reverse x.reverse with
      | nil => rfl
      | cons a as => rw [hl] at hr; simp at hr
    have hno := h2 hnil (x.length - p - sub.length) (by simp; omega)
    cases hm : matchAt eq sub (x.drop p) with
    | false => rfl
    | true => rw [matchAt_reverse' hp2 hm] at hno; cases hno
example : findBackwards (· == ·) ⟨['a', 'b', 'a', 'b', 'c'], 5⟩ ['a', 'b'] false 1 = some (-3) := by decide

/-! ## 11. the count-th match of `find` -/

/-- distance between the starts of two consecutive matches: the needle length, 1 for the empty needle -/
def stepLen (sub : Text) : Nat := max 1 sub.length

theorem finditerGo_chain (eq : Char → Char → Bool) (sub : Text) (fuel off : Nat) (t : Text)
    (hf : t.length < fuel) (k a : Nat) (ha : (finditerGo eq sub fuel off t)[k]? = some a) :
    (∀ b, (finditerGo eq sub fuel off t)[k + 1]? = some b →
        a + stepLen sub ≤ b ∧
        ∀ j, a + stepLen sub ≤ j → j < b → matchAt eq sub (t.drop (j - off)) = false) ∧
    ((finditerGo eq sub fuel off t)[k + 1]? = none →
        ∀ j, a + stepLen sub ≤ j → j ≤ off + t.length → matchAt eq sub (t.drop (j - off)) = false) := by
  induction fuel generalizing off t k with
  | zero => omega
  | succ f ih =>
    -- the "no match here, move one character on" step, shared by two branches
    have shift : ∀ c cs, t = c :: cs →
        (finditerGo eq sub (f + 1) off t = finditerGo eq sub f (off + 1) cs) →
        (∀ b, (finditerGo eq sub (f + 1) off t)[k + 1]? = some b →
          a + stepLen sub ≤ b ∧
          ∀ j, a + stepLen sub ≤ j → j < b → matchAt eq sub (t.drop (j - off)) = false) ∧
        ((finditerGo eq sub (f + 1) off t)[k + 1]? = none →
          ∀ j, a + stepLen sub ≤ j → j ≤ off + t.length → matchAt eq sub (t.drop (j - off)) = false) := by
      intro c cs ht hL
      rw [hL] at ha ⊢
      have hoff : off + 1 ≤ a := (finditerGo_sound eq sub f (off + 1) cs a (List.mem_of_getElem? ha)).1
      obtain ⟨i1, i2⟩ := ih (off + 1) cs (by rw [ht] at hf; simp at hf; omega) k ha
      have hd : ∀ j, off + 1 ≤ j → t.drop (j - off) = cs.drop (j - (off + 1)) := by
        intro j hj
        have : j - off = (j - (off + 1)) + 1 := by omega
        rw [ht, this, List.drop_succ_cons]
      refine ⟨?_, ?_⟩
      · intro b hb
        obtain ⟨g1, g2⟩ := i1 b hb
        refine ⟨g1, ?_⟩
        intro j hj1 hj2
        rw [hd j (by unfold stepLen at hj1; omega)]
        exact g2 j hj1 hj2
      · intro hn j hj1 hj2
        rw [hd j (by unfold stepLen at hj1; omega)]
        exact i2 hn j hj1 (by rw [ht] at hj2; simp at hj2; omega)
    by_cases hm : matchAt eq sub t = true
    · -- a match at the current position
      have hml := matchAt_length hm
      by_cases hemp : sub.isEmpty = true
      · -- empty needle: next search one character on
        have hsub : sub = [] := by simpa using hemp
        cases t with
        | nil =>
          have hL : finditerGo eq sub (f + 1) off [] = [off] := by
            unfold finditerGo; simp [hm, hemp]
          rw [hL] at ha ⊢
          cases k with
          | zero =>
            simp at ha; subst ha
            refine ⟨by intro b hb; simp at hb, ?_⟩
            intro _ j hj1 hj2
            unfold stepLen at hj1; simp at hj2; omega
          | succ k => simp at ha
        | cons c cs =>
          have hL : finditerGo eq sub (f + 1) off (c :: cs) = off :: finditerGo eq sub f (off + 1) cs := by
            conv => lhs; unfold finditerGo
            simp [hm, hemp]
          cases k with
          | zero =>
            rw [hL] at ha ⊢
            simp at ha; subst ha
            obtain ⟨f1, f2⟩ := finditerGo_first eq sub f (off + 1) cs (by simp at hf; omega)
            have hstep : stepLen sub = 1 := by simp [stepLen, hsub]
            have hd : ∀ j, off + 1 ≤ j → (c :: cs).drop (j - off) = cs.drop (j - (off + 1)) := by
              intro j hj
              have : j - off = (j - (off + 1)) + 1 := by omega
              rw [this, List.drop_succ_cons]
            refine ⟨?_, ?_⟩
            · intro b hb
              simp only [List.getElem?_cons_succ] at hb
              have hbge := (finditerGo_sound eq sub f (off + 1) cs b (List.mem_of_getElem? hb)).1
              refine ⟨by omega, ?_⟩
              intro j hj1 hj2
              rw [hd j (by omega)]
              cases hl : finditerGo eq sub f (off + 1) cs with
              | nil => rw [hl] at hb; simp at hb
              | cons s rest =>
                rw [hl] at hb; simp at hb; subst hb
                exact f1 s rest hl _ (by omega)
            · intro hn j hj1 hj2
              simp only [List.getElem?_cons_succ] at hn
              rw [hd j (by omega)]
              have hnil : finditerGo eq sub f (off + 1) cs = [] := by
                cases hl : finditerGo eq sub f (off + 1) cs with
                | nil => rfl
                | cons s rest => rw [hl] at hn; simp at hn
              exact f2 hnil _ (by simp at hj2; omega)
          | succ k =>
            rw [hL] at ha ⊢
            simp only [List.getElem?_cons_succ] at ha ⊢
            have hoff : off + 1 ≤ a := (finditerGo_sound eq sub f (off + 1) cs a (List.mem_of_getElem? ha)).1
            obtain ⟨i1, i2⟩ := ih (off + 1) cs (by simp at hf; omega) k ha
            have hd : ∀ j, off + 1 ≤ j → (c :: cs).drop (j - off) = cs.drop (j - (off + 1)) := by
              intro j hj
              have : j - off = (j - (off + 1)) + 1 := by omega
              rw [this, List.drop_succ_cons]
            refine ⟨?_, ?_⟩
            · intro b hb
              obtain ⟨g1, g2⟩ := i1 b hb
              refine ⟨g1, ?_⟩
              intro j hj1 hj2
              rw [hd j (by unfold stepLen at hj1; omega)]
              exact g2 j hj1 hj2
            · intro hn j hj1 hj2
              rw [hd j (by unfold stepLen at hj1; omega)]
              exact i2 hn j hj1 (by simp at hj2; omega)
      · -- non-empty needle: next search after the match
        have hpos : 0 < sub.length := by
          cases sub with
          | nil => simp at hemp
          | cons _ _ => simp
        have hstep : stepLen sub = sub.length := by unfold stepLen; omega
        have hL : finditerGo eq sub (f + 1) off t =
            off :: finditerGo eq sub f (off + sub.length) (t.drop sub.length) := by
          conv => lhs; unfold finditerGo
          simp [hm, hemp]
        have hd : ∀ j, off + sub.length ≤ j →
            t.drop (j - off) = (t.drop sub.length).drop (j - (off + sub.length)) := by
          intro j hj
          rw [List.drop_drop]; congr 1; omega
        have hf' : (t.drop sub.length).length < f := by simp only [List.length_drop]; omega
        cases k with
        | zero =>
          rw [hL] at ha ⊢
          simp at ha; subst ha
          obtain ⟨f1, f2⟩ := finditerGo_first eq sub f (off + sub.length) (t.drop sub.length) hf'
          refine ⟨?_, ?_⟩
          · intro b hb
            simp only [List.getElem?_cons_succ] at hb
            have hbge := (finditerGo_sound eq sub f _ _ b (List.mem_of_getElem? hb)).1
            refine ⟨by omega, ?_⟩
            intro j hj1 hj2
            rw [hd j (by omega)]
            cases hl : finditerGo eq sub f (off + sub.length) (t.drop sub.length) with
            | nil => rw [hl] at hb; simp at hb
            | cons s rest =>
              rw [hl] at hb; simp at hb; subst hb
              exact f1 s rest hl _ (by omega)
          · intro hn j hj1 hj2
            simp only [List.getElem?_cons_succ] at hn
            rw [hd j (by omega)]
            have hnil : finditerGo eq sub f (off + sub.length) (t.drop sub.length) = [] := by
              cases hl : finditerGo eq sub f (off + sub.length) (t.drop sub.length) with
              | nil => rfl
              | cons s rest => rw [hl] at hn; simp at hn
            exact f2 hnil _ (by simp only [List.length_drop]; omega)
        | succ k =>
          rw [hL] at ha ⊢
          simp only [List.getElem?_cons_succ] at ha ⊢
          have hoff := (finditerGo_sound eq sub f _ _ a (List.mem_of_getElem? ha)).1
          obtain ⟨i1, i2⟩ := ih (off + sub.length) (t.drop sub.length) hf' k ha
          refine ⟨?_, ?_⟩
          · intro b hb
            obtain ⟨g1, g2⟩ := i1 b hb
            refine ⟨g1, ?_⟩
            intro j hj1 hj2
            rw [hd j (by omega)]
            exact g2 j hj1 hj2
          · intro hn j hj1 hj2
            rw [hd j (by omega)]
            exact i2 hn j hj1 (by simp only [List.length_drop]; omega)
    · -- no match here
      cases t with
      | nil =>
        have hL : finditerGo eq sub (f + 1) off [] = [] := by
          unfold finditerGo; simp [hm]
        rw [hL] at ha; simp at ha
      | cons c cs =>
        exact shift c cs rfl (by conv => lhs; unfold finditerGo
                                 simp [hm])

theorem finditer_chain (eq : Char → Char → Bool) (sub t : Text) (k a : Nat)
    (ha : (finditer eq sub t)[k]? = some a) :
    (∀ b, (finditer eq sub t)[k + 1]? = some b →
        a + stepLen sub ≤ b ∧
        ∀ j, a + stepLen sub ≤ j → j < b → matchAt eq sub (t.drop j) = false) ∧
    ((finditer eq sub t)[k + 1]? = none →
        ∀ j, a + stepLen sub ≤ j → j ≤ t.length → matchAt eq sub (t.drop j) = false) := by
  have := finditerGo_chain eq sub (t.length + 1) 0 t (by omega) k a ha
  simpa [finditer] using this

/-- **the count-th match of `find`**: if `find(count=k)` reports `r`, then `find(count=k+1)` reports
    the nearest occurrence that starts at least one needle length (one character for the empty
    needle) after `r` — non-overlapping, nothing skipped — and reports `None` only if there is no
    such occurrence.  With `find_nearest` (count = 1) this determines every count. -/
theorem findIn_next (eq : Char → Char → Bool) (text sub : Text) (incl : Bool) (k : Int) (hk : 1 ≤ k)
    (r : Int) (hr : findIn eq text sub incl k = some r) :
    (∀ r' : Int, findIn eq text sub incl (k + 1) = some r' →
        r + stepLen sub ≤ r' ∧
        ∀ q : Nat, r + stepLen sub ≤ q → (q : Int) < r' → matchAt eq sub (text.drop q) = false) ∧
    (findIn eq text sub incl (k + 1) = none →
        ∀ q : Nat, r + stepLen sub ≤ q → q ≤ text.length → matchAt eq sub (text.drop q) = false) := by
  have hn1 : ∀ ms : List Nat, nth ms k = ms[(k - 1).toNat]? := by
    intro ms
    have h1 : k ≥ 1 := hk
    simp only [nth, h1, if_true]
  have hn2 : ∀ ms : List Nat, nth ms (k + 1) = ms[(k - 1).toNat + 1]? := by
    intro ms
    have e : (k + 1 - 1).toNat = (k - 1).toNat + 1 := by omega
    have h1 : k + 1 ≥ 1 := by omega
    simp only [nth, h1, if_true, e]
  cases incl with
  | true =>
    simp only [findIn, Bool.not_true, Bool.false_eq_true, if_false, hn1, hn2] at hr ⊢
    obtain ⟨a, ha, rfl⟩ := Option.map_eq_some_iff.mp hr
    obtain ⟨c1, c2⟩ := finditer_chain eq sub text _ a ha
    constructor
    · intro r' hr'
      obtain ⟨b, hb, rfl⟩ := Option.map_eq_some_iff.mp hr'
      obtain ⟨g1, g2⟩ := c1 b hb
      exact ⟨by omega, fun q hq1 hq2 => g2 q (by omega) (by omega)⟩
    · intro hn q hq1 hq2
      have : (finditer eq sub text)[(k - 1).toNat + 1]? = none := by simpa using hn
      exact c2 this q (by omega) hq2
  | false =>
    simp only [findIn, Bool.not_false, if_true, hn1, hn2] at hr ⊢
    split at hr
    · cases hr
    · rename_i hne
      simp only [hne, Bool.false_eq_true, if_false]
      obtain ⟨a, ha, rfl⟩ := Option.map_eq_some_iff.mp hr
      obtain ⟨c1, c2⟩ := finditer_chain eq sub (text.drop 1) _ a ha
      have hstep : 1 ≤ stepLen sub := by unfold stepLen; omega
      have hd : ∀ q : Nat, 1 ≤ q → text.drop q = (text.drop 1).drop (q - 1) := by
        intro q hq; rw [List.drop_drop]; congr 1; omega
      constructor
      · intro r' hr'
        obtain ⟨b, hb, rfl⟩ := Option.map_eq_some_iff.mp hr'
        obtain ⟨g1, g2⟩ := c1 b hb
        refine ⟨by omega, ?_⟩
        intro q hq1 hq2
        rw [hd q (by omega)]
        exact g2 (q - 1) (by omega) (by omega)
      · intro hn q hq1 hq2
        have : (finditer eq sub (text.drop 1))[(k - 1).toNat + 1]? = none := by simpa using hn
        rw [hd q (by omega)]
        exact c2 this (q - 1) (by omega) (by simp only [List.length_drop]; omega)
example : findIn (· == ·) ['a', 'a', 'a', 'b', 'a', 'a'] ['a', 'a'] true 1 = some 0 ∧
    findIn (· == ·) ['a', 'a', 'a', 'b', 'a', 'a'] ['a', 'a'] true 2 = some 4 := by decide

end Ptk.C02
