/-
  C01 — property theorems for the Buffer edit model (`Ptk.Model.C01`).
  Every theorem holds for all texts, cursors, counts, and (run_inv) all finite
  op sequences; `sp` (str.isspace) and the transform callback `f` are arbitrary.
-/
import Ptk.Model.C01
namespace Ptk.C01
open Ptk.Py

/-- well-formedness of a buffer: the cursor is inside the text -/
def Inv (b : Buf) : Prop := b.cur ≤ b.text.length

/-! ### list helpers -/
section helpers
variable {α : Type}

theorem take_app2 (pre la rest : List α) :
    (pre ++ (la ++ rest)).take (pre.length + la.length) = pre ++ la := by
  rw [← List.append_assoc, ← List.length_append, List.take_left']; rfl
theorem drop_app2 (pre la rest : List α) :
    (pre ++ (la ++ rest)).drop (pre.length + la.length) = rest := by
  rw [← List.append_assoc, ← List.length_append, List.drop_left']; rfl
theorem drop_app3 (pre la rest : List α) (x : α) :
    (pre ++ (la ++ x :: rest)).drop (pre.length + la.length + 1) = rest := by
  have : pre ++ (la ++ x :: rest) = (pre ++ la ++ [x]) ++ rest := by simp
  rw [this, List.drop_left']; simp; omega

theorem notNl_iff (c : Char) : notNl c = true ↔ c ≠ '\n' := by simp [notNl]

theorem mem_takeWhile_p {p : α → Bool} {l : List α} {c : α} (h : c ∈ l.takeWhile p) :
    p c = true := by
  have := @List.all_takeWhile _ p l
  rw [List.all_eq_true] at this
  exact this c h

theorem nl_not_mem_takeWhile (l : Text) : '\n' ∉ l.takeWhile notNl := by
  intro hm; have := mem_takeWhile_p hm; simp [notNl] at this

theorem dropWhile_head {p : α → Bool} {l : List α} {x : α} {xs : List α}
    (h : l.dropWhile p = x :: xs) : p x = false := by
  induction l with
  | nil => simp at h
  | cons y ys ih =>
    rw [List.dropWhile_cons] at h
    split at h
    · exact ih h
    · cases h; simp_all

theorem length_takeWhile_le' (p : α → Bool) (l : List α) :
    (l.takeWhile p).length ≤ l.length := by
  induction l with
  | nil => simp
  | cons x xs ih => rw [List.takeWhile_cons]; split <;> simp <;> omega

theorem takeWhile_take_spec (p : α → Bool) (l : List α) :
    ∃ k, k ≤ l.length ∧ l.takeWhile p = l.take k ∧ ∀ c ∈ l.take k, p c = true := by
  induction l with
  | nil => exact ⟨0, by simp⟩
  | cons x xs ih =>
    obtain ⟨k, hk, he, ha⟩ := ih
    by_cases hp : p x = true
    · refine ⟨k+1, by simp; omega, by simp [hp, he], ?_⟩
      intro c hc; simp at hc; rcases hc with rfl | hc
      · exact hp
      · exact ha c hc
    · exact ⟨0, by simp, by simp [hp], by simp⟩

theorem takeWhile_append_nl (la rest : Text) (h : '\n' ∉ la) :
    (la ++ '\n' :: rest).takeWhile notNl = la := by
  induction la with
  | nil => simp [notNl]
  | cons x xs ih =>
    simp at h
    have hx : notNl x = true := by rw [notNl_iff]; exact fun e => h.1 e.symm
    rw [List.cons_append, List.takeWhile_cons, hx]; simp only [if_true]
    rw [ih h.2]

theorem split_at_nl (l : Text) (h : '\n' ∈ l) :
    ∃ rest, l = l.takeWhile notNl ++ '\n' :: rest := by
  induction l with
  | nil => simp at h
  | cons x xs ih =>
    by_cases hx : x = '\n'
    · exact ⟨xs, by simp [hx, notNl]⟩
    · have : '\n' ∈ xs := by
        simp at h; rcases h with h | h
        · exact absurd h.symm hx
        · exact h
      obtain ⟨rest, hr⟩ := ih this
      refine ⟨rest, ?_⟩
      have hx' : notNl x = true := by rw [notNl_iff]; exact hx
      rw [List.takeWhile_cons, hx']; simp only [if_true]
      rw [List.cons_append, ← hr]

theorem lstripChar_spec (c : Char) (l : Text) :
    ∃ k, lstripChar c l = l.drop k ∧ ∀ x ∈ l.take k, x = c := by
  induction l with
  | nil => exact ⟨0, by simp [lstripChar]⟩
  | cons x xs ih =>
    unfold lstripChar
    split
    · obtain ⟨k, hk, ha⟩ := ih
      refine ⟨k + 1, by simpa using hk, ?_⟩
      intro y hy; simp at hy; rcases hy with rfl | hy
      · assumption
      · exact ha y hy
    · exact ⟨0, by simp⟩
end helpers

theorem before_append_after (b : Buf) : b.before ++ b.after = b.text := by
  simp [Buf.before, Buf.after]

/-! ### insert -/

/-- insert mode: text-before + data + text-after; cursor moves by `len(data)` iff asked. -/
theorem insert_spec (b : Buf) (h : Inv b) (d : Text) (mv : Bool) :
    (insertText b d false mv).text = b.before ++ d ++ b.after ∧
    (insertText b d false mv).cur = (if mv then b.cur + d.length else b.cur) := by
  unfold Inv at h
  unfold insertText Buf.before Buf.after
  cases mv <;> simp <;> omega

example : Inv { text := ['a', '\n', 'b'], cur := 2 } := by unfold Inv; decide

/-- overwrite mode: replaces `k ≤ len(data)` characters after the cursor, none of them a
    line ending, and nothing else. -/
theorem insert_overwrite_spec (b : Buf) (h : Inv b) (d : Text) (mv : Bool) :
    ∃ k, k ≤ d.length ∧ k ≤ b.after.length ∧ '\n' ∉ b.after.take k ∧
      (insertText b d true mv).text = b.before ++ d ++ b.after.drop k ∧
      (insertText b d true mv).cur = (if mv then b.cur + d.length else b.cur) := by
  unfold Inv at h
  obtain ⟨k, hk, he, ha⟩ := takeWhile_take_spec notNl ((b.text.drop b.cur).take d.length)
  have hk' : k ≤ d.length ∧ k ≤ b.text.length - b.cur := by simp at hk; omega
  have he' : List.takeWhile notNl ((b.text.drop b.cur).take d.length) = (b.text.drop b.cur).take k := by
    rw [he, List.take_take]; congr 1; omega
  refine ⟨k, hk'.1, by simp [Buf.after]; omega, ?_, ?_, ?_⟩
  · intro hmem
    have : (b.text.drop b.cur).take k = ((b.text.drop b.cur).take d.length).take k := by
      rw [List.take_take]; congr 1; omega
    simp only [Buf.after] at hmem
    rw [this] at hmem
    have := ha _ hmem
    simp [notNl] at this
  · unfold insertText
    simp only [if_true, he']
    simp [Buf.before, Buf.after, List.drop_drop]
    congr 2; omega
  · unfold insertText
    simp only [if_true, he']
    cases mv <;> simp <;> omega

/-! ### delete -/

/-- delete(n): removes exactly the min(n, available) characters after the cursor, returns them -/
theorem delete_spec (b : Buf) (h : Inv b) (n : Nat) :
    (delete b n).2 = b.after.take (min n b.after.length) ∧
    (delete b n).1.text = b.before ++ b.after.drop (min n b.after.length) ∧
    (delete b n).1.cur = b.cur := by
  unfold Inv at h
  unfold delete
  split
  · simp [setText, Buf.before, Buf.after, List.drop_drop]
    omega
  · rename_i hge
    have : b.cur = b.text.length := by omega
    simp [Buf.before, Buf.after, this]

/-- delete_before_cursor(n): removes exactly the last min(n, cursor) characters before the
    cursor, returns them, and moves the cursor back by that many. -/
theorem deleteBefore_spec (b : Buf) (h : Inv b) (n : Nat) :
    let m := min n b.cur
    (deleteBefore b n).2 = b.before.drop (b.cur - m) ∧
    (deleteBefore b n).2.length = m ∧
    (deleteBefore b n).1.text = b.before.take (b.cur - m) ++ b.after ∧
    (deleteBefore b n).1.cur = b.cur - m := by
  unfold Inv at h
  intro m
  unfold deleteBefore
  split
  · simp [Buf.before, Buf.after, List.take_take, m]
    omega
  · rename_i h0
    have : b.cur = 0 := by omega
    simp [Buf.before, Buf.after, this, m]

example : (deleteBefore { text := "hello".toList, cur := 2 } 3) =
    ({ text := "llo".toList, cur := 0 }, "he".toList) := by decide

/-! ### swap / transforms -/

/-- swap: exchanges exactly the two characters before the cursor -/
theorem swap_spec (b : Buf) (h : Inv b) :
    (2 ≤ b.cur → ∃ x y, b.text = b.text.take (b.cur - 2) ++ [x, y] ++ b.text.drop b.cur ∧
        (swapBeforeCursor b).text = b.text.take (b.cur - 2) ++ [y, x] ++ b.text.drop b.cur ∧
        (swapBeforeCursor b).cur = b.cur) ∧
    (b.cur < 2 → swapBeforeCursor b = b) := by
  unfold Inv at h
  constructor
  · intro h2
    have h1 : b.cur - 2 < b.text.length := by omega
    have h1' : b.cur - 1 < b.text.length := by omega
    refine ⟨b.text[b.cur - 2], b.text[b.cur - 1], ?_, ?_, ?_⟩
    · have e1 : b.text = b.text.take (b.cur - 2) ++ b.text.drop (b.cur - 2) := by simp
      have e2 : b.text.drop (b.cur - 2) = b.text[b.cur - 2] :: b.text.drop (b.cur - 2 + 1) := by
        rw [List.drop_eq_getElem_cons h1]
      have e3 : b.text.drop (b.cur - 2 + 1) = b.text[b.cur - 1] :: b.text.drop b.cur := by
        have : b.cur - 2 + 1 = b.cur - 1 := by omega
        rw [this, List.drop_eq_getElem_cons h1']
        congr 2; omega
      conv => lhs; rw [e1, e2, e3]
      simp
    · unfold swapBeforeCursor
      simp [h2, List.getElem?_eq_getElem h1, List.getElem?_eq_getElem h1', setText]
    · unfold swapBeforeCursor
      simp [h2, List.getElem?_eq_getElem h1, List.getElem?_eq_getElem h1', setText]
      omega
  · intro hlt
    unfold swapBeforeCursor
    simp; intro; omega

/-- transform_region: only `text[from:to]` is replaced (by `f` of it) -/
theorem transformRegion_frame (f : Text → Text) (b : Buf) (a e : Nat) (h : a < e) :
    ∃ b', transformRegion f b a e = some b' ∧
      b'.text = b.text.take a ++ f ((b.text.take e).drop a) ++ b.text.drop e := by
  unfold transformRegion; simp [h, setText]

/-! ### line views -/

theorem lineBefore_suffix (b : Buf) : ∃ p, b.before = p ++ lineBefore b ∧ '\n' ∉ lineBefore b ∧
    (p = [] ∨ p.getLast? = some '\n') := by
  unfold lineBefore
  generalize b.before = l
  refine ⟨(l.reverse.dropWhile notNl).reverse, ?_, ?_, ?_⟩
  · rw [← List.reverse_append, List.takeWhile_append_dropWhile, List.reverse_reverse]
  · intro hm
    rw [List.mem_reverse] at hm
    exact nl_not_mem_takeWhile _ hm
  · cases hd : l.reverse.dropWhile notNl with
    | nil => left; simp
    | cons x xs =>
      right
      have := dropWhile_head hd
      simp [notNl] at this
      simp [this]

theorem lineAfter_prefix (b : Buf) : ∃ s, b.after = lineAfter b ++ s ∧ '\n' ∉ lineAfter b ∧
    (s = [] ∨ s.head? = some '\n') := by
  unfold lineAfter
  generalize b.after = l
  refine ⟨l.dropWhile notNl, (List.takeWhile_append_dropWhile).symm, nl_not_mem_takeWhile _, ?_⟩
  cases hd : l.dropWhile notNl with
  | nil => left; rfl
  | cons x xs =>
    right
    have := dropWhile_head hd
    simp [notNl] at this
    simp [this]

theorem lineBefore_le (b : Buf) (h : Inv b) : (lineBefore b).length ≤ b.cur := by
  unfold lineBefore Inv at *
  have := length_takeWhile_le' notNl b.before.reverse
  simp [Buf.before] at this ⊢
  omega

theorem lineAfter_le (b : Buf) (h : Inv b) : b.cur + (lineAfter b).length ≤ b.text.length := by
  unfold lineAfter Inv at *
  have := length_takeWhile_le' notNl b.after
  simp [Buf.after] at this ⊢
  omega

/-- transform_current_line replaces exactly the current line (the maximal newline-free
    stretch around the cursor) by `f` of it. -/
theorem transformCurrentLine_frame (f : Text → Text) (b : Buf) (h : Inv b) :
    ∃ p s, b.text = p ++ currentLine b ++ s ∧ '\n' ∉ currentLine b ∧
      (p = [] ∨ p.getLast? = some '\n') ∧ (s = [] ∨ s.head? = some '\n') ∧
      (transformCurrentLine f b).text = p ++ f (currentLine b) ++ s := by
  obtain ⟨p, hp, hp1, hp2⟩ := lineBefore_suffix b
  obtain ⟨s, hs, hs1, hs2⟩ := lineAfter_prefix b
  have htext : b.text = p ++ currentLine b ++ s := by
    rw [← before_append_after b] ; rw [hp, hs]; simp [currentLine]
  refine ⟨p, s, htext, ?_, hp2, hs2, ?_⟩
  · simp [currentLine]; exact ⟨hp1, hs1⟩
  · unfold Inv at h
    have hbl : b.before.length = b.cur := by simp [Buf.before]; omega
    have hlenp : p.length = b.cur - (lineBefore b).length := by
      have := hbl; rw [hp] at this; simp at this; omega
    have hlb : (lineBefore b).length ≤ b.cur := by
      have := hbl; rw [hp] at this; simp at this; omega
    unfold transformCurrentLine
    simp only [setText]
    rw [← hlenp]
    have e : b.cur + (lineAfter b).length = p.length + (currentLine b).length := by
      simp [currentLine]; omega
    rw [e]
    conv => lhs; rw [htext]
    simp [List.take_append, List.drop_append]

/-! ### newline / insert line -/

theorem leadingWs_space (sp : Char → Bool) (b : Buf) : ∀ c ∈ leadingWs sp b, sp c = true := by
  intro c hc
  exact mem_takeWhile_p hc

/-- newline: inserts exactly one line ending (followed by copied margin blanks) at the cursor -/
theorem newline_spec (sp : Char → Bool) (b : Buf) (h : Inv b) (c : Bool) :
    ∃ m : Text, (∀ ch ∈ m, sp ch = true) ∧
      (newline sp b c).text = b.before ++ '\n' :: m ++ b.after ∧
      (newline sp b c).cur = b.cur + 1 + m.length := by
  unfold newline
  cases c
  · refine ⟨[], by simp, ?_⟩
    have := insert_spec b h ['\n'] true
    simp at this ⊢
    exact this
  · refine ⟨leadingWs sp b, leadingWs_space sp b, ?_⟩
    have := insert_spec b h ('\n' :: leadingWs sp b) true
    simp at this ⊢
    constructor
    · exact this.1
    · rw [this.2]; omega

/-- insert_line_below: one line ending (+ margin blanks) is inserted at the end of the current
    line; nothing else changes. -/
theorem lineBelow_spec (sp : Char → Bool) (b : Buf) (h : Inv b) (c : Bool) :
    ∃ m : Text, (∀ ch ∈ m, sp ch = true) ∧
      (insertLineBelow sp b c).text =
        b.text.take (b.cur + (lineAfter b).length) ++ '\n' :: m ++
        b.text.drop (b.cur + (lineAfter b).length) := by
  have hle := lineAfter_le b h
  unfold Inv at h
  have hb1 : setCursor b ((b.cur : Int) + (lineAfter b).length)
      = { text := b.text, cur := b.cur + (lineAfter b).length } := by
    simp [setCursor]; omega
  have hi : Inv { text := b.text, cur := b.cur + (lineAfter b).length } := by unfold Inv; simpa using hle
  unfold insertLineBelow
  rw [hb1]
  cases c
  · refine ⟨[], by simp, ?_⟩
    have := (insert_spec _ hi ['\n'] true).1
    simp only [Buf.before, Buf.after] at this
    simpa using this
  · refine ⟨leadingWs sp b, leadingWs_space sp b, ?_⟩
    have := (insert_spec _ hi ('\n' :: leadingWs sp b) true).1
    simp only [Buf.before, Buf.after] at this
    simpa using this

/-- insert_line_above: margin blanks + one line ending are inserted at the start of the current
    line; nothing else changes. -/
theorem lineAbove_spec (sp : Char → Bool) (b : Buf) (h : Inv b) (c : Bool) :
    ∃ m : Text, (∀ ch ∈ m, sp ch = true) ∧
      (insertLineAbove sp b c).text =
        b.text.take (b.cur - (lineBefore b).length) ++ m ++ ['\n'] ++
        b.text.drop (b.cur - (lineBefore b).length) := by
  have hle := lineBefore_le b h
  unfold Inv at h
  have hb1 : setCursor b ((b.cur : Int) - (lineBefore b).length)
      = { text := b.text, cur := b.cur - (lineBefore b).length } := by
    simp [setCursor]; omega
  have hi : Inv { text := b.text, cur := b.cur - (lineBefore b).length } := by unfold Inv; simp; omega
  unfold insertLineAbove
  rw [hb1]
  cases c
  · refine ⟨[], by simp, ?_⟩
    have := (insert_spec _ hi ['\n'] true).1
    simp only [Buf.before, Buf.after] at this
    simp only [setCursor]
    simpa using this
  · refine ⟨leadingWs sp b, leadingWs_space sp b, ?_⟩
    have := (insert_spec _ hi (leadingWs sp b ++ ['\n']) true).1
    simp only [Buf.before, Buf.after] at this
    simp only [setCursor]
    simpa using this

/-! ### join -/

theorem joinNext_canonical (pre la rest sep : Text) (hla : '\n' ∉ la) :
    (joinNextLine { text := pre ++ (la ++ '\n' :: rest), cur := pre.length } sep).text
      = pre ++ la ++ sep ++ lstripChar ' ' rest := by
  have hafter : ({ text := pre ++ (la ++ '\n' :: rest), cur := pre.length } : Buf).after
      = la ++ '\n' :: rest := by simp [Buf.after]
  have hLA : lineAfter { text := pre ++ (la ++ '\n' :: rest), cur := pre.length } = la := by
    unfold lineAfter; rw [hafter]; exact takeWhile_append_nl la rest hla
  have hnl : onLastLine { text := pre ++ (la ++ '\n' :: rest), cur := pre.length } = false := by
    unfold onLastLine; rw [hafter]; simp
  unfold joinNextLine
  simp only [hnl, Bool.not_false, if_true, hLA]
  have hc : setCursor { text := pre ++ (la ++ '\n' :: rest), cur := pre.length }
      ((pre.length : Int) + (la.length : Int))
      = { text := pre ++ (la ++ '\n' :: rest), cur := pre.length + la.length } := by
    simp [setCursor]; omega
  rw [hc]
  have hd : (delete { text := pre ++ (la ++ '\n' :: rest), cur := pre.length + la.length } 1).1
      = { text := pre ++ (la ++ rest), cur := pre.length + la.length } := by
    unfold delete
    have hlt : pre.length + la.length < (pre ++ (la ++ '\n' :: rest)).length := by simp
    simp only [hlt, if_true, Buf.after, setText, drop_app2, take_app2]
    simp
    exact drop_app3 pre la rest '\n'
  rw [hd]
  simp only [setText, Buf.before, Buf.after, take_app2, drop_app2]

/-- join_next_line: on the last line a no-op; otherwise exactly the line ending after the current
    line and the blanks following it are replaced by the separator. -/
theorem joinNext_spec (b : Buf) (h : Inv b) (sep : Text) :
    ('\n' ∉ b.after → joinNextLine b sep = b) ∧
    ('\n' ∈ b.after → ∃ rest k, b.after = lineAfter b ++ '\n' :: rest ∧
        (∀ x ∈ rest.take k, x = ' ') ∧
        (joinNextLine b sep).text = b.before ++ lineAfter b ++ sep ++ rest.drop k) := by
  constructor
  · intro hn; unfold joinNextLine onLastLine; simp [hn]
  · intro hy
    obtain ⟨rest, hr⟩ := split_at_nl b.after hy
    obtain ⟨k, hk, hka⟩ := lstripChar_spec ' ' rest
    have hr' : b.after = lineAfter b ++ '\n' :: rest := hr
    refine ⟨rest, k, hr', hka, ?_⟩
    have hla : '\n' ∉ lineAfter b := nl_not_mem_takeWhile _
    unfold Inv at h
    have hb : b = { text := b.before ++ (lineAfter b ++ '\n' :: rest), cur := b.before.length } := by
      have e : b.before ++ b.after = b.text := before_append_after b
      have l : b.before.length = b.cur := by simp [Buf.before]; omega
      cases b with
      | mk t c =>
        simp only [Buf.mk.injEq]
        refine ⟨?_, l.symm⟩
        rw [← hr']; exact e.symm
    have := joinNext_canonical b.before (lineAfter b) rest sep hla
    rw [← hb] at this
    rw [this, hk]

/-! ### transform_lines (indent / unindent) frame -/

theorem splitOn_ne_nil (c : Char) (t : Text) : splitOn c t ≠ [] := by
  induction t with
  | nil => simp [splitOn]
  | cons x xs ih =>
    unfold splitOn
    split
    · simp
    · split <;> simp

/-- `"\n".join(text.split("\n")) == text` -/
theorem join_splitOn (t : Text) : join ['\n'] (splitOn '\n' t) = t := by
  induction t with
  | nil => simp [splitOn, join]
  | cons x xs ih =>
    unfold splitOn
    split
    · rename_i hx
      cases hs : splitOn '\n' xs with
      | nil => exact absurd hs (splitOn_ne_nil _ _)
      | cons l ls =>
        rw [hs] at ih
        simp [join, hx]
        exact ih
    · cases hs : splitOn '\n' xs with
      | nil => exact absurd hs (splitOn_ne_nil _ _)
      | cons l ls =>
        rw [hs] at ih
        simp only []
        cases ls with
        | nil => simp [join] at ih ⊢; exact ih
        | cons l2 ls2 => simp [join] at ih ⊢; exact ih

theorem tlGo_length (f : Text → Text) (n fuel : Nat) (i : Int) (ls : List Text) :
    (tlGo f n fuel i ls).length = ls.length := by
  induction fuel generalizing i ls with
  | zero => simp [tlGo]
  | succ fuel ih =>
    simp only [tlGo]
    rw [ih]
    split <;> simp

/-- transform_lines: a line whose index is not addressed by any index of the range is untouched -/
theorem tlGo_frame (f : Text → Text) (n fuel : Nat) (i : Int) (ls : List Text) (k : Nat)
    (hk : ∀ j : Int, i ≤ j → j < i + fuel → pyIdx n j ≠ some k) :
    (tlGo f n fuel i ls)[k]? = ls[k]? := by
  induction fuel generalizing i ls with
  | zero => simp [tlGo]
  | succ fuel ih =>
    simp only [tlGo]
    rw [ih]
    · have := hk i (by omega) (by omega)
      split
      · rename_i k' hk'
        rw [hk'] at this
        have hne : k' ≠ k := fun e => this (by rw [e])
        simp [hne]
      · rfl
    · intro j h1 h2
      exact hk j (by omega) (by omega)

/-- transform_lines / indent / unindent: when no index of the range addresses a line, the whole
    text is unchanged; in general the result is the "\n"-join of the per-line transformed list. -/
theorem transformLines_noop (f : Text → Text) (t : Text) (a e : Int) (h : e ≤ a) :
    transformLines f t a e = t := by
  unfold transformLines
  have : (e - a).toNat = 0 := by omega
  simp [this, tlGo, join_splitOn]


/-! ### the invariant along every operation sequence -/

theorem setCursor_inv (b : Buf) (v : Int) : Inv (setCursor b v) := by
  unfold Inv setCursor; simp; omega
theorem setText_inv (b : Buf) (t : Text) : Inv (setText b t) := by
  unfold Inv setText; simp; omega
theorem insertText_inv (b : Buf) (d : Text) (o m : Bool) : Inv (insertText b d o m) := by
  unfold Inv insertText; simp; omega
theorem delete_inv (b : Buf) (h : Inv b) (n : Nat) : Inv (delete b n).1 := by
  unfold delete; split
  · exact setText_inv _ _
  · exact h
theorem deleteI_inv (b : Buf) (h : Inv b) (n : Int) : Inv (deleteI b n).1 := by
  unfold deleteI; split
  · exact setText_inv _ _
  · exact h
theorem deleteBefore_inv (b : Buf) (h : Inv b) (n : Nat) : Inv (deleteBefore b n).1 := by
  unfold Inv at *
  unfold deleteBefore; split
  · simp; omega
  · exact h
theorem newline_inv (sp) (b : Buf) (c : Bool) : Inv (newline sp b c) := by
  unfold newline; split <;> exact insertText_inv _ _ _ _
theorem lineAbove_inv (sp) (b : Buf) (c : Bool) : Inv (insertLineAbove sp b c) := by
  unfold insertLineAbove; exact setCursor_inv _ _
theorem lineBelow_inv (sp) (b : Buf) (c : Bool) : Inv (insertLineBelow sp b c) := by
  unfold insertLineBelow; exact insertText_inv _ _ _ _
theorem joinNext_inv (b : Buf) (h : Inv b) (s : Text) : Inv (joinNextLine b s) := by
  unfold joinNextLine; split
  · exact setText_inv _ _
  · exact h
theorem swap_inv (b : Buf) (h : Inv b) : Inv (swapBeforeCursor b) := by
  unfold swapBeforeCursor; split
  · split
    · exact setText_inv _ _
    · exact h
  · exact h
theorem trLine_inv (f) (b : Buf) : Inv (transformCurrentLine f b) := by
  unfold transformCurrentLine; exact setText_inv _ _
theorem trRegion_inv (f) (b : Buf) (h : Inv b) (x y : Nat) :
    Inv ((transformRegion f b x y).getD b) := by
  unfold transformRegion; split
  · exact setText_inv _ _
  · exact h
theorem indent_inv (b : Buf) (x y : Int) (n : Nat) : Inv (indent b x y n) := by
  unfold indent; exact setCursor_inv _ _
theorem unindent_inv (sp) (b : Buf) (x y : Int) (n : Nat) : Inv (unindent sp b x y n) := by
  unfold unindent; exact setCursor_inv _ _

theorem transformWord_inv (sp) (f) (b b' : Buf) (h : Inv b) (hb : transformWord sp f b = some b') :
    Inv b' := by
  unfold transformWord at hb
  split at hb
  · cases hb
  · cases hb
    unfold Inv at *
    simp
    omega
theorem transformWords_inv (sp) (f) (n : Nat) (b : Buf) (h : Inv b) :
    Inv (transformWords sp f n b) := by
  induction n generalizing b with
  | zero => simpa [transformWords]
  | succ n ih =>
    unfold transformWords
    split
    · exact h
    · rename_i b' hb; exact ih b' (transformWord_inv sp f b b' h hb)
theorem transposeChars_inv (b : Buf) (h : Inv b) : Inv (transposeChars b) := by
  unfold transposeChars
  split
  · exact h
  · split
    · exact swap_inv _ h
    · exact swap_inv _ (setCursor_inv _ _)

/-- the case-transform commands (M-u, M-l, M-c) replace exactly the characters up to the end of
    the following word by `f` of them; nothing else changes. -/
theorem transformWord_frame (sp) (f) (b b' : Buf) (hb : transformWord sp f b = some b') :
    ∃ pos, findNextWordEnding sp b = some pos ∧
      b'.text = b.text.take b.cur ++ f ((b.text.drop b.cur).take pos) ++ b.text.drop (b.cur + pos) ∧
      b'.cur = b.cur + (f ((b.text.drop b.cur).take pos)).length := by
  unfold transformWord at hb
  split at hb
  · cases hb
  · rename_i pos hpos
    cases hb
    exact ⟨pos, hpos, rfl, rfl⟩

/-- no following word: the command does nothing at all -/
theorem transformWords_none (sp) (f) (n : Nat) (b : Buf) (h : findNextWordEnding sp b = none) :
    transformWords sp f n b = b := by
  cases n with
  | zero => rfl
  | succ n => simp [transformWords, transformWord, h]

/-- `Esc <n> Backspace` / `Esc <n> Delete`: exactly min(|n|, available) characters on the side
    selected by the sign of the argument are removed and returned (corollary of the two specs). -/
theorem backwardDeleteChar_spec (b : Buf) (h : Inv b) (arg : Int) :
    (0 ≤ arg → backwardDeleteChar b arg = deleteBefore b arg.toNat) ∧
    (arg < 0 → backwardDeleteChar b arg = delete b (-arg).toNat) := by
  unfold backwardDeleteChar
  constructor
  · intro h0; have : ¬ arg < 0 := by omega
    simp [this]
  · intro h0; simp [h0]
theorem deleteChar_spec (b : Buf) (h : Inv b) (arg : Int) :
    (0 ≤ arg → deleteChar b arg = delete b arg.toNat) ∧
    (arg < 0 → deleteChar b arg = deleteBefore b (-arg).toNat) := by
  unfold deleteChar
  constructor
  · intro h0; have : ¬ arg < 0 := by omega
    simp [this]
  · intro h0; simp [h0]

theorem setDoc_inv (b : Buf) (h : Inv b) (t : Text) (c : Int) : Inv (setDoc b t c) := by
  unfold setDoc; split
  · unfold Inv; simp; omega
  · exact h

theorem dropLast_flatten_le (l : List Text) : l.dropLast.flatten.length ≤ l.flatten.length := by
  induction l with
  | nil => simp
  | cons x xs ih =>
    cases xs with
    | nil => simp
    | cons y ys => simp [List.dropLast] at ih ⊢; omega

/-- join_selected_lines: only the selected stretch `text[from:to]` is rewritten (each line of it
    lstripped of blanks and followed by the separator); text before and after is untouched and the
    cursor ends inside the text (never negative: the `document` setter clamps at 0). -/
theorem joinSelected_frame (br : Char → Bool) (b : Buf) (orig : Nat) (sep : Text) :
    let from_ := min b.cur orig
    let to := max b.cur orig
    let lines := (splitLinesPy br ((b.text.take to).drop from_)).map fun l => lstripChar ' ' l ++ sep
    (joinSelectedLines br b orig sep).text = b.text.take from_ ++ lines.flatten ++ b.text.drop to ∧
    Inv (joinSelectedLines br b orig sep) := by
  intro from_ to lines
  have hle := dropLast_flatten_le lines
  have hc : (((b.text.take from_ ++ lines.dropLast.flatten).length : Int) - 1)
      ≤ ((b.text.take from_ ++ lines.flatten ++ b.text.drop to).length : Int) := by
    simp only [List.length_append]; omega
  unfold joinSelectedLines
  simp only [setDoc]
  rw [if_pos hc]
  refine ⟨rfl, ?_⟩
  unfold Inv
  show (((b.text.take from_ ++ lines.dropLast.flatten).length : Int) - 1).toNat
      ≤ (b.text.take from_ ++ lines.flatten ++ b.text.drop to).length
  omega

/-- every single operation keeps the cursor inside the text -/
theorem step_inv (sp br : Char → Bool) (f : Text → Text) (b : Buf) (h : Inv b) (op : Op) :
    Inv (step sp br f b op).1 := by
  cases op <;> simp only [step]
  · exact insertText_inv _ _ _ _
  · exact deleteI_inv _ h _
  · exact deleteBefore_inv _ h _
  · exact newline_inv _ _ _
  · exact lineAbove_inv _ _ _
  · exact lineBelow_inv _ _ _
  · exact joinNext_inv _ h _
  · exact swap_inv _ h
  · exact setCursor_inv _ _
  · exact setText_inv _ _
  · exact trLine_inv _ _
  · exact trRegion_inv _ _ h _ _
  · exact indent_inv _ _ _ _
  · exact unindent_inv _ _ _ _ _
  · unfold backwardDeleteChar; split
    · exact delete_inv _ h _
    · exact deleteBefore_inv _ h _
  · unfold deleteChar; split
    · exact deleteBefore_inv _ h _
    · exact delete_inv _ h _
  · unfold selfInsert; exact insertText_inv _ _ _ _
  · exact transposeChars_inv _ h
  · exact transformWords_inv _ _ _ _ h
  · exact setDoc_inv _ h _ _
  · exact (joinSelected_frame _ _ _ _).2

/-- after every finite sequence of edit operations the cursor is within `0..len(text)` -/
theorem run_inv (sp br : Char → Bool) (f : Text → Text) (ops : List Op) (b : Buf) (h : Inv b) :
    Inv (run sp br f b ops) := by
  unfold run
  induction ops generalizing b with
  | nil => simpa
  | cons op ops ih => simp only [List.foldl_cons]; exact ih _ (step_inv sp br f b h op)

end Ptk.C01

/-! ### views -/
namespace Ptk.C01
open Ptk.Py

/-- after any edit, `Buffer.text`, `Buffer.document.text` and the working line at the working index
    are the same string (the edited one), the document's cursor is the buffer's cursor, and every
    other history entry is untouched. -/
theorem views_agree (w : WBuf) (h : w.idx < w.work.length) (e : Buf → Buf) :
    let b := e { text := w.work[w.idx], cur := w.cur }
    (w.edit e).text? = some b.text ∧
    (w.edit e).document? = some (b.text, b.cur) ∧
    (w.edit e).work[(w.edit e).idx]? = some b.text ∧
    (w.edit e).work.length = w.work.length ∧
    ∀ j, j ≠ w.idx → (w.edit e).work[j]? = w.work[j]? := by
  intro b
  have ht : w.work[w.idx]? = some w.work[w.idx] := List.getElem?_eq_getElem h
  have he : w.edit e = { work := w.work.set w.idx b.text, idx := w.idx, cur := b.cur } := by
    simp only [WBuf.edit, WBuf.text?, ht, WBuf.setText, b]
  rw [he]
  simp only [WBuf.text?, WBuf.document?]
  refine ⟨?_, ?_, ?_, ?_, ?_⟩
  · simp [h]
  · simp [h]
  · simp [h]
  · exact List.length_set
  · intro j hj
    exact List.getElem?_set_ne (Ne.symm hj)

example : (WBuf.edit { work := [['a'], ['b']], idx := 1, cur := 1 }
    (fun b => insertText b ['x'] false true)).work = [['a'], ['b', 'x']] := by decide

end Ptk.C01
