import Ptk.Model.C01
namespace Ptk.C01
open Ptk.Py

/-- well-formedness of a buffer: the cursor is inside the text -/
def Inv (b : Buf) : Prop := b.cur ≤ b.text.length

theorem setCursor_inv (b : Buf) (v : Int) : Inv (setCursor b v) := by
  unfold Inv setCursor; simp; omega

end Ptk.C01
