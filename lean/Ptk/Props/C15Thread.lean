/-
  C15 — the thread hand-off of `generator_to_async_generator` (model: `Ptk.Model.C15Thread`).

  `HInv` is an invariant of every interleaving of producer-thread steps, `q.get` job steps and
  consumer steps (`hrun_inv`).  Read off it:

    * `handoff_prefix` / `handoff_complete` — the consumer receives exactly a prefix of the
      iterable's items, in order; `_Done` only after all of them;
    * `queue_bounded` — back-pressure: never more than `buffer_size` queued;
    * `abandoned_producer_stops` / `abandoned_producer_bounded_work` — once `quitting` is set the
      producer returns within five of its own steps, asks the iterable at most once more, puts
      at most one more item, and a full queue does not hold it;
    * `no_wait_cycle` / `producer_progress` / `getter_not_stranded` — no deadlock;
    * `abandon_can_strand_getter` — the one corner where a *cancelled* consumer leaves a blocked
      executor thread behind (concrete witness).
-/
import Ptk.Model.C15Thread
namespace Ptk.C15

def PPc.sent : PPc → Nat
  | .new => 0
  | .next k | .got k | .put k | .full k | .fin k | .finFull k => k
  | .exit k _ => k

def PPc.doneSent : PPc → Bool
  | .exit _ true => true
  | _ => false

def PPc.holding : PPc → Bool
  | .got _ | .put _ | .full _ => true
  | _ => false

def PPc.inFinally : PPc → Bool
  | .fin _ | .finFull _ | .exit _ _ => true
  | _ => false

def sentSeq (pc : PPc) : List QItem :=
  (List.range pc.sent).map .item ++ (if pc.doneSent then [.done] else [])

structure HInv (h : HS) : Prop where
  flow : h.got ++ h.inbox.toList ++ h.q = sentSeq h.pc
  bound : h.q.length ≤ h.cap
  cap_pos : 0 < h.cap
  sent_le : h.pc.sent ≤ h.n
  holding : h.pc.holding = true → h.pc.sent < h.n
  early : h.pc.inFinally = true → h.pc.sent < h.n → h.quitting = true
  noDone : h.pc.isExit = true → h.pc.doneSent = false → h.quitting = true
  getter_inbox : h.getter = true → h.inbox = none
  getter_live : h.getter = true → h.ended = false
  ended_all : h.ended = true → h.pc.sent = h.n

theorem init_hinv (n cap : Nat) (hc : 0 < cap) : HInv (HS.init n cap) := by
  refine ⟨rfl, by simp [HS.init], hc, by simp [HS.init, PPc.sent], ?_, ?_, ?_, ?_, ?_, ?_⟩ <;>
    simp [HS.init, PPc.holding, PPc.inFinally, PPc.isExit, HS.ended]

@[simp] theorem prodStep_got (h : HS) : (prodStep h).got = h.got := by
  unfold prodStep; split <;> (try split) <;> rfl
@[simp] theorem prodStep_inbox (h : HS) : (prodStep h).inbox = h.inbox := by
  unfold prodStep; split <;> (try split) <;> rfl
@[simp] theorem prodStep_getter (h : HS) : (prodStep h).getter = h.getter := by
  unfold prodStep; split <;> (try split) <;> rfl
@[simp] theorem prodStep_quitting (h : HS) : (prodStep h).quitting = h.quitting := by
  unfold prodStep; split <;> (try split) <;> rfl
@[simp] theorem prodStep_n (h : HS) : (prodStep h).n = h.n := by
  unfold prodStep; split <;> (try split) <;> rfl
@[simp] theorem prodStep_cap (h : HS) : (prodStep h).cap = h.cap := by
  unfold prodStep; split <;> (try split) <;> rfl
@[simp] theorem prodStep_ended (h : HS) : (prodStep h).ended = h.ended := by
  simp [HS.ended]

macro "hs_simp" : tactic =>
  `(tactic| simp only [PPc.sent, PPc.holding, PPc.inFinally, PPc.isExit, sentSeq, PPc.doneSent, List.range_succ,
      List.map_append, List.map_cons, List.map_nil, if_true, if_false, List.append_nil, Bool.false_eq_true,
      List.append_assoc, List.length_append, List.length_cons, List.length_nil, true_implies, false_implies,
      implies_true, reduceCtorEq])
macro "hs_simp_at" : tactic =>
  `(tactic| simp only [PPc.sent, PPc.holding, PPc.inFinally, PPc.isExit, sentSeq, PPc.doneSent,
      if_true, if_false, List.append_nil, Bool.false_eq_true, List.append_assoc, true_implies, false_implies,
      reduceCtorEq] at *)
macro "hs_split" : tactic =>
  `(tactic| (refine ⟨?_, ?_, ?_, ?_, ?_, ?_, ?_⟩ <;> (try hs_simp)))

theorem prodStep_inv {h : HS} (hi : HInv h) : HInv (prodStep h) := by
  obtain ⟨flow, bound, cap_pos, sent_le, holding, early, noDone, gi, gl, ea⟩ := hi
  have key : (prodStep h).got ++ (prodStep h).inbox.toList ++ (prodStep h).q = sentSeq (prodStep h).pc ∧
      (prodStep h).q.length ≤ h.cap ∧ (prodStep h).pc.sent ≤ h.n ∧
      ((prodStep h).pc.holding = true → (prodStep h).pc.sent < h.n) ∧
      ((prodStep h).pc.inFinally = true → (prodStep h).pc.sent < h.n → h.quitting = true) ∧
      ((prodStep h).pc.isExit = true → (prodStep h).pc.doneSent = false → h.quitting = true) ∧
      (h.ended = true → (prodStep h).pc.sent = h.n) := by
    simp only [prodStep_got, prodStep_inbox]
    unfold prodStep
    cases hpc : h.pc with
    | new =>
      rw [hpc] at flow sent_le ea
      hs_simp_at
      hs_split <;> first | assumption | omega
    | next k =>
      rw [hpc] at flow sent_le ea early
      hs_simp_at
      by_cases hk : k < h.n
      · simp only [hk, if_true]
        hs_split <;> first | assumption | omega
      · simp only [hk, if_false]
        hs_split <;> first | assumption | omega | (intros; omega)
    | got k =>
      rw [hpc] at flow sent_le ea holding
      hs_simp_at
      by_cases hq : h.quitting = true
      · simp only [hq, if_true]
        hs_split <;> first | assumption | omega | (intros; first | assumption | rfl)
      · simp only [hq]
        hs_split <;> first | assumption | omega
    | put k =>
      rw [hpc] at flow sent_le ea holding
      hs_simp_at
      by_cases hr : h.q.length < h.cap
      · simp only [hr, if_true]
        hs_split <;> first | assumption | omega | (intro e; have := ea e; omega) | (rw [← flow]; simp)
      · simp only [hr, if_false]
        hs_split <;> first | assumption | omega
    | full k =>
      rw [hpc] at flow sent_le ea holding
      hs_simp_at
      by_cases hq : h.quitting = true
      · simp only [hq, if_true]
        hs_split <;> first | assumption | omega | (intros; first | assumption | rfl)
      · simp only [hq]
        hs_split <;> first | assumption | omega
    | fin k =>
      rw [hpc] at flow sent_le ea early
      hs_simp_at
      by_cases hr : h.q.length < h.cap
      · simp only [hr, if_true]
        hs_split <;> first | assumption | omega | (rw [← flow]; simp)
      · simp only [hr, if_false]
        hs_split <;> first | assumption | omega
    | finFull k =>
      rw [hpc] at flow sent_le ea early
      hs_simp_at
      by_cases hq : h.quitting = true
      · simp only [hq, if_true]
        hs_split <;> first | assumption | omega | (intros; first | assumption | rfl)
      · simp only [hq]
        hs_split <;> first | assumption | omega | (intro e; exact absurd (early e) hq)
    | exit k d =>
      rw [hpc] at flow sent_le ea early noDone
      simp only [hpc]
      exact ⟨flow, bound, sent_le, by simp [PPc.holding], early, noDone, ea⟩
  obtain ⟨k1, k2, k3, k4, k5, k6, k7⟩ := key
  exact ⟨k1, by simpa using k2, by simpa using cap_pos, by simpa using k3, by simpa using k4,
    by simpa using k5, by simpa using k6, by simpa using gi, by simpa using gl, by simpa using k7⟩

/-! ### consumer-side steps -/

theorem mem_sentSeq_done {pc : PPc} (h : QItem.done ∈ sentSeq pc) : pc.doneSent = true := by
  unfold sentSeq at h
  by_cases hd : pc.doneSent = true
  · exact hd
  · simp [hd] at h

/-- receiving an element while `quitting` is false keeps `ended_all` -/
theorem ended_after_recv {h : HS} (hi : HInv h) (hq : h.quitting = false) {x : QItem}
    (hx : x ∈ sentSeq h.pc) (he : (h.got ++ [x]).contains .done = true) : h.pc.sent = h.n := by
  simp only [List.contains_eq_mem, List.mem_append, List.mem_singleton, decide_eq_true_eq] at he
  rcases he with he | he
  · exact hi.ended_all (by simpa [HS.ended] using he)
  · subst he
    have hd := mem_sentSeq_done hx
    have hex : h.pc.isExit = true ∧ h.pc.inFinally = true := by
      cases hpc : h.pc <;> simp_all [PPc.doneSent, PPc.isExit, PPc.inFinally]
    have hle := hi.sent_le
    by_cases hlt : h.pc.sent < h.n
    · have := hi.early hex.2 hlt
      rw [hq] at this; cases this
    · omega

theorem take_inv {h : HS} (hi : HInv h) : HInv (take h) := by
  unfold take
  split
  · rename_i hg
    split
    · rename_i x r hqe
      have hin := hi.getter_inbox hg
      refine ⟨?_, ?_, hi.cap_pos, hi.sent_le, hi.holding, hi.early, hi.noDone, ?_, ?_, hi.ended_all⟩
      · have := hi.flow
        rw [hin, hqe] at this
        simpa using this
      · have := hi.bound
        rw [hqe] at this
        simp at this ⊢; omega
      · intro h'; cases h'
      · intro h'; cases h'
    · exact hi
  · exact hi

theorem quit_inv {h : HS} (hi : HInv h) : HInv (quit h) :=
  ⟨hi.flow, hi.bound, hi.cap_pos, hi.sent_le, hi.holding, fun _ _ => rfl, fun _ _ => rfl,
   hi.getter_inbox, hi.getter_live, hi.ended_all⟩

theorem popNow_inv {h : HS} (hi : HInv h) (hq : h.quitting = false) (hin : h.inbox = none)
    {x : QItem} {h' : HS} (hp : popNow h = some (x, h')) (hg : h.getter = false) : HInv h' := by
  unfold popNow at hp
  split at hp
  · rename_i y r hqe
    simp only [Option.some.injEq, Prod.mk.injEq] at hp
    obtain ⟨rfl, rfl⟩ := hp
    have hflow := hi.flow
    rw [hin, hqe] at hflow
    refine ⟨?_, ?_, hi.cap_pos, hi.sent_le, hi.holding, hi.early, hi.noDone, ?_, ?_, ?_⟩
    · simpa [hin] using hflow
    · have := hi.bound
      rw [hqe] at this
      simp at this ⊢; omega
    · intro hg'; rw [hg] at hg'; cases hg'
    · intro hg'; rw [hg] at hg'; cases hg'
    · intro he
      show h.pc.sent = h.n
      refine ended_after_recv hi hq (x := y) ?_ (by simpa [HS.ended] using he)
      rw [← hflow]; simp
  · cases hp

theorem deliver_inv {h : HS} (hi : HInv h) (hq : h.quitting = false)
    {x : QItem} {h' : HS} (hp : deliver h = some (x, h')) : HInv h' := by
  unfold deliver at hp
  split at hp
  · rename_i y hin
    simp only [Option.some.injEq, Prod.mk.injEq] at hp
    obtain ⟨rfl, rfl⟩ := hp
    have hflow := hi.flow
    rw [hin] at hflow
    have hg : h.getter = false := by
      cases hg : h.getter with
      | false => rfl
      | true => have := hi.getter_inbox hg; rw [hin] at this; cases this
    refine ⟨?_, hi.bound, hi.cap_pos, hi.sent_le, hi.holding, hi.early, hi.noDone, ?_, ?_, ?_⟩
    · simpa using hflow
    · intro _; rfl
    · intro hg'; rw [hg] at hg'; cases hg'
    · intro he
      show h.pc.sent = h.n
      refine ended_after_recv hi hq (x := y) ?_ (by simpa [HS.ended] using he)
      rw [← hflow]; simp
  · cases hp

theorem submitGet_inv {h : HS} (hi : HInv h) (hin : h.inbox = none) (he : h.ended = false) :
    HInv (submitGet h) :=
  ⟨hi.flow, hi.bound, hi.cap_pos, hi.sent_le, hi.holding, hi.early, hi.noDone, fun _ => hin,
   fun _ => he, hi.ended_all⟩

theorem hstep_inv {h : HS} (hi : HInv h) (a : HAct) : HInv (hstep h a) := by
  cases a with
  | prod => exact prodStep_inv hi
  | pop =>
    simp only [hstep]
    split
    · exact hi
    · rename_i hc
      simp only [Bool.or_eq_true, not_or, Bool.not_eq_true, Option.isSome_eq_false_iff,
        Option.isNone_iff_eq_none] at hc
      split
      · rename_i x h' hp
        exact popNow_inv hi hc.1.1.1 hc.1.2 hp hc.1.1.2
      · exact hi
  | submit =>
    simp only [hstep]
    split
    · exact hi
    · rename_i hc
      simp only [Bool.or_eq_true, not_or, Bool.not_eq_true, Option.isSome_eq_false_iff,
        Option.isNone_iff_eq_none] at hc
      exact submitGet_inv hi hc.1.1.2 hc.1.2
  | take => exact take_inv hi
  | deliver =>
    simp only [hstep]
    split
    · exact hi
    · rename_i hq
      split
      · rename_i x h' hp
        exact deliver_inv hi (by simpa using hq) hp
      · exact hi
  | quit =>
    simp only [hstep]
    split
    · exact hi
    · exact quit_inv hi
  | abandon => exact quit_inv hi

theorem hrun_inv {h : HS} (hi : HInv h) (as : List HAct) : HInv (hrun h as) := by
  induction as generalizing h with
  | nil => exact hi
  | cons a as ih => exact ih (hstep_inv hi a)

/-- states reachable from a fresh hand-off by any interleaving of producer-thread steps,
    `q.get` job steps and consumer steps -/
def HReach (n cap : Nat) (h : HS) : Prop := ∃ as, h = hrun (HS.init n cap) as

theorem hreach_inv {n cap : Nat} (hc : 0 < cap) {h : HS} (hr : HReach n cap h) : HInv h := by
  obtain ⟨as, rfl⟩ := hr
  exact hrun_inv (init_hinv n cap hc) as

/-! ### the consumer sees exactly a prefix of the producer's items, in order -/

theorem range_item_not_done (k : Nat) : QItem.done ∉ (List.range k).map QItem.item := by
  simp

/-- **handoff_prefix**: whatever the interleaving, what the consumer has received is
    `item 0, item 1, …, item (g-1)` (no loss, no duplicate, no reordering), followed by the
    `_Done` marker only if it received all `n` items of the iterable. -/
theorem handoff_prefix {h : HS} (hi : HInv h) :
    ∃ g, g ≤ h.pc.sent ∧ g ≤ h.n ∧
      h.got = (List.range g).map .item ++ (if h.ended then [.done] else []) ∧
      (h.ended = true → g = h.n) := by
  have hpre : h.got <+: sentSeq h.pc := by
    rw [← hi.flow, List.append_assoc]; exact List.prefix_append _ _
  have htake := List.prefix_iff_eq_take.mp hpre
  have hle := hi.sent_le
  unfold sentSeq at htake
  rw [List.take_append, List.length_map, List.length_range, ← List.map_take, List.take_range] at htake
  by_cases hd : h.got.length ≤ h.pc.sent
  · -- only items
    have h0 : h.got.length - h.pc.sent = 0 := by omega
    rw [h0, List.take_zero, List.append_nil, Nat.min_eq_left hd] at htake
    have hne : h.ended = false := by
      unfold HS.ended; rw [htake]; simp
    exact ⟨h.got.length, hd, by omega, by rw [hne]; simpa using htake, by rw [hne]; intro c; cases c⟩
  · have hmin : min h.got.length h.pc.sent = h.pc.sent := by omega
    rw [hmin] at htake
    by_cases hds : h.pc.doneSent = true
    · simp only [hds, if_true] at htake
      have : List.take (h.got.length - h.pc.sent) [QItem.done] = [QItem.done] := by
        apply List.take_of_length_le; simp; omega
      rw [this] at htake
      have he : h.ended = true := by unfold HS.ended; rw [htake]; simp
      have hall := hi.ended_all he
      exact ⟨h.pc.sent, Nat.le_refl _, by omega, by rw [he]; simpa using htake, fun _ => hall⟩
    · simp only [hds, if_false, List.take_nil, List.append_nil, Bool.false_eq_true] at htake
      have := congrArg List.length htake
      simp at this; omega

/-- **handoff_complete**: a consumer that saw the end of the stream received every item. -/
theorem handoff_complete {h : HS} (hi : HInv h) (he : h.ended = true) :
    h.got = (List.range h.n).map .item ++ [.done] := by
  obtain ⟨g, _, _, hg, hn⟩ := handoff_prefix hi
  rw [hg, he, hn he]; rfl


/-! ### fields the steps do not touch -/

theorem take_fields (h : HS) : (take h).cap = h.cap ∧ (take h).n = h.n ∧ (take h).pc = h.pc ∧
    (take h).quitting = h.quitting ∧ (take h).got = h.got := by
  unfold take; split
  · split <;> exact ⟨rfl, rfl, rfl, rfl, rfl⟩
  · exact ⟨rfl, rfl, rfl, rfl, rfl⟩

theorem popNow_fields {h h' : HS} {x : QItem} (hp : popNow h = some (x, h')) :
    h'.cap = h.cap ∧ h'.n = h.n ∧ h'.pc = h.pc ∧ h'.quitting = h.quitting := by
  unfold popNow at hp; split at hp
  · simp only [Option.some.injEq, Prod.mk.injEq] at hp; obtain ⟨_, rfl⟩ := hp; exact ⟨rfl, rfl, rfl, rfl⟩
  · cases hp

theorem deliver_fields {h h' : HS} {x : QItem} (hp : deliver h = some (x, h')) :
    h'.cap = h.cap ∧ h'.n = h.n ∧ h'.pc = h.pc ∧ h'.quitting = h.quitting := by
  unfold deliver at hp; split at hp
  · simp only [Option.some.injEq, Prod.mk.injEq] at hp; obtain ⟨_, rfl⟩ := hp; exact ⟨rfl, rfl, rfl, rfl⟩
  · cases hp

/-- no step changes `buffer_size` or the iterable, no step resets `quitting`, and only the
    producer thread moves its own program counter -/
theorem hstep_fields (h : HS) (a : HAct) :
    (hstep h a).cap = h.cap ∧ (hstep h a).n = h.n ∧ (h.quitting = true → (hstep h a).quitting = true) ∧
    (a ≠ .prod → (hstep h a).pc = h.pc) := by
  cases a with
  | prod => exact ⟨prodStep_cap h, prodStep_n h, fun e => by simp [hstep, e], fun c => absurd rfl c⟩
  | pop =>
    simp only [hstep]
    split
    · exact ⟨rfl, rfl, id, fun _ => rfl⟩
    · split
      · rename_i x h' hp
        obtain ⟨a, b, c, d⟩ := popNow_fields hp
        exact ⟨a, b, fun e => by rw [d]; exact e, fun _ => c⟩
      · exact ⟨rfl, rfl, id, fun _ => rfl⟩
  | submit =>
    simp only [hstep]
    split <;> exact ⟨rfl, rfl, id, fun _ => rfl⟩
  | take =>
    obtain ⟨a, b, c, d, _⟩ := take_fields h
    exact ⟨a, b, fun e => by simp only [hstep]; rw [d]; exact e, fun _ => c⟩
  | deliver =>
    simp only [hstep]
    split
    · exact ⟨rfl, rfl, id, fun _ => rfl⟩
    · split
      · rename_i x h' hp
        obtain ⟨a, b, c, d⟩ := deliver_fields hp
        exact ⟨a, b, fun e => by rw [d]; exact e, fun _ => c⟩
      · exact ⟨rfl, rfl, id, fun _ => rfl⟩
  | quit =>
    simp only [hstep]
    split
    · exact ⟨rfl, rfl, id, fun _ => rfl⟩
    · exact ⟨rfl, rfl, fun _ => rfl, fun _ => rfl⟩
  | abandon => exact ⟨rfl, rfl, fun _ => rfl, fun _ => rfl⟩

theorem hrun_cap (h : HS) (as : List HAct) : (hrun h as).cap = h.cap := by
  induction as generalizing h with
  | nil => rfl
  | cons a as ih => show (hrun (hstep h a) as).cap = h.cap; rw [ih, (hstep_fields h a).1]

/-- the queue never holds more than `buffer_size` elements (back-pressure) -/
theorem queue_bounded {n cap : Nat} (hc : 0 < cap) {h : HS} (hr : HReach n cap h) : h.q.length ≤ cap := by
  have := (hreach_inv hc hr).bound
  obtain ⟨as, rfl⟩ := hr
  rw [hrun_cap] at this
  exact this

/-! ### an abandoned producer stops -/

/-- upper bound on the producer steps still to go once `quitting` is set -/
def PPc.fuel : PPc → Nat
  | .new => 5
  | .put _ => 5
  | .next _ => 4
  | .got _ => 3
  | .full _ => 3
  | .fin _ => 2
  | .finFull _ => 1
  | .exit _ _ => 0

theorem prodStep_fuel {h : HS} (hq : h.quitting = true) (hne : h.pc.isExit = false) :
    (prodStep h).pc.fuel < h.pc.fuel := by
  unfold prodStep
  cases hpc : h.pc with
  | exit k d => rw [hpc] at hne; simp [PPc.isExit] at hne
  | new => simp [PPc.fuel]
  | next k => dsimp only; split <;> simp [PPc.fuel]
  | got k => simp [hq, PPc.fuel]
  | put k => dsimp only; split <;> simp [PPc.fuel]
  | full k => simp [hq, PPc.fuel]
  | fin k => dsimp only; split <;> simp [PPc.fuel]
  | finFull k => simp [hq, PPc.fuel]

theorem fuel_zero_exit {pc : PPc} (h : pc.fuel = 0) : pc.isExit = true := by
  cases pc <;> simp_all [PPc.fuel, PPc.isExit]

theorem prodStep_exit {h : HS} (he : h.pc.isExit = true) : prodStep h = h := by
  unfold prodStep
  cases hpc : h.pc <;> simp_all [PPc.isExit]

theorem stops_aux (h : HS) (hq : h.quitting = true) (as : List HAct)
    (hc : h.pc.fuel ≤ as.count .prod) : (hrun h as).pc.isExit = true := by
  induction as generalizing h with
  | nil => simp at hc; exact fuel_zero_exit hc
  | cons a as ih =>
    show (hrun (hstep h a) as).pc.isExit = true
    obtain ⟨_, _, hq', hpc'⟩ := hstep_fields h a
    by_cases ha : a = .prod
    · subst ha
      apply ih _ (hq' hq)
      simp only [List.count_cons_self] at hc
      by_cases hex : h.pc.isExit = true
      · simp only [hstep, prodStep_exit hex]
        have : h.pc.fuel = 0 := by cases hpc : h.pc <;> simp_all [PPc.isExit, PPc.fuel]
        omega
      · have := prodStep_fuel hq (by simpa using hex)
        simp only [hstep]; omega
    · apply ih _ (hq' hq)
      rw [hpc' ha]
      rw [List.count_cons_of_ne ha] at hc
      exact hc

/-- **abandoned_producer_stops**: once the consumer has set `quitting` (it closed the
    generator, or was cancelled), the producer thread returns after at most five more of its
    own steps, whatever the other threads do in between and whatever the queue holds —
    in particular a full queue does not block it (`Full` + `quitting` → return). -/
theorem abandoned_producer_stops (h : HS) (hq : h.quitting = true) (as : List HAct)
    (hc : 5 ≤ as.count .prod) : (hrun h as).pc.isExit = true := by
  apply stops_aux h hq as
  have : h.pc.fuel ≤ 5 := by cases h.pc <;> simp [PPc.fuel]
  omega

/-- the producer step that calls `next()` on the user's iterable -/
def startsNext (h : HS) : Bool :=
  match h.pc with
  | .new => true
  | .put _ => h.q.length < h.cap
  | _ => false

/-- number of `next()` calls the producer starts during a run -/
def nextStarts (h : HS) : List HAct → Nat
  | [] => 0
  | a :: as => (if a = .prod ∧ startsNext h = true then 1 else 0) + nextStarts (hstep h a) as

def PPc.mayAsk : PPc → Nat
  | .new => 1
  | .put _ => 1
  | _ => 0

theorem asks_aux (h : HS) (hq : h.quitting = true) (as : List HAct) :
    nextStarts h as ≤ h.pc.mayAsk := by
  induction as generalizing h with
  | nil => simp [nextStarts]
  | cons a as ih =>
    obtain ⟨_, _, hq', hpc'⟩ := hstep_fields h a
    have ih' := ih (hstep h a) (hq' hq)
    simp only [nextStarts]
    by_cases ha : a = .prod
    · subst ha
      simp only [hstep] at ih' ⊢
      have key : (if startsNext h = true then 1 else 0) + (prodStep h).pc.mayAsk ≤ h.pc.mayAsk := by
        unfold startsNext prodStep
        cases hpc : h.pc with
        | new => simp [PPc.mayAsk]
        | next k => by_cases hk : k < h.n <;> simp [hk, PPc.mayAsk]
        | got k => simp [hq, PPc.mayAsk]
        | put k => by_cases hr : h.q.length < h.cap <;> simp [hr, PPc.mayAsk]
        | full k => simp [hq, PPc.mayAsk]
        | fin k => by_cases hr : h.q.length < h.cap <;> simp [hr, PPc.mayAsk]
        | finFull k => simp [hq, PPc.mayAsk]
        | exit k d => simp [PPc.mayAsk, hpc]
      simp only [true_and]
      omega
    · rw [hpc' ha] at ih'
      simp only [ha, false_and, if_false]
      omega

def PPc.mayPut : PPc → Nat
  | .put _ => 1
  | _ => 0

theorem puts_aux (h : HS) (hq : h.quitting = true) (as : List HAct) :
    (hrun h as).pc.sent ≤ h.pc.sent + h.pc.mayPut := by
  induction as generalizing h with
  | nil => show h.pc.sent ≤ _; omega
  | cons a as ih =>
    obtain ⟨_, _, hq', hpc'⟩ := hstep_fields h a
    have ih' := ih (hstep h a) (hq' hq)
    show (hrun (hstep h a) as).pc.sent ≤ _
    by_cases ha : a = .prod
    · subst ha
      simp only [hstep] at ih'
      have key : (prodStep h).pc.sent + (prodStep h).pc.mayPut ≤ h.pc.sent + h.pc.mayPut := by
        unfold prodStep
        cases hpc : h.pc with
        | new => simp [PPc.mayPut, PPc.sent]
        | next k => by_cases hk : k < h.n <;> simp [hk, PPc.mayPut, PPc.sent]
        | got k => simp [hq, PPc.mayPut, PPc.sent]
        | put k => by_cases hr : h.q.length < h.cap <;> simp [hr, PPc.mayPut, PPc.sent]
        | full k => simp [hq, PPc.mayPut, PPc.sent]
        | fin k => by_cases hr : h.q.length < h.cap <;> simp [hr, PPc.mayPut, PPc.sent]
        | finFull k => simp [hq, PPc.mayPut, PPc.sent]
        | exit k d => simp [PPc.mayPut, PPc.sent, hpc]
      simp only [hstep]
      omega
    · rw [hpc' ha] at ih'
      exact ih'

/-- **abandoned_producer_bounded_work**: after `quitting` is set the producer asks the
    user's iterable for at most one more item (none if it is already computing one), and puts
    at most one more item: no unbounded work for a result nobody wants. -/
theorem abandoned_producer_bounded_work (h : HS) (hq : h.quitting = true) (as : List HAct) :
    nextStarts h as ≤ 1 ∧ (hrun h as).pc.sent ≤ h.pc.sent + 1 := by
  constructor
  · have := asks_aux h hq as
    have : h.pc.mayAsk ≤ 1 := by cases h.pc <;> simp [PPc.mayAsk]
    omega
  · have := puts_aux h hq as
    have : h.pc.mayPut ≤ 1 := by cases h.pc <;> simp [PPc.mayPut]
    omega

/-! ### no deadlock -/

/-- the consumer waits for the queue: its `q.get` job is blocked on an empty queue -/
def consWaits (h : HS) : Bool := h.getter && h.q.isEmpty

/-- the producer waits for the queue: `q.put` keeps raising `Full` and nobody told it to quit -/
def prodWaits (h : HS) : Bool :=
  (match h.pc with
   | .put _ | .full _ | .fin _ | .finFull _ => true
   | _ => false) && decide (h.cap ≤ h.q.length) && !h.quitting

/-- **no_wait_cycle**: producer and consumer never wait for each other: when the consumer
    waits the queue is empty, so the next `q.put` succeeds; when the producer waits the queue
    is full, so a `q.get` succeeds; and a consumer that waits for the thread to finish
    (`await runner_f`) has set `quitting`, which releases the producer
    (`abandoned_producer_stops`). -/
theorem no_wait_cycle {h : HS} (hi : HInv h) :
    (consWaits h = true → prodWaits h = false) ∧
    (prodWaits h = true → h.q ≠ [] ∧ h.quitting = false) := by
  have hc := hi.cap_pos
  constructor
  · intro hw
    simp only [consWaits, Bool.and_eq_true, List.isEmpty_iff] at hw
    simp only [prodWaits, hw.2, List.length_nil]
    have : ¬ (h.cap ≤ 0) := by omega
    simp [this]
  · intro hw
    simp only [prodWaits, Bool.and_eq_true, decide_eq_true_eq, Bool.not_eq_true'] at hw
    refine ⟨?_, hw.2⟩
    intro e; rw [e] at hw; simp at hw; omega

def prodN : Nat → HS → HS
  | 0, h => h
  | k + 1, h => prodN k (prodStep h)

theorem prodStep_q_mono (h : HS) : h.q.length ≤ (prodStep h).q.length := by
  unfold prodStep
  cases hpc : h.pc with
  | put k => by_cases hr : h.q.length < h.cap <;> simp [hr]
  | fin k => by_cases hr : h.q.length < h.cap <;> simp [hr]
  | next k => by_cases hk : k < h.n <;> simp [hk]
  | got k => by_cases hq : h.quitting = true <;> simp [hq]
  | full k => by_cases hq : h.quitting = true <;> simp [hq]
  | finFull k => by_cases hq : h.quitting = true <;> simp [hq]
  | new => simp
  | exit k d => simp

theorem prodN_q_mono (k : Nat) (h : HS) : h.q.length ≤ (prodN k h).q.length := by
  induction k generalizing h with
  | zero => exact Nat.le_refl _
  | succ k ih => exact Nat.le_trans (prodStep_q_mono h) (ih _)

theorem prodN_exit (k : Nat) {h : HS} (he : h.pc.isExit = true) : prodN k h = h := by
  induction k with
  | zero => rfl
  | succ k ih => show prodN k (prodStep h) = h; rw [prodStep_exit he]; exact ih

theorem prodN_add (a b : Nat) (h : HS) : prodN (a + b) h = prodN b (prodN a h) := by
  induction a generalizing h with
  | zero => simp [prodN]
  | succ a ih => rw [Nat.succ_add]; exact ih _

theorem prodN_eq_hrun (k : Nat) (h : HS) : prodN k h = hrun h (List.replicate k .prod) := by
  induction k generalizing h with
  | zero => rfl
  | succ k ih => show prodN k (prodStep h) = _; rw [ih]; rfl

/-- producer steps until the next `q.put` attempt succeeds, while there is room -/
def PPc.dist (n : Nat) : PPc → Nat
  | .new => 4
  | .next k => if k < n then 3 else 2
  | .got _ => 2
  | .put _ => 1
  | .full _ => 2
  | .fin _ => 1
  | .finFull _ => 2
  | .exit _ _ => 0

theorem dist_step {h : HS} (hq : h.quitting = false) (hr : h.q.length < h.cap) (hne : h.pc.isExit = false) :
    h.q.length < (prodStep h).q.length ∨
    ((prodStep h).q = h.q ∧ (prodStep h).pc.dist h.n < h.pc.dist h.n) := by
  unfold prodStep
  cases hpc : h.pc with
  | exit k d => rw [hpc] at hne; simp [PPc.isExit] at hne
  | new => right; by_cases h0 : 0 < h.n <;> simp [PPc.dist, h0]
  | next k => right; by_cases hk : k < h.n <;> simp [hk, PPc.dist]
  | got k => right; simp [hq, PPc.dist]
  | put k => left; simp [hr]
  | full k => right; simp [hq, PPc.dist]
  | fin k => left; simp [hr]
  | finFull k => right; simp [hq, PPc.dist]

theorem room_progress (d : Nat) (h : HS) (hq : h.quitting = false) (hr : h.q.length < h.cap)
    (hd : h.pc.dist h.n ≤ d) :
    (prodN d h).pc.isExit = true ∨ h.q.length < (prodN d h).q.length := by
  induction d generalizing h with
  | zero =>
    left
    show h.pc.isExit = true
    cases hpc : h.pc <;> simp_all [PPc.dist, PPc.isExit]
    split at hd <;> omega
  | succ d ih =>
    by_cases hex : h.pc.isExit = true
    · left; rw [prodN_exit _ hex]; exact hex
    · rcases dist_step hq hr (by simpa using hex) with hg | ⟨he, hlt⟩
      · right
        show h.q.length < (prodN d (prodStep h)).q.length
        exact Nat.lt_of_lt_of_le hg (prodN_q_mono d _)
      · have := ih (prodStep h) (by simpa using hq) (by rw [he, prodStep_cap]; exact hr)
          (by rw [prodStep_n]; omega)
        rcases this with h1 | h1
        · left; exact h1
        · right; show h.q.length < (prodN d (prodStep h)).q.length; rw [he] at h1; exact h1

/-- **progress**: five steps of the producer thread (user code permitting) either end it,
    or put something into the queue — unless the queue is full and the consumer has not quit,
    in which case the consumer can take an element (`no_wait_cycle`).  No state of the
    hand-off is stuck. -/
theorem producer_progress (h : HS) :
    (prodN 5 h).pc.isExit = true ∨ h.q.length < (prodN 5 h).q.length ∨
    (h.cap ≤ h.q.length ∧ h.quitting = false) := by
  by_cases hq : h.quitting = true
  · left
    rw [prodN_eq_hrun]
    exact abandoned_producer_stops h hq _ (by simp)
  · by_cases hr : h.q.length < h.cap
    · have hd : h.pc.dist h.n ≤ 4 := by
        cases h.pc <;> simp [PPc.dist]
        split <;> omega
      rcases room_progress 4 h (by simpa using hq) hr hd with h1 | h1
      · left
        rw [show (5 : Nat) = 4 + 1 from rfl, prodN_add, prodN_exit 1 h1]; exact h1
      · right; left
        rw [show (5 : Nat) = 4 + 1 from rfl, prodN_add]
        exact Nat.lt_of_lt_of_le h1 (prodN_q_mono 1 _)
    · right; right
      exact ⟨by omega, by simpa using hq⟩

/-- a `q.get` job that is blocked on an empty queue is never left behind by a producer that
    has finished — provided the consumer was not cancelled while the job was running -/
def Clean (h : HS) : Prop := h.quitting = true → h.getter = false ∧ h.inbox = none

theorem hstep_clean {h : HS} (hc : Clean h) {a : HAct} (ha : a ≠ .abandon) : Clean (hstep h a) := by
  intro hq
  cases a with
  | abandon => exact absurd rfl ha
  | prod => simpa [hstep] using hc (by simpa [hstep] using hq)
  | pop =>
    simp only [hstep] at hq ⊢
    split
    · rename_i hcnd; rw [if_pos hcnd] at hq; exact hc hq
    · rename_i hcnd
      rw [if_neg hcnd] at hq
      simp only [Bool.or_eq_true, not_or, Bool.not_eq_true] at hcnd
      split at hq
      · rename_i x h' hp
        rw [(popNow_fields hp).2.2.2] at hq
        rw [hcnd.1.1.1] at hq; cases hq
      · exact hc hq
  | submit =>
    simp only [hstep] at hq ⊢
    split
    · rename_i hcnd; rw [if_pos hcnd] at hq; exact hc hq
    · rename_i hcnd
      rw [if_neg hcnd] at hq
      simp only [Bool.or_eq_true, not_or, Bool.not_eq_true] at hcnd
      have : h.quitting = true := hq
      rw [hcnd.1.1.1.1] at this; cases this
  | take =>
    have hq0 : h.quitting = true := by rw [← (take_fields h).2.2.2.1]; exact hq
    obtain ⟨a, b⟩ := hc hq0
    simp only [hstep, take, a]
    exact ⟨a, b⟩
  | deliver =>
    simp only [hstep] at hq ⊢
    split
    · rename_i hcnd; rw [if_pos hcnd] at hq; exact hc hq
    · rename_i hcnd
      rw [if_neg hcnd] at hq
      split at hq
      · rename_i x h' hp
        rw [(deliver_fields hp).2.2.2] at hq
        exact absurd hq hcnd
      · exact hc hq
  | quit =>
    simp only [hstep] at hq ⊢
    split
    · rename_i hcnd; rw [if_pos hcnd] at hq; exact hc hq
    · rename_i hcnd
      simp only [Bool.or_eq_true, not_or, Bool.not_eq_true, Option.isSome_eq_false_iff,
        Option.isNone_iff_eq_none] at hcnd
      exact ⟨hcnd.1, hcnd.2⟩

/-- **getter_not_stranded**: without task cancellation, a blocked `q.get` job implies a live
    producer (which, by `producer_progress`, puts something: an item or `_Done`). -/
theorem getter_not_stranded {h : HS} (hi : HInv h) (hc : Clean h) (hw : consWaits h = true) :
    h.pc.isExit = false := by
  simp only [consWaits, Bool.and_eq_true, List.isEmpty_iff] at hw
  obtain ⟨hg, hq⟩ := hw
  cases hex : h.pc.isExit with
  | false => rfl
  | true =>
    exfalso
    have hin := hi.getter_inbox hg
    have hne := hi.getter_live hg
    have hflow := hi.flow
    rw [hin, hq] at hflow
    simp only [Option.toList_none, List.append_nil] at hflow
    by_cases hd : h.pc.doneSent = true
    · have : QItem.done ∈ h.got := by rw [hflow]; simp [sentSeq, hd]
      simp [HS.ended, this] at hne
    · have := hi.noDone hex (by simpa using hd)
      have := (hc this).1
      rw [hg] at this; cases this

/-- with cancellation the guarantee is lost in one corner: the consumer is cancelled between
    the producer's last `Full` and its reading of `quitting`, after the queue was drained —
    the producer returns without `_Done` and the `q.get` job of the cancelled consumer stays
    blocked on an empty queue (an executor thread, not a coroutine: nothing stale is shown). -/
def strandWitness : List HAct :=
  [.prod, .prod, .prod, .prod, .prod, .prod, .pop, .submit, .abandon, .prod]

theorem abandon_can_strand_getter :
    consWaits (hrun (HS.init 1 1) strandWitness) = true ∧
    (hrun (HS.init 1 1) strandWitness).pc = .exit 1 false := by decide

/-! ### what a consumer step hands to the `async for` body -/

/-- the element a reading consumer receives next is the item whose index is the number of
    items received before, and that index is below the length of the iterable -/
theorem recv_item {h h' : HS} (hi : HInv h) (he : h.ended = false) (hi' : HInv h') {j : Nat}
    (hg : h'.got = h.got ++ [.item j]) : j = h.got.length ∧ j < h'.n := by
  obtain ⟨g, _, _, hgot, _⟩ := handoff_prefix hi
  obtain ⟨g', _, hle', hgot', _⟩ := handoff_prefix hi'
  rw [he] at hgot
  simp only [Bool.false_eq_true, if_false, List.append_nil] at hgot
  have he' : h'.ended = false := by
    unfold HS.ended at he ⊢
    rw [hg]
    simp only [List.contains_eq_mem, List.mem_append, List.mem_singleton, reduceCtorEq, or_false,
      decide_eq_false_iff_not] at he ⊢
    exact he
  rw [he'] at hgot'
  simp only [Bool.false_eq_true, if_false, List.append_nil] at hgot'
  have hlen : g = h.got.length := by rw [hgot]; simp
  have hlen' : g' = h.got.length + 1 := by
    have := congrArg List.length hgot'
    rw [hg] at this; simp at this; omega
  rw [hg, hlen', List.range_succ, List.map_append] at hgot'
  have := List.append_inj_right' hgot' (by simp)
  simp only [List.map_cons, List.map_nil, List.cons.injEq, QItem.item.injEq, and_true] at this
  exact ⟨this, by omega⟩

theorem popNow_got {h h' : HS} {x : QItem} (hp : popNow h = some (x, h')) : h'.got = h.got ++ [x] := by
  unfold popNow at hp; split at hp
  · simp only [Option.some.injEq, Prod.mk.injEq] at hp; obtain ⟨rfl, rfl⟩ := hp; rfl
  · cases hp

theorem deliver_got {h h' : HS} {x : QItem} (hp : deliver h = some (x, h')) : h'.got = h.got ++ [x] := by
  unfold deliver at hp; split at hp
  · simp only [Option.some.injEq, Prod.mk.injEq] at hp; obtain ⟨rfl, rfl⟩ := hp; rfl
  · cases hp

theorem deliver_none {h : HS} (hp : deliver h = none) : h.inbox = none := by
  unfold deliver at hp; split at hp
  · cases hp
  · rename_i hn; exact hn

theorem deliver_some_getter {h h' : HS} {x : QItem} (hi : HInv h) (hp : deliver h = some (x, h')) :
    h.getter = false := by
  unfold deliver at hp; split at hp
  · rename_i y hin
    cases hg : h.getter with
    | false => rfl
    | true => have := hi.getter_inbox hg; rw [hin] at this; cases this
  · cases hp

/-! ### non-vacuity: concrete interleavings exercising the hypotheses above -/

/-- three items, `buffer_size` 1: the thread starts, computes item 0, puts it, computes item 1
    and finds the queue full (`Full`, not quitting: it tries again) -/
def hDemoFull : HS := hrun (HS.init 3 1) [.prod, .prod, .prod, .prod, .prod, .prod, .prod]

example : hDemoFull.pc = .full 1 ∧ hDemoFull.q = [.item 0] ∧ prodWaits hDemoFull = true ∧
    HReach 3 1 hDemoFull := by
  refine ⟨by decide, by decide, by decide, ⟨_, rfl⟩⟩

/-- `handoff_prefix`: the consumer pops item 0, the thread puts item 1, the consumer finds the
    queue empty once, submits the `q.get` job, which returns item 1 and is delivered -/
def hDemoRecv : HS :=
  hrun hDemoFull [.pop, .prod, .prod, .pop, .submit, .prod, .prod, .prod, .take, .deliver]

example : hDemoRecv.got = [.item 0, .item 1, .item 2] ∧ hDemoRecv.ended = false := by decide

/-- `handoff_complete`: … and reads on to the end -/
example :
    (hrun hDemoRecv [.prod, .prod, .pop]).got = [.item 0, .item 1, .item 2, .done] ∧
    (hrun hDemoRecv [.prod, .prod, .pop]).ended = true := by decide

/-- `abandoned_producer_stops` / `abandoned_producer_bounded_work` / `no_wait_cycle` on a full
    queue: the consumer closes the generator while the thread waits for room; the thread
    returns without `_Done` after `Full` twice, having asked for no further item -/
example :
    (hrun hDemoFull [.quit]).quitting = true ∧ prodWaits (hrun hDemoFull [.quit]) = false ∧
    (hrun hDemoFull [.quit, .prod, .prod, .prod]).pc = .exit 1 false ∧
    nextStarts (hrun hDemoFull [.quit]) [.prod, .prod, .prod] = 0 := by decide

/-- `getter_not_stranded`: a waiting `q.get` job with a live producer -/
example : consWaits (hrun (HS.init 2 1) [.submit]) = true ∧ Clean (hrun (HS.init 2 1) [.submit]) := by
  refine ⟨by decide, ?_⟩
  intro h; revert h; decide

/-- `recv_item`: the element received next is the item whose index is the number received -/
example : (hrun hDemoFull [.pop]).got = hDemoFull.got ++ [.item 0] := by decide

end Ptk.C15
