/-
  C20 (second part) — lemmas about the shape of the `in_terminal` chain (used by `Ptk.Props.C20Chain`).
-/
import Ptk.Model.C20Chain
namespace Ptk.C20Chain
open Ptk.Py

def isDone (x : Sec) : Bool := x.st == .done
def isWaiting (x : Sec) : Bool := x.st == .waiting

/-- `done* body? waiting*`: the sections got the terminal strictly in the order of the chain -/
def shape : List Sec → Bool
  | [] => true
  | x :: xs => match x.st with
    | .done => shape xs
    | _ => xs.all isWaiting

/-- the section that holds the terminal -/
def bodyId : List Sec → Option Nat
  | [] => none
  | x :: xs => if x.st == .body then some x.id else bodyId xs

def ids (c : List Sec) : List Nat := c.map (·.id)

/-! ### facts about `shape` -/

theorem allWaiting_shape {c : List Sec} (h : c.all isWaiting = true) : shape c = true := by
  cases c with
  | nil => rfl
  | cons x xs =>
    simp only [List.all_cons, Bool.and_eq_true] at h
    have hx : x.st = .waiting := by simpa [isWaiting] using h.1
    simp [shape, hx, h.2]

theorem allWaiting_bodyId {c : List Sec} (h : c.all isWaiting = true) : bodyId c = none := by
  induction c with
  | nil => rfl
  | cons x xs ih =>
    simp only [List.all_cons, Bool.and_eq_true] at h
    have hx : x.st = .waiting := by simpa [isWaiting] using h.1
    simp [bodyId, hx, ih h.2]

theorem allDone_bodyId {c : List Sec} (h : allDone c = true) : bodyId c = none := by
  induction c with
  | nil => rfl
  | cons x xs ih =>
    simp only [allDone, List.all_cons, Bool.and_eq_true] at h
    have hx : x.st = .done := by simpa using h.1
    have : allDone xs = true := by simpa [allDone] using h.2
    simp [bodyId, hx, ih this]

theorem lastDone_cons (x : Sec) (xs : List Sec) (h : xs ≠ []) : lastDone (x :: xs) = lastDone xs := by
  cases xs with
  | nil => exact absurd rfl h
  | cons y ys => rfl

theorem shape_lastDone_allDone {c : List Sec} (hs : shape c = true) (hl : lastDone c = true) :
    allDone c = true := by
  induction c with
  | nil => rfl
  | cons x xs ih =>
    cases xs with
    | nil =>
      simp only [lastDone, beq_iff_eq] at hl
      simp [allDone, hl]
    | cons y ys =>
      rw [lastDone_cons x (y :: ys) (by simp)] at hl
      cases hx : x.st with
      | done =>
        simp only [shape, hx] at hs
        have := ih hs hl
        simp only [allDone, List.all_cons, Bool.and_eq_true] at this ⊢
        exact ⟨by simp [hx], this⟩
      | waiting =>
        simp only [shape, hx] at hs
        -- the last section is waiting, not done
        exfalso
        have hw : ∀ (l : List Sec), l ≠ [] → l.all isWaiting = true → lastDone l = false := by
          intro l
          induction l with
          | nil => intro h; exact absurd rfl h
          | cons a as iha =>
            intro _ hall
            simp only [List.all_cons, Bool.and_eq_true] at hall
            cases as with
            | nil =>
              have : a.st = .waiting := by simpa [isWaiting] using hall.1
              simp [lastDone, this]
            | cons b bs =>
              rw [lastDone_cons a (b :: bs) (by simp)]
              exact iha (by simp) hall.2
        have := hw (y :: ys) (by simp) hs
        rw [this] at hl; cases hl
      | body =>
        simp only [shape, hx] at hs
        exfalso
        have hw : ∀ (l : List Sec), l ≠ [] → l.all isWaiting = true → lastDone l = false := by
          intro l
          induction l with
          | nil => intro h; exact absurd rfl h
          | cons a as iha =>
            intro _ hall
            simp only [List.all_cons, Bool.and_eq_true] at hall
            cases as with
            | nil =>
              have : a.st = .waiting := by simpa [isWaiting] using hall.1
              simp [lastDone, this]
            | cons b bs =>
              rw [lastDone_cons a (b :: bs) (by simp)]
              exact iha (by simp) hall.2
        have := hw (y :: ys) (by simp) hs
        rw [this] at hl; cases hl

theorem allDone_append_shape {c : List Sec} (h : allDone c = true) (y : Sec) :
    shape (c ++ [y]) = true ∧ bodyId (c ++ [y]) = if y.st = .body then some y.id else none := by
  induction c with
  | nil =>
    cases hy : y.st <;> simp [shape, bodyId, hy]
  | cons x xs ih =>
    simp only [allDone, List.all_cons, Bool.and_eq_true] at h
    have hx : x.st = .done := by simpa using h.1
    have := ih (by simpa [allDone] using h.2)
    simp [shape, bodyId, hx, this]

theorem shape_append_waiting {c : List Sec} (h : shape c = true) (y : Sec) (hy : y.st = .waiting) :
    shape (c ++ [y]) = true ∧ bodyId (c ++ [y]) = bodyId c := by
  induction c with
  | nil => simp [shape, bodyId, hy]
  | cons x xs ih =>
    cases hx : x.st with
    | done =>
      simp only [shape, hx] at h
      have := ih h
      simp [shape, bodyId, hx, this]
    | waiting =>
      simp only [shape, hx] at h
      have hyw : isWaiting y = true := by simp [isWaiting, hy]
      have hall : (xs ++ [y]).all isWaiting = true := by simp [List.all_append, h, hyw]
      simp [shape, bodyId, hx, hall, allWaiting_bodyId hall, allWaiting_bodyId h]
    | body =>
      simp only [shape, hx] at h
      have hyw : isWaiting y = true := by simp [isWaiting, hy]
      have hall : (xs ++ [y]).all isWaiting = true := by simp [List.all_append, h, hyw]
      simp [shape, bodyId, hx, hall]

theorem setStatus_cons (x : Sec) (xs : List Sec) (k : Nat) (st : Status) :
    setStatus (x :: xs) k st = (if x.id == k then { x with st := st } else x) :: setStatus xs k st := rfl

theorem ids_cons (x : Sec) (xs : List Sec) : ids (x :: xs) = x.id :: ids xs := rfl

theorem find?_cons (x : Sec) (xs : List Sec) (k : Nat) :
    find? (x :: xs) k = if x.id == k then some x else find? xs k := by
  simp only [find?, List.find?_cons]
  cases (x.id == k) <;> rfl

theorem setStatus_not_mem {c : List Sec} {k : Nat} (h : k ∉ ids c) (st : Status) : setStatus c k st = c := by
  induction c with
  | nil => rfl
  | cons x xs ih =>
    rw [ids_cons, List.mem_cons, not_or] at h
    have hx : (x.id == k) = false := by simpa using fun e => h.1 e.symm
    rw [setStatus_cons, hx, ih h.2]; rfl

theorem canResume_mem {c : List Sec} {k : Nat} (h : canResume c k = true) : k ∈ ids c := by
  induction c with
  | nil => simp [canResume] at h
  | cons x xs ih =>
    rw [ids_cons, List.mem_cons]
    simp only [canResume] at h
    split at h
    · exact Or.inr (ih h)
    · simp only [Bool.and_eq_true, beq_iff_eq] at h
      exact Or.inl h.1.symm

theorem ids_setStatus (c : List Sec) (k : Nat) (st : Status) : ids (setStatus c k st) = ids c := by
  induction c with
  | nil => rfl
  | cons x xs ih =>
    rw [setStatus_cons, ids_cons, ids_cons, ih]
    cases (x.id == k) <;> rfl

/-- resume: the first section that is not done is `k` and waits -/
theorem resume_shape {c : List Sec} {k : Nat} (hs : shape c = true) (hn : (ids c).Nodup)
    (hr : canResume c k = true) (st : Status) (hst : st = .body ∨ st = .done) :
    shape (setStatus c k st) = true ∧ bodyId c = none ∧
    bodyId (setStatus c k st) = (if st = .body then some k else none) ∧
    ∃ x, find? c k = some x ∧ x.id = k := by
  induction c with
  | nil => simp [canResume] at hr
  | cons x xs ih =>
    rw [ids_cons, List.nodup_cons] at hn
    simp only [canResume] at hr
    by_cases hx : x.st = .done
    · simp only [hx, beq_self_eq_true, if_true] at hr
      have hk := canResume_mem hr
      have hne : (x.id == k) = false := by
        have : x.id ≠ k := fun e => hn.1 (by rw [e]; exact hk)
        simpa using this
      simp only [shape, hx] at hs
      obtain ⟨h1, h2, h3, x', h4, h5⟩ := ih hs hn.2 hr
      refine ⟨?_, ?_, ?_, x', ?_, h5⟩
      · rw [setStatus_cons, hne]
        simpa [shape, hx] using h1
      · simp [bodyId, hx, h2]
      · rw [setStatus_cons, hne]
        simpa [bodyId, hx] using h3
      · rw [find?_cons, hne]; exact h4
    · have hx' : (x.st == .done) = false := by simpa using hx
      simp only [hx', Bool.false_eq_true, if_false, Bool.and_eq_true, beq_iff_eq] at hr
      obtain ⟨hid, hw⟩ := hr
      have hall : xs.all isWaiting = true := by
        simp only [shape, hw] at hs; exact hs
      have hnot : k ∉ ids xs := by rw [← hid]; exact hn.1
      have hset := setStatus_not_mem hnot st
      have hid' : (x.id == k) = true := by simpa using hid
      refine ⟨?_, ?_, ?_, x, ?_, hid⟩
      · rw [setStatus_cons, hid', hset]
        rcases hst with rfl | rfl
        · simp [shape, hall]
        · simp [shape, allWaiting_shape hall]
      · simp [bodyId, hw, allWaiting_bodyId hall]
      · rw [setStatus_cons, hid', hset]
        rcases hst with rfl | rfl
        · simp [bodyId, hid]
        · simp [bodyId, allWaiting_bodyId hall]
      · rw [find?_cons, hid']; rfl

theorem mem_allWaiting {c : List Sec} (h : c.all isWaiting = true) {x : Sec} (hx : x ∈ c) : x.st = .waiting := by
  have := List.all_eq_true.mp h x hx
  simpa [isWaiting] using this

theorem find?_mem {c : List Sec} {k : Nat} {x : Sec} (h : find? c k = some x) : x ∈ c ∧ x.id = k := by
  simp only [find?] at h
  exact ⟨List.mem_of_find?_eq_some h, by simpa using List.find?_some h⟩

/-- leave: the section in its body is `k` -/
theorem leave_shape {c : List Sec} {k : Nat} {x : Sec} (hs : shape c = true) (hn : (ids c).Nodup)
    (hf : find? c k = some x) (hb : x.st = .body) :
    shape (setStatus c k .done) = true ∧ bodyId c = some k ∧ bodyId (setStatus c k .done) = none := by
  induction c with
  | nil => simp [find?] at hf
  | cons y ys ih =>
    rw [ids_cons, List.nodup_cons] at hn
    by_cases hy : (y.id == k) = true
    · have hxy : x = y := by rw [find?_cons, hy] at hf; simpa using hf.symm
      subst hxy
      have hall : ys.all isWaiting = true := by simp only [shape, hb] at hs; exact hs
      have hid : x.id = k := by simpa using hy
      have hnot : k ∉ ids ys := by rw [← hid]; exact hn.1
      have hset := setStatus_not_mem hnot .done
      refine ⟨?_, by simp [bodyId, hb, hid], ?_⟩
      · rw [setStatus_cons, hy, hset]; simp [shape, allWaiting_shape hall]
      · rw [setStatus_cons, hy, hset]; simp [bodyId, allWaiting_bodyId hall]
    · have hy' : (y.id == k) = false := by simpa using hy
      have hf' : find? ys k = some x := by rw [find?_cons, hy'] at hf; exact hf
      cases hst : y.st with
      | done =>
        simp only [shape, hst] at hs
        obtain ⟨h1, h2, h3⟩ := ih hs hn.2 hf'
        refine ⟨?_, by simp [bodyId, hst, h2], ?_⟩
        · rw [setStatus_cons, hy']
          simpa [shape, hst] using h1
        · rw [setStatus_cons, hy']
          simpa [bodyId, hst] using h3
      | waiting =>
        simp only [shape, hst] at hs
        have := mem_allWaiting hs (find?_mem hf').1
        rw [hb] at this; cases this
      | body =>
        simp only [shape, hst] at hs
        have := mem_allWaiting hs (find?_mem hf').1
        rw [hb] at this; cases this

end Ptk.C20Chain
