/-
  Cross-model agreement, cluster "Buffer edit and state API" (src/prompt_toolkit/buffer.py):
  `reshape_text(buffer, from_row, to_row)` (Vi `gq`) — canonical `C01.reshapeText` against
  `C08.reshapeText`.

  C08 models `str.splitlines(True)` for texts whose only line separator is "\n" and takes
  natural-number rows and the effective width `tw = buffer.text_width or default`; C01 takes the break
  characters as a runtime table, treats "\r\n" as one break, takes integer rows (Python slices) and
  `text_width` with the default separately.  The agreement theorem is therefore the special case
    * no '\r' in the text, and on the characters of the text `isBreak c ↔ c = '\n'`,
    * `str.isspace('\n')` (needed for "the last piece is never a lone newline"),
    * rows ≥ 0, `tw = if textWidth = 0 then defaultWidth else textWidth`.
-/
import Ptk.Props.AgreeBufBase
namespace Ptk.AgreeBuf
open Ptk.Py

/-- `str.splitlines(True)`: C01's scanner vs C08's, on texts where "\n" is the only line break -/
theorem splitKeep_08 (isBreak : Char → Bool) (t acc : Text)
    (h : ∀ c ∈ t, c ≠ '\r' ∧ (isBreak c = true ↔ c = '\n')) :
    C01.splitKeep isBreak t acc false = C08.splitlinesKeep t acc := by
  induction t generalizing acc with
  | nil => cases acc <;> simp [C01.splitKeep, C08.splitlinesKeep]
  | cons c r ih =>
    have hc := h c (by simp)
    have hr : ∀ c ∈ r, c ≠ '\r' ∧ (isBreak c = true ↔ c = '\n') := fun x hx => h x (by simp [hx])
    simp only [C01.splitKeep, C08.splitlinesKeep, hc.1, if_false]
    by_cases hn : c = '\n'
    · have : isBreak c = true := hc.2.mpr hn
      subst hn
      simp [this, ih [] hr]
    · have : ¬ isBreak c = true := fun hb => hn (hc.2.mp hb)
      simp [this, hn, ih (c :: acc) hr]

/-- `str.split()`: C01's scanner vs C08's, all inputs -/
theorem pySplit_08 (isSpace : Char → Bool) (t acc : Text) :
    C01.pySplitGo isSpace t acc = C08.splitWords isSpace t acc := by
  induction t generalizing acc with
  | nil => cases acc <;> simp [C01.pySplitGo, C08.splitWords]
  | cons c r ih =>
    simp only [C01.pySplitGo, C08.splitWords]
    split
    · split <;> simp [ih]
    · exact ih _

/-- the filling loop: C01's list of pieces, concatenated, is C08's string -/
theorem reshapeGo_08 (indent : Text) (width : Int) (ws : List Text) (cw : Nat) :
    (C01.reshapeGo indent width ws cw).flatten = C08.fillWords indent width ws cw := by
  induction ws generalizing cw with
  | nil => rfl
  | cons w ws ih =>
    rw [C01.reshapeGo, C08.fillWords]
    by_cases h0 : cw ≠ 0
    · rw [if_pos h0, if_pos h0]
      by_cases h1 : (w.length : Int) + (cw : Int) + 1 > width
      · rw [if_pos h1, if_pos h1]; simp [ih]
      · rw [if_neg h1, if_neg h1]; simp [ih]
    · rw [if_neg h0, if_neg h0]
      have : cw = 0 := by simpa using h0
      subst this
      simp [ih]

theorem getLastQ_append_ne {α} (l l' : List α) (h : l' ≠ []) : (l ++ l').getLast? = l'.getLast? := by
  rw [List.getLast?_append]
  cases hh : l'.getLast? with
  | none => exact absurd (List.getLast?_eq_none_iff.mp hh) h
  | some x => rfl
theorem getLastQ_cons_ne {α} (a : α) (l : List α) (h : l ≠ []) : (a :: l).getLast? = l.getLast? := by
  cases l with
  | nil => exact absurd rfl h
  | cons b l => exact List.getLast?_cons_cons

theorem reshapeGo_ne_nil (indent : Text) (width : Int) (w : Text) (ws : List Text) (cw : Nat) :
    C01.reshapeGo indent width (w :: ws) cw ≠ [] := by
  simp only [C01.reshapeGo]
  split
  · split <;> simp
  · simp

/-- the last piece of the filling loop is the last word -/
theorem reshapeGo_getLast (indent : Text) (width : Int) (ws : List Text) (cw : Nat) (hne : ws ≠ []) :
    (C01.reshapeGo indent width ws cw).getLast? = ws.getLast? := by
  induction ws generalizing cw with
  | nil => exact absurd rfl hne
  | cons w ws ih =>
    cases ws with
    | nil =>
      simp only [C01.reshapeGo]
      split
      · split <;> simp
      · simp
    | cons w' rest =>
      have key : ∀ (pre : List Text) (cw' : Nat),
          (pre ++ C01.reshapeGo indent width (w' :: rest) cw').getLast? = (w :: w' :: rest).getLast? := by
        intro pre cw'
        rw [getLastQ_append_ne _ _ (reshapeGo_ne_nil indent width w' rest cw'), ih cw' (by simp)]
        simp [List.getLast?_cons_cons]
      rw [C01.reshapeGo]
      split
      · split
        · exact key [['\n'], indent, w] _
        · exact key [[' '], w] _
      · exact key [w] _

/-- the words of `str.split()` contain no whitespace -/
theorem pySplitGo_noSpace (isSpace : Char → Bool) (t acc : Text) (hacc : ∀ c ∈ acc, isSpace c = false) :
    ∀ w ∈ C01.pySplitGo isSpace t acc, ∀ c ∈ w, isSpace c = false := by
  induction t generalizing acc with
  | nil =>
    intro w hw c hc
    simp only [C01.pySplitGo] at hw
    split at hw
    · simp at hw
    · simp only [List.mem_singleton] at hw
      subst hw
      exact hacc c (by simpa using hc)
  | cons x r ih =>
    intro w hw c hc
    simp only [C01.pySplitGo] at hw
    by_cases hx : isSpace x = true
    · simp only [hx, if_true] at hw
      split at hw
      · exact ih [] (by simp) w hw c hc
      · rcases List.mem_cons.mp hw with h | h
        · subst h; exact hacc c (by simpa using hc)
        · exact ih [] (by simp) w h c hc
    · simp only [hx, if_false, Bool.false_eq_true] at hw
      refine ih (x :: acc) ?_ w hw c hc
      intro c' hc'
      rcases List.mem_cons.mp hc' with h | h
      · subst h; simpa using hx
      · exact hacc c' h

/-- `reshaped_text[-1] != "\n"` always holds (so the final newline is always appended) -/
theorem reshaped_last (reSpace isSpace : Char → Bool) (hnl : isSpace '\n' = true) (first : Text) (width : Int)
    (t : Text) :
    (((first.take (first.takeWhile reSpace).length).filter C01.notNl) ::
        C01.reshapeGo ((first.take (first.takeWhile reSpace).length).filter C01.notNl) width
          (C01.pySplit isSpace t) 0).getLast? ≠ some ['\n'] := by
  generalize hind : (first.take (first.takeWhile reSpace).length).filter C01.notNl = indent
  have hindent : indent ≠ ['\n'] := by
    intro he
    have : '\n' ∈ (first.take (first.takeWhile reSpace).length).filter C01.notNl := by rw [hind, he]; simp
    simp [C01.notNl] at this
  cases hw : C01.pySplit isSpace t with
  | nil =>
    simp only [C01.reshapeGo, List.getLast?_singleton, ne_eq, Option.some.injEq]
    exact hindent
  | cons w ws =>
    rw [getLastQ_cons_ne _ _ (reshapeGo_ne_nil _ _ _ _ _), reshapeGo_getLast _ _ _ _ (by simp)]
    intro he
    have hmem : ['\n'] ∈ C01.pySplit isSpace t := by
      rw [hw]; exact List.mem_of_getLast? he
    have := pySplitGo_noSpace isSpace t [] (by simp) _ hmem '\n' (by simp)
    rw [hnl] at this
    exact absurd this (by simp)

theorem take_len_takeWhile (p : Char → Bool) (l : Text) : l.take (l.takeWhile p).length = l.takeWhile p := by
  induction l with
  | nil => rfl
  | cons x xs ih =>
    simp only [List.takeWhile]
    split <;> simp [ih]

theorem sliceTo_nat {α} (l : List α) (a : Nat) : sliceTo l (a : Int) = l.take a := by
  have : ¬ ((a : Int) < 0) := by omega
  simp only [sliceTo, slice, normIdx, this, if_false, List.drop_zero, Int.toNat_natCast]
  exact (List.take_eq_take_min ..).symm
theorem sliceFrom_nat {α} (l : List α) (a : Nat) : sliceFrom l (a : Int) = l.drop a := by
  have : ¬ ((a : Int) < 0) := by omega
  simp only [sliceFrom, slice, normIdx, this, if_false, Int.toNat_natCast, List.take_length]
  rcases Nat.le_total a l.length with h | h
  · rw [Nat.min_eq_left h]
  · rw [Nat.min_eq_right h, List.drop_eq_nil_of_le h, List.drop_eq_nil_of_le (Nat.le_refl _)]
theorem slice_nat {α} (l : List α) (a b : Nat) : slice l (some (a : Int)) (some (b : Int)) = (l.take b).drop a := by
  have h1 : ¬ ((a : Int) < 0) := by omega
  have h2 : ¬ ((b : Int) < 0) := by omega
  simp only [slice, normIdx, h1, h2, if_false, Int.toNat_natCast, ← List.take_eq_take_min]
  rcases Nat.le_total a l.length with h | h
  · rw [Nat.min_eq_left h]
  · rw [Nat.min_eq_right h, List.drop_eq_nil_of_le (by simp; omega), List.drop_eq_nil_of_le (by simp; omega)]

/-- buffer.py::reshape_text — `C01.reshapeText` vs `C08.reshapeText` in the special case C08 covers
    ("\n" the only line break in the text, rows ≥ 0, effective width) -/
theorem reshapeText_08 (env : C08.Env) (isBreak : Char → Bool) (defaultWidth textWidth : Nat) (s : C08.St)
    (a b : Nat)
    (hbrk : ∀ c ∈ s.text, c ≠ '\r' ∧ (isBreak c = true ↔ c = '\n'))
    (hnl : env.isSpace '\n' = true) :
    p08 (C08.reshapeText env (if textWidth = 0 then defaultWidth else textWidth) s a b) =
      C01.reshapeText isBreak env.reSpace env.isSpace defaultWidth (p08 s) (a : Int) (b : Int) textWidth := by
  have hb1 : ((b : Int) + 1) = ((b + 1 : Nat) : Int) := by omega
  simp only [C01.reshapeText, C08.reshapeText, C01.splitLinesKeep, p08, splitKeep_08 isBreak s.text [] hbrk,
    hb1, sliceTo_nat, sliceFrom_nat, slice_nat]
  cases hmid : List.drop a (List.take (b + 1) (C08.splitlinesKeep s.text [])) with
  | nil => rfl
  | cons first rest =>
    simp only [C01.reshapePieces]
    have hlast := reshaped_last env.reSpace env.isSpace hnl first
      ((((if textWidth = 0 then defaultWidth else textWidth : Nat) : Int)) -
        (((first.take (first.takeWhile env.reSpace).length).filter C01.notNl).length : Int))
      (first :: rest).flatten
    rw [if_pos hlast]
    have hnot : (fun c : Char => c != '\n') = C01.notNl := rfl
    simp only [take_len_takeWhile] at hlast ⊢
    simp only [C01.setDoc, C01.pySplit, pySplit_08, hnot]
    have hle : (((List.take a (C08.splitlinesKeep s.text []) ++
        (List.filter C01.notNl (List.takeWhile env.reSpace first) ::
          C01.reshapeGo (List.filter C01.notNl (List.takeWhile env.reSpace first))
            (((if textWidth = 0 then defaultWidth else textWidth : Nat) : Int) -
              ((List.filter C01.notNl (List.takeWhile env.reSpace first)).length : Int))
            (C08.splitWords env.isSpace (first :: rest).flatten []) 0 ++ [['\n']])).flatten.length : Nat) : Int) ≤
      (((List.take a (C08.splitlinesKeep s.text []) ++
        (List.filter C01.notNl (List.takeWhile env.reSpace first) ::
          C01.reshapeGo (List.filter C01.notNl (List.takeWhile env.reSpace first))
            (((if textWidth = 0 then defaultWidth else textWidth : Nat) : Int) -
              ((List.filter C01.notNl (List.takeWhile env.reSpace first)).length : Int))
            (C08.splitWords env.isSpace (first :: rest).flatten []) 0 ++ [['\n']]) ++
        List.drop (b + 1) (C08.splitlinesKeep s.text [])).flatten.length : Nat) : Int) := by
      simp only [List.flatten_append, List.length_append]; omega
    simp only [hle, if_true, Int.toNat_natCast]
    congr 1
    · simp [List.flatten_append, reshapeGo_08, List.append_assoc]
    · simp [List.flatten_append, reshapeGo_08, List.append_assoc]

end Ptk.AgreeBuf
