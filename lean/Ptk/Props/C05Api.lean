/-
  C05 — property theorems for the rest of the `Buffer` API the key handlers call
  (`Ptk.Model.C05Api`: yank-nth-arg / yank-last-arg, auto_up / auto_down, completions, selection copy /
  cut, paste, transformations, joins, swap, newline family, the text coming back from the editor).

  For EVERY program over this API, with ALL integer arguments (negative, zero and oversized counts and
  indices): the cursor, the selection anchor and the multiple cursors stay inside the text, the
  selected completion stays inside the completion list, and NO call ends with anything but a normal
  return or `EditReadOnlyBuffer` — provided the few calls that carry an `assert` in the code are made
  inside their domain (`Op2.pre`: `transform_region(from_ < to)`, `go_to_completion` with a completion
  state and an index in range, `complete_next/previous(count >= 0)`, `cursor_up/down(count >= 1)`,
  `join_selected_lines` with a selection, `apply_completion(start_position <= 0)`, well-formed
  Documents handed in from document.py).  The methods the key handlers reach with an arbitrary numeric
  argument (`auto_up`, `auto_down`, `yank_nth_arg`, `yank_last_arg`, …) have NO precondition: their
  crash-freedom for every integer is a theorem (`int_args_total`).
-/
import Ptk.Props.C05
import Ptk.Props.C05ApiLemmas
import Ptk.Gen.C05
namespace Ptk.C05
open Ptk.Py

/-- the domain of an old API call: well-formed Documents, working indices inside the working lines -/
def Op.pre (b : Buf) (op : Op) : Prop :=
  op.wellFormed ∧ ∀ i, (op = .setWorkingIndex i ∨ ∃ c, op = .applySearch i c) → i < b.lines.length

/-- the domain of a call of the extended API (the `assert`s of the code; everything else is total) -/
def Op2.pre (b : Buf) : Op2 → Prop
  | .old op => op.pre b
  | .goToCompletion i => ∃ cs, b.comp = some cs ∧ (goToIndex cs i).isSome = true
  | .completeNext c _ => 0 ≤ c
  | .completePrevious c _ => 0 ≤ c
  | .applyCompletion _ s => s ≤ 0
  | .cursorUpDown c _ => 1 ≤ c
  | .copySelection _ t c => c ≤ t.length
  | .pasteDoc t c => c ≤ t.length
  | .transformRegion f t _ => f < t
  | .joinSelectedLines _ => b.sel.isSome = true
  | _ => True

/-- a non-trivial state: two-line text, a selection, a completion menu with the second of three entries selected,
    a yank state, three history entries (one of them blank) -/
def exBuf2 : Buf :=
  { exBuf with multi := [], hist := ["ls -l".toList, "   ".toList, "echo 'a b' c".toList],
               yank := some ⟨-1, -1, "c".toList⟩,
               comp := some ⟨"ab\ncd".toList, 2, [⟨"alpha".toList, -1⟩, ⟨"beta".toList, 0⟩, ⟨"g".toList, -2⟩], some 1⟩ }

theorem exBuf2_inv : Inv2 exBuf2 := by
  refine ⟨⟨by decide, by decide, ?_, ?_, ?_, ?_⟩, ?_, ?_⟩
  · intro s hs
    have : s = ⟨4, 0⟩ := by simpa [exBuf2, exBuf] using hs.symm
    subst this; decide
  · intro p hp; simp [exBuf2] at hp
  · intro e he
    have : e = ("ab".toList, 2) := by simpa [exBuf2, exBuf] using he
    subst this; decide
  · intro e he
    have : e = ("abc".toList, 0) := by simpa [exBuf2, exBuf] using he
    subst this; decide
  · intro cs hcs
    simp [exBuf2] at hcs
    subst hcs
    exact ⟨fun i hi => by simp at hi; subst hi; decide, by decide⟩
  · intro y hy
    simp [exBuf2] at hy
    subst hy; decide

/-- the character classes the driver uses (any classes would do for the theorems) -/
def exCls : Cls := { reSpace := fun c => c == ' ' || c == '\n' || c == '\t', isSpace := fun c => c == ' ' || c == '\n' || c == '\t',
                     isBreak := fun c => c == '\n' || c == '\r' }

/-- **One call of the extended API inside its domain**: the invariant holds afterwards and the call
    returned normally or with `EditReadOnlyBuffer` — no AssertionError, no IndexError. -/
theorem api2_step_total (cls : Cls) (b : Buf) (op : Op2) (h2 : Inv2 b) (hpre : op.pre b) :
    Inv2 (step2 cls b op).1 ∧ (step2 cls b op).2.fine := by
  cases op with
  | old op =>
    obtain ⟨hw, hidx⟩ := hpre
    have hne : (step b op).2 ≠ .indexError := by
      intro he
      obtain ⟨i, hi, ho⟩ := api_indexError_only_bad_index b op h2.inv he
      have := hidx i ho
      omega
    exact ⟨inv2_of_wk (api_step_inv b op h2.inv hne) (wk_step b op) h2,
      fine_of_ne _ hne (api_no_assertion b op h2.inv hw)⟩
  | yankNthArg n last => exact yankNthArg_spec cls b n last h2
  | setCompletions cs => exact ⟨setCompletions_spec b cs h2, fine_ok⟩
  | goToCompletion i => exact goToCompletion_spec b i h2 hpre
  | completeNext c w => exact completeNext_spec b c w h2 hpre
  | completePrevious c w => exact completePrevious_spec b c w h2 hpre
  | cancelCompletion => exact cancelCompletion_spec b h2
  | applyCompletion t s => exact applyCompletion_spec b t s h2 hpre
  | cursorUpDown c d => exact cursorUpDown_spec b c d h2 hpre
  | autoUp c g d => exact autoUp_spec b c g d h2
  | autoDown c g d => exact autoDown_spec b c g d h2
  | copySelection cut t c => exact copySelection_spec b cut t c h2 hpre
  | pasteDoc t c => exact setDocument_spec b t c false h2 hpre
  | transformCurrentLine r => exact transformCurrentLine_spec b r h2
  | transformRegion f t r => exact transformRegion_spec b f t r h2 hpre
  | joinNextLine sep => exact joinNextLine_spec b sep h2
  | joinSelectedLines sep => exact joinSelectedLines_spec cls b sep h2 hpre
  | swapChars => exact swapChars_spec b h2
  | newline m => exact insertText_spec b _ false true h2
  | insertLineAbove m => exact insertLineAbove_spec b m h2
  | insertLineBelow m => exact insertText_spec _ _ false true (moveCursor_spec b _ h2)
  | editorResult t => exact editorResult_spec b t h2

example : (step2 exCls exBuf2 (.yankNthArg (some (-9)) true)).2 = .ok := by decide
example : (step2 exCls exBuf2 (.autoUp (-7) true 3)).2.fine :=
  (api2_step_total exCls exBuf2 (.autoUp (-7) true 3) exBuf2_inv trivial).2

/-- every op of the program is inside its domain in the state in which it is executed -/
def InDomain (cls : Cls) : Buf → List Op2 → Prop
  | _, [] => True
  | b, op :: ops => op.pre b ∧ ((step2 cls b op).2 = .ok → InDomain cls (step2 cls b op).1 ops)

/-- **For every program over the extended Buffer API** (any arguments, stopped by the first
    `EditReadOnlyBuffer`): the invariant holds in the state it leaves behind and nothing but
    `EditReadOnlyBuffer` can end it. -/
theorem api2_total (cls : Cls) : ∀ (ops : List Op2) (b : Buf), Inv2 b → InDomain cls b ops →
    Inv2 (run2 cls b ops).1 ∧ (run2 cls b ops).2.fine
  | [], b, h, _ => ⟨h, fine_ok⟩
  | op :: ops, b, h, hd => by
    unfold run2
    have hs := api2_step_total cls b op h hd.1
    have hrest := hd.2
    revert hs hrest
    generalize step2 cls b op = r
    obtain ⟨b1, o⟩ := r
    intro hs hrest
    rcases hs.2 with ho | ho
    · have : o = .ok := ho
      subst this
      exact api2_total cls ops b1 hs.1 (hrest rfl)
    · have : o = .readOnly := ho
      subst this
      exact ⟨hs.1, Or.inr rfl⟩

/-- the calls that have no precondition at all: whatever integers they get, they cannot fail -/
def Op2.anyArgs : Op2 → Bool
  | .yankNthArg _ _ | .autoUp _ _ _ | .autoDown _ _ _ | .cancelCompletion | .setCompletions _
  | .transformCurrentLine _ | .joinNextLine _ | .swapChars | .newline _ | .insertLineAbove _ | .insertLineBelow _
  | .editorResult _ => true
  | .old (.moveCursor _) | .old (.setCursor _) | .old (.insertText _ _ _) | .old (.delete _) | .old (.deleteBefore _)
  | .old (.historyForward _) | .old (.historyBackward _) | .old (.goToHistory _) | .old .undo | .old .redo
  | .old (.startSelection _) | .old .exitSelection | .old (.setText _) | .old (.saveUndo _) => true
  | _ => false

theorem anyArgs_pre (b : Buf) (op : Op2) (h : op.anyArgs = true) : op.pre b := by
  cases op with
  | old o =>
    cases o <;> simp [Op2.anyArgs] at h <;>
      exact ⟨trivial, fun i hi => by rcases hi with hi | ⟨c, hi⟩ <;> cases hi⟩
  | _ => first | trivial | (simp [Op2.anyArgs] at h)

/-- **Crash-freedom for arbitrary integer arguments**: a handler body that only calls the methods
    without a precondition — `auto_up(count)`, `auto_down(count)`, `yank_nth_arg(n)`, `yank_last_arg(n)`,
    `history_forward/backward(count)`, `go_to_history(i)`, cursor moves, inserts, deletes, joins, swaps,
    undo / redo, … — with ANY integers keeps the invariant and cannot raise anything but
    `EditReadOnlyBuffer`. -/
theorem int_args_total (cls : Cls) : ∀ (ops : List Op2) (b : Buf), Inv2 b → (∀ op ∈ ops, op.anyArgs = true) →
    Inv2 (run2 cls b ops).1 ∧ (run2 cls b ops).2.fine := by
  intro ops b h hall
  apply api2_total cls ops b h
  induction ops generalizing b with
  | nil => trivial
  | cons op ops ih =>
    refine ⟨anyArgs_pre b op (hall op List.mem_cons_self), fun _ => ?_⟩
    have hs := api2_step_total cls b op h (anyArgs_pre b op (hall op List.mem_cons_self))
    exact ih _ hs.1 (fun o ho => hall o (List.mem_cons_of_mem _ ho))

example : (run2 exCls exBuf2 [.autoDown (-3) false 0, .yankNthArg (some 99) false, .yankNthArg none true,
    .old (.historyBackward (-5)), .swapChars, .autoUp 1000000 true (-2)]).2 = .ok := by decide

/-- the statement of the property on the extended API -/
theorem api2_positions_in_text (cls : Cls) (ops : List Op2) (b : Buf) (h : Inv2 b) (hd : InDomain cls b ops) :
    let b' := (run2 cls b ops).1
    b'.cur ≤ b'.text.length ∧
    (∀ s, b'.sel = some s → 0 ≤ s.anchor ∧ s.anchor ≤ (b'.text.length : Int)) ∧
    (∀ p ∈ b'.multi, 0 ≤ p ∧ p ≤ (b'.text.length : Int)) ∧
    (∀ cs i, b'.comp = some cs → cs.index = some i → i < cs.comps.length) := by
  have hi := (api2_total cls ops b h hd).1
  exact ⟨hi.inv.cur, hi.inv.sel, hi.inv.multi, fun cs i hcs hidx => (hi.comp cs hcs).1 i hidx⟩

/-! ### outside the domain the asserts of the code do fire (witnesses, replayed on the real code by the
    correspondence: kind "api2") -/

/-- `complete_next(count=-3)` from the second completion asks for index -2: `go_to_index` asserts -/
theorem complete_next_negative_count_asserts : (step2 exCls exBuf2 (.completeNext (-3) false)).2 = .assertion := by
  decide
/-- … but `auto_down(count)` never passes a non-positive count on (fix 4885d55) -/
example : (step2 exCls exBuf2 (.autoDown (-3) false 0)).2 = .ok := by decide
/-- `transform_region(3, 3, …)`: `assert from_ < to` -/
theorem transform_region_empty_asserts : (step2 exCls exBuf2 (.transformRegion 3 3 [])).2 = .assertion := by decide
/-- `cursor_up(count=0)`: `Document.get_cursor_up_position` asserts `count >= 1` -/
theorem cursor_up_zero_asserts : (step2 exCls exBuf2 (.cursorUpDown 0 0)).2 = .assertion := by decide
/-- `join_selected_lines` without a selection: `assert self.selection_state` -/
theorem join_selected_without_selection_asserts :
    (step2 exCls { exBuf2 with sel := none } (.joinSelectedLines [' '])).2 = .assertion := by decide

/-! ### `words[state.n]` -/

/-- **pattern pin**: `splitQuoted` is the scanner of exactly this regular expression (re-extracted from
    buffer.py on every run; scanner and `re` are compared on every string over a 6-symbol alphabet up to
    length 5 / 6 by the correspondence, kind "qw") -/
theorem quoted_words_re_pin : Gen.C05.quotedWordsRe = "(\\s+|\".*?\"|'.*?')" := by rfl

/-- **`yank_nth_arg` never indexes outside the word list**: for every line, every `n` (negative, zero,
    oversized), every history (blank-only entries included) the call returns normally or with
    `EditReadOnlyBuffer`. -/
theorem yank_nth_arg_total (cls : Cls) (b : Buf) (n : Option Int) (last : Bool) (h2 : Inv2 b) :
    (yankNthArg cls b n last).2.fine := (yankNthArg_spec cls b n last h2).2

-- the history entry "   " has no words: `words[-1]` would raise, the model (like the code) yields ""
example : quotedWords exCls "   ".toList = [] := by decide
example : quotedWords exCls "echo 'a b' c".toList = ["echo".toList, "'a b'".toList, "c".toList] := by decide
example : (step2 exCls { exBuf2 with yank := none, comp := none } (.yankNthArg none true)).1.text = "abc\ncd".toList := by
  decide
example : (step2 exCls { exBuf2 with yank := some ⟨0, -1, []⟩, comp := none } (.yankNthArg none true)).2 = .ok ∧
    (step2 exCls { exBuf2 with yank := some ⟨-1, -1, []⟩, comp := none } (.yankNthArg none true)).1.text = "ab\ncd".toList := by
  decide

end Ptk.C05
