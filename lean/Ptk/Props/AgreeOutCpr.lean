/-
  Cross-model agreement, cluster "Output side" — the CPR bookkeeping of the renderer (C06 vs C17):

    renderer.py  Renderer.report_absolute_cursor_row   C06.RFull.reportCpr (Model/C06Full.lean)  vs  the `.cpr` case of
                                                        C17.handle (Model/C17.lean)
    renderer.py  Renderer.waiting_for_cpr               `r.waiting != 0` in C06.RFull.requestCpr     vs  `0 < p.waiting`
                                                        in C17.step / C17Paste.active

  C17 keeps only `len(renderer._waiting_for_cpr_futures)` (`KP.waiting`) of the renderer; C06 keeps the whole renderer.
  Translation: the projection `RFull.waiting`.  C17's `cprs` (number of reports) has no C06 counterpart.
-/
import Ptk.Model.C06Full
import Ptk.Model.C17
namespace Ptk.AgreeOut.Cpr
open Ptk

-- renderer.py::Renderer.report_absolute_cursor_row — the future popped from `_waiting_for_cpr_futures`:
-- `Ptk.C06.RFull.reportCpr` vs `Ptk.C17.handle _ .cpr`, on the shared component `waiting`
theorem report_waiting (r : C06.RFull) (p : C17.KP) (rows : Nat) (row : Int) (h : r.waiting = p.waiting) :
    (r.reportCpr rows row).waiting = (C17.handle p .cpr).waiting := by
  simp [C06.RFull.reportCpr, C17.handle, h]

-- renderer.py::Renderer.waiting_for_cpr — `bool(self._waiting_for_cpr_futures)`: C06 tests `waiting != 0`, C17 `0 < waiting`
theorem waiting_for_cpr (r : C06.RFull) (p : C17.KP) (h : r.waiting = p.waiting) :
    (r.waiting != 0) = decide (0 < p.waiting) := by
  rw [h]; cases p.waiting <;> simp

-- … and a report leaves every other C17 component except the report counter alone
theorem report_only_waiting (p : C17.KP) :
    C17.handle p .cpr = { p with cprs := p.cprs + 1, waiting := p.waiting - 1 } := rfl

end Ptk.AgreeOut.Cpr
