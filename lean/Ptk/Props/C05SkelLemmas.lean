/-
  C05 — lemmas for the mode-skeleton theorems (`Ptk.Props.C05Skel`): the stable sort of
  `get_bindings_for_keys`, soundness of the syntactic filter checks, key matching, and what
  `_process` does with a one-key buffer.
-/
import Ptk.Model.C05SkelGen
namespace Ptk.C05
namespace Skel

/-! ### `sorted(..., key=-any_count)` -/

theorem mem_insertSorted (ak : Key) (b x : Binding) (l : List Binding) :
    x ∈ insertSorted ak b l ↔ x = b ∨ x ∈ l := by
  induction l with
  | nil => simp [insertSorted]
  | cons y ys ih =>
    simp only [insertSorted]
    split
    · simp
    · simp [ih]; grind

theorem mem_sortByAny (ak : Key) (x : Binding) (l : List Binding) : x ∈ sortByAny ak l ↔ x ∈ l := by
  induction l with
  | nil => simp [sortByAny]
  | cons y ys ih => simp [sortByAny, mem_insertSorted, ih]

/-- descending `any_count` -/
def Desc (ak : Key) (l : List Binding) : Prop := l.Pairwise fun a b => anyCount ak b ≤ anyCount ak a

theorem desc_insertSorted (ak : Key) (b : Binding) (l : List Binding) (h : Desc ak l) :
    Desc ak (insertSorted ak b l) := by
  induction l with
  | nil => simp [insertSorted, Desc]
  | cons y ys ih =>
    simp only [insertSorted]
    unfold Desc at *
    rw [List.pairwise_cons] at h
    split
    · rename_i hle
      rw [List.pairwise_cons]
      refine ⟨?_, List.pairwise_cons.2 h⟩
      intro a ha
      rcases List.mem_cons.1 ha with rfl | ha
      · exact hle
      · exact Nat.le_trans (h.1 a ha) hle
    · rename_i hle
      rw [List.pairwise_cons]
      refine ⟨?_, ih h.2⟩
      intro a ha
      rcases (mem_insertSorted ak b a ys).1 ha with rfl | ha
      · omega
      · exact h.1 a ha

theorem desc_sortByAny (ak : Key) (l : List Binding) : Desc ak (sortByAny ak l) := by
  induction l with
  | nil => simp [sortByAny, Desc]
  | cons y ys ih => exact desc_insertSorted ak y _ ih

theorem desc_getLast (ak : Key) (l : List Binding) (h : Desc ak l) (b : Binding) (hb : l.getLast? = some b) :
    ∀ x ∈ l, anyCount ak b ≤ anyCount ak x := by
  induction l with
  | nil => simp at hb
  | cons y ys ih =>
    unfold Desc at h
    rw [List.pairwise_cons] at h
    intro x hx
    cases ys with
    | nil =>
      simp at hb hx; subst hb; subst hx; exact Nat.le_refl _
    | cons z zs =>
      have hb' : (z :: zs).getLast? = some b := by simpa [List.getLast?_cons_cons] using hb
      have hbm : b ∈ z :: zs := List.mem_of_getLast? hb'
      rcases List.mem_cons.1 hx with rfl | hx
      · exact h.1 b hbm
      · exact ih h.2 hb' x hx

end Skel
end Ptk.C05

namespace Ptk.C05
namespace Skel

/-! ### filters -/

/-- the i-th atom of the table is evaluated as kind `a` -/
def isAtom (t : Tbl) (a : Atom) (i : Nat) : Bool := t.atoms[i]? == some a

/-- the filter has an atom of kind `a` as a top-level conjunct -/
def conjHas (t : Tbl) (a : Atom) : F → Bool
  | .atom i => isAtom t a i
  | .and x y => conjHas t a x || conjHas t a y
  | _ => false

/-- the filter is a conjunction of atoms whose kinds all satisfy `allowed` -/
def conjOnly (t : Tbl) (allowed : Atom → Bool) : F → Bool
  | .tt => true
  | .atom i => match t.atoms[i]? with | some a => allowed a | none => false
  | .and x y => conjOnly t allowed x && conjOnly t allowed y
  | _ => false

theorem evalAtom_of_isAtom (t : Tbl) (s : Sk) (env : Env) (a : Atom) (i : Nat) (ha : a ≠ .env)
    (h : isAtom t a i = true) : evalAtom t s env i = evalAtomSk s a := by
  unfold isAtom at h
  have h' : t.atoms[i]? = some a := by simpa using h
  unfold evalAtom
  rw [h']
  cases a <;> simp_all

theorem conjHas_sound (t : Tbl) (s : Sk) (env : Env) (a : Atom) (ha : a ≠ .env) (f : F)
    (h : conjHas t a f = true) (hf : evalF t s env f = true) : evalAtomSk s a = true := by
  induction f with
  | atom i => rw [← evalAtom_of_isAtom t s env a i ha h]; exact hf
  | and x y ihx ihy =>
    simp only [conjHas, Bool.or_eq_true] at h
    simp only [evalF, Bool.and_eq_true] at hf
    rcases h with h | h
    · exact ihx h hf.1
    · exact ihy h hf.2
  | tt => simp [conjHas] at h
  | ff => simp [conjHas] at h
  | not f _ => simp [conjHas] at h
  | or x y _ _ => simp [conjHas] at h

theorem conjOnly_sound (t : Tbl) (s : Sk) (env : Env) (allowed : Atom → Bool)
    (hall : ∀ a, allowed a = true → a ≠ .env ∧ evalAtomSk s a = true) (f : F)
    (h : conjOnly t allowed f = true) : evalF t s env f = true := by
  induction f with
  | tt => rfl
  | atom i =>
    simp only [conjOnly] at h
    split at h
    · rename_i a ha
      have := hall a h
      have h2 : isAtom t a i = true := by simp [isAtom, ha]
      simp only [evalF]
      rw [evalAtom_of_isAtom t s env a i this.1 h2]; exact this.2
    · simp at h
  | and x y ihx ihy =>
    simp only [conjOnly, Bool.and_eq_true] at h
    simp only [evalF, Bool.and_eq_true]
    exact ⟨ihx h.1, ihy h.2⟩
  | ff => simp [conjOnly] at h
  | not f _ => simp [conjOnly] at h
  | or x y _ _ => simp [conjOnly] at h

/-! ### matching -/

theorem keysMatch_single (ak : Key) (bks : List Key) (k : Key) (h : keysMatch ak bks [k] = true) :
    ∃ bk, bks = [bk] ∧ keyOk ak bk k = true := by
  match bks, h with
  | [bk], h => exact ⟨bk, rfl, by simpa [keysMatch] using h⟩
  | [], h => simp [keysMatch] at h
  | _ :: _ :: _, h => simp [keysMatch] at h

theorem keysMatch_self (ak k : Key) : keysMatch ak [k] [k] = true := by simp [keysMatch, keyOk]

theorem anyCount_single (ak : Key) (b : Binding) (k : Key) (hk : b.keys = [k]) (hne : k ≠ ak) :
    anyCount ak b = 0 := by
  simp [anyCount, hk, hne]

theorem keys_eq_of_anyCount_zero (ak : Key) (b : Binding) (k : Key)
    (hm : keysMatch ak b.keys [k] = true) (h0 : anyCount ak b = 0) : b.keys = [k] := by
  obtain ⟨bk, hbk, hok⟩ := keysMatch_single ak b.keys k hm
  rw [hbk]
  simp only [anyCount, hbk] at h0
  simp only [keyOk, Bool.or_eq_true, beq_iff_eq] at hok
  rcases hok with rfl | rfl
  · rfl
  · simp at h0

theorem getMatches_last (t : Tbl) (s : Sk) (env : Env) (keys : List Key) (b : Binding)
    (h : (getMatches t s env keys).getLast? = some b) :
    b ∈ t.bindings ∧ keysMatch t.anyKey b.keys keys = true ∧ evalF t s env b.filter = true ∧
    ∀ x ∈ t.bindings, keysMatch t.anyKey x.keys keys = true → evalF t s env x.filter = true →
      anyCount t.anyKey b ≤ anyCount t.anyKey x := by
  unfold getMatches at h
  have hmem := List.mem_of_getLast? h
  rw [List.mem_filter, mem_sortByAny, List.mem_filter] at hmem
  refine ⟨hmem.1.1, hmem.1.2, hmem.2, ?_⟩
  intro x hx hkm hev
  have hd : Desc t.anyKey ((sortByAny t.anyKey (t.bindings.filter fun b => keysMatch t.anyKey b.keys keys)).filter
      fun b => evalF t s env b.filter) := List.Pairwise.filter _ (desc_sortByAny _ _)
  apply desc_getLast _ _ hd b h x
  rw [List.mem_filter, mem_sortByAny, List.mem_filter]
  exact ⟨⟨hx, hkm⟩, hev⟩

theorem getMatches_nonempty (t : Tbl) (s : Sk) (env : Env) (keys : List Key) (x : Binding)
    (hx : x ∈ t.bindings) (hkm : keysMatch t.anyKey x.keys keys = true) (hev : evalF t s env x.filter = true) :
    ∃ b, (getMatches t s env keys).getLast? = some b := by
  have hm : x ∈ getMatches t s env keys := by
    unfold getMatches
    rw [List.mem_filter, mem_sortByAny, List.mem_filter]
    exact ⟨⟨hx, hkm⟩, hev⟩
  cases hl : (getMatches t s env keys).getLast? with
  | some b => exact ⟨b, rfl⟩
  | none =>
    rw [List.getLast?_eq_none_iff] at hl
    rw [hl] at hm; simp at hm

end Skel
end Ptk.C05

namespace Ptk.C05
namespace Skel

/-- the side conditions on a binding table under which Escape (key `esc`) leads to navigation mode -/
def escOK (t : Tbl) (esc : Key) : Bool :=
  -- no binding that can be active in Vi mode continues a key sequence that starts with Escape
  (t.bindings.all fun b => !(prefixMatch t.anyKey b.keys [esc]) || conjHas t .emacsMode b.filter) &&
  -- a binding that accepts [Escape] is eager only in Emacs mode or inside a quoted insert
  (t.bindings.all fun b => !(keysMatch t.anyKey b.keys [esc]) || b.eager == .ff ||
      conjHas t .emacsMode b.filter || conjHas t .inQuotedInsert b.filter) &&
  -- the bindings of exactly [Escape]: Emacs ones, `_back_to_navigation`, or leaving a search
  (t.bindings.all fun b => !(b.keys == [esc]) || conjHas t .emacsMode b.filter ||
      classOf t b.handler == .backToNav ||
      ((classOf t b.handler == .acceptSearch || classOf t b.handler == .stopSearch) &&
        conjHas t .isSearching b.filter)) &&
  -- `_back_to_navigation` is bound to [Escape] whenever Vi mode is on and a buffer has the focus
  (t.bindings.any fun b => b.keys == [esc] && classOf t b.handler == .backToNav &&
      conjOnly t (fun a => a == .viMode || a == .bufferHasFocus) b.filter) &&
  esc != t.anyKey && esc != flushKey

/-- what the property asks of the state after Escape -/
def NavClean (s : Sk) : Prop :=
  s.mode = .navigation ∧ s.op = none ∧ s.opArg = false ∧ s.dgWait = false ∧ s.dg1 = false

theorem setMode_nav_clean (s : Sk) : NavClean (setMode s .navigation) := by
  simp [NavClean, setMode]

theorem callHandler_escape (c : HClass) (keys : List KeyP) (hd : HData) (enter : Key) (s : Sk)
    (hc : c = .backToNav ∨ ((c = .acceptSearch ∨ c = .stopSearch) ∧ s.searching = true)) :
    NavClean (callHandler c keys hd enter s) ∧ (callHandler c keys hd enter s).keyBuf = s.keyBuf ∧
    (callHandler c keys hd enter s).queue = s.queue ∧ (callHandler c keys hd enter s).arg = none ∧
    (s.vi = true → (callHandler c keys hd enter s).tempNav = false) ∧
    (callHandler c keys hd enter s).quoted = s.quoted ∧ (callHandler c keys hd enter s).vi = s.vi := by
  obtain ⟨vi, ro, mode, tempNav, op, opArg, dgWait, dg1, sel0, sel1, searching, quoted, recording, emacsRec, arg,
    keyBuf, queue, done⟩ := s
  obtain ⟨tc0, tc1, roRaised, anchorWritten, hdone, moved, atAnchor, textEmpty⟩ := hd
  rcases hc with rfl | ⟨rfl | rfl, hs⟩ <;>
    cases searching <;> cases tc0 <;> cases tc1 <;> cases tempNav <;> cases vi <;>
    simp_all [callHandler, effect, stopSearch, setMode, applyTc, leaveTempNav, NavClean, Sk.setCurSel,
      HClass.editsText, HClass.mayFinish]

/-- `_process` with nothing longer pending and no eager match: the last exact match is called and
    the key buffer is emptied -/
theorem processLoop_call (t : Tbl) (ki : KeyIn) (fuel : Nat) (r : Run) (b : Binding)
    (hbuf : r.s.keyBuf.isEmpty = false)
    (hpre : isPrefixOfLonger t r.s (ki.envAt r.calls.length) (r.s.keyBuf.map (·.key)) = false)
    (heg : ((getMatches t r.s (ki.envAt r.calls.length) (r.s.keyBuf.map (·.key))).filter
              fun b => evalF t r.s (ki.envAt r.calls.length) b.eager) = [])
    (hlast : (getMatches t r.s (ki.envAt r.calls.length) (r.s.keyBuf.map (·.key))).getLast? = some b) :
    processLoop t ki (fuel + 1) r false =
      { (callBinding t ki b r.s.keyBuf r) with s := { (callBinding t ki b r.s.keyBuf r).s with keyBuf := [] } } := by
  rw [processLoop]
  simp only [selectMatches, hbuf, heg, hpre, List.isEmpty_nil, Bool.false_eq_true, if_false, if_true]
  rw [hlast]

theorem escOK_parts (t : Tbl) (esc : Key) (h : escOK t esc = true) :
    (∀ b ∈ t.bindings, prefixMatch t.anyKey b.keys [esc] = true → conjHas t .emacsMode b.filter = true) ∧
    (∀ b ∈ t.bindings, keysMatch t.anyKey b.keys [esc] = true → b.eager = .ff ∨
        conjHas t .emacsMode b.filter = true ∨ conjHas t .inQuotedInsert b.filter = true) ∧
    (∀ b ∈ t.bindings, b.keys = [esc] → conjHas t .emacsMode b.filter = true ∨
        classOf t b.handler = .backToNav ∨
        ((classOf t b.handler = .acceptSearch ∨ classOf t b.handler = .stopSearch) ∧
          conjHas t .isSearching b.filter = true)) ∧
    (∃ b ∈ t.bindings, b.keys = [esc] ∧ classOf t b.handler = .backToNav ∧
        conjOnly t (fun a => a == .viMode || a == .bufferHasFocus) b.filter = true) ∧
    esc ≠ t.anyKey ∧ esc ≠ flushKey := by
  simp only [escOK, Bool.and_eq_true, List.all_eq_true, List.any_eq_true, Bool.or_eq_true, Bool.not_eq_true',
    beq_iff_eq, bne_iff_ne, ne_eq] at h
  obtain ⟨⟨⟨⟨⟨h1, h2⟩, h3⟩, h4⟩, h5⟩, h6⟩ := h
  refine ⟨?_, ?_, ?_, ?_, h5, h6⟩
  · intro b hb hp
    rcases h1 b hb with h | h
    · rw [hp] at h; cases h
    · exact h
  · intro b hb hk
    rcases h2 b hb with ((h | h) | h) | h
    · rw [hk] at h; cases h
    · exact Or.inl h
    · exact Or.inr (Or.inl h)
    · exact Or.inr (Or.inr h)
  · intro b hb hk
    rcases h3 b hb with ((h | h) | h) | h
    · rw [hk] at h; simp at h
    · exact Or.inl h
    · exact Or.inr (Or.inl h)
    · exact Or.inr (Or.inr h)
  · obtain ⟨b, hb, hh⟩ := h4
    exact ⟨b, hb, hh.1.1, hh.1.2, hh.2⟩

/-- `_process` with exactly Escape in the key buffer, Vi mode, no quoted insert: one handler is
    called, it is `_back_to_navigation` or (while searching) one that leaves the search. -/
theorem processLoop_escape (t : Tbl) (esc : Key) (hok : escOK t esc = true) (ki : KeyIn) (fuel : Nat) (r : Run)
    (k : KeyP) (hk : k.key = esc) (hbuf : r.s.keyBuf = [k]) (hvi : r.s.vi = true) (hq : r.s.quoted = false) :
    ∃ b, processLoop t ki (fuel + 1) r false =
          { (callBinding t ki b [k] r) with s := { (callBinding t ki b [k] r).s with keyBuf := [] } } ∧
      (classOf t b.handler = .backToNav ∨
        ((classOf t b.handler = .acceptSearch ∨ classOf t b.handler = .stopSearch) ∧ r.s.searching = true)) := by
  obtain ⟨h1, h2, h3, ⟨b0, hb0, hk0, hc0, hf0⟩, hany, _⟩ := escOK_parts t esc hok
  have hemacs : evalAtomSk r.s .emacsMode = false := by simp [evalAtomSk, hvi]
  have hkeys : r.s.keyBuf.map (·.key) = [esc] := by simp [hbuf, hk]
  -- the filter of `b0` holds
  have hev0 : evalF t r.s (ki.envAt r.calls.length) b0.filter = true := by
    apply conjOnly_sound t r.s _ _ _ b0.filter hf0
    intro a ha
    simp only [Bool.or_eq_true, beq_iff_eq] at ha
    rcases ha with rfl | rfl
    · exact ⟨by decide, by simp [evalAtomSk, hvi]⟩
    · exact ⟨by decide, by simp [evalAtomSk]⟩
  have hkm0 : keysMatch t.anyKey b0.keys [esc] = true := by rw [hk0]; exact keysMatch_self _ _
  obtain ⟨b, hlast⟩ := getMatches_nonempty t r.s (ki.envAt r.calls.length) [esc] b0 hb0 hkm0 hev0
  obtain ⟨hb, hkm, hev, hmin⟩ := getMatches_last t r.s _ [esc] b hlast
  have hcnt : anyCount t.anyKey b = 0 := by
    have := hmin b0 hb0 hkm0 hev0
    rw [anyCount_single t.anyKey b0 esc hk0 hany] at this
    omega
  have hbk : b.keys = [esc] := keys_eq_of_anyCount_zero t.anyKey b esc hkm hcnt
  refine ⟨b, ?_, ?_⟩
  · have := processLoop_call t ki fuel r b (by simp [hbuf]) ?_ ?_ (by rw [hkeys]; exact hlast)
    · rw [this, hbuf]
    · -- nothing longer is pending
      rw [hkeys]
      unfold isPrefixOfLonger
      rw [List.any_eq_false]
      intro x hx
      simp only [Bool.and_eq_true, not_and, Bool.not_eq_true]
      intro hp
      cases hfx : evalF t r.s (ki.envAt r.calls.length) x.filter with
      | false => rfl
      | true =>
        have := conjHas_sound t r.s _ .emacsMode (by decide) x.filter (h1 x hx hp) hfx
        rw [hemacs] at this; cases this
    · -- no eager match
      rw [hkeys, List.filter_eq_nil_iff]
      intro x hx
      unfold getMatches at hx
      rw [List.mem_filter, mem_sortByAny, List.mem_filter] at hx
      rcases h2 x hx.1.1 hx.1.2 with h | h | h
      · rw [h]; simp [evalF]
      · have := conjHas_sound t r.s _ .emacsMode (by decide) x.filter h hx.2
        rw [hemacs] at this; cases this
      · have := conjHas_sound t r.s _ .inQuotedInsert (by decide) x.filter h hx.2
        simp [evalAtomSk, hq] at this
  · rcases h3 b hb hbk with h | h | ⟨h, hs⟩
    · have := conjHas_sound t r.s _ .emacsMode (by decide) b.filter h hev
      rw [hemacs] at this; cases this
    · exact Or.inl h
    · refine Or.inr ⟨h, ?_⟩
      have := conjHas_sound t r.s _ .isSearching (by decide) b.filter hs hev
      simpa [evalAtomSk] using this

theorem processQueue_nil (t : Tbl) (ki : KeyIn) (n : Nat) (r : Run) (hq : r.s.queue = []) :
    processQueue t ki n r = r := by
  cases n with
  | zero => rfl
  | succ n => rw [processQueue]; split; rfl; rw [hq]

theorem processQueue_cons (t : Tbl) (ki : KeyIn) (n : Nat) (r : Run) (k : KeyP) (rest : List KeyP)
    (hd : r.s.done = false) (hq : r.s.queue = k :: rest) :
    processQueue t ki (n + 1) r = processQueue t ki n (processKey t ki { r with s := { r.s with queue := rest } } k) := by
  rw [processQueue]
  simp only [hd, Bool.false_eq_true, if_false]
  rw [hq]

theorem processKey_key (t : Tbl) (ki : KeyIn) (r : Run) (k : KeyP) (hk : k.key ≠ flushKey) :
    processKey t ki r k =
      processLoop t ki ((r.s.keyBuf ++ [k]).length + 1) { r with s := { r.s with keyBuf := r.s.keyBuf ++ [k] } } false := by
  rw [processKey]
  have : (k.key == flushKey) = false := by simpa using hk
  simp only [this, Bool.false_eq_true, if_false]

/-- **Escape**: for ANY skeleton state in Vi mode with no quoted insert and nothing pending in the key
    processor, feeding Escape calls exactly one handler and ends in navigation mode with no pending
    operator, operator count or digraph — whatever the data. -/
theorem feed_escape (t : Tbl) (esc : Key) (hok : escOK t esc = true) (s : Sk) (ki : KeyIn)
    (hkey : ki.key.key = esc) (hfl : ki.flush = false) (hvi : s.vi = true) (hq : s.quoted = false)
    (hbuf : s.keyBuf = []) (hqueue : s.queue = []) (hdone : s.done = false) :
    NavClean (feed t s ki).s ∧ (feed t s ki).s.keyBuf = [] ∧ (feed t s ki).s.queue = [] ∧
    (feed t s ki).s.tempNav = false ∧ (feed t s ki).s.arg = none ∧ (feed t s ki).s.quoted = false ∧
    (feed t s ki).s.vi = true ∧ (feed t s ki).calls.length = 1 := by
  have hne : esc ≠ flushKey := (escOK_parts t esc hok).2.2.2.2.2
  have hkf : ki.key.key ≠ flushKey := by rw [hkey]; exact hne
  -- the run after the key was appended to the key buffer
  generalize hr1 : ({ s := { s with queue := [], keyBuf := s.keyBuf ++ [ki.key] }, calls := [] } : Run) = r1
  have hr1s : r1.s.keyBuf = [ki.key] ∧ r1.s.vi = true ∧ r1.s.quoted = false ∧ r1.s.queue = [] ∧ r1.calls = [] := by
    subst hr1; simp [hbuf, hvi, hq]
  obtain ⟨b, hloop, hcls⟩ := processLoop_escape t esc hok ki ((s.keyBuf ++ [ki.key]).length) r1 ki.key hkey hr1s.1
    hr1s.2.1 hr1s.2.2.1
  have hcall := callHandler_escape (classOf t b.handler) [ki.key] (ki.hdAt r1.calls.length) t.enterKey r1.s hcls
  have hfeed : feed t s ki =
      { (callBinding t ki b [ki.key] r1) with s := { (callBinding t ki b [ki.key] r1).s with keyBuf := [] } } := by
    unfold feed
    simp only [hfl, queueFuel, Bool.false_eq_true, if_false]
    rw [processQueue_cons t ki 11 _ ki.key [] (by simpa using hdone) (by simp [hqueue])]
    rw [processKey_key t ki _ ki.key hkf]
    simp only []
    rw [hr1, hloop]
    apply processQueue_nil
    simp only [callBinding]
    rw [hcall.2.2.1]; exact hr1s.2.2.2.1
  rw [hfeed]
  refine ⟨hcall.1, rfl, ?_, hcall.2.2.2.2.1 hr1s.2.1, hcall.2.2.2.1, ?_, ?_, ?_⟩
  · exact hcall.2.2.1.trans hr1s.2.2.2.1
  · exact hcall.2.2.2.2.2.1.trans hr1s.2.2.1
  · exact hcall.2.2.2.2.2.2.trans hr1s.2.1
  · simp [callBinding, hr1s.2.2.2.2]

end Skel
end Ptk.C05
