/-
  C14 — yank-nth-arg / yank-last-arg (`Buffer.yank_nth_arg`, emacs `escape c-y`, `escape .`,
  `escape _`): they READ `History.get_strings()` and write only into the current working copy.
-/
import Ptk.Props.C14
set_option linter.unusedSimpArgs false
namespace Ptk.C14
open Ptk.Py

/-! ## 1. The word splitter loses nothing -/

theorem takeWhile_append_drop {α : Type} (p : α → Bool) : ∀ l : List α,
    l.takeWhile p ++ l.drop (l.takeWhile p).length = l
  | [] => rfl
  | a :: l => by
    by_cases h : p a
    · simp [List.takeWhile, h, takeWhile_append_drop p l]
    · simp [List.takeWhile, h]

theorem quotedLen_le (q : Char) (t : Text) (n : Nat) (h : quotedLen q t = some n) : 2 ≤ n ∧ n ≤ t.length := by
  cases t with
  | nil => simp [quotedLen] at h
  | cons c rest =>
    simp only [quotedLen] at h
    split at h
    · cases h
    · split at h
      · next d tl hd =>
        split at h
        · cases h
          have hl : (rest.drop (rest.takeWhile (fun x => x != q && x != '\n')).length).length = tl.length + 1 := by
            rw [hd]; rfl
          simp only [List.length_drop] at hl
          simp only [List.length_cons]
          omega
        · cases h
      · cases h

/-- `re.split` with a capturing group: the pieces, concatenated, are the line again -/
theorem splitQuoted_flatten (reSp : Char → Bool) : ∀ (fuel : Nat) (t chunk : Text), t.length ≤ fuel →
    (splitQuoted reSp fuel t chunk).flatten = chunk.reverse ++ t := by
  intro fuel
  induction fuel with
  | zero =>
    intro t chunk h
    have : t = [] := List.eq_nil_of_length_eq_zero (by omega)
    simp [splitQuoted, this]
  | succ fuel ih =>
    intro t chunk h
    cases t with
    | nil => simp [splitQuoted]
    | cons c rest =>
      simp only [splitQuoted]
      split
      · next hc =>
        have hlen : 1 ≤ ((c :: rest).takeWhile reSp).length := by simp [List.takeWhile, hc]
        rw [List.flatten_cons, List.flatten_cons, ih _ [] (by simp only [List.length_drop]; simp at h ⊢; omega)]
        simp only [List.reverse_nil, List.nil_append]
        rw [takeWhile_append_drop]
      · split
        · next n hq =>
          have hn : 2 ≤ n ∧ n ≤ (c :: rest).length := by
            cases h1 : quotedLen '"' (c :: rest) with
            | some m => simp [h1, Option.orElse] at hq; subst hq; exact quotedLen_le _ _ _ h1
            | none => simp [h1, Option.orElse] at hq; exact quotedLen_le _ _ _ hq
          rw [List.flatten_cons, List.flatten_cons, ih _ [] (by simp only [List.length_drop]; simp at h hn ⊢; omega)]
          simp
        · rw [ih rest (c :: chunk) (by simp at h; omega)]
          simp

theorem quotedWords_nonempty (reSp isSp : Char → Bool) (line : Text) : ∀ w ∈ quotedWords reSp isSp line, w ≠ [] := by
  intro w hw
  simp only [quotedWords, List.mem_filter] at hw
  simpa using hw.2

/-! ## 2. Reading the history: which word -/

/-- the lookup is a function of `get_strings()` and the saved state only -/
theorem yankLookup_congr (words : Text → List Text) (s t : St) (n : Option Int) (last : Bool)
    (hh : t.hist = s.hist) (hy : t.yank = s.yank) : yankLookup words t n last = yankLookup words s n last := by
  simp only [yankLookup, hh, hy]

/-- nothing loaded yet (or an empty history): the command does nothing at all -/
theorem yank_empty_history (v : Validator) (env : Env) (s : St) (n : Option Int) (last : Bool)
    (h : s.hist = []) : (step v s (yankOp env s n last)).1 = s := by
  have : yankOp env s n last = .setEhs s.ehs := by simp [yankOp, yankLookup, h]
  rw [this]; simp only [step]

/-- with `k` entries loaded, the i-th consecutive call (no argument) reads entry `k - 1 - (i mod k)`:
    first call → the newest entry -/
theorem yank_first_reads_newest (words : Text → List Text) (s : St) (last : Bool) (hy : s.yank = none)
    (x : Text) (hl : s.hist.getLast? = some x) :
    ∃ k, yankLookup words s none last = some (-1, k, (index? (words x) k).getD []) ∧
      k = (if last then -1 else 1) := by
  have hne : s.hist ≠ [] := by intro h; simp [h] at hl
  have hx : index? s.hist (-1) = some x := by
    have hlen : 0 < s.hist.length := List.length_pos_iff.mpr hne
    simp only [index?]
    rw [if_pos (by omega), if_neg (by omega)]
    rw [List.getLast?_eq_getElem?] at hl
    have : ((-1 : Int) + (s.hist.length : Int)).toNat = s.hist.length - 1 := by omega
    rw [this]; exact hl
  refine ⟨if last then -1 else 1, ?_, rfl⟩
  simp only [yankLookup, hne, if_false, hy, Option.getD_none]
  have : ¬ (-((0 : Int) - 1) > (s.hist.length : Int)) := by
    have : 0 < s.hist.length := List.length_pos_iff.mpr hne
    omega
  simp only [this, if_false]
  have e : (0 : Int) - 1 = -1 := by omega
  rw [e, hx]
  rfl

/-! ## 3. Writing: only the current working copy -/

/-- **yank_never_alters_history** — a yank key changes neither the stored history nor what
    `get_strings()` returns nor any working copy other than the current one, and stays on the
    same entry. -/
theorem yank_key_frame (v : Validator) (env : Env) (s : St) (k : Key)
    (hk : (∃ a, k = .yankNth a) ∨ (∃ a, k = .yankLast a)) :
    (keyStep v env s k).2 = .none ∧
    (keyStep v env s k).1.storage = s.storage ∧ (keyStep v env s k).1.hist = s.hist ∧
    (keyStep v env s k).1.idx = s.idx ∧
    ∀ j, j ≠ s.idx → (keyStep v env s k).1.work[j]? = s.work[j]? := by
  obtain ⟨a, last, hop⟩ : ∃ a last, keyOp env s k = yankOp env s a last := by
    rcases hk with ⟨a, rfl⟩ | ⟨a, rfl⟩
    · exact ⟨a, false, rfl⟩
    · exact ⟨a, true, rfl⟩
  have hv := afterKey_valOnly v (step v s (keyOp env s k)).1 (step v s (keyOp env s k)).2
  obtain ⟨f1, f2, _, _, f5, f6, _⟩ := hv.fields
  simp only [keyStep]
  rw [f6, f5, f2, f1, hop]
  rcases yankOp_cases env s a last with ⟨p, n, w, e⟩ | e <;> rw [e]
  · obtain ⟨e1, e2, e3, _, e5⟩ := edit_only_at_idx v s (.yankApply p n w) rfl
    exact ⟨rfl, e1, e2, e3, e5⟩
  · exact ⟨rfl, rfl, rfl, rfl, fun _ _ => rfl⟩

/-! ## 4. Rotating: the previously inserted word is replaced -/

/-- what `yank_nth_arg` relies on: the word it inserted last still stands right before the cursor -/
def YInv (s : St) : Prop := yankPrev s <:+ s.text.take s.cur

/-- an operation either forgets the yank state or leaves it, the text and the cursor alone -/
def YKeep (s t : St) : Prop := t.yank = none ∨ (t.yank = s.yank ∧ t.text = s.text ∧ t.cur = s.cur)

theorem YKeep.refl (s : St) : YKeep s s := Or.inr ⟨rfl, rfl, rfl⟩
theorem YKeep.trans {a b c : St} (h1 : YKeep a b) (h2 : YKeep b c) : YKeep a c := by
  rcases h2 with h2 | ⟨x, y, z⟩
  · exact Or.inl h2
  · rcases h1 with p | ⟨p, q, r⟩
    · exact Or.inl (x.trans p)
    · exact Or.inr ⟨x.trans p, y.trans q, z.trans r⟩

theorem yinv_keep (s t : St) (hk : YKeep s t) (h : YInv s) : YInv t := by
  rcases hk with h1 | ⟨h1, h2, h3⟩
  · simp [YInv, yankPrev, h1]
  · simp only [YInv, yankPrev, h1, h2, h3]; exact h

theorem setCursorPos_ykeep (s : St) (c : Int) : YKeep s (setCursorPos s c) := by
  simp only [setCursorPos]; split
  · exact YKeep.refl s
  · exact Or.inl rfl

theorem setHistorySearch_ykeep (s : St) : YKeep s (setHistorySearch s) := by
  right; simp only [setHistorySearch]; repeat' (first | exact ⟨rfl, rfl, rfl⟩ | split)

theorem ykeep_none_setCursorPos (t : St) (c : Int) (h : t.yank = none) : (setCursorPos t c).yank = none := by
  simp only [setCursorPos]; split
  · exact h
  · rfl

theorem historyBackward_ykeep (s : St) (c : Int) : YKeep s (historyBackward s c) := by
  rw [historyBackward_eq]
  split
  · exact setHistorySearch_ykeep s
  · exact Or.inl (ykeep_none_setCursorPos _ _ rfl)

theorem historyForward_ykeep (s : St) (c : Int) : YKeep s (historyForward s c) := by
  rw [historyForward_eq]
  split
  · exact setHistorySearch_ykeep s
  · exact Or.inl (ykeep_none_setCursorPos _ _ (ykeep_none_setCursorPos _ _ rfl))

theorem goToHistory_ykeep (s : St) (i : Nat) : YKeep s (goToHistory s i) := by
  simp only [goToHistory]; split
  · by_cases e : s.idx = i
    · simp only [setWorkingIndex, e, if_true]; exact setCursorPos_ykeep _ _
    · rw [setWorkingIndex_ne s i e]; exact Or.inl (ykeep_none_setCursorPos _ _ rfl)
  · exact YKeep.refl s

theorem goToHistoryFixed_ykeep (s : St) (i : Nat) : YKeep s (goToHistoryFixed s i) := by
  simp only [goToHistoryFixed]; split
  · rcases goToHistory_ykeep s i with a | ⟨a, b, c⟩
    · exact Or.inl a
    · exact Or.inr ⟨a, b, c⟩
  · exact YKeep.refl s

theorem withPref_ykeep (s t : St) (p : Option Nat) (h : YKeep s t) : YKeep s { t with pref := p } := by
  rcases h with h | ⟨a, b, c⟩
  · exact Or.inl h
  · exact Or.inr ⟨a, b, c⟩

theorem cursorUp_ykeep (s s' : St) (c : Int) (h : cursorUp s c = some s') : YKeep s s' := by
  simp only [cursorUp] at h; split at h
  · cases h
  · cases h; exact withPref_ykeep _ _ _ (setCursorPos_ykeep s _)

theorem cursorDown_ykeep (s s' : St) (c : Int) (h : cursorDown s c = some s') : YKeep s s' := by
  simp only [cursorDown] at h; split at h
  · cases h
  · cases h; exact withPref_ykeep _ _ _ (setCursorPos_ykeep s _)

theorem autoUpPos_ykeep (s s' : St) (c : Int) (g : Bool) (h : autoUpPos s c g = some s') : YKeep s s' := by
  simp only [autoUpPos] at h; split at h
  · exact cursorUp_ykeep s s' c h
  · cases h
    show YKeep s (if g = true then home (historyBackward s c) else historyBackward s c)
    split
    · exact (historyBackward_ykeep s c).trans (setCursorPos_ykeep _ _)
    · exact historyBackward_ykeep s c

theorem autoDownPos_ykeep (s s' : St) (c : Int) (g : Bool) (h : autoDownPos s c g = some s') : YKeep s s' := by
  simp only [autoDownPos] at h; split at h
  · exact cursorDown_ykeep s s' c h
  · cases h
    show YKeep s (if g = true then home (historyForward s c) else historyForward s c)
    split
    · exact (historyForward_ykeep s c).trans (setCursorPos_ykeep _ _)
    · exact historyForward_ykeep s c

theorem setDocument_ykeep (s : St) (t : Text) (c : Nat) (hwf : WF s) (hc : c ≤ t.length) :
    YKeep s (setDocument s t c) := by
  have hw := (setDocument_wf s t c hwf hc).2.1
  by_cases ht : t = s.text
  · by_cases hcc : c = s.cur
    · right; subst ht; subst hcc
      refine ⟨?_, hw, ?_⟩ <;> simp [setDocument]
    · left; simp only [setDocument]; simp [hcc]
  · left; simp only [setDocument]; simp [ht]; split <;> simp [textChanged]

theorem setText_ykeep (s : St) (t : Text) (hwf : WF s) : YKeep s (setText s t) := by
  have hw := (setText_wf s t hwf).2
  by_cases ht : t = s.text
  · right; subst ht
    have hc : ¬ s.cur > s.text.length := by have := hwf.2; omega
    refine ⟨?_, hw, ?_⟩ <;> simp [setText, hc]
  · left; simp only [setText]; split <;> simp [ht, textChanged]

theorem validate_ykeep (v : Validator) (s : St) (b : Bool) : YKeep s (validate v s b).1 := by
  rcases validate_cases v s b with ⟨_, hh⟩ | ⟨_, e, _, hh⟩ | ⟨_, _, hh⟩ <;> rw [hh]
  · exact YKeep.refl s
  · cases b
    · exact Or.inr ⟨rfl, rfl, rfl⟩
    · rcases setCursorPos_ykeep s (min (max 0 e) s.text.length) with h | ⟨a, b, c⟩
      · exact Or.inl h
      · exact Or.inr ⟨a, by simp [St.text], c⟩
  · exact Or.inr ⟨rfl, rfl, rfl⟩

theorem appendToHistory_ykeep (s : St) : YKeep s (appendToHistory s) := by
  right; simp only [appendToHistory]; repeat' (first | exact ⟨rfl, rfl, rfl⟩ | split)

theorem validateAndHandle_ykeep (v : Validator) (s : St) (keep : Bool) :
    YKeep s (validateAndHandle v s keep).1 := by
  simp only [validateAndHandle]
  split
  · split
    · exact (validate_ykeep v s true).trans (appendToHistory_ykeep _)
    · exact Or.inl rfl
  · exact validate_ykeep v s true

theorem valOnly_ykeep {s t : St} (h : ValOnly s t) : YKeep s t := by
  refine Or.inr ⟨?_, h.text, h.fields.2.2.1⟩
  unfold ValOnly at h; rw [h]

/-- every operation but the yank itself forgets or keeps -/
theorem step_ykeep (v : Validator) (s : St) (op : Op) (hwf : WF s) (hy : ∀ p n w, op ≠ .yankApply p n w) :
    YKeep s (step v s op).1 := by
  cases op <;> simp only [step]
  · exact setDocument_ykeep s _ _ hwf (by simp; have := hwf.2; omega)
  · simp only [deleteBefore]; split
    · exact setDocument_ykeep s _ _ hwf (by simp; have := hwf.2; omega)
    · exact YKeep.refl s
  · exact setText_ykeep s _ hwf
  · exact setCursorPos_ykeep _ _
  · exact setCursorPos_ykeep _ _
  · exact setCursorPos_ykeep _ _
  · exact setCursorPos_ykeep _ _
  · exact setCursorPos_ykeep _ _
  · exact historyBackward_ykeep _ _
  · exact historyForward_ykeep _ _
  · exact goToHistory_ykeep _ _
  · exact (historyForward_ykeep s _).trans (goToHistory_ykeep _ _)
  · next c g =>
    cases hr : autoUp s c g with
    | none => exact YKeep.refl s
    | some s' =>
      rcases autoUp_cases s s' c g hr with rfl | hr | hr
      · exact YKeep.refl _
      · exact autoUpPos_ykeep s s' c g hr
      · exact autoDownPos_ykeep s s' _ g hr
  · next c g =>
    cases hr : autoDown s c g with
    | none => exact YKeep.refl s
    | some s' =>
      rcases autoDown_cases s s' c g hr with rfl | hr | hr
      · exact YKeep.refl _
      · exact autoDownPos_ykeep s s' c g hr
      · exact autoUpPos_ykeep s s' _ g hr
  · exact Or.inr ⟨rfl, rfl, rfl⟩
  · exact Or.inr ⟨rfl, rfl, rfl⟩
  · exact validate_ykeep v s _
  · exact valOnly_ykeep (asyncValidate_valOnly v s)
  · exact valOnly_ykeep (vStart_valOnly v s)
  · exact valOnly_ykeep (vFinish_valOnly v s)
  · next keep =>
    have key := validateAndHandle_ykeep v s keep
    cases hr : validateAndHandle v s keep with
    | mk s' r => cases r <;> simp [hr] at key ⊢ <;> exact key
  · exact appendToHistory_ykeep s
  · exact Or.inl rfl
  · exact Or.inl rfl
  · right; simp only [startLoad]; split <;> simp [St.text]
  · right; simp only [loadOne]; split <;> simp [St.text]
  · exact valOnly_ykeep (appExit_valOnly s)
  · rw [← step, step_operateNext]
    rcases validateAndHandle_ykeep v s true with h | ⟨a, b, c⟩
    · exact Or.inl h
    · exact Or.inr ⟨a, b, c⟩
  · next p n w => exact absurd rfl (hy p n w)
  · exact goToHistoryFixed_ykeep _ _
  · exact (historyForward_ykeep s _).trans (goToHistoryFixed_ykeep _ _)

theorem insertText_text (s : St) (d : Text) (h : WF s) :
    (insertText s d).text = s.text.take s.cur ++ d ++ s.text.drop s.cur ∧
    (insertText s d).cur = s.cur + d.length := by
  have hw := setDocument_wf s (s.text.take s.cur ++ d ++ s.text.drop s.cur) (s.cur + d.length) h
    (by simp; have := h.2; omega)
  refine ⟨hw.2.1, ?_⟩
  simp only [insertText, setDocument]
  repeat' (first | rfl | split)

theorem deleteBefore_text (s : St) (n : Nat) (h : WF s) (hn : n ≤ s.cur) :
    (deleteBefore s n).text = s.text.take (s.cur - n) ++ s.text.drop s.cur ∧
    (deleteBefore s n).cur = s.cur - n := by
  simp only [deleteBefore]
  split
  · have hm : min n s.cur = n := by omega
    have hw := setDocument_wf s (s.text.take (s.cur - min n s.cur) ++ s.text.drop s.cur) (s.cur - min n s.cur) h
      (by simp; have := h.2; omega)
    rw [hm] at hw ⊢
    refine ⟨hw.2.1, ?_⟩
    simp only [setDocument]
    repeat' (first | rfl | split)
  · next hc =>
    have h0 : s.cur = 0 := by omega
    have hn0 : n = 0 := by omega
    simp [h0, hn0]

/-- **yank_replaces_previous_word** — in a state where the previously yanked word still stands
    before the cursor (`YInv`, an invariant), the next yank removes exactly that word and puts
    the new one in its place; nothing else of the text changes. -/
theorem yankApply_text (s : St) (p n : Int) (w : Text) (h : WF s) (hy : YInv s) :
    (yankApply s p n w).text =
      s.text.take (s.cur - (yankPrev s).length) ++ w ++ s.text.drop s.cur ∧
    (yankApply s p n w).cur = s.cur - (yankPrev s).length + w.length ∧
    yankPrev (yankApply s p n w) = w := by
  have hlen : (yankPrev s).length ≤ s.cur := by
    have := hy.length_le
    simp only [List.length_take] at this
    omega
  have hb : (yankBase s).text = s.text.take (s.cur - (yankPrev s).length) ++ s.text.drop s.cur ∧
      (yankBase s).cur = s.cur - (yankPrev s).length := by
    simp only [yankBase]
    split
    · exact deleteBefore_text s _ h hlen
    · next hp =>
      have : yankPrev s = [] := by simpa using hp
      simp [this]
  have hwb := yankBase_wf s h
  obtain ⟨t1, t2⟩ := insertText_text (yankBase s) w hwb
  have hc : s.cur ≤ s.text.length := h.2
  refine ⟨?_, ?_, rfl⟩
  · show (insertText (yankBase s) w).text = _
    rw [t1, hb.1, hb.2]
    have hl : (s.text.take (s.cur - (yankPrev s).length)).length = s.cur - (yankPrev s).length := by
      simp only [List.length_take]; omega
    rw [List.take_append_of_le_length (by omega), List.take_of_length_le (by omega)]
    rw [List.drop_append_of_le_length (by omega), List.drop_of_length_le (by omega)]
    simp
  · show (insertText (yankBase s) w).cur = _
    rw [t2, hb.2]

theorem yankApply_yinv (s : St) (p n : Int) (w : Text) (h : WF s) (hy : YInv s) : YInv (yankApply s p n w) := by
  obtain ⟨a, b, c⟩ := yankApply_text s p n w h hy
  simp only [YInv, c, a, b]
  have hc : s.cur ≤ s.text.length := h.2
  have hl : (s.text.take (s.cur - (yankPrev s).length) ++ w).length = s.cur - (yankPrev s).length + w.length := by
    simp only [List.length_append, List.length_take]; omega
  rw [List.append_assoc, ← List.append_assoc, List.take_append_of_le_length (by omega),
    List.take_of_length_le (by omega)]
  exact List.suffix_append _ _

/-- **yank_state_invariant** — in every reachable state the word remembered by
    `yank_nth_arg_state` stands right before the cursor (any text or cursor change forgets the
    state) -/
theorem yinv_step (v : Validator) (s : St) (op : Op) (hwf : WF s) (h : YInv s) : YInv (step v s op).1 := by
  by_cases hy : ∃ p n w, op = .yankApply p n w
  · obtain ⟨p, n, w, rfl⟩ := hy
    exact yankApply_yinv s p n w hwf h
  · exact yinv_keep s _ (step_ykeep v s op hwf (fun p n w e => hy ⟨p, n, w, e⟩)) h

theorem yinv_run (v : Validator) (ops : List Op) : ∀ s : St, WF s → YInv s → (∀ op ∈ ops, op.ok) →
    YInv (run v s ops) := by
  induction ops with
  | nil => intro s _ h _; exact h
  | cons op ops ih =>
    intro s hw h hok
    exact ih _ (wf_step v s op hw (hok op (by simp))) (yinv_step v s op hw h) (fun o ho => hok o (by simp [ho]))

theorem yinv_fresh (strs : List Text) (e w a m : Bool) : YInv (St.fresh strs e w a m) := by
  simp [YInv, yankPrev, St.fresh]

/-! ## 5. Non-vacuity -/

/-- history ["ls -l /tmp", "echo 'a b' c"], loaded; `escape .` twice, then `escape c-y` with
    argument 0: last word of the newest entry, replaced by the last word of the entry before,
    replaced by word 0 of the entry before that (wrapping around to the newest) -/
example :
    let s0 := promptStart (St.fresh ["ls -l /tmp".toList, "echo 'a b' c".toList] false false) []
    let s1 := (keyStep exV exSp s0 (.char '>')).1
    let s2 := (keyStep exV exSp s1 (.yankLast none)).1
    let s3 := (keyStep exV exSp s2 (.yankLast none)).1
    let s4 := (keyStep exV exSp s3 (.yankNth (some 0))).1
    exSp.words "echo 'a b' c".toList = ["echo".toList, "'a b'".toList, "c".toList] ∧
    s2.text = ">c".toList ∧ s3.text = ">/tmp".toList ∧ s4.text = ">echo".toList ∧
    s4.yank = some { pos := -1, n := 0, prev := "echo".toList } ∧
    s4.storage = ["ls -l /tmp".toList, "echo 'a b' c".toList] ∧ s4.idx = 2 ∧
    s4.work = ["ls -l /tmp".toList, "echo 'a b' c".toList, ">echo".toList] := by decide

example : YInv (run exV (promptStart (St.fresh ["a b".toList] false false) [])
    [.insert "x".toList, .yankApply (-1) (-1) "b".toList, .left, .yankApply (-1) (-1) "b".toList]) := by
  have h0 : WF (promptStart (St.fresh ["a b".toList] false false) []) := by unfold WF; decide
  exact yinv_run exV _ _ h0 (by simp [YInv, yankPrev, promptStart, startLoad, loadAll, runPreRun, reset, appExit, St.fresh])
    (by intro op ho; simp at ho; rcases ho with rfl | rfl | rfl | rfl <;> trivial)

end Ptk.C14
