/-
  C10 part 8 — the other writers that reach the terminal.

    * `vtCall_ok`, `vtCalls_ok`, `renderer_reset_erase_ok`, `gen_emitters_ok`
          every emitter of `Vt100_Output` (mode switches, cursor moves, `cursor_goto`, cursor shapes,
          CPR request, bell) and every `Renderer.reset` / `Renderer.erase` writes a pure-ASCII
          sentence of the output grammar, in every state and for every amount / position
    * `setTitle_one_token`, `setTitle_ctrlTokens`, `setTitle_body_clean`, `setTitlePreFix_st_injects`
          `set_title` (repaired rule: C0, DEL, C1 deleted): ANY title is one OSC token; the old rule
          (ESC and BEL only) let an 8-bit ST end the sequence early
    * `dumb_no_esc`, `dumb_prompt_clean`, `dumbPreFix_injects`
          the dumb-terminal prompt (repaired: caret/hex notation)
    * `proxy_safe_no_esc`, `proxy_raw_is_marked`, `proxy_bytes_no_esc`   `patch_stdout`
    * `printPlain_adds_nothing`, `printPlain_bytes`   `print_formatted_text` on a `PlainTextOutput`
-/
import Ptk.Props.C10Grammar
import Ptk.Props.C10Wire
import Ptk.Model.C10Out
namespace Ptk.C10
open Ptk.Py

/-! ### emitters -/

/-- `ESC [ <decimal> <params> <decimal> <final>` -/
def gotoOk (pre mid suf : CText) : Bool :=
  pre == [ESC, LBRACK] && mid.all isParam && (match suf with | [f] => isFinal f | _ => false)

def fixedOk (t : CText) : Bool := parses t && isAsciiB t

/-- decidable well-formedness of the remaining emitter strings -/
def emit2Ok (G : Emit2) : Bool :=
  fixedOk G.eraseScreen && fixedOk G.enterAlt && fixedOk G.quitAlt && fixedOk G.enableMouse &&
  fixedOk G.disableMouse && fixedOk G.enableBP && fixedOk G.disableBP && fixedOk G.resetCursorKeyMode &&
  fixedOk G.askCpr && fixedOk G.bell && fixedOk G.down1 && csiAmount G.downPre G.downSuf &&
  gotoOk G.gotoPre G.gotoMid G.gotoSuf && G.shapes.all fixedOk && fixedOk G.resetShape

theorem fixedOk_spec {t : CText} (h : fixedOk t = true) : HasParse t ∧ IsAscii t := by
  simp only [fixedOk, Bool.and_eq_true] at h
  exact ⟨hasParse_of_parses h.1, (isAsciiB_iff t).mp h.2⟩

theorem params_append {a b : CText} (ha : ∀ c ∈ a, isParam c = true) (hb : ∀ c ∈ b, isParam c = true) :
    ∀ c ∈ a ++ b, isParam c = true := by
  intro c hc
  rcases List.mem_append.mp hc with h | h
  · exact ha c h
  · exact hb c h

theorem isParam_ascii {t : CText} (h : ∀ c ∈ t, isParam c = true) : IsAscii t := by
  intro c hc
  have := h c hc
  simp only [isParam, Bool.and_eq_true, decide_eq_true_eq] at this
  omega

theorem goto_ok {pre mid suf : CText} (h : gotoOk pre mid suf = true) (r c : Nat) :
    isToken (pre ++ decimal r ++ mid ++ decimal c ++ suf) = true ∧
    IsAscii (pre ++ decimal r ++ mid ++ decimal c ++ suf) := by
  simp only [gotoOk, Bool.and_eq_true, beq_iff_eq, List.all_eq_true] at h
  obtain ⟨⟨hp, hm⟩, hs⟩ := h
  subst hp
  match suf, hs with
  | [f], hs =>
    have hpar : ∀ x ∈ decimal r ++ mid ++ decimal c, isParam x = true :=
      params_append (params_append (decimal_params r) hm) (decimal_params c)
    constructor
    · have : [ESC, LBRACK] ++ decimal r ++ mid ++ decimal c ++ [f] =
          ESC :: LBRACK :: ((decimal r ++ mid ++ decimal c) ++ [f]) := by simp
      rw [this]
      simp only [isToken, if_true]
      exact csiTail_params_final _ hpar hs
    · have hf : f < 0x80 := by
        simp only [isFinal, Bool.and_eq_true, decide_eq_true_eq] at hs; omega
      have e : [ESC, LBRACK] ++ decimal r ++ mid ++ decimal c ++ [f] =
          [ESC, LBRACK] ++ ((decimal r ++ mid ++ decimal c) ++ [f]) := by simp
      rw [e]
      apply ascii_append
      · intro x hx; simp only [List.mem_cons, List.not_mem_nil, or_false] at hx
        rcases hx with rfl | rfl <;> decide
      · apply ascii_append (isParam_ascii hpar)
        intro x hx; simp only [List.mem_singleton] at hx; subst hx; exact hf

theorem csiAmount_ascii {pre suf : CText} (h : csiAmount pre suf = true) : IsAscii pre ∧ IsAscii suf := by
  simp only [csiAmount, Bool.and_eq_true, beq_iff_eq] at h
  obtain ⟨hp, hs⟩ := h
  subst hp
  match suf, hs with
  | [f], hs =>
    refine ⟨by intro x hx; simp only [List.mem_cons, List.not_mem_nil, or_false] at hx; rcases hx with rfl | rfl <;> decide, ?_⟩
    intro x hx; simp only [List.mem_singleton] at hx; subst hx
    simp only [isFinal, Bool.and_eq_true, decide_eq_true_eq] at hs; omega

/-- the emitter strings of part 4 again, now also w.r.t. grammar and ASCII -/
def emit1Ok (E : Emit) : Bool := emitParses E && emitAscii E

theorem getD_fixed {l : List CText} (h : l.all fixedOk = true) (i : Nat) : HasParse (l.getD i []) ∧ IsAscii (l.getD i []) := by
  simp only [List.getD]
  cases hi : l[i]? with
  | none => exact ⟨hasParse_nil, by intro c hc; simp at hc⟩
  | some t =>
    simp only [Option.getD_some]
    exact fixedOk_spec (List.all_eq_true.mp h t (List.mem_of_getElem? hi))

def Call.isTitle : Call → Bool
  | .setTitle _ => true
  | .clearTitle => true
  | _ => false

/-- **Every emitter call writes a pure-ASCII sentence of the output grammar** — in every state
    of the output object, for every amount, row and column, every cursor shape index. -/
theorem vtCall_ok {E : Emit} {G : Emit2} (hE : emit1Ok E = true) (hG : emit2Ok G = true) (s : VState)
    (c : Call) (hc : c.isTitle = false) :
    HasParse (vtCall E G s c).2 ∧ IsAscii (vtCall E G s c).2 := by
  simp only [emit1Ok, Bool.and_eq_true] at hE
  obtain ⟨hEp, hEa⟩ := hE
  have hEa' := hEa
  simp only [emitParses, Bool.and_eq_true] at hEp
  obtain ⟨⟨⟨⟨⟨⟨⟨⟨⟨⟨⟨⟨p1, p2⟩, p3⟩, p4⟩, p5⟩, p6⟩, p7⟩, p8⟩, p9⟩, p10⟩, p11⟩, p12⟩, p13⟩ := hEp
  simp only [emitAscii, Bool.and_eq_true, isAsciiB_iff] at hEa
  obtain ⟨⟨⟨⟨⟨⟨⟨⟨⟨⟨⟨⟨⟨⟨⟨a1, a2⟩, a3⟩, a4⟩, a5⟩, a6⟩, a7⟩, a8⟩, a9⟩, a10⟩, a11⟩, a12⟩, a13⟩, a14⟩, a15⟩, a16⟩ := hEa
  simp only [emit2Ok, Bool.and_eq_true] at hG
  obtain ⟨⟨⟨⟨⟨⟨⟨⟨⟨⟨⟨⟨⟨⟨g1, g2⟩, g3⟩, g4⟩, g5⟩, g6⟩, g7⟩, g8⟩, g9⟩, g10⟩, g11⟩, g12⟩, g13⟩, g14⟩, g15⟩ := hG
  have nil : HasParse ([] : CText) ∧ IsAscii ([] : CText) := ⟨hasParse_nil, by intro c hc; simp at hc⟩
  cases c with
  | eraseScreen => exact fixedOk_spec g1
  | enterAlt => exact fixedOk_spec g2
  | quitAlt => exact fixedOk_spec g3
  | enableMouse => exact fixedOk_spec g4
  | disableMouse => exact fixedOk_spec g5
  | enableBP => exact fixedOk_spec g6
  | disableBP => exact fixedOk_spec g7
  | resetCursorKeyMode => exact fixedOk_spec g8
  | askCpr => exact fixedOk_spec g9
  | bell =>
    simp only [vtCall]; split
    · exact fixedOk_spec g10
    · exact nil
  | goto r c => exact ⟨hasParse_token (goto_ok g13 r c).1, (goto_ok g13 r c).2⟩
  | up n => exact ⟨amountSeq_hasParse p8 p11 n, amountSeq_ascii a8 a11 a12 n⟩
  | down n =>
    have := fixedOk_spec g11
    simp only [fixedOk, Bool.and_eq_true] at g11
    exact ⟨amountSeq_hasParse g11.1 g12 n, amountSeq_ascii this.2 (csiAmount_ascii g12).1 (csiAmount_ascii g12).2 n⟩
  | fwd n => exact ⟨amountSeq_hasParse p9 p12 n, amountSeq_ascii a9 a13 a14 n⟩
  | back n => exact ⟨amountSeq_hasParse p10 p13 n, amountSeq_ascii a10 a15 a16 n⟩
  | hideCursor =>
    simp only [vtCall]; split
    · exact nil
    · exact ⟨hasParse_of_parses p1, a1⟩
  | showCursor =>
    simp only [vtCall]; split
    · exact nil
    · exact ⟨hasParse_of_parses p2, a2⟩
  | setShape i => exact getD_fixed g14 i
  | resetShape =>
    simp only [vtCall]; split
    · exact fixedOk_spec g15
    · exact nil
  | eraseEol => exact ⟨hasParse_of_parses p5, a5⟩
  | eraseDown => exact ⟨hasParse_of_parses p4, a4⟩
  | resetAttrs => exact ⟨hasParse_of_parses p3, a3⟩
  | disableWrap => exact ⟨hasParse_of_parses p6, a6⟩
  | enableWrap => exact ⟨hasParse_of_parses p7, a7⟩
  | setTitle t => simp [Call.isTitle] at hc
  | clearTitle => simp [Call.isTitle] at hc

theorem vtCalls_ok {E : Emit} {G : Emit2} (hE : emit1Ok E = true) (hG : emit2Ok G = true) (cs : List Call)
    (hc : ∀ c ∈ cs, c.isTitle = false) (s : VState) :
    HasParse (vtCalls E G s cs).2 ∧ IsAscii (vtCalls E G s cs).2 := by
  induction cs generalizing s with
  | nil => exact ⟨hasParse_nil, by intro c h; simp [vtCalls] at h⟩
  | cons c cs ih =>
    simp only [vtCalls]
    have h1 := vtCall_ok hE hG s c (hc c (by simp))
    have h2 := ih (fun x hx => hc x (by simp [hx])) (vtCall E G s c).1
    exact ⟨hasParse_append h1.1 h2.1, ascii_append h1.2 h2.2⟩

theorem reset_no_title (f : RFlags) (leaveAlt : Bool) : ∀ c ∈ (rendererReset f leaveAlt).1, c.isTitle = false := by
  intro c hc
  simp only [rendererReset, List.mem_append, List.mem_cons, List.not_mem_nil, or_false] at hc
  rcases hc with ((h | h) | h) | h
  · split at h
    · simp at h; subst h; rfl
    · simp at h
  · split at h
    · simp at h; subst h; rfl
    · simp at h
  · split at h
    · simp at h; subst h; rfl
    · simp at h
  · rcases h with rfl | rfl <;> rfl

/-- **`Renderer.reset` and `Renderer.erase`** (any flags, any cursor position, any state of the
    output object) write pure-ASCII sentences of the grammar: they can be encoded by every lawful
    codec unchanged and never leave a control sequence open. -/
theorem renderer_reset_erase_ok {E : Emit} {G : Emit2} (hE : emit1Ok E = true) (hG : emit2Ok G = true)
    (f : RFlags) (x y : Nat) (leaveAlt : Bool) (s : VState) :
    (HasParse (vtCalls E G s (rendererReset f leaveAlt).1).2 ∧ IsAscii (vtCalls E G s (rendererReset f leaveAlt).1).2) ∧
    (HasParse (vtCalls E G s (rendererErase f x y leaveAlt).1).2 ∧ IsAscii (vtCalls E G s (rendererErase f x y leaveAlt).1).2) := by
  refine ⟨vtCalls_ok hE hG _ (reset_no_title f leaveAlt) s, vtCalls_ok hE hG _ ?_ s⟩
  intro c hc
  simp only [rendererErase, List.mem_append, List.mem_cons, List.not_mem_nil, or_false] at hc
  rcases hc with h | h
  · rcases h with rfl | rfl | rfl | rfl | rfl <;> rfl
  · exact reset_no_title f leaveAlt c h

/-- the strings regenerated from the real `Vt100_Output` satisfy the side conditions -/
theorem gen_emitters_ok : emit1Ok genEmit = true ∧ emit2Ok genEmit2 = true := by decide +kernel

-- erase with cursor at (3, 12), inside the alternate screen with mouse support and bracketed paste on
example : (vtCalls genEmit genEmit2 {} (rendererErase ⟨true, true, true⟩ 3 12 true).1).2 =
    [ESC, 0x5b, 0x33, 0x44] ++ [ESC, 0x5b, 0x31, 0x32, 0x41] ++ Gen.C10.eraseDown ++ Gen.C10.resetAttrs ++
    Gen.C10.enableAutowrap ++ Gen.C10.quitAltScreen ++ Gen.C10.disableMouse ++ Gen.C10.disableBracketedPaste ++
    Gen.C10.showCursor := by
  decide +kernel

/-! ### `set_title` -/

def strBodyChar (c : CP) : Bool := c != BEL && c != ST8 && c != ESC

/-- the frame of the title sequence: `ESC <string introducer> <body characters>` … terminator -/
def titleFrameOk (G : Emit2) : Bool :=
  (match G.titlePre with
   | e :: d :: p => e == ESC && d != LBRACK && isStrIntro d && p.all strBodyChar
   | _ => false) && strTail G.titleSuf

theorem strTail_body {b : CText} (hb : ∀ c ∈ b, strBodyChar c = true) (s : CText) :
    strTail (b ++ s) = strTail s := by
  induction b with
  | nil => rfl
  | cons c cs ih =>
    have hc := hb c (by simp)
    simp only [strBodyChar, Bool.and_eq_true, bne_iff_ne, ne_eq] at hc
    obtain ⟨⟨h1, h2⟩, h3⟩ := hc
    simp only [List.cons_append, strTail, h1, h2, h3, Bool.or_self, Bool.false_eq_true, if_false,
      decide_false]
    exact ih (fun x hx => hb x (by simp [hx]))

/-- **`set_title` (as repaired): ANY title — ESC, BEL, 8-bit ST, CSI, lone surrogates, anything — is
    written as exactly ONE token of the grammar** (the OSC with the filtered title inside): nothing in
    a title can end the sequence early or start another one. -/
theorem setTitle_one_token {G : Emit2} (hG : titleFrameOk G = true) (title : CText) :
    isToken (setTitle G false title) = true := by
  simp only [titleFrameOk, Bool.and_eq_true] at hG
  obtain ⟨hpre, hsuf⟩ := hG
  simp only [setTitle, Bool.false_eq_true, if_false]
  have hbody : ∀ c ∈ title.filter (fun c => !isControl c), strBodyChar c = true := by
    intro c hc
    simp only [List.mem_filter, Bool.not_eq_true'] at hc
    have := hc.2
    simp only [strBodyChar, Bool.and_eq_true, bne_iff_ne, ne_eq]
    refine ⟨⟨?_, ?_⟩, ?_⟩ <;> (intro e; subst e; exact absurd this (by decide))
  match hp : G.titlePre, hpre with
  | e :: d :: p, hpre =>
    simp only [Bool.and_eq_true, beq_iff_eq, bne_iff_ne, ne_eq, List.all_eq_true] at hpre
    obtain ⟨⟨⟨he, hd⟩, hi⟩, hpb⟩ := hpre
    subst he
    simp only [List.cons_append, isToken, if_true, hd, if_false, hi]
    rw [List.append_assoc, strTail_body hpb, strTail_body hbody]
    exact hsuf

/-- the tokenizer's view: the whole `set_title` output is one control token -/
theorem setTitle_ctrlTokens {G : Emit2} (hG : titleFrameOk G = true) (title : CText) :
    ctrlTokens (setTitle G false title) = [setTitle G false title] := by
  have h := isToken_accept (setTitle_one_token hG title) []
  have e0 : (⟨.ground, [], []⟩ : TK) = tk0 := rfl
  rw [e0] at h
  unfold ctrlTokens
  simp [h]

/-- what is between the frame and the terminator contains no control character -/
theorem setTitle_body_clean (G : Emit2) (title : CText) :
    ∃ body, setTitle G false title = G.titlePre ++ body ++ G.titleSuf ∧ Clean body :=
  ⟨title.filter (fun c => !isControl c), rfl, by
    intro c hc; simp only [List.mem_filter, Bool.not_eq_true'] at hc; exact hc.2⟩

/-- the title frame of the real `Vt100_Output` (`ESC ] 2 ;` … `BEL`) is well-formed -/
theorem gen_title_frame : titleFrameOk genEmit2 = true := by decide +kernel

/-- the rule `set_title` had before /repo f7226c7: only ESC and BEL deleted -/
def setTitlePreFix (G : Emit2) (title : CText) : CText :=
  G.titlePre ++ title.filter (fun c => !(c == ESC || c == BEL)) ++ G.titleSuf

/-- **The pre-fix rule was not enough** (kept as a statement about the old rule).  The title
    `x ST CSI 2 J` — U+009C ends the OSC, and the terminal then reads an 8-bit CSI sequence that the
    renderer did not generate. -/
theorem setTitlePreFix_st_injects :
    ctrlTokens (setTitlePreFix genEmit2 [0x78, ST8, CSI8, 0x32, 0x4a]) =
      [[ESC, 0x5d, 0x32, 0x3b, 0x78, ST8], [CSI8, 0x32, 0x4a], [BEL]] := by decide +kernel

example : setTitle genEmit2 false [0x68, ESC, BEL, ST8, CSI8, 0x9f, 0x4E16, 0xDC9B, 0x69] =
    [ESC, 0x5d, 0x32, 0x3b, 0x68, 0x4E16, 0xDC9B, 0x69, BEL] := by decide +kernel

/-! ### the dumb-terminal prompt -/

theorem dumb_no_esc (m : Table) (ev : DumbEv) : ESC ∉ dumbStep m ev := by
  cases ev <;> exact safe_write_no_esc _

theorem clean_flatMap {t : CText} {f : CP → CText} (h : ∀ c ∈ t, ∀ x ∈ f c, isControl x = true → x = LF) :
    ∀ x ∈ t.flatMap f, isControl x = true → x = LF := by
  intro x hx
  simp only [List.mem_flatMap] at hx
  obtain ⟨c, hc, hxc⟩ := hx
  exact h c hc x hxc

theorem lastChar_sub (t : CText) : ∀ c ∈ lastChar t, c ∈ t := by
  intro c hc
  exact List.mem_of_mem_drop hc

/-- the dumb prompt before /repo 16862de: text straight into the escaping writer -/
def dumbStartPreFix (msg : List Frag) : CText := safeWrite (fragListToText msg)

/-- **The pre-fix dumb prompt was not enough** (kept as a statement about the old rule): the prompt
    message `CSI 2 J >` reached the terminal as an 8-bit CSI sequence. -/
theorem dumbPreFix_injects :
    ctrlTokens (dumbStartPreFix [([], [CSI8, 0x32, 0x4a, 0x3e])]) = [[CSI8, 0x32, 0x4a]] := by decide

theorem dumbDisplay_mapped {m : Table} (hc : coversControls m = true) (hp : valuesPrintable m = true)
    (t : CText) : ∀ x ∈ dumbDisplay m t, isControl x = true → x = LF := by
  simp only [dumbDisplay]
  apply clean_flatMap
  intro c _ x hx hctl
  split at hx
  · simp only [List.mem_singleton] at hx; rename_i h; rw [hx, h]
  · cases hl : lookup m [c] with
    | some v =>
      simp only [hl, Option.getD_some] at hx
      have := value_clean hp hl x hx
      rw [this] at hctl; cases hctl
    | none =>
      simp only [hl, Option.getD_none, List.mem_singleton] at hx
      subst hx
      have := covered_of_control hc hctl
      simp [hl] at this

/-- **Dumb-terminal prompt, full.**  Whatever the prompt message and the typed text contain, the only
    control characters written are the newlines of the text itself (and the CR LF that ends the
    prompt); in particular never ESC. -/
theorem dumb_prompt_clean {m : Table} (hc : coversControls m = true) (hp : valuesPrintable m = true) :
    (∀ msg, ∀ x ∈ dumbStep m (.start msg), isControl x = true → x = LF) ∧
    (∀ tb, ∀ x ∈ dumbStep m (.changed tb), isControl x = true → x = LF) ∧
    dumbStep m .finish = [CR, LF] := by
  refine ⟨?_, ?_, rfl⟩
  · intro msg x hx hctl
    have hmem := safe_write_no_new_control _ x hx hctl
    exact dumbDisplay_mapped hc hp _ x hmem hctl
  · intro tb x hx hctl
    have hmem := safe_write_no_new_control _ x hx hctl
    exact dumbDisplay_mapped hc hp _ x hmem hctl

example : dumbStep Gen.C10.displayMappings (.start [([], [CSI8, 0x32, 0x4a, LF, 7, 9, 13]), (zweMarker, [ESC])]) =
    [0x3c, 0x39, 0x62, 0x3e, 0x32, 0x4a, LF, 0x5e, 0x47, 0x5e, 0x49, 0x5e, 0x4d] := by decide +kernel

/-! ### `patch_stdout` -/

/-- **`patch_stdout(raw=False)`**: printed text goes through the escaping writer — no ESC — and the
    only other piece is the renderer's own enable-autowrap. -/
theorem proxy_safe_no_esc (E : Emit) (text : CText) :
    proxyWrite E false text = [(.gen, E.enableWrap), (.content, safeWrite text)] ∧ ESC ∉ safeWrite text :=
  ⟨rfl, safe_write_no_esc _⟩

/-- **`patch_stdout(raw=True)`** is the explicit opt-in: the text is written raw, unchanged -/
theorem proxy_raw_is_marked (E : Emit) (text : CText) :
    proxyWrite E true text = [(.gen, E.enableWrap), (.zwe, text)] := rfl

/-- byte level: a terminal never reads an ESC out of text printed through `patch_stdout(raw=False)` -/
theorem proxy_bytes_no_esc {C : Codec} (hC : Lawful C) (text : CText) :
    C.dec (encodeReplace C (safeWrite text)) = ((safeWrite text).map (repl C)).map Item.cp ∧
    ESC ∉ (safeWrite text).map (repl C) :=
  ⟨dec_encodeReplace hC _, repl_no_esc C (safe_write_no_esc _)⟩

example : proxyWrite genEmit false [0x61, ESC, 0x5b, 0x6d] =
    [(.gen, [ESC, 0x5b, 0x3f, 0x37, 0x68]), (.content, [0x61, QM, 0x5b, 0x6d])] := by decide +kernel

/-! ### `PlainTextOutput` -/

theorem replaceChar_mem (a : CP) (b : CText) (t : CText) :
    ∀ c ∈ replaceChar a b t, c ∈ b ∨ c ∈ t := by
  induction t with
  | nil => intro c hc; simp [replaceChar] at hc
  | cons x xs ih =>
    intro c hc
    simp only [replaceChar, List.mem_append] at hc
    rcases hc with h | h
    · split at h
      · exact Or.inl h
      · simp only [List.mem_singleton] at h; subst h; exact Or.inr (by simp)
    · rcases ih c h with h' | h'
      · exact Or.inl h'
      · exact Or.inr (by simp [h'])

/-- **`PlainTextOutput` adds nothing of its own**: when stdout is not a terminal, every character that
    `print_formatted_text` hands to `flush_stdout` is a character of a printed fragment, or the CR
    put in front of a newline.  (This output class deliberately does not escape: its `write` is
    its `write_raw`; it is not the terminal path of the property.) -/
theorem printPlain_adds_nothing (frs : List (Text × CText)) :
    ∀ c ∈ printPlain frs, c = CR ∨ ∃ f ∈ frs, c ∈ f.2 := by
  intro c hc
  simp only [printPlain, List.mem_flatMap] at hc
  obtain ⟨f, hf, hcf⟩ := hc
  simp only [printPlainFrag] at hcf
  split at hcf
  · exact Or.inr ⟨f, hf, hcf⟩
  · rcases replaceChar_mem _ _ _ c hcf with h | h
    · simp only [List.mem_cons, List.not_mem_nil, or_false] at h
      rcases h with rfl | rfl
      · exact Or.inl rfl
      · -- the LF itself comes from the fragment
        have : LF ∈ replaceChar LF [CR, LF] (replaceChar CR [] f.2) := hcf
        -- LF can only be produced from an LF of the text
        have hlf : ∀ t : CText, LF ∈ replaceChar LF [CR, LF] t → LF ∈ t := by
          intro t
          induction t with
          | nil => intro h; simp [replaceChar] at h
          | cons x xs ih =>
            intro h
            simp only [replaceChar, List.mem_append] at h
            rcases h with h | h
            · split at h
              · rename_i hx; subst hx; simp
              · simp only [List.mem_singleton] at h; subst h; simp
            · simp [ih h]
        have h2 := hlf _ this
        rcases replaceChar_mem _ _ _ LF h2 with h3 | h3
        · simp at h3
        · exact Or.inr ⟨f, hf, h3⟩
    · rcases replaceChar_mem _ _ _ c h with h3 | h3
      · simp at h3
      · exact Or.inr ⟨f, hf, h3⟩

/-- byte level: a consumer that decodes the redirected output reads the printed text, unencodable
    characters as `?`, without a stray byte -/
theorem printPlain_bytes {C : Codec} (hC : Lawful C) (frs : List (Text × CText)) :
    C.dec (encodeReplace C (printPlain frs)) = ((printPlain frs).map (repl C)).map Item.cp :=
  dec_encodeReplace hC _

example : printPlain [([], [0x61, CR, LF, ESC]), (zweMarker, [ESC, 0x5d])] = [0x61, CR, LF, ESC, ESC, 0x5d] := by decide

end Ptk.C10
