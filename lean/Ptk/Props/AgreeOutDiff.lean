/-
  Cross-model agreement, Output side, pair (2): `_output_screen_diff` of
  src/prompt_toolkit/renderer.py and its nested helpers, modelled by C06 (Model/C06.lean, canonical:
  dense rows, interned style numbers, `Cmd` calls in call order) and by C10 (Model/C10Diff.lean:
  sparse dict, style strings, code points, `Ev` calls newest first).

  This file: the translation between the two representations and the helpers
  `reset_attributes`, `move_cursor`, `output_char`, `get_max_column_index` (+ the screen translation).
  The loops and the whole function are in `AgreeOutDiff2`.

  Translation (explicit, total):
    * text: `toN : List Char → List Nat` (`Char.toNat`, injective);
    * style strings: `sty : Nat → Text`, a parameter, injective with `sty 0 = ""` (`TrOk`);
    * attrs: `code : Attrs → Nat`, a parameter, injective (`TrOk`); the two configurations are
      related by `CfgRel` (`attrsOf (sty n) = code (rawOf n)`, `hasStyle (sty n) = (rawOf n).hasStyle`,
      same size);
    * cells: `cellTo`; screens: `screenTo` (every cell of the dense rows as a dict item) and the
      relation `ScreenRel` it satisfies;
    * calls: both `C10.Ev` and `C06.Cmd` are mapped to the common `OCall` (`evTo`, `cmdTo`);
    * state: `trace s` = the calls of a C10 state oldest first; `Steps s s' o` says that `s'` is `s`
      plus the calls of the C06 result `o`, at `o`'s position and last style.
-/
import Ptk.Model.C06
import Ptk.Model.C10Diff
namespace Ptk.AgreeOut.Diff
open Ptk.Py

/-- a Python `str` of C06 (`List Char`) as the code-point list of C10 -/
def toN (t : Text) : List Nat := t.map Char.toNat

theorem toNat_inj {a b : Char} (h : a.toNat = b.toNat) : a = b := by
  apply Char.ext
  apply UInt32.toNat_inj.mp
  exact h

theorem toN_inj {a b : Text} : toN a = toN b ↔ a = b := by
  constructor
  · intro h
    exact List.map_inj_right (fun _ _ => toNat_inj) |>.mp h
  · intro h; rw [h]

/-- a call on the output object, common to both models -/
inductive OCall
  | write (t : List Nat)
  | writeRaw (t : List Nat)
  | setAttrs (a : Nat)
  | resetAttrs
  | cursorUp (n : Nat)
  | cursorForward (n : Nat)
  | cursorBackward (n : Nat)
  | eraseDown
  | eraseEol
  | hideCursor
  | showCursor
  | disableAutowrap
  | enableAutowrap
  | other
deriving DecidableEq, Repr

def evTo : C10.Ev → OCall
  | .cell t => .write t
  | .cr => .write [C10.CR]
  | .nl k => .write (C10.repeatCrLf k)
  | .raw t => .writeRaw t
  | .hideCursor => .hideCursor
  | .showCursor => .showCursor
  | .resetAttrs => .resetAttrs
  | .setAttrs a => .setAttrs a
  | .fwd n => .cursorForward n
  | .back n => .cursorBackward n
  | .up n => .cursorUp n
  | .eraseDown => .eraseDown
  | .eraseEol => .eraseEol
  | .disableWrap => .disableAutowrap
  | .enableWrap => .enableAutowrap

def cmdTo (code : C06.Attrs → Nat) : C06.Cmd → OCall
  | .write t => .write (toN t)
  | .writeRaw t => .writeRaw (toN t)
  | .setAttrs a _ _ => .setAttrs (code a)
  | .resetAttrs => .resetAttrs
  | .cursorUp n => .cursorUp n
  | .cursorForward n => .cursorForward n
  | .cursorBackward n => .cursorBackward n
  | .eraseDown => .eraseDown
  | .eraseEol => .eraseEol
  | .hideCursor => .hideCursor
  | .showCursor => .showCursor
  | .disableAutowrap => .disableAutowrap
  | .enableAutowrap => .enableAutowrap
  | _ => .other

theorem toN_repeat_crlf (k : Nat) : toN (repeatText C06.crlf k) = C10.repeatCrLf k := by
  induction k with
  | zero => rfl
  | succ k ih =>
    simp only [repeatText, C10.repeatCrLf, toN, List.map_append] at *
    rw [ih]; rfl

/-- the calls made so far on the C10 side, oldest first, in the common vocabulary -/
def trace (s : C10.DS) : List OCall := s.evs.reverse.map evTo

@[simp] theorem trace_emit (s : C10.DS) (e : C10.Ev) : trace (s.emit e) = trace s ++ [evTo e] := by
  simp [trace, C10.DS.emit]
@[simp] theorem trace_setPos (s : C10.DS) (x y : Nat) : trace (s.setPos x y) = trace s := rfl
@[simp] theorem trace_setLast (s : C10.DS) (l) : trace (s.setLast l) = trace s := rfl

/-- C10 state `s'` is C10 state `s` after the calls, position and last style of the C06 result `o` -/
structure Steps (sty : Nat → Text) (code : C06.Attrs → Nat) (s s' : C10.DS) (o : C06.Out) : Prop where
  tr : trace s' = trace s ++ o.cmds.map (cmdTo code)
  x : s'.x = o.pos.x
  y : s'.y = o.pos.y
  last : s'.last = o.last.map sty

/-- the C10 state carries C06's `current_pos` / `last_style` -/
structure StRel (sty : Nat → Text) (s : C10.DS) (pos : C06.Point) (last : Option Nat) : Prop where
  x : s.x = pos.x
  y : s.y = pos.y
  last : s.last = last.map sty

section
variable (sty : Nat → Text) (code : C06.Attrs → Nat)

theorem Steps.rel {s s' : C10.DS} {o : C06.Out} (h : Steps sty code s s' o) : StRel sty s' o.pos o.last :=
  ⟨h.x, h.y, h.last⟩

theorem Steps.refl {s : C10.DS} {pos last} (h : StRel sty s pos last) : Steps sty code s s ⟨[], pos, last⟩ :=
  ⟨by simp, h.x, h.y, h.last⟩

theorem Steps.trans {s s1 s2 : C10.DS} {o1 o2 : C06.Out} (h1 : Steps sty code s s1 o1)
    (h2 : Steps sty code s1 s2 o2) : Steps sty code s s2 ⟨o1.cmds ++ o2.cmds, o2.pos, o2.last⟩ :=
  ⟨by simp [h2.tr, h1.tr], h2.x, h2.y, h2.last⟩

/-- `renderer.py::_output_screen_diff.reset_attributes`: `C10.resetAttributes` makes the call
    `reset_attributes()` and forgets `last_style`; C06 inlines it as `[.resetAttrs]` with `last := none`. -/
theorem resetAttributes_agree (s : C10.DS) :
    Steps sty code s (C10.resetAttributes s) ⟨[C06.Cmd.resetAttrs], ⟨s.x, s.y⟩, none⟩ := by
  refine ⟨?_, rfl, rfl, rfl⟩
  simp [C10.resetAttributes, evTo, cmdTo]

/-- `renderer.py::_output_screen_diff.move_cursor`: `C10.moveCursor` vs `C06.moveCursor`. -/
theorem moveCursor_agree (w : Nat) (s : C10.DS) (pos : C06.Point) (last : Option Nat)
    (h : StRel sty s pos last) (nx ny : Nat) :
    Steps sty code s (C10.moveCursor w s nx ny)
      ⟨(C06.moveCursor w pos last ⟨nx, ny⟩).1, ⟨nx, ny⟩, (C06.moveCursor w pos last ⟨nx, ny⟩).2⟩ := by
  obtain ⟨hx, hy, hl⟩ := h
  unfold C10.moveCursor C06.moveCursor
  simp only [hx, hy]
  by_cases h1 : pos.y < ny
  · refine ⟨?_, ?_, ?_, ?_⟩ <;>
      simp [h1, trace, C10.resetAttributes, evTo, cmdTo, toN_repeat_crlf, C10.DS.setPos, C10.DS.setLast, C10.DS.emit]
  · have hc : ((pos.x : Int) ≥ (w : Int) - 1) ↔ w ≤ pos.x + 1 := by omega
    refine ⟨?_, ?_, ?_, ?_⟩ <;>
      simp only [h1, hc, if_false, gt_iff_lt] <;>
      by_cases h2 : ny < pos.y <;> by_cases h3 : w ≤ pos.x + 1 <;>
      by_cases h4 : nx < pos.x <;> by_cases h5 : pos.x < nx <;>
      simp [h2, h3, h4, h5, trace, evTo, cmdTo, toN, C10.CR, C10.DS.setPos, C10.DS.emit, hl]


def cellTo (c : C06.Cell) : C10.Cell := ⟨toN c.txt, sty c.style, c.width⟩

/-- hypotheses on the translation of styles / attrs -/
structure TrOk (sty : Nat → Text) (code : C06.Attrs → Nat) : Prop where
  styInj : ∀ a b, sty a = sty b → a = b
  sty0 : sty 0 = []
  codeInj : ∀ a b, code a = code b → a = b

structure CfgRel (e : C06.Env) (cfg : C10.DiffCfg) : Prop where
  hA : ∀ n, cfg.attrsOf (sty n) = code (e.rawOf n)
  hH : ∀ n, cfg.hasStyle (sty n) = (e.rawOf n).hasStyle
  hw : cfg.width = e.w
  hh : cfg.height = e.h

variable {sty code}

theorem TrOk.isEmpty (ok : TrOk sty code) (n : Nat) : (sty n).isEmpty = (n == 0) := by
  by_cases h : n = 0
  · simp [h, ok.sty0]
  · have : sty n ≠ [] := fun h' => h (ok.styInj n 0 (by rw [h', ok.sty0]))
    have h2 : (n == 0) = false := by simpa using h
    rw [h2]
    cases hs : sty n with
    | nil => exact absurd hs this
    | cons a t => rfl

/-- `renderer.py::_output_screen_diff.output_char`: `C10.outputChar` vs `C06.outputChar`. -/
theorem outputChar_agree (ok : TrOk sty code) (e : C06.Env) (attrsOf : Text → Nat)
    (hA : ∀ n, attrsOf (sty n) = code (e.rawOf n))
    (s : C10.DS) (pos : C06.Point) (last : Option Nat) (h : StRel sty s pos last) (c : C06.Cell) :
    Steps sty code s (C10.outputChar attrsOf s (cellTo sty c))
      ⟨(C06.outputChar e last c).1, pos, (C06.outputChar e last c).2⟩ := by
  obtain ⟨hx, hy, hl⟩ := h
  obtain ⟨sx, sy, sl, evs⟩ := s
  change sx = pos.x at hx
  change sy = pos.y at hy
  change sl = _ at hl
  subst hx hy hl
  have hne : ∀ a b, (code a != code b) = (a != b) := by
    intro a b
    by_cases hh : a = b
    · simp [hh]
    · have h1 : code a ≠ code b := fun h' => hh (ok.codeInj _ _ h')
      rw [bne_iff_ne.mpr h1, bne_iff_ne.mpr hh]
  unfold C10.outputChar C06.outputChar
  cases last with
  | none =>
    refine ⟨?_, ?_, ?_, ?_⟩ <;>
      first | rfl | simp [trace, C06.needAttrs, evTo, cmdTo, cellTo, hA, C10.DS.setLast, C10.DS.emit]
  | some l =>
    by_cases h1 : l = c.style
    · subst h1
      refine ⟨?_, ?_, ?_, ?_⟩ <;>
        simp [trace, evTo, cmdTo, cellTo, C10.DS.emit]
    · have h2 : sty l ≠ sty c.style := fun h' => h1 (ok.styInj _ _ h')
      by_cases h3 : (l == 0 || e.rawOf c.style != e.rawOf l) = true <;>
        refine ⟨?_, ?_, ?_, ?_⟩ <;>
          simp [trace, h1, h2, h3, C06.needAttrs, evTo, cmdTo, cellTo, hA, hne, ok.isEmpty,
            C10.DS.setLast, C10.DS.emit]


/-! ### screens -/

variable (sty)

/-- the cells of one dense C06 row as dict items `(y, x) ↦ Char` -/
def rowBuf (y : Nat) : Nat → List C06.Cell → C10.Buf
  | _, [] => []
  | x, c :: cs => (((y : Int), (x : Int)), cellTo sty c) :: rowBuf y (x + 1) cs

def rowsBuf : Nat → List (List C06.Cell) → C10.Buf
  | _, [] => []
  | y, r :: rs => rowBuf sty y 0 r ++ rowsBuf (y + 1) rs

def zweTo (z : List (Nat × Nat × Text)) : C10.Zwe :=
  z.map fun e => (((e.1 : Int), (e.2.1 : Int)), toN e.2.2)

/-- total translation of a C06 screen (dense rows) into a C10 screen (sparse dict) -/
def screenTo (s : C06.Screen) : C10.Screen :=
  { buf := rowsBuf sty 0 s.rows, zwe := zweTo s.zwe, dflt := cellTo sty C06.Cell.dflt,
    height := s.height, cursor := (s.cursor.x, s.cursor.y), showCursor := s.showCursor }

theorem bufFind_append (a b : C10.Buf) (p : C10.Pos) :
    C10.bufFind? (a ++ b) p = (C10.bufFind? a p).or (C10.bufFind? b p) := by
  induction a with
  | nil => simp [C10.bufFind?]
  | cons h t ih =>
    obtain ⟨q, c⟩ := h
    by_cases hq : q = p <;> simp [C10.bufFind?, hq, ih]

theorem bufFind_rowBuf (y : Nat) : ∀ (cs : List C06.Cell) (x0 y' x' : Nat),
    C10.bufFind? (rowBuf sty y x0 cs) ((y' : Int), (x' : Int)) =
      if y' = y ∧ x0 ≤ x' then (cs[x' - x0]?).map (cellTo sty) else none := by
  intro cs
  induction cs with
  | nil => intro x0 y' x'; simp [rowBuf, C10.bufFind?]
  | cons c cs ih =>
    intro x0 y' x'
    simp only [rowBuf, C10.bufFind?, ih]
    by_cases h1 : y' = y
    · by_cases h2 : x0 = x'
      · subst h1 h2; simp
      · by_cases h3 : x0 + 1 ≤ x'
        · have e : x' - x0 = (x' - (x0 + 1)) + 1 := by omega
          have hne : ¬ (x0 = x') := by omega
          simp [h1, h3, e, show x0 ≤ x' by omega]
          omega
        · have : ¬ x0 ≤ x' := by omega
          simp [h1, h3, this]
          omega
    · simp [h1]
      omega


theorem bufFind_rowsBuf : ∀ (rs : List (List C06.Cell)) (y0 y' x' : Nat),
    C10.bufFind? (rowsBuf sty y0 rs) ((y' : Int), (x' : Int)) =
      if y0 ≤ y' then ((rs[y' - y0]?.getD [])[x']?).map (cellTo sty) else none := by
  intro rs
  induction rs with
  | nil => intro y0 y' x'; simp [rowsBuf, C10.bufFind?]
  | cons r rs ih =>
    intro y0 y' x'
    simp only [rowsBuf, bufFind_append, bufFind_rowBuf, ih]
    by_cases h1 : y' = y0
    · subst h1
      simp [show ¬ (y' + 1 ≤ y') by omega]
    · by_cases h2 : y0 + 1 ≤ y'
      · have e : y' - y0 = (y' - (y0 + 1)) + 1 := by omega
        simp [h1, h2, e, show y0 ≤ y' by omega]
      · simp [h1, h2, show ¬ y0 ≤ y' by omega]

/-- `data_buffer[y][x]`: reading the translated screen gives the translated cell -/
theorem bufGet_screenTo (s : C06.Screen) (y x : Nat) :
    C10.bufGet (screenTo sty s).buf (screenTo sty s).dflt ((y : Int), (x : Int)) =
      cellTo sty (C06.cellAt (s.row y) x) := by
  simp only [C10.bufGet, screenTo, bufFind_rowsBuf, C06.cellAt, C06.Screen.row,
    List.getD_eq_getElem?_getD]
  simp

theorem zweFind_zweTo (z : List (Nat × Nat × Text)) (y x : Nat) :
    C10.zweFind? (zweTo z) ((y : Int), (x : Int)) = (C06.zweAt z y x).map toN := by
  induction z with
  | nil => rfl
  | cons h t ih =>
    obtain ⟨y', x', tx⟩ := h
    simp only [zweTo, List.map_cons, C10.zweFind?, C06.zweAt] at ih ⊢
    by_cases hh : y' = y ∧ x' = x
    · obtain ⟨rfl, rfl⟩ := hh; simp
    · have : ¬ (((y' : Int), (x' : Int)) = ((y : Int), (x : Int))) := by
        simp only [Prod.mk.injEq]; omega
      rw [if_neg this, if_neg hh]; exact ih


/-! ### `get_max_column_index` -/

theorem rowKeys_append (a b : C10.Buf) (y : Int) :
    C10.rowKeys (a ++ b) y = C10.rowKeys a y ++ C10.rowKeys b y := by
  simp [C10.rowKeys]

def natKeys (x0 n : Nat) : List Int := (List.range' x0 n).map Int.ofNat

theorem rowKeys_rowBuf (y' : Nat) : ∀ (cs : List C06.Cell) (x0 y : Nat),
    C10.rowKeys (rowBuf sty y' x0 cs) (y : Int) = if y' = y then natKeys x0 cs.length else [] := by
  intro cs
  induction cs with
  | nil => intro x0 y; simp [rowBuf, C10.rowKeys, natKeys]
  | cons c cs ih =>
    intro x0 y
    have ih' := ih (x0 + 1) y
    simp only [C10.rowKeys, natKeys] at ih' ⊢
    by_cases h : y' = y
    · subst h
      simp only [if_true] at ih' ⊢
      simp [rowBuf, List.range'_succ, ih']
    · have hne : ¬ ((y' : Int) = (y : Int)) := by omega
      simp only [if_neg h] at ih' ⊢
      simp [rowBuf, hne, ih']

theorem rowKeys_rowsBuf : ∀ (rs : List (List C06.Cell)) (y0 y : Nat),
    C10.rowKeys (rowsBuf sty y0 rs) (y : Int) =
      if y0 ≤ y then natKeys 0 (rs[y - y0]?.getD []).length else [] := by
  intro rs
  induction rs with
  | nil => intro y0 y; simp [rowsBuf, C10.rowKeys, natKeys]
  | cons r rs ih =>
    intro y0 y
    simp only [rowsBuf, rowKeys_append, rowKeys_rowBuf, ih]
    by_cases h1 : y0 = y
    · subst h1
      simp [show ¬ (y0 + 1 ≤ y0) by omega]
    · by_cases h2 : y0 + 1 ≤ y
      · have e : y - y0 = (y - (y0 + 1)) + 1 := by omega
        simp [h1, h2, e, show y0 ≤ y by omega]
      · simp [h1, h2, show ¬ y0 ≤ y by omega]

/-- the step of the `max(..., default=0)` fold of `C10.maxColumnIndex`, over a predicate on keys -/
def maxStep (g : Int → Bool) (acc : Option Int) (x : Int) : Option Int :=
  if g x then (if acc.isNone then some x else some (max (acc.getD 0) x)) else acc

/-- folding `max` over the increasing keys `x0, x0+1, …` of a dense row gives its last counted column -/
theorem foldl_maxStep (p : C06.Cell → Bool) (g : Int → Bool) : ∀ (cs : List C06.Cell) (x0 : Nat)
    (acc : Option Int), (∀ a, acc = some a → a < (x0 : Int)) →
    (∀ i (h : i < cs.length), g ((x0 + i : Nat) : Int) = p cs[i]) →
    (natKeys x0 cs.length).foldl (maxStep g) acc =
      match C06.trimLen p cs with
      | 0 => acc
      | k + 1 => some ((x0 + k : Nat) : Int) := by
  intro cs
  induction cs with
  | nil => intro x0 acc _ _; simp [natKeys, C06.trimLen]
  | cons c cs ih =>
    intro x0 acc hacc hg
    have hg0 : g (x0 : Int) = p c := hg 0 (by simp)
    have hg' : ∀ i (h : i < cs.length), g ((x0 + 1 + i : Nat) : Int) = p cs[i] := by
      intro i h
      have := hg (i + 1) (by simp; omega)
      simpa [show x0 + (i + 1) = x0 + 1 + i by omega] using this
    have hk : natKeys x0 (c :: cs).length = (x0 : Int) :: natKeys (x0 + 1) cs.length := by
      simp [natKeys, List.range'_succ]
    rw [hk, List.foldl_cons]
    by_cases hp : p c = true
    · have hs : maxStep g acc (x0 : Int) = some (x0 : Int) := by
        unfold maxStep
        rw [hg0, hp]
        cases acc with
        | none => simp
        | some a =>
          have := hacc a rfl
          simp; omega
      rw [hs, ih (x0 + 1) (some (x0 : Int)) (by intro a ha; cases ha; omega) hg']
      simp only [C06.trimLen, hp]
      cases h : C06.trimLen p cs with
      | zero => simp
      | succ k => simp; omega
    · have hs : maxStep g acc (x0 : Int) = acc := by
        unfold maxStep
        rw [hg0]; simp [hp]
      rw [hs, ih (x0 + 1) acc (by intro a ha; have := hacc a ha; omega) hg']
      simp only [C06.trimLen, hp]
      cases h : C06.trimLen p cs with
      | zero => simp
      | succ k => simp; omega


theorem toN_space : toN [' '] = [32] := by decide

/-- `cell.char != " " or style_string_has_style[cell.style]` on a translated cell -/
theorem counted_agree (hasStyle : Text → Bool) (rawOf : Nat → C06.Attrs)
    (hH : ∀ n, hasStyle (sty n) = (rawOf n).hasStyle) (c : C06.Cell) :
    (decide ((cellTo sty c).char ≠ [32]) || hasStyle (cellTo sty c).style) = C06.Cell.counted rawOf c := by
  simp only [cellTo, C06.Cell.counted, hH]
  congr 1
  by_cases h : c.txt = [' ']
  · simp [h, toN_space]
  · have : toN c.txt ≠ [32] := fun h' => h (toN_inj.mp (h'.trans toN_space.symm))
    simp [h, this]

/-- `renderer.py::_output_screen_diff.get_max_column_index`: `C10.maxColumnIndex` on the translated
    screen vs `C06.maxCol` on the dense row. -/
theorem maxColumnIndex_agree (hasStyle : Text → Bool) (rawOf : Nat → C06.Attrs)
    (hH : ∀ n, hasStyle (sty n) = (rawOf n).hasStyle) (s : C06.Screen) (y : Nat) :
    C10.maxColumnIndex hasStyle (screenTo sty s).buf (screenTo sty s).dflt (y : Int) =
      ((C06.maxCol rawOf (s.row y) : Nat) : Int) := by
  let g : Int → Bool := fun x =>
    let c := C10.bufGet (screenTo sty s).buf (screenTo sty s).dflt ((y : Int), x)
    decide (c.char ≠ [32]) || hasStyle c.style
  have hfold : C10.maxColumnIndex hasStyle (screenTo sty s).buf (screenTo sty s).dflt (y : Int) =
      ((C10.rowKeys (screenTo sty s).buf (y : Int)).foldl (maxStep g) none).getD 0 := rfl
  rw [hfold]
  have hk : C10.rowKeys (screenTo sty s).buf (y : Int) = natKeys 0 (s.row y).length := by
    simp [screenTo, rowKeys_rowsBuf, C06.Screen.row, List.getD_eq_getElem?_getD]
  rw [hk, foldl_maxStep (C06.Cell.counted rawOf) g (s.row y) 0 none (by simp)]
  · unfold C06.maxCol
    cases C06.trimLen (C06.Cell.counted rawOf) (s.row y) with
    | zero => simp
    | succ k => simp
  · intro i hi
    show (decide _ || _) = _
    rw [bufGet_screenTo, ← counted_agree sty hasStyle rawOf hH]
    simp [C06.cellAt, List.getD_eq_getElem?_getD, hi]

/-- what relates a C06 screen (dense rows) to a C10 screen (sparse dict + default char) -/
structure ScreenRel (hasStyle : Text → Bool) (rawOf : Nat → C06.Attrs)
    (s6 : C06.Screen) (s10 : C10.Screen) : Prop where
  dflt : s10.dflt = cellTo sty C06.Cell.dflt
  cells : ∀ y x : Nat, C10.bufGet s10.buf s10.dflt ((y : Int), (x : Int)) = cellTo sty (C06.cellAt (s6.row y) x)
  maxCol : ∀ y : Nat, C10.maxColumnIndex hasStyle s10.buf s10.dflt (y : Int) = ((C06.maxCol rawOf (s6.row y) : Nat) : Int)
  zwe : ∀ y x : Nat, C10.zweFind? s10.zwe ((y : Int), (x : Int)) = (C06.zweAt s6.zwe y x).map toN
  height : s10.height = s6.height
  cursor : s10.cursor = (s6.cursor.x, s6.cursor.y)
  showCursor : s10.showCursor = s6.showCursor

/-- the concrete translation satisfies the relation -/
theorem screenRel_screenTo (hasStyle : Text → Bool) (rawOf : Nat → C06.Attrs)
    (hH : ∀ n, hasStyle (sty n) = (rawOf n).hasStyle) (s : C06.Screen) :
    ScreenRel sty hasStyle rawOf s (screenTo sty s) :=
  ⟨rfl, bufGet_screenTo sty s, maxColumnIndex_agree sty hasStyle rawOf hH s,
   zweFind_zweTo s.zwe, rfl, rfl, rfl⟩

/-- `Screen()`: `C06.Screen.empty` vs `C10.emptyScreen` of the translated default char -/
theorem screenRel_empty (hasStyle : Text → Bool) (rawOf : Nat → C06.Attrs) :
    ScreenRel sty hasStyle rawOf C06.Screen.empty (C10.emptyScreen (cellTo sty C06.Cell.dflt)) := by
  refine ⟨rfl, ?_, ?_, ?_, rfl, rfl, rfl⟩
  · intro y x; simp [C10.emptyScreen, C10.bufGet, C10.bufFind?, C06.Screen.empty, C06.Screen.row, C06.cellAt]
  · intro y; simp [C10.emptyScreen, C10.maxColumnIndex, C10.rowKeys, C06.Screen.empty, C06.Screen.row, C06.maxCol, C06.trimLen]
  · intro y x; simp [C10.emptyScreen, C10.zweFind?, C06.Screen.empty, C06.zweAt]

theorem screenTo_empty : screenTo sty C06.Screen.empty = C10.emptyScreen (cellTo sty C06.Cell.dflt) := rfl

end
end Ptk.AgreeOut.Diff
