/-
  C15 — auto-suggestion from the history: what `AutoSuggestFromHistory` returns continues the
  last line of the text it was asked about to a line of the history (`history_suggestion_extends`),
  it answers whenever it can (`history_suggestion_complete`) with the most recent match
  (`history_suggestion_most_recent`); and, combined with the invariant of the async machinery,
  what `AppendAutoSuggestion` draws continues the *current* text (`shown_history_suggestion`).
-/
import Ptk.Model.C15Suggest
import Ptk.Props.C15Ops
namespace Ptk.C15
open Ptk.Py
variable {cfg : Config}

theorem findLine_some {text : Text} {ls : List Text} {r : Text} (h : findLine text ls = some r) :
    ∃ l ∈ ls, l = text ++ r := by
  induction ls with
  | nil => cases h
  | cons l ls ih =>
    simp only [findLine] at h
    split at h
    · rename_i hp
      simp only [Option.some.injEq] at h
      obtain ⟨t, ht⟩ := isPrefixOf_iff.mp hp
      refine ⟨l, by simp, ?_⟩
      rw [← h, ← ht, List.drop_left']
      rfl
    · obtain ⟨l', hm, he⟩ := ih h
      exact ⟨l', by simp [hm], he⟩

theorem findLine_none {text : Text} {ls : List Text} (h : findLine text ls = none) :
    ∀ l ∈ ls, isPrefixOf' text l = false := by
  induction ls with
  | nil => intro l hl; cases hl
  | cons x xs ih =>
    simp only [findLine] at h
    split at h
    · cases h
    · rename_i hp
      intro l hl
      simp only [List.mem_cons] at hl
      rcases hl with rfl | hl
      · simpa using hp
      · exact ih h l hl

theorem findHist_some {sl : Text → List Text} {text : Text} {es : List Text} {r : Text}
    (h : findHist sl text es = some r) : ∃ e ∈ es, ∃ l ∈ sl e, l = text ++ r := by
  induction es with
  | nil => cases h
  | cons e es ih =>
    simp only [findHist] at h
    split at h
    · rename_i r' hr
      simp only [Option.some.injEq] at h
      subst h
      obtain ⟨l, hm, he⟩ := findLine_some hr
      exact ⟨e, by simp, l, by simpa using hm, he⟩
    · obtain ⟨e', hm, x⟩ := ih h
      exact ⟨e', by simp [hm], x⟩

/-- **history_suggestion_extends**: whatever `AutoSuggestFromHistory` suggests, appended to
    the last line of the text it was asked about, is a line of some history entry; and it
    suggests nothing for a blank last line. -/
theorem history_suggestion_extends {sp : Char → Bool} {sl : Text → List Text} {hist : List Text}
    {t r : Text} (h : histSuggest sp sl hist t = some r) :
    (strip sp (lastLine t)).isEmpty = false ∧ ∃ e ∈ hist, ∃ l ∈ sl e, l = lastLine t ++ r := by
  unfold histSuggest at h
  split at h
  · cases h
  · rename_i hb
    obtain ⟨e, hm, x⟩ := findHist_some h
    exact ⟨by simpa using hb, e, by simpa using hm, x⟩

/-- **history_suggestion_complete**: it does suggest something whenever the last line is not
    blank and some line of some history entry starts with it. -/
theorem history_suggestion_complete {sp : Char → Bool} {sl : Text → List Text} {hist : List Text}
    {t : Text} (hb : (strip sp (lastLine t)).isEmpty = false)
    {e l : Text} (he : e ∈ hist) (hl : l ∈ sl e) (hp : lastLine t <+: l) :
    (histSuggest sp sl hist t).isSome = true := by
  unfold histSuggest
  rw [if_neg (by simp [hb])]
  have key : ∀ es : List Text, e ∈ es → (findHist sl (lastLine t) es).isSome = true := by
    intro es
    induction es with
    | nil => intro h; cases h
    | cons x xs ih =>
      intro hm
      simp only [findHist]
      cases hf : findLine (lastLine t) (sl x).reverse with
      | some r => rfl
      | none =>
        simp only [List.mem_cons] at hm
        rcases hm with rfl | hm
        · have := findLine_none hf l (by simpa using hl)
          rw [isPrefixOf_iff.mpr hp] at this; cases this
        · exact ih hm
  exact key _ (by simpa using he)

/-- **history_suggestion_most_recent**: the suggestion comes from the most recent history
    entry that has a matching line, and from the last matching line of that entry. -/
theorem history_suggestion_most_recent {sp : Char → Bool} {sl : Text → List Text}
    {older newer : List Text} {e : Text} {t : Text} (hb : (strip sp (lastLine t)).isEmpty = false)
    (hnewer : ∀ e' ∈ newer, ∀ l ∈ sl e', isPrefixOf' (lastLine t) l = false)
    {above below : List Text} {l : Text} (hsplit : sl e = above ++ [l] ++ below)
    (hbelow : ∀ l' ∈ below, isPrefixOf' (lastLine t) l' = false) (hl : lastLine t <+: l) :
    histSuggest sp sl (older ++ [e] ++ newer) t = some (l.drop (lastLine t).length) := by
  unfold histSuggest
  rw [if_neg (by simp [hb])]
  have line_skip : ∀ (pre rest : List Text), (∀ x ∈ pre, isPrefixOf' (lastLine t) x = false) →
      findLine (lastLine t) (pre ++ rest) = findLine (lastLine t) rest := by
    intro pre rest hpre
    induction pre with
    | nil => rfl
    | cons x xs ih =>
      simp only [List.cons_append, findLine]
      rw [if_neg (by simp [hpre x (by simp)])]
      exact ih (fun y hy => hpre y (by simp [hy]))
  have hist_skip : ∀ (pre rest : List Text),
      (∀ e' ∈ pre, ∀ l ∈ sl e', isPrefixOf' (lastLine t) l = false) →
      findHist sl (lastLine t) (pre ++ rest) = findHist sl (lastLine t) rest := by
    intro pre rest hpre
    induction pre with
    | nil => rfl
    | cons x xs ih =>
      simp only [List.cons_append, findHist]
      have : findLine (lastLine t) (sl x).reverse = none := by
        have := line_skip (sl x).reverse [] (by intro y hy; exact hpre x (by simp) y (by simpa using hy))
        simpa [findLine] using this
      rw [this]
      exact ih (fun y hy => hpre y (by simp [hy]))
  have hrev : (older ++ [e] ++ newer).reverse = newer.reverse ++ (e :: older.reverse) := by simp
  rw [hrev, hist_skip _ _ (by intro e' he'; exact hnewer e' (by simpa using he'))]
  simp only [findHist]
  have : findLine (lastLine t) (sl e).reverse = some (l.drop (lastLine t).length) := by
    rw [hsplit]
    have : (above ++ [l] ++ below).reverse = below.reverse ++ (l :: above.reverse) := by simp
    rw [this, line_skip _ _ (by intro y hy; exact hbelow y (by simpa using hy))]
    simp only [findLine]
    rw [if_pos (isPrefixOf_iff.mpr hl)]
  rw [this]

/-- the model's user code with `AutoSuggestFromHistory` over a fixed history as the suggester
    (the history only grows when input is accepted, i.e. between two editing sessions) -/
def envHist (env : Env) (sl : Text → List Text) (hist : List Text) : Env :=
  { env with sugg := fun d => histSuggest env.isSpace sl hist d.text }

/-- **shown_history_suggestion**: with `AutoSuggestFromHistory`, under any interleaving, what is
    drawn behind the input continues the *current* last line to a line of the history. -/
theorem shown_history_suggestion {env : Env} {sl : Text → List Text} {hist : List Text} (hfix : CfgOK cfg)
    {s : St} (h : Reachable cfg (envHist env sl hist) s) (hne : shownSuggestion s ≠ []) :
    s.cur = s.text.length ∧ ∃ e ∈ hist, ∃ l ∈ sl e, l = lastLine s.text ++ shownSuggestion s := by
  obtain ⟨hc, _, c, _, hs⟩ := shown_suggestion_fresh hfix h hne
  exact ⟨hc, (history_suggestion_extends (sp := env.isSpace) hs).2⟩

/-! ### non-vacuity -/

example : splitlinesNl ['a', '\n'] = [['a']] ∧ splitlinesNl [] = [] ∧ splitlinesNl ['\n'] = [[]] ∧
    splitlinesNl ['a', '\n', '\n', 'b'] = [['a'], [], ['b']] := by decide

/-- non-vacuity: history "ls -l", "git push\ngit pull", text "x\ngit p" → "ull" (last matching
    line of the most recent matching entry) -/
example : histSuggest (fun c => c == ' ') splitlinesNl
    ["ls -l".toList, "git push\ngit pull".toList] "x\ngit p".toList = some "ull".toList := by decide
example : histSuggest (fun c => c == ' ') splitlinesNl ["ls -l".toList] "ls -l\n  ".toList = none := by decide

end Ptk.C15
