/-
  C12 — explicit iteration bounds for the grow loops (`growLoop`, `growSizes`) and their counted
  twins (`Ptk.Model.C12Steps`):

  * `growLoop_bound` / `growLoop_terminates_bound`: a loop that still has `stop − Σ sizes` cells
    to hand out finishes within `(stop − Σ sizes) · n · (maxW + 1)` iterations, each `next` within
    `3 n + 3` generator micro-steps;
  * `growLoopC_proj`, `growSizesC_proj`: the counted loops compute exactly what the plain loops
    compute; `growLoopC_count_le`, `growSizesC_count_le`: the counter obeys the same bound, for
    whatever fuel the loop was run with;
  * `childGenerators_inv`: the generators built by `_child_generators` satisfy the invariant.
-/
import Ptk.Props.C12Bound
import Ptk.Model.C12Steps
namespace Ptk.C12

/-! #### `growLoopC` is `growLoop` plus a counter -/

theorem growLoopC_proj (limits : List Nat) (stop nf : Nat) :
    ∀ (f : Nat) (sizes : List Nat) (g : Gen) (c : Nat),
      (growLoopC limits stop nf f sizes g c).map (fun r => (r.1, r.2.1))
        = growLoop limits stop nf f sizes g := by
  intro f
  induction f with
  | zero =>
    intro sizes g c
    unfold growLoopC growLoop
    split_ifs <;> rfl
  | succ f ih =>
    intro sizes g c
    unfold growLoopC growLoop
    split_ifs
    · rcases g.next? nf with _ | ⟨i, g'⟩
      · rfl
      · exact ih _ _ _
    · rfl

/-- the counter grows by the number of iterations, which is at most the fuel -/
theorem growLoopC_count (limits : List Nat) (stop nf : Nat) :
    ∀ (f : Nat) (sizes : List Nat) (g : Gen) (c : Nat) (r : List Nat × Gen × Nat),
      growLoopC limits stop nf f sizes g c = some r → c ≤ r.2.2 ∧ r.2.2 ≤ c + f := by
  intro f
  induction f with
  | zero =>
    intro sizes g c r h
    unfold growLoopC at h
    split_ifs at h
    simp only [Option.some.injEq] at h
    subst h; simp
  | succ f ih =>
    intro sizes g c r h
    unfold growLoopC at h
    split_ifs at h
    · rcases hn : g.next? nf with _ | ⟨i, g'⟩
      · rw [hn] at h; simp at h
      · rw [hn] at h
        have := ih _ _ _ _ h
        omega
    · simp only [Option.some.injEq] at h
      subst h; simp

theorem growLoopC_mono (limits : List Nat) (stop : Nat) {nf nf' : Nat} (hnf : nf ≤ nf') :
    ∀ {f f' : Nat} {sizes : List Nat} {g : Gen} {c : Nat} {r : List Nat × Gen × Nat},
      growLoopC limits stop nf f sizes g c = some r → f ≤ f' →
      growLoopC limits stop nf' f' sizes g c = some r := by
  intro f
  induction f with
  | zero =>
    intro f' sizes g c r h _
    unfold growLoopC at h
    split_ifs at h with hlt
    cases f' with
    | zero => unfold growLoopC; rw [if_neg hlt]; exact h
    | succ f' => unfold growLoopC; rw [if_neg hlt]; exact h
  | succ f ih =>
    intro f' sizes g c r h hle
    obtain ⟨f'', rfl⟩ : ∃ f'', f' = f'' + 1 := ⟨f' - 1, by omega⟩
    unfold growLoopC at h ⊢
    split_ifs at h ⊢ with hlt
    · rcases hn : g.next? nf with _ | ⟨i, g'⟩
      · rw [hn] at h; simp at h
      · rw [hn] at h
        rw [Gen.next?_mono hn hnf]
        simp only at h ⊢
        exact ih h (by omega)
    · exact h

/-- a finished `growLoop` run has a counted twin -/
theorem growLoopC_of_growLoop {limits : List Nat} {stop nf f : Nat} {sizes : List Nat} {g : Gen}
    {s' : List Nat} {g' : Gen} (c : Nat) (h : growLoop limits stop nf f sizes g = some (s', g')) :
    ∃ c', growLoopC limits stop nf f sizes g c = some (s', g', c') := by
  have := growLoopC_proj limits stop nf f sizes g c
  rw [h] at this
  rcases hc : growLoopC limits stop nf f sizes g c with _ | ⟨a, b, c'⟩
  · rw [hc] at this; simp at this
  · rw [hc] at this
    simp only [Option.map_some, Option.some.injEq, Prod.mk.injEq] at this
    exact ⟨c', by rw [this.1, this.2]⟩


/-- **Iteration bound of one grow loop.**  `G = n · (maxW + 1)` bounds the number of iterations
    between two iterations that grow a child; a loop that still has `stop − Σ sizes` cells to hand
    out finishes within `(stop − Σ sizes) · G` iterations.  (Stated with the potential of a child
    that can still grow, so that the induction goes through.) -/
theorem growLoop_bound (limits : List Nat) (stop : Nat) (grp : List Nat) (hnd : grp.Nodup)
    (n maxW : Nat) :
    ∀ (f : Nat) (sizes : List Nat) (g : Gen),
      g.Inv → g.items = grp → g.ws.length = n → g.maxW = maxW →
      (∀ i ∈ grp, i < sizes.length) →
      stop ≤ sizes.sum + capOf sizes limits grp →
      (sizes.sum < stop → ∃ j, j < n ∧ sizes.getD (grp.getD j 0) 0 < limits.getD (grp.getD j 0) 0 ∧
          (stop - sizes.sum - 1) * (n * (maxW + 1)) + g.pot j ≤ f) →
      ∀ nf, 3 * n + 3 ≤ nf → ∃ r, growLoop limits stop nf f sizes g = some r := by
  intro f
  induction f with
  | zero =>
    intro sizes g hinv hit hn hmw hrange hcap hmeas nf hnf
    by_cases hlt : sizes.sum < stop
    · obtain ⟨j, hj, _, hm⟩ := hmeas hlt
      have := Gen.pot_pos (g := g) (j := j) (by omega)
      omega
    · exact ⟨_, growLoop_noop limits stop nf g hlt 0⟩
  | succ f ih =>
    intro sizes g hinv hit hn hmw hrange hcap hmeas nf hnf
    by_cases hlt : sizes.sum < stop
    swap
    · exact ⟨_, growLoop_noop limits stop nf g hlt (f + 1)⟩
    obtain ⟨j, hj, hjg, hm⟩ := hmeas hlt
    have hjn : j < g.ws.length := by omega
    obtain ⟨⟨y, g1⟩, hnx⟩ := Gen.next?_some' hinv (f := nf) (by omega)
    obtain ⟨hinv1, hpot⟩ := Gen.next?_pot hinv hjn hnx
    obtain ⟨_, hit1, hws1, hmw1, hmem⟩ := Gen.next?_spec hinv.wf hnx
    have hyg : y ∈ grp := by rw [← hit]; exact hmem
    have hyl := hrange y hyg
    have hpp := Gen.pot_pos (g := g) (j := j) hjn
    unfold growLoop
    rw [if_pos hlt, hnx]
    simp only
    -- abbreviations for the arithmetic
    obtain ⟨d, hd⟩ : ∃ d, stop - sizes.sum - 1 = d := ⟨_, rfl⟩
    rw [hd] at hm
    generalize hG : n * (maxW + 1) = G at hm ⊢
    apply ih (bump sizes limits y) g1 hinv1 (by rw [hit1, hit]) (by rw [hws1, hn])
      (by rw [hmw1, hmw]) (by intro i hi; rw [bump_length]; exact hrange i hi)
    · -- the loop can still reach `stop`
      by_cases hy : sizes.getD y 0 < limits.getD y 0
      · have hs := bump_sum_of_lt hyl hy
        have hc := capOf_bump_mem hyl hy hnd hyg
        omega
      · rw [bump_of_not_lt hy]; exact hcap
    · intro hlt'
      by_cases hy : sizes.getD y 0 < limits.getD y 0
      · -- a productive iteration: pick any child that can still grow
        have hs := bump_sum_of_lt hyl hy
        have hc := capOf_bump_mem hyl hy hnd hyg
        obtain ⟨x, hx, hxlt⟩ := capOf_pos_exists (s := bump sizes limits y) (lim := limits)
          (grp := grp) (by omega)
        obtain ⟨k, hk, hkx⟩ := List.getElem_of_mem hx
        have hkn : k < n := by rw [← hn, ← hinv.wf.len_items, hit]; exact hk
        have hgk : grp.getD k 0 = x := by
          rw [List.getD_eq_getElem?_getD]; simp [hk, hkx]
        refine ⟨k, hkn, by rw [hgk]; exact hxlt, ?_⟩
        have hple := Gen.pot_le hinv1 (j := k) (by rw [hws1, hn]; exact hkn)
        rw [hws1, hmw1, hn, hmw, hG] at hple
        obtain ⟨d', hd'⟩ : ∃ d', d = d' + 1 := ⟨d - 1, by omega⟩
        have e1 : stop - (bump sizes limits y).sum - 1 = d' := by omega
        rw [e1]
        have e2 : (d' + 1) * G = d' * G + G := by ring
        rw [hd'] at hm
        rw [hG]
        omega
      · -- nothing grew: the same child is still waiting, and its potential dropped
        rw [bump_of_not_lt hy] at hlt' ⊢
        refine ⟨j, hj, hjg, ?_⟩
        rcases hpot with hpot | hpot
        · exfalso
          rw [hit] at hpot
          rw [← hpot] at hjg
          exact hy hjg
        · rw [hd, hG]; omega
    · exact hnf


/-- a grow loop keeps the generator invariant (and the generator's fixed data) -/
theorem growLoop_inv (limits : List Nat) (stop nf : Nat) :
    ∀ (f : Nat) (sizes : List Nat) (g : Gen) (s' : List Nat) (g' : Gen),
      g.Inv → growLoop limits stop nf f sizes g = some (s', g') →
      g'.Inv ∧ g'.ws = g.ws ∧ g'.maxW = g.maxW := by
  intro f
  induction f with
  | zero =>
    intro sizes g s' g' hinv h
    unfold growLoop at h
    split_ifs at h
    simp only [Option.some.injEq, Prod.mk.injEq] at h
    obtain ⟨_, rfl⟩ := h
    exact ⟨hinv, rfl, rfl⟩
  | succ f ih =>
    intro sizes g s' g' hinv h
    unfold growLoop at h
    split_ifs at h
    · rcases hn : g.next? nf with _ | ⟨i, g1⟩
      · rw [hn] at h; simp at h
      · rw [hn] at h
        simp only at h
        obtain ⟨_, _, hws1, hmw1, _⟩ := Gen.next?_spec hinv.wf hn
        have hinv1 : g1.Inv := by
          by_cases hz : 0 < g.ws.length
          · exact (Gen.next?_pot hinv hz hn).1
          · -- no items: `next` cannot have returned anything
            obtain ⟨_, _, _, _, hmem⟩ := Gen.next?_spec hinv.wf hn
            have : g.items = [] := List.length_eq_zero_iff.mp (by rw [hinv.wf.len_items]; omega)
            rw [this] at hmem; simp at hmem
        obtain ⟨a, b, c⟩ := ih _ g1 s' g' hinv1 h
        exact ⟨a, by rw [b, hws1], by rw [c, hmw1]⟩
    · simp only [Option.some.injEq, Prod.mk.injEq] at h
      obtain ⟨_, rfl⟩ := h
      exact ⟨hinv, rfl, rfl⟩

/-- **Explicit fuel for one grow loop**: `(stop − Σ sizes) · n · (maxW + 1)` iterations and
    `3 n + 3` micro-steps per `next` are enough. -/
theorem growLoop_terminates_bound (limits : List Nat) (stop : Nat) (grp : List Nat)
    (hnd : grp.Nodup) (sizes : List Nat) (g : Gen) (hinv : g.Inv) (hit : g.items = grp)
    (hrange : ∀ i ∈ grp, i < sizes.length) (hcap : stop ≤ sizes.sum + capOf sizes limits grp)
    {f nf : Nat} (hf : (stop - sizes.sum) * (g.ws.length * (g.maxW + 1)) ≤ f)
    (hnf : 3 * g.ws.length + 3 ≤ nf) :
    ∃ r, growLoop limits stop nf f sizes g = some r := by
  apply growLoop_bound limits stop grp hnd g.ws.length g.maxW f sizes g hinv hit rfl rfl hrange hcap
    _ nf hnf
  intro hlt
  obtain ⟨x, hx, hxlt⟩ := capOf_pos_exists (s := sizes) (lim := limits) (grp := grp) (by omega)
  obtain ⟨k, hk, hkx⟩ := List.getElem_of_mem hx
  have hkn : k < g.ws.length := by rw [← hinv.wf.len_items, hit]; exact hk
  have hgk : grp.getD k 0 = x := by rw [List.getD_eq_getElem?_getD]; simp [hk, hkx]
  refine ⟨k, hkn, by rw [hgk]; exact hxlt, ?_⟩
  have hple := Gen.pot_le hinv hkn
  generalize g.ws.length * (g.maxW + 1) = G at hf hple ⊢
  obtain ⟨d, hd⟩ : ∃ d, stop - sizes.sum = d + 1 := ⟨stop - sizes.sum - 1, by omega⟩
  have e1 : stop - sizes.sum - 1 = d := by omega
  rw [hd] at hf
  rw [e1]
  have : (d + 1) * G = d * G + G := by ring
  omega

/-- the counter of a finished loop: at most `(stop − Σ sizes) · n · (maxW + 1)` iterations, for
    whatever fuel the loop was run with -/
theorem growLoopC_count_le (limits : List Nat) (stop : Nat) (grp : List Nat)
    (hnd : grp.Nodup) (sizes : List Nat) (g : Gen) (hinv : g.Inv) (hit : g.items = grp)
    (hrange : ∀ i ∈ grp, i < sizes.length) (hcap : stop ≤ sizes.sum + capOf sizes limits grp)
    {f nf c : Nat} {r : List Nat × Gen × Nat}
    (h : growLoopC limits stop nf f sizes g c = some r) :
    r.2.2 ≤ c + (stop - sizes.sum) * (g.ws.length * (g.maxW + 1)) := by
  obtain ⟨⟨s0, g0⟩, h0⟩ := growLoop_terminates_bound limits stop grp hnd sizes g hinv hit hrange hcap
    (le_refl _) (le_refl _)
  obtain ⟨c0, hc0⟩ := growLoopC_of_growLoop c h0
  have hcount := (growLoopC_count _ _ _ _ _ _ _ _ hc0).2
  -- both runs agree with the run on the larger of the two fuels
  have m1 := growLoopC_mono limits stop (Nat.le_max_left nf (3 * g.ws.length + 3)) h
    (Nat.le_max_left f ((stop - sizes.sum) * (g.ws.length * (g.maxW + 1))))
  have m2 := growLoopC_mono limits stop (Nat.le_max_right nf (3 * g.ws.length + 3)) hc0
    (Nat.le_max_right f ((stop - sizes.sum) * (g.ws.length * (g.maxW + 1))))
  rw [m1] at m2
  simp only [Option.some.injEq] at m2
  rw [m2]
  exact hcount


/-! #### `_grow_sizes` over the groups -/

/-- every generator satisfies the invariant, has at most `n` items and no weight above `W` -/
def GensInv (n W : Nat) (gens : List (List Nat × Gen)) : Prop :=
  ∀ p ∈ gens, p.2.Inv ∧ p.2.ws.length ≤ n ∧ p.2.maxW ≤ W

theorem growSizesC_proj (F : Nat) (limits : List Nat) (stop : Nat) :
    ∀ (gens : List (List Nat × Gen)) (sizes : List Nat) (c : Nat),
      (growSizesC F limits stop sizes gens c).map (fun r => (r.1, r.2.1))
        = growSizes F limits stop sizes gens := by
  intro gens
  induction gens with
  | nil => intro sizes c; rfl
  | cons p rest ih =>
    intro sizes c
    obtain ⟨grp, g⟩ := p
    unfold growSizesC growSizes
    simp only
    have hp := growLoopC_proj limits (Nat.min stop (sizes.sum + capOf sizes limits grp)) F F sizes g c
    rcases h1 : growLoopC limits (Nat.min stop (sizes.sum + capOf sizes limits grp)) F F sizes g c
      with _ | ⟨s1, g1, c1⟩
    · rw [h1] at hp
      simp only [Option.map_none] at hp
      rw [← hp]; rfl
    · rw [h1] at hp
      simp only [Option.map_some] at hp
      rw [← hp]
      simp only
      have hr := ih s1 c1
      rcases h2 : growSizesC F limits stop s1 rest c1 with _ | ⟨s2, rest2, c2⟩
      · rw [h2] at hr
        simp only [Option.map_none] at hr
        rw [← hr]; rfl
      · rw [h2] at hr
        simp only [Option.map_some] at hr
        rw [← hr]; rfl

theorem growSizes_inv (n W F : Nat) (limits : List Nat) (stop : Nat) :
    ∀ (gens : List (List Nat × Gen)) (sizes s' : List Nat) (gens' : List (List Nat × Gen)),
      GensInv n W gens → growSizes F limits stop sizes gens = some (s', gens') →
      GensInv n W gens' := by
  intro gens
  induction gens with
  | nil =>
    intro sizes s' gens' hinv h
    simp only [growSizes, Option.some.injEq, Prod.mk.injEq] at h
    obtain ⟨_, rfl⟩ := h
    exact hinv
  | cons p rest ih =>
    intro sizes s' gens' hinv h
    obtain ⟨grp, g⟩ := p
    unfold growSizes at h
    simp only at h
    rcases h1 : growLoop limits (Nat.min stop (sizes.sum + capOf sizes limits grp)) F F sizes g
      with _ | ⟨s1, g1⟩
    · rw [h1] at h; simp at h
    · rw [h1] at h
      simp only at h
      rcases h2 : growSizes F limits stop s1 rest with _ | ⟨s2, rest2⟩
      · rw [h2] at h; simp at h
      · rw [h2] at h
        simp only [Option.some.injEq, Prod.mk.injEq] at h
        obtain ⟨_, rfl⟩ := h
        obtain ⟨a, b, c⟩ := hinv (grp, g) List.mem_cons_self
        obtain ⟨a1, b1, c1⟩ := growLoop_inv _ _ _ _ _ _ _ _ a h1
        have hrest := ih s1 s2 rest2 (fun q hq => hinv q (List.mem_cons_of_mem _ hq)) h2
        intro q hq
        rcases List.mem_cons.mp hq with rfl | hq
        · exact ⟨a1, by simp only; rw [b1]; exact b, by simp only; rw [c1]; exact c⟩
        · exact hrest q hq

theorem mul_gap_le {a len mw n W : Nat} (h1 : len ≤ n) (h2 : mw ≤ W) :
    a * (len * (mw + 1)) ≤ a * (n * (W + 1)) :=
  Nat.mul_le_mul_left _ (Nat.mul_le_mul h1 (by omega))

/-- **Explicit fuel for `_grow_sizes`.** -/
theorem growSizes_terminates_bound (n W : Nat) (limits : List Nat) (stop : Nat) :
    ∀ (gens : List (List Nat × Gen)) (sizes : List Nat),
      GensOK n gens → GensInv n W gens → sizes.length = n → sizes.sum ≤ stop →
      ∀ F, (stop - sizes.sum) * (n * (W + 1)) + 3 * n + 3 ≤ F →
        ∃ r, growSizes F limits stop sizes gens = some r := by
  intro gens
  induction gens with
  | nil => intro sizes _ _ _ _ F _; exact ⟨_, rfl⟩
  | cons p rest ih =>
    intro sizes hok hinv hlen hle F hF
    obtain ⟨grp, g⟩ := p
    obtain ⟨hall, hpair⟩ := hok
    have hp : GenOK n (grp, g) := hall _ List.mem_cons_self
    obtain ⟨gi, glen, gmw⟩ := hinv (grp, g) List.mem_cons_self
    simp only at gi glen gmw
    simp only [List.map_cons, List.pairwise_cons] at hpair
    have hokrest : GensOK n rest := ⟨fun q hq => hall q (List.mem_cons_of_mem _ hq), hpair.2⟩
    have hgs : sizes.sum ≤ Nat.min stop (sizes.sum + capOf sizes limits grp) := by
      simp only [Nat.min_def]; split_ifs <;> omega
    have hgle : Nat.min stop (sizes.sum + capOf sizes limits grp) ≤ stop := Nat.min_le_left _ _
    have hfuel : (Nat.min stop (sizes.sum + capOf sizes limits grp) - sizes.sum)
        * (g.ws.length * (g.maxW + 1)) ≤ F := by
      have h1 := mul_gap_le (a := Nat.min stop (sizes.sum + capOf sizes limits grp) - sizes.sum)
        glen gmw
      have h2 : (Nat.min stop (sizes.sum + capOf sizes limits grp) - sizes.sum) * (n * (W + 1))
          ≤ (stop - sizes.sum) * (n * (W + 1)) := Nat.mul_le_mul_right _ (by omega)
      omega
    obtain ⟨⟨s1, g1⟩, hr1⟩ := growLoop_terminates_bound limits
      (Nat.min stop (sizes.sum + capOf sizes limits grp)) grp hp.nodup sizes g gi hp.items
      (by intro i hi; rw [hlen]; exact hp.range i hi)
      (by simp only [Nat.min_def]; split_ifs <;> omega) hfuel (by omega : 3 * g.ws.length + 3 ≤ F)
    obtain ⟨_, _, _, b4, b5, _⟩ := growLoop_spec limits _ F F sizes g s1 g1 hp.wf hgs hr1
    have hs1le : s1.sum ≤ stop := by rw [b5]; exact hgle
    have hrestinv : GensInv n W rest := fun q hq => hinv q (List.mem_cons_of_mem _ hq)
    have hF2 : (stop - s1.sum) * (n * (W + 1)) + 3 * n + 3 ≤ F := by
      have : (stop - s1.sum) * (n * (W + 1)) ≤ (stop - sizes.sum) * (n * (W + 1)) :=
        Nat.mul_le_mul_right _ (by omega)
      omega
    obtain ⟨⟨s2, rest2⟩, hr2⟩ := ih s1 hokrest hrestinv (by rw [b4, hlen]) hs1le F hF2
    refine ⟨(s2, (grp, g1) :: rest2), ?_⟩
    unfold growSizes
    simp only
    rw [hr1]
    simp only
    rw [hr2]

/-- the counter of `_grow_sizes`: at most `n · (W + 1)` iterations per cell handed out -/
theorem growSizesC_count_le (n W F : Nat) (limits : List Nat) (stop : Nat) :
    ∀ (gens : List (List Nat × Gen)) (sizes : List Nat) (c : Nat)
      (r : List Nat × List (List Nat × Gen) × Nat),
      GensOK n gens → GensInv n W gens → sizes.length = n → sizes.sum ≤ stop →
      growSizesC F limits stop sizes gens c = some r →
      sizes.sum ≤ r.1.sum ∧ r.2.2 ≤ c + (r.1.sum - sizes.sum) * (n * (W + 1)) := by
  intro gens
  induction gens with
  | nil =>
    intro sizes c r _ _ _ _ h
    simp only [growSizesC, Option.some.injEq] at h
    subst h; simp
  | cons p rest ih =>
    intro sizes c r hok hinv hlen hle h
    obtain ⟨grp, g⟩ := p
    obtain ⟨hall, hpair⟩ := hok
    have hp : GenOK n (grp, g) := hall _ List.mem_cons_self
    obtain ⟨gi, glen, gmw⟩ := hinv (grp, g) List.mem_cons_self
    simp only at gi glen gmw
    simp only [List.map_cons, List.pairwise_cons] at hpair
    have hokrest : GensOK n rest := ⟨fun q hq => hall q (List.mem_cons_of_mem _ hq), hpair.2⟩
    have hrestinv : GensInv n W rest := fun q hq => hinv q (List.mem_cons_of_mem _ hq)
    have hgs : sizes.sum ≤ Nat.min stop (sizes.sum + capOf sizes limits grp) := by
      simp only [Nat.min_def]; split_ifs <;> omega
    have hgle : Nat.min stop (sizes.sum + capOf sizes limits grp) ≤ stop := Nat.min_le_left _ _
    unfold growSizesC at h
    rcases h1 : growLoopC limits (Nat.min stop (sizes.sum + capOf sizes limits grp)) F F sizes g c
      with _ | ⟨s1, g1, c1⟩
    · rw [h1] at h; simp at h
    · rw [h1] at h
      simp only at h
      rcases h2 : growSizesC F limits stop s1 rest c1 with _ | ⟨s2, rest2, c2⟩
      · rw [h2] at h; simp at h
      · rw [h2] at h
        simp only [Option.some.injEq] at h
        subst h
        simp only
        have hcnt := growLoopC_count_le limits (Nat.min stop (sizes.sum + capOf sizes limits grp))
          grp hp.nodup sizes g gi hp.items (by intro i hi; rw [hlen]; exact hp.range i hi)
          (by simp only [Nat.min_def]; split_ifs <;> omega) h1
        simp only at hcnt
        have hl1 : growLoop limits (Nat.min stop (sizes.sum + capOf sizes limits grp)) F F sizes g
            = some (s1, g1) := by
          rw [← growLoopC_proj _ _ _ _ _ _ c, h1]; rfl
        obtain ⟨_, _, _, b4, b5, _⟩ := growLoop_spec limits _ F F sizes g s1 g1 hp.wf hgs hl1
        have hs1le : s1.sum ≤ stop := by rw [b5]; exact hgle
        obtain ⟨i1, i2⟩ := ih s1 c1 _ hokrest hrestinv (by rw [b4, hlen]) hs1le h2
        simp only at i1 i2
        have hmono := mul_gap_le
          (a := Nat.min stop (sizes.sum + capOf sizes limits grp) - sizes.sum) glen gmw
        rw [← b5] at hmono hcnt
        refine ⟨by omega, ?_⟩
        have hsplit : (s2.sum - sizes.sum) * (n * (W + 1))
            = (s1.sum - sizes.sum) * (n * (W + 1)) + (s2.sum - s1.sum) * (n * (W + 1)) := by
          rw [← Nat.add_mul]
          congr 1
          omega
        omega


/-! #### `_child_generators` -/

theorem foldl_max_le {l : List Nat} {B : Nat} (h : ∀ x ∈ l, x ≤ B) :
    ∀ acc, acc ≤ B → l.foldl Nat.max acc ≤ B := by
  induction l with
  | nil => intro acc ha; exact ha
  | cons a l ih =>
    intro acc ha
    simp only [List.foldl_cons]
    apply ih (fun x hx => h x (List.mem_cons_of_mem _ hx))
    have := h a List.mem_cons_self
    simp only [Nat.max_def]; split_ifs <;> omega

theorem maxOf_le {l : List Nat} {B : Nat} (h : ∀ x ∈ l, x ≤ B) : maxOf l ≤ B :=
  foldl_max_le h 0 (Nat.zero_le _)

theorem mkGroupGen_inv (dims : List Dim) (b : Bool)
    (hne : groupIdx (dims.map (·.weight)) b ≠ []) :
    (mkGroupGen (dims.map (·.weight)) (groupIdx (dims.map (·.weight)) b)).2.Inv ∧
    (mkGroupGen (dims.map (·.weight)) (groupIdx (dims.map (·.weight)) b)).2.ws.length ≤ dims.length ∧
    (mkGroupGen (dims.map (·.weight)) (groupIdx (dims.map (·.weight)) b)).2.maxW ≤ maxWeight dims := by
  obtain ⟨hinv, _, hws, hmw⟩ := Gen.init_inv (items := groupIdx (dims.map (·.weight)) b)
    (weights := (groupIdx (dims.map (·.weight)) b).map fun i =>
      if (dims.map (·.weight)).getD i 0 = 0 then 1 else (dims.map (·.weight)).getD i 0)
    (by simp)
    (by
      intro w hw
      obtain ⟨i, _, rfl⟩ := List.mem_map.mp hw
      split_ifs <;> omega)
    hne
  unfold mkGroupGen
  refine ⟨hinv, ?_, ?_⟩
  · simp only
    rw [hws, List.length_map]
    unfold groupIdx
    have := List.length_filter_le (fun i => (decide ((dims.map (·.weight)).getD i 0 > 0)) == b)
      (List.range (dims.map (·.weight)).length)
    simpa using this
  · simp only
    rw [hmw]
    apply maxOf_le
    intro w hw
    obtain ⟨i, hi, rfl⟩ := List.mem_map.mp hw
    have hil := groupIdx_lt hi
    have hmem : (dims.map (·.weight)).getD i 0 ∈ dims.map (·.weight) := by
      rw [List.getD_eq_getElem?_getD]
      simp only [hil, List.getElem?_eq_getElem, Option.getD_some]
      exact List.getElem_mem hil
    have := le_maxOf hmem
    unfold maxWeight
    simp only [Nat.max_def]
    split_ifs <;> omega

theorem childGenerators_inv (dims : List Dim) :
    GensInv dims.length (maxWeight dims) (childGenerators dims) := by
  rw [childGenerators_eq]
  intro p hp
  rw [List.mem_append] at hp
  rcases hp with hp | hp
  · split_ifs at hp with h1
    · simp at hp
    · simp only [List.mem_singleton] at hp
      subst hp
      exact mkGroupGen_inv dims true h1
  · split_ifs at hp with h2
    · simp at hp
    · simp only [List.mem_singleton] at hp
      subst hp
      exact mkGroupGen_inv dims false h2

end Ptk.C12
