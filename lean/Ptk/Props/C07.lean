/-
  C07 — Undo walks back through texts actually held; redo exactly reverses undo.

  Everything is stated over `Ptk.Model.C07` (hand translation of buffer.py
  `save_to_undo_stack` / `undo` / `redo` / `reset` and of
  `KeyProcessor._call_handler`), for ALL sessions: any number of commands, any
  handler bodies (`Buf → Buf` parameters), any `save_before` rules, any initial
  document.

  Ghost state: `G.log` = the (text, cursor) states the buffer held at the command
  boundaries so far, newest first (the state at the moment `_call_handler` is
  entered, i.e. before `save_before` and before the handler runs).
-/
import Ptk.Props.C07Lemmas
namespace Ptk.C07
open Ptk.Py

/-! ## 1. Undo only walks through states actually held at command boundaries -/

/-- **stack_sublist_log.**  After any session the undo stack (top first) is a SUBSEQUENCE of the log
    of (text, cursor) states held at command boundaries (newest first): every entry is a state the
    buffer really had at a boundary, cursor included, and the entries are in chronological order. -/
theorem stack_sublist_log (rule : Nat → Bool → Bool) (cmds : List Cmd) (b0 : Buf) :
    (runG rule cmds (gInit b0)).k.st.undo.Sublist (runG rule cmds (gInit b0)).log :=
  (inv_run rule cmds _ (inv_init b0)).1

/-- **redo_mem_log.**  Every redo entry is a state held at a command boundary. -/
theorem redo_mem_log (rule : Nat → Bool → Bool) (cmds : List Cmd) (b0 : Buf) :
    ∀ r ∈ (runG rule cmds (gInit b0)).k.st.redo, r ∈ (runG rule cmds (gInit b0)).log :=
  (inv_run rule cmds _ (inv_init b0)).2

/-- **undo_spec.**  What one `Buffer.undo()` does: either every stack entry carries the current
    text (then nothing is restored and the stack is emptied), or the stack splits as
    `pre ++ t :: rest` where `pre` all carry the current text, `t` has a different text, and the
    result is exactly `t` with `rest` left on the stack and the undone state pushed on redo. -/
theorem undo_spec (s : St) :
    ((∀ p ∈ s.undo, p.text = s.buf.text) ∧ undo s = { buf := s.buf, undo := [], redo := s.redo }) ∨
    (∃ pre t rest, s.undo = pre ++ t :: rest ∧ (∀ p ∈ pre, p.text = s.buf.text) ∧
      t.text ≠ s.buf.text ∧ undo s = { buf := t, undo := rest, redo := s.buf :: s.redo }) := by
  cases hl : undoLoop s.buf s.undo with
  | none => exact Or.inl ⟨undoLoop_none hl, undo_none hl⟩
  | some p =>
    obtain ⟨t, rest⟩ := p
    obtain ⟨pre, h1, h2, h3⟩ := undoLoop_some hl
    exact Or.inr ⟨pre, t, rest, h1, h2, h3, undo_some hl⟩

/-- **undo_restores_logged** (undo_sound).  After any session, an undo either changes nothing or
    restores a (text, cursor) pair that the buffer held at a STRICTLY EARLIER command boundary
    (the log does not yet contain the boundary of the undo command itself), whose text differs
    from the text that is undone.  No text is ever invented. -/
theorem undo_restores_logged (rule : Nat → Bool → Bool) (cmds : List Cmd) (b0 : Buf) :
    let g := runG rule cmds (gInit b0)
    (undo g.k.st).buf = g.k.st.buf ∨
      ((undo g.k.st).buf ∈ g.log ∧ (undo g.k.st).buf.text ≠ g.k.st.buf.text) := by
  intro g
  have hU : g.k.st.undo.Sublist g.log := stack_sublist_log rule cmds b0
  cases hl : undoLoop g.k.st.buf g.k.st.undo with
  | none => left; rw [undo_none hl]
  | some p =>
    obtain ⟨t, rest⟩ := p
    right
    rw [undo_some hl]
    obtain ⟨pre, h1, _, h3⟩ := undoLoop_some hl
    exact ⟨hU.subset (by rw [h1]; simp), h3⟩

/-- the trace of successive undos is a subsequence of the undo stack -/
theorem undoTrace_sublist (n : Nat) (s : St) : (undoTrace n s).Sublist s.undo := by
  induction n generalizing s with
  | zero => simp [undoTrace]
  | succ n ih =>
    cases hl : undoLoop s.buf s.undo with
    | none => rw [undoTrace_none hl]; simp
    | some p =>
      obtain ⟨t, rest⟩ := p
      rw [undoTrace_some hl]
      have h := ih (undo s)
      rw [undo_some hl] at h
      rw [undo_some hl]
      exact (List.Sublist.cons_cons t h).trans (undoLoop_sublist hl)

/-- the `i`-th element of the trace is the buffer after `i+1` undos, and its text differs from the
    text after `i` undos -/
theorem undoTrace_get (n : Nat) (s : St) (i : Nat) (b : Buf) (hi : (undoTrace n s)[i]? = some b) :
    b = (undoN (i + 1) s).buf ∧ b.text ≠ (undoN i s).buf.text := by
  induction n generalizing s i with
  | zero => simp [undoTrace] at hi
  | succ n ih =>
    cases hl : undoLoop s.buf s.undo with
    | none => rw [undoTrace_none hl] at hi; simp at hi
    | some p =>
      obtain ⟨t, rest⟩ := p
      rw [undoTrace_some hl] at hi
      cases i with
      | zero =>
        obtain ⟨_, _, _, h3⟩ := undoLoop_some hl
        simp at hi
        subst hi
        simp [undoN, undo_some hl, h3]
      | succ i =>
        have := ih (undo s) i (by simpa using hi)
        simpa [undoN] using this

/-- **undo_walks_back** (reverse chronological order).  After any session, the states restored by
    ANY number of successive undos, in the order in which they are restored, form a subsequence of
    the boundary log read from newest to oldest: each undo step lands strictly further back in the
    history than the previous one, on a state that was really held. -/
theorem undo_walks_back (rule : Nat → Bool → Bool) (cmds : List Cmd) (b0 : Buf) (n : Nat) :
    (undoTrace n (runG rule cmds (gInit b0)).k.st).Sublist (runG rule cmds (gInit b0)).log :=
  (undoTrace_sublist n _).trans (stack_sublist_log rule cmds b0)

/-! ## 2. Redo exactly reverses undo -/

/-- **redo_undo.**  If `undo` restored something (the text changed), an immediately following
    `redo` brings back exactly the (text, cursor) that was undone, and the redo stack is as before. -/
theorem redo_undo (s : St) (h : (undo s).buf.text ≠ s.buf.text) :
    (redo (undo s)).buf = s.buf ∧ (redo (undo s)).redo = s.redo := by
  cases hl : undoLoop s.buf s.undo with
  | none => rw [undo_none hl] at h; exact absurd rfl h
  | some p =>
    obtain ⟨t, rest⟩ := p
    rw [undo_some hl]
    simp [redo]

/-- **redoN_undoN.**  `n` undos that each restore something, followed by `n` redos, bring back
    exactly the original (text, cursor) and redo stack. -/
theorem redoN_undoN (n : Nat) (s : St) (h : UndoChanges n s) :
    (redoN n (undoN n s)).buf = s.buf ∧ (redoN n (undoN n s)).redo = s.redo := by
  induction n generalizing s with
  | zero => exact ⟨rfl, rfl⟩
  | succ n ih =>
    obtain ⟨h1, h2⟩ := h
    obtain ⟨ihb, ihr⟩ := ih (undo s) h2
    have hc := redo_congr ihb ihr
    have hu := redo_undo s (undoChanges_text h1)
    show (redo (redoN n (undoN n (undo s)))).buf = s.buf ∧ (redo (redoN n (undoN n (undo s)))).redo = s.redo
    exact ⟨hc.1.trans hu.1, hc.2.trans hu.2⟩

/-- **save_clears_redo.**  `save_to_undo_stack()` (what every saving command boundary does) empties
    the redo stack. -/
theorem save_clears_redo (s : St) : (saveToUndo true s).redo = [] := by
  simp [saveToUndo]

/-- **saving_command_clears_redo.**  Any command whose `save_before` fires and whose body is an
    edit leaves an empty redo stack, whatever was on it. -/
theorem saving_command_clears_redo (h : Nat) (rule : Bool → Bool) (f : Buf → Buf) (k : KSt)
    (hs : rule (decide (k.prev = some h)) = true) :
    (callHandler h rule [Act.edit f] k).st.redo = [] := by
  simp [callHandler_eq, boundary, hs, act, saveToUndo_redo]

/-! ## 3. Repeated undo reaches the initial text; every edit command discards redo -/

/-- **undoN_reaches_bottom.**  Once `n` is at least the height of the undo stack, `n` undos end on
    the text of the bottom entry (and the stack is exhausted). -/
theorem undoN_reaches_bottom (n : Nat) (s : St) (hn : s.undo.length ≤ n) :
    (undoN n s).buf.text = botText s ∧ (undoN n s).undo = [] := by
  have hb := botText_undoN n s
  have he : (undoN n s).undo = [] := by
    induction n generalizing s with
    | zero => show s.undo = []; exact List.eq_nil_of_length_eq_zero (by omega)
    | succ n ih =>
      have := undo_length s
      exact ih (undo s) (by omega) (botText_undoN n (undo s))
  refine ⟨?_, he⟩
  rw [← hb]; unfold botText; rw [he]; simp

/-- **undo_reaches_initial.**  After ANY well-formed session from ANY initial document, undoing at
    least as many times as the undo stack is high ends on the text the session started with (and
    further undos stay there: the stack is empty). -/
theorem undo_reaches_initial (rule : Nat → Bool → Bool) (isEditH : Nat → Bool) (cmds : List Cmd)
    (b0 : Buf) (hwf : WF rule isEditH cmds) (n : Nat)
    (hn : (runK rule cmds (kInit b0)).st.undo.length ≤ n) :
    (undoN n (runK rule cmds (kInit b0)).st).buf.text = b0.text ∧
      (undoN n (runK rule cmds (kInit b0)).st).undo = [] := by
  have hI := sinv_run rule isEditH b0.text cmds (kInit b0) hwf (sinv_init isEditH b0)
  have := undoN_reaches_bottom n _ hn
  exact ⟨this.1.trans hI.1, this.2⟩

/-- **edit_discards_redo.**  In ANY well-formed session, right after ANY editing command the redo
    stack is empty — also when the command did not save because it was a repeat (then the redo
    stack had already been emptied when the run of repeats started). -/
theorem edit_discards_redo (rule : Nat → Bool → Bool) (isEditH : Nat → Bool) (cmds : List Cmd)
    (c : Cmd) (b0 : Buf) (hwf : WF rule isEditH (cmds ++ [c])) (hc : c.body.isEdit = true) :
    (runK rule (cmds ++ [c]) (kInit b0)).st.redo = [] := by
  have hI := sinv_run rule isEditH b0.text (cmds ++ [c]) (kInit b0) hwf (sinv_init isEditH b0)
  have hp : (runK rule (cmds ++ [c]) (kInit b0)).prev = some c.h := by
    simp [runK, List.foldl_append, stepK_eq]
  have hE : isEditH c.h = true := by rw [← hwf.kind c (by simp)]; exact hc
  exact (hI.2 c.h hp hE).2

/-! ## 4. A run of repeats of one grouped handler is undone as one group -/

/-- **group_undone_as_one.**  Let `h` be a handler with the `if_no_repeat` rule (it saves when it
    is not a repeat and does not save when it is).  From any state whose previous handler is not
    `h`, run ANY non-empty sequence of calls of `h` (a run of typed characters / of Backspaces).
    If the run changed the text, ONE undo restores exactly the (text, cursor) from before the
    run, the redo stack holds exactly the state after the run, and redo brings that state back. -/
theorem group_undone_as_one (h : Nat) (rule : Bool → Bool) (hr0 : rule false = true)
    (hr1 : rule true = false) (k0 : KSt) (hp : k0.prev ≠ some h) (f : Buf → Buf)
    (fs : List (Buf → Buf)) :
    let k1 := runSame h rule (f :: fs) k0
    k1.st.buf.text ≠ k0.st.buf.text →
      (undo k1.st).buf = k0.st.buf ∧ (undo k1.st).redo = [k1.st.buf] ∧
        (redo (undo k1.st)).buf = k1.st.buf := by
  intro k1 hne
  -- the first call is not a repeat: it saves
  have hfirst : callHandler h rule [Act.edit f] k0 =
      { st := { (saveToUndo true k0.st) with buf := f k0.st.buf }, prev := some h } := by
    simp [callHandler_eq, boundary, hp, hr0, act, saveToUndo_buf]
  obtain ⟨rest, hrest⟩ := saveToUndo_top true k0.st
  have hrun := runSame_repeat h rule fs (callHandler h rule [Act.edit f] k0) (by rw [hfirst]) hr1
  have hk1 : k1 = runSame h rule fs (callHandler h rule [Act.edit f] k0) := rfl
  rw [← hk1, hfirst] at hrun
  simp only [save_clears_redo] at hrun
  obtain ⟨hu, hr⟩ := hrun
  rw [hrest] at hu
  have hl : undoLoop k1.st.buf k1.st.undo = some (k0.st.buf, rest) := by
    rw [hu]; unfold undoLoop; rw [if_pos (fun e => hne e.symm)]
  have hundo := undo_some hl
  refine ⟨by rw [hundo], by rw [hundo, hr], ?_⟩
  exact (redo_undo k1.st (by rw [hundo]; exact fun e => hne e.symm)).1

/-- typing a non-empty string changes the text (it gets longer) -/
theorem runSame_typing_text_ne (h : Nat) (rule : Bool → Bool) (k0 : KSt) (c : Char) (cs : List Char) :
    (runSame h rule ((c :: cs).map fun ch => insertText [ch]) k0).st.buf.text ≠ k0.st.buf.text := by
  have hlen : ∀ (fs : List Char) (k : KSt),
      (runSame h rule (fs.map fun ch => insertText [ch]) k).st.buf.text.length =
        k.st.buf.text.length + fs.length := by
    intro fs
    induction fs with
    | nil => intro k; rfl
    | cons x xs ih =>
      intro k
      have hstep : (callHandler h rule [Act.edit (insertText [x])] k).st.buf.text.length =
          k.st.buf.text.length + 1 := by
        simp only [callHandler_eq, List.foldl_cons, List.foldl_nil, act, boundary_buf, insertText,
          List.length_append, List.length_take, List.length_drop, List.length_cons, List.length_nil]
        omega
      simp only [List.map_cons, runSame, List.foldl_cons]
      have := ih (callHandler h rule [Act.edit (insertText [x])] k)
      simp only [runSame] at this
      rw [this, hstep, List.length_cons]; omega
  intro e
  have := hlen (c :: cs) k0
  rw [e] at this
  simp at this

/-- **typing_then_undo.**  The everyday instance: after anything that was not self-insert, type ANY
    non-empty string character by character through a handler with the `if_no_repeat` rule; ONE
    undo restores exactly the text and cursor from before the first character. -/
theorem typing_then_undo (h : Nat) (rule : Bool → Bool) (hr0 : rule false = true)
    (hr1 : rule true = false) (k0 : KSt) (hp : k0.prev ≠ some h) (c : Char) (cs : List Char) :
    (undo (runSame h rule ((c :: cs).map fun ch => insertText [ch]) k0).st).buf = k0.st.buf :=
  (group_undone_as_one h rule hr0 hr1 k0 hp (insertText [c]) (cs.map fun ch => insertText [ch])
    (runSame_typing_text_ne h rule k0 c cs)).1

/-- commands that keep the text (cursor motions, Escape, mode switches, …): any handlers, any rules -/
def runKeep (ms : List (Nat × (Bool → Bool) × (Buf → Buf))) (k : KSt) : KSt :=
  ms.foldl (fun k m => callHandler m.1 m.2.1 [Act.edit m.2.2] k) k

/-- **group_then_motions_then_undo.**  As `group_undone_as_one`, but between the run and the undo
    ANY number of text-preserving commands may happen (e.g. Vi: `i` … typed text … Escape, then
    `u`; emacs: typed text, cursor keys, then C-_): the first undo still restores exactly the
    (text, cursor) from before the run. -/
theorem group_then_motions_then_undo (h : Nat) (rule : Bool → Bool) (hr0 : rule false = true)
    (hr1 : rule true = false) (k0 : KSt) (hp : k0.prev ≠ some h) (f : Buf → Buf)
    (fs : List (Buf → Buf)) (ms : List (Nat × (Bool → Bool) × (Buf → Buf)))
    (hms : ∀ m ∈ ms, ∀ b, (m.2.2 b).text = b.text) :
    let k1 := runSame h rule (f :: fs) k0
    k1.st.buf.text ≠ k0.st.buf.text → (undo (runKeep ms k1).st).buf = k0.st.buf := by
  intro k1 hne
  -- the stack after the run
  have hfirst : callHandler h rule [Act.edit f] k0 =
      { st := { (saveToUndo true k0.st) with buf := f k0.st.buf }, prev := some h } := by
    simp [callHandler_eq, boundary, hp, hr0, act, saveToUndo_buf]
  obtain ⟨rest, hrest⟩ := saveToUndo_top true k0.st
  have hrun := runSame_repeat h rule fs (callHandler h rule [Act.edit f] k0) (by rw [hfirst]) hr1
  have hk1 : k1 = runSame h rule fs (callHandler h rule [Act.edit f] k0) := rfl
  rw [← hk1, hfirst] at hrun
  have hu : k1.st.undo = k0.st.buf :: rest := by rw [hrun.1]; exact hrest
  -- invariant along the text-preserving commands
  have hinv : ∀ (ms : List (Nat × (Bool → Bool) × (Buf → Buf))) (k : KSt),
      (∀ m ∈ ms, ∀ b, (m.2.2 b).text = b.text) →
      k.st.buf.text = k1.st.buf.text →
      (k.st.undo = k0.st.buf :: rest ∨ ∃ p, p.text = k1.st.buf.text ∧ k.st.undo = p :: k0.st.buf :: rest) →
      (undo (runKeep ms k).st).buf = k0.st.buf := by
    intro ms
    induction ms with
    | nil =>
      intro k _ ht hs
      have hne' : k0.st.buf.text ≠ k.st.buf.text := by rw [ht]; exact fun e => hne e.symm
      rcases hs with hs | ⟨p, hpt, hs⟩
      · have hl : undoLoop k.st.buf k.st.undo = some (k0.st.buf, rest) := by
          rw [hs]; unfold undoLoop; rw [if_pos hne']
        show (undo k.st).buf = _
        rw [undo_some hl]
      · have hl : undoLoop k.st.buf k.st.undo = some (k0.st.buf, rest) := by
          rw [hs]; unfold undoLoop
          rw [if_neg (by rw [hpt, ht]; simp)]
          unfold undoLoop; rw [if_pos hne']
        show (undo k.st).buf = _
        rw [undo_some hl]
    | cons m ms ih =>
      intro k hm ht hs
      apply ih (callHandler m.1 m.2.1 [Act.edit m.2.2] k) (fun m' hm' => hm m' (List.mem_cons_of_mem _ hm'))
      · simp only [callHandler_eq, List.foldl_cons, List.foldl_nil, act, boundary_buf]
        rw [hm m (by simp)]; exact ht
      · simp only [callHandler_eq, List.foldl_cons, List.foldl_nil, act]
        unfold boundary
        split
        · -- the boundary saved
          unfold saveToUndo
          rcases hs with hs | ⟨p, hpt, hs⟩
          · right
            rw [hs]
            have : ¬ (k0.st.buf.text = k.st.buf.text) := by rw [ht]; exact fun e => hne e.symm
            simp only [this, if_false]
            exact ⟨k.st.buf, ht, rfl⟩
          · right
            rw [hs]
            have : p.text = k.st.buf.text := by rw [hpt, ht]
            simp only [this, if_true]
            exact ⟨_, ht, rfl⟩
        · exact hs
  exact hinv ms k1 hms rfl (Or.inl hu)

/-! ### cursor position reports are invisible to undo -/

/-- a run of one handler with cursor position reports (`none`) arriving at arbitrary key boundaries -/
def runSameCpr (h : Nat) (rule : Bool → Bool) (items : List (Option (Buf → Buf))) (k : KSt) : KSt :=
  items.foldl (fun k it => match it with
    | some f => callHandler h rule [Act.edit f] k
    | none => cprResponse k) k

/-- **cpr_keeps_everything.**  A CPR response changes neither the buffer, nor the undo / redo
    stacks, nor the previous handler. -/
theorem cpr_keeps_everything (k : KSt) :
    (cprResponse k).st = k.st ∧ (cprResponse k).prev = k.prev := ⟨rfl, rfl⟩

/-- **cpr_invisible_in_run.**  CPR responses interleaved with the keys of a run change nothing:
    the result is that of the run without them (same text, same stacks, same grouping). -/
theorem cpr_invisible_in_run (h : Nat) (rule : Bool → Bool) (items : List (Option (Buf → Buf)))
    (k : KSt) : runSameCpr h rule items k = runSame h rule (items.filterMap id) k := by
  induction items generalizing k with
  | nil => rfl
  | cons it its ih =>
    cases it with
    | none => simpa [runSameCpr, cprResponse] using ih k
    | some f => simpa [runSameCpr, runSame] using ih (callHandler h rule [Act.edit f] k)

/-- **group_with_cpr_undone_as_one.**  `type a b <CPR> c d`, undo: a run of an `if_no_repeat`
    handler with CPR responses at ANY key boundaries (before, between, after the keys) is still
    undone by ONE undo, back to the exact (text, cursor) from before the run. -/
theorem group_with_cpr_undone_as_one (h : Nat) (rule : Bool → Bool) (hr0 : rule false = true)
    (hr1 : rule true = false) (k0 : KSt) (hp : k0.prev ≠ some h)
    (items : List (Option (Buf → Buf))) (f : Buf → Buf) (fs : List (Buf → Buf))
    (hitems : items.filterMap id = f :: fs) :
    let k1 := runSameCpr h rule items k0
    k1.st.buf.text ≠ k0.st.buf.text → (undo k1.st).buf = k0.st.buf := by
  intro k1 hne
  have hk : k1 = runSame h rule (f :: fs) k0 := by
    show runSameCpr h rule items k0 = _
    rw [cpr_invisible_in_run, hitems]
  rw [hk] at hne ⊢
  exact (group_undone_as_one h rule hr0 hr1 k0 hp f fs hne).1

/-- **cpr_through_call_handler_splits_run** (why `_process_cpr_response` must not touch
    `_previous_handler`): if the report were dispatched like a key — a `_call_handler` of the CPR
    binding (identity 99, `save_before` never, empty body), which records itself as the previous
    handler — then after `a b <CPR> c d` one undo would give `ab`, not the text before the run. -/
theorem cpr_through_call_handler_splits_run :
    let rule : Bool → Bool := fun rep => !rep
    let k0 := kInit { text := [], cur := 0 }
    let k1 := runSame 0 rule [insertText ['a'], insertText ['b']] k0
    let k2 := callHandler 99 (fun _ => false) [] k1
    let k3 := runSame 0 rule [insertText ['c'], insertText ['d']] k2
    (undo k3.st).buf = { text := ['a', 'b'], cur := 2 } ∧
    (undo (runSame 0 rule [insertText ['c'], insertText ['d']] (cprResponse k1)).st).buf = k0.st.buf := by
  decide

/-- **ungrouped_when_every_call_saves** (the defect found in /repo, shown on the model).
    If the effective rule of the self-insert binding is `always` — which is what
    `KeyBindings.add(..., save_before=if_no_repeat)(<Binding>)` produced before /repo commit 3961882,
    because the explicit `save_before` was ignored — typing `a`, `b` at `x|y` and undoing once gives
    `xa|y`, not `x|y`: the run is NOT undone as one group.  (Replayed on the real code by the
    corpus witness `emacs "x|y" a b C-_`; `group_undone_as_one` is what holds after the fix.) -/
theorem ungrouped_when_every_call_saves :
    let k0 := kInit { text := ['x', 'y'], cur := 1 }
    let k1 := runSame 0 (fun _ => true) [insertText ['a'], insertText ['b']] k0
    (undo k1.st).buf = { text := ['x', 'a', 'y'], cur := 2 } ∧ (undo k1.st).buf ≠ k0.st.buf := by
  decide

/-! ## 5. Snapshots are valid documents -/

/-- **snapshots_valid.**  If the initial document is valid (cursor ≤ len(text)) and every handler
    body maps valid documents to valid documents, then after any session the current document and
    every entry of both stacks is valid — so `Document(text, cursor_position=pos)` inside
    `undo()` / `redo()` never trips its assertion, and restoring never leaves the cursor outside the text. -/
theorem snapshots_valid (rule : Nat → Bool → Bool) (cmds : List Cmd) (b0 : Buf) (h0 : Valid b0)
    (hk : ∀ c ∈ cmds, c.body.KeepsValid) : VInv (runK rule cmds (kInit b0)).st := by
  have hinit : VInv (kInit b0).st := ⟨h0, by simp [kInit, reset], by simp [kInit, reset]⟩
  generalize kInit b0 = k at hinit
  induction cmds generalizing k with
  | nil => exact hinit
  | cons c cs ih =>
    apply ih (fun c' hc' => hk c' (List.mem_cons_of_mem _ hc'))
    rw [stepK_eq]
    have hb : VInv (boundary (rule c.h) c.h k) := by
      unfold boundary; split
      · exact vinv_save true _ hinit
      · exact hinit
    have hkc := hk c (by simp)
    cases hbody : c.body with
    | edit f =>
      rw [hbody] at hkc
      exact ⟨hkc _ hb.1, hb.2.1, hb.2.2⟩
    | undo n post =>
      rw [hbody] at hkc
      have := vinv_undoN n _ hb
      exact ⟨hkc _ this.1, this.2.1, this.2.2⟩
    | redo post =>
      rw [hbody] at hkc
      have := vinv_redo _ hb
      exact ⟨hkc _ this.1, this.2.1, this.2.2⟩
    | save cl => exact vinv_save cl _ hb

/-- the Vi cursor fix keeps the text and validity (so it is an admissible `post`) -/
theorem viFix_text (b : Buf) : (viFix b).text = b.text := by
  rcases viFix_cases b with h | h <;> rw [h]

theorem viFix_valid (b : Buf) (h : Valid b) : Valid (viFix b) := by
  rcases viFix_cases b with h' | h' <;> rw [h']
  · exact h
  · unfold Valid at *; simp; omega

/-! ## 6. More structure: undo after redo; at most one snapshot is skipped -/

/-- **undo_redo.**  If `redo` restores a state with a different text, an immediately following
    `undo` brings back exactly the (text, cursor) from before the redo, and the redo stack too. -/
theorem undo_redo (s : St) (r : Buf) (rest : List Buf) (hr : s.redo = r :: rest)
    (hne : s.buf.text ≠ r.text) :
    (undo (redo s)).buf = s.buf ∧ (undo (redo s)).redo = s.redo := by
  obtain ⟨rest', hrest⟩ := saveToUndo_top false s
  have h1 : redo s = { buf := r, undo := s.buf :: rest', redo := rest } := by
    simp [redo, hr, hrest]
  have hl : undoLoop (redo s).buf (redo s).undo = some (s.buf, rest') := by
    rw [h1]; unfold undoLoop; rw [if_pos hne]
  rw [undo_some hl, h1, hr]; exact ⟨rfl, rfl⟩

/-- **stack_adjacent_distinct.**  After any session, neighbouring undo-stack entries always carry
    different texts (a save with an unchanged text only refreshes the cursor of the top entry). -/
theorem stack_adjacent_distinct (rule : Nat → Bool → Bool) (cmds : List Cmd) (b0 : Buf) :
    AdjDistinct (runK rule cmds (kInit b0)).st.undo := by
  have hinit : AdjDistinct (kInit b0).st.undo := by simp [kInit, reset, AdjDistinct]
  generalize kInit b0 = k at hinit
  induction cmds generalizing k with
  | nil => exact hinit
  | cons c cs ih =>
    apply ih
    rw [stepK_eq]
    have hb : AdjDistinct (boundary (rule c.h) c.h k).undo := by
      unfold boundary; split
      · exact adj_saveToUndo true _ hinit
      · exact hinit
    generalize boundary (rule c.h) c.h k = s1 at hb
    cases c.body with
    | edit f => exact hb
    | undo n post =>
      simp only [Body.run]
      induction n generalizing s1 with
      | zero => exact hb
      | succ n ihn => exact ihn _ (adj_undo s1 hb)
    | redo post => exact adj_redo s1 hb
    | save cl => exact adj_saveToUndo cl s1 hb

/-- **undo_skips_at_most_one.**  With neighbouring entries distinct, `undo` discards at most ONE
    snapshot besides the one it restores (the top entry, when it carries the current text). -/
theorem undo_skips_at_most_one (s : St) (h : AdjDistinct s.undo) (t : Buf) (rest : List Buf)
    (hl : undoLoop s.buf s.undo = some (t, rest)) :
    s.undo = t :: rest ∨ ∃ p, p.text = s.buf.text ∧ s.undo = p :: t :: rest := by
  obtain ⟨pre, h1, h2, _⟩ := undoLoop_some hl
  cases pre with
  | nil => left; simpa using h1
  | cons p pre =>
    cases pre with
    | nil => right; exact ⟨p, h2 p (by simp), by simpa using h1⟩
    | cons q pre =>
      rw [h1] at h
      exact absurd ((h2 p (by simp)).trans (h2 q (by simp)).symm) h.1

/-! ## 7. The shipped emacs bindings: hypothesis-free instances

    `EKey` / `ekey` (Model) is the fully modelled key set {printable characters, Backspace, Delete,
    Left, Right, Home, End, C-k, C-_, C-x C-u, redo}; its rules and handler identities are the ones
    declared in basic.py / emacs.py, and the correspondence checks on every run that the real
    `PromptSession` agrees with it key by key (text, cursor, both stacks, previous handler). -/

/-- the same key as a `Cmd` of the general session model -/
def EKey.toCmd (key : EKey) : Cmd :=
  { h := key.hid,
    body := match key with
      | .char c => .edit (insertText [c])
      | .backspace => .edit (deleteBefore 1)
      | .delete => .edit (Ptk.C07.delete 1)
      | .left => .edit fun b => setCursor ((b.cur : Int) - min (lineBeforeLen b) 1) b
      | .right => .edit fun b => setCursor ((b.cur : Int) + min (lineAfterLen b) 1) b
      | .home => .edit fun b => setCursor ((b.cur : Int) - lineBeforeLen b) b
      | .eol => .edit fun b => setCursor ((b.cur : Int) + lineAfterLen b) b
      | .killLine => .edit Ptk.C07.killLine
      | .undo => .undo 1 id
      | .undoXU => .undo 1 id
      | .redo => .redo id }

/-- the `save_before` table of the shipped bindings, by handler identity -/
def eRule : Nat → Bool → Bool := fun h rep =>
  if h ≤ 2 then !rep else if h ≤ 7 then true else false

/-- handlers 0..7 edit, 8..10 are undo / redo -/
def eIsEdit : Nat → Bool := fun h => decide (h ≤ 7)

theorem ekey_eq_stepK (k : KSt) (key : EKey) : ekey k key = stepK eRule k key.toCmd := by
  cases key <;> rfl

/-- a whole emacs key session -/
def eRun (keys : List EKey) (k : KSt) : KSt := keys.foldl ekey k

theorem eRun_eq_runK (keys : List EKey) (k : KSt) :
    eRun keys k = runK eRule (keys.map EKey.toCmd) k := by
  induction keys generalizing k with
  | nil => rfl
  | cons x xs ih => simp only [eRun, List.foldl_cons, List.map_cons, runK] at *; rw [ekey_eq_stepK]; exact ih _

theorem eWF (keys : List EKey) : WF eRule eIsEdit (keys.map EKey.toCmd) where
  saves := by
    intro h hh
    simp only [eIsEdit, decide_eq_true_eq] at hh
    unfold eRule
    by_cases h2 : h ≤ 2 <;> simp [h2, hh]
  kind := by
    intro c hc
    obtain ⟨key, _, rfl⟩ := List.mem_map.mp hc
    cases key <;> rfl
  post := by
    intro c hc
    obtain ⟨key, _, rfl⟩ := List.mem_map.mp hc
    cases key <;> simp [EKey.toCmd, Body.PostKeepsText]

/-- **emacs_undo_reaches_initial.**  For EVERY sequence of these emacs keys from EVERY initial
    document: undoing at least as often as the stack is high ends on the initial text. -/
theorem emacs_undo_reaches_initial (keys : List EKey) (b0 : Buf) (n : Nat)
    (hn : (eRun keys (kInit b0)).st.undo.length ≤ n) :
    (undoN n (eRun keys (kInit b0)).st).buf.text = b0.text := by
  rw [eRun_eq_runK] at hn ⊢
  exact (undo_reaches_initial eRule eIsEdit _ b0 (eWF keys) n hn).1

/-- **emacs_edit_discards_redo.**  For every key sequence: right after any key that is not undo /
    redo, the redo stack is empty. -/
theorem emacs_edit_discards_redo (keys : List EKey) (key : EKey) (b0 : Buf)
    (hk : key ≠ .undo ∧ key ≠ .undoXU ∧ key ≠ .redo) :
    (eRun (keys ++ [key]) (kInit b0)).st.redo = [] := by
  rw [eRun_eq_runK, List.map_append]
  apply edit_discards_redo eRule eIsEdit _ _ b0
  · have := eWF (keys ++ [key]); rwa [List.map_append] at this
  · obtain ⟨h1, h2, h3⟩ := hk
    cases key <;> first | rfl | exact absurd rfl h1 | exact absurd rfl h2 | exact absurd rfl h3

/-- **emacs_undo_lands_on_logged_state.**  For every key sequence, pressing C-_ afterwards either
    changes nothing or lands on a (text, cursor) the buffer had right before one of the earlier
    keys, with a different text. -/
theorem emacs_undo_lands_on_logged_state (keys : List EKey) (b0 : Buf) :
    let g := runG eRule (keys.map EKey.toCmd) (gInit b0)
    g.k = eRun keys (kInit b0) ∧
    ((ekey g.k .undo).st.buf = g.k.st.buf ∨
      ((ekey g.k .undo).st.buf ∈ g.log ∧ (ekey g.k .undo).st.buf.text ≠ g.k.st.buf.text)) := by
  intro g
  refine ⟨by rw [eRun_eq_runK]; exact runG_k _ _ _, ?_⟩
  have h := undo_restores_logged eRule (keys.map EKey.toCmd) b0
  have he : (ekey g.k .undo).st = undo g.k.st := by
    simp [ekey, callHandler_eq, boundary, EKey.rule, EKey.acts, act]
  rw [he]; exact h

/-- **emacs_typing_then_undo.**  After any key sequence that does not end in a printable character,
    type any non-empty string and press C-_ once: text and cursor are exactly as before the string. -/
theorem emacs_typing_then_undo (keys : List EKey) (b0 : Buf) (c : Char) (cs : List Char)
    (hlast : ∀ k ∈ keys.getLast?, ∀ ch, k ≠ .char ch) :
    (ekey (eRun ((c :: cs).map EKey.char) (eRun keys (kInit b0))) .undo).st.buf =
      (eRun keys (kInit b0)).st.buf := by
  have hp : (eRun keys (kInit b0)).prev ≠ some 0 := by
    cases hl : keys.getLast? with
    | none =>
      have : keys = [] := List.getLast?_eq_none_iff.mp hl
      subst this; simp [eRun, kInit]
    | some k =>
      obtain ⟨ys, rfl⟩ : ∃ ys, keys = ys ++ [k] := by
        have := List.getLast?_eq_some_iff.mp hl
        obtain ⟨ys, h⟩ := this; exact ⟨ys, h⟩
      have hk := hlast k (by simp [hl])
      simp only [eRun, List.foldl_append, List.foldl_cons, List.foldl_nil, ekey, callHandler_eq]
      intro e
      simp only [Option.some.injEq] at e
      cases k <;> simp [EKey.hid] at e
      exact hk _ rfl
  have hrun : ∀ (l : List Char) (k : KSt),
      eRun (l.map EKey.char) k = runSame 0 (fun rep => !rep) (l.map fun ch => insertText [ch]) k := by
    intro l
    induction l with
    | nil => intro k; rfl
    | cons x xs ih => intro k; simp only [List.map_cons, eRun, runSame, List.foldl_cons] at *; exact ih _
  have he : ∀ k : KSt, (ekey k .undo).st = undo k.st := by
    intro k; simp [ekey, callHandler_eq, boundary, EKey.rule, EKey.acts, act]
  rw [he, hrun]
  exact typing_then_undo 0 (fun rep => !rep) rfl rfl _ hp c cs

/-! ## 8. The shipped Vi bindings: hypothesis-free instances

    `VKey` / `vkey` (Model): keys {i, a, x, u, Escape, redo} with the Vi input mode; in insert mode
    the letters are typed through the self-insert binding (`if_no_repeat`).  Tied to the real
    `PromptSession(editing_mode=VI)` key by key by the correspondence. -/

def vRule : Nat → Bool → Bool := fun h rep =>
  if h = 0 then !rep else if h = 10 then false else if h = 24 then false else true

def vIsEdit : Nat → Bool := fun h => !(h == 10 || h == 24)

def vcmd (ins : Bool) (key : VKey) : Cmd :=
  if ins then
    match key with
    | .escape => ⟨20, .edit fun b => viFix (leftInLine b)⟩
    | .redo => ⟨10, .redo id⟩
    | key => ⟨0, .edit (insertText [key.letter])⟩
  else
    match key with
    | .i => ⟨21, .edit id⟩
    | .a => ⟨22, .edit rightInLine⟩
    | .x => ⟨23, .edit fun b => viFix (viX b)⟩
    | .u => ⟨24, .undo 1 viFix⟩
    | .escape => ⟨20, .edit viFix⟩
    | .redo => ⟨10, .redo viFix⟩

def vmode (ins : Bool) (key : VKey) : Bool :=
  if ins then key != .escape else (key == .i || key == .a)

theorem vkey_eq (v : VSt) (key : VKey) :
    vkey v key = { k := stepK vRule v.k (vcmd v.ins key), ins := vmode v.ins key } := by
  obtain ⟨k, ins⟩ := v
  cases ins <;> cases key <;> rfl

def vRun (keys : List VKey) (v : VSt) : VSt := keys.foldl vkey v

/-- the commands a key sequence turns into, starting in the given mode -/
def vcmds : Bool → List VKey → List Cmd
  | _, [] => []
  | ins, key :: ks => vcmd ins key :: vcmds (vmode ins key) ks

theorem vRun_k (keys : List VKey) (v : VSt) :
    (vRun keys v).k = runK vRule (vcmds v.ins keys) v.k := by
  induction keys generalizing v with
  | nil => rfl
  | cons ky xs ih =>
    simp only [vRun, List.foldl_cons, vcmds, runK] at *
    rw [ih (vkey v ky), vkey_eq]

theorem vWF (ins : Bool) (keys : List VKey) : WF vRule vIsEdit (vcmds ins keys) where
  saves := by
    intro h hh
    simp only [vIsEdit, Bool.not_eq_true', Bool.or_eq_false_iff, beq_eq_false_iff_ne] at hh
    unfold vRule
    by_cases h0 : h = 0 <;> simp [h0, hh.1, hh.2]
  kind := by
    intro c hc
    induction keys generalizing ins with
    | nil => simp [vcmds] at hc
    | cons ky xs ih =>
      simp only [vcmds, List.mem_cons] at hc
      rcases hc with rfl | hc
      · cases ins <;> cases ky <;> rfl
      · exact ih _ hc
  post := by
    intro c hc
    induction keys generalizing ins with
    | nil => simp [vcmds] at hc
    | cons ky xs ih =>
      simp only [vcmds, List.mem_cons] at hc
      rcases hc with rfl | hc
      · cases ins <;> cases ky <;> first | exact trivial | exact viFix_text | exact fun _ => rfl
      · exact ih _ hc

/-- **vi_undo_reaches_initial.**  For EVERY sequence of these Vi keys from EVERY initial document:
    undoing at least as often as the stack is high ends on the initial text. -/
theorem vi_undo_reaches_initial (keys : List VKey) (b0 : Buf) (n : Nat)
    (hn : (vRun keys (vInit b0)).k.st.undo.length ≤ n) :
    (undoN n (vRun keys (vInit b0)).k.st).buf.text = b0.text := by
  rw [vRun_k] at hn ⊢
  exact (undo_reaches_initial vRule vIsEdit _ b0 (vWF true keys) n hn).1

/-- **vi_redo_empty_after_edit.**  For every Vi key sequence: whenever the last handler was not
    undo / redo, the redo stack is empty. -/
theorem vi_redo_empty_after_edit (keys : List VKey) (b0 : Buf) (h : Nat)
    (hp : (vRun keys (vInit b0)).k.prev = some h) (h10 : h ≠ 10) (h24 : h ≠ 24) :
    (vRun keys (vInit b0)).k.st.redo = [] := by
  rw [vRun_k] at hp ⊢
  have hI := sinv_run vRule vIsEdit b0.text (vcmds true keys) (kInit b0) (vWF true keys) (sinv_init vIsEdit b0)
  exact (hI.2 h hp (by simp [vIsEdit, h10, h24])).2

/-- **vi_insert_escape_u.**  From ANY navigation-mode state: `i`, then any non-empty sequence of
    typed letters, then Escape, then `u` — the buffer is back at the (text, cursor) it had before
    `i` (up to the navigation-mode cursor fix): the whole insert is ONE undo step, as in Vim. -/
theorem vi_insert_escape_u (v : VSt) (hnav : v.ins = false) (c : VKey) (cs : List VKey)
    (hl : ∀ ky ∈ c :: cs, ky ≠ .escape ∧ ky ≠ .redo) :
    (vRun ([.i] ++ (c :: cs) ++ [.escape, .u]) v).k.st.buf = viFix v.k.st.buf := by
  obtain ⟨k, ins⟩ := v
  simp only at hnav
  subst hnav
  -- after `i`
  let k0 : KSt := callHandler 21 (fun _ => true) [] k
  have hk0b : k0.st.buf = k.st.buf := by simp [k0, callHandler_eq, boundary_buf]
  have hk0p : k0.prev ≠ some 0 := by simp [k0, callHandler_eq]
  -- typed letters = a run of the self-insert handler
  have hrun : ∀ (l : List VKey) (k' : KSt), (∀ ky ∈ l, ky ≠ .escape ∧ ky ≠ .redo) →
      vRun l { k := k', ins := true } =
        { k := runSame 0 (fun rep => !rep) ((l.map VKey.letter).map fun ch => insertText [ch]) k', ins := true } := by
    intro l
    induction l with
    | nil => intro k' _; rfl
    | cons ky xs ih =>
      intro k' hx
      have hx1 := hx ky (by simp)
      have hstep : vkey { k := k', ins := true } ky =
          { k := callHandler 0 (fun rep => !rep) [Act.edit (insertText [ky.letter])] k', ins := true } := by
        cases ky <;> first | rfl | exact absurd rfl hx1.1 | exact absurd rfl hx1.2
      simp only [vRun, List.foldl_cons, List.map_cons, runSame] at *
      rw [hstep]
      exact ih _ (fun y hy => hx y (List.mem_cons_of_mem _ hy))
  have h1 : vRun ([.i] ++ (c :: cs) ++ [.escape, .u]) { k := k, ins := false } =
      vkey (vkey (vRun (c :: cs) { k := k0, ins := true }) .escape) .u := by
    simp only [vRun, List.foldl_append, List.foldl_cons, List.foldl_nil]
    rfl
  rw [h1, hrun (c :: cs) k0 hl]
  have hne := runSame_typing_text_ne 0 (fun rep => !rep) k0 c.letter (cs.map VKey.letter)
  have hg := group_then_motions_then_undo 0 (fun rep => !rep) rfl rfl k0 hk0p (insertText [c.letter])
    ((cs.map VKey.letter).map fun ch => insertText [ch])
    [(20, (fun _ => true), fun b => viFix (leftInLine b))]
    (by intro m hm b; simp at hm; subst hm; simp [viFix_text, leftInLine, setCursor])
    (by simpa using hne)
  simp only [List.map_cons] at hg ⊢
  rw [← hk0b, ← hg]
  rfl

/-! ## 9. Non-vacuity: the hypotheses above are satisfiable on concrete, non-trivial sessions -/

section Examples

/-- handler 0: self-insert with `if_no_repeat`; handler 1: a motion / kill with the default rule;
    handler 2: undo (never saves); handler 3: redo (never saves) -/
def exRule : Nat → Bool → Bool := fun h rep =>
  if h = 0 then !rep else if h = 1 then true else false

def exIsEdit : Nat → Bool := fun h => h = 0 || h = 1

/-- `x|y` : type a, type b, cursor to 0, type c -/
def exCmds : List Cmd :=
  [⟨0, .edit (insertText ['a'])⟩, ⟨0, .edit (insertText ['b'])⟩, ⟨1, .edit (setCursor 0)⟩,
   ⟨0, .edit (insertText ['c'])⟩]

def exB0 : Buf := { text := ['x', 'y'], cur := 1 }

/-- the session really builds a two-entry stack inside a four-entry log (stack_sublist_log is not vacuous) -/
example :
    (runG exRule exCmds (gInit exB0)).k.st.undo =
      [{ text := ['x', 'a', 'b', 'y'], cur := 0 }, { text := ['x', 'y'], cur := 1 }] ∧
    (runG exRule exCmds (gInit exB0)).log =
      [{ text := ['x', 'a', 'b', 'y'], cur := 0 }, { text := ['x', 'a', 'b', 'y'], cur := 3 },
       { text := ['x', 'a', 'y'], cur := 2 }, { text := ['x', 'y'], cur := 1 }] := by decide

/-- undo_restores_logged: the second alternative (a logged state with another text) occurs -/
example :
    (undo (runG exRule exCmds (gInit exB0)).k.st).buf = { text := ['x', 'a', 'b', 'y'], cur := 0 } ∧
    (undo (runG exRule exCmds (gInit exB0)).k.st).buf ≠ (runG exRule exCmds (gInit exB0)).k.st.buf := by
  decide

/-- undo_walks_back / undoTrace: two successive undos restore two states; redo entries appear (redo_mem_log) -/
example :
    undoTrace 5 (runG exRule exCmds (gInit exB0)).k.st =
      [{ text := ['x', 'a', 'b', 'y'], cur := 0 }, { text := ['x', 'y'], cur := 1 }] ∧
    (runG exRule (exCmds ++ [⟨2, .undo 1 id⟩]) (gInit exB0)).k.st.redo =
      [{ text := ['c', 'x', 'a', 'b', 'y'], cur := 1 }] := by decide

/-- redo_undo / redoN_undoN: their hypotheses hold on the session state -/
example : (undo (runK exRule exCmds (kInit exB0)).st).buf.text ≠ (runK exRule exCmds (kInit exB0)).st.buf.text ∧
    UndoChanges 2 (runK exRule exCmds (kInit exB0)).st :=
  ⟨by decide, by decide, by decide, trivial⟩

/-- undo_redo: its hypotheses hold after one undo -/
example : ∃ r rest, (undo (runK exRule exCmds (kInit exB0)).st).redo = r :: rest ∧
    (undo (runK exRule exCmds (kInit exB0)).st).buf.text ≠ r.text :=
  ⟨_, _, rfl, by decide⟩

/-- the example binding set / session is well-formed (undo_reaches_initial, edit_discards_redo apply),
    also with an undo (Vi style, with the cursor fix) and a redo in the middle -/
theorem exWF : WF exRule exIsEdit
    (exCmds ++ [⟨2, .undo 2 viFix⟩, ⟨3, .redo viFix⟩, ⟨0, .edit (insertText ['d'])⟩]) where
  saves := by
    intro h hh
    simp only [exIsEdit, Bool.or_eq_true, decide_eq_true_eq] at hh
    rcases hh with rfl | rfl <;> simp [exRule]
  kind := by
    intro c hc
    simp only [exCmds, List.cons_append, List.nil_append, List.mem_cons, List.not_mem_nil, or_false] at hc
    rcases hc with rfl | rfl | rfl | rfl | rfl | rfl | rfl <;> rfl
  post := by
    intro c hc
    simp only [exCmds, List.cons_append, List.nil_append, List.mem_cons, List.not_mem_nil, or_false] at hc
    rcases hc with rfl | rfl | rfl | rfl | rfl | rfl | rfl <;>
      first | trivial | exact viFix_text

/-- … and in that session the redo stack was NOT empty before the last edit (edit_discards_redo has
    something to discard), and the final undo stack has height 2 -/
example :
    (runK exRule (exCmds ++ [⟨2, .undo 2 viFix⟩, ⟨3, .redo viFix⟩]) (kInit exB0)).st.redo ≠ [] ∧
    (runK exRule (exCmds ++ [⟨2, .undo 2 viFix⟩, ⟨3, .redo viFix⟩, ⟨0, .edit (insertText ['d'])⟩])
      (kInit exB0)).st.undo.length = 2 := by decide

/-- group_undone_as_one: hypotheses hold for the `if_no_repeat` rule after a motion command -/
example :
    let rule : Bool → Bool := fun rep => !rep
    let k0 : KSt := { st := { buf := exB0, undo := [{ text := [], cur := 0 }], redo := [exB0] }, prev := some 7 }
    rule false = true ∧ rule true = false ∧ k0.prev ≠ some 0 ∧
      (runSame 0 rule [insertText ['a'], insertText ['b'], insertText ['c']] k0).st.buf.text ≠ k0.st.buf.text := by
  decide

/-- typing_then_undo on a concrete state: three typed characters, one undo, the old state is back -/
example :
    let k0 : KSt := { st := { buf := exB0, undo := [{ text := [], cur := 0 }], redo := [exB0] }, prev := some 7 }
    (undo (runSame 0 (fun rep => !rep) (['a', 'b', 'c'].map fun ch => insertText [ch]) k0).st).buf = exB0 ∧
    (runSame 0 (fun rep => !rep) (['a', 'b', 'c'].map fun ch => insertText [ch]) k0).st.buf =
      { text := ['x', 'a', 'b', 'c', 'y'], cur := 4 } := by
  decide

/-- emacs_typing_then_undo: its side condition holds for a key sequence ending in Left;
    emacs_edit_discards_redo: there is a non-empty redo stack for C-k to discard -/
example :
    (∀ k ∈ ([EKey.char 'a', .left] : List EKey).getLast?, ∀ ch, k ≠ .char ch) ∧
    (eRun [.char 'a', .char 'b', .left, .char 'c', .undo] (kInit exB0)).st.redo ≠ [] ∧
    (eRun [.char 'a', .char 'b', .left, .char 'c', .undo, .killLine] (kInit exB0)).st.redo = [] := by
  refine ⟨?_, by decide, by decide⟩
  intro k hk ch
  simp at hk
  subst hk
  simp

/-- vi_insert_escape_u on a concrete navigation-mode state: `i x u Esc u` returns to it, while the
    typed text really had changed the buffer -/
example :
    let v := vRun [.a, .escape] (vInit exB0)
    v.ins = false ∧
    (vRun ([.i] ++ [.x, .u] ++ [.escape, .u]) v).k.st.buf = viFix v.k.st.buf ∧
    (vRun [.i, .x, .u] v).k.st.buf ≠ v.k.st.buf := by
  decide

/-- group_with_cpr_undone_as_one: `a b <CPR> c d` with a leading and a trailing CPR satisfies its hypotheses -/
example :
    let items : List (Option (Buf → Buf)) :=
      [none, some (insertText ['a']), some (insertText ['b']), none, some (insertText ['c']),
       some (insertText ['d']), none]
    let k0 : KSt := { st := { buf := exB0, undo := [], redo := [exB0] }, prev := some 7 }
    (runSameCpr 0 (fun rep => !rep) items k0).st.buf = { text := ['x', 'a', 'b', 'c', 'd', 'y'], cur := 5 } ∧
    (undo (runSameCpr 0 (fun rep => !rep) items k0).st).buf = exB0 := by
  decide

/-- snapshots_valid: the concrete edits used here keep documents valid -/
theorem insertText_valid (d : Text) (b : Buf) (h : Valid b) : Valid (insertText d b) := by
  unfold Valid insertText at *; simp; omega

theorem setCursor_valid (v : Int) (b : Buf) : Valid (setCursor v b) := by
  unfold Valid setCursor; simp; omega

example : ∀ c ∈ exCmds ++ [⟨2, .undo 2 viFix⟩, ⟨3, .redo viFix⟩], c.body.KeepsValid := by
  intro c hc
  simp only [exCmds, List.cons_append, List.nil_append, List.mem_cons, List.not_mem_nil, or_false] at hc
  rcases hc with rfl | rfl | rfl | rfl | rfl | rfl
  · exact fun b hb => insertText_valid _ b hb
  · exact fun b hb => insertText_valid _ b hb
  · exact fun b _ => setCursor_valid _ b
  · exact fun b hb => insertText_valid _ b hb
  · exact fun b hb => viFix_valid b hb
  · exact fun b hb => viFix_valid b hb

end Examples


end Ptk.C07
