/-
  C07 — Undo walks back through texts actually held; redo exactly reverses undo.

  Everything is stated over `Ptk.Model.C07` (hand translation of buffer.py
  `save_to_undo_stack` / `undo` / `redo` / `reset` and of
  `KeyProcessor._call_handler` / `reset` / `_process_cpr_response`), for ALL sessions: any number of
  items (commands — also ones whose handler raises, or that act on a read-only buffer —,
  `KeyProcessor.reset()`, cursor position reports, edits made outside a command), any handler
  bodies (`Buf → Buf` parameters), any `save_before` value at every call, any initial document.

  Other modules: `C07Group` (which runs are grouped), `C07RO` (exceptions, read-only buffers, a new
  prompt on the same objects), `C07Table` (the regenerated binding table; hypothesis-free instances),
  `C07Multi` (several buffers / focus changes).

  Ghost state: `G.log` = the (text, cursor) states the buffer held at the command
  boundaries so far, newest first (the state at the moment `_call_handler` is
  entered, i.e. before `save_before` and before the handler runs).
-/
import Ptk.Props.C07Lemmas
namespace Ptk.C07
open Ptk.Py

/-! ## 1. Undo only walks through states actually held at command boundaries -/

/-- **stack_sublist_log.**  After any session the undo stack (top first) is a SUBSEQUENCE of the log
    of (text, cursor) states held at command boundaries (newest first): every entry is a state the
    buffer really had at a boundary, cursor included, and the entries are in chronological order. -/
theorem stack_sublist_log (items : List Item) (b0 : Buf) :
    (runG items (gInit b0)).k.st.undo.Sublist (runG items (gInit b0)).log :=
  (inv_run items _ (inv_init b0)).1

/-- **redo_mem_log.**  Every redo entry is a state held at a command boundary. -/
theorem redo_mem_log (items : List Item) (b0 : Buf) :
    ∀ r ∈ (runG items (gInit b0)).k.st.redo, r ∈ (runG items (gInit b0)).log :=
  (inv_run items _ (inv_init b0)).2

/-- **undo_spec.**  What one `Buffer.undo()` does: either every stack entry carries the current
    text (then nothing is restored and the stack is emptied), or the stack splits as
    `pre ++ t :: rest` where `pre` all carry the current text, `t` has a different text, and the
    result is exactly `t` with `rest` left on the stack and the undone state pushed on redo. -/
theorem undo_spec (s : St) :
    ((∀ p ∈ s.undo, p.text = s.buf.text) ∧ undo s = { buf := s.buf, undo := [], redo := s.redo }) ∨
    (∃ pre t rest, s.undo = pre ++ t :: rest ∧ (∀ p ∈ pre, p.text = s.buf.text) ∧
      t.text ≠ s.buf.text ∧ undo s = { buf := t, undo := rest, redo := s.buf :: s.redo }) := by
  cases hl : undoLoop s.buf s.undo with
  | none => exact Or.inl ⟨undoLoop_none hl, undo_none hl⟩
  | some p =>
    obtain ⟨t, rest⟩ := p
    obtain ⟨pre, h1, h2, h3⟩ := undoLoop_some hl
    exact Or.inr ⟨pre, t, rest, h1, h2, h3, undo_some hl⟩

/-- **undo_restores_logged** (undo_sound).  After any session, an undo either changes nothing or
    restores a (text, cursor) pair that the buffer held at a STRICTLY EARLIER command boundary
    (the log does not yet contain the boundary of the undo command itself), whose text differs
    from the text that is undone.  No text is ever invented. -/
theorem undo_restores_logged (items : List Item) (b0 : Buf) :
    let g := runG items (gInit b0)
    (undo g.k.st).buf = g.k.st.buf ∨
      ((undo g.k.st).buf ∈ g.log ∧ (undo g.k.st).buf.text ≠ g.k.st.buf.text) := by
  intro g
  have hU : g.k.st.undo.Sublist g.log := stack_sublist_log items b0
  cases hl : undoLoop g.k.st.buf g.k.st.undo with
  | none => left; rw [undo_none hl]
  | some p =>
    obtain ⟨t, rest⟩ := p
    right
    rw [undo_some hl]
    obtain ⟨pre, h1, _, h3⟩ := undoLoop_some hl
    exact ⟨hU.subset (by rw [h1]; simp), h3⟩

/-- **redo_restores_logged.**  After any session, a redo either changes nothing or restores a (text, cursor)
    pair that the buffer held at a command boundary: redo never invents a state either. -/
theorem redo_restores_logged (items : List Item) (b0 : Buf) :
    let g := runG items (gInit b0)
    (redo g.k.st).buf = g.k.st.buf ∨ (redo g.k.st).buf ∈ g.log := by
  intro g
  have hR := redo_mem_log items b0
  unfold redo
  cases hr : g.k.st.redo with
  | nil => left; rfl
  | cons r rest => right; exact hR r (by rw [hr]; simp)

/-- the trace of successive undos is a subsequence of the undo stack -/
theorem undoTrace_sublist (n : Nat) (s : St) : (undoTrace n s).Sublist s.undo := by
  induction n generalizing s with
  | zero => simp [undoTrace]
  | succ n ih =>
    cases hl : undoLoop s.buf s.undo with
    | none => rw [undoTrace_none hl]; simp
    | some p =>
      obtain ⟨t, rest⟩ := p
      rw [undoTrace_some hl]
      have h := ih (undo s)
      rw [undo_some hl] at h
      rw [undo_some hl]
      exact (List.Sublist.cons_cons t h).trans (undoLoop_sublist hl)

/-- the `i`-th element of the trace is the buffer after `i+1` undos, and its text differs from the
    text after `i` undos -/
theorem undoTrace_get (n : Nat) (s : St) (i : Nat) (b : Buf) (hi : (undoTrace n s)[i]? = some b) :
    b = (undoN (i + 1) s).buf ∧ b.text ≠ (undoN i s).buf.text := by
  induction n generalizing s i with
  | zero => simp [undoTrace] at hi
  | succ n ih =>
    cases hl : undoLoop s.buf s.undo with
    | none => rw [undoTrace_none hl] at hi; simp at hi
    | some p =>
      obtain ⟨t, rest⟩ := p
      rw [undoTrace_some hl] at hi
      cases i with
      | zero =>
        obtain ⟨_, _, _, h3⟩ := undoLoop_some hl
        simp at hi
        subst hi
        simp [undoN, undo_some hl, h3]
      | succ i =>
        have := ih (undo s) i (by simpa using hi)
        simpa [undoN] using this

/-- **undo_walks_back** (reverse chronological order).  After any session, the states restored by
    ANY number of successive undos, in the order in which they are restored, form a subsequence of
    the boundary log read from newest to oldest: each undo step lands strictly further back in the
    history than the previous one, on a state that was really held. -/
theorem undo_walks_back (items : List Item) (b0 : Buf) (n : Nat) :
    (undoTrace n (runG items (gInit b0)).k.st).Sublist (runG items (gInit b0)).log :=
  (undoTrace_sublist n _).trans (stack_sublist_log items b0)

/-! ## 2. Redo exactly reverses undo -/

/-- **redo_undo.**  If `undo` restored something (the text changed), an immediately following
    `redo` brings back exactly the (text, cursor) that was undone, and the redo stack is as before. -/
theorem redo_undo (s : St) (h : (undo s).buf.text ≠ s.buf.text) :
    (redo (undo s)).buf = s.buf ∧ (redo (undo s)).redo = s.redo := by
  cases hl : undoLoop s.buf s.undo with
  | none => rw [undo_none hl] at h; exact absurd rfl h
  | some p =>
    obtain ⟨t, rest⟩ := p
    rw [undo_some hl]
    simp [redo]

/-- **redoN_undoN.**  `n` undos that each restore something, followed by `n` redos, bring back
    exactly the original (text, cursor) and redo stack. -/
theorem redoN_undoN (n : Nat) (s : St) (h : UndoChanges n s) :
    (redoN n (undoN n s)).buf = s.buf ∧ (redoN n (undoN n s)).redo = s.redo := by
  induction n generalizing s with
  | zero => exact ⟨rfl, rfl⟩
  | succ n ih =>
    obtain ⟨h1, h2⟩ := h
    obtain ⟨ihb, ihr⟩ := ih (undo s) h2
    have hc := redo_congr ihb ihr
    have hu := redo_undo s (undoChanges_text h1)
    show (redo (redoN n (undoN n (undo s)))).buf = s.buf ∧ (redo (redoN n (undoN n (undo s)))).redo = s.redo
    exact ⟨hc.1.trans hu.1, hc.2.trans hu.2⟩

/-- **save_clears_redo.**  `save_to_undo_stack()` (what every saving command boundary does) empties
    the redo stack. -/
theorem save_clears_redo (s : St) : (saveToUndo true s).redo = [] := by
  simp [saveToUndo]

/-- **saving_command_clears_redo.**  Any command whose `save_before` fires and whose body is an
    edit leaves an empty redo stack, whatever was on it. -/
theorem saving_command_clears_redo (h : Nat) (rule : Bool → Bool) (f : Buf → Buf) (k : KSt)
    (hs : rule (decide (k.prev = some h)) = true) :
    (callHandler h rule [Act.edit f] k).st.redo = [] := by
  simp [callHandler_eq, boundary, hs, act, saveToUndo_redo]

/-! ## 3. Repeated undo reaches the initial text; every edit command discards redo -/

/-- **undoN_reaches_bottom.**  Once `n` is at least the height of the undo stack, `n` undos end on
    the text of the bottom entry (and the stack is exhausted). -/
theorem undoN_reaches_bottom (n : Nat) (s : St) (hn : s.undo.length ≤ n) :
    (undoN n s).buf.text = botText s ∧ (undoN n s).undo = [] := by
  have hb := botText_undoN n s
  have he : (undoN n s).undo = [] := by
    induction n generalizing s with
    | zero => show s.undo = []; exact List.eq_nil_of_length_eq_zero (by omega)
    | succ n ih =>
      have := undo_length s
      exact ih (undo s) (by omega) (botText_undoN n (undo s))
  refine ⟨?_, he⟩
  rw [← hb]; unfold botText; rw [he]; simp

/-- **undo_reaches_initial_disciplined** (the semantic form).  After ANY session in which no item changes
    the text without a snapshot (`Disciplined`: every text-changing edit is saved at its own boundary or
    happens inside a group while the stack is non-empty; external edits only while a snapshot exists),
    undoing at least as many times as the stack is high ends on the text the session started with. -/
theorem undo_reaches_initial_disciplined (items : List Item) (b0 : Buf)
    (hd : Disciplined items (kInit b0)) (n : Nat) (hn : (runI items (kInit b0)).st.undo.length ≤ n) :
    (undoN n (runI items (kInit b0)).st).buf.text = b0.text ∧
      (undoN n (runI items (kInit b0)).st).undo = [] := by
  have hI := botText_run items (kInit b0) hd
  have := undoN_reaches_bottom n _ hn
  exact ⟨this.1.trans (hI.trans (by simp [botText, kInit, reset])), this.2⟩

/-- **undo_reaches_initial.**  After ANY well-formed session (a STATIC condition on the bindings: `WF`)
    from ANY initial document — commands whose handler raised, `KeyProcessor.reset()`, cursor position
    reports and covered external edits included — undoing at least as many times as the undo stack
    is high ends on the text the session started with (and further undos stay there). -/
theorem undo_reaches_initial (isEditH : Nat → Bool) (items : List Item) (b0 : Buf)
    (hwf : WF isEditH items) (hext : ExtOK items (kInit b0)) (n : Nat)
    (hn : (runI items (kInit b0)).st.undo.length ≤ n) :
    (undoN n (runI items (kInit b0)).st).buf.text = b0.text ∧
      (undoN n (runI items (kInit b0)).st).undo = [] :=
  undo_reaches_initial_disciplined items b0
    (wf_disciplined isEditH items (kInit b0) hwf hext (pinv_init isEditH b0)).1 n hn

/-- **edit_discards_redo_disciplined** (semantic form).  In a disciplined session, right after ANY command
    whose body is an edit that changed the text, the redo stack is empty. -/
theorem edit_discards_redo_disciplined (items : List Item) (c : Cmd) (f : Buf → Buf) (k0 : KSt)
    (hd : Disciplined (items ++ [.cmd c]) k0) (hc : c.body = .edit f)
    (hne : (f (runI items k0).st.buf).text ≠ (runI items k0).st.buf.text) :
    (runI (items ++ [.cmd c]) k0).st.redo = [] := by
  have hcov : c.Covered (runI items k0) := by
    have : ∀ (its : List Item) (k : KSt), Disciplined (its ++ [.cmd c]) k → c.Covered (runI its k) := by
      intro its
      induction its with
      | nil => intro k h; exact h.1
      | cons it its ih => intro k h; exact ih _ h.2
    exact this items k0 hd
  rw [runI_append]
  show (stepK (runI items k0) c).st.redo = []
  rw [stepK_eq, hc]
  simp only [Body.run]
  simp only [Cmd.Covered, hc] at hcov
  unfold boundary
  rcases hcov with hs | ⟨_, hr⟩ | ht
  · rw [if_pos hs]; exact saveToUndo_true_redo _
  · split
    · exact saveToUndo_true_redo _
    · exact hr
  · exact absurd ht hne

/-- **edit_discards_redo.**  In ANY well-formed session, right after ANY editing command that did not
    raise the redo stack is empty — also when the command did not save because it was a repeat (then
    the redo stack had already been emptied when the run of repeats started). -/
theorem edit_discards_redo (isEditH : Nat → Bool) (items : List Item) (c : Cmd) (b0 : Buf)
    (hwf : WF isEditH (items ++ [.cmd c])) (hext : ExtOK (items ++ [.cmd c]) (kInit b0))
    (hc : c.body.isEdit = true) (ho : c.out ≠ .raised) :
    (runI (items ++ [.cmd c]) (kInit b0)).st.redo = [] := by
  have hI := (wf_disciplined isEditH (items ++ [.cmd c]) (kInit b0) hwf hext (pinv_init isEditH b0)).2
  have hp : (runI (items ++ [.cmd c]) (kInit b0)).prev = some c.h := by
    rw [runI_append]
    show (stepK _ c).prev = _
    rw [stepK_eq]
    cases hco : c.out <;> simp [prevAfter, hco] at ho ⊢
  have hE : isEditH c.h = true := by rw [← hwf.kind c (by simp)]; exact hc
  exact (hI c.h hp hE).2

/-! ## 4. Snapshots are valid documents -/

/-- **snapshots_valid.**  If the initial document is valid (cursor ≤ len(text)) and every handler
    body / external edit maps valid documents to valid documents, then after any session the current
    document and every entry of both stacks is valid — so `Document(text, cursor_position=pos)` inside
    `undo()` / `redo()` never trips its assertion, and restoring never leaves the cursor outside the text. -/
theorem snapshots_valid (items : List Item) (b0 : Buf) (h0 : Valid b0)
    (hk : ∀ it ∈ items, it.KeepsValid) : VInv (runI items (kInit b0)).st := by
  have hinit : VInv (kInit b0).st := ⟨h0, by simp [kInit, reset], by simp [kInit, reset]⟩
  generalize kInit b0 = k at hinit
  induction items generalizing k with
  | nil => exact hinit
  | cons it its ih =>
    apply ih (fun c' hc' => hk c' (List.mem_cons_of_mem _ hc'))
    have hkc := hk it (by simp)
    cases it with
    | kpReset => exact hinit
    | cpr => exact hinit
    | ext f => exact ⟨hkc _ hinit.1, hinit.2.1, hinit.2.2⟩
    | cmd c =>
      simp only [stepI, stepK_eq]
      have hb : VInv (boundary c.rule c.h k) := by
        unfold boundary; split
        · exact vinv_save true _ hinit
        · exact hinit
      simp only [Item.KeepsValid] at hkc
      cases hbody : c.body with
      | edit f =>
        rw [hbody] at hkc
        exact ⟨hkc _ hb.1, hb.2.1, hb.2.2⟩
      | undo n post =>
        rw [hbody] at hkc
        have := vinv_undoN n _ hb
        exact ⟨hkc _ this.1, this.2.1, this.2.2⟩
      | redo post =>
        rw [hbody] at hkc
        have := vinv_redo _ hb
        exact ⟨hkc _ this.1, this.2.1, this.2.2⟩
      | save cl => exact vinv_save cl _ hb
      | reset d => rw [hbody] at hkc; exact ⟨hkc, by simp [Body.run, reset], by simp [Body.run, reset]⟩
      | roUndo fx post =>
        rw [hbody] at hkc
        have := vinv_undoRO fx _ hb
        exact ⟨hkc _ this.1, this.2.1, this.2.2⟩
      | roRedo fx => exact vinv_redoRO fx _ hb

/-- the Vi cursor fix keeps the text and validity (so it is an admissible `post`) -/
theorem viFix_text (b : Buf) : (viFix b).text = b.text := by
  rcases viFix_cases b with h | h <;> rw [h]

theorem viFix_valid (b : Buf) (h : Valid b) : Valid (viFix b) := by
  rcases viFix_cases b with h' | h' <;> rw [h']
  · exact h
  · unfold Valid at *; simp; omega

/-! ## 5. More structure: undo after redo; at most one snapshot is skipped -/

/-- **undo_redo.**  If `redo` restores a state with a different text, an immediately following
    `undo` brings back exactly the (text, cursor) from before the redo, and the redo stack too. -/
theorem undo_redo (s : St) (r : Buf) (rest : List Buf) (hr : s.redo = r :: rest)
    (hne : s.buf.text ≠ r.text) :
    (undo (redo s)).buf = s.buf ∧ (undo (redo s)).redo = s.redo := by
  obtain ⟨rest', hrest⟩ := saveToUndo_top false s
  have h1 : redo s = { buf := r, undo := s.buf :: rest', redo := rest } := by
    simp [redo, hr, hrest]
  have hl : undoLoop (redo s).buf (redo s).undo = some (s.buf, rest') := by
    rw [h1]; unfold undoLoop; rw [if_pos hne]
  rw [undo_some hl, h1, hr]; exact ⟨rfl, rfl⟩

/-- **stack_adjacent_distinct.**  After any session, neighbouring undo-stack entries always carry
    different texts (a save with an unchanged text only refreshes the cursor of the top entry). -/
theorem stack_adjacent_distinct (items : List Item) (b0 : Buf) :
    AdjDistinct (runI items (kInit b0)).st.undo := by
  have hinit : AdjDistinct (kInit b0).st.undo := by simp [kInit, reset, AdjDistinct]
  generalize kInit b0 = k at hinit
  induction items generalizing k with
  | nil => exact hinit
  | cons it its ih =>
    apply ih
    cases it with
    | kpReset => exact hinit
    | cpr => exact hinit
    | ext f => exact hinit
    | cmd c =>
      simp only [stepI, stepK_eq]
      have hb : AdjDistinct (boundary c.rule c.h k).undo := by
        unfold boundary; split
        · exact adj_saveToUndo true _ hinit
        · exact hinit
      generalize boundary c.rule c.h k = s1 at hb
      cases c.body with
      | edit f => exact hb
      | undo n post =>
        simp only [Body.run]
        induction n generalizing s1 with
        | zero => exact hb
        | succ n ihn => exact ihn _ (adj_undo s1 hb)
      | redo post => exact adj_redo s1 hb
      | save cl => exact adj_saveToUndo cl s1 hb
      | reset d => simp [Body.run, reset, AdjDistinct]
      | roUndo fx post => exact adj_undoRO fx s1 hb
      | roRedo fx => exact adj_redoRO fx s1 hb

/-- **undo_skips_at_most_one.**  With neighbouring entries distinct, `undo` discards at most ONE
    snapshot besides the one it restores (the top entry, when it carries the current text). -/
theorem undo_skips_at_most_one (s : St) (h : AdjDistinct s.undo) (t : Buf) (rest : List Buf)
    (hl : undoLoop s.buf s.undo = some (t, rest)) :
    s.undo = t :: rest ∨ ∃ p, p.text = s.buf.text ∧ s.undo = p :: t :: rest := by
  obtain ⟨pre, h1, h2, _⟩ := undoLoop_some hl
  cases pre with
  | nil => left; simpa using h1
  | cons p pre =>
    cases pre with
    | nil => right; exact ⟨p, h2 p (by simp), by simpa using h1⟩
    | cons q pre =>
      rw [h1] at h
      exact absurd ((h2 p (by simp)).trans (h2 q (by simp)).symm) h.1

/-! ## 6. Non-vacuity: the hypotheses above are satisfiable on concrete, non-trivial sessions -/

section Examples

/-- handler 0: self-insert with `if_no_repeat`; handler 1: a motion / kill with the default rule;
    handler 2: undo (never saves); handler 3: redo (never saves) -/
def exRule : Nat → Bool → Bool := fun h rep =>
  if h = 0 then !rep else if h = 1 then true else false

def exIsEdit : Nat → Bool := fun h => h = 0 || h = 1

def exCmd (h : Nat) (b : Body) : Item := .cmd { h := h, rule := exRule h, body := b }

/-- `x|y` : type a, type b, <CPR>, cursor to 0, type c -/
def exItems : List Item :=
  [exCmd 0 (.edit (insertText ['a'])), exCmd 0 (.edit (insertText ['b'])), .cpr, exCmd 1 (.edit (setCursor 0)),
   exCmd 0 (.edit (insertText ['c']))]

def exB0 : Buf := { text := ['x', 'y'], cur := 1 }

/-- the session really builds a two-entry stack inside a four-entry log (stack_sublist_log is not vacuous) -/
example :
    (runG exItems (gInit exB0)).k.st.undo =
      [{ text := ['x', 'a', 'b', 'y'], cur := 0 }, { text := ['x', 'y'], cur := 1 }] ∧
    (runG exItems (gInit exB0)).log =
      [{ text := ['x', 'a', 'b', 'y'], cur := 0 }, { text := ['x', 'a', 'b', 'y'], cur := 3 },
       { text := ['x', 'a', 'y'], cur := 2 }, { text := ['x', 'y'], cur := 1 }] := by decide

/-- undo_restores_logged: the second alternative (a logged state with another text) occurs -/
example :
    (undo (runG exItems (gInit exB0)).k.st).buf = { text := ['x', 'a', 'b', 'y'], cur := 0 } ∧
    (undo (runG exItems (gInit exB0)).k.st).buf ≠ (runG exItems (gInit exB0)).k.st.buf := by
  decide

/-- undo_walks_back / undoTrace: two successive undos restore two states; redo entries appear (redo_mem_log) -/
example :
    undoTrace 5 (runG exItems (gInit exB0)).k.st =
      [{ text := ['x', 'a', 'b', 'y'], cur := 0 }, { text := ['x', 'y'], cur := 1 }] ∧
    (runG (exItems ++ [exCmd 2 (.undo 1 id)]) (gInit exB0)).k.st.redo =
      [{ text := ['c', 'x', 'a', 'b', 'y'], cur := 1 }] := by decide

/-- redo_undo / redoN_undoN: their hypotheses hold on the session state -/
example : (undo (runI exItems (kInit exB0)).st).buf.text ≠ (runI exItems (kInit exB0)).st.buf.text ∧
    UndoChanges 2 (runI exItems (kInit exB0)).st :=
  ⟨by decide, by decide, by decide, trivial⟩

/-- undo_redo: its hypotheses hold after one undo -/
example : ∃ r rest, (undo (runI exItems (kInit exB0)).st).redo = r :: rest ∧
    (undo (runI exItems (kInit exB0)).st).buf.text ≠ r.text :=
  ⟨_, _, rfl, by decide⟩

/-- a longer session: an undo (Vi style, count 2, with the cursor fix), a redo, a handler that RAISED after
    inserting `!` (so `_previous_handler` is forgotten), a `KeyProcessor.reset()`, an external edit, one more
    typed character -/
def exItems2 : List Item :=
  exItems ++ [exCmd 2 (.undo 2 viFix), exCmd 3 (.redo viFix),
    .cmd { h := 0, rule := exRule 0, body := .edit (insertText ['!']), out := .raised },
    .kpReset, .ext (insertText ['e']), exCmd 0 (.edit (insertText ['d']))]

/-- the example binding set / session is well-formed (undo_reaches_initial, edit_discards_redo apply) -/
theorem exWF : WF exIsEdit exItems2 where
  saves := by
    intro c _ hh
    simp only [exIsEdit, Bool.or_eq_true, decide_eq_true_eq] at hh
    simp only [exItems2, exItems, exCmd, List.cons_append, List.nil_append, List.mem_cons, List.not_mem_nil,
      or_false, Item.cmd.injEq, reduceCtorEq, false_or] at *
    rename_i hc
    rcases hc with rfl | rfl | rfl | rfl | rfl | rfl | rfl | rfl <;> simp [exRule] at hh ⊢
  kind := by
    intro c hc
    simp only [exItems2, exItems, exCmd, List.cons_append, List.nil_append, List.mem_cons, List.not_mem_nil,
      or_false, Item.cmd.injEq, reduceCtorEq, false_or] at hc
    rcases hc with rfl | rfl | rfl | rfl | rfl | rfl | rfl | rfl <;> rfl
  post := by
    intro c hc
    simp only [exItems2, exItems, exCmd, List.cons_append, List.nil_append, List.mem_cons, List.not_mem_nil,
      or_false, Item.cmd.injEq, reduceCtorEq, false_or] at hc
    rcases hc with rfl | rfl | rfl | rfl | rfl | rfl | rfl | rfl <;>
      first | trivial | exact viFix_text
  noReset := by
    intro c hc
    simp only [exItems2, exItems, exCmd, List.cons_append, List.nil_append, List.mem_cons, List.not_mem_nil,
      or_false, Item.cmd.injEq, reduceCtorEq, false_or] at hc
    rcases hc with rfl | rfl | rfl | rfl | rfl | rfl | rfl | rfl <;> rfl
  roFixed := by
    intro c hc
    simp only [exItems2, exItems, exCmd, List.cons_append, List.nil_append, List.mem_cons, List.not_mem_nil,
      or_false, Item.cmd.injEq, reduceCtorEq, false_or] at hc
    rcases hc with rfl | rfl | rfl | rfl | rfl | rfl | rfl | rfl <;> trivial

/-- its external edit happens while a snapshot exists -/
theorem exExtOK : ExtOK exItems2 (kInit exB0) := by
  simp only [exItems2, exItems, exCmd, List.cons_append, List.nil_append, ExtOK, and_true, true_and]
  left
  decide

/-- … and in that session the redo stack was NOT empty before the raising edit (edit_discards_redo has
    something to discard), the raising command forgot the previous handler, and the final undo stack has height 3 -/
example :
    (runI (exItems ++ [exCmd 2 (.undo 2 viFix), exCmd 3 (.redo viFix)]) (kInit exB0)).st.redo ≠ [] ∧
    (runI (exItems2.take 8) (kInit exB0)).prev = none ∧
    (runI exItems2 (kInit exB0)).st.undo.length = 3 ∧
    (runI exItems2 (kInit exB0)).st.buf.text = ['!', 'e', 'd', 'x', 'a', 'b', 'y'] := by decide

/-- undo_reaches_initial on it -/
example : (undoN 3 (runI exItems2 (kInit exB0)).st).buf.text = ['x', 'y'] :=
  (undo_reaches_initial exIsEdit exItems2 exB0 exWF exExtOK 3 (by decide)).1

/-- snapshots_valid: the concrete edits used here keep documents valid -/
theorem insertText_valid (d : Text) (b : Buf) (h : Valid b) : Valid (insertText d b) := by
  unfold Valid insertText at *; simp; omega

theorem setCursor_valid (v : Int) (b : Buf) : Valid (setCursor v b) := by
  unfold Valid setCursor; simp; omega

example : ∀ it ∈ exItems2, it.KeepsValid := by
  intro it hit
  simp only [exItems2, exItems, exCmd, List.cons_append, List.nil_append, List.mem_cons, List.not_mem_nil,
    or_false] at hit
  rcases hit with rfl | rfl | rfl | rfl | rfl | rfl | rfl | rfl | rfl | rfl | rfl
  · exact fun b hb => insertText_valid _ b hb
  · exact fun b hb => insertText_valid _ b hb
  · trivial
  · exact fun b _ => setCursor_valid _ b
  · exact fun b hb => insertText_valid _ b hb
  · exact fun b hb => viFix_valid b hb
  · exact fun b hb => viFix_valid b hb
  · exact fun b hb => insertText_valid _ b hb
  · trivial
  · exact fun b hb => insertText_valid _ b hb
  · exact fun b hb => insertText_valid _ b hb

end Examples

end Ptk.C07
