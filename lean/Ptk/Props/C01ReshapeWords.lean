/-
  C01 — `buffer.reshape_text` changes white space only (the words of the rewritten lines are the words
  of the original lines, in order).
-/
import Ptk.Props.C01Reshape
namespace Ptk.C01
open Ptk.Py

/-! ### `reshape_text` changes white space only: the words of the rewritten lines are the words of
    the original lines, in the same order -/

def Spaceless (isp : Char → Bool) (w : Text) : Prop := ∀ c ∈ w, isp c = false
def AllSpace (isp : Char → Bool) (s : Text) : Prop := ∀ c ∈ s, isp c = true

/-- what `split()` emits for a pending word -/
def flush (acc : Text) : List Text := if acc.isEmpty then [] else [acc.reverse]

theorem pySplitGo_space (isp : Char → Bool) (c : Char) (rest acc : Text) (hc : isp c = true) :
    pySplitGo isp (c :: rest) acc = flush acc ++ pySplitGo isp rest [] := by
  rw [pySplitGo]
  simp only [hc, if_true, flush]
  split <;> simp
theorem pySplitGo_char (isp : Char → Bool) (c : Char) (rest acc : Text) (hc : isp c = false) :
    pySplitGo isp (c :: rest) acc = pySplitGo isp rest (c :: acc) := by
  rw [pySplitGo]
  simp [hc]

theorem pySplitGo_word (isp : Char → Bool) (w rest acc : Text) (hw : Spaceless isp w) :
    pySplitGo isp (w ++ rest) acc = pySplitGo isp rest (w.reverse ++ acc) := by
  induction w generalizing acc with
  | nil => simp
  | cons c cs ih =>
    have hc : isp c = false := hw c (by simp)
    rw [List.cons_append, pySplitGo_char isp c _ acc hc, ih _ (fun x hx => hw x (by simp [hx]))]
    simp

theorem pySplitGo_sep (isp : Char → Bool) (s rest : Text) (hs : AllSpace isp s) :
    pySplitGo isp (s ++ rest) [] = pySplitGo isp rest [] := by
  induction s with
  | nil => simp
  | cons c cs ih =>
    have hc : isp c = true := hs c (by simp)
    rw [List.cons_append, pySplitGo_space isp c _ [] hc]
    simp only [flush, List.isEmpty_nil, if_true, List.nil_append]
    exact ih (fun x hx => hs x (by simp [hx]))

theorem pySplitGo_sep1 (isp : Char → Bool) (c : Char) (s rest acc : Text) (hc : isp c = true)
    (hs : AllSpace isp s) :
    pySplitGo isp (c :: (s ++ rest)) acc = flush acc ++ pySplitGo isp rest [] := by
  rw [pySplitGo_space isp c _ acc hc, pySplitGo_sep isp s rest hs]

/-- the words `split()` yields are non-empty and contain no white space -/
theorem pySplitGo_words (isp : Char → Bool) : ∀ (t acc : Text), Spaceless isp acc →
    ∀ w ∈ pySplitGo isp t acc, w ≠ [] ∧ Spaceless isp w := by
  intro t
  induction t with
  | nil =>
    intro acc ha w hw
    simp only [pySplitGo] at hw
    split at hw
    · simp at hw
    · rename_i hne
      simp at hw; subst hw
      refine ⟨by simpa using hne, ?_⟩
      intro c hc; exact ha c (by simpa using hc)
  | cons c cs ih =>
    intro acc ha w hw
    simp only [pySplitGo] at hw
    split at hw
    · split at hw
      · exact ih [] (by intro x hx; simp at hx) w hw
      · rename_i hne
        rw [List.mem_cons] at hw
        rcases hw with rfl | hw
        · refine ⟨by simpa using hne, ?_⟩
          intro x hx; exact ha x (by simpa using hx)
        · exact ih [] (by intro x hx; simp at hx) w hw
    · rename_i hc
      apply ih (c :: acc) _ w hw
      intro x hx
      rw [List.mem_cons] at hx
      rcases hx with rfl | hx
      · simpa using hc
      · exact ha x hx

theorem reshapeGo_split (isp : Char → Bool) (indent : Text) (width : Int) (r : Text)
    (hi : AllSpace isp indent) (hsp : isp ' ' = true) (hnl : isp '\n' = true) :
    ∀ (ws : List Text) (cw : Nat) (acc : Text),
      (∀ w ∈ ws, w ≠ [] ∧ Spaceless isp w) →
      (cw = 0 → acc = []) → (cw ≠ 0 → acc ≠ [] ∧ Spaceless isp acc) →
      pySplitGo isp ((reshapeGo indent width ws cw).flatten ++ '\n' :: r) acc
        = flush acc ++ ws ++ pySplitGo isp r [] := by
  intro ws
  induction ws with
  | nil =>
    intro cw acc _ _ _
    simp only [reshapeGo, List.flatten_nil, List.nil_append]
    have := pySplitGo_sep1 isp '\n' [] r acc hnl (by intro x hx; simp at hx)
    simp only [List.nil_append] at this
    rw [this]; simp
  | cons w ws ih =>
    intro cw acc hws h0 h1
    obtain ⟨hwne, hwsl⟩ := hws w (by simp)
    have hws' : ∀ x ∈ ws, x ≠ [] ∧ Spaceless isp x := fun x hx => hws x (by simp [hx])
    have hlen : w.length ≠ 0 := by
      intro h; exact hwne (List.length_eq_zero_iff.mp h)
    have hrev : w.reverse ≠ [] ∧ Spaceless isp w.reverse :=
      ⟨by simpa using hwne, fun c hc => hwsl c (by simpa using hc)⟩
    -- the common tail: the word itself, then the rest
    have tail : ∀ cw' : Nat, cw' ≠ 0 →
        pySplitGo isp (w ++ ((reshapeGo indent width ws cw').flatten ++ '\n' :: r)) []
          = w :: (ws ++ pySplitGo isp r []) := by
      intro cw' hcw'
      rw [pySplitGo_word isp w _ [] hwsl]
      simp only [List.append_nil]
      rw [ih cw' w.reverse hws' (fun h => absurd h hcw') (fun _ => hrev)]
      simp [flush, hwne]
    simp only [reshapeGo]
    by_cases hcw : cw = 0
    · subst hcw
      have hacc := h0 rfl; subst hacc
      simp only [ne_eq, not_true_eq_false, if_false, List.flatten_cons, List.append_assoc]
      rw [tail _ (by omega)]
      simp [flush]
    · have hacc := h1 hcw
      simp only [ne_eq, hcw, not_false_eq_true, if_true]
      split
      · simp only [List.flatten_cons, List.append_assoc, List.cons_append, List.nil_append]
        have := pySplitGo_sep1 isp '\n' indent
          (w ++ ((reshapeGo indent width ws (0 + w.length)).flatten ++ '\n' :: r)) acc hnl hi
        rw [this, tail _ (by omega)]
      · simp only [List.flatten_cons, List.append_assoc, List.cons_append, List.nil_append]
        have := pySplitGo_sep1 isp ' ' []
          (w ++ ((reshapeGo indent width ws (cw + 1 + w.length)).flatten ++ '\n' :: r)) acc hsp
          (by intro x hx; simp at hx)
        simp only [List.nil_append] at this
        rw [this, tail _ (by omega)]

theorem reshapeGo_ne_nil (indent : Text) (width : Int) (ws : List Text) (cw : Nat) (h : ws ≠ []) :
    reshapeGo indent width ws cw ≠ [] := by
  cases ws with
  | nil => exact absurd rfl h
  | cons w ws =>
    simp only [reshapeGo]
    split
    · split <;> exact List.cons_ne_nil _ _
    · exact List.cons_ne_nil _ _

theorem reshapeGo_getLast (indent : Text) (width : Int) : ∀ (ws : List Text) (cw : Nat), ws ≠ [] →
    (reshapeGo indent width ws cw).getLast? = ws.getLast? := by
  intro ws
  induction ws with
  | nil => intro cw h; exact absurd rfl h
  | cons w ws ih =>
    intro cw _
    by_cases hws : ws = []
    · subst hws
      simp only [reshapeGo]
      split
      · split <;> simp
      · simp
    · simp only [reshapeGo]
      have e : ∀ cw', (w :: reshapeGo indent width ws cw').getLast? = (w :: ws).getLast? := by
        intro cw'
        have hne : reshapeGo indent width ws cw' ≠ [] := reshapeGo_ne_nil _ _ _ _ hws
        rw [List.getLast?_cons_of_ne_nil hne, List.getLast?_cons_of_ne_nil hws]
        exact ih cw' hws
      split
      · split
        · rw [List.getLast?_cons_cons, List.getLast?_cons_cons]; exact e _
        · rw [List.getLast?_cons_cons]; exact e _
      · exact e _

/-- headline: the rewritten lines consist of exactly the words of the original lines, in order —
    `reshape_text` alters white space only.  (`sp` = regex `\s`, `isp` = `str.isspace`; they agree in
    CPython — regenerated tables — the theorem only needs `sp ⊆ isp` and that blank and line feed are
    white space.) -/
theorem reshape_words (sp isp : Char → Bool) (dw tw : Nat) (first : Text) (linesTo : List Text)
    (hsub : ∀ c, sp c = true → isp c = true) (hsp : isp ' ' = true) (hnl : isp '\n' = true) :
    pySplit isp (reshapePieces sp isp dw tw first linesTo).flatten = pySplit isp linesTo.flatten := by
  unfold reshapePieces
  simp only []
  generalize hind : List.filter notNl (List.take (List.takeWhile sp first).length first) = indent
  generalize hwidth : (((if tw = 0 then dw else tw : Nat) : Int) - (indent.length : Int)) = width
  have hi : AllSpace isp indent := by
    intro c hc
    rw [← hind, List.mem_filter] at hc
    rw [← takeWhile_eq_take_length] at hc
    exact hsub c (mem_takeWhile_p hc.1)
  have hnlind : '\n' ∉ indent := by
    intro hc
    rw [← hind, List.mem_filter] at hc
    simp [notNl] at hc
  have hwords : ∀ w ∈ pySplit isp linesTo.flatten, w ≠ [] ∧ Spaceless isp w :=
    pySplitGo_words isp _ [] (by intro x hx; simp at hx)
  -- the last piece is never a bare line feed, so one is appended
  have hlast : (indent :: reshapeGo indent width (pySplit isp linesTo.flatten) 0).getLast? ≠ some ['\n'] := by
    by_cases hw : pySplit isp linesTo.flatten = []
    · rw [hw]; simp only [reshapeGo]
      intro h; simp at h; rw [h] at hnlind; simp at hnlind
    · have hne : reshapeGo indent width (pySplit isp linesTo.flatten) 0 ≠ [] :=
        reshapeGo_ne_nil _ _ _ _ hw
      rw [List.getLast?_cons_of_ne_nil hne, reshapeGo_getLast indent width _ 0 hw]
      intro h
      have hm : ['\n'] ∈ pySplit isp linesTo.flatten := List.mem_of_getLast? h
      have := (hwords _ hm).2 '\n' (by simp)
      rw [hnl] at this; cases this
  rw [if_pos hlast]
  show pySplitGo isp _ [] = _
  simp only [List.flatten_append, List.flatten_cons, List.flatten_nil, List.append_nil, List.append_assoc]
  rw [pySplitGo_sep isp indent _ hi]
  have := reshapeGo_split isp indent width [] hi hsp hnl (pySplit isp linesTo.flatten) 0 []
    hwords (fun _ => rfl) (fun h => absurd rfl h)
  rw [this]
  simp [flush, pySplitGo]


/-- `reshape_text` as a whole: outside the addressed lines nothing changes, and inside them only
    white space changes (the sequence of words is the same) -/
theorem reshape_only_whitespace (br sp isp : Char → Bool) (dw : Nat) (b : Buf) (fromRow toRow : Int) (tw : Nat)
    (hsub : ∀ c, sp c = true → isp c = true) (hsp : isp ' ' = true) (hnl : isp '\n' = true) :
    let lines := splitLinesKeep br b.text
    let a := normIdx lines.length fromRow
    let e := normIdx lines.length (toRow + 1)
    a < e → ∃ R : Text,
      (reshapeText br sp isp dw b fromRow toRow tw).text
        = (lines.take a).flatten ++ R ++ (lines.drop e).flatten ∧
      pySplit isp R = pySplit isp ((lines.take e).drop a).flatten := by
  intro lines a e hlt
  have hto : slice lines (some fromRow) (some (toRow + 1)) = (lines.take e).drop a := rfl
  have hbefore : sliceTo lines fromRow = lines.take a := by simp [sliceTo, slice, a]
  have hafter : sliceFrom lines (toRow + 1) = lines.drop e := by simp [sliceFrom, slice, e]
  unfold reshapeText
  simp only []
  rw [hto, hbefore, hafter]
  cases hm : (lines.take e).drop a with
  | nil =>
    have : ((lines.take e).drop a).length = 0 := by rw [hm]; rfl
    have hle : e ≤ lines.length := by
      simp only [e, normIdx]; split <;> omega
    simp at this; omega
  | cons first restl =>
    simp only []
    refine ⟨(reshapePieces sp isp dw tw first (first :: restl)).flatten, ?_,
      reshape_words sp isp dw tw first (first :: restl) hsub hsp hnl⟩
    have hc : (((lines.take a ++ reshapePieces sp isp dw tw first (first :: restl)).flatten.length : Nat) : Int)
        ≤ ((lines.take a ++ reshapePieces sp isp dw tw first (first :: restl) ++ lines.drop e).flatten.length : Int) := by
      simp; omega
    simp only [setDoc, hc, if_true]
    simp

example : pySplit (fun c => c == ' ' || c == '\n') "  aa bb\n  cc\n".toList = ["aa".toList, "bb".toList, "cc".toList] := by
  decide

end Ptk.C01
