/-
  C19 — more headline theorems of the second round (for the tables regenerated from /repo):
  streams of escape sequences, the fg/bg exclusion of the 4-bit depth, dotted class names, parts in
  square brackets, 'noinherit', and the structural reason why EVERY Attrs field round-trips
  (each flag field has an encoder code whose decoder branch sets that field).
-/
import Ptk.Gen.C19X
import Ptk.Props.C19
import Ptk.Props.C19Stream
import Ptk.Props.C19Expand
import Ptk.Props.C19Noinherit
import Ptk.Props.C19Pygments
namespace Ptk.C19
open Ptk.Py

/-! ## 9. streams -/

/-- **C19-ab.**  In `ANSI(e(a1) + c1 + e(a2) + c2 + …)`, `e` = the 24-bit escape code of valid attributes,
    `ci` literal characters, fragment `i` is `(style string of ai, ci)`: every emitted sequence decodes
    to its own attributes wherever it stands in a stream. -/
theorem stream_decodes (items : List (Attrs × Char)) (hv : ∀ it ∈ items, ValidAttrs G it.1)
    (hl : ∀ it ∈ items, Literal it.2) :
    ansiFragments G (streamText G gsp .d24 items) = items.map fun it => (styleString (sgrOf G it.1), [it.2]) :=
  stream_decodes_24bit G gen_encDecOk gen_codesBounded gsp gen_spOk items hv hl

/-- non-vacuity (the scenario of a decoder that forgets to reset a flag): strike on, then off -/
def strikeOn : Attrs := { G.defaultAttrs with color := some "ff0000".toList, strike := some true }
def strikeOff : Attrs := { G.defaultAttrs with color := some "00ff00".toList }
example : ansiFragments G (streamText G gsp .d24 [(strikeOn, 'a'), (strikeOff, 'b'), (strikeOn, 'c')]) =
    [("#ff0000 strike".toList, ['a']), ("#00ff00".toList, ['b']), ("#ff0000 strike".toList, ['c'])] := by
  decide +kernel
example : ValidAttrs G strikeOn ∧ ValidAttrs G strikeOff ∧ Literal 'a' := by decide +kernel

/-- the same at 8, 4 and 1 bit, with what one sequence decodes to at that depth (C19-n, C19-o) -/
theorem stream_decodes_low (depth : Depth) (dec : Attrs → Sgr) (items : List (Attrs × Char))
    (hdec : ∀ it ∈ items, ∀ st0, selectGraphicRendition G st0 (0 :: sgrCodes G gsp depth it.1) = dec it.1)
    (hb : ∀ it ∈ items, ∀ c ∈ sgrCodes G gsp depth it.1, c ≤ 9999) (hl : ∀ it ∈ items, Literal it.2) :
    ansiFragments G (streamText G gsp depth items) = items.map fun it => (styleString (dec it.1), [it.2]) := by
  unfold ansiFragments
  rw [stream_fold G gsp depth dec items hdec hb hl {} rfl]
  simp

/-! ## 10. 4-bit depth: foreground and background do not collapse -/

theorem gen_red_always_allowed (c : RGB) : allowed16 c [] ("ansired".toList, (0xcd, 0, 0)) = true := by
  unfold allowed16 exclude16
  split <;> decide +kernel

theorem gen_red_in_table : ("ansired".toList, (0xcd, 0, 0)) ∈ G.ansiRgb := by decide +kernel

/-- the 16-colour map of an RGB colour (nothing excluded) is never 'ansidefault' -/
theorem map16_not_default (c : RGB) (hc : InRange c) : closest16 G.ansiRgb c [] ≠ "ansidefault".toList :=
  closest16_ne_default G.ansiRgb c [] _ gen_red_in_table (gen_red_always_allowed c)
    (dist_lt_infinity c _ hc (gen_ansiRgb_inRange _ gen_red_in_table))

/-- **C19-af (fg/bg exclusion).**  At 4-bit depth, for RGB colours given by DIFFERENT colour strings, the
    ANSI colour the background decodes to is never the one chosen for the foreground; with EQUAL
    strings both get the same ANSI colour.  (Valid attributes; what the emitted parameters decode to
    is `sgrOf4`, see C19-o.) -/
theorem fg_bg_do_not_collapse_4bit (a : Attrs) (fg bg : Text) (hf : a.color = some fg) (hb : a.bgcolor = some bg)
    (hfh : IsHex6 fg) (hbh : IsHex6 bg) (st0 : Sgr) :
    selectGraphicRendition G st0 (0 :: sgrCodes G gsp .d4 a) = sgrOf4 G a ∧
    ∃ n1 n2, (sgrOf4 G a).color = some n1 ∧ (sgrOf4 G a).bgcolor = some n2 ∧
      (fg ≠ bg → n1 ≠ n2) ∧ (fg = bg → n1 = n2) := by
  have hv : ValidAttrs G a := by
    constructor
    · rw [hf]; exact Or.inr (Or.inr (Or.inr hfh))
    · rw [hb]; exact Or.inr (Or.inr (Or.inr hbh))
  refine ⟨decode_4bit a hv st0, ?_⟩
  have hne : ∀ c, IsHex6 c → ¬(c = [] ∨ c = kwDefault) := by
    intro c hh
    rintro (h | h)
    · subst h; simp [IsHex6] at hh
    · exact default_not_hex6 (h ▸ hh)
  have hnn : ∀ c, IsHex6 c → c ∉ G.ansiNames := fun c hh hn => (gen_encDecOk.names c hn).2 hh
  have hcol : (sgrOf4 G a).color = some (closest16 G.ansiRgb (hexRgb fg) []) := by
    simp only [sgrOf4, hf, Option.getD_some, decColor4, if_neg (hne fg hfh), if_neg (hnn fg hfh)]
  have hbg : (sgrOf4 G a).bgcolor = some (closest16 G.ansiRgb (hexRgb bg)
      (if (fg != bg) = true then [closest16 G.ansiRgb (hexRgb fg) []] else [])) := by
    simp only [sgrOf4, hf, hb, Option.getD_some, decColor4, fgAnsi4, if_neg (hne fg hfh), if_neg (hnn fg hfh),
      if_neg (hne bg hbh), if_neg (hnn bg hbh)]
  refine ⟨_, _, hcol, hbg, ?_, ?_⟩
  · intro hdiff
    have hbne : (fg != bg) = true := by simpa using hdiff
    rw [if_pos hbne]
    intro heq
    rcases closest16_not_excluded G.ansiRgb (hexRgb bg) [closest16 G.ansiRgb (hexRgb fg) []] with h | h
    · rw [h] at heq
      exact map16_not_default (hexRgb fg) (hexRgb_inRange fg) heq
    · rw [← heq] at h
      simp at h
  · intro heq
    subst heq
    simp

/-- non-vacuity: '#fe0101' on '#ff0000' — both nearest to bright red; the background falls back to red -/
example : sgrOf4 G { G.defaultAttrs with color := some "fe0101".toList, bgcolor := some "ff0000".toList } =
    { color := some "ansibrightred".toList, bgcolor := some "ansired".toList } := by decide +kernel

/-! ## 11. class names, bracket parts, noinherit -/

/-- **C19-ac.**  A rule takes part iff every one of its class names is a dotted prefix of a class named
    in the style string; `_expand_classname` lists exactly the dotted prefixes. -/
theorem rule_takes_part_iff_prefix (rules : List Rule) (s : Text) (d : Attrs) (srcs : List Src)
    (h : sources G gsp rules s d = some srcs) (r : Rule) :
    Src.rule r ∈ srcs ↔ r ∈ rules ∧ ∀ n ∈ r.names,
      ∃ part ∈ splitWs gsp s, startsWith "class:".toList part = true ∧
        ∃ piece ∈ splitOn ',' (lower (part.drop 6)),
          ∃ k, 1 ≤ k ∧ k ≤ (splitOn '.' piece).length ∧ n = dottedPrefix piece k :=
  rule_used_iff_prefix G gsp rules s d srcs h r

example : expandClassname "a.B.c".toList = ["a".toList, "a.b".toList, "a.b.c".toList] ∧
    dottedPrefix "a.B.c".toList 2 = "a.b".toList := by decide +kernel
/-- a rule for `a.b` applies to `class:a.b.c`, a rule for `a.b.c` does not apply to `class:a.b` -/
example :
    let rs := match compile G gsp grsp [("a.b".toList, "bold".toList), ("a.b.c".toList, "italic".toList)] with
      | .ok r => r | .error _ => []
    (getAttrs G gsp rs "class:a.b.c".toList G.defaultAttrs).map (fun a => (a.bold, a.italic)) =
        some (some true, some true) ∧
    (getAttrs G gsp rs "class:a.b".toList G.defaultAttrs).map (fun a => (a.bold, a.italic)) =
        some (some true, some false) := by decide +kernel

/-- **C19-ad/ae.**  '[transparent]'-like parts are ignored; a part containing 'noinherit' sets every
    attribute, so as the last source it determines the result. -/
theorem special_parts (a : Attrs) (part : Text) (h1 : startsWith ['['] part = true)
    (h2 : endsWith [']'] part = true) : parsePart G a part = some a :=
  parsePart_bracket G a part h1 h2

theorem noinherit_sets_everything (s : Text) (a : Attrs) (hn : (findSub? "noinherit".toList s).isSome = true)
    (h : parseStyleStr G gsp s = some a) : Concrete a :=
  parseStyleStr_noinherit_concrete G (by rw [gen_defaultAttrs]; simp [Concrete]) gsp s a hn h

/-- **C19-ae''.**  'noinherit' is position independent: strings containing it whose other words agree (in
    order) parse alike, and the result is `DEFAULT_ATTRS` overlaid by exactly what the words set —
    the word never wipes attributes named before it in the same string. -/
theorem noinherit_position_independent (s1 s2 : Text)
    (h1 : (findSub? "noinherit".toList s1).isSome = true) (h2 : (findSub? "noinherit".toList s2).isSome = true)
    (hw : (splitWs gsp s1).filter (· ≠ kwNoinherit) = (splitWs gsp s2).filter (· ≠ kwNoinherit)) :
    parseStyleStr G gsp s1 = parseStyleStr G gsp s2 ∧
    parseStyleStr G gsp s1 = (parseParts G G.emptyAttrs (splitWs gsp s1)).map (overlay G.defaultAttrs) :=
  ⟨parseStyleStr_noinherit_position G gsp s1 s2 h1 h2 hw,
   parseStyleStr_noinherit_is_overlay G gen_emptyAttrs gsp s1 h1⟩

/-- non-vacuity (the seeded scenario): 'bold #ff0000 noinherit' = 'noinherit bold #ff0000' = bold + ff0000 -/
example : parseStyleStr G gsp "bold #ff0000 noinherit".toList = parseStyleStr G gsp "noinherit bold #ff0000".toList ∧
    parseStyleStr G gsp "bold noinherit #ff0000 noinherit".toList =
      some { G.defaultAttrs with bold := some true, color := some "ff0000".toList } ∧
    (splitWs gsp "bold #ff0000 noinherit".toList).filter (· ≠ kwNoinherit) =
      (splitWs gsp "noinherit bold #ff0000".toList).filter (· ≠ kwNoinherit) := by decide +kernel

example : parsePart G G.emptyAttrs "[SetCursorPosition]".toList = some G.emptyAttrs ∧
    parseStyleStr G gsp "noinherit bold".toList = some { G.defaultAttrs with bold := some true } := by
  decide +kernel

/-! ## 11b. pygments tokens -/

/-- **C19-ah.**  In a sheet made by `style_from_pygments_dict`, the rule of token `t1` takes part in the
    resolution of 'class:' + classname(`t2`) iff `t1` is a (case-insensitive) prefix of `t2`: a token's
    style applies to the token and to all its sub-tokens, to nothing else. -/
theorem pygments_rule_iff_prefix (rules : List Rule) (d : Attrs) (t1 t2 : List Text) (h1 : DotFree t1)
    (h2 : DotFree t2) (r : Rule) (hr : r ∈ rules) (hnames : r.names = [tokenToClassname t1])
    (hws : splitWs gsp ("class:".toList ++ tokenToClassname t2) = ["class:".toList ++ tokenToClassname t2])
    (hcomma : splitOn ',' (lower (tokenToClassname t2)) = [tokenToClassname t2])
    (srcs : List Src) (h : sources G gsp rules ("class:".toList ++ tokenToClassname t2) d = some srcs) :
    Src.rule r ∈ srcs ↔ (t1.map lower) <+: (t2.map lower) :=
  pygments_rule_applies_iff_prefix G gsp rules d t1 t2 h1 h2 r hr hnames hws hcomma srcs h

/-- non-vacuity: Token.Name.Exception -/
example : tokenToClassname ["Name".toList, "Exception".toList] = "pygments.name.exception".toList ∧
    DotFree ["Name".toList, "Exception".toList] ∧
    splitWs gsp ("class:".toList ++ tokenToClassname ["Name".toList, "Exception".toList]) =
      ["class:".toList ++ tokenToClassname ["Name".toList, "Exception".toList]] ∧
    splitOn ',' (lower (tokenToClassname ["Name".toList, "Exception".toList])) =
      [tokenToClassname ["Name".toList, "Exception".toList]] ∧
    expandClassname (tokenToClassname ["Name".toList, "Exception".toList]) =
      ["pygments".toList, "pygments.name".toList, "pygments.name.exception".toList] := by decide +kernel
example : (compile G gsp grsp (pygmentsRules [(["Name".toList], "bold".toList)])).toOption.map
    (fun rs => rs.map (·.names)) = some [[tokenToClassname ["Name".toList]]] := by decide +kernel

/-! ## 11c. the 256-colour table is the xterm palette -/

/-- the xterm 256-colour palette, stated independently of /repo: `16 + 36 r + 6 g + b` is the colour cube
    over the levels 00 5f 87 af d7 ff, `232 + k` is the grey `8 + 10 k` -/
def xtermLevel (n : Nat) : Nat := [0x00, 0x5f, 0x87, 0xaf, 0xd7, 0xff].getD n 0
def xtermRgb (i : Nat) : RGB :=
  if i < 232 then (xtermLevel ((i - 16) / 36), xtermLevel ((i - 16) / 6 % 6), xtermLevel ((i - 16) % 6))
  else (8 + 10 * (i - 232), 8 + 10 * (i - 232), 8 + 10 * (i - 232))

def xtermOkB (pal : List RGB) : Bool :=
  (enumFrom 0 pal).all fun ip => decide (ip.1 < 16) || ip.1 == 232 || ip.2 == xtermRgb ip.1

theorem gen_pal_xterm_b : xtermOkB G.pal256 = true := by decide +kernel

/-- **C19-ai (the palette indices are the xterm indices).**  Every entry 16..253 of the table regenerated
    from /repo, except the second black the library keeps at 232 (xterm has grey 8 there), is the
    xterm colour of its index — so an index sent as `38;5;n` names the colour a terminal shows, and
    the exact xterm colour of index `n` is sent as `n`. -/
theorem gen_pal_xterm (i : Nat) (p : RGB) (h16 : 16 ≤ i) (h232 : i ≠ 232) (hp : G.pal256[i]? = some p) :
    p = xtermRgb i ∧ closest256 G.pal256 (xtermRgb i) = i := by
  have hmem : (i, p) ∈ enumFrom 0 G.pal256 := mem_enumFrom_zero.mpr hp
  have := List.all_eq_true.mp gen_pal_xterm_b (i, p) hmem
  simp only [Bool.or_eq_true, decide_eq_true_eq, beq_iff_eq] at this
  have hpe : p = xtermRgb i := by
    rcases this with (h | h) | h
    · omega
    · exact absurd h h232
    · exact h
  refine ⟨hpe, ?_⟩
  rw [← hpe]
  exact (map256_fixed_points i h16 p hp).2 h232

example : xtermRgb 16 = (0, 0, 0) ∧ xtermRgb 196 = (255, 0, 0) ∧ xtermRgb 231 = (255, 255, 255) ∧
    xtermRgb 233 = (18, 18, 18) ∧ xtermRgb 253 = (218, 218, 218) ∧ G.pal256[233]? = some (18, 18, 18) := by
  decide +kernel

/-! ## 11d. three-digit hex colours -/

/-- no ANSI colour name / alias has three characters (so '#rgb' is never read as '#' + name) -/
def NoShortNames (T : Tables) : Prop := (∀ n ∈ T.ansiNames, n.length ≠ 3) ∧ (∀ kv ∈ T.aliases, kv.1.length ≠ 3)
instance (T : Tables) : Decidable (NoShortNames T) := by unfold NoShortNames; infer_instance

/-- **`parse_color('#rgb')` doubles every digit** (the CSS rule): 'rrggbb', for all hex digits r g b -/
theorem parseColor_hex3_any (T : Tables) (hS : StyleOk T) (hN : NoShortNames T) (r g b : Char)
    (hr : (hexVal? r).isSome = true) (hg : (hexVal? g).isSome = true) (hb : (hexVal? b).isSome = true) :
    parseColor T ['#', r, g, b] = some [r, r, g, g, b, b] := by
  have hn1 : T.ansiNames.contains ['#', r, g, b] = false := by
    cases hc : T.ansiNames.contains ['#', r, g, b] with
    | false => rfl
    | true =>
      have hm : ['#', r, g, b] ∈ T.ansiNames := by simpa using hc
      exact absurd rfl (hS.nameWord _ hm).2.2.2.2.2
  have hn2 : T.ansiNames.contains [r, g, b] = false := by
    cases hc : T.ansiNames.contains [r, g, b] with
    | false => rfl
    | true =>
      have hm : [r, g, b] ∈ T.ansiNames := by simpa using hc
      exact absurd rfl (hN.1 _ hm)
  have ha1 := lookup_hash_none T.aliases [r, g, b] (fun kv hkv => (hS.aliasKeys kv hkv).1)
  have hlow : lower ['#', r, g, b] = '#' :: lower [r, g, b] := by
    simp [lower, lowerChar]
  have ha2 := lookup_hash_none T.named (lower [r, g, b]) hS.namedKeys
  have ha3 : lookup [r, g, b] T.aliases = none := by
    apply lookup_eq_none
    intro kv hkv heq
    exact hN.2 kv hkv (by rw [heq]; rfl)
  have hall : [r, g, b].all isHexDigit = true := by
    simp [isHexDigit_iff, hr, hg, hb]
  unfold parseColor
  simp only [hn1, Bool.false_eq_true, if_false, ha1, hlow, ha2]
  have hn2' : ¬[r, g, b] ∈ T.ansiNames := by simpa using hn2
  simp [ha3, hn2', hall]

theorem gen_noShortNames : NoShortNames G := by decide +kernel

/-- **C19-aj.**  On the tables of /repo: `parse_color('#rgb') = 'rrggbb'` for ALL hex digits. -/
theorem parseColor_hex3 (r g b : Char)
    (hr : (hexVal? r).isSome = true) (hg : (hexVal? g).isSome = true) (hb : (hexVal? b).isSome = true) :
    parseColor G ['#', r, g, b] = some [r, r, g, g, b, b] :=
  parseColor_hex3_any G gen_styleOk gen_noShortNames r g b hr hg hb

example : parseColor G "#abc".toList = some "aabbcc".toList := by decide +kernel

/-! ## 12. every Attrs field is encoded and decoded -/

/-- **C19-ag.**  On the tables extracted from the CURRENT source: every flag field of `Attrs` has a
    code in the encoder (`__missing__`), the decoder (`_select_graphic_rendition`) has a branch for
    that code that sets the SAME field to True, a branch that sets it to False, and the reset branch
    clears it; `_create_style_string` prints a word for it and `_parse_style_str` reads that word back
    as setting the same field.  There is no Attrs field that the escape code cannot carry. -/
theorem every_field_round_trips :
    ∀ f ∈ Gen.C19X.attrsFields.drop 2,
      (∃ fc ∈ Gen.C19X.encFlags, fc.1 = f ∧ (fc.2, f, true) ∈ Gen.C19X.decFlags) ∧
      (∃ kfv ∈ Gen.C19X.decFlags, kfv.2.1 = f ∧ kfv.2.2 = false) ∧
      (f, "False".toList) ∈ Gen.C19X.decReset ∧
      (∃ fw ∈ Gen.C19X.styleFlagWords, fw.1 = f ∧
        ({ test := .eq fw.2, act := .setFlag f true } : PBranch) ∈ Gen.C19X.parseChain) := by
  decide +kernel

end Ptk.C19
