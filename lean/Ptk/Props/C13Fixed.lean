/-
  C13 — lemmas about the transition system of the REPAIRED ThreadedHistory (`Ptk.Model.C13Fixed`):
  invariant `InvF` (preserved by EVERY step: no hypothesis on the schedule), termination measure
  `budgetF`, no lost wake-up.  The property theorems are in `Props/C13.lean`.
-/
import Ptk.Props.C13Threaded
import Ptk.Model.C13Fixed
namespace Ptk.C13
open Ptk.Py

theorem prefix_drop {α} (p V : List α) (h : p <+: V) (k : Nat) : p.drop k <+: V.drop k := by
  obtain ⟨t, rfl⟩ := h
  by_cases hk : k ≤ p.length
  · rw [List.drop_append_of_le_length hk]; exact ⟨t, rfl⟩
  · have : p.drop k = [] := List.drop_eq_nil_of_le (by omega)
    rw [this]; exact List.nil_prefix

structure InvF (st : THF) : Prop where
  pre : st.strs <+: st.view
  iter : (st.lpc = .iter ∨ st.lpc = .notify) → st.failed = false → st.strs ++ st.remaining = st.view
  failPc : st.failed = true →
    (st.lpc = .iter ∨ st.lpc = .notifyFinal ∨ st.lpc = .finished) ∧ st.remaining = []
  loadedIff : st.loaded = true ↔ (st.lpc = .notifyFinal ∨ st.lpc = .finished)
  full : st.loaded = true → st.failed = false → st.strs = st.view
  seenLe : st.seen ≤ st.inserted
  hist : st.active → st.view.drop st.shift = st.hist0
  cons : st.active → st.out = st.hist0.take st.yielded
  ybatch : st.cpc = .yielding → st.sawDone = false →
    st.out ++ st.batch = st.hist0.take (st.yielded + st.batch.length)
  ydone : st.cpc = .yielding → st.sawDone = true →
    st.loaded = true ∧ (st.failed = false → st.out ++ st.batch = st.hist0 ++ st.front)
  frontOk : (st.cpc = .yielding ∨ (st.cpc = .done ∧ st.complete = true)) →
    ∃ later, st.view = later ++ (st.front ++ st.hist0)
  ywake : st.cpc = .yielding → st.sawDone = false → st.ev = false → st.lpc ≠ .finished
  idle : st.cpc = .idle → st.lpc = .notStarted
  done : st.cpc = .done → st.complete = true →
    st.loaded = true ∧ (st.failed = false → st.out = st.hist0 ++ st.front)
  wake : st.cpc = .waiting → st.ev = false → st.lpc ≠ .finished
  started : st.lpc = .notStarted → st.cpc = .idle
  called : st.lpc = .called → st.hoist = true
  cfg : st.hoist = false ∨ st.eager = false

theorem invF_init (old pre : List Text) (eager hoist : Bool := false)
    (hcfg : hoist = false ∨ eager = false := by decide) : InvF (THF.init old pre eager hoist) := by
  constructor <;> simp [THF.init, THF.view, THF.active, hcfg]

set_option hygiene false in
macro "unpack" h:ident : tactic => `(tactic| (
    have h0 := ($h).pre
    have h1 := ($h).loadedIff
    have h2 := ($h).cons
    have h3 := ($h).idle
    have h4 := ($h).done
    have h5 := ($h).wake
    have h6 := ($h).failPc
    have h7 := ($h).seenLe
    have h8 := ($h).iter
    have h9 := ($h).full
    have h10 := ($h).started
    have h11 := ($h).ybatch
    have h12 := ($h).ydone
    have h13 := ($h).ywake
    have h14 := ($h).hist
    have h15 := ($h).frontOk
    have h16 := ($h).called
    have h17 := ($h).cfg))

theorem invF_cwait (st : THF) (h : InvF st) : InvF (stepF st .cwait) := by
  simp only [stepF]
  split
  · rename_i hl
    unpack h
    constructor <;> simp_all [THF.view, THF.active, THF.shift]
  · exact h

theorem invF_lnotify (st : THF) (h : InvF st) : InvF (stepF st .lnotify) := by
  simp only [stepF]
  split
  · rename_i hl
    unpack h
    constructor <;> simp_all [THF.view, THF.active, THF.shift]
  · exact h

theorem invF_lfinal (st : THF) (h : InvF st) : InvF (stepF st .lfinal) := by
  simp only [stepF]
  split
  · rename_i hl
    unpack h
    constructor <;> simp_all [THF.view, THF.active, THF.shift]
  · exact h

theorem invF_ldone (st : THF) (h : InvF st) : InvF (stepF st .ldone) := by
  simp only [stepF]
  split
  · rename_i hl
    unpack h
    constructor <;> simp_all [THF.view, THF.active, THF.shift]
  · exact h

theorem invF_lcall (st : THF) (h : InvF st) : InvF (stepF st .lcall) := by
  simp only [stepF]
  split
  · rename_i hl
    unpack h
    constructor <;> simp_all [THF.view, THF.active, THF.shift]
  · exact h

theorem invF_lreset (st : THF) (h : InvF st) : InvF (stepF st .lreset) := by
  simp only [stepF]
  split
  · rename_i hl
    unpack h
    constructor <;> simp_all [THF.view, THF.active, THF.shift]
  · split
    · rename_i hl
      unpack h
      have hho := h16 hl
      have hea : st.eager = false := by
        rcases h17 with h17 | h17
        · simp [hho] at h17
        · exact h17
      constructor <;> simp_all [THF.view, THF.active, THF.shift]
    · exact h

theorem invF_lfail (st : THF) (h : InvF st) : InvF (stepF st .lfail) := by
  simp only [stepF]
  split
  · rename_i hl
    unpack h
    cases hh : st.hoist <;> (constructor <;> simp_all [THF.view, THF.active, THF.shift])
  · split
    · rename_i hl
      unpack h
      constructor <;> simp_all [THF.view, THF.active, THF.shift]
    · split
      · rename_i hl
        unpack h
        constructor <;> simp_all [THF.view, THF.active, THF.shift]
      · exact h

theorem invF_ccancel (st : THF) (h : InvF st) : InvF (stepF st .ccancel) := by
  simp only [stepF]
  split
  · rename_i hl
    unpack h
    rcases hl with hl | hl | hl <;> (constructor <;> simp_all [THF.view, THF.active, THF.shift])
  · exact h


theorem invF_lappend (st : THF) (h : InvF st) : InvF (stepF st .lappend) := by
  simp only [stepF]
  split
  · rename_i hl
    split
    · rename_i x r hr
      unpack h
      have hnf : st.failed = false := by
        cases hf : st.failed with
        | false => rfl
        | true => have := (h6 hf).2; simp [hr] at this
      have hp : st.strs ++ [x] <+: st.view := by
        rw [← h8 (Or.inl hl) hnf, hr]
        exact ⟨r, by simp⟩
      constructor <;> simp_all [THF.view, THF.active, THF.shift]
    · exact h
  · exact h

theorem invF_cstart (st : THF) (h : InvF st) : InvF (stepF st .cstart) := by
  simp only [stepF]
  split
  · rename_i hl
    unpack h
    cases hlpc : st.lpc <;> cases hcpc : st.cpc <;>
      (constructor <;> simp_all [THF.view, THF.active, THF.shift])
  · exact h

theorem invF_app (st : THF) (h : InvF st) (s : Text) : InvF (stepF st (.app s)) := by
  simp only [stepF]
  unpack h
  have hsh : st.inserted + 1 - st.seen = (st.inserted - st.seen) + 1 := by omega
  constructor
  case seenLe => show st.seen ≤ st.inserted + 1; omega
  case frontOk =>
    intro hc
    obtain ⟨later, hl⟩ := h15 hc
    refine ⟨s :: later, ?_⟩
    show (st.storage ++ [s]).reverse = _
    simp only [THF.view] at hl
    simp [hl]
  all_goals simp_all [THF.view, THF.active, THF.shift]


theorem invF_cread (st : THF) (h : InvF st) : InvF (stepF st .cread) := by
  simp only [stepF]
  split
  · rename_i hl
    have ha : st.active := Or.inr (Or.inl hl)
    have hh := h.hist ha
    have hc := h.cons ha
    have hp := prefix_drop _ _ h.pre st.shift
    rw [hh] at hp
    have hdd : st.strs.drop (st.yielded + st.shift) = (st.strs.drop st.shift).drop st.yielded := by
      rw [List.drop_drop, Nat.add_comm]
    have key := take_append_drop_prefix (st.strs.drop st.shift) st.hist0 hp st.yielded
    constructor
    · exact h.pre
    · exact h.iter
    · exact h.failPc
    · exact h.loadedIff
    · exact h.full
    · exact h.seenLe
    · intro _; exact hh
    · intro _; exact hc
    · intro _ hd
      have hd' : st.loaded = false := hd
      show st.out ++ (st.strs.drop (st.yielded + st.shift) ++ (if st.loaded = true then st.strs.take st.shift else []))
        = st.hist0.take (st.yielded + (st.strs.drop (st.yielded + st.shift) ++ (if st.loaded = true then st.strs.take st.shift else [])).length)
      simp only [hd', Bool.false_eq_true, if_false, List.append_nil]
      rw [hc, hdd, key]
    · intro _ hd
      have hd' : st.loaded = true := hd
      refine ⟨hd', ?_⟩
      intro hf
      have hf' : st.failed = false := hf
      show st.out ++ (st.strs.drop (st.yielded + st.shift) ++ (if st.loaded = true then st.strs.take st.shift else []))
        = st.hist0 ++ st.view.take st.shift
      simp only [hd', if_true]
      rw [hc, hdd, h.full hd' hf', hh, ← List.append_assoc, List.take_append_drop]
    · intro _
      refine ⟨[], ?_⟩
      show st.view = [] ++ (st.view.take st.shift ++ st.hist0)
      rw [← hh, List.nil_append, List.take_append_drop]
    · intro _ hd _ hfin
      have hd' : st.loaded = false := hd
      have := h.loadedIff.mpr (Or.inr hfin)
      simp [hd'] at this
    · intro hc; simp at hc
    · intro hc; simp at hc
    · intro hc; simp at hc
    · intro hn
      have := h.started hn
      simp [hl] at this
    · exact h.called
    · exact h.cfg
  · exact h

theorem invF_cyield (st : THF) (h : InvF st) : InvF (stepF st .cyield) := by
  simp only [stepF]
  split
  · rename_i hl
    have ha : st.active := Or.inr (Or.inr hl)
    have hh := h.hist ha
    have hb := h.ybatch hl
    have hd := h.ydone hl
    have hw := h.ywake hl
    have hfr := h.frontOk (Or.inl hl)
    constructor
    · exact h.pre
    · exact h.iter
    · exact h.failPc
    · exact h.loadedIff
    · exact h.full
    · exact h.seenLe
    · intro _; exact hh
    · intro hact
      cases hs : st.sawDone with
      | false => exact hb hs
      | true => simp [THF.active, hs] at hact
    · intro hc
      cases hs : st.sawDone <;> simp [hs] at hc
    · intro hc
      cases hs : st.sawDone <;> simp [hs] at hc
    · intro _; exact hfr
    · intro hc
      cases hs : st.sawDone <;> simp [hs] at hc
    · intro hc
      cases hs : st.sawDone <;> simp [hs] at hc
    · intro hc _
      cases hs : st.sawDone with
      | false => simp [hs] at hc
      | true => exact hd hs
    · intro hc hev
      cases hs : st.sawDone with
      | false => exact hw hs hev
      | true => simp [hs] at hc
    · intro hn
      have := h.started hn
      simp [hl] at this
    · exact h.called
    · exact h.cfg
  · exact h

theorem invF_step (st : THF) (h : InvF st) (a : StepF) : InvF (stepF st a) := by
  cases a with
  | cstart => exact invF_cstart st h
  | cwait => exact invF_cwait st h
  | cread => exact invF_cread st h
  | cyield => exact invF_cyield st h
  | ccancel => exact invF_ccancel st h
  | lcall => exact invF_lcall st h
  | lreset => exact invF_lreset st h
  | lappend => exact invF_lappend st h
  | lnotify => exact invF_lnotify st h
  | ldone => exact invF_ldone st h
  | lfinal => exact invF_lfinal st h
  | lfail => exact invF_lfail st h
  | app s => exact invF_app st h s

theorem invF_run (st : THF) (h : InvF st) (sched : List StepF) : InvF (runF st sched) := by
  induction sched generalizing st with
  | nil => exact h
  | cons a r ih =>
    simp only [runF, List.foldl_cons]
    exact ih (stepF st a) (invF_step st h a)

def isLoadStepF : StepF → Prop
  | .cwait | .cread | .cyield | .lcall | .lreset | .lappend | .lnotify | .ldone | .lfinal => True
  | _ => False

def lrankF (st : THF) : Nat :=
  match st.lpc with
  | .notStarted => 0
  | .started => 2 * max st.storage.length st.remaining.length + 4
  | .called => 2 * max st.storage.length st.remaining.length + 3
  | .iter => 2 * st.remaining.length + 2
  | .notify => 2 * st.remaining.length + 3
  | .notifyFinal => 1
  | .finished => 0

def crankF (st : THF) : Nat :=
  match st.cpc with
  | .waiting => if st.ev then 3 else 0
  | .reading => 2
  | .yielding => if st.ev then 4 else 1
  | _ => 0

/-- number of effective loader / consumer steps that can still happen -/
def budgetF (st : THF) : Nat := 4 * lrankF st + crankF st

theorem budgetF_decreases (st : THF) (a : StepF) (ha : isLoadStepF a) (hne : stepF st a ≠ st) :
    budgetF (stepF st a) < budgetF st := by
  cases a with
  | cstart => simp [isLoadStepF] at ha
  | ccancel => simp [isLoadStepF] at ha
  | lfail => simp [isLoadStepF] at ha
  | app s => simp [isLoadStepF] at ha
  | cwait =>
    simp only [stepF] at hne ⊢
    split at hne
    · rename_i h
      simp only [h, and_self, if_true]
      simp [budgetF, lrankF, crankF, h.1, h.2]
    · exact absurd rfl hne
  | cread =>
    simp only [stepF] at hne ⊢
    split at hne
    · rename_i h
      simp only [h, if_true]
      simp [budgetF, lrankF, crankF, h]
    · exact absurd rfl hne
  | cyield =>
    simp only [stepF] at hne ⊢
    split at hne
    · rename_i h
      simp only [h, if_true]
      cases hld : st.sawDone <;> cases hev : st.ev <;> simp [budgetF, lrankF, crankF, h, hev]
    · exact absurd rfl hne
  | lcall =>
    simp only [stepF] at hne ⊢
    split at hne
    · rename_i h
      simp only [h, and_self, if_true]
      simp only [budgetF, lrankF, crankF, h.2]
      cases st.eager <;> simp <;> omega
    · exact absurd rfl hne
  | lreset =>
    simp only [stepF] at hne ⊢
    split at hne
    · rename_i h
      simp only [h, and_self, if_true]
      simp only [budgetF, lrankF, crankF, h.1, List.length_reverse]
      omega
    · split at hne
      · rename_i h0 h
        simp only [h, if_true]
        simp only [budgetF, lrankF, crankF, h]
        cases st.eager <;> simp <;> omega
      · exact absurd rfl hne
  | lappend =>
    simp only [stepF] at hne ⊢
    split at hne
    · rename_i h
      split at hne
      · rename_i x r hr
        simp only [h, if_true]
        simp only [budgetF, lrankF, crankF, h, hr, List.length_cons]
        omega
      · exact absurd rfl hne
    · exact absurd rfl hne
  | lnotify =>
    simp only [stepF] at hne ⊢
    split at hne
    · rename_i h
      simp only [h, if_true]
      simp only [budgetF, lrankF, crankF, h]
      cases st.cpc <;> simp <;> (try split) <;> omega
    · exact absurd rfl hne
  | ldone =>
    simp only [stepF] at hne ⊢
    split at hne
    · rename_i h
      simp only [h, and_self, if_true]
      simp only [budgetF, lrankF, crankF, h.1]
      omega
    · exact absurd rfl hne
  | lfinal =>
    simp only [stepF] at hne ⊢
    split at hne
    · rename_i h
      simp only [h, if_true]
      simp only [budgetF, lrankF, crankF, h]
      cases st.cpc <;> simp <;> (try split) <;> omega
    · exact absurd rfl hne

/-- a schedule in which every step changes the state -/
def effectiveF : THF → List StepF → Prop
  | _, [] => True
  | st, a :: r => stepF st a ≠ st ∧ effectiveF (stepF st a) r

theorem sched_boundedF (st : THF) (sched : List StepF) (hl : ∀ a ∈ sched, isLoadStepF a)
    (he : effectiveF st sched) : sched.length + budgetF (runF st sched) ≤ budgetF st := by
  induction sched generalizing st with
  | nil => simp [runF]
  | cons a r ih =>
    have h1 := budgetF_decreases st a (hl a (by simp)) he.1
    have h2 := ih (stepF st a) (fun b hb => hl b (by simp [hb])) he.2
    simp only [runF, List.foldl_cons, List.length_cons] at h2 ⊢
    omega


/-- no lost wake-up: while a `load()` call is in progress some loader / consumer step can
    change the state -/
theorem no_deadlockF (st : THF) (h : InvF st) (hc : st.active) :
    ∃ a, isLoadStepF a ∧ stepF st a ≠ st := by
  have lpc_ne : ∀ a, (stepF st a).lpc ≠ st.lpc → stepF st a ≠ st := fun a hn he => hn (by rw [he])
  have cpc_ne : ∀ a, (stepF st a).cpc ≠ st.cpc → stepF st a ≠ st := fun a hn he => hn (by rw [he])
  rcases hc with hc | hc
  · by_cases hev : st.ev = true
    · refine ⟨.cwait, trivial, cpc_ne _ ?_⟩
      simp [stepF, hc, hev]
    · have hev' : st.ev = false := by simpa using hev
      have hnf := h.wake hc hev'
      have hns : st.lpc ≠ .notStarted := fun hn => by
        have := h.started hn; simp [hc] at this
      cases hl : st.lpc with
      | notStarted => exact absurd hl hns
      | finished => exact absurd hl hnf
      | started =>
        cases hh : st.hoist with
        | false => exact ⟨.lreset, trivial, lpc_ne _ (by simp [stepF, hl, hh])⟩
        | true => exact ⟨.lcall, trivial, lpc_ne _ (by simp [stepF, hl, hh])⟩
      | called => exact ⟨.lreset, trivial, lpc_ne _ (by simp [stepF, hl])⟩
      | notify => exact ⟨.lnotify, trivial, lpc_ne _ (by simp [stepF, hl])⟩
      | notifyFinal => exact ⟨.lfinal, trivial, lpc_ne _ (by simp [stepF, hl])⟩
      | iter =>
        cases hr : st.remaining with
        | nil => exact ⟨.ldone, trivial, lpc_ne _ (by simp [stepF, hl, hr])⟩
        | cons x r => exact ⟨.lappend, trivial, lpc_ne _ (by simp [stepF, hl, hr])⟩
  · rcases hc with hc | hc
    · refine ⟨.cread, trivial, cpc_ne _ ?_⟩
      simp [stepF, hc]
    · refine ⟨.cyield, trivial, cpc_ne _ ?_⟩
      simp only [stepF, hc, if_true]
      split <;> simp

end Ptk.C13
