/-
  Cross-model agreement, cluster "Buffer edit and state API" (src/prompt_toolkit/buffer.py, without
  undo and validation).

  Base module: the projections of the richer states onto the canonical one, and the agreement of
  the state setters (`cursor_position`, `text`, `document` / `set_document`, `_set_text`,
  `_set_cursor_position`, `reset`).

  Canonical model: `Ptk.C01` — `C01.Buf = (text, cur)` for the edit API, `C01.HBuf = (work, idx, cur, dcache)`
  for the working lines.  Translations (all total):
    * `p05 / p09 / p14 / p15 / p16 / p08` : the (text, cursor) pair of `C05.Buf`, `C09.Buf`, `C14.St`,
      `C15.St`, `C16.Buf`, `C08.St`  (for C05 / C14 / C16 the text is `_working_lines[working_index]`,
      `[]` when the index is invalid, exactly as `C01.HBuf.text`);
    * `w01 / w05 / w14 / w16` : the triple (working lines, working index, cursor) as a `C01.WBuf`
      (`C01.HBuf` additionally carries the document cache, which no other model has);
    * `isRO` : `C05.Outcome` → the `EditReadOnlyBuffer` flag of `C01.setTextRO` / `C01.setDocumentRO`.
  `WFidx` (`working_index < len(_working_lines)`) is the Buffer invariant under which `text` does not
  raise IndexError; the models that keep working lines agree with the (text, cursor) model only there
  (outside, `lines.set idx v` is a no-op and the text stays `[]`; the real code raises).
-/
import Ptk.Model.C01All
import Ptk.Model.C05
import Ptk.Model.C09
import Ptk.Model.C14
import Ptk.Model.C15
import Ptk.Model.C16
import Ptk.Model.C08
namespace Ptk.AgreeBuf
open Ptk.Py

/-! ### projections -/

/-- `C05.Buf` → (text, cursor) -/
def p05 (b : C05.Buf) : C01.Buf := ⟨b.text, b.cur⟩
/-- `C09.Buf` → (text, cursor) (same fields) -/
def p09 (b : C09.Buf) : C01.Buf := ⟨b.text, b.cur⟩
/-- `C14.St` → (text, cursor) -/
def p14 (s : C14.St) : C01.Buf := ⟨s.text, s.cur⟩
/-- `C15.St` → (text, cursor) -/
def p15 (s : C15.St) : C01.Buf := ⟨s.text, s.cur⟩
/-- `C16.Buf` → (text, cursor) -/
def p16 (b : C16.Buf) : C01.Buf := ⟨b.text, b.cur⟩
/-- `C08.St` → (text, cursor) -/
def p08 (s : C08.St) : C01.Buf := ⟨s.text, s.cur⟩

/-- `C01.HBuf` → (working lines, working index, cursor): the document cache is dropped -/
def w01 (h : C01.HBuf) : C01.WBuf := ⟨h.work, h.idx, h.cur⟩
def w05 (b : C05.Buf) : C01.WBuf := ⟨b.lines, b.idx, b.cur⟩
def w14 (s : C14.St) : C01.WBuf := ⟨s.work, s.idx, s.cur⟩
def w16 (b : C16.Buf) : C01.WBuf := ⟨b.lines, b.widx, b.cur⟩

/-- the (text, cursor) pair of a working-lines triple (`Buffer.text`, `[]` for an invalid index) -/
def wbuf (w : C01.WBuf) : C01.Buf := ⟨w.work[w.idx]?.getD [], w.cur⟩

/-- buffer.py::Buffer.text (getter) — `C01.HBuf.buf` vs `C05.Buf.text` / `C14.St.text` / `C16.Buf.text`:
    all four read `_working_lines[working_index]` with the same default -/
theorem text_01 (h : C01.HBuf) : h.buf = wbuf (w01 h) := rfl
theorem text_05 (b : C05.Buf) : p05 b = wbuf (w05 b) := rfl
theorem text_14 (s : C14.St) : p14 s = wbuf (w14 s) := by
  simp [p14, wbuf, w14, C14.St.text, List.getD_eq_getElem?_getD]
theorem text_16 (b : C16.Buf) : p16 b = wbuf (w16 b) := by
  simp [p16, wbuf, w16, C16.Buf.text, C16.entry, List.getD_eq_getElem?_getD]
/-- `C01.WBuf.text?` (Option, `none` = IndexError) is the same read without the default -/
theorem text_01W (w : C01.WBuf) : (wbuf w).text = w.text?.getD [] := rfl

/-- buffer.py::Buffer.document (getter) — `C01.WBuf.document?` vs the pair read by `C15.St.doc` -/
theorem document_15 (s : C15.St) : (s.doc.text, s.doc.cur) = ((p15 s).text, (p15 s).cur) := rfl
/-- buffer.py::Buffer.document (getter) — `C01.HBuf.document` (through the FastDictCache) returns the
    Document of the current (text, cursor): the pair the other models read directly -/
theorem document_01 (size : Nat) (h : C01.HBuf) (hk : ∀ k d, C01.dlookup h.dcache k = some d → d = C01.mkDoc k) :
    (h.document size).2 = ⟨h.buf.text, h.buf.cur⟩ := by
  simp only [C01.HBuf.document, C01.dget]
  split
  · next d hd => simpa [C01.mkDoc, C01.HBuf.buf] using hk _ _ hd
  · rfl
/-- buffer.py::Buffer.document (getter) — `C01.WBuf.document?` vs `C14` (`s.text`, `s.cur`) -/
theorem document_14 (s : C14.St) (hi : s.idx < s.work.length) :
    (w14 s).document? = some ((p14 s).text, (p14 s).cur) := by
  simp [C01.WBuf.document?, C01.WBuf.text?, w14, p14, C14.St.text, hi, List.getD_eq_getElem?_getD]

/-! ### field lemmas of C05 -/

@[simp] theorem c05_cc_text (b : C05.Buf) (o c : Nat) : (C05.cursorChanged b o c).text = b.text := by
  unfold C05.cursorChanged; split <;> rfl
@[simp] theorem c05_cc_cur (b : C05.Buf) (o c : Nat) : (C05.cursorChanged b o c).cur = b.cur := by
  unfold C05.cursorChanged; split <;> rfl
@[simp] theorem c05_cc_idx (b : C05.Buf) (o c : Nat) : (C05.cursorChanged b o c).idx = b.idx := by
  unfold C05.cursorChanged; split <;> rfl
@[simp] theorem c05_cc_lines (b : C05.Buf) (o c : Nat) : (C05.cursorChanged b o c).lines = b.lines := by
  unfold C05.cursorChanged; split <;> rfl
@[simp] theorem c05_cc_ro (b : C05.Buf) (o c : Nat) : (C05.cursorChanged b o c).readOnly = b.readOnly := by
  unfold C05.cursorChanged; split <;> rfl
@[simp] theorem c05_cc_hs (b : C05.Buf) (o c : Nat) : (C05.cursorChanged b o c).hsearch = b.hsearch := by
  unfold C05.cursorChanged; split <;> rfl
@[simp] theorem c05_cc_ehs (b : C05.Buf) (o c : Nat) : (C05.cursorChanged b o c).enableHS = b.enableHS := by
  unfold C05.cursorChanged; split <;> rfl
@[simp] theorem c05_cc_sel (b : C05.Buf) (o c : Nat) : (C05.cursorChanged b o c).sel = b.sel := by
  unfold C05.cursorChanged; split <;> rfl

theorem c05_wt_lines (b : C05.Buf) (v : Text) (c : Nat) : (C05.writeText b v c).lines = b.lines.set b.idx v := by
  unfold C05.writeText; simp only [c05_cc_lines]; split <;> rfl
theorem c05_wt_idx (b : C05.Buf) (v : Text) (c : Nat) : (C05.writeText b v c).idx = b.idx := by
  unfold C05.writeText; simp only [c05_cc_idx]; split <;> rfl
theorem c05_wt_cur (b : C05.Buf) (v : Text) (c : Nat) : (C05.writeText b v c).cur = c := by
  unfold C05.writeText; simp only [c05_cc_cur]; split <;> rfl
theorem c05_wt_ro (b : C05.Buf) (v : Text) (c : Nat) : (C05.writeText b v c).readOnly = b.readOnly := by
  unfold C05.writeText; simp only [c05_cc_ro]; split <;> rfl
theorem c05_wt_text (b : C05.Buf) (v : Text) (c : Nat) (h : b.idx < b.lines.length) :
    (C05.writeText b v c).text = v := by
  simp [C05.Buf.text, c05_wt_lines, c05_wt_idx, h]

theorem clamp_eq (v : Int) (n : Nat) :
    (if (if v > (n : Int) then (n : Int) else v) < 0 then 0 else (if v > (n : Int) then (n : Int) else v)).toNat
      = min v.toNat n := by
  split <;> split <;> omega

theorem c05_sc_idx (b : C05.Buf) (v : Int) : (C05.setCursor b v).idx = b.idx := by simp [C05.setCursor]
theorem c05_sc_lines (b : C05.Buf) (v : Int) : (C05.setCursor b v).lines = b.lines := by simp [C05.setCursor]
theorem c05_sc_ro (b : C05.Buf) (v : Int) : (C05.setCursor b v).readOnly = b.readOnly := by simp [C05.setCursor]
theorem c05_sc_hs (b : C05.Buf) (v : Int) : (C05.setCursor b v).hsearch = b.hsearch := by simp [C05.setCursor]
theorem c05_sc_ehs (b : C05.Buf) (v : Int) : (C05.setCursor b v).enableHS = b.enableHS := by simp [C05.setCursor]
theorem c05_sc_text (b : C05.Buf) (v : Int) : (C05.setCursor b v).text = b.text := by
  simp only [C05.setCursor, c05_cc_text]; rfl
theorem c05_sc_cur (b : C05.Buf) (v : Int) : (C05.setCursor b v).cur = min v.toNat b.text.length := by
  simp only [C05.setCursor, c05_cc_cur]; exact clamp_eq v _

/-- outcome ↔ the `EditReadOnlyBuffer` flag of C01's read-only variants -/
def isRO : C05.Outcome → Bool
  | .readOnly => true
  | _ => false

/-! ### `Buffer.cursor_position = value` (with `_set_cursor_position`) -/

/-- buffer.py::Buffer.cursor_position (setter) — `C01.setCursor` vs `C05.setCursor`, all inputs -/
theorem setCursor_05 (b : C05.Buf) (v : Int) : p05 (C05.setCursor b v) = C01.setCursor (p05 b) v := by
  simp [p05, C01.setCursor, c05_sc_text, c05_sc_cur]
/-- … on the working-lines triple: lines and index are untouched -/
theorem setCursor_05w (b : C05.Buf) (v : Int) :
    w05 (C05.setCursor b v) = { w05 b with cur := (C01.setCursor (p05 b) v).cur } := by
  simp [w05, p05, C01.setCursor, c05_sc_cur, c05_sc_idx, c05_sc_lines]
/-- buffer.py::Buffer.cursor_position (setter) — `C01.setCursor` vs `C09.setCursor` -/
theorem setCursor_09 (b : C09.Buf) (v : Int) : p09 (C09.setCursor b v) = C01.setCursor (p09 b) v := rfl
/-- buffer.py::Buffer.cursor_position (setter) — `C01.setCursor` vs `C14.setCursorPos` -/
theorem setCursor_14 (s : C14.St) (v : Int) : p14 (C14.setCursorPos s v) = C01.setCursor (p14 s) v := by
  simp only [C14.setCursorPos, p14, C01.setCursor]
  split
  · next h => simp [← h]
  · rfl
/-- buffer.py::Buffer.cursor_position (setter) — `C01.setCursor` vs `C15.setCursor` -/
theorem setCursor_15 (s : C15.St) (v : Int) : p15 (C15.setCursor s v) = C01.setCursor (p15 s) v := by
  simp only [C15.setCursor, p15, C01.setCursor]
  split
  · rfl
  · next h => simp at h; simp [← h]
/-- buffer.py::Buffer.cursor_position (setter) — `C01.setCursor` vs `C16.setCur` (C16 only passes
    non-negative values: the special case `v : Nat`) -/
theorem setCursor_16 (b : C16.Buf) (v : Nat) : p16 (C16.setCur b v) = C01.setCursor (p16 b) (v : Int) := by
  simp [C16.setCur, p16, C01.setCursor, C16.Buf.text]
/-- buffer.py::Buffer.cursor_position (setter) — `C01.setCursor` vs `C08.clampCur` (the clamp, inlined
    by `C08.opTransform` / `indent` / `unindent`) -/
theorem setCursor_08 (t : Text) (c : Nat) (v : Int) : C08.clampCur v t.length = (C01.setCursor ⟨t, c⟩ v).cur := rfl
/-- buffer.py::Buffer.cursor_position (setter) — `C01.setCursor` vs `C01.HBuf.setCur` (the two
    representations inside the canonical model) -/
theorem setCursor_01H (h : C01.HBuf) (v : Int) : (h.setCur v).buf = C01.setCursor h.buf v := by
  simp [C01.HBuf.setCur, C01.HBuf.buf, C01.setCursor, C01.HBuf.text]

/-! ### `Buffer.text = value` (with `_set_text`) -/

/-- buffer.py::Buffer.text (setter) — `C01.setTextRO` (read-only flag = `b.readOnly`) vs `C05.setText`;
    for a writable buffer `C01.setTextRO false` is `C01.setText` (`setTextRO_false`) -/
theorem setText_05 (b : C05.Buf) (v : Text) (hi : b.idx < b.lines.length) :
    p05 (C05.setText b v).1 = (C01.setTextRO b.readOnly (p05 b) v).1 ∧
    isRO (C05.setText b v).2 = (C01.setTextRO b.readOnly (p05 b) v).2 := by
  unfold C05.setText C01.setTextRO
  by_cases hc : b.cur > v.length <;> by_cases hr : b.readOnly = true <;>
    simp [hc, hr, p05, isRO, c05_sc_ro, c05_sc_text, c05_sc_cur, c05_sc_idx, c05_sc_lines, c05_wt_text, c05_wt_cur, hi,
      C01.setCursor]
/-- the two text setters of C01 (`setText`: `min cur (len t)`; `setTextRO`: the code's
    `if cursor_position > len(value): cursor_position = len(value)`, whose setter clamps to the OLD
    text) coincide on a writable buffer whose cursor is inside the text -/
theorem setTextRO_false (b : C01.Buf) (t : Text) (hw : b.cur ≤ b.text.length) :
    (C01.setTextRO false b t).1 = C01.setText b t := by
  simp only [C01.setTextRO, C01.setText, C01.setCursor]
  by_cases h : b.cur > t.length
  · simp only [h, if_true, Bool.false_eq_true, if_false]; congr 1; simp; omega
  · simp only [h, if_false, Bool.false_eq_true]; congr 1; omega
/-- outside the Buffer invariant `cursor ≤ len(text)` the two text setters of C01 differ (the code
    follows `setTextRO`: the cursor setter clamps against the old text) -/
theorem setText_01_outside_disagree :
    (C01.setTextRO false ⟨[], 5⟩ ['a', 'b']).1 ≠ C01.setText ⟨[], 5⟩ ['a', 'b'] := by decide
/-- outside the invariant (`working_index` invalid) the working-lines models cannot store the text:
    witness for the excluded region of `setText_05` -/
theorem setText_05_outside_disagree :
    p05 (C05.setText ⟨[], 0, 0, none, [], [], [], false, none, false, [], none, none⟩ ['a']).1
      ≠ (C01.setTextRO false ⟨[], 0⟩ ['a']).1 := by decide

theorem c14_sc_text (s : C14.St) (v : Int) : (C14.setCursorPos s v).text = s.text := by
  simp only [C14.setCursorPos]; split <;> rfl
theorem c14_sc_work (s : C14.St) (v : Int) : (C14.setCursorPos s v).work = s.work := by
  simp only [C14.setCursorPos]; split <;> rfl
theorem c14_sc_idx (s : C14.St) (v : Int) : (C14.setCursorPos s v).idx = s.idx := by
  simp only [C14.setCursorPos]; split <;> rfl
theorem c14_sc_search (s : C14.St) (v : Int) : (C14.setCursorPos s v).search = s.search := by
  simp only [C14.setCursorPos]; split <;> rfl
theorem c14_sc_ehs (s : C14.St) (v : Int) : (C14.setCursorPos s v).ehs = s.ehs := by
  simp only [C14.setCursorPos]; split <;> rfl
theorem c14_sc_cur (s : C14.St) (v : Int) : (C14.setCursorPos s v).cur = min v.toNat s.text.length := by
  simp only [C14.setCursorPos]; split
  · next h => exact h.symm
  · rfl

theorem c14_text_set (s : C14.St) (t : Text) (hi : s.idx < s.work.length) :
    ({ s with work := s.work.set s.idx t } : C14.St).text = t := by
  simp [C14.St.text, List.getD_eq_getElem?_getD, hi]

/-- buffer.py::Buffer.text (setter) — `C01.setTextRO false` vs `C14.setText` (no read-only buffers in
    C14), all cursors -/
theorem setText_14 (s : C14.St) (t : Text) (hi : s.idx < s.work.length) :
    p14 (C14.setText s t) = (C01.setTextRO false (p14 s) t).1 := by
  have key : ∀ s1 : C14.St, s1.idx < s1.work.length →
      p14 (if decide (t ≠ s1.text) = true then
            { C14.textChanged { s1 with work := s1.work.set s1.idx t } with search := none }
          else { s1 with work := s1.work.set s1.idx t }) = ⟨t, s1.cur⟩ := by
    intro s1 h1
    split
    · simp only [p14, C14.textChanged]
      congr 1
      exact c14_text_set s1 t h1
    · simp only [p14]
      congr 1
      exact c14_text_set s1 t h1
  unfold C14.setText
  by_cases hc : s.cur > t.length
  · simp only [hc, if_true]
    rw [key _ (by simpa [c14_sc_idx, c14_sc_work] using hi)]
    simp [C01.setTextRO, p14, c14_sc_cur, hc, C01.setCursor]
  · simp only [hc, if_false]
    rw [key _ hi]
    simp [C01.setTextRO, p14, hc]
/-- … hence `C01.setText` inside the invariant -/
theorem setText_14_inv (s : C14.St) (t : Text) (hi : s.idx < s.work.length) (hw : s.cur ≤ s.text.length) :
    p14 (C14.setText s t) = C01.setText (p14 s) t := by
  rw [setText_14 s t hi, setTextRO_false _ _ hw]
/-- buffer.py::Buffer.text (setter) — `C01.setTextRO false` vs `C15.setText`, all inputs -/
theorem setText_15 (cfg : C15.Config) (s : C15.St) (t : Text) :
    p15 (C15.setText cfg s t) = (C01.setTextRO false (p15 s) t).1 := by
  unfold C15.setText
  have h1 : (C15.setCursor s t.length).cur = min t.length s.text.length := by
    have := congrArg C01.Buf.cur (setCursor_15 s t.length)
    simpa [p15, C01.setCursor] using this
  have h2 : (C15.setCursor s t.length).text = s.text := by
    have := congrArg C01.Buf.text (setCursor_15 s t.length)
    simpa [p15, C01.setCursor] using this
  by_cases hc : s.cur > t.length
  · simp only [hc, if_true]
    split
    · simp [p15, C15.textChanged, C01.setTextRO, h1, hc, C01.setCursor]
    · next hne =>
      simp only [h2] at hne
      have : t = s.text := by simpa using hne
      subst this
      simp [p15, C01.setTextRO, h1, h2, hc, C01.setCursor]
  · simp only [hc, if_false]
    split
    · simp [p15, C15.textChanged, C01.setTextRO, hc]
    · next hne =>
      have : t = s.text := by simpa using hne
      subst this
      simp [p15, C01.setTextRO, hc]
/-- … hence `C01.setText` inside the invariant -/
theorem setText_15_inv (cfg : C15.Config) (s : C15.St) (t : Text) (hw : s.cur ≤ s.text.length) :
    p15 (C15.setText cfg s t) = C01.setText (p15 s) t := by
  rw [setText_15, setTextRO_false _ _ hw]

/-- buffer.py::Buffer._set_text — `C01.WBuf.setText` vs the `lines.set idx v` inlined by
    `C05.writeText` -/
theorem setTextRaw_05 (b : C05.Buf) (v : Text) (c : Nat) :
    (w05 (C05.writeText b v c)).work = ((w05 b).setText v).work := by
  simp [w05, C01.WBuf.setText, c05_wt_lines]
/-- buffer.py::Buffer._set_text — `C01.WBuf.setText` vs the `work.set idx t` inlined by `C14.setText` /
    `C14.setDocument` -/
theorem setTextRaw_14 (s : C14.St) (t : Text) :
    w14 { s with work := s.work.set s.idx t } = (w14 s).setText t := rfl

/-! ### `Buffer.document = Document(t, c)` / `set_document` (with `_set_cursor_position`) -/

/-- buffer.py::Buffer.set_document — `C01.setDocumentRO` (read-only flag = `b.readOnly`) vs
    `C05.setDocument`; `.assertion` (the `Document` constructor) ↔ "nothing happens" -/
theorem setDocument_05 (b : C05.Buf) (t : Text) (c : Int) (bp : Bool) (hi : b.idx < b.lines.length) :
    p05 (C05.setDocument b t c bp).1 = (C01.setDocumentRO b.readOnly bp (p05 b) t c).1 ∧
    isRO (C05.setDocument b t c bp).2 = (C01.setDocumentRO b.readOnly bp (p05 b) t c).2 := by
  unfold C05.setDocument C01.setDocumentRO
  by_cases hc : c > (t.length : Int)
  · have : ¬ c ≤ (t.length : Int) := by omega
    simp [hc, this, isRO]
  · have h2 : c ≤ (t.length : Int) := by omega
    by_cases hr : (!bp && b.readOnly) = true
    · simp [hc, h2, hr, isRO]
    · simp only [hc, h2, hr, if_true, if_false]
      refine ⟨?_, by simp [isRO]⟩
      simp only [Bool.false_eq_true, if_false]
      show C01.Buf.mk _ _ = C01.Buf.mk _ _
      rw [c05_wt_text _ _ _ hi, c05_wt_cur]
      congr 1
      omega
/-- buffer.py::Buffer.set_document — `C01.setDoc` (the `document` setter of a writable buffer) vs
    `C05.setDocument … false` -/
theorem setDoc_05 (b : C05.Buf) (t : Text) (c : Int) (hi : b.idx < b.lines.length) (hr : b.readOnly = false) :
    p05 (C05.setDocument b t c false).1 = C01.setDoc (p05 b) t c := by
  rw [(setDocument_05 b t c false hi).1]
  simp only [C01.setDocumentRO, C01.setDoc, hr]
  split <;> simp
/-- `C01.setDocument` (Option) and `C01.setDoc` are the same function -/
theorem setDocument_01 (b : C01.Buf) (t : Text) (c : Int) :
    (C01.setDocument b t c).getD b = C01.setDoc b t c := by
  simp only [C01.setDocument, C01.setDoc]; split <;> rfl

/-- buffer.py::Buffer.set_document — `C01.setDoc` vs `C14.setDocument` (C14 passes `0 ≤ c ≤ len t`: the
    special case `c : Nat`, assertion not reachable) -/
theorem setDocument_14 (s : C14.St) (t : Text) (c : Nat) (hi : s.idx < s.work.length) (hc : c ≤ t.length) :
    p14 (C14.setDocument s t c) = C01.setDoc (p14 s) t c := by
  have ht : ({ s with work := s.work.set s.idx t, cur := c } : C14.St).text = t := by
    simp [C14.St.text, List.getD_eq_getElem?_getD, hi]
  have hc' : (c : Int) ≤ (t.length : Int) := by omega
  simp only [C14.setDocument, C01.setDoc, hc', if_true]
  split <;> split <;> simp only [p14, C14.textChanged] <;> (congr 1)
/-- buffer.py::Buffer.set_document — `C01.setDoc` vs `C15.setDocument` (same special case) -/
theorem setDocument_15 (cfg : C15.Config) (s : C15.St) (t : Text) (c : Nat) (hc : c ≤ t.length) :
    p15 (C15.setDocument cfg s t c) = C01.setDoc (p15 s) t c := by
  have hc' : (c : Int) ≤ (t.length : Int) := by omega
  simp only [C15.setDocument, C01.setDoc, hc', if_true]
  split <;> split <;> simp [p15, C15.textChanged, C15.cursorChanged]

/-! ### `Buffer.reset(Document(t, c))` -/

/-- buffer.py::Buffer.reset — `C01.HBuf.reset` vs `C05.reset` (`c > len t`: AssertionError of the
    `Document` constructor in C05; `C01.hstep` clamps `c` before calling, so the domain of both
    correspondences is `c ≤ len t`) -/
theorem reset_05 (h : C01.HBuf) (b : C05.Buf) (t : Text) (c : Nat) (hc : c ≤ t.length) :
    w05 (C05.reset b t c).1 = w01 (h.reset t c) ∧ (C05.reset b t c).2 = .ok := by
  have : ¬ c > t.length := by omega
  simp [C05.reset, C01.HBuf.reset, w05, w01, this]
/-- buffer.py::Buffer.reset — `C01.HBuf.reset` vs `C14.reset`, all inputs -/
theorem reset_14 (h : C01.HBuf) (s : C14.St) (t : Text) (c : Nat) :
    w14 (C14.reset s t c) = w01 (h.reset t c) := rfl
/-- buffer.py::Buffer.reset — `C01.HBuf.reset` vs `C15.reset`, all inputs (C15 keeps no working lines:
    the (text, cursor) view) -/
theorem reset_15 (h : C01.HBuf) (s : C15.St) (t : Text) (c : Nat) :
    p15 (C15.reset s t c) = (h.reset t c).buf := rfl
/-- buffer.py::Buffer.reset — `C15.init` (reset of a fresh buffer) is the same pair -/
theorem reset_15_init (h : C01.HBuf) (d : C15.Doc) : p15 (C15.init d) = (h.reset d.text d.cur).buf := rfl
/-- the excluded region of `reset_05`: `C05.reset` raises where `C01.HBuf.reset` stores the position -/
theorem reset_05_outside_disagree :
    (C05.reset ⟨[[]], 0, 0, none, [], [], [], false, none, false, [], none, none⟩ [] 1).2 = .assertion := by
  decide

end Ptk.AgreeBuf
