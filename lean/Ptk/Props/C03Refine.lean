/-
  C03 — REFINEMENT: the parser model computes the tokenisation spec.

  `refine_main` follows the parser through an arbitrary stream — coroutine body with its retry
  loop, normal-mode character loop, paste fast path with re-feed, final flush — and shows that the
  key presses delivered and the final state are exactly those `tokenize` prescribes for the whole
  stream.  The induction is on `2·|pending prefix| + 3·|paste buffer| + 3·|rest of the stream|`.
-/
import Ptk.Props.C03Shift
namespace Ptk.C03
open Ptk.Py

/-! ### the spec on `q ++ r` when the buffer `q` can not grow -/

/-- beyond a buffer that is not held back, no prefix of the stream is recognised -/
theorem no_match_beyond {cfg : Cfg} (h2 : WF2 cfg) {q r : Text} (hq : isPrefixOfLonger cfg q = false)
    (hne : q ≠ []) {j : Nat} (h1 : q.length < j) (hj : j ≤ (q ++ r).length) :
    getMatch cfg ((q ++ r).take j) = [] := by
  cases hm : getMatch cfg ((q ++ r).take j) with
  | nil => rfl
  | cons a as =>
    have hpre : q <+: (q ++ r).take j := by
      rw [List.prefix_take_iff]
      exact ⟨List.prefix_append _ _, by omega⟩
    have hneq : q ≠ (q ++ r).take j := by
      intro e
      have := congrArg List.length e
      rw [List.length_take] at this
      omega
    have := match_prefix_held h2 (by rw [hm]; simp) hpre hneq hne
    rw [hq] at this; cases this

theorem lm_append_match {cfg : Cfg} (h2 : WF2 cfg) {q : Text} (r : Text)
    (hq : isPrefixOfLonger cfg q = false) (hne : q ≠ []) (hm : getMatch cfg q ≠ []) :
    lm cfg (q ++ r) = q.length := by
  apply lm_eq
  · simp
  · intro _; simpa using hm
  · intro j h1 hj; exact no_match_beyond h2 hq hne h1 hj

theorem lm_append_noMatch {cfg : Cfg} (h2 : WF2 cfg) {q : Text} (r : Text)
    (hq : isPrefixOfLonger cfg q = false) (hne : q ≠ []) (hm : getMatch cfg q = []) :
    lm cfg (q ++ r) = lm cfg q := by
  have hlt := lm_lt_of_noMatch cfg hm hne
  apply lm_eq
  · simp; omega
  · intro h0
    rw [List.take_append_of_le_length (by omega)]
    exact lm_match cfg q h0
  · intro j h1 hj
    by_cases hjq : j ≤ q.length
    · rw [List.take_append_of_le_length hjq]
      rcases lm_max cfg q j h1 with h | h
      · exact h
      · omega
    · exact no_match_beyond h2 hq hne (by omega) hj

/-- the key presses of the first token of a buffer: its longest recognised prefix, or its first
    character as a raw key -/
def tokOf (cfg : Cfg) (q : Text) : List Press :=
  if lm cfg q = 0 then
    match q with
    | c :: _ => [⟨String.singleton c, [c]⟩]
    | [] => []
  else presses (getMatch cfg (q.take (lm cfg q))) (q.take (lm cfg q))

theorem shiftTo_eq (cfg : Cfg) (s : St) (hne : s.pre ≠ []) :
    shiftTo cfg s = { s with pre := s.pre.drop (max (lm cfg s.pre) 1), out := s.out ++ tokOf cfg s.pre } := by
  unfold shiftTo tokOf
  split
  · rename_i h0
    rw [h0]
    cases hp : s.pre with
    | nil => exact absurd hp hne
    | cons c r => simp
  · rename_i h0
    have : max (lm cfg s.pre) 1 = lm cfg s.pre := by omega
    rw [this]

/-- one step of the spec on `q ++ r` when the first token lies inside `q` -/
theorem tokenize_step (cfg : Cfg) (q r : Text) (hne : q ≠ []) (hlm : lm cfg (q ++ r) = lm cfg q)
    (hnp : lm cfg q ≠ 0 → getMatch cfg (q.take (lm cfg q)) ≠ [cfg.pasteKey]) :
    tokenize cfg none (q ++ r) =
      Decoded.cons (tokOf cfg q) (tokenize cfg none (q.drop (max (lm cfg q) 1) ++ r)) := by
  have hle := lm_le cfg q
  unfold tokOf
  by_cases h0 : lm cfg q = 0
  · cases q with
    | nil => exact absurd rfl hne
    | cons c t =>
      simp only [h0, if_true]
      rw [List.cons_append, tokenize_raw cfg c (t ++ r) (by rw [← List.cons_append, hlm, h0])]
      simp
  · have hmax : max (lm cfg q) 1 = lm cfg q := by omega
    have htake : (q ++ r).take (lm cfg q) = q.take (lm cfg q) := List.take_append_of_le_length hle
    have hdrop : (q ++ r).drop (lm cfg q) = q.drop (lm cfg q) ++ r := List.drop_append_of_le_length hle
    simp only [h0, if_false, hmax]
    rw [tokenize_token cfg (q ++ r) (by rw [hlm]; exact h0) (by rw [hlm, htake]; exact hnp h0),
      hlm, htake, hdrop]

theorem after_cons (s : St) (p : Text) (ps : List Press) (d : Decoded) :
    St.after { s with pre := p, out := s.out ++ ps } d = St.after s (Decoded.cons ps d) := by
  simp [St.after, Decoded.cons, List.append_assoc]

/-! ### flush -/

theorem feed_cons_normal (cfg : Cfg) (s : St) (c : Char) (r : Text) (hip : s.inPaste = false) :
    feed cfg s (c :: r) = feed cfg (sendChar cfg s c) r := by
  have h1 : feed cfg s [c] = sendChar cfg s c := by
    rw [feed_normalDone cfg s [c] hip (by simp [feedNormal, hip])]
    simp [feedNormal, hip]
  rw [← h1, ← feed_append_aux]
  rfl

theorem noPS_suffix {p t : Text} (h : NoPS p) (ht : t <:+ p) : NoPS t :=
  fun hi => h (hi.trans ht.isInfix)

theorem pasteStart_match {cfg : Cfg} (h : WF cfg) {p : Text} (hm : getMatch cfg p ≠ [])
    (hps : p ≠ pasteStart) : cfg.pasteKey ∉ getMatch cfg p ∧ getMatch cfg p ≠ [cfg.pasteKey] := by
  rcases wf_getMatch h hm with hk | ⟨_, hp⟩
  · exact ⟨hk, fun e => hk (by rw [e]; simp)⟩
  · exact absurd hp hps

/-- the flush: everything pending is tokenised as the spec says -/
theorem flush_spec {cfg : Cfg} (h : WF cfg) (h2 : WF2 cfg) (s : St) (hip : s.inPaste = false)
    (htidy : s.paste = []) (hps : NoPS s.pre) (hC : s.pre = [] ∨ Cinv cfg true s.pre) :
    proc cfg true s = St.after s (tokenize cfg none s.pre) := by
  generalize hn : s.pre.length = n
  induction n using Nat.strongRecOn generalizing s with
  | _ n ih =>
    by_cases hne : s.pre = []
    · rw [proc_nil cfg true s hne, hne, tokenize_nil]
      cases s
      simp_all [St.after]
    · have hC' : Cinv cfg true s.pre := by
        rcases hC with hC | hC
        · exact absurd hC hne
        · exact hC
      have hpe : s.pre.isEmpty = false := by simpa [List.isEmpty_iff] using hne
      rw [proc_eq]
      simp only [hpe, Bool.false_eq_true, if_false, Bool.true_or, if_true]
      by_cases hm : getMatch cfg s.pre = []
      · simp only [hm, List.isEmpty_nil, Bool.not_true, Bool.false_eq_true, if_false]
        rw [proc_shift h h2 true s (noPSInner_of_noPS hps) hC' hne hm]
        have hst := shiftTo_eq cfg s hne
        have hlt := lm_lt_of_noMatch cfg hm hne
        rw [ih (shiftTo cfg s).pre.length (by rw [hst, ← hn]; simp; omega) (shiftTo cfg s)
          (by rw [hst]; exact hip) (by rw [hst]; exact htidy)
          (by rw [hst]; exact noPS_suffix hps (List.drop_suffix _ _))
          (Or.inr (Or.inr (Or.inr (by rw [hst]; exact shift_Tp h2 hC' hm hne)))) rfl]
        have hstep := tokenize_step cfg s.pre [] hne (by simp) (by
          intro h0
          refine (pasteStart_match h (lm_match cfg s.pre h0) ?_).2
          intro e
          exact hps (by rw [← e]; exact (List.take_prefix _ _).isInfix))
        simp only [List.append_nil] at hstep
        rw [hstep, hst, after_cons]
      · have hmE : (getMatch cfg s.pre).isEmpty = false := by simpa [List.isEmpty_iff] using hm
        simp only [hmE, Bool.not_false, if_true]
        have hnps : s.pre ≠ pasteStart := by
          intro e; exact hps (by rw [e]; exact List.infix_refl _)
        obtain ⟨hk, hk'⟩ := pasteStart_match h hm hnps
        rw [callHandler_noPaste cfg _ _ _ hk]
        have hl := lm_self cfg s.pre hm
        have hl0 : lm cfg s.pre ≠ 0 := by
          rw [hl]; simpa using hne
        rw [tokenize_token cfg s.pre hl0 (by rw [hl, List.take_length]; exact hk'), hl,
          List.take_length, List.drop_length, tokenize_nil]
        cases s
        simp_all [St.after, Decoded.cons]

/-! ### the whole stream -/

/-- what `refine_main` says about a state `s` (in paste mode: at rest; in normal mode: at the top
    of the retry loop with `s.pre` pending) and the rest `r` of the stream -/
def Refines (cfg : Cfg) (s : St) (r : Text) : Prop :=
  if s.inPaste then
    s.pre = [] → flush cfg (feed cfg s r) = St.after s (tokenize cfg (some s.paste) r)
  else
    s.paste = [] → NoPSInner s.pre → (s.pre = [] ∨ Cinv cfg false s.pre) →
      flush cfg (feed cfg (proc cfg false s) r) = St.after s (tokenize cfg none (s.pre ++ r))

def rmeas (s : St) (r : Text) : Nat := 2 * s.pre.length + 3 * s.paste.length + 3 * r.length

theorem refine_main {cfg : Cfg} (h : WF cfg) (h2 : WF2 cfg) (s : St) (r : Text) : Refines cfg s r := by
  generalize hn : rmeas s r = n
  induction n using Nat.strongRecOn generalizing s r with
  | _ n ih =>
    unfold Refines
    by_cases hip : s.inPaste = true
    · -- inside a bracketed paste
      simp only [hip, if_true]
      intro hpre
      obtain ⟨pre, ip, b, out⟩ := s
      simp only at hip hpre
      subst hip hpre
      cases hf : findSub? endMark (b ++ r) with
      | none =>
        rw [feed_pasteOpen cfg _ r rfl hf, flush_eq, proc_nil cfg true _ rfl,
          tokenize_pasteOpen cfg _ _ hf]
        simp [St.after]
      | some j =>
        rw [feed_pasteEnd cfg _ r j rfl hf, tokenize_pasteEnd cfg _ _ j hf]
        have hb := findSub_bound hf
        have := ih _ (by
          rw [← hn]
          show rmeas _ _ < rmeas _ r
          simp only [rmeas, List.length_nil, List.length_drop, List.length_append, endMark,
            List.length_cons] at hb ⊢
          omega) ⟨[], false, [], out ++ [⟨cfg.pasteKey, (b ++ r).take j⟩]⟩
          ((b ++ r).drop (j + endMark.length)) rfl
        unfold Refines at this
        simp only [Bool.false_eq_true, if_false, List.nil_append] at this
        have := this trivial (noPSInner_of_noPS (noPS_of_short (by simp))) (Or.inl trivial)
        rw [proc_nil cfg false _ rfl] at this
        rw [this]
        simp [St.after, Decoded.cons]
    · -- normal mode, `s.pre` pending at the top of the retry loop
      have hip' : s.inPaste = false := by simpa using hip
      simp only [hip', Bool.false_eq_true, if_false]
      intro htidy hw hC
      obtain ⟨q, ip, b, out⟩ := s
      simp only at hip' htidy hw hC
      subst hip' htidy
      have hready : Ready (⟨q, false, [], out⟩ : St) := by intro hh; cases hh
      by_cases hq : q = []
      · subst hq
        rw [proc_nil cfg false _ rfl]
        cases r with
        | nil =>
          rw [feed_nil cfg _ hready, flush_eq, proc_nil cfg true _ rfl]
          simp [St.after, tokenize_nil]
        | cons c r' =>
          rw [feed_cons_normal cfg _ c r' rfl, sendChar_eq]
          have := ih _ (by rw [← hn]; simp [rmeas]; omega) ⟨[c], false, [], out⟩ r' rfl
          unfold Refines at this
          simp only [Bool.false_eq_true, if_false] at this
          have := this trivial (noPSInner_of_noPS (noPS_of_short (by simp)))
            (Or.inr (Or.inl ⟨rfl, Or.inl rfl⟩))
          simpa [St.after] using this
      · have hqE : q.isEmpty = false := by simpa [List.isEmpty_iff] using hq
        have hC' : Cinv cfg false q := hC.resolve_left hq
        by_cases hheld : isPrefixOfLonger cfg q = true
        · -- held back: wait for the next character, or for the flush
          have hproc : proc cfg false ⟨q, false, [], out⟩ = ⟨q, false, [], out⟩ := by
            rw [proc_eq]; simp [hqE, hheld]
          rw [hproc]
          cases r with
          | nil =>
            rw [feed_nil cfg _ hready, flush_eq,
              flush_spec h h2 _ rfl rfl (wf_isPrefix_noPS h hheld) (Or.inr (Or.inr (Or.inl ⟨rfl, hheld⟩)))]
            simp [St.after]
          | cons c r' =>
            rw [feed_cons_normal cfg _ c r' rfl, sendChar_eq]
            have := ih _ (by rw [← hn]; simp [rmeas]; omega) ⟨q ++ [c], false, [], out⟩ r' rfl
            unfold Refines at this
            simp only [Bool.false_eq_true, if_false] at this
            have := this trivial (noPSInner_snoc c (wf_isPrefix_noPS h hheld))
              (Or.inr (Or.inl ⟨rfl, Or.inr (by rw [List.dropLast_concat]; exact hheld)⟩))
            simpa [St.after] using this
        · have hnh : isPrefixOfLonger cfg q = false := by simpa using hheld
          by_cases hm : getMatch cfg q = []
          · -- no exact match: one round of the shift branch, then start over
            have hlt := lm_lt_of_noMatch cfg hm hq
            have hproc : proc cfg false ⟨q, false, [], out⟩ =
                proc cfg false (shiftTo cfg ⟨q, false, [], out⟩) := by
              rw [proc_eq]
              simp only [hqE, Bool.false_eq_true, if_false, hnh, Bool.not_false, Bool.or_true, if_true, hm,
                List.isEmpty_nil, Bool.not_true]
              exact proc_shift h h2 false _ hw hC' hq hm
            rw [hproc, shiftTo_eq cfg _ hq]
            have := ih _ (by rw [← hn]; simp [rmeas]; omega)
              ⟨q.drop (max (lm cfg q) 1), false, [], out ++ tokOf cfg q⟩ r rfl
            unfold Refines at this
            simp only [Bool.false_eq_true, if_false] at this
            have := this trivial (noPSInner_suffix hw (List.drop_suffix _ _))
              (Or.inr (Or.inr (Or.inr (shift_Tp h2 hC' hm hq))))
            rw [this, tokenize_step cfg q r hq (lm_append_noMatch h2 r hnh hq hm) (by
              intro h0
              refine (pasteStart_match h (lm_match cfg q h0) ?_).2
              intro e
              have := noPSInner_take hw e
              have : q.length ≤ lm cfg q := by simpa using this
              omega)]
            exact after_cons ⟨q, false, [], out⟩ _ _ _
          · -- exact match: the whole buffer is delivered
            have hmE : (getMatch cfg q).isEmpty = false := by simpa [List.isEmpty_iff] using hm
            have hproc : proc cfg false ⟨q, false, [], out⟩ =
                callHandler cfg ⟨[], false, [], out⟩ (getMatch cfg q) q := by
              rw [proc_eq]
              simp [hqE, hnh, hmE]
            rw [hproc]
            have hl := lm_append_match h2 r hnh hq hm
            have hl0 : lm cfg (q ++ r) ≠ 0 := by
              rw [hl]; simpa using hq
            rcases wf_getMatch h hm with hk | ⟨hk, hps⟩
            · rw [callHandler_noPaste cfg _ _ _ hk]
              have := ih _ (by
                rw [← hn]
                have : q.length ≠ 0 := by simpa using hq
                simp [rmeas]; omega) ⟨[], false, [], out ++ presses (getMatch cfg q) q⟩ r rfl
              unfold Refines at this
              simp only [Bool.false_eq_true, if_false, List.nil_append] at this
              have := this trivial (noPSInner_of_noPS (noPS_of_short (by simp))) (Or.inl trivial)
              rw [proc_nil cfg false _ rfl] at this
              rw [this, tokenize_token cfg (q ++ r) hl0 (by
                rw [hl, List.take_left']; · exact fun e => hk (by rw [e]; simp)
                rfl), hl, List.take_left' rfl, List.drop_left' rfl]
              exact after_cons ⟨q, false, [], out⟩ [] _ _
            · rw [hk, callHandler_paste]
              have := ih _ (by
                rw [← hn]
                have : q.length ≠ 0 := by simpa using hq
                simp [rmeas]; omega) ⟨[], true, [], out⟩ r rfl
              unfold Refines at this
              simp only [if_true] at this
              rw [this trivial, tokenize_pasteStart cfg (q ++ r) hl0 (by
                rw [hl, List.take_left' rfl]; exact hk), hl, List.drop_left' rfl]
              simp [St.after]

/-! ### from a parser at rest; streams cut by flushes -/

/-- a parser at rest after a flush: nothing pending in the coroutine; outside a paste the paste
    buffer is empty -/
def AtRest (s : St) : Prop := s.pre = [] ∧ (s.inPaste = false → s.paste = [])

theorem atRest_init : AtRest St.init := ⟨rfl, fun _ => rfl⟩

theorem atRest_after (s : St) (d : Decoded) : AtRest (St.after s d) := by
  refine ⟨rfl, ?_⟩
  cases h : d.openPaste <;> simp [St.after, h]

/-- from a parser at rest: feed the stream (in one read), flush — the result is the spec's -/
theorem flush_feed_refines {cfg : Cfg} (h : WF cfg) (h2 : WF2 cfg) (s : St) (hs : AtRest s) (r : Text) :
    flush cfg (feed cfg s r) = St.after s (tokenize cfg s.pasteState r) := by
  have hm := refine_main h h2 s r
  unfold Refines at hm
  unfold St.pasteState
  by_cases hip : s.inPaste = true
  · simp only [hip, if_true] at hm ⊢
    exact hm hs.1
  · have hip' : s.inPaste = false := by simpa using hip
    simp only [hip', Bool.false_eq_true, if_false] at hm ⊢
    have := hm (hs.2 hip') (by rw [hs.1]; exact noPSInner_of_noPS (noPS_of_short (by simp))) (Or.inl hs.1)
    rw [proc_nil cfg false s hs.1, hs.1] at this
    simpa using this

theorem segments_refine {cfg : Cfg} (h : WF cfg) (h2 : WF2 cfg) (s : St) (hs : AtRest s)
    (segs : List Text) :
    segs.foldl (fun s d => flush cfg (feed cfg s d)) s = specSegs cfg s segs := by
  unfold specSegs
  induction segs generalizing s with
  | nil => rfl
  | cons d r ih =>
    simp only [List.foldl_cons]
    rw [flush_feed_refines h h2 s hs d]
    exact ih _ (atRest_after _ _)

/-! ### the spec accounts for every character exactly once -/

/-- text a paste state stands for -/
def pasteText : Option Text → Text
  | some b => pasteStart ++ b
  | none => []

theorem decoded_cons_keys (ps : List Press) (d : Decoded) : (Decoded.cons ps d).keys = ps ++ d.keys := rfl
theorem decoded_cons_open (ps : List Press) (d : Decoded) : (Decoded.cons ps d).openPaste = d.openPaste := rfl

/-- **the spec is lossless**: the data of the key presses (a paste press standing for
    `ESC[200~` text `ESC[201~`), followed by an unterminated paste, spell exactly the stream -/
theorem tokenize_lossless {cfg : Cfg} (h : WF cfg) (o : Option Text) (s : Text) :
    (tokenize cfg o s).keys.flatMap (pressText cfg) ++ pasteText (tokenize cfg o s).openPaste
      = pasteText o ++ s := by
  generalize hn : tmeas o s = n
  induction n using Nat.strongRecOn generalizing o s with
  | _ n ih =>
    cases o with
    | some b =>
      cases hf : findSub? endMark (b ++ s) with
      | none => rw [tokenize_pasteOpen cfg b s hf]; simp [pasteText]
      | some j =>
        have hb := findSub_bound hf
        rw [tokenize_pasteEnd cfg b s j hf, decoded_cons_keys, decoded_cons_open, List.flatMap_append,
          List.append_assoc, ih _ (by rw [← hn]; simp [tmeas, endMark] at *; omega) none _ rfl]
        have hsplit := findSub_split hf
        simp only [pasteText, List.flatMap_cons, List.flatMap_nil, pressText, beq_self_eq_true, if_true,
          List.append_nil, List.nil_append, List.append_assoc]
        congr 1
        conv => rhs; rw [hsplit]
        simp [List.append_assoc]
    | none =>
      cases s with
      | nil => simp [tokenize_nil, pasteText]
      | cons c t =>
        by_cases h0 : lm cfg (c :: t) = 0
        · rw [tokenize_raw cfg c t h0, decoded_cons_keys, decoded_cons_open, List.flatMap_append,
            List.append_assoc, ih _ (by rw [← hn]; simp [tmeas]) none t rfl]
          have hne : String.singleton c ≠ cfg.pasteKey := fun e => wf_singleton h c (by simp [e])
          simp [pasteText, pressText, hne]
        · have hle := lm_le cfg (c :: t)
          have hm := lm_match cfg (c :: t) h0
          rcases wf_getMatch h hm with hk | ⟨hk, hps⟩
          · have hk' : getMatch cfg ((c :: t).take (lm cfg (c :: t))) ≠ [cfg.pasteKey] :=
              fun e => hk (by rw [e]; simp)
            rw [tokenize_token cfg _ h0 hk', decoded_cons_keys, decoded_cons_open, List.flatMap_append,
              List.append_assoc,
              ih _ (by rw [← hn]; simp [tmeas] at *; omega) none _ rfl, presses_text cfg _ _ hm hk]
            simp [pasteText]
          · rw [tokenize_pasteStart cfg _ h0 hk,
              ih _ (by rw [← hn]; simp [tmeas] at *; omega) (some []) _ rfl]
            simp only [pasteText, List.append_nil, List.nil_append]
            rw [← hps, List.take_append_drop]

end Ptk.C03
