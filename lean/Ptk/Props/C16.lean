/-
  C16 — "Search lands on a real, nearest occurrence in the requested direction".

  Property theorems over the model `Ptk.Model.C16` (Document.find / find_backwards,
  Buffer._search with its wrap-around loops and repeat count, apply_search,
  document_for_search, get_search_position, and the incremental-search key session).
  All theorems hold for every character comparison `eq` (so for case-sensitive search and for
  ignore-case search alike), every history, text, cursor, needle (the empty one included),
  direction, `include_current_position`, repeat count and key sequence.

  Vocabulary (defined in C16Scan / C16Search):
    OccAt eq sub t p        the text t splits as pre ++ m ++ post, |pre| = p, sub matches m
    Occ eq ls sub j q       entry j of the history ls exists and OccAt … (entry ls j) q
    AheadF incl w c j q     (j,q) is ahead of the cursor (w,c) travelling forward
    AheadB sub  w c j q     (j,q) is ahead of the cursor travelling backward (occurrence ends ≤ c)
    Before a b              document order on (entry, offset) pairs
    WF ls (w,c) / BufWF b   0 ≤ w < len(lines), 0 ≤ c ≤ len(lines[w])
-/
import Ptk.Props.C16Search
namespace Ptk.C16
open Ptk.Py

/-! ## one search step -/

/-- SOUND: a successful step lands on a real occurrence of the needle (in range). -/
theorem search_sound (eq : Char → Char → Bool) (ls : List Text) (sub : Text) (dir : Dir)
    (incl : Bool) (w c i p : Nat) (hwf : WF ls (w, c))
    (h : searchOnce eq ls sub dir incl (w, c) = some (i, p)) : Occ eq ls sub i p := by
  have hw : w < ls.length := hwf.1
  cases dir with
  | fwd =>
    rcases searchOnce_fwd_cases eq ls sub incl w c i p hwf h with
      ⟨rfl, _, ho, _⟩ | ⟨_, _, hi, _, ho, _⟩ | ⟨_, _, rfl, ho, _⟩
    · exact ⟨hw, ho⟩
    · exact ⟨hi, ho⟩
    · exact ⟨by omega, ho⟩
  | bwd =>
    rcases searchOnce_bwd_cases eq ls sub incl w c i p hwf h with
      ⟨rfl, _, ho, _⟩ | ⟨_, hi, _, ho, _⟩ | ⟨_, _, rfl, ho, _⟩
    · exact ⟨hw, ho⟩
    · exact ⟨by omega, ho⟩
    · exact ⟨by omega, ho⟩

/-- the result of a step is again a valid (entry, cursor) pair -/
theorem search_wf (eq : Char → Char → Bool) (ls : List Text) (sub : Text) (dir : Dir)
    (incl : Bool) (p r : Nat × Nat) (hwf : WF ls p)
    (h : searchOnce eq ls sub dir incl p = some r) : WF ls r := by
  obtain ⟨w, c⟩ := p
  obtain ⟨i, q⟩ := r
  obtain ⟨h1, h2⟩ := search_sound eq ls sub dir incl w c i q hwf h
  exact ⟨h1, by have := occAt_le h2; simp only; omega⟩

/-- NEAREST, forward: whenever an occurrence lies ahead, the result lies ahead too and no
    occurrence ahead comes before it in document order (nothing between old and new position is
    skipped). -/
theorem search_nearest_fwd (eq : Char → Char → Bool) (ls : List Text) (sub : Text) (incl : Bool)
    (w c i p : Nat) (hwf : WF ls (w, c))
    (h : searchOnce eq ls sub .fwd incl (w, c) = some (i, p))
    (j q : Nat) (hocc : Occ eq ls sub j q) (hah : AheadF incl w c j q) :
    AheadF incl w c i p ∧ ¬ Before (j, q) (i, p) := by
  obtain ⟨hj, ho⟩ := hocc
  rcases searchOnce_fwd_cases eq ls sub incl w c i p hwf h with
    ⟨rfl, hp, _, hmin⟩ | ⟨hnone, hwi, _, hbetween, _, hmin⟩ | ⟨hnone, hlater, _, _, _⟩
  · refine ⟨Or.inl ⟨rfl, hp⟩, ?_⟩
    rcases hah with ⟨rfl, hq⟩ | hlt
    · rintro (hb | ⟨_, hb⟩)
      · simp at hb
      · exact hmin q hq hb ho
    · rintro (hb | ⟨hb, _⟩) <;> simp only at hb <;> omega
  · refine ⟨Or.inr hwi, ?_⟩
    rcases hah with ⟨rfl, hq⟩ | hlt
    · exact absurd ho (hnone q hq)
    · rintro (hb | ⟨hb, hb2⟩)
      · exact hbetween j hlt hb q ho
      · simp only at hb hb2; subst hb; exact hmin q hb2 ho
  · rcases hah with ⟨rfl, hq⟩ | hlt
    · exact absurd ho (hnone q hq)
    · exact absurd ho (hlater j hlt hj q)

/-- COMPLETE, forward: an occurrence ahead is always found. -/
theorem search_complete_fwd (eq : Char → Char → Bool) (ls : List Text) (sub : Text) (incl : Bool)
    (w c : Nat) (hwf : WF ls (w, c))
    (j q : Nat) (hocc : Occ eq ls sub j q) (hah : AheadF incl w c j q) :
    ∃ r, searchOnce eq ls sub .fwd incl (w, c) = some r := by
  cases h : searchOnce eq ls sub .fwd incl (w, c) with
  | some r => exact ⟨r, rfl⟩
  | none =>
    obtain ⟨hnone, hlater, _⟩ := searchOnce_fwd_none eq ls sub incl w c hwf h
    obtain ⟨hj, ho⟩ := hocc
    rcases hah with ⟨rfl, hq⟩ | hlt
    · exact absurd ho (hnone q hq)
    · exact absurd ho (hlater j hlt hj q)

/-- WRAP-AROUND, forward (DESIGN §8 O2): if nothing lies ahead, a successful step can only be the
    loop's last index `len % len = 0`: the FIRST occurrence of entry 0. -/
theorem search_wrap_fwd (eq : Char → Char → Bool) (ls : List Text) (sub : Text) (incl : Bool)
    (w c i p : Nat) (hwf : WF ls (w, c))
    (h : searchOnce eq ls sub .fwd incl (w, c) = some (i, p))
    (hno : ∀ j q, Occ eq ls sub j q → ¬ AheadF incl w c j q) :
    i = 0 ∧ Occ eq ls sub 0 p ∧ ∀ q, q < p → ¬ Occ eq ls sub 0 q := by
  have hw : w < ls.length := hwf.1
  rcases searchOnce_fwd_cases eq ls sub incl w c i p hwf h with
    ⟨rfl, hp, ho, _⟩ | ⟨_, hwi, hi, _, ho, _⟩ | ⟨_, _, rfl, ho, hmin⟩
  · exact absurd (Or.inl ⟨rfl, hp⟩) (hno i p ⟨hw, ho⟩)
  · exact absurd (Or.inr hwi) (hno i p ⟨hi, ho⟩)
  · exact ⟨rfl, ⟨by omega, ho⟩, fun q hq hocc => hmin q hq hocc.2⟩

/-- a forward step fails exactly when the needle occurs neither ahead nor in entry 0 -/
theorem search_none_iff_fwd (eq : Char → Char → Bool) (ls : List Text) (sub : Text) (incl : Bool)
    (w c : Nat) (hwf : WF ls (w, c)) :
    searchOnce eq ls sub .fwd incl (w, c) = none ↔
      (∀ j q, Occ eq ls sub j q → ¬ AheadF incl w c j q) ∧ ∀ q, ¬ Occ eq ls sub 0 q := by
  have hw : w < ls.length := hwf.1
  constructor
  · intro h
    obtain ⟨hnone, hlater, h0⟩ := searchOnce_fwd_none eq ls sub incl w c hwf h
    refine ⟨?_, fun q ho => h0 q ho.2⟩
    rintro j q ⟨hj, ho⟩ (⟨rfl, hq⟩ | hlt)
    · exact hnone q hq ho
    · exact hlater j hlt hj q ho
  · rintro ⟨hno, h0⟩
    cases h : searchOnce eq ls sub .fwd incl (w, c) with
    | none => rfl
    | some r =>
      obtain ⟨i, p⟩ := r
      obtain ⟨rfl, ho, _⟩ := search_wrap_fwd eq ls sub incl w c i p hwf h hno
      exact absurd ho (h0 p)

/-- NEAREST, backward: whenever an occurrence lies ahead (i.e. before the cursor), the result does
    too and no occurrence ahead comes after it in document order. -/
theorem search_nearest_bwd (eq : Char → Char → Bool) (ls : List Text) (sub : Text) (incl : Bool)
    (w c i p : Nat) (hwf : WF ls (w, c))
    (h : searchOnce eq ls sub .bwd incl (w, c) = some (i, p))
    (j q : Nat) (hocc : Occ eq ls sub j q) (hah : AheadB sub w c j q) :
    AheadB sub w c i p ∧ ¬ Before (i, p) (j, q) := by
  obtain ⟨hj, ho⟩ := hocc
  rcases searchOnce_bwd_cases eq ls sub incl w c i p hwf h with
    ⟨rfl, hp, _, hmax⟩ | ⟨hnone, hiw, hbetween, _, hmax⟩ | ⟨hnone, hearlier, _, _, _⟩
  · refine ⟨Or.inl ⟨rfl, hp⟩, ?_⟩
    rcases hah with ⟨rfl, hq⟩ | hlt
    · rintro (hb | ⟨_, hb⟩)
      · simp at hb
      · exact hmax q hb hq ho
    · rintro (hb | ⟨hb, _⟩) <;> simp only at hb <;> omega
  · refine ⟨Or.inr hiw, ?_⟩
    rcases hah with ⟨rfl, hq⟩ | hlt
    · exact absurd ho (hnone q hq)
    · rintro (hb | ⟨hb, hb2⟩)
      · exact hbetween j hb hlt q ho
      · simp only at hb hb2; subst hb; exact hmax q hb2 ho
  · rcases hah with ⟨rfl, hq⟩ | hlt
    · exact absurd ho (hnone q hq)
    · exact absurd ho (hearlier j hlt q)

/-- COMPLETE, backward -/
theorem search_complete_bwd (eq : Char → Char → Bool) (ls : List Text) (sub : Text) (incl : Bool)
    (w c : Nat) (hwf : WF ls (w, c))
    (j q : Nat) (hocc : Occ eq ls sub j q) (hah : AheadB sub w c j q) :
    ∃ r, searchOnce eq ls sub .bwd incl (w, c) = some r := by
  cases h : searchOnce eq ls sub .bwd incl (w, c) with
  | some r => exact ⟨r, rfl⟩
  | none =>
    obtain ⟨hnone, hearlier, _⟩ := searchOnce_bwd_none eq ls sub incl w c hwf h
    obtain ⟨hj, ho⟩ := hocc
    rcases hah with ⟨rfl, hq⟩ | hlt
    · exact absurd ho (hnone q hq)
    · exact absurd ho (hearlier j hlt q)

/-- WRAP-AROUND, backward: if nothing lies ahead, a successful step can only be the loop's last
    index `-1 % len`: the LAST occurrence of the last entry. -/
theorem search_wrap_bwd (eq : Char → Char → Bool) (ls : List Text) (sub : Text) (incl : Bool)
    (w c i p : Nat) (hwf : WF ls (w, c))
    (h : searchOnce eq ls sub .bwd incl (w, c) = some (i, p))
    (hno : ∀ j q, Occ eq ls sub j q → ¬ AheadB sub w c j q) :
    i = ls.length - 1 ∧ Occ eq ls sub (ls.length - 1) p ∧
      ∀ q, p < q → ¬ Occ eq ls sub (ls.length - 1) q := by
  have hw : w < ls.length := hwf.1
  rcases searchOnce_bwd_cases eq ls sub incl w c i p hwf h with
    ⟨rfl, hp, ho, _⟩ | ⟨_, hiw, _, ho, _⟩ | ⟨_, _, rfl, ho, hmax⟩
  · exact absurd (Or.inl ⟨rfl, hp⟩) (hno i p ⟨hw, ho⟩)
  · exact absurd (Or.inr hiw) (hno i p ⟨by omega, ho⟩)
  · exact ⟨rfl, ⟨by omega, ho⟩, fun q hq hocc => hmax q hq hocc.2⟩

theorem search_none_iff_bwd (eq : Char → Char → Bool) (ls : List Text) (sub : Text) (incl : Bool)
    (w c : Nat) (hwf : WF ls (w, c)) :
    searchOnce eq ls sub .bwd incl (w, c) = none ↔
      (∀ j q, Occ eq ls sub j q → ¬ AheadB sub w c j q) ∧
        ∀ q, ¬ Occ eq ls sub (ls.length - 1) q := by
  have hw : w < ls.length := hwf.1
  constructor
  · intro h
    obtain ⟨hnone, hearlier, h0⟩ := searchOnce_bwd_none eq ls sub incl w c hwf h
    refine ⟨?_, fun q ho => h0 q ho.2⟩
    rintro j q ⟨hj, ho⟩ (⟨rfl, hq⟩ | hlt)
    · exact hnone q hq ho
    · exact hearlier j hlt q ho
  · rintro ⟨hno, h0⟩
    cases h : searchOnce eq ls sub .bwd incl (w, c) with
    | none => rfl
    | some r =>
      obtain ⟨i, p⟩ := r
      obtain ⟨rfl, ho, _⟩ := search_wrap_bwd eq ls sub incl w c i p hwf h hno
      exact absurd ho (h0 p)


/-! ## repeat counts (`for _ in range(count)`) -/

theorem searchN_one (eq : Char → Char → Bool) (ls : List Text) (sub : Text) (dir : Dir)
    (incl : Bool) (p : Nat × Nat) :
    searchN eq ls sub dir incl 1 p = searchOnce eq ls sub dir incl p := by
  simp only [searchN]
  cases searchOnce eq ls sub dir incl p <;> rfl

/-- a count of `a + b` is a count of `a` followed by a count of `b`; it fails as a whole if
    either part fails -/
theorem searchN_add (eq : Char → Char → Bool) (ls : List Text) (sub : Text) (dir : Dir)
    (incl : Bool) (a b : Nat) (p : Nat × Nat) :
    searchN eq ls sub dir incl (a + b) p =
      (searchN eq ls sub dir incl a p).bind (searchN eq ls sub dir incl b) := by
  induction a generalizing p with
  | zero => simp [searchN]
  | succ a ih =>
    rw [show a + 1 + b = (a + b) + 1 by omega]
    simp only [searchN]
    cases searchOnce eq ls sub dir incl p with
    | none => simp
    | some p' => simp [ih]

theorem searchN_wf (eq : Char → Char → Bool) (ls : List Text) (sub : Text) (dir : Dir)
    (incl : Bool) (k : Nat) (p r : Nat × Nat) (hwf : WF ls p)
    (h : searchN eq ls sub dir incl k p = some r) : WF ls r := by
  induction k generalizing p with
  | zero => simp [searchN] at h; subst h; exact hwf
  | succ k ih =>
    simp only [searchN] at h
    cases hs : searchOnce eq ls sub dir incl p with
    | none => simp [hs] at h
    | some p' =>
      simp only [hs] at h
      exact ih p' (search_wf eq ls sub dir incl p p' hwf hs) h

/-- SOUND for every repeat count ≥ 1 -/
theorem searchN_sound (eq : Char → Char → Bool) (ls : List Text) (sub : Text) (dir : Dir)
    (incl : Bool) (k : Nat) (hk : 0 < k) (p : Nat × Nat) (i q : Nat) (hwf : WF ls p)
    (h : searchN eq ls sub dir incl k p = some (i, q)) : Occ eq ls sub i q := by
  induction k generalizing p with
  | zero => omega
  | succ k ih =>
    simp only [searchN] at h
    cases hs : searchOnce eq ls sub dir incl p with
    | none => simp [hs] at h
    | some p' =>
      simp only [hs] at h
      cases k with
      | zero =>
        simp [searchN] at h; subst h
        exact search_sound eq ls sub dir incl p.1 p.2 i q hwf hs
      | succ k =>
        exact ih (by omega) p' (search_wf eq ls sub dir incl p p' hwf hs) h

/-! ## Buffer level: apply_search, document_for_search, get_search_position -/

/-- `0 ≤ working_index < len(_working_lines)` and `0 ≤ cursor_position ≤ len(text)` -/
def BufWF (b : Buf) : Prop := WF b.lines (b.widx, b.cur)

theorem applySearch_eq (eq : Char → Char → Bool) (b : Buf) (sub : Text) (dir : Dir) (incl : Bool)
    (k : Nat) (hwf : BufWF b) :
    applySearch eq b sub dir incl k =
      match search eq b sub dir incl k with
      | none => b
      | some (i, c) => { lines := b.lines, widx := i, cur := c } := by
  unfold applySearch
  cases hs : search eq b sub dir incl k with
  | none => rfl
  | some r =>
    obtain ⟨i, c⟩ := r
    have hr := searchN_wf eq b.lines sub dir incl k _ _ hwf hs
    obtain ⟨_, hc⟩ := hr
    simp only at hc
    simp only [setCur, setWidx, Buf.text]
    split <;> simp_all [Nat.min_eq_left]

/-- searching never changes any text -/
theorem applySearch_frame (eq : Char → Char → Bool) (b : Buf) (sub : Text) (dir : Dir)
    (incl : Bool) (k : Nat) : (applySearch eq b sub dir incl k).lines = b.lines := by
  unfold applySearch
  cases search eq b sub dir incl k with
  | none => rfl
  | some r =>
    simp only [setCur, setWidx]
    split <;> rfl

theorem applySearch_wf (eq : Char → Char → Bool) (b : Buf) (sub : Text) (dir : Dir) (incl : Bool)
    (k : Nat) (hwf : BufWF b) : BufWF (applySearch eq b sub dir incl k) := by
  rw [applySearch_eq eq b sub dir incl k hwf]
  cases hs : search eq b sub dir incl k with
  | none => exact hwf
  | some r => exact searchN_wf eq b.lines sub dir incl k _ _ hwf hs

/-- C16, first sentence: applying a search (any direction, case setting, repeat count) either
    leaves the buffer exactly as it was, or moves to a position where the needle really occurs. -/
theorem applySearch_unchanged_or_occ (eq : Char → Char → Bool) (b : Buf) (sub : Text) (dir : Dir)
    (incl : Bool) (k : Nat) (hk : 0 < k) (hwf : BufWF b) :
    applySearch eq b sub dir incl k = b ∨
      Occ eq b.lines sub (applySearch eq b sub dir incl k).widx
        (applySearch eq b sub dir incl k).cur := by
  rw [applySearch_eq eq b sub dir incl k hwf]
  cases hs : search eq b sub dir incl k with
  | none => left; rfl
  | some r =>
    obtain ⟨i, c⟩ := r
    right
    exact searchN_sound eq b.lines sub dir incl k hk _ i c hwf hs

/-- C16, forward: if an occurrence lies ahead, the search finds one (complete), it lies ahead,
    it is a real occurrence (sound) and no occurrence ahead precedes it (nearest). -/
theorem applySearch_nearest_fwd (eq : Char → Char → Bool) (b : Buf) (sub : Text) (incl : Bool)
    (hwf : BufWF b) (j q : Nat) (hocc : Occ eq b.lines sub j q)
    (hah : AheadF incl b.widx b.cur j q) :
    let b' := applySearch eq b sub .fwd incl 1
    Occ eq b.lines sub b'.widx b'.cur ∧ AheadF incl b.widx b.cur b'.widx b'.cur ∧
      ¬ Before (j, q) (b'.widx, b'.cur) := by
  intro b'
  obtain ⟨r, hr⟩ := search_complete_fwd eq b.lines sub incl b.widx b.cur hwf j q hocc hah
  obtain ⟨i, p⟩ := r
  have hb' : b' = { lines := b.lines, widx := i, cur := p } := by
    show applySearch eq b sub .fwd incl 1 = _
    rw [applySearch_eq eq b sub .fwd incl 1 hwf]
    simp [search, searchN_one, hr]
  rw [hb']
  have := search_nearest_fwd eq b.lines sub incl b.widx b.cur i p hwf hr j q hocc hah
  exact ⟨search_sound eq b.lines sub .fwd incl b.widx b.cur i p hwf hr, this.1, this.2⟩

/-- C16, backward -/
theorem applySearch_nearest_bwd (eq : Char → Char → Bool) (b : Buf) (sub : Text) (incl : Bool)
    (hwf : BufWF b) (j q : Nat) (hocc : Occ eq b.lines sub j q)
    (hah : AheadB sub b.widx b.cur j q) :
    let b' := applySearch eq b sub .bwd incl 1
    Occ eq b.lines sub b'.widx b'.cur ∧ AheadB sub b.widx b.cur b'.widx b'.cur ∧
      ¬ Before (b'.widx, b'.cur) (j, q) := by
  intro b'
  obtain ⟨r, hr⟩ := search_complete_bwd eq b.lines sub incl b.widx b.cur hwf j q hocc hah
  obtain ⟨i, p⟩ := r
  have hb' : b' = { lines := b.lines, widx := i, cur := p } := by
    show applySearch eq b sub .bwd incl 1 = _
    rw [applySearch_eq eq b sub .bwd incl 1 hwf]
    simp [search, searchN_one, hr]
  rw [hb']
  have := search_nearest_bwd eq b.lines sub incl b.widx b.cur i p hwf hr j q hocc hah
  exact ⟨search_sound eq b.lines sub .bwd incl b.widx b.cur i p hwf hr, this.1, this.2⟩

/-- a repeat count is all-or-nothing: if any of the `k` steps finds nothing, nothing moves -/
theorem applySearch_count_none (eq : Char → Char → Bool) (b : Buf) (sub : Text) (dir : Dir)
    (incl : Bool) (k : Nat) (h : search eq b sub dir incl k = none) :
    applySearch eq b sub dir incl k = b := by
  simp [applySearch, h]

/-- … and otherwise count `k + 1` is one applied search followed by count `k` -/
theorem applySearch_count_succ (eq : Char → Char → Bool) (b : Buf) (sub : Text) (dir : Dir)
    (incl : Bool) (k : Nat) (hwf : BufWF b) (r : Nat × Nat)
    (h : search eq b sub dir incl (k + 1) = some r) :
    applySearch eq b sub dir incl (k + 1) =
      applySearch eq (applySearch eq b sub dir incl 1) sub dir incl k := by
  have h1 := h
  simp only [search, searchN] at h1
  cases hs : searchOnce eq b.lines sub dir incl (b.widx, b.cur) with
  | none => simp [hs] at h1
  | some p' =>
    simp only [hs] at h1
    have hb1 : applySearch eq b sub dir incl 1 = { lines := b.lines, widx := p'.1, cur := p'.2 } := by
      rw [applySearch_eq eq b sub dir incl 1 hwf]
      simp [search, searchN_one, hs]
    have hwf1 : BufWF (applySearch eq b sub dir incl 1) := applySearch_wf eq b sub dir incl 1 hwf
    rw [applySearch_eq eq b sub dir incl (k + 1) hwf, h,
      applySearch_eq eq _ sub dir incl k hwf1, hb1]
    simp only [search, h1]

/-- PREVIEW = ACCEPT: the document shown while searching is exactly the (text, cursor) the buffer
    has after `apply_search(…, include_current_position=True)`. -/
theorem preview_eq_accept (eq : Char → Char → Bool) (b : Buf) (sub : Text) (dir : Dir)
    (hwf : BufWF b) :
    docForSearch eq b sub dir =
      ((applySearch eq b sub dir true 1).text, (applySearch eq b sub dir true 1).cur) := by
  rw [applySearch_eq eq b sub dir true 1 hwf]
  unfold docForSearch
  cases search eq b sub dir true 1 with
  | none => rfl
  | some r => rfl

/-- `get_search_position` always returns a position inside the current text -/
theorem getSearchPosition_le (eq : Char → Char → Bool) (b : Buf) (sub : Text) (dir : Dir)
    (incl : Bool) (k : Nat) (hwf : BufWF b) :
    getSearchPosition eq b sub dir incl k ≤ b.text.length := by
  unfold getSearchPosition
  cases hs : search eq b sub dir incl k with
  | none => exact hwf.2
  | some r =>
    obtain ⟨i, c⟩ := r
    simp only
    split
    · exact hwf.2
    · rename_i hi
      simp at hi; subst hi
      exact (searchN_wf eq b.lines sub dir incl k _ _ hwf hs).2

/-- `get_search_position` (the Vi `n` / `N` motions): the cursor stays, or it goes to a place in
    THIS text where the needle occurs — never to a position that belongs to another entry. -/
theorem getSearchPosition_sound (eq : Char → Char → Bool) (b : Buf) (sub : Text) (dir : Dir)
    (incl : Bool) (k : Nat) (hk : 0 < k) (hwf : BufWF b) :
    getSearchPosition eq b sub dir incl k = b.cur ∨
      OccAt eq sub b.text (getSearchPosition eq b sub dir incl k) := by
  unfold getSearchPosition
  cases hs : search eq b sub dir incl k with
  | none => left; rfl
  | some r =>
    obtain ⟨i, c⟩ := r
    simp only
    split
    · left; rfl
    · rename_i hi
      simp at hi; subst hi
      right
      exact (searchN_sound eq b.lines sub dir incl k hk _ _ c hwf hs).2

/-- … and an occurrence ahead in the current text is found, the nearest one -/
theorem getSearchPosition_nearest_fwd (eq : Char → Char → Bool) (b : Buf) (sub : Text)
    (incl : Bool) (hwf : BufWF b) (q : Nat) (hocc : OccAt eq sub b.text q)
    (hq : b.cur + lo incl ≤ q) :
    OccAt eq sub b.text (getSearchPosition eq b sub .fwd incl 1) ∧
      b.cur + lo incl ≤ getSearchPosition eq b sub .fwd incl 1 ∧
      getSearchPosition eq b sub .fwd incl 1 ≤ q := by
  have ho : Occ eq b.lines sub b.widx q := ⟨hwf.1, hocc⟩
  have hah : AheadF incl b.widx b.cur b.widx q := Or.inl ⟨rfl, hq⟩
  obtain ⟨r, hr⟩ := search_complete_fwd eq b.lines sub incl b.widx b.cur hwf _ q ho hah
  obtain ⟨i, p⟩ := r
  obtain ⟨hah', hnb⟩ := search_nearest_fwd eq b.lines sub incl b.widx b.cur i p hwf hr _ q ho hah
  have hsnd := search_sound eq b.lines sub .fwd incl b.widx b.cur i p hwf hr
  have hi : i = b.widx := by
    rcases hah' with ⟨h, _⟩ | h
    · exact h
    · exact absurd (Or.inl h) hnb
  subst hi
  have hg : getSearchPosition eq b sub .fwd incl 1 = p := by
    simp [getSearchPosition, search, searchN_one, hr]
  rw [hg]
  refine ⟨hsnd.2, ?_, ?_⟩
  · rcases hah' with ⟨_, h⟩ | h
    · exact h
    · omega
  · by_contra hlt
    exact hnb (Or.inr ⟨rfl, by simp only; omega⟩)

theorem getSearchPosition_nearest_bwd (eq : Char → Char → Bool) (b : Buf) (sub : Text)
    (incl : Bool) (hwf : BufWF b) (q : Nat) (hocc : OccAt eq sub b.text q)
    (hq : q + sub.length ≤ b.cur) :
    OccAt eq sub b.text (getSearchPosition eq b sub .bwd incl 1) ∧
      getSearchPosition eq b sub .bwd incl 1 + sub.length ≤ b.cur ∧
      q ≤ getSearchPosition eq b sub .bwd incl 1 := by
  have ho : Occ eq b.lines sub b.widx q := ⟨hwf.1, hocc⟩
  have hah : AheadB sub b.widx b.cur b.widx q := Or.inl ⟨rfl, hq⟩
  obtain ⟨r, hr⟩ := search_complete_bwd eq b.lines sub incl b.widx b.cur hwf _ q ho hah
  obtain ⟨i, p⟩ := r
  obtain ⟨hah', hnb⟩ := search_nearest_bwd eq b.lines sub incl b.widx b.cur i p hwf hr _ q ho hah
  have hsnd := search_sound eq b.lines sub .bwd incl b.widx b.cur i p hwf hr
  have hi : i = b.widx := by
    rcases hah' with ⟨h, _⟩ | h
    · exact h
    · exact absurd (Or.inl h) hnb
  subst hi
  have hg : getSearchPosition eq b sub .bwd incl 1 = p := by
    simp [getSearchPosition, search, searchN_one, hr]
  rw [hg]
  refine ⟨hsnd.2, ?_, ?_⟩
  · rcases hah' with ⟨_, h⟩ | h
    · exact h
    · omega
  · by_contra hlt
    exact hnb (Or.inr ⟨rfl, by simp only; omega⟩)


/-! ## get_search_position = apply_search without the move = k single steps -/

/-- `k` single-step searches applied one after the other -/
def iterApply (eq : Char → Char → Bool) (sub : Text) (dir : Dir) (incl : Bool) : Nat → Buf → Buf
  | 0, b => b
  | k + 1, b => iterApply eq sub dir incl k (applySearch eq b sub dir incl 1)

/-- a repeat count that succeeds is exactly `k` applied single-step searches -/
theorem applySearch_eq_iter (eq : Char → Char → Bool) (sub : Text) (dir : Dir) (incl : Bool) (k : Nat)
    (b : Buf) (hwf : BufWF b) (r : Nat × Nat) (h : search eq b sub dir incl k = some r) :
    applySearch eq b sub dir incl k = iterApply eq sub dir incl k b := by
  induction k generalizing b r with
  | zero =>
    simp only [search, searchN, Option.some.injEq] at h
    rw [applySearch_eq eq b sub dir incl 0 hwf]
    simp [search, searchN, iterApply]
  | succ k ih =>
    rw [applySearch_count_succ eq b sub dir incl k hwf r h]
    simp only [iterApply]
    have h1 := h
    simp only [search, searchN] at h1
    cases hs : searchOnce eq b.lines sub dir incl (b.widx, b.cur) with
    | none => simp [hs] at h1
    | some p' =>
      simp only [hs] at h1
      have hb1 : applySearch eq b sub dir incl 1 = { lines := b.lines, widx := p'.1, cur := p'.2 } := by
        rw [applySearch_eq eq b sub dir incl 1 hwf]
        simp [search, searchN_one, hs]
      have hwf1 : BufWF (applySearch eq b sub dir incl 1) := applySearch_wf eq b sub dir incl 1 hwf
      exact ih _ hwf1 r (by rw [hb1]; exact h1)

/-- `get_search_position` is `apply_search` without the move: the cursor `apply_search` with the
    same arguments ends on when it stays in the current entry, the old cursor otherwise -/
theorem getSearchPosition_eq_apply (eq : Char → Char → Bool) (b : Buf) (sub : Text) (dir : Dir)
    (incl : Bool) (k : Nat) (hwf : BufWF b) :
    getSearchPosition eq b sub dir incl k =
      if (applySearch eq b sub dir incl k).widx = b.widx then (applySearch eq b sub dir incl k).cur
      else b.cur := by
  rw [applySearch_eq eq b sub dir incl k hwf]
  unfold getSearchPosition
  cases search eq b sub dir incl k with
  | none => simp
  | some r =>
    obtain ⟨i, c⟩ := r
    by_cases hi : i = b.widx <;> simp [hi]

/-- … hence, for a repeat count that finds something, the position reached by `k` single steps
    (overlapping occurrences are counted one by one, none between old and new position is skipped) -/
theorem getSearchPosition_eq_iter (eq : Char → Char → Bool) (b : Buf) (sub : Text) (dir : Dir)
    (incl : Bool) (k : Nat) (hwf : BufWF b) (r : Nat × Nat) (h : search eq b sub dir incl k = some r) :
    getSearchPosition eq b sub dir incl k =
      if (iterApply eq sub dir incl k b).widx = b.widx then (iterApply eq sub dir incl k b).cur
      else b.cur := by
  rw [getSearchPosition_eq_apply eq b sub dir incl k hwf, applySearch_eq_iter eq sub dir incl k b hwf r h]

-- 'aa' in "xaaaab": two steps from 0 go 1, 2 (the witness of seeded change C16-j: a single
-- non-overlapping scan would give 3); three steps in "xaaaaab" reach 3
example : getSearchPosition eqCS ⟨[['x', 'a', 'a', 'a', 'a', 'b']], 0, 0⟩ ['a', 'a'] .fwd false 2 = 2 ∧
    (iterApply eqCS ['a', 'a'] .fwd false 2 ⟨[['x', 'a', 'a', 'a', 'a', 'b']], 0, 0⟩).cur = 2 ∧
    getSearchPosition eqCS ⟨[['x', 'a', 'a', 'a', 'a', 'a', 'b']], 0, 0⟩ ['a', 'a'] .fwd false 3 = 3 ∧
    getSearchPosition eqCS ⟨[['x', 'a', 'a', 'a', 'a', 'b']], 0, 6⟩ ['a', 'a'] .bwd false 2 = 1 := by decide


/-! ## what "occurs" means for the two comparisons the driver uses -/

theorem match_eqCS (a m : Text) : Match eqCS a m ↔ a = m := by
  induction a generalizing m with
  | nil => cases m <;> simp [Match]
  | cons x xs ih =>
    cases m with
    | nil => simp [Match]
    | cons y ys => simp [Match, List.forall₂_cons, eqCS] at ih ⊢

/-- case-sensitive search: an occurrence is a literal copy of the needle -/
theorem occAt_eqCS (sub t : Text) (p : Nat) :
    OccAt eqCS sub t p ↔ ∃ pre post, t = pre ++ sub ++ post ∧ pre.length = p := by
  constructor
  · rintro ⟨pre, m, post, h, hp, hm⟩
    rw [match_eqCS] at hm; subst hm
    exact ⟨pre, post, h, hp⟩
  · rintro ⟨pre, post, h, hp⟩
    exact ⟨pre, sub, post, h, hp, (match_eqCS _ _).2 rfl⟩

theorem match_eqCI (a m : Text) : Match eqCI a m ↔ a.map foldAscii = m.map foldAscii := by
  induction a generalizing m with
  | nil => cases m <;> simp [Match]
  | cons x xs ih =>
    cases m with
    | nil => simp [Match]
    | cons y ys => simp [Match, List.forall₂_cons, eqCI] at ih ⊢; simp [ih]

/-- ignore-case search: an occurrence is a stretch of text equal to the needle after case folding -/
theorem occAt_eqCI (sub t : Text) (p : Nat) :
    OccAt eqCI sub t p ↔
      ∃ pre m post, t = pre ++ m ++ post ∧ pre.length = p ∧
        m.map foldAscii = sub.map foldAscii := by
  constructor
  · rintro ⟨pre, m, post, h, hp, hm⟩
    exact ⟨pre, m, post, h, hp, ((match_eqCI _ _).1 hm).symm⟩
  · rintro ⟨pre, m, post, h, hp, hm⟩
    exact ⟨pre, m, post, h, hp, (match_eqCI _ _).2 hm.symm⟩

/-- the character under an occurrence of a non-empty needle matches the needle's first character -/
theorem occAt_head (eq : Char → Char → Bool) (a : Char) (as t : Text) (p : Nat)
    (h : OccAt eq (a :: as) t p) : ∃ ch, t[p]? = some ch ∧ eq a ch = true := by
  obtain ⟨pre, m, post, rfl, rfl, hm⟩ := h
  cases hm with
  | @cons _ ch _ ms hxy _ =>
    exact ⟨ch, by simp, hxy⟩


theorem toNat_ofNat_valid (n : Nat) (h : n.isValidChar) : (Char.ofNat n).toNat = n := by
  unfold Char.ofNat
  rw [dif_pos h]
  simp [Char.ofNatAux, Char.toNat]

/-- ASCII case folding never produces or consumes a newline -/
theorem foldAscii_eq_nl (c : Char) (h : foldAscii c = '\n') : c = '\n' := by
  unfold foldAscii at h
  split at h
  · rename_i hr
    exfalso
    have a1 : 65 ≤ c.toNat := hr.1
    have a2 : c.toNat ≤ 90 := hr.2
    have := congrArg Char.toNat h
    rw [toNat_ofNat_valid _ (by unfold Nat.isValidChar; omega)] at this
    simp at this
  · exact h


/-! ## the key session -/

def SessWF (s : Sess) : Prop := BufWF s.buf

theorem viFix_lines (b : Buf) : (viFix b).lines = b.lines ∧ (viFix b).widx = b.widx := by
  unfold viFix
  split <;> simp

theorem viFix_cur_le (b : Buf) : (viFix b).cur ≤ b.cur := by
  unfold viFix
  split <;> simp

theorem viFix_wf (b : Buf) (h : BufWF b) : BufWF (viFix b) := by
  obtain ⟨h1, h2⟩ := h
  have hl := viFix_lines b
  have hc := viFix_cur_le b
  refine ⟨?_, ?_⟩
  · show (viFix b).widx < (viFix b).lines.length
    rw [hl.1, hl.2]; exact h1
  · show (viFix b).cur ≤ (entry (viFix b).lines (viFix b).widx).length
    rw [hl.1, hl.2]; simp only at h2; omega

/-- the Vi cursor fix does nothing on a character that is not a newline -/
theorem viFix_id (b : Buf) (ch : Char) (h : b.text[b.cur]? = some ch) (hn : ch ≠ '\n') :
    viFix b = b := by
  have : (ch == '\n') = false := by simpa using hn
  simp [viFix, viAtEolNonEmpty, h, this]

theorem entry_set (ls : List Text) (w : Nat) (t : Text) (hw : w < ls.length) :
    entry (ls.set w t) w = t := by
  simp [entry, List.getD, hw]

/-- rendering the search field (loading its history) touches nothing but the field's working lines -/
theorem renderField_frame (s : Sess) :
    (renderField s).buf = s.buf ∧ (renderField s).field = s.field ∧
    (renderField s).stext = s.stext ∧ (renderField s).sdir = s.sdir ∧
    (renderField s).searching = s.searching ∧ (renderField s).fhist = s.fhist := by
  unfold renderField
  split <;> simp

/-- every key keeps `0 ≤ working_index < len(lines)` and `0 ≤ cursor ≤ len(text)` -/
theorem step_wf (eq : Char → Char → Bool) (vi : Bool) (s : Sess) (k : Key) (h : SessWF s) :
    SessWF (step eq vi s k) := by
  unfold SessWF at *
  cases k with
  | start d =>
    simp only [step]
    split
    · exact h
    · rw [(renderField_frame _).1]; exact h
  | histPrev =>
    simp only [step]
    split
    · split <;> exact h
    · exact h
  | histNext =>
    simp only [step]
    split
    · split <;> exact h
    · exact h
  | type c =>
    simp only [step]
    split
    · exact h
    · split
      · exact h
      · obtain ⟨h1, h2⟩ := h
        simp only at h1 h2
        refine ⟨by simpa using h1, ?_⟩
        simp only [Buf.text]
        rw [entry_set _ _ _ h1]
        simp
        omega
  | backspace =>
    simp only [step]
    split
    · split
      · split
        · exact viFix_wf _ h
        · exact h
      · exact h
    · exact h
  | incr d =>
    simp only [step]
    split
    · split
      · exact applySearch_wf eq _ _ _ _ _ h
      · exact h
    · exact h
  | accept =>
    simp only [step]
    split
    · split
      · exact viFix_wf _ (applySearch_wf eq _ _ _ _ _ h)
      · exact applySearch_wf eq _ _ _ _ _ h
    · exact h
  | abort =>
    simp only [step]
    split
    · split
      · exact viFix_wf _ h
      · exact h
    · exact h
  | next n =>
    simp only [step]
    split
    · exact viFix_wf _ (applySearch_wf eq _ _ _ _ _ h)
    · exact h
  | prev n =>
    simp only [step]
    split
    · exact viFix_wf _ (applySearch_wf eq _ _ _ _ _ h)
    · exact h

theorem run_wf (eq : Char → Char → Bool) (vi : Bool) (s : Sess) (ks : List Key) (h : SessWF s) :
    SessWF (run eq vi s ks) := by
  induction ks generalizing s with
  | nil => exact h
  | cons k ks ih => exact ih _ (step_wf eq vi s k h)

/-- TYPING: a key typed into the search field changes the field and nothing else — not the
    searched buffer's text, entry or cursor, not the search state. (Both editing modes.) -/
theorem type_frame (eq : Char → Char → Bool) (vi : Bool) (s : Sess) (c : Char)
    (h : s.searching = true) :
    step eq vi s (.type c) = { s with field := s.field ++ [c] } := by
  simp [step, h]

/-- … for any number of typed characters -/
theorem run_type_frame (eq : Char → Char → Bool) (vi : Bool) (s : Sess) (cs : List Char)
    (h : s.searching = true) :
    run eq vi s (cs.map .type) = { s with field := s.field ++ cs } := by
  induction cs generalizing s with
  | nil => simp [run]
  | cons c cs ih =>
    simp only [List.map_cons, run]
    rw [type_frame eq vi s c h, ih { s with field := s.field ++ [c] } h]
    simp

/-- deleting in the search field does not touch the searched buffer either (in Vi mode backspace
    in an EMPTY field leaves the search instead) -/
theorem backspace_frame (eq : Char → Char → Bool) (vi : Bool) (s : Sess)
    (h : s.searching = true) (hne : vi = false ∨ s.field ≠ []) :
    (step eq vi s .backspace).buf = s.buf ∧ (step eq vi s .backspace).searching = true := by
  simp only [step, h, if_true]
  split
  · rename_i he
    rcases hne with rfl | hne
    · simp [h]
    · simp at he; exact absurd he hne
  · simp

/-- starting a search moves nothing -/
theorem start_frame (eq : Char → Char → Bool) (vi : Bool) (s : Sess) (d : Dir) :
    (step eq vi s (.start d)).buf = s.buf := by
  simp only [step]
  split
  · rfl
  · exact (renderField_frame _).1

/-- aborting moves nothing (Emacs mode; in Vi mode only the navigation-mode cursor fix applies) -/
theorem abort_frame (eq : Char → Char → Bool) (vi : Bool) (s : Sess) :
    (step eq vi s .abort).buf = (if vi && s.searching then viFix s.buf else s.buf) := by
  simp only [step]
  cases s.searching <;> cases vi <;> simp [stopSearch, step.viFixS]

/-- no search key ever changes any text of the buffer / history -/
theorem step_lines_frame (eq : Char → Char → Bool) (vi : Bool) (s : Sess) (k : Key)
    (hk : (∀ c, k ≠ .type c) ∨ s.searching = true) :
    (step eq vi s k).buf.lines = s.buf.lines := by
  cases k with
  | start d => rw [start_frame]
  | histPrev =>
    simp only [step]
    split
    · split <;> rfl
    · rfl
  | histNext =>
    simp only [step]
    split
    · split <;> rfl
    · rfl
  | type c =>
    rcases hk with hk | hk
    · exact absurd rfl (hk c)
    · simp [step, hk]
  | backspace =>
    simp only [step]
    split
    · split
      · split
        · exact (viFix_lines _).1
        · rfl
      · rfl
    · rfl
  | incr d =>
    simp only [step]
    split
    · split
      · exact applySearch_frame ..
      · rfl
    · rfl
  | accept =>
    simp only [step]
    split
    · split
      · exact (viFix_lines _).1.trans (applySearch_frame ..)
      · exact applySearch_frame ..
    · rfl
  | abort =>
    simp only [step]
    split
    · split
      · exact (viFix_lines _).1
      · rfl
    · rfl
  | next n =>
    simp only [step]
    split
    · exact (viFix_lines _).1.trans (applySearch_frame ..)
    · rfl
  | prev n =>
    simp only [step]
    split
    · exact (viFix_lines _).1.trans (applySearch_frame ..)
    · rfl

/-- PREVIEW = ACCEPT, end to end: while something is typed in the search field, the document on
    screen is exactly the (text, cursor) the buffer has after pressing Enter. -/
theorem session_preview_eq_accept (eq : Char → Char → Bool) (s : Sess) (hwf : SessWF s)
    (hs : s.searching = true) (hf : s.field ≠ []) :
    preview eq s = ((step eq false s .accept).buf.text, (step eq false s .accept).buf.cur) := by
  have hne : s.field.isEmpty = false := by simpa using hf
  simp only [preview, step, hs, hne, stopSearch]
  simp only [Bool.not_false, Bool.and_self, if_true, Bool.false_eq_true, if_false]
  exact preview_eq_accept eq s.buf s.field s.sdir hwf

/-- in Vi mode accepting does the same and then applies the navigation-mode cursor fix -/
theorem session_accept_vi (eq : Char → Char → Bool) (s : Sess) (hs : s.searching = true) :
    (step eq true s .accept).buf = viFix (step eq false s .accept).buf := by
  simp [step, hs, stopSearch, step.viFixS]

/-- ACCEPT is sound: Enter leaves the buffer where it was or on a real occurrence of the typed
    needle; the search field is left and cleared. -/
theorem session_accept_sound (eq : Char → Char → Bool) (s : Sess) (hwf : SessWF s)
    (hs : s.searching = true) (hf : s.field ≠ []) :
    let s' := step eq false s .accept
    (s'.buf = s.buf ∨ Occ eq s.buf.lines s.field s'.buf.widx s'.buf.cur) ∧
      s'.searching = false ∧ s'.field = [] ∧ s'.stext = s.field := by
  have hne : s.field.isEmpty = false := by simpa using hf
  simp only [step, hs, hne, stopSearch]
  simp only [Bool.not_false, if_true, Bool.false_eq_true, if_false, and_self, and_true]
  exact applySearch_unchanged_or_occ eq s.buf s.field s.sdir true 1 (by omega) hwf

/-- NEXT / PREVIOUS while searching (C-r / C-s / Up / Down): same direction ⇒ one search step that
    excludes the current position; changed direction ⇒ nothing moves. -/
theorem session_incr (eq : Char → Char → Bool) (vi : Bool) (s : Sess) (d : Dir)
    (hs : s.searching = true) :
    (step eq vi s (.incr d)).buf =
      (if s.sdir = d then applySearch eq s.buf s.field d false 1 else s.buf) ∧
    (step eq vi s (.incr d)).stext = s.field ∧ (step eq vi s (.incr d)).sdir = d := by
  simp only [step, hs, if_true]
  by_cases h : s.sdir = d <;> simp [h]

theorem session_incr_sound (eq : Char → Char → Bool) (vi : Bool) (s : Sess) (d : Dir)
    (hwf : SessWF s) (hs : s.searching = true) :
    (step eq vi s (.incr d)).buf = s.buf ∨
      Occ eq s.buf.lines s.field (step eq vi s (.incr d)).buf.widx
        (step eq vi s (.incr d)).buf.cur := by
  rw [(session_incr eq vi s d hs).1]
  split
  · exact applySearch_unchanged_or_occ eq s.buf s.field d false 1 (by omega) hwf
  · left; rfl

/-- Vi `n` / `N`: `count` search steps with the remembered needle in the remembered / opposite
    direction, then the navigation-mode cursor fix -/
theorem session_next_prev (eq : Char → Char → Bool) (s : Sess) (n : Nat)
    (hs : s.searching = false) :
    (step eq true s (.next n)).buf = viFix (applySearch eq s.buf s.stext s.sdir false n) ∧
    (step eq true s (.prev n)).buf = viFix (applySearch eq s.buf s.stext s.sdir.inv false n) := by
  simp [step, hs, step.viFixS]


/-- `¬ Before a b` reads "b is a, or b comes before a" (document order is total) -/
theorem not_before_iff (a b : Nat × Nat) : ¬ Before a b ↔ (b = a ∨ Before b a) := by
  obtain ⟨a1, a2⟩ := a
  obtain ⟨b1, b2⟩ := b
  simp only [Before, Prod.mk.injEq]
  omega

/-! ## Vi mode: landing on an occurrence is not disturbed by the navigation-mode cursor fix -/

theorem viFix_on_occ (eq : Char → Char → Bool) (b : Buf) (a : Char) (as : Text)
    (hnl : ∀ ch, eq a ch = true → ch ≠ '\n') (h : OccAt eq (a :: as) b.text b.cur) :
    viFix b = b := by
  obtain ⟨ch, h1, h2⟩ := occAt_head eq a as b.text b.cur h
  exact viFix_id b ch h1 (hnl ch h2)

theorem nl_eqCS (a : Char) (ha : a ≠ '\n') : ∀ ch, eqCS a ch = true → ch ≠ '\n' := by
  intro ch h
  simp [eqCS] at h
  subst h; exact ha

theorem nl_eqCI (a : Char) (ha : a ≠ '\n') : ∀ ch, eqCI a ch = true → ch ≠ '\n' := by
  intro ch h hc
  simp [eqCI] at h
  subst hc
  exact ha (foldAscii_eq_nl a (by rw [h]; rfl))

/-- ACCEPT in Vi mode (needle not starting with a newline): the buffer is where it was (up to the
    navigation-mode cursor fix) or exactly on the occurrence the search found. -/
theorem session_accept_vi_sound (eq : Char → Char → Bool) (s : Sess) (hwf : SessWF s)
    (hs : s.searching = true) (a : Char) (as : Text) (hf : s.field = a :: as)
    (hnl : ∀ ch, eq a ch = true → ch ≠ '\n') :
    let s' := step eq true s .accept
    s'.buf = viFix s.buf ∨
      (s'.buf = (step eq false s .accept).buf ∧
        Occ eq s.buf.lines s.field s'.buf.widx s'.buf.cur) := by
  intro s'
  have hvi : s'.buf = viFix (step eq false s .accept).buf := session_accept_vi eq s hs
  have hne : s.field ≠ [] := by rw [hf]; simp
  obtain ⟨hsound, _⟩ := session_accept_sound eq s hwf hs hne
  rcases hsound with h | h
  · left; rw [hvi, h]
  · right
    have hl : (step eq false s .accept).buf.lines = s.buf.lines :=
      step_lines_frame eq false s .accept (Or.inl (by intro c; simp))
    have hfix : viFix (step eq false s .accept).buf = (step eq false s .accept).buf := by
      apply viFix_on_occ eq _ a as hnl
      rw [← hf]
      simpa [Buf.text, hl] using h.2
    rw [hvi, hfix]
    exact ⟨rfl, h⟩

/-- Vi `n` / `N` land on an occurrence of the remembered needle or stay (up to the cursor fix) -/
theorem session_next_sound (eq : Char → Char → Bool) (s : Sess) (hwf : SessWF s) (n : Nat)
    (hn : 0 < n) (hs : s.searching = false) (a : Char) (as : Text) (hf : s.stext = a :: as)
    (hnl : ∀ ch, eq a ch = true → ch ≠ '\n') (k : Key) (hk : k = .next n ∨ k = .prev n) :
    (step eq true s k).buf = viFix s.buf ∨
      Occ eq s.buf.lines s.stext (step eq true s k).buf.widx (step eq true s k).buf.cur := by
  obtain ⟨h1, h2⟩ := session_next_prev eq s n hs
  have key : ∀ d, viFix (applySearch eq s.buf s.stext d false n) = viFix s.buf ∨
      Occ eq s.buf.lines s.stext (viFix (applySearch eq s.buf s.stext d false n)).widx
        (viFix (applySearch eq s.buf s.stext d false n)).cur := by
    intro d
    rcases applySearch_unchanged_or_occ eq s.buf s.stext d false n hn hwf with h | h
    · left; rw [h]
    · right
      have hfix : viFix (applySearch eq s.buf s.stext d false n) =
          applySearch eq s.buf s.stext d false n := by
        apply viFix_on_occ eq _ a as hnl
        rw [← hf]
        simpa [Buf.text, applySearch_frame] using h.2
      rw [hfix]; exact h
  rcases hk with rfl | rfl
  · rw [h1]; exact key _
  · rw [h2]; exact key _

/-! ## progress, and the property per key -/

/-- a forward step that excludes the cursor position and finds something ahead moves strictly
    forward in document order -/
theorem search_fwd_progress (eq : Char → Char → Bool) (ls : List Text) (sub : Text)
    (w c i p : Nat) (hwf : WF ls (w, c))
    (h : searchOnce eq ls sub .fwd false (w, c) = some (i, p))
    (j q : Nat) (hocc : Occ eq ls sub j q) (hah : AheadF false w c j q) :
    Before (w, c) (i, p) := by
  obtain ⟨hah', _⟩ := search_nearest_fwd eq ls sub false w c i p hwf h j q hocc hah
  rcases hah' with ⟨rfl, hp⟩ | hlt
  · right; simp [lo] at hp; exact ⟨rfl, by simp only; omega⟩
  · left; exact hlt

/-- a backward step for a non-empty needle that finds something ahead moves strictly backward -/
theorem search_bwd_progress (eq : Char → Char → Bool) (ls : List Text) (sub : Text) (incl : Bool)
    (w c i p : Nat) (hwf : WF ls (w, c)) (hne : sub ≠ [])
    (h : searchOnce eq ls sub .bwd incl (w, c) = some (i, p))
    (j q : Nat) (hocc : Occ eq ls sub j q) (hah : AheadB sub w c j q) :
    Before (i, p) (w, c) := by
  obtain ⟨hah', _⟩ := search_nearest_bwd eq ls sub incl w c i p hwf h j q hocc hah
  have : 0 < sub.length := List.length_pos_iff.2 hne
  rcases hah' with ⟨rfl, hp⟩ | hlt
  · right; exact ⟨rfl, by simp only; omega⟩
  · left; exact hlt

/-- ACCEPT finds the nearest occurrence ahead (complete + sound + nearest), both directions:
    Enter after typing a needle that occurs ahead lands exactly on the nearest such occurrence. -/
theorem session_accept_nearest (eq : Char → Char → Bool) (s : Sess) (hwf : SessWF s)
    (hs : s.searching = true) (hf : s.field ≠ []) (j q : Nat)
    (hocc : Occ eq s.buf.lines s.field j q)
    (b' : Buf) (hb' : b' = (step eq false s .accept).buf) :
    (s.sdir = .fwd → AheadF true s.buf.widx s.buf.cur j q →
        Occ eq s.buf.lines s.field b'.widx b'.cur ∧ AheadF true s.buf.widx s.buf.cur b'.widx b'.cur ∧
          ¬ Before (j, q) (b'.widx, b'.cur)) ∧
    (s.sdir = .bwd → AheadB s.field s.buf.widx s.buf.cur j q →
        Occ eq s.buf.lines s.field b'.widx b'.cur ∧
          AheadB s.field s.buf.widx s.buf.cur b'.widx b'.cur ∧ ¬ Before (b'.widx, b'.cur) (j, q)) := by
  have hne : s.field.isEmpty = false := by simpa using hf
  have hb : (step eq false s .accept).buf = applySearch eq s.buf s.field s.sdir true 1 := by
    simp [step, hs, hne, stopSearch]
  rw [hb] at hb'
  constructor
  · intro hd hah
    rw [hd] at hb'; subst hb'
    exact applySearch_nearest_fwd eq s.buf s.field true hwf j q hocc hah
  · intro hd hah
    rw [hd] at hb'; subst hb'
    exact applySearch_nearest_bwd eq s.buf s.field true hwf j q hocc hah

/-- NEXT (same direction) finds the nearest occurrence ahead, the current position excluded -/
theorem session_incr_nearest (eq : Char → Char → Bool) (vi : Bool) (s : Sess) (hwf : SessWF s)
    (hs : s.searching = true) (j q : Nat) (hocc : Occ eq s.buf.lines s.field j q)
    (b' : Buf) (hb' : b' = (step eq vi s (.incr s.sdir)).buf) :
    (s.sdir = .fwd → AheadF false s.buf.widx s.buf.cur j q →
        Occ eq s.buf.lines s.field b'.widx b'.cur ∧ AheadF false s.buf.widx s.buf.cur b'.widx b'.cur ∧
          ¬ Before (j, q) (b'.widx, b'.cur)) ∧
    (s.sdir = .bwd → AheadB s.field s.buf.widx s.buf.cur j q →
        Occ eq s.buf.lines s.field b'.widx b'.cur ∧
          AheadB s.field s.buf.widx s.buf.cur b'.widx b'.cur ∧ ¬ Before (b'.widx, b'.cur) (j, q)) := by
  have hb : (step eq vi s (.incr s.sdir)).buf = applySearch eq s.buf s.field s.sdir false 1 := by
    rw [(session_incr eq vi s s.sdir hs).1]; simp
  rw [hb] at hb'
  constructor
  · intro hd hah
    rw [hd] at hb'; subst hb'
    exact applySearch_nearest_fwd eq s.buf s.field false hwf j q hocc hah
  · intro hd hah
    rw [hd] at hb'; subst hb'
    exact applySearch_nearest_bwd eq s.buf s.field false hwf j q hocc hah

/-- C16 per key, Emacs mode: whatever search key is pressed in whatever state, the searched buffer
    stays exactly as it was, or ends on a real occurrence of the needle in force (the typed field,
    or — Enter in an empty field — the remembered needle). -/
theorem step_search_sound (eq : Char → Char → Bool) (s : Sess) (k : Key) (hwf : SessWF s)
    (hk : (∀ c, k ≠ .type c) ∨ s.searching = true) :
    (step eq false s k).buf = s.buf ∨
      ∃ sub, (sub = s.field ∨ sub = s.stext) ∧
        Occ eq s.buf.lines sub (step eq false s k).buf.widx (step eq false s k).buf.cur := by
  cases k with
  | start d => left; exact start_frame eq false s d
  | type c =>
    rcases hk with hk | hk
    · exact absurd rfl (hk c)
    · left; rw [type_frame eq false s c hk]
  | backspace =>
    left
    simp only [step]
    split
    · split <;> simp
    · rfl
  | incr d =>
    by_cases hs : s.searching = true
    · rcases session_incr_sound eq false s d hwf hs with h | h
      · left; exact h
      · right; exact ⟨s.field, Or.inl rfl, h⟩
    · left; simp [step, hs]
  | accept =>
    by_cases hs : s.searching = true
    · simp only [step, hs, if_true, stopSearch, Bool.false_eq_true, if_false]
      split
      · rcases applySearch_unchanged_or_occ eq s.buf s.field s.sdir true 1 (by omega) hwf with h | h
        · left; exact h
        · right; exact ⟨s.field, Or.inl rfl, h⟩
      · rcases applySearch_unchanged_or_occ eq s.buf s.stext s.sdir true 1 (by omega) hwf with h | h
        · left; exact h
        · right; exact ⟨s.stext, Or.inr rfl, h⟩
    · left; simp [step, hs]
  | abort =>
    left
    rw [abort_frame]; simp
  | next n => left; simp [step]
  | prev n => left; simp [step]
  | histPrev =>
    left
    simp only [step]
    split
    · split <;> rfl
    · rfl
  | histNext =>
    left
    simp only [step]
    split
    · split <;> rfl
    · rfl

/-- Vi mode: no key sequence whatsoever changes any text (printable keys in navigation mode are
    outside the model and leave the state alone) -/
theorem run_lines_frame_vi (eq : Char → Char → Bool) (s : Sess) (ks : List Key) :
    (run eq true s ks).buf.lines = s.buf.lines := by
  induction ks generalizing s with
  | nil => rfl
  | cons k ks ih =>
    simp only [run]
    rw [ih]
    by_cases hk : ∀ c, k ≠ .type c
    · exact step_lines_frame eq true s k (Or.inl hk)
    · simp only [not_forall, not_not] at hk
      obtain ⟨c, rfl⟩ := hk
      by_cases hs : s.searching = true
      · exact step_lines_frame eq true s _ (Or.inr hs)
      · simp [step, hs]

/-! ## non-vacuity: the hypotheses of the theorems hold on concrete, non-trivial states
    (and the model computes what the real editor shows there) -/

section examples

private def ab : Text := ['a', 'b']
/-- history entry "ab", current text "xab ab" -/
private def L1 : List Text := [['a', 'b'], ['x', 'a', 'b', ' ', 'a', 'b']]
theorem occ_of (eq : Char → Char → Bool) (sub t : Text) (p : Nat)
    (h1 : p ≤ t.length) (h2 : prefixBy eq sub (t.drop p) = true) : OccAt eq sub t p :=
  (occAt_iff_prefixBy eq sub t p).2 ⟨h1, h2⟩

-- findFirst_some_iff / docFind_some_iff / docFindBack_some_iff: overlapping occurrences,
-- regex metacharacters are literal, the cursor position is excluded on request
example : findFirst eqCS ['a', 'a'] ['b', 'a', 'a', 'a'] = some 1 := by decide
example : docFind eqCS ['a', 'a', 'a'] 0 ['a', 'a'] false = some 1 := by decide
example : docFind eqCS ['a', 'a', 'a'] 0 ['a', 'a'] true = some 0 := by decide
example : docFind eqCS ['a', '.', '*', 'b'] 0 ['.', '*'] true = some 1 := by decide
example : docFind eqCS ['a', 'x', 'b'] 0 ['.', '*'] true = none := by decide
example : docFindBack eqCS ['a', 'a', 'a'] 3 ['a', 'a'] = some (-2) := by decide
example : docFindBack eqCS ['a', 'a', 'a'] 2 ['a', 'a'] = some (-2) := by decide
example : docFindBack eqCI ['x', 'A', 'b'] 3 ['a', 'B'] = some (-2) := by decide
example : docFindBack eqCS ['x', 'A', 'b'] 3 ['a', 'B'] = none := by decide

-- search_sound, search_nearest_fwd, search_complete_fwd, search_wf (forward, same entry)
example : WF L1 (1, 1) ∧ searchOnce eqCS L1 ab .fwd false (1, 1) = some (1, 4) ∧
    Occ eqCS L1 ab 1 4 ∧ AheadF false 1 1 1 4 :=
  ⟨by unfold WF; decide, by decide, ⟨by decide, occ_of _ _ _ _ (by decide) (by decide)⟩,
    by unfold AheadF; decide⟩
-- … with the current position included the occurrence under the cursor is the nearest
example : searchOnce eqCS L1 ab .fwd true (1, 1) = some (1, 1) := by decide
-- search_nearest_bwd / search_complete_bwd: within the entry, then into the previous entry
example : WF L1 (1, 3) ∧ searchOnce eqCS L1 ab .bwd true (1, 3) = some (1, 1) ∧
    Occ eqCS L1 ab 1 1 ∧ AheadB ab 1 3 1 1 :=
  ⟨by unfold WF; decide, by decide, ⟨by decide, occ_of _ _ _ _ (by decide) (by decide)⟩,
    by unfold AheadB; decide⟩
example : searchOnce eqCS L1 ab .bwd true (1, 2) = some (0, 0) ∧ AheadB ab 1 2 0 0 :=
  ⟨by decide, by unfold AheadB; decide⟩
-- ignore-case on / off
example : searchOnce eqCI [['x', 'A', 'b']] ab .fwd true (0, 0) = some (0, 1) ∧
    searchOnce eqCS [['x', 'A', 'b']] ab .fwd true (0, 0) = none := ⟨by decide, by decide⟩

-- search_wrap_fwd: nothing ahead, the loop's last index revisits entry 0 (DESIGN O2) …
example : searchOnce eqCS L1 ab .fwd false (1, 4) = some (0, 0) ∧
    (∀ j q, Occ eqCS L1 ab j q → ¬ AheadF false 1 4 j q) := by
  refine ⟨by decide, ?_⟩
  rintro j q ⟨hj, ho⟩ (⟨rfl, hq⟩ | hlt)
  · have := occAt_le ho
    simp [L1, ab, entry, lo] at this hq
    omega
  · simp [L1] at hj; omega
-- … but ONLY entry 0: an occurrence in a middle entry behind the cursor is not revisited
-- (search_none_iff_fwd / search_none_iff_bwd; not a violation: it is not "ahead")
example : searchOnce eqCS [['x'], ['a', 'b'], ['y']] ab .fwd false (2, 0) = none ∧
    searchOnce eqCS [['x'], ['a', 'b'], ['y']] ab .bwd false (0, 0) = none ∧
    Occ eqCS [['x'], ['a', 'b'], ['y']] ab 1 0 :=
  ⟨by decide, by decide, by decide, occ_of _ _ _ _ (by decide) (by decide)⟩

-- searchN_sound / searchN_add / applySearch_count_*: three steps back through the history,
-- a fourth wraps around to the last entry
example : searchN eqCS L1 ab .bwd false 3 (1, 6) = some (0, 0) ∧
    searchN eqCS L1 ab .bwd false 4 (1, 6) = some (1, 4) := ⟨by decide, by decide⟩
-- all-or-nothing: the second step fails, so nothing moves although the first would succeed
example : applySearch eqCS ⟨[['x', 'a', 'b']], 0, 0⟩ ['x'] .bwd false 1 = ⟨[['x', 'a', 'b']], 0, 0⟩ ∧
    applySearch eqCS ⟨[['x', 'a', 'b']], 0, 3⟩ ['x'] .bwd false 1 = ⟨[['x', 'a', 'b']], 0, 0⟩ ∧
    applySearch eqCS ⟨[['x', 'a', 'b'], ['y']], 1, 0⟩ ['x'] .bwd false 2 = ⟨[['x', 'a', 'b'], ['y']], 1, 0⟩ :=
  ⟨by decide, by decide, by decide⟩

-- applySearch_unchanged_or_occ / applySearch_nearest_* / preview_eq_accept on a state where the
-- search moves into another entry
example : BufWF ⟨L1, 1, 2⟩ ∧ applySearch eqCS ⟨L1, 1, 2⟩ ab .bwd true 1 = ⟨L1, 0, 0⟩ ∧
    docForSearch eqCS ⟨L1, 1, 2⟩ ab .bwd = (['a', 'b'], 0) :=
  ⟨by unfold BufWF WF; decide, by decide, by decide⟩

-- getSearchPosition_sound: the witness of the repaired defect (DESIGN §8 / known_findings C16):
-- the only match is in the OTHER entry (at offset 4); the cursor must stay at 0
example : search eqCS ⟨[['x', 'x', 'x', 'x', 'a', 'b'], ['a', 'b', ' ', 'h']], 1, 0⟩ ab .fwd false 1
      = some (0, 4) ∧
    getSearchPosition eqCS ⟨[['x', 'x', 'x', 'x', 'a', 'b'], ['a', 'b', ' ', 'h']], 1, 0⟩ ab .fwd false 1
      = 0 := ⟨by decide, by decide⟩
-- getSearchPosition_nearest_fwd / _bwd
example : getSearchPosition eqCS ⟨L1, 1, 1⟩ ab .fwd false 1 = 4 ∧
    getSearchPosition eqCS ⟨L1, 1, 6⟩ ab .bwd false 1 = 4 := ⟨by decide, by decide⟩

/-- C-r a b … in Emacs mode on history ["ab"], text "xab ab", cursor at the end -/
private def S0 : Sess :=
  { buf := ⟨L1, 1, 6⟩, field := [], stext := [], sdir := .fwd, searching := false }

-- type_frame / run_type_frame / session_preview_eq_accept / session_accept_sound:
-- typing shows the preview at (entry 1, 4) and leaves the real cursor at 6; Enter goes to 4
example : SessWF S0 ∧
    (run eqCS false S0 [.start .bwd, .type 'a', .type 'b']).buf = ⟨L1, 1, 6⟩ ∧
    preview eqCS (run eqCS false S0 [.start .bwd, .type 'a', .type 'b'])
      = (['x', 'a', 'b', ' ', 'a', 'b'], 4) ∧
    (run eqCS false S0 [.start .bwd, .type 'a', .type 'b', .accept]).buf = ⟨L1, 1, 4⟩ :=
  ⟨by unfold SessWF BufWF WF; decide, by decide, by decide, by decide⟩
-- session_incr: C-r C-r walks 4 → 1 → history entry 0; a direction change does not move
example : (run eqCS false S0 [.start .bwd, .type 'a', .type 'b', .incr .bwd, .incr .bwd, .incr .bwd]).buf
      = ⟨L1, 0, 0⟩ ∧
    (run eqCS false S0 [.start .bwd, .type 'a', .type 'b', .incr .bwd, .incr .fwd]).buf = ⟨L1, 1, 4⟩ :=
  ⟨by decide, by decide⟩
-- abort_frame: C-g keeps what C-r already did (and only that)
example : (run eqCS false S0 [.start .bwd, .type 'a', .type 'b', .incr .bwd, .abort]).buf = ⟨L1, 1, 4⟩ ∧
    (run eqCS false S0 [.start .bwd, .type 'a', .type 'b', .abort]).buf = ⟨L1, 1, 6⟩ :=
  ⟨by decide, by decide⟩
-- session_next_prev / session_next_sound / session_accept_vi_sound (Vi mode: cursor fix 6 → 5 first)
example : (run eqCS true { S0 with buf := viFix S0.buf } [.start .bwd, .type 'a', .type 'b', .accept]).buf
      = ⟨L1, 1, 1⟩ ∧
    (run eqCS true { S0 with buf := viFix S0.buf }
      [.start .bwd, .type 'a', .type 'b', .accept, .next 1, .prev 2]).buf = ⟨L1, 1, 4⟩ :=
  ⟨by decide, by decide⟩
-- viFix
example : viFix ⟨[['a', 'b', '\n', 'c']], 0, 2⟩ = ⟨[['a', 'b', '\n', 'c']], 0, 1⟩ ∧
    viFix ⟨[['a', 'b', '\n', '\n', 'c']], 0, 3⟩ = ⟨[['a', 'b', '\n', '\n', 'c']], 0, 3⟩ ∧
    viFix ⟨[['a', 'b']], 0, 2⟩ = ⟨[['a', 'b']], 0, 1⟩ := ⟨by decide, by decide, by decide⟩

-- session_accept_nearest / session_incr_nearest / step_search_sound / search_bwd_progress:
-- in the state after `C-r a b` the nearest occurrence ahead (backward) is (entry 1, offset 4)
example :
    let s := run eqCS false S0 [.start .bwd, .type 'a', .type 'b']
    SessWF s ∧ s.searching = true ∧ s.field ≠ [] ∧ s.sdir = .bwd ∧
      Occ eqCS s.buf.lines s.field 1 4 ∧ AheadB s.field s.buf.widx s.buf.cur 1 4 ∧
      (step eqCS false s .accept).buf = ⟨L1, 1, 4⟩ ∧ Before (1, 4) (s.buf.widx, s.buf.cur) :=
  ⟨by unfold SessWF BufWF WF; decide, by decide, by decide, by decide,
    ⟨by decide, occ_of _ _ _ _ (by decide) (by decide)⟩, by unfold AheadB; decide, by decide,
    by unfold Before; decide⟩
-- run_lines_frame_vi
example : (run eqCS true S0 [.type 'x', .start .fwd, .type 'a', .incr .fwd, .accept, .next 3, .type 'y']).buf.lines
    = L1 := by decide

/-! ### observations (behaviour the property does not forbid, recorded exactly) -/

/-- OBSERVATION (backward travel): an occurrence that STARTS before the cursor but extends past
    it (here "ab" at 2 in "abab", cursor 3) is not seen by the backward search — `find_backwards`
    looks at the text before the cursor only.  C16 speaks of occurrences lying between the old and
    the new position; `AheadB` therefore requires the occurrence to end at or before the cursor. -/
example : searchOnce eqCS [['a', 'b', 'a', 'b']] ab .bwd true (0, 3) = some (0, 0) ∧
    OccAt eqCS ab ['a', 'b', 'a', 'b'] 2 :=
  ⟨by decide, occ_of _ _ _ _ (by decide) (by decide)⟩

/-- OBSERVATION (empty search field): Enter in an EMPTY field re-applies the previous needle, while
    the preview — which only looks at the field — shows the unmoved document.  The property
    quantifies over non-empty needles; `session_preview_eq_accept` needs `field ≠ []`. -/
example :
    let s := run eqCS false S0 [.start .bwd, .type 'a', .type 'b', .accept, .start .bwd]
    s.field = [] ∧ preview eqCS s = (['x', 'a', 'b', ' ', 'a', 'b'], 4) ∧
      (step eqCS false s .accept).buf = ⟨L1, 1, 1⟩ := by decide

end examples

end Ptk.C16
