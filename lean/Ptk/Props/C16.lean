import Ptk.Model.C16
namespace Ptk.C16
open Ptk.Py

theorem prefixBy_nil (eq : Char → Char → Bool) (t : Text) : prefixBy eq [] t = true := by
  cases t <;> rfl

end Ptk.C16
