/-
  C16 — scanner lemmas: what `findFirst`, `Document.find` (`docFind`) and
  `Document.find_backwards` (`docFindBack`) of `Ptk.Model.C16` compute, stated against a
  declarative notion of occurrence (`OccAt`): the text splits as  pre ++ m ++ post  with
  `pre.length = p` and the needle matching `m` character by character under `eq`.
  Everything holds for every comparison `eq` (case-sensitive, ASCII-folding, anything).
-/
import Ptk.Model.C16
import Mathlib.Data.List.Forall2
namespace Ptk.C16
open Ptk.Py

abbrev Match (eq : Char → Char → Bool) (a m : Text) : Prop :=
  List.Forall₂ (fun x y => eq x y = true) a m

def OccAt (eq : Char → Char → Bool) (sub t : Text) (p : Nat) : Prop :=
  ∃ pre m post, t = pre ++ m ++ post ∧ pre.length = p ∧ Match eq sub m

theorem prefixBy_iff (eq : Char → Char → Bool) (a t : Text) :
    prefixBy eq a t = true ↔ ∃ m r, t = m ++ r ∧ Match eq a m := by
  induction a generalizing t with
  | nil =>
    constructor
    · intro _; exact ⟨[], t, by simp, List.Forall₂.nil⟩
    · intro _; cases t <;> rfl
  | cons x xs ih =>
    cases t with
    | nil =>
      constructor
      · intro h; simp [prefixBy] at h
      · rintro ⟨m, r, h, hm⟩
        cases hm with
        | cons _ _ => simp at h
    | cons y ys =>
      simp only [prefixBy, Bool.and_eq_true, ih]
      constructor
      · rintro ⟨hxy, m, r, rfl, hm⟩
        exact ⟨y :: m, r, by simp, List.Forall₂.cons hxy hm⟩
      · rintro ⟨m, r, h, hm⟩
        cases hm with
        | cons hxy hm' =>
          simp at h
          obtain ⟨rfl, rfl⟩ := h
          exact ⟨hxy, _, r, rfl, hm'⟩

theorem occAt_iff_prefixBy (eq : Char → Char → Bool) (sub t : Text) (p : Nat) :
    OccAt eq sub t p ↔ p ≤ t.length ∧ prefixBy eq sub (t.drop p) = true := by
  rw [prefixBy_iff]
  constructor
  · rintro ⟨pre, m, post, rfl, rfl, hm⟩
    refine ⟨by simp, m, post, ?_, hm⟩
    simp
  · rintro ⟨hp, m, r, h, hm⟩
    refine ⟨t.take p, m, r, ?_, by simp [hp], hm⟩
    rw [List.append_assoc, ← h, List.take_append_drop]


theorem occAt_le {eq : Char → Char → Bool} {sub t : Text} {p : Nat} (h : OccAt eq sub t p) :
    p + sub.length ≤ t.length := by
  obtain ⟨pre, m, post, rfl, rfl, hm⟩ := h
  have := hm.length_eq
  simp; omega

theorem occAt_nil (eq : Char → Char → Bool) (sub : Text) (k : Nat) :
    OccAt eq sub [] k ↔ k = 0 ∧ prefixBy eq sub [] = true := by
  rw [occAt_iff_prefixBy]; simp

theorem occAt_cons_zero (eq : Char → Char → Bool) (sub : Text) (x : Char) (xs : Text) :
    OccAt eq sub (x :: xs) 0 ↔ prefixBy eq sub (x :: xs) = true := by
  rw [occAt_iff_prefixBy]; simp

theorem occAt_cons_succ (eq : Char → Char → Bool) (sub : Text) (x : Char) (xs : Text) (k : Nat) :
    OccAt eq sub (x :: xs) (k + 1) ↔ OccAt eq sub xs k := by
  rw [occAt_iff_prefixBy, occAt_iff_prefixBy]; simp

theorem findFirst_some_iff (eq : Char → Char → Bool) (sub t : Text) (k : Nat) :
    findFirst eq sub t = some k ↔ OccAt eq sub t k ∧ ∀ j, j < k → ¬ OccAt eq sub t j := by
  induction t generalizing k with
  | nil =>
    simp only [findFirst, occAt_nil]
    split
    · constructor
      · intro h; cases h; exact ⟨⟨rfl, by assumption⟩, by intro j hj; omega⟩
      · rintro ⟨⟨rfl, _⟩, _⟩; rfl
    · constructor
      · intro h; cases h
      · rintro ⟨⟨_, h⟩, _⟩; contradiction
  | cons x xs ih =>
    unfold findFirst
    split
    · rename_i hp
      constructor
      · intro h; cases h
        exact ⟨(occAt_cons_zero ..).2 hp, by intro j hj; omega⟩
      · rintro ⟨_, hmin⟩
        cases k with
        | zero => rfl
        | succ k => exact absurd ((occAt_cons_zero ..).2 hp) (hmin 0 (by omega))
    · rename_i hp
      cases k with
      | zero =>
        constructor
        · intro h
          cases hf : findFirst eq sub xs <;> simp [hf] at h
        · rintro ⟨h, _⟩; exact absurd ((occAt_cons_zero ..).1 h) hp
      | succ k =>
        rw [occAt_cons_succ]
        constructor
        · intro h
          cases hf : findFirst eq sub xs with
          | none => simp [hf] at h
          | some k' =>
            simp [hf] at h; subst h
            obtain ⟨h1, h2⟩ := (ih k').1 hf
            refine ⟨h1, ?_⟩
            intro j hj
            cases j with
            | zero => rw [occAt_cons_zero]; exact hp
            | succ j => rw [occAt_cons_succ]; exact h2 j (by omega)
        · rintro ⟨h1, h2⟩
          have : findFirst eq sub xs = some k := (ih k).2 ⟨h1, fun j hj => by
            have := h2 (j + 1) (by omega); rwa [occAt_cons_succ] at this⟩
          simp [this]

theorem findFirst_none_iff (eq : Char → Char → Bool) (sub t : Text) :
    findFirst eq sub t = none ↔ ∀ j, ¬ OccAt eq sub t j := by
  induction t with
  | nil =>
    simp only [findFirst, occAt_nil]
    split
    · simp; assumption
    · simp; simpa using ‹¬prefixBy eq sub [] = true›
  | cons x xs ih =>
    unfold findFirst
    split
    · rename_i hp
      simp
      exact ⟨0, (occAt_cons_zero ..).2 hp⟩
    · rename_i hp
      simp only [Option.map_eq_none_iff, ih]
      constructor
      · intro h j
        cases j with
        | zero => rw [occAt_cons_zero]; exact hp
        | succ j => rw [occAt_cons_succ]; exact h j
      · intro h j
        have := h (j + 1); rwa [occAt_cons_succ] at this


theorem occAt_drop (eq : Char → Char → Bool) (sub t : Text) (c j : Nat) (hc : c ≤ t.length) :
    OccAt eq sub (t.drop c) j ↔ OccAt eq sub t (c + j) := by
  rw [occAt_iff_prefixBy, occAt_iff_prefixBy]
  simp only [List.drop_drop, List.length_drop]
  constructor
  · rintro ⟨h1, h2⟩; exact ⟨by omega, h2⟩
  · rintro ⟨h1, h2⟩; exact ⟨by omega, h2⟩

/-- smallest offset `Document.find` may return -/
def lo (incl : Bool) : Nat := if incl then 0 else 1

theorem docFind_some_iff (eq : Char → Char → Bool) (text : Text) (c : Nat) (sub : Text)
    (incl : Bool) (k : Nat) (hc : c ≤ text.length) :
    docFind eq text c sub incl = some k ↔
      lo incl ≤ k ∧ OccAt eq sub text (c + k) ∧
        ∀ j, lo incl ≤ j → j < k → ¬ OccAt eq sub text (c + j) := by
  cases incl with
  | true =>
    simp only [docFind, lo, Bool.not_true, Bool.false_eq_true, if_false, if_true]
    rw [findFirst_some_iff, occAt_drop _ _ _ _ _ hc]
    constructor
    · rintro ⟨h1, h2⟩
      exact ⟨by omega, h1, fun j _ hj => by rw [← occAt_drop _ _ _ _ _ hc]; exact h2 j hj⟩
    · rintro ⟨_, h1, h2⟩
      exact ⟨h1, fun j hj => by rw [occAt_drop _ _ _ _ _ hc]; exact h2 j (by omega) hj⟩
  | false =>
    simp only [docFind, lo, Bool.not_false, if_true, Bool.false_eq_true, if_false]
    split
    · rename_i h0
      simp at h0
      constructor
      · intro h; cases h
      · rintro ⟨h1, h2, _⟩
        have := occAt_le h2
        omega
    · rename_i h0
      simp at h0
      have hc1 : c + 1 ≤ text.length := by omega
      rw [List.drop_drop]
      constructor
      · intro h
        cases hf : findFirst eq sub (List.drop (c + 1) text) with
        | none => simp [hf] at h
        | some k' =>
          simp [hf] at h; subst h
          obtain ⟨h1, h2⟩ := (findFirst_some_iff ..).1 hf
          rw [occAt_drop _ _ _ _ _ hc1] at h1
          refine ⟨by omega, by rwa [show c + (k' + 1) = c + 1 + k' by omega], ?_⟩
          intro j hj1 hj2
          have := h2 (j - 1) (by omega)
          rw [occAt_drop _ _ _ _ _ hc1] at this
          rwa [show c + 1 + (j - 1) = c + j by omega] at this
      · rintro ⟨hk, h1, h2⟩
        have : findFirst eq sub (List.drop (c + 1) text) = some (k - 1) := by
          rw [findFirst_some_iff, occAt_drop _ _ _ _ _ hc1]
          refine ⟨by rwa [show c + 1 + (k - 1) = c + k by omega], ?_⟩
          intro j hj
          rw [occAt_drop _ _ _ _ _ hc1]
          have := h2 (j + 1) (by omega) (by omega)
          rwa [show c + (j + 1) = c + 1 + j by omega] at this
        simp [this]; omega

theorem docFind_none_iff (eq : Char → Char → Bool) (text : Text) (c : Nat) (sub : Text)
    (incl : Bool) (hc : c ≤ text.length) :
    docFind eq text c sub incl = none ↔ ∀ j, lo incl ≤ j → ¬ OccAt eq sub text (c + j) := by
  cases incl with
  | true =>
    simp only [docFind, lo, Bool.not_true, Bool.false_eq_true, if_false, if_true]
    rw [findFirst_none_iff]
    constructor
    · intro h j _; rw [← occAt_drop _ _ _ _ _ hc]; exact h j
    · intro h j; rw [occAt_drop _ _ _ _ _ hc]; exact h j (by omega)
  | false =>
    simp only [docFind, lo, Bool.not_false, if_true, Bool.false_eq_true, if_false]
    split
    · rename_i h0
      simp at h0
      simp only [true_iff]
      intro j hj ho
      have := occAt_le ho
      omega
    · rename_i h0
      simp at h0
      have hc1 : c + 1 ≤ text.length := by omega
      rw [List.drop_drop, Option.map_eq_none_iff, findFirst_none_iff]
      constructor
      · intro h j hj
        have := h (j - 1)
        rw [occAt_drop _ _ _ _ _ hc1] at this
        rwa [show c + 1 + (j - 1) = c + j by omega] at this
      · intro h j
        rw [occAt_drop _ _ _ _ _ hc1]
        have := h (j + 1) (by omega)
        rwa [show c + (j + 1) = c + 1 + j by omega] at this


theorem occAt_reverse (eq : Char → Char → Bool) (sub t : Text) (s : Nat) :
    OccAt eq sub.reverse t.reverse s ↔
      s + sub.length ≤ t.length ∧ OccAt eq sub t (t.length - s - sub.length) := by
  constructor
  · rintro ⟨pre, m, post, h, rfl, hm⟩
    have hl := hm.length_eq
    have ht : t = post.reverse ++ m.reverse ++ pre.reverse := by
      have := congrArg List.reverse h
      simpa [List.append_assoc] using this
    have hm' : Match eq sub m.reverse := by
      have : Match eq sub.reverse m.reverse.reverse := by simpa using hm
      exact List.forall₂_reverse_iff.1 this
    simp at hl
    refine ⟨by rw [ht]; simp; omega, post.reverse, m.reverse, pre.reverse, ht, ?_, hm'⟩
    rw [ht]; simp; omega
  · rintro ⟨hle, pre, m, post, h, hp, hm⟩
    have hl := hm.length_eq
    refine ⟨post.reverse, m.reverse, pre.reverse, by rw [h]; simp, ?_,
      List.forall₂_reverse_iff.2 hm⟩
    have : t.length = pre.length + m.length + post.length := by rw [h]; simp [Nat.add_assoc]
    simp; omega

theorem occAt_take (eq : Char → Char → Bool) (sub t : Text) (c p : Nat) (hc : c ≤ t.length) :
    OccAt eq sub (t.take c) p ↔ OccAt eq sub t p ∧ p + sub.length ≤ c := by
  constructor
  · intro h
    have hle := occAt_le h
    obtain ⟨pre, m, post, h, hp, hm⟩ := h
    refine ⟨⟨pre, m, post ++ t.drop c, ?_, hp, hm⟩, by simpa [hc] using hle⟩
    rw [← List.append_assoc, ← h, List.take_append_drop]
  · rintro ⟨⟨pre, m, post, h, hp, hm⟩, hle⟩
    have hl := hm.length_eq
    refine ⟨pre, m, post.take (c - (pre ++ m).length), ?_, hp, hm⟩
    rw [h, List.take_append]
    have : List.take c (pre ++ m) = pre ++ m := by
      apply List.take_of_length_le; simp; omega
    rw [this]

theorem docFindBack_some_iff (eq : Char → Char → Bool) (text : Text) (c : Nat) (sub : Text)
    (k : Int) (hc : c ≤ text.length) :
    docFindBack eq text c sub = some k ↔
      ∃ p : Nat, k = (p : Int) - (c : Int) ∧ p + sub.length ≤ c ∧ OccAt eq sub text p ∧
        ∀ q, p < q → q + sub.length ≤ c → ¬ OccAt eq sub text q := by
  unfold docFindBack
  have hlen : (text.take c).length = c := by simp [hc]
  constructor
  · intro h
    cases hf : findFirst eq sub.reverse (List.take c text).reverse with
    | none => simp [hf] at h
    | some s =>
      simp [hf] at h
      obtain ⟨h1, h2⟩ := (findFirst_some_iff ..).1 hf
      rw [occAt_reverse, hlen] at h1
      obtain ⟨hle, hocc⟩ := h1
      rw [occAt_take _ _ _ _ _ hc] at hocc
      refine ⟨c - s - sub.length, by omega, by omega, hocc.1, ?_⟩
      intro q hq1 hq2 hq
      have := h2 (c - q - sub.length) (by omega)
      rw [occAt_reverse, hlen] at this
      apply this
      refine ⟨by omega, ?_⟩
      rw [occAt_take _ _ _ _ _ hc, show c - (c - q - sub.length) - sub.length = q by omega]
      exact ⟨hq, hq2⟩
  · rintro ⟨p, rfl, hle, hocc, hmax⟩
    have : findFirst eq sub.reverse (List.take c text).reverse = some (c - p - sub.length) := by
      rw [findFirst_some_iff, occAt_reverse, hlen, occAt_take _ _ _ _ _ hc]
      refine ⟨⟨by omega, ?_, by omega⟩, ?_⟩
      · rwa [show c - (c - p - sub.length) - sub.length = p by omega]
      · intro j hj
        rw [occAt_reverse, hlen, occAt_take _ _ _ _ _ hc]
        rintro ⟨h1, h2, h3⟩
        exact hmax (c - j - sub.length) (by omega) (by omega) h2
    simp [this]; omega

theorem docFindBack_none_iff (eq : Char → Char → Bool) (text : Text) (c : Nat) (sub : Text)
    (hc : c ≤ text.length) :
    docFindBack eq text c sub = none ↔ ∀ q, q + sub.length ≤ c → ¬ OccAt eq sub text q := by
  unfold docFindBack
  have hlen : (text.take c).length = c := by simp [hc]
  cases hf : findFirst eq sub.reverse (List.take c text).reverse with
  | some s =>
    obtain ⟨h1, _⟩ := (findFirst_some_iff ..).1 hf
    rw [occAt_reverse, hlen, occAt_take _ _ _ _ _ hc] at h1
    simp only [hf, Option.map_some, reduceCtorEq, false_iff]
    intro h
    exact h _ h1.2.2 h1.2.1
  | none =>
    simp only [hf, Option.map_none, true_iff]
    rw [findFirst_none_iff] at hf
    intro q hq ho
    apply hf (c - q - sub.length)
    rw [occAt_reverse, hlen, occAt_take _ _ _ _ _ hc]
    refine ⟨by omega, ?_, by omega⟩
    rwa [show c - (c - q - sub.length) - sub.length = q by omega]

end Ptk.C16
