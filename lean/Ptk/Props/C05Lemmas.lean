/-
  C05 — invariant lemmas for the Buffer state-writing API model (`Ptk.Model.C05`).
  The property theorems are in `Ptk.Props.C05`.
-/
import Ptk.Model.C05
namespace Ptk.C05
open Ptk.Py

/-- the selection anchor is an index into the current text -/
def SelOk (b : Buf) : Prop := ∀ s, b.sel = some s → 0 ≤ s.anchor ∧ s.anchor ≤ (b.text.length : Int)
def MultiOk (b : Buf) : Prop := ∀ p ∈ b.multi, 0 ≤ p ∧ p ≤ (b.text.length : Int)
def StackOk (st : List (Text × Nat)) : Prop := ∀ e ∈ st, e.2 ≤ e.1.length
/-- The state invariant of a `Buffer` (property C05): the working index addresses a working line,
    `0 ≤ cursor ≤ len(text)`, the selection anchor and every multiple-cursor position are inside the
    text, and every undo/redo entry is a well-formed `(text, cursor)` pair. -/
structure Inv (b : Buf) : Prop where
  idx : b.idx < b.lines.length
  cur : b.cur ≤ b.text.length
  sel : SelOk b
  multi : MultiOk b
  undo : StackOk b.undo
  redo : StackOk b.redo

theorem text_set (b : Buf) (v : Text) (h : b.idx < b.lines.length) :
    ({ b with lines := b.lines.set b.idx v } : Buf).text = v := by
  simp [Buf.text, h]

/-! `_cursor_position_changed` only resets `complete_state` / `yank_nth_arg_state` -/
@[simp] theorem cursorChanged_lines (b : Buf) (o c : Nat) : (cursorChanged b o c).lines = b.lines := by
  unfold cursorChanged; split <;> rfl
@[simp] theorem cursorChanged_idx (b : Buf) (o c : Nat) : (cursorChanged b o c).idx = b.idx := by
  unfold cursorChanged; split <;> rfl
@[simp] theorem cursorChanged_cur (b : Buf) (o c : Nat) : (cursorChanged b o c).cur = b.cur := by
  unfold cursorChanged; split <;> rfl
@[simp] theorem cursorChanged_sel (b : Buf) (o c : Nat) : (cursorChanged b o c).sel = b.sel := by
  unfold cursorChanged; split <;> rfl
@[simp] theorem cursorChanged_multi (b : Buf) (o c : Nat) : (cursorChanged b o c).multi = b.multi := by
  unfold cursorChanged; split <;> rfl
@[simp] theorem cursorChanged_undo (b : Buf) (o c : Nat) : (cursorChanged b o c).undo = b.undo := by
  unfold cursorChanged; split <;> rfl
@[simp] theorem cursorChanged_redo (b : Buf) (o c : Nat) : (cursorChanged b o c).redo = b.redo := by
  unfold cursorChanged; split <;> rfl
@[simp] theorem cursorChanged_readOnly (b : Buf) (o c : Nat) : (cursorChanged b o c).readOnly = b.readOnly := by
  unfold cursorChanged; split <;> rfl
@[simp] theorem cursorChanged_hsearch (b : Buf) (o c : Nat) : (cursorChanged b o c).hsearch = b.hsearch := by
  unfold cursorChanged; split <;> rfl
@[simp] theorem cursorChanged_enableHS (b : Buf) (o c : Nat) : (cursorChanged b o c).enableHS = b.enableHS := by
  unfold cursorChanged; split <;> rfl
@[simp] theorem cursorChanged_hist (b : Buf) (o c : Nat) : (cursorChanged b o c).hist = b.hist := by
  unfold cursorChanged; split <;> rfl
@[simp] theorem cursorChanged_text (b : Buf) (o c : Nat) : (cursorChanged b o c).text = b.text := by
  unfold cursorChanged; split <;> rfl

theorem setCursor_text (b : Buf) (v : Int) : (setCursor b v).text = b.text := by
  simp [setCursor, Buf.text]

theorem setCursor_cur_le (b : Buf) (v : Int) : (setCursor b v).cur ≤ b.text.length := by
  simp only [setCursor, cursorChanged_cur]
  split <;> split <;> omega

theorem setCursor_cur_le_arg (b : Buf) (v : Int) (hv : 0 ≤ v) : ((setCursor b v).cur : Int) ≤ v := by
  simp only [setCursor, cursorChanged_cur]
  split <;> split <;> omega

theorem setCursor_inv (b : Buf) (v : Int) (h : Inv b) : Inv (setCursor b v) := by
  have ht := setCursor_text b v
  have hc := setCursor_cur_le b v
  constructor
  · simpa [setCursor] using h.idx
  · rw [ht]; exact hc
  · intro s hs; rw [ht]; exact h.sel s (by simpa [setCursor] using hs)
  · intro p hp; rw [ht]; exact h.multi p (by simpa [setCursor] using hp)
  · simpa [setCursor] using h.undo
  · simpa [setCursor] using h.redo

/-- writing text `v` and cursor `c ≤ |v|` into the working line keeps the invariant: the selection
    and the multiple cursors are dropped unless the text is the old one. -/
theorem inv_cursorChanged (b : Buf) (o c : Nat) (h : Inv b) : Inv (cursorChanged b o c) := by
  constructor
  · simpa using h.idx
  · simpa using h.cur
  · intro s hs; simp at hs ⊢; exact h.sel s hs
  · intro p hp; simp at hp ⊢; exact h.multi p hp
  · simpa using h.undo
  · simpa using h.redo

theorem writeText_inv (b : Buf) (h : Inv b) (v : Text) (c : Nat) (hc : c ≤ v.length) :
    Inv (writeText b v c) := by
  unfold writeText
  apply inv_cursorChanged
  by_cases hne : (v != b.text) = true
  · rw [if_pos hne]
    simp only [textChanged]
    have ht : ({ b with lines := b.lines.set b.idx v, cur := c, sel := none, multi := [], hsearch := none,
                        yank := none, comp := none } : Buf).text = v := by
      simp [Buf.text, h.idx]
    refine ⟨by simpa using h.idx, by rw [ht]; exact hc, ?_, ?_, h.undo, h.redo⟩
    · intro s hs; simp at hs
    · intro p hp; simp at hp
  · rw [if_neg hne]
    have hv : v = b.text := by simpa using hne
    have ht : ({ b with lines := b.lines.set b.idx v, cur := c } : Buf).text = v := by
      simp [Buf.text, h.idx]
    refine ⟨by simpa using h.idx, by rw [ht]; exact hc, ?_, ?_, h.undo, h.redo⟩
    · intro s hs; rw [ht, hv]; exact h.sel s hs
    · intro p hp; rw [ht, hv]; exact h.multi p hp

theorem writeText_text (b : Buf) (h : b.idx < b.lines.length) (v : Text) (c : Nat) :
    (writeText b v c).text = v := by
  unfold writeText
  split <;> simp [textChanged, Buf.text, h]

theorem writeText_lines_length (b : Buf) (v : Text) (c : Nat) :
    (writeText b v c).lines.length = b.lines.length ∧ (writeText b v c).idx = b.idx := by
  unfold writeText
  split <;> simp [textChanged]

/-- every text change drops the selection and the multiple cursors (`_text_changed`) -/
theorem writeText_clears (b : Buf) (v : Text) (c : Nat) (hne : v ≠ b.text) :
    (writeText b v c).sel = none ∧ (writeText b v c).multi = [] := by
  unfold writeText
  have : (v != b.text) = true := by simpa using hne
  simp [this, textChanged]

theorem setText_inv (b : Buf) (v : Text) (h : Inv b) : Inv (setText b v).1 := by
  unfold setText
  have h1 : Inv (if b.cur > v.length then setCursor b v.length else b) := by
    split
    · exact setCursor_inv b _ h
    · exact h
  have hc1 : (if b.cur > v.length then setCursor b v.length else b).cur ≤ v.length := by
    split
    · have := setCursor_cur_le_arg b (v.length : Int) (by omega); omega
    · omega
  generalize (if b.cur > v.length then setCursor b v.length else b) = b1 at h1 hc1
  simp only []
  split
  · exact h1
  · exact writeText_inv b1 h1 v b1.cur hc1

/-- `Outcome`s after which editing goes on (normal return, or `EditReadOnlyBuffer`, which
    `_call_handler` swallows). -/
def Outcome.benign : Outcome → Prop
  | .ok => True | .readOnly => True | _ => False

theorem inv_stacks (b : Buf) (h : Inv b) (u r : List (Text × Nat)) (hu : StackOk u) (hr : StackOk r) :
    Inv { b with undo := u, redo := r } :=
  ⟨h.idx, h.cur, h.sel, h.multi, hu, hr⟩

theorem setDocument_inv (b : Buf) (t : Text) (c : Int) (bp : Bool) (h : Inv b) :
    Inv (setDocument b t c bp).1 := by
  unfold setDocument
  split
  · exact h
  · split
    · exact h
    · exact writeText_inv b h t _ (by omega)

theorem setDocument_outcome (b : Buf) (t : Text) (c : Int) (bp : Bool) :
    (setDocument b t c bp).2 ≠ .indexError ∧ (c ≤ t.length → (setDocument b t c bp).2 ≠ .assertion) := by
  unfold setDocument
  constructor
  · split
    · simp
    · split <;> simp
  · intro hc
    split
    · omega
    · split <;> simp

theorem setText_outcome (b : Buf) (v : Text) : (setText b v).2 = .ok ∨ (setText b v).2 = .readOnly := by
  unfold setText
  generalize (if b.cur > v.length then setCursor b v.length else b) = b1
  simp only []
  by_cases hr : b1.readOnly = true
  · right; rw [if_pos hr]
  · left; rw [if_neg hr]

theorem setWorkingIndex_inv (b : Buf) (i : Nat) (h : Inv b) (ho : (setWorkingIndex b i).2 ≠ .indexError) :
    Inv (setWorkingIndex b i).1 := by
  unfold setWorkingIndex at *
  by_cases hidx : (b.idx != i) = true
  · rw [if_pos hidx] at ho ⊢
    simp only [] at ho ⊢
    by_cases hi : i < b.lines.length
    · rw [if_pos hi]
      have h0 : (setCursor { b with idx := i } 0).cur = 0 := by
        simp only [setCursor]; split <;> simp <;> omega
      refine ⟨by simpa [textChanged, setCursor] using hi, ?_, ?_, ?_, ?_, ?_⟩
      · simp [textChanged, Buf.text, h0]
      · intro s hs; simp [textChanged] at hs
      · intro p hp; simp [textChanged] at hp
      · simpa [textChanged, setCursor] using h.undo
      · simpa [textChanged, setCursor] using h.redo
    · rw [if_neg hi] at ho; simp at ho
  · rw [if_neg hidx]; exact h

theorem setWorkingIndex_outcome (b : Buf) (i : Nat) (hi : i < b.lines.length) :
    (setWorkingIndex b i).2 = .ok := by
  unfold setWorkingIndex
  split
  · simp [hi]
  · rfl

theorem setWorkingIndex_lines (b : Buf) (i : Nat) : (setWorkingIndex b i).1.lines = b.lines := by
  unfold setWorkingIndex
  split
  · simp only []; split <;> simp [textChanged, setCursor]
  · rfl

theorem reset_inv (b : Buf) (t : Text) (c : Nat) (h : Inv b) : Inv (reset b t c).1 := by
  unfold reset
  split
  · exact h
  · rename_i hc
    refine ⟨by simp, by simp [Buf.text]; omega, ?_, ?_, ?_, ?_⟩
    · intro s hs; simp at hs
    · intro p hp; simp at hp
    · intro e he; simp at he
    · intro e he; simp at he

theorem saveUndo_inv (b : Buf) (cl : Bool) (h : Inv b) : Inv (saveUndo b cl) := by
  unfold saveUndo
  apply inv_stacks b h
  · cases hu : b.undo with
    | nil => intro e he; simp at he; subst he; exact h.cur
    | cons e rest =>
      obtain ⟨t, p⟩ := e
      have hrest : StackOk rest := fun e he => h.undo e (by rw [hu]; exact List.mem_cons_of_mem _ he)
      have htp : p ≤ t.length := h.undo (t, p) (by rw [hu]; exact List.mem_cons_self)
      simp only []
      split
      · rename_i heq
        have : t = b.text := by simpa using heq
        intro e he; simp at he; rcases he with rfl | he
        · simp; rw [this]; exact h.cur
        · exact hrest e he
      · intro e he; simp at he; rcases he with rfl | rfl | he
        · exact h.cur
        · exact htp
        · exact hrest e he
  · split
    · intro e he; simp at he
    · exact h.redo

theorem undoLoop_inv (b : Buf) (h : Inv b) : ∀ st, StackOk st →
    Inv (undoLoop b st).1 ∧ (undoLoop b st).2 ≠ .indexError ∧ (undoLoop b st).2 ≠ .assertion
  | [], _ => by
    simp only [undoLoop]
    exact ⟨inv_stacks b h [] b.redo (by intro e he; simp at he) h.redo, by simp, by simp⟩
  | (t, p) :: rest, hst => by
    have hrest : StackOk rest := fun e he => hst e (List.mem_cons_of_mem _ he)
    have htp : p ≤ t.length := hst (t, p) List.mem_cons_self
    simp only [undoLoop]
    split
    · have hb : Inv { b with undo := rest, redo := (b.text, b.cur) :: b.redo } := by
        apply inv_stacks b h _ _ hrest
        intro e he; simp at he; rcases he with rfl | he
        · exact h.cur
        · exact h.redo e he
      refine ⟨setDocument_inv _ t p false hb, (setDocument_outcome _ t p false).1, ?_⟩
      exact (setDocument_outcome _ t p false).2 (by omega)
    · exact undoLoop_inv b h rest hrest

theorem undo_inv (b : Buf) (h : Inv b) :
    Inv (undo b).1 ∧ (undo b).2 ≠ .indexError ∧ (undo b).2 ≠ .assertion := by
  unfold undo
  split
  · exact ⟨h, by simp, by simp⟩
  · exact undoLoop_inv b h b.undo h.undo

theorem redo_inv (b : Buf) (h : Inv b) :
    Inv (redo b).1 ∧ (redo b).2 ≠ .indexError ∧ (redo b).2 ≠ .assertion := by
  unfold redo
  split
  · exact ⟨h, by simp, by simp⟩
  cases hr : b.redo with
  | nil => exact ⟨h, by simp, by simp⟩
  | cons e rest =>
    obtain ⟨t, p⟩ := e
    simp only []
    have h1 := saveUndo_inv b false h
    have hredo : (saveUndo b false).redo = b.redo := by simp [saveUndo]
    have htp : p ≤ t.length := h.redo (t, p) (by rw [hr]; exact List.mem_cons_self)
    have hb : Inv { saveUndo b false with redo := (saveUndo b false).redo.drop 1 } := by
      apply inv_stacks _ h1 _ _ h1.undo
      intro e he
      exact h1.redo e (List.mem_of_mem_drop he)
    exact ⟨setDocument_inv _ t p false hb, (setDocument_outcome _ t p false).1,
           (setDocument_outcome _ t p false).2 (by omega)⟩


theorem startSelection_inv (b : Buf) (t : Nat) (h : Inv b) : Inv (startSelection b t) := by
  refine ⟨h.idx, h.cur, ?_, h.multi, h.undo, h.redo⟩
  intro s hs
  simp [startSelection] at hs
  subst hs
  have := h.cur
  simp [startSelection, Buf.text] at this ⊢
  omega

theorem exitSelection_inv (b : Buf) (h : Inv b) : Inv (exitSelection b) := by
  refine ⟨h.idx, h.cur, ?_, h.multi, h.undo, h.redo⟩
  intro s hs; simp [exitSelection] at hs

theorem appendLeft_text (b : Buf) (it : Text) : (appendLeft b it).text = b.text := by
  simp [appendLeft, Buf.text]

theorem appendLeft_inv (b : Buf) (it : Text) (h : Inv b) : Inv (appendLeft b it) := by
  have ht := appendLeft_text b it
  refine ⟨by simpa [appendLeft] using h.idx, by rw [ht]; exact h.cur, ?_, ?_, h.undo, h.redo⟩
  · intro s hs; rw [ht]; exact h.sel s hs
  · intro p hp; rw [ht]; exact h.multi p hp

theorem moveCursor_inv (b : Buf) (d : Int) (h : Inv b) : Inv (moveCursor b d) := setCursor_inv b _ h

theorem insertText_inv (b : Buf) (d : Text) (o m : Bool) (h : Inv b) :
    Inv (insertText b d o m).1 ∧ (insertText b d o m).2 ≠ .indexError ∧ (insertText b d o m).2 ≠ .assertion := by
  unfold insertText
  simp only []
  refine ⟨setDocument_inv _ _ _ _ h, (setDocument_outcome _ _ _ _).1, (setDocument_outcome _ _ _ _).2 ?_⟩
  have hc := h.cur
  split <;> split <;> simp [List.length_append, List.length_take] <;> omega

theorem delete_inv (b : Buf) (n : Nat) (h : Inv b) :
    Inv (delete b n).1 ∧ ((delete b n).2 = .ok ∨ (delete b n).2 = .readOnly) := by
  unfold delete
  split
  · exact ⟨setText_inv _ _ h, setText_outcome _ _⟩
  · exact ⟨h, Or.inl rfl⟩

theorem deleteBefore_inv (b : Buf) (n : Nat) (h : Inv b) :
    Inv (deleteBefore b n).1 ∧ (deleteBefore b n).2 ≠ .indexError ∧ (deleteBefore b n).2 ≠ .assertion := by
  unfold deleteBefore
  split
  · simp only []
    refine ⟨setDocument_inv _ _ _ _ h, (setDocument_outcome _ _ _ _).1, (setDocument_outcome _ _ _ _).2 ?_⟩
    have hc := h.cur
    simp [List.length_append, List.length_take, List.length_drop]
    omega
  · exact ⟨h, by simp, by simp⟩

theorem setHistorySearch_inv (b : Buf) (h : Inv b) : Inv (setHistorySearch b) := by
  unfold setHistorySearch
  split
  · split
    · exact ⟨h.idx, h.cur, h.sel, h.multi, h.undo, h.redo⟩
    · exact h
  · exact ⟨h.idx, h.cur, h.sel, h.multi, h.undo, h.redo⟩

theorem setHistorySearch_lines (b : Buf) : (setHistorySearch b).lines = b.lines ∧ (setHistorySearch b).idx = b.idx := by
  unfold setHistorySearch
  split
  · split <;> simp
  · simp

theorem histLoop_inv : ∀ (is : List Nat) (count : Int) (found : Bool) (b : Buf), Inv b →
    (∀ i ∈ is, i < b.lines.length) →
    Inv (histLoop is count found b).1 ∧ (histLoop is count found b).2.2 = .ok
  | [], _, _, b, h, _ => by simp [histLoop, h]
  | i :: rest, count, found, b, h, hi => by
    have hil : i < b.lines.length := hi i List.mem_cons_self
    have hrest : ∀ j ∈ rest, j < b.lines.length := fun j hj => hi j (List.mem_cons_of_mem _ hj)
    unfold histLoop
    split
    · have ho := setWorkingIndex_outcome b i hil
      have hinv := setWorkingIndex_inv b i h (by rw [ho]; simp)
      have hl := setWorkingIndex_lines b i
      revert ho hinv hl
      generalize setWorkingIndex b i = r
      obtain ⟨b1, o⟩ := r
      intro ho hinv hl
      simp only [] at ho hinv hl
      subst ho
      simp only []
      split
      · exact ⟨hinv, rfl⟩
      · exact histLoop_inv rest _ true b1 hinv (by rw [hl]; exact hrest)
    · split
      · exact ⟨h, rfl⟩
      · exact histLoop_inv rest count found b h hrest

theorem historyForward_inv (b : Buf) (c : Int) (h : Inv b) :
    Inv (historyForward b c).1 ∧ (historyForward b c).2 = .ok := by
  unfold historyForward
  simp only []
  have h0 := setHistorySearch_inv b h
  have hl := setHistorySearch_lines b
  have hc : ∀ i ∈ (List.range ((setHistorySearch b).lines.length - ((setHistorySearch b).idx + 1))).map
      (· + (setHistorySearch b).idx + 1), i < (setHistorySearch b).lines.length := by
    intro i hi
    simp at hi
    obtain ⟨a, ha, rfl⟩ := hi
    omega
  have := histLoop_inv _ c false _ h0 hc
  revert this
  generalize histLoop _ c false (setHistorySearch b) = r
  obtain ⟨b1, found, o⟩ := r
  intro ⟨hinv, ho⟩
  simp only [] at ho hinv
  subst ho
  simp only []
  split
  · exact ⟨moveCursor_inv _ _ (setCursor_inv _ _ hinv), rfl⟩
  · exact ⟨hinv, rfl⟩

theorem historyBackward_inv (b : Buf) (c : Int) (h : Inv b) :
    Inv (historyBackward b c).1 ∧ (historyBackward b c).2 = .ok := by
  unfold historyBackward
  simp only []
  have h0 := setHistorySearch_inv b h
  have hl := setHistorySearch_lines b
  have hc : ∀ i ∈ (List.range (setHistorySearch b).idx).reverse, i < (setHistorySearch b).lines.length := by
    intro i hi
    simp at hi
    have := h0.idx
    omega
  have := histLoop_inv _ c false _ h0 hc
  revert this
  generalize histLoop _ c false (setHistorySearch b) = r
  obtain ⟨b1, found, o⟩ := r
  intro ⟨hinv, ho⟩
  simp only [] at ho hinv
  subst ho
  simp only []
  split
  · exact ⟨setCursor_inv _ _ hinv, rfl⟩
  · exact ⟨hinv, rfl⟩


theorem setWorkingIndex_outcome_cases (b : Buf) (i : Nat) :
    (setWorkingIndex b i).2 = .ok ∨ (setWorkingIndex b i).2 = .indexError := by
  unfold setWorkingIndex
  by_cases hidx : (b.idx != i) = true
  · rw [if_pos hidx]; simp only []
    by_cases hi : i < b.lines.length
    · rw [if_pos hi]; exact Or.inl rfl
    · rw [if_neg hi]; exact Or.inr rfl
  · rw [if_neg hidx]; exact Or.inl rfl

theorem goToHistory_inv (b : Buf) (i : Nat) (h : Inv b) :
    Inv (goToHistory b i).1 ∧ (goToHistory b i).2 = .ok := by
  unfold goToHistory
  split
  · rename_i hi
    have ho := setWorkingIndex_outcome b i hi
    have hinv := setWorkingIndex_inv b i h (by rw [ho]; simp)
    revert ho hinv
    generalize setWorkingIndex b i = r
    obtain ⟨b1, o⟩ := r
    intro ho hinv
    simp only [] at ho hinv
    subst ho
    simp only [andThen]
    exact ⟨setCursor_inv _ _ hinv, trivial⟩
  · exact ⟨h, rfl⟩

theorem applySearch_inv (b : Buf) (i : Nat) (c : Int) (h : Inv b)
    (ho : (applySearchResult b i c).2 ≠ .indexError) :
    Inv (applySearchResult b i c).1 ∧ ((applySearchResult b i c).2 = .ok) := by
  unfold applySearchResult at *
  have hinv := setWorkingIndex_inv b i h
  have hcases := setWorkingIndex_outcome_cases b i
  revert ho hinv hcases
  generalize setWorkingIndex b i = r
  obtain ⟨b1, o⟩ := r
  intro ho hinv hcases
  simp only [] at hcases
  rcases hcases with rfl | rfl
  · simp only [andThen]
    exact ⟨setCursor_inv _ _ (hinv (by simp)), trivial⟩
  · simp [andThen] at ho

theorem cutSelection_inv (b : Buf) (t : Text) (c : Int) (h : Inv b) :
    Inv (cutSelection b t c).1 ∧ (cutSelection b t c).2 ≠ .indexError := by
  unfold cutSelection
  have hinv := setDocument_inv b t c false h
  have ho := (setDocument_outcome b t c false).1
  revert hinv ho
  generalize setDocument b t c false = r
  obtain ⟨b1, o⟩ := r
  intro hinv ho
  cases o <;> simp only [andThen]
  · exact ⟨exitSelection_inv _ hinv, by simp⟩
  · exact ⟨hinv, by simp⟩
  · exact ⟨hinv, by simp⟩
  · exact absurd rfl ho

/-- **Every call of the state-writing API keeps the invariant**, unless it ends with the
    `IndexError` of an out-of-range `working_index` (then the exception escapes: that is the
    crash-freedom half, decided by search). -/
theorem step_inv (b : Buf) (op : Op) (h : Inv b) (ho : (step b op).2 ≠ .indexError) : Inv (step b op).1 := by
  cases op with
  | setCursor v => exact setCursor_inv b v h
  | setText t => exact setText_inv b t h
  | setDocument t c bp => exact setDocument_inv b t c bp h
  | setWorkingIndex i => exact setWorkingIndex_inv b i h ho
  | reset t c => exact reset_inv b t c h
  | saveUndo cl => exact saveUndo_inv b cl h
  | undo => exact (undo_inv b h).1
  | redo => exact (redo_inv b h).1
  | startSelection ty => exact startSelection_inv b ty h
  | exitSelection => exact exitSelection_inv b h
  | appendLeft it => exact appendLeft_inv b it h
  | moveCursor d => exact moveCursor_inv b d h
  | insertText d o m => exact (insertText_inv b d o m h).1
  | delete n => exact (delete_inv b n h).1
  | deleteBefore n => exact (deleteBefore_inv b n h).1
  | historyForward c => exact (historyForward_inv b c h).1
  | historyBackward c => exact (historyBackward_inv b c h).1
  | goToHistory i => exact (goToHistory_inv b i h).1
  | applySearch i c => exact (applySearch_inv b i c h ho).1
  | cutSelection t c => exact (cutSelection_inv b t c h).1

theorem run_inv_aux : ∀ (ops : List Op) (b : Buf), Inv b → (run b ops).2 ≠ .indexError → Inv (run b ops).1
  | [], b, h, _ => h
  | op :: ops, b, h, ho => by
    unfold run at *
    have hs := step_inv b op h
    revert hs ho
    generalize step b op = r
    obtain ⟨b1, o⟩ := r
    intro ho hs
    cases o <;> simp only [] at ho ⊢
    · exact run_inv_aux ops b1 (hs (by simp)) ho
    · exact hs (by simp)
    · exact hs (by simp)
    · exact absurd rfl ho


/-- no selection and no multiple cursors -/
def Cleared (b : Buf) : Prop := b.sel = none ∧ b.multi = []

/-- after the call either the text is the old one or `_text_changed` has run -/
def SameOrCleared (b b' : Buf) : Prop := b'.text = b.text ∨ Cleared b'

/-- the working index addresses a working line -/
def IdxOk (b : Buf) : Prop := b.idx < b.lines.length

theorem cleared_setCursor (b : Buf) (v : Int) (h : Cleared b) : Cleared (setCursor b v) := by
  simpa [Cleared, setCursor] using h

theorem soc_setCursor (b b1 : Buf) (v : Int) (h : SameOrCleared b b1) : SameOrCleared b (setCursor b1 v) := by
  rcases h with h | h
  · left; rw [setCursor_text]; exact h
  · right; exact cleared_setCursor _ _ h

theorem soc_writeText (b : Buf) (hi : IdxOk b) (v : Text) (c : Nat) :
    SameOrCleared b (writeText b v c) := by
  by_cases hv : v = b.text
  · left; rw [writeText_text b hi]; exact hv
  · right; exact writeText_clears b v c hv

theorem soc_setText (b : Buf) (v : Text) (hi : IdxOk b) : SameOrCleared b (setText b v).1 := by
  unfold setText
  have h1 : IdxOk (if b.cur > v.length then setCursor b v.length else b) := by
    split
    · simpa [IdxOk, setCursor] using hi
    · exact hi
  have ht : (if b.cur > v.length then setCursor b v.length else b).text = b.text := by
    split
    · exact setCursor_text _ _
    · rfl
  generalize (if b.cur > v.length then setCursor b v.length else b) = b1 at h1 ht
  simp only []
  split
  · left; exact ht
  · have := soc_writeText b1 h1 v b1.cur
    unfold SameOrCleared at *
    rw [ht] at this; exact this

theorem soc_setDocument (b : Buf) (t : Text) (c : Int) (bp : Bool) (hi : IdxOk b) :
    SameOrCleared b (setDocument b t c bp).1 := by
  unfold setDocument
  split
  · left; rfl
  · split
    · left; rfl
    · exact soc_writeText b hi t _

theorem soc_setWorkingIndex (b : Buf) (i : Nat) (ho : (setWorkingIndex b i).2 ≠ .indexError) :
    (setWorkingIndex b i).1 = b ∨ Cleared (setWorkingIndex b i).1 := by
  unfold setWorkingIndex at *
  by_cases hidx : (b.idx != i) = true
  · rw [if_pos hidx] at ho ⊢
    simp only [] at ho ⊢
    by_cases hi : i < b.lines.length
    · rw [if_pos hi]; right; simp [Cleared, textChanged]
    · rw [if_neg hi] at ho; simp at ho
  · rw [if_neg hidx]; left; rfl

theorem soc_undoLoop (b : Buf) (hi : IdxOk b) : ∀ st, SameOrCleared b (undoLoop b st).1
  | [] => by left; simp [undoLoop, Buf.text]
  | (t, p) :: rest => by
    simp only [undoLoop]
    split
    · exact soc_setDocument { b with undo := rest, redo := (b.text, b.cur) :: b.redo } t p false hi
    · exact soc_undoLoop b hi rest

theorem soc_redo (b : Buf) (hi : IdxOk b) : SameOrCleared b (redo b).1 := by
  unfold redo
  split
  · left; rfl
  cases b.redo with
  | nil => left; rfl
  | cons e rest =>
    obtain ⟨t, p⟩ := e
    simp only []
    exact soc_setDocument { saveUndo b false with redo := (saveUndo b false).redo.drop 1 } t p false hi

theorem soc_histLoop : ∀ (is : List Nat) (count : Int) (found : Bool) (b : Buf),
    (∀ i ∈ is, i < b.lines.length) →
    (histLoop is count found b).1 = b ∨ Cleared (histLoop is count found b).1
  | [], _, _, b, _ => by left; simp [histLoop]
  | i :: rest, count, found, b, hi => by
    have hil : i < b.lines.length := hi i List.mem_cons_self
    have hrest : ∀ j ∈ rest, j < b.lines.length := fun j hj => hi j (List.mem_cons_of_mem _ hj)
    unfold histLoop
    split
    · have ho := setWorkingIndex_outcome b i hil
      have hs := soc_setWorkingIndex b i (by rw [ho]; simp)
      have hl := setWorkingIndex_lines b i
      revert ho hs hl
      generalize setWorkingIndex b i = r
      obtain ⟨b1, o⟩ := r
      intro ho hs hl
      simp only [] at ho hs hl
      subst ho
      simp only []
      split
      · exact hs
      · have ih := soc_histLoop rest (count - 1) true b1 (by rw [hl]; exact hrest)
        rcases hs with rfl | hc
        · exact ih
        · rcases ih with ih | ih
          · right; rw [ih]; exact hc
          · right; exact ih
    · split
      · left; rfl
      · exact soc_histLoop rest count found b hrest


theorem setHistorySearch_text (b : Buf) : (setHistorySearch b).text = b.text ∧
    (setHistorySearch b).sel = b.sel ∧ (setHistorySearch b).multi = b.multi := by
  unfold setHistorySearch
  split
  · split <;> simp [Buf.text]
  · simp [Buf.text]

theorem soc_of_eq_or_cleared {b b0 b1 : Buf} (h0 : b0.text = b.text) (h : b1 = b0 ∨ Cleared b1) :
    SameOrCleared b b1 := by
  rcases h with rfl | h
  · left; exact h0
  · right; exact h

theorem histLoop_ok : ∀ (is : List Nat) (count : Int) (found : Bool) (b : Buf),
    (∀ i ∈ is, i < b.lines.length) → (histLoop is count found b).2.2 = .ok
  | [], _, _, b, _ => by simp [histLoop]
  | i :: rest, count, found, b, hi => by
    have hil : i < b.lines.length := hi i List.mem_cons_self
    have hrest : ∀ j ∈ rest, j < b.lines.length := fun j hj => hi j (List.mem_cons_of_mem _ hj)
    unfold histLoop
    split
    · have ho := setWorkingIndex_outcome b i hil
      have hl := setWorkingIndex_lines b i
      revert ho hl
      generalize setWorkingIndex b i = r
      obtain ⟨b1, o⟩ := r
      intro ho hl
      simp only [] at ho hl
      subst ho
      simp only []
      split
      · rfl
      · exact histLoop_ok rest _ true b1 (by rw [hl]; exact hrest)
    · split
      · rfl
      · exact histLoop_ok rest count found b hrest

theorem soc_historyForward (b : Buf) (c : Int) (_hi : IdxOk b) : SameOrCleared b (historyForward b c).1 := by
  unfold historyForward
  simp only []
  have hl := setHistorySearch_lines b
  have ht := (setHistorySearch_text b).1
  have hc : ∀ i ∈ (List.range ((setHistorySearch b).lines.length - ((setHistorySearch b).idx + 1))).map
      (· + (setHistorySearch b).idx + 1), i < (setHistorySearch b).lines.length := by
    intro i hi
    simp at hi
    obtain ⟨a, ha, rfl⟩ := hi
    omega
  have hs := soc_histLoop _ c false _ hc
  have hinv := histLoop_ok _ c false (setHistorySearch b) hc
  revert hs hinv
  generalize histLoop _ c false (setHistorySearch b) = r
  obtain ⟨b1, found, o⟩ := r
  intro hs ho
  simp only [] at ho hs
  subst ho
  simp only []
  have hsoc := soc_of_eq_or_cleared ht hs
  split
  · exact soc_setCursor _ _ _ (soc_setCursor _ _ _ hsoc)
  · exact hsoc

theorem soc_historyBackward (b : Buf) (c : Int) (hi : IdxOk b) : SameOrCleared b (historyBackward b c).1 := by
  unfold historyBackward
  simp only []
  have hl := setHistorySearch_lines b
  have ht := (setHistorySearch_text b).1
  have hc : ∀ i ∈ (List.range (setHistorySearch b).idx).reverse, i < (setHistorySearch b).lines.length := by
    intro i hi'
    simp at hi'
    unfold IdxOk at hi
    rw [hl.1]
    rw [hl.2] at hi'
    omega
  have hs := soc_histLoop _ c false _ hc
  have hinv := histLoop_ok _ c false (setHistorySearch b) hc
  revert hs hinv
  generalize histLoop _ c false (setHistorySearch b) = r
  obtain ⟨b1, found, o⟩ := r
  intro hs ho
  simp only [] at ho hs
  subst ho
  simp only []
  have hsoc := soc_of_eq_or_cleared ht hs
  split
  · exact soc_setCursor _ _ _ hsoc
  · exact hsoc

theorem soc_goToHistory (b : Buf) (i : Nat) : SameOrCleared b (goToHistory b i).1 := by
  unfold goToHistory
  split
  · rename_i hi
    have ho := setWorkingIndex_outcome b i hi
    have hs := soc_setWorkingIndex b i (by rw [ho]; simp)
    revert ho hs
    generalize setWorkingIndex b i = r
    obtain ⟨b1, o⟩ := r
    intro ho hs
    simp only [] at ho hs
    subst ho
    simp only [andThen]
    exact soc_setCursor _ _ _ (soc_of_eq_or_cleared rfl hs)
  · left; rfl

theorem soc_applySearch (b : Buf) (i : Nat) (c : Int) (ho : (applySearchResult b i c).2 ≠ .indexError) :
    SameOrCleared b (applySearchResult b i c).1 := by
  unfold applySearchResult at *
  have hs := soc_setWorkingIndex b i
  have hcases := setWorkingIndex_outcome_cases b i
  revert ho hs hcases
  generalize setWorkingIndex b i = r
  obtain ⟨b1, o⟩ := r
  intro ho hs hcases
  simp only [] at hcases
  rcases hcases with rfl | rfl
  · simp only [andThen]
    exact soc_setCursor _ _ _ (soc_of_eq_or_cleared rfl (hs (by simp)))
  · simp [andThen] at ho

theorem soc_cutSelection (b : Buf) (t : Text) (c : Int) (hi : IdxOk b) :
    SameOrCleared b (cutSelection b t c).1 := by
  unfold cutSelection
  have hs := soc_setDocument b t c false hi
  revert hs
  generalize setDocument b t c false = r
  obtain ⟨b1, o⟩ := r
  intro hs
  cases o <;> simp only [andThen]
  · rcases hs with hs | hs
    · left; simpa [exitSelection, Buf.text] using hs
    · right; simpa [Cleared, exitSelection] using hs.2
  all_goals exact hs

/-- **Every text change clears the selection and the multiple cursors**: after any API call that
    did not end with the IndexError of a bad working index, either the text is the one before the
    call or there is no selection and no multiple cursor left. -/
theorem step_same_or_cleared (b : Buf) (op : Op) (hi : IdxOk b) (ho : (step b op).2 ≠ .indexError) :
    SameOrCleared b (step b op).1 := by
  cases op with
  | setCursor v => left; exact setCursor_text b v
  | setText t => exact soc_setText b t hi
  | setDocument t c bp => exact soc_setDocument b t c bp hi
  | setWorkingIndex i => exact soc_of_eq_or_cleared rfl (soc_setWorkingIndex b i ho)
  | reset t c =>
    simp only [step, reset]
    split
    · left; rfl
    · right; simp [Cleared]
  | saveUndo cl => left; simp [step, saveUndo, Buf.text]
  | undo =>
    simp only [step, undo]
    split
    · left; rfl
    · exact soc_undoLoop b hi b.undo
  | redo => exact soc_redo b hi
  | startSelection ty => left; simp [step, startSelection, Buf.text]
  | exitSelection => left; simp [step, exitSelection, Buf.text]
  | appendLeft it => left; exact appendLeft_text b it
  | moveCursor d => left; exact setCursor_text b _
  | insertText d o m => exact soc_setDocument b _ _ _ hi
  | delete n =>
    simp only [step, delete]
    split
    · exact soc_setText b _ hi
    · left; rfl
  | deleteBefore n =>
    simp only [step, deleteBefore]
    split
    · exact soc_setDocument b _ _ _ hi
    · left; rfl
  | historyForward c => exact soc_historyForward b c hi
  | historyBackward c => exact soc_historyBackward b c hi
  | goToHistory i => exact soc_goToHistory b i
  | applySearch i c => exact soc_applySearch b i c ho
  | cutSelection t c => exact soc_cutSelection b t c hi


/-- "the cursor rests past the last character of a non-empty line"
    (`is_cursor_at_the_end_of_line and len(current_line) > 0`) -/
def PastEnd (b : Buf) : Prop := atEndOfLine b = true ∧ (currentLine b).length > 0

theorem lineAfter_nil_of_atEnd (b : Buf) (h : atEndOfLine b = true) : lineAfter b = [] := by
  unfold atEndOfLine currentChar at h
  unfold lineAfter Buf.after
  cases hc : b.text[b.cur]? with
  | none =>
    have : b.text.length ≤ b.cur := by simpa using hc
    simp [List.drop_of_length_le this]
  | some c =>
    rw [hc] at h
    simp only [] at h
    have hc' : c = '\n' := by simpa using h
    have hlt : b.cur < b.text.length := by
      rcases Nat.lt_or_ge b.cur b.text.length with h1 | h1
      · exact h1
      · have : b.text[b.cur]? = none := by simp [h1]
        rw [this] at hc; cases hc
    have hd : b.text.drop b.cur = b.text[b.cur] :: b.text.drop (b.cur + 1) := List.drop_eq_getElem_cons hlt
    have hg : b.text[b.cur] = c := by
      have := List.getElem?_eq_getElem hlt
      rw [this] at hc; exact Option.some.inj hc
    rw [hd, hg, hc']
    simp [notNl]

/-- if the reversed prefix starts with a run of `p`, the character before position `n` satisfies `p` -/
theorem last_of_take (l : Text) (n : Nat) (hn : n ≤ l.length) (p : Char → Bool)
    (h : ((l.take n).reverse.takeWhile p).length > 0) :
    ∃ x, 0 < n ∧ l[n - 1]? = some x ∧ p x = true := by
  cases hr : (l.take n).reverse with
  | nil => rw [hr] at h; simp at h
  | cons x rest =>
    rw [hr] at h
    have hp : p x = true := by
      by_cases hp : p x = true
      · exact hp
      · simp [hp] at h
    have ht : l.take n = rest.reverse ++ [x] := by
      have := congrArg List.reverse hr
      simpa using this
    have hlen : (l.take n).length = n := by simp [List.length_take]; omega
    have hn0 : 0 < n := by
      have : (l.take n).length = rest.length + 1 := by rw [ht]; simp
      omega
    refine ⟨x, hn0, ?_, hp⟩
    have h1 : (l.take n)[n - 1]? = some x := by
      rw [ht]
      have : rest.reverse.length = n - 1 := by
        have : (l.take n).length = rest.length + 1 := by rw [ht]; simp
        simp; omega
      rw [← this]
      simp
    rw [List.getElem?_take] at h1
    simpa [show n - 1 < n by omega] using h1

theorem fixViCursor_not_pastEnd (a : App) (hc : a.buf.cur ≤ a.buf.text.length)
    (hn : viNavigationMode (fixViCursor a) = true) : ¬ PastEnd (fixViCursor a).buf := by
  unfold fixViCursor at *
  by_cases hcond : (viNavigationMode a && atEndOfLine a.buf && decide ((currentLine a.buf).length > 0)) = true
  · rw [if_pos hcond] at hn ⊢
    simp only [Bool.and_eq_true, decide_eq_true_eq] at hcond
    obtain ⟨⟨_, hend⟩, hlen⟩ := hcond
    have hla := lineAfter_nil_of_atEnd a.buf hend
    have hlb : (lineBefore a.buf).length > 0 := by
      unfold currentLine at hlen; rw [hla] at hlen; simpa using hlen
    unfold lineBefore Buf.before at hlb
    rw [List.length_reverse] at hlb
    obtain ⟨x, hn0, hx, hpx⟩ := last_of_take a.buf.text a.buf.cur hc notNl hlb
    -- the new cursor is cur - 1 and the character there is x ≠ '\n'
    have hcur : (moveCursor a.buf (-1)).cur = a.buf.cur - 1 := by
      simp only [moveCursor, setCursor, cursorChanged_cur]
      split <;> split <;> omega
    intro hpe
    have hat := hpe.1
    unfold atEndOfLine currentChar at hat
    have htx : (moveCursor a.buf (-1)).text = a.buf.text := setCursor_text _ _
    simp only [] at hat
    rw [htx, hcur, hx] at hat
    simp only [] at hat
    have : x = '\n' := by simpa using hat
    rw [this] at hpx
    simp [notNl] at hpx
  · rw [if_neg hcond] at hn ⊢
    intro hpe
    apply hcond
    simp [hn, hpe.1, hpe.2]


/-- handler ops that act through the API (no by-passing write) -/
def HOp.isApi : HOp → Bool
  | .raw _ => false
  | _ => true

theorem hstep_inv (a : App) (op : HOp) (hapi : op.isApi = true) (h : Inv a.buf)
    (ho : (hstep a op).2 ≠ .indexError) : Inv (hstep a op).1.buf := by
  cases op with
  | buf o =>
    simp only [hstep] at ho ⊢
    exact step_inv a.buf o h ho
  | raw r => simp [HOp.isApi] at hapi
  | setMode m => exact h
  | setOp p g => exact h
  | setDigraph w s => exact h
  | setTempNav t => exact h
  | setArg g => exact h
  | viReset => exact h

theorem hrun_inv : ∀ (prog : List HOp) (a : App), (∀ op ∈ prog, op.isApi = true) → Inv a.buf →
    (hrun a prog).2 ≠ .indexError → Inv (hrun a prog).1.buf
  | [], a, _, h, _ => h
  | op :: ops, a, hapi, h, ho => by
    unfold hrun at *
    have hs := hstep_inv a op (hapi op List.mem_cons_self) h
    revert hs ho
    generalize hstep a op = r
    obtain ⟨a1, o⟩ := r
    intro ho hs
    cases o <;> simp only [] at ho ⊢
    · exact hrun_inv ops a1 (fun o ho' => hapi o (List.mem_cons_of_mem _ ho')) (hs (by simp)) ho
    · exact hs (by simp)
    · exact hs (by simp)
    · exact absurd rfl ho

theorem fixViCursor_inv (a : App) (h : Inv a.buf) : Inv (fixViCursor a).buf := by
  unfold fixViCursor
  split
  · exact moveCursor_inv _ _ h
  · exact h

theorem leaveTempNav_buf (a : App) : (leaveTempNav a).buf = a.buf := by
  unfold leaveTempNav
  split
  · split <;> rfl
  · rfl

/-- leaving the temporary navigation mode can only switch the navigation filter off -/
theorem viNav_of_leaveTempNav (a : App) (h : viNavigationMode (leaveTempNav a) = true) :
    viNavigationMode a = true := by
  unfold leaveTempNav at h
  split at h
  · split at h
    · unfold viNavigationMode at *
      simp only [] at h
      split at h
      · simp at h
      · rename_i hc
        rw [if_neg hc]
        simp only [Bool.or_eq_true] at h ⊢
        rcases h with (h | h) | h
        · exact Or.inl (Or.inl h)
        · simp at h
        · exact Or.inr h
    · exact h
  · exact h


end Ptk.C05
