/-
  C01 — the readline named commands as LOCAL EDITS (part 3: unix-word-rubout / backward-kill-word,
  kill-line, unix-line-discard, delete-horizontal-space).
-/
import Ptk.Props.C01Kill
namespace Ptk.C01
open Ptk.Py

/-! ### unix-word-rubout / backward-kill-word -/

/-- `unix-word-rubout` / `backward-kill-word` for every integer argument: exactly the last `m ≤ cursor`
    characters before the cursor go and are handed back; `m` is the distance to the start of the
    arg-th previous word when there is one, the whole text before the cursor otherwise
    ("delete until the start of the document") -/
theorem rubout_spec (sp : Char → Bool) (b : Buf) (h : Inv b) (arg : Int) (W : Bool) :
    ∃ m, LocalEdit b (rubout sp b arg W).1 m 0 [] ∧
      (rubout sp b arg W).2 = b.before.drop (b.cur - m) ∧
      (match findStartOfPrevWord sp b arg W with
       | some p => p = -(m : Int) ∧ 0 < m
       | none => m = b.cur) := by
  have hl := before_length b h
  have key : ∀ m : Nat, m ≤ b.cur → (-(m : Int) ≠ 0 → rubout sp b arg W = deleteBefore b m) →
      (-(m : Int) = 0 → rubout sp b arg W = (b, [])) →
      LocalEdit b (rubout sp b arg W).1 m 0 [] ∧ (rubout sp b arg W).2 = b.before.drop (b.cur - m) := by
    intro m hm h1 h2
    by_cases hz : m = 0
    · subst hz
      rw [h2 (by simp)]
      refine ⟨⟨by omega, by omega, ?_, by simp⟩, by simp [hl]⟩
      simp [before_append_after]
    · rw [h1 (by omega)]
      have := deleteBefore_local b h m
      have e : min m b.cur = m := by omega
      rw [e] at this
      exact this
  cases hf : findStartOfPrevWord sp b arg W with
  | some p =>
    obtain ⟨e, rfl, he1, he2⟩ := findStartOfPrevWord_bounds sp b h arg W p hf
    have := key e he2
      (by intro hne; simp [rubout, hf]; intro hz; omega)
      (by intro hz; omega)
    exact ⟨e, this.1, this.2, rfl, he1⟩
  | none =>
    have := key b.cur (by omega)
      (by intro hne; simp [rubout, hf]; intro hz; omega)
      (by intro hz; simp [rubout, hf]; intro hne; omega)
    exact ⟨b.cur, this.1, this.2, rfl⟩

example : rubout (fun c => c == ' ') { text := "foo bar baz".toList, cur := 8 } 1 true
    = ({ text := "foo baz".toList, cur := 4 }, "bar ".toList) := by decide
example : rubout (fun c => c == ' ') { text := "foo bar baz".toList, cur := 9 } (-1) true
    = ({ text := "az".toList, cur := 0 }, "foo bar b".toList) := by decide

/-! ### kill-line / unix-line-discard -/

theorem drop_lineBefore (b : Buf) (h : Inv b) :
    b.before.drop (b.cur - (lineBefore b).length) = lineBefore b := by
  obtain ⟨p, hp, _, _⟩ := lineBefore_suffix b
  have hl := before_length b h
  have : p.length = b.cur - (lineBefore b).length := by
    have := hl; rw [hp] at this; simp at this; omega
  rw [← this]
  conv => lhs; rw [hp]
  simp

theorem take_lineAfter (b : Buf) : b.after.take (lineAfter b).length = lineAfter b := by
  obtain ⟨s, hs, _, _⟩ := lineAfter_prefix b
  conv => lhs; rw [hs]
  simp

/-- `kill-line`: a negative argument removes exactly the part of the current line before the
    cursor; otherwise, on a line ending exactly that line ending goes, else exactly the rest of the
    line (never a line ending) -/
theorem killLine_spec (b : Buf) (h : Inv b) (arg : Int) :
    (arg < 0 → LocalEdit b (killLine b arg).1 (lineBefore b).length 0 [] ∧
        (killLine b arg).2 = lineBefore b) ∧
    (0 ≤ arg → b.text[b.cur]? = some '\n' →
        LocalEdit b (killLine b arg).1 0 1 [] ∧ (killLine b arg).2 = ['\n']) ∧
    (0 ≤ arg → b.text[b.cur]? ≠ some '\n' →
        LocalEdit b (killLine b arg).1 0 (lineAfter b).length [] ∧
        (killLine b arg).2 = lineAfter b ∧ '\n' ∉ (killLine b arg).2) := by
  refine ⟨?_, ?_, ?_⟩
  · intro h0
    have hle := lineBefore_le b h
    have := deleteBefore_local b h (lineBefore b).length
    have e : min (lineBefore b).length b.cur = (lineBefore b).length := by omega
    rw [e] at this
    simp only [killLine, h0, if_true]
    exact ⟨this.1, by rw [this.2, drop_lineBefore b h]⟩
  · intro h0 hnl
    have hn : ¬ arg < 0 := by omega
    simp only [killLine, hn, if_false, hnl, if_true]
    obtain ⟨k, he, hr, hk, _⟩ := deleteI_local b h 1
    have hlen : 1 ≤ b.after.length := by
      have : b.cur < b.text.length := by
        by_cases hc : b.cur < b.text.length
        · exact hc
        · rw [List.getElem?_eq_none (by omega)] at hnl; cases hnl
      simp [Buf.after]; omega
    have hk1 : k = 1 := by have := hk (by omega); simp at this; omega
    subst hk1
    refine ⟨he, ?_⟩
    rw [hr]
    have : b.after = '\n' :: b.after.drop 1 := by
      have h1 : b.after[0]? = some '\n' := by simpa [Buf.after] using hnl
      cases ha : b.after with
      | nil => rw [ha] at hlen; simp at hlen
      | cons x xs => rw [ha] at h1; simp at h1; simp [h1]
    rw [this]; simp
  · intro h0 hnl
    have hn : ¬ arg < 0 := by omega
    simp only [killLine, hn, if_false, hnl]
    obtain ⟨k, he, hr, hk, _⟩ := deleteI_local b h ((lineAfter b).length : Int)
    have hle := lineAfter_le b h
    have hk1 : k = (lineAfter b).length := by
      have := hk (by omega); simp [Buf.after] at this ⊢; omega
    subst hk1
    refine ⟨he, ?_, ?_⟩
    · rw [hr, take_lineAfter]
    · rw [hr, take_lineAfter]; exact nl_not_mem_takeWhile _

example : killLine { text := "ab\ncd".toList, cur := 2 } 1 = ({ text := "abcd".toList, cur := 2 }, ['\n']) := by decide
example : killLine { text := "ab\ncd".toList, cur := 4 } (-1) = ({ text := "ab\nd".toList, cur := 3 }, ['c']) := by decide

/-- `unix-line-discard`: at column 0 (not at the start of the buffer) exactly the line ending before
    the cursor goes; otherwise exactly the part of the current line before the cursor -/
theorem unixLineDiscard_spec (b : Buf) (h : Inv b) :
    ((lineBefore b).length = 0 ∧ 0 < b.cur →
        LocalEdit b (unixLineDiscard b).1 1 0 [] ∧ (unixLineDiscard b).2 = ['\n']) ∧
    (¬ ((lineBefore b).length = 0 ∧ 0 < b.cur) →
        LocalEdit b (unixLineDiscard b).1 (lineBefore b).length 0 [] ∧
        (unixLineDiscard b).2 = lineBefore b) := by
  have hl := before_length b h
  constructor
  · intro hc
    simp only [unixLineDiscard, cursorCol, hc, and_self, if_true]
    have := deleteBefore_local b h 1
    have e : min 1 b.cur = 1 := by omega
    rw [e] at this
    refine ⟨this.1, ?_⟩
    rw [this.2]
    obtain ⟨p, hp, _, hp2⟩ := lineBefore_suffix b
    have hlb : lineBefore b = [] := List.length_eq_zero_iff.mp hc.1
    rw [hlb] at hp; simp at hp
    rcases hp2 with hp2 | hp2
    · rw [hp2] at hp; rw [hp] at hl; simp at hl; omega
    · rw [hp]
      have hpl : p.length = b.cur := by rw [← hp]; exact hl
      rw [← hpl]
      rw [List.getLast?_eq_some_iff] at hp2
      obtain ⟨ys, hys⟩ := hp2
      rw [hys]; simp
  · intro hc
    simp only [unixLineDiscard, cursorCol, hc, if_false]
    have hle := lineBefore_le b h
    have := deleteBefore_local b h (lineBefore b).length
    have e : min (lineBefore b).length b.cur = (lineBefore b).length := by omega
    rw [e] at this
    exact ⟨this.1, by rw [this.2, drop_lineBefore b h]⟩

example : unixLineDiscard { text := "ab\ncd".toList, cur := 3 } = ({ text := "abcd".toList, cur := 2 }, ['\n']) := by decide


/-! ### delete-horizontal-space -/

theorem takeWhile_eq_take_length {α} (p : α → Bool) (l : List α) :
    l.takeWhile p = l.take (l.takeWhile p).length := by
  have := @List.takeWhile_append_dropWhile _ p l
  have h2 : (l.takeWhile p ++ l.dropWhile p).take (l.takeWhile p).length = l.takeWhile p :=
    List.take_left' rfl
  rw [this] at h2; exact h2.symm
theorem drop_length_takeWhile {α} (p : α → Bool) (l : List α) :
    l.drop (l.takeWhile p).length = l.dropWhile p := by
  have := @List.takeWhile_append_dropWhile _ p l
  have h2 : (l.takeWhile p ++ l.dropWhile p).drop (l.takeWhile p).length = l.dropWhile p :=
    List.drop_left' rfl
  rw [this] at h2; exact h2

/-- `s.rstrip(chars)` splits `s` into the kept part and the maximal run of `chars` at its end -/
theorem rstrip_split (p : Char → Bool) (l : Text) :
    let m := (l.reverse.takeWhile p).length
    m ≤ l.length ∧ (∀ c ∈ l.drop (l.length - m), p c = true) ∧
    (∀ c, (l.take (l.length - m)).getLast? = some c → p c = false) := by
  intro m
  have hm : m ≤ l.length := by
    have := length_takeWhile_le' p l.reverse; simp at this; exact this
  refine ⟨hm, ?_, ?_⟩
  · intro c hc
    have e : l.drop (l.length - m) = (l.reverse.take m).reverse := by
      rw [List.reverse_take]; simp
    rw [e, List.mem_reverse, ← takeWhile_eq_take_length] at hc
    exact mem_takeWhile_p hc
  · intro c hc
    have e : l.take (l.length - m) = (l.reverse.drop m).reverse := by
      rw [List.reverse_drop]; simp
    rw [e, List.getLast?_reverse, drop_length_takeWhile] at hc
    cases hd : l.reverse.dropWhile p with
    | nil => rw [hd] at hc; simp at hc
    | cons y ys =>
      rw [hd] at hc; simp at hc; subst hc
      exact dropWhile_head hd

/-- `s.lstrip(chars)` -/
theorem lstrip_split (p : Char → Bool) (l : Text) :
    let k := (l.takeWhile p).length
    k ≤ l.length ∧ (∀ c ∈ l.take k, p c = true) ∧ (∀ c, (l.drop k).head? = some c → p c = false) := by
  intro k
  refine ⟨length_takeWhile_le' p l, ?_, ?_⟩
  · intro c hc
    rw [← takeWhile_eq_take_length] at hc
    exact mem_takeWhile_p hc
  · intro c hc
    rw [drop_length_takeWhile] at hc
    cases hd : l.dropWhile p with
    | nil => rw [hd] at hc; simp at hc
    | cons y ys =>
      rw [hd] at hc; simp at hc; subst hc
      exact dropWhile_head hd

/-- `delete-horizontal-space` for any strip sets: exactly the maximal run of `hb`-characters before
    the cursor and the maximal run of `ha`-characters after it go (and are handed back); what is
    left before the cursor does not end, what is left after it does not start with such a character -/
theorem deleteHorizontalSpace_spec (hb ha : List Char) (b : Buf) (h : Inv b) :
    let m := (b.before.reverse.takeWhile (inSet hb)).length
    let k := (b.after.takeWhile (inSet ha)).length
    LocalEdit b (deleteHorizontalSpace hb ha b).1 m k [] ∧
    (deleteHorizontalSpace hb ha b).2 = b.before.drop (b.cur - m) ++ b.after.take k ∧
    (∀ c ∈ b.before.drop (b.cur - m), c ∈ hb) ∧ (∀ c ∈ b.after.take k, c ∈ ha) ∧
    (∀ c, (b.before.take (b.cur - m)).getLast? = some c → c ∉ hb) ∧
    (∀ c, (b.after.drop k).head? = some c → c ∉ ha) := by
  intro m k
  have hl := before_length b h
  obtain ⟨hm, hB1, hB2⟩ := rstrip_split (inSet hb) b.before
  obtain ⟨hk, hA1, hA2⟩ := lstrip_split (inSet ha) b.after
  rw [hl] at hm hB1 hB2
  have h1 := deleteBefore_local b h m
  have e : min m b.cur = m := Nat.min_eq_left hm
  rw [e] at h1
  have hi1 : Inv (deleteBefore b m).1 := deleteBefore_inv b h m
  have hs1 := localEdit_sides h h1.1
  obtain ⟨k', he2, hr2, hk2, _⟩ := deleteI_local (deleteBefore b m).1 hi1 (k : Int)
  have hk' : k' = k := by
    have := hk2 (by omega)
    rw [hs1.2] at this
    simp at this; omega
  subst hk'
  obtain ⟨_, _, ht2, hc2⟩ := he2
  have hc1 : (deleteBefore b m).1.cur = b.cur - m := by have := h1.1.2.2.2; simpa using this
  have hbt : (deleteBefore b m).1.before.take ((deleteBefore b m).1.cur - 0) = b.before.take (b.cur - m) := by
    rw [hs1.1]; simp [hc1, List.take_take]
  refine ⟨⟨hm, hk, ?_, ?_⟩, ?_, ?_, ?_, ?_, ?_⟩
  · show (deleteI (deleteBefore b m).1 k).1.text = _
    rw [ht2, hbt, hs1.2]; simp
  · show (deleteI (deleteBefore b m).1 k).1.cur = _
    rw [hc2, hc1]; simp
  · show (deleteBefore b m).2 ++ (deleteI (deleteBefore b m).1 k).2 = _
    rw [hr2, h1.2, hs1.2]; simp
  · intro c hc; have := hB1 c hc; simpa [inSet] using this
  · intro c hc; have := hA1 c hc; simpa [inSet] using this
  · intro c hc hmem
    have := hB2 c hc
    simp [inSet] at this; exact this hmem
  · intro c hc hmem
    have := hA2 c hc
    simp [inSet] at this; exact this hmem

example : deleteHorizontalSpace ['\t', ' '] ['\t', ' '] { text := "a  \t b".toList, cur := 3 }
    = ({ text := "ab".toList, cur := 1 }, "  \t ".toList) := by decide

end Ptk.C01
