/-
  C04 — `_parse_key` / `KEY_ALIASES` (what `KeyBindings.add` and `remove` do to their key
  arguments) and the Readline numeric argument (`append_to_arg_count`, `KeyPressEvent.arg`).

  The key tables are parameters: every theorem is stated for any alias table and any list of
  `Keys` values satisfying the decidable side conditions `WFKeys`, which the kernel re-decides
  (`gen_ok`) on the tables regenerated from /repo on every run.
-/
import Ptk.Model.C04Keys
namespace Ptk.C04

/-! ### `_parse_key` -/

/-- side conditions on (`KEY_ALIASES`, `Keys`): every alias points to a `Keys` value; no alias
    name is a single character, the word `space`, or itself a `Keys` value; `space` and `" "` are not
    `Keys` values; alias targets are not alias names (no chains) -/
def wfKeys (aliases : List (List Char × List Char)) (values : List (List Char)) : Bool :=
  aliases.all (fun p => values.contains p.2 && p.1.length != 1 && !(p.1 == kwSpace) &&
    !(values.contains p.1) && (lookupAlias aliases p.2).isNone && !(p.2 == kwSpace)) &&
  !(values.contains kwSpace) && !(values.contains [' ']) && (lookupAlias aliases kwSpace).isNone &&
  (lookupAlias aliases [' ']).isNone

def WFKeys (aliases : List (List Char × List Char)) (values : List (List Char)) : Prop :=
  wfKeys aliases values = true

instance (aliases : List (List Char × List Char)) (values : List (List Char)) :
    Decidable (WFKeys aliases values) := inferInstanceAs (Decidable (_ = true))

/-- the tables of the current tree satisfy the side conditions -/
theorem gen_ok : WFKeys Gen.C04.keyAliases Gen.C04.keyValues := by decide +kernel

section
variable {aliases : List (List Char × List Char)} {values : List (List Char)}

theorem lookupAlias_mem {s t : List Char} (h : lookupAlias aliases s = some t) : (s, t) ∈ aliases := by
  induction aliases with
  | nil => simp [lookupAlias] at h
  | cons p ps ih =>
    obtain ⟨a, t'⟩ := p
    simp only [lookupAlias] at h
    split at h
    · next he =>
      have : a = s := by simpa using he
      cases h; subst this; exact List.mem_cons_self ..
    · exact List.mem_cons_of_mem _ (ih h)

theorem WFKeys.alias (wf : WFKeys aliases values) {a t : List Char} (h : lookupAlias aliases a = some t) :
    t ∈ values ∧ a.length ≠ 1 ∧ a ≠ kwSpace ∧ a ∉ values ∧
    lookupAlias aliases t = none ∧ t ≠ kwSpace := by
  have hm := lookupAlias_mem h
  unfold WFKeys wfKeys at wf
  simp only [Bool.and_eq_true, List.all_eq_true] at wf
  have := wf.1.1.1.1 (a, t) hm
  simp only [Bool.and_eq_true, bne_iff_ne, ne_eq, Bool.not_eq_true', beq_eq_false_iff_ne,
    Option.isNone_iff_eq_none, List.contains_iff_mem, List.contains_eq_mem, decide_eq_true_eq,
    decide_eq_false_iff_not] at this
  exact ⟨this.1.1.1.1.1, this.1.1.1.1.2, this.1.1.1.2, this.1.1.2, this.1.2, this.2⟩

theorem WFKeys.space (wf : WFKeys aliases values) :
    kwSpace ∉ values ∧ [' '] ∉ values ∧
    lookupAlias aliases kwSpace = none ∧ lookupAlias aliases [' '] = none := by
  unfold WFKeys wfKeys at wf
  simp only [Bool.and_eq_true, Bool.not_eq_true', Option.isNone_iff_eq_none, List.contains_eq_mem,
    decide_eq_false_iff_not] at wf
  exact ⟨wf.1.1.1.2, wf.1.1.2, wf.1.2, wf.2⟩

/-- a `Keys` member is returned as it is -/
theorem parseKey_enum (v : List Char) : parseKey aliases values (.enum v) = some (.special v) := rfl

theorem classify_mem {k : List Char} (h : k ∈ values) : classify values k = some (.special k) := by
  simp [classify, h]

theorem classify_char {c : Char} (h : [c] ∉ values) : classify values [c] = some (.char c) := by
  simp [classify, h]

theorem classify_none {k : List Char} (h : k ∉ values) (hl : k.length ≠ 1) : classify values k = none := by
  unfold classify
  simp only [List.contains_eq_mem, h, decide_false, Bool.false_eq_true, if_false]
  split
  · simp at hl
  · rfl

theorem parseKey_str (s : List Char) :
    parseKey aliases values (.str s) = classify values (resolveKey aliases s) := rfl

/-- **canonical names**: the value of a `Keys` member parses to that member -/
theorem parseKey_value (wf : WFKeys aliases values) {v : List Char} (hv : v ∈ values)
    (hna : lookupAlias aliases v = none) : parseKey aliases values (.str v) = some (.special v) := by
  have hs : v ≠ kwSpace := fun e => wf.space.1 (e ▸ hv)
  have hr : resolveKey aliases v = v := by simp [resolveKey, hna, hs]
  rw [parseKey_str, hr, classify_mem hv]

/-- **aliases**: an alias name parses to the `Keys` member its target names — the same key as the
    target name itself (`'enter'` is `'c-m'`, `'s-c-left'` is `'c-s-left'`, …) -/
theorem parseKey_alias (wf : WFKeys aliases values) {a t : List Char}
    (h : lookupAlias aliases a = some t) :
    parseKey aliases values (.str a) = some (.special t) ∧
    parseKey aliases values (.str t) = some (.special t) := by
  obtain ⟨hv, _, _, _, hnt, hts⟩ := wf.alias h
  have hr : resolveKey aliases a = t := by simp [resolveKey, h, hts]
  exact ⟨by rw [parseKey_str, hr, classify_mem hv], parseKey_value wf hv hnt⟩

/-- `'space'` is the one-character key `' '` -/
theorem parseKey_space (wf : WFKeys aliases values) :
    parseKey aliases values (.str kwSpace) = some (.char ' ') := by
  obtain ⟨_, h2, h3, _⟩ := wf.space
  have hr : resolveKey aliases kwSpace = [' '] := by simp [resolveKey, h3]
  rw [parseKey_str, hr, classify_char h2]

/-- a one-character string that is neither an alias nor a `Keys` value is that character -/
theorem parseKey_char {c : Char} (hna : lookupAlias aliases [c] = none)
    (hnv : [c] ∉ values) (hs : [c] ≠ kwSpace) :
    parseKey aliases values (.str [c]) = some (.char c) := by
  have hr : resolveKey aliases [c] = [c] := by simp [resolveKey, hna, hs]
  rw [parseKey_str, hr, classify_char hnv]

/-- **exactly when `_parse_key` raises**: the string (after alias and `space` replacement) is not
    a `Keys` value and is not one character long -/
theorem parseKey_none_iff (s : List Char) :
    parseKey aliases values (.str s) = none ↔
      resolveKey aliases s ∉ values ∧ (resolveKey aliases s).length ≠ 1 := by
  rw [parseKey_str]
  by_cases hv : resolveKey aliases s ∈ values
  · simp [classify_mem hv, hv]
  · by_cases hl : (resolveKey aliases s).length = 1
    · obtain ⟨c, hc⟩ := List.length_eq_one_iff.mp hl
      rw [hc] at hv ⊢
      simp [classify_char hv]
    · simp [classify_none hv hl, hv, hl]

/-- a successful parse yields a key that exists: a `Keys` value or a single character that is
    not a `Keys` value -/
theorem parseKey_sound {r : RawKey} {k : PKey} (h : parseKey aliases values r = some k) :
    (∃ v, k = .special v ∧ (r = .enum v ∨ v ∈ values)) ∨
    (∃ c, k = .char c ∧ [c] ∉ values) := by
  cases r with
  | enum v => simp [parseKey] at h; exact Or.inl ⟨v, h.symm, Or.inl rfl⟩
  | str s =>
    rw [parseKey_str] at h
    by_cases hv : resolveKey aliases s ∈ values
    · rw [classify_mem hv] at h; cases h; exact Or.inl ⟨_, rfl, Or.inr hv⟩
    · by_cases hl : (resolveKey aliases s).length = 1
      · obtain ⟨c, hc⟩ := List.length_eq_one_iff.mp hl
        rw [hc] at hv h
        rw [classify_char hv] at h; cases h
        exact Or.inr ⟨c, rfl, hv⟩
      · rw [classify_none hv hl] at h; cases h

/-- how a parsed key is written again -/
def PKey.toRaw : PKey → RawKey
  | .special v => .enum v
  | .char c => .str [c]

/-- **`add` normalises**: the keys stored in a binding are fixed points of `_parse_key` — parsing
    a parsed key again gives the same key (so `remove('enter')` finds what `add('c-m')` stored,
    and a stored key is never re-interpreted) -/
theorem parseKey_idem (wf : WFKeys aliases values) {r : RawKey} {k : PKey}
    (h : parseKey aliases values r = some k) : parseKey aliases values k.toRaw = some k := by
  rcases parseKey_sound h with ⟨v, rfl, _⟩ | ⟨c, rfl, hnv⟩
  · rfl
  · show parseKey aliases values (.str [c]) = some (.char c)
    have hna : lookupAlias aliases [c] = none := by
      cases hl : lookupAlias aliases [c] with
      | none => rfl
      | some t => exact absurd rfl (wf.alias hl).2.1
    by_cases hs : [c] = kwSpace
    · simp [kwSpace] at hs
    · exact parseKey_char hna hnv hs

/-- `add(*keys)` parses every key (and fails as a whole when one of them is invalid) -/
theorem parseKeys_all {rs : List RawKey} {ks : List PKey}
    (h : parseKeys aliases values rs = some ks) :
    rs.length = ks.length ∧ ∀ p ∈ rs.zip ks, parseKey aliases values p.1 = some p.2 := by
  induction rs generalizing ks with
  | nil => simp [parseKeys] at h; subst h; simp
  | cons r rs ih =>
    simp only [parseKeys] at h
    cases h1 : parseKey aliases values r with
    | none => simp [h1] at h
    | some k =>
      cases h2 : parseKeys aliases values rs with
      | none => simp [h1, h2] at h
      | some ks' =>
        simp [h1, h2] at h; subst h
        obtain ⟨i1, i2⟩ := ih h2
        refine ⟨by simp [i1], ?_⟩
        intro p hp
        simp only [List.zip_cons_cons, List.mem_cons] at hp
        rcases hp with rfl | hp
        · exact h1
        · exact i2 p hp
end

/-- non-vacuity on the generated tables: `enter` and `c-m` are the same key, `space` is `' '`,
    `xx` is rejected -/
example : parseKey Gen.C04.keyAliases Gen.C04.keyValues (.str "enter".toList) =
    parseKey Gen.C04.keyAliases Gen.C04.keyValues (.str "c-m".toList) := by decide +kernel
example : lookupAlias Gen.C04.keyAliases "enter".toList = some "c-m".toList := by decide +kernel
example : parseKey Gen.C04.keyAliases Gen.C04.keyValues (.str "xx".toList) = none := by decide +kernel

/-! ### the numeric argument -/

/-- the strings `key_processor.arg` can hold: `-`, digits, or `-` followed by digits -/
def ArgOK (s : List Char) : Prop :=
  s = ['-'] ∨ (s ≠ [] ∧ s.all isDigitC = true) ∨ ∃ ds, s = '-' :: ds ∧ ds ≠ [] ∧ ds.all isDigitC = true

/-- **accumulation**: starting from no argument, whatever is typed through
    `append_to_arg_count`, the argument stays of that shape; a digit is appended at the end, a
    `-` is only accepted as (repeated) first character -/
theorem appendArg_ok {cur : Arg} {d : Char} {s : List Char} (hc : ∀ c, cur = some c → ArgOK c)
    (h : appendArg cur d = some s) :
    ArgOK s ∧ ((d = '-' ∧ s = ['-'] ∧ (cur = none ∨ cur = some ['-'])) ∨
               (isDigitC d = true ∧ s = cur.getD [] ++ [d])) := by
  unfold appendArg at h
  split at h
  · cases h
  · next hd =>
    split at h
    · next hm =>
      have hm : d = '-' := by simpa using hm
      cases cur with
      | none => simp at h; subst h; exact ⟨Or.inl rfl, Or.inl ⟨hm, rfl, Or.inl rfl⟩⟩
      | some c =>
        simp only [] at h
        split at h
        · next hcm =>
          have hcm : c = ['-'] := by simpa using hcm
          cases h; exact ⟨Or.inl rfl, Or.inl ⟨hm, rfl, Or.inr (by rw [hcm])⟩⟩
        · cases h
    · next hm =>
      have hdig : isDigitC d = true := by
        simp only [Bool.not_eq_true', Bool.or_eq_false_iff, not_and, Bool.not_eq_false] at hd
        cases hq : (d == '-') with
        | true => exact absurd hq hm
        | false =>
          cases hq2 : isDigitC d with
          | true => rfl
          | false => simp [hq, hq2] at hd
      cases cur with
      | none =>
        simp at h; subst h
        exact ⟨Or.inr (Or.inl ⟨by simp, by simp [hdig]⟩), Or.inr ⟨hdig, rfl⟩⟩
      | some c =>
        simp at h; subst h
        refine ⟨?_, Or.inr ⟨hdig, rfl⟩⟩
        rcases hc c rfl with rfl | ⟨hne, hall⟩ | ⟨ds, rfl, hne, hall⟩
        · exact Or.inr (Or.inr ⟨[d], rfl, by simp, by simp [hdig]⟩)
        · exact Or.inr (Or.inl ⟨by simp, by simp [List.all_append, hall, hdig]⟩)
        · exact Or.inr (Or.inr ⟨ds ++ [d], rfl, by simp, by simp [List.all_append, hall, hdig]⟩)

/-- the typed characters, in order: folding `append_to_arg_count` over digits `ds` from no
    argument leaves exactly `ds` -/
theorem appendArg_digits (ds : List Char) (hd : ds.all isDigitC = true) (pre : List Char) :
    ds.foldl (fun (acc : Option Arg) d => acc.bind fun a => (appendArg a d).map some)
      (some (some pre)) = some (some (pre ++ ds)) := by
  induction ds generalizing pre with
  | nil => simp
  | cons d ds ih =>
    simp only [List.all_cons, Bool.and_eq_true] at hd
    have hnm : (d == '-') = false := by
      have := hd.1; simp [isDigitC] at this
      cases hq : (d == '-') with
      | false => rfl
      | true =>
        have : d = '-' := by simpa using hq
        subst this; simp at *
    have : appendArg (some pre) d = some (pre ++ [d]) := by
      simp [appendArg, hd.1, hnm]
    simp only [List.foldl_cons, Option.bind_some, this, Option.map_some]
    rw [ih hd.2 (pre ++ [d])]
    simp

theorem digitsVal_append (ds : List Char) (d : Char) (acc : Nat) :
    digitsVal (ds ++ [d]) acc = digitsVal ds acc * 10 + (d.toNat - '0'.toNat) := by
  induction ds generalizing acc with
  | nil => simp [digitsVal]
  | cons c cs ih => simp [digitsVal, ih]

/-- **the value handlers see** (`event.arg`): 1 without an argument, −1 for a lone `-`, otherwise
    the decimal value of the digits (negated after `-`) — except that a value of `cap` (one
    million) or more is replaced by 1.  It is never `≥ cap`. -/
theorem argValue_spec (cap : Nat) (hcap : 2 ≤ cap) :
    argValue cap none = some 1 ∧ argValue cap (some ['-']) = some (-1) ∧
    (∀ ds, ds ≠ [] → ds.all isDigitC = true →
      argValue cap (some ds) = some (if digitsVal ds 0 ≥ cap then 1 else (digitsVal ds 0 : Int))) ∧
    (∀ ds, ds ≠ [] → ds.all isDigitC = true →
      argValue cap (some ('-' :: ds)) = some (-(digitsVal ds 0 : Int))) := by
  refine ⟨rfl, by simp [argValue], ?_, ?_⟩
  · intro ds hne hall
    have h1 : ¬ ds = ['-'] := by
      intro e; rw [e] at hall; simp [isDigitC] at hall
    have hnotminus : ∀ c cs, ds = c :: cs → c ≠ '-' := by
      intro c cs e hc; rw [e, hc] at hall; simp [isDigitC] at hall
    have hpy : pyInt ds = some (digitsVal ds 0 : Int) := by
      cases ds with
      | nil => exact absurd rfl hne
      | cons c cs =>
        have := hnotminus c cs rfl
        unfold pyInt
        split
        · next ds' heq => cases heq; exact absurd rfl this
        · simp [hall]
    simp only [argValue, beq_iff_eq, h1, if_false, List.isEmpty_iff, hne, hpy]
    by_cases hc : digitsVal ds 0 ≥ cap
    · have : ((digitsVal ds 0 : Nat) : Int) ≥ (cap : Int) := by exact_mod_cast hc
      simp [hc, this]
    · have : ¬ ((digitsVal ds 0 : Nat) : Int) ≥ (cap : Int) := by
        intro h; exact hc (by exact_mod_cast h)
      simp [hc, this]
  · intro ds hne hall
    have h1 : ¬ ('-' :: ds) = ['-'] := by simpa using hne
    have hpy : pyInt ('-' :: ds) = some (-(digitsVal ds 0 : Int)) := by
      simp [pyInt, hne, hall]
    simp only [argValue, beq_iff_eq, h1, if_false, List.isEmpty_cons, Bool.false_eq_true, hpy]
    have : ¬ (-(digitsVal ds 0 : Int)) ≥ (cap : Int) := by omega
    simp [this]

/-- for every well-shaped argument the value is defined and below the cap -/
theorem argValue_lt_cap (cap : Nat) (hcap : 2 ≤ cap) (a : Arg) (ha : ∀ c, a = some c → ArgOK c) :
    ∃ v, argValue cap a = some v ∧ v < cap := by
  obtain ⟨h0, h1, h2, h3⟩ := argValue_spec cap hcap
  cases a with
  | none => exact ⟨1, h0, by omega⟩
  | some c =>
    rcases ha c rfl with rfl | ⟨hne, hall⟩ | ⟨ds, rfl, hne, hall⟩
    · exact ⟨-1, h1, by omega⟩
    · refine ⟨_, h2 c hne hall, ?_⟩
      split <;> omega
    · exact ⟨_, h3 ds hne hall, by omega⟩

/-- non-vacuity: `1 2` is twelve, `- 5` is minus five, a million is 1, `5 -` is refused -/
example : argValue Gen.C04.argCap (some "12".toList) = some 12 ∧
    argValue Gen.C04.argCap (some "-5".toList) = some (-5) ∧
    argValue Gen.C04.argCap (some "1000000".toList) = some 1 ∧
    argValue Gen.C04.argCap (some "999999".toList) = some 999999 ∧
    appendArg (some "5".toList) '-' = none ∧ appendArg none '-' = some ['-'] ∧
    appendArg (some ['-']) '5' = some "-5".toList := by decide
theorem argCap_ok : 2 ≤ Gen.C04.argCap := by decide

end Ptk.C04
