/-
  Cross-model agreement, cluster "undo stack, validation and the one-at-a-time coroutine guard
  (buffer.py), typeahead and parser glue": root module.

    AgreeCtlUndo    Buffer.save_to_undo_stack / undo / redo / reset and the save_before boundary of
                    KeyProcessor._call_handler: C07 (canonical) vs C05
    AgreeCtlUndoVi  the same boundary in Vi mode (`_fix_vi_cursor_position` after the handler)
    AgreeCtlVal     validation_state / validation_error, _text_changed, Buffer.validate, reset,
                    _validate_async cut at its await, async_validator, _only_one_at_a_time:
                    C14 (canonical) vs C15
    AgreeCtlAccept  Buffer.validate_and_handle / validate(set_cursor=True), cached verdict:
                    C14 vs C05 and C14 vs C17 (second layer, concrete emacs registry)
    AgreeCtlTA      input/typeahead.py (store / get / clear): C03 vs C17 (store keyed by hash, and the
                    single-input field of the first layer)
    AgreeCtlPaste   Vt100Parser.feed / _call_handler: C17's paste layer instantiated with C03's
                    normal-mode generator IS C03's feed (state projection + equal key output)
    AgreeCtlRead    Vt100Input.read_keys: C03 (reader + parser) vs C17 (`.read` event of the paste layer)
    AgreeCtlParser  _input_parser_generator / _get_match / _IsPrefixOfLongerMatchCache / regexes:
                    C17's concrete generator vs C03's; the two regenerated sequence tables agree
-/
import Ptk.Props.AgreeCtlUndo
import Ptk.Props.AgreeCtlUndoVi
import Ptk.Props.AgreeCtlVal
import Ptk.Props.AgreeCtlAccept
import Ptk.Props.AgreeCtlTA
import Ptk.Props.AgreeCtlPaste
import Ptk.Props.AgreeCtlRead
import Ptk.Props.AgreeCtlParser
