/-
  C12 — property theorems for the size division of split containers (`Ptk.Model.C12`).

  "Fuel" convention: the Python loops run until their condition fails; the model runs them
  with a fuel bound and answers `.hang` when the fuel is exhausted.  `divide_terminates`
  shows that for every list of valid dimensions (weights may be 0) a fuel exists from which on
  the answer is never `.hang`, and `divide_fuel_independent` that the answer does not depend on
  the fuel.  All other theorems are stated for an arbitrary fuel and an `.ok` answer.
-/
import Ptk.Props.C12Grow
import Mathlib.Data.List.Forall2
namespace Ptk.C12

/-- what `Dimension.__init__` guarantees -/
def Dim.Valid (d : Dim) : Prop := d.min ≤ d.pref ∧ d.pref ≤ d.max

def ValidDims (dims : List Dim) : Prop := ∀ d ∈ dims, d.Valid

/-! ### dimension algebra -/

/-- `Dimension(...)` either raises or yields min ≤ preferred ≤ max. -/
theorem mkDim_valid {mn mx w pr : Option Nat} {d : Dim} (h : mkDim mn mx w pr = some d) :
    d.Valid := by
  unfold mkDim at h
  simp only at h
  split_ifs at h <;> simp only [Option.some.injEq] at h <;> subst h <;>
    simp only [Dim.Valid] <;> omega

/-- `Dimension(...)` raises exactly when max < min. -/
theorem mkDim_none_iff (mn mx w pr : Option Nat) :
    mkDim mn mx w pr = none ↔ mx.getD Gen.C12.defaultMax < mn.getD Gen.C12.defaultMin := by
  unfold mkDim
  simp only
  split_ifs with h <;> simp [h]

example : mkDim (some 3) (some 2) none none = none := by decide
example : mkDim (some 1) (some 4) (some 0) (some 9) = some ⟨1, 4, 4, 0⟩ := by decide

/-- A window whose height/width is given as a `Dimension` reports exactly that dimension
    (`Window._merge_dimensions` rebuilds it from its specified fields). -/
theorem windowDim_eq_mkDim (mn mx w pr : Option Nat) : windowDim mn mx w pr = mkDim mn mx w pr := by
  unfold windowDim
  rcases h : mkDim mn mx w pr with _ | d
  · rfl
  · have hv := mkDim_valid h
    unfold Dim.Valid at hv
    -- the fields of `d` in terms of the arguments
    have hd : d.min = mn.getD Gen.C12.defaultMin ∧ d.max = mx.getD Gen.C12.defaultMax ∧
        d.weight = w.getD Gen.C12.defaultWeight ∧ (pr = none → d.pref = d.min) := by
      unfold mkDim at h
      simp only at h
      split_ifs at h <;> simp only [Option.some.injEq] at h <;> subst h <;>
        refine ⟨rfl, rfl, rfl, ?_⟩ <;> intro hp <;> subst hp <;>
        simp only [Option.getD_none] at * <;> omega
    obtain ⟨h1, h2, h3, h4⟩ := hd
    have hmin : (mn.map fun _ => d.min).getD Gen.C12.defaultMin = d.min := by
      cases mn <;> simp [h1]
    have hmax : (mx.map fun _ => d.max).getD Gen.C12.defaultMax = d.max := by
      cases mx <;> simp [h2]
    have hclamp : clampSpec d.pref d mn mx = d.pref := by
      unfold clampSpec
      simp only [Nat.min_def, Nat.max_def]
      split_ifs <;> omega
    have hp : (pr.map fun _ => clampSpec d.pref d mn mx).getD d.min = d.pref := by
      rw [hclamp]
      cases pr with
      | none => simp [h4]
      | some v => simp
    simp only
    unfold mkDim
    simp only [hmin, hmax, hp, Option.getD_some]
    have a : ¬ d.max < d.min := by omega
    have b : ¬ d.pref < d.min := by omega
    have c : ¬ d.pref > d.max := by omega
    simp only [if_neg a, if_neg b, if_neg c]

theorem sumOf_le {f g : Dim → Nat} {dims : List Dim} (h : ∀ d ∈ dims, f d ≤ g d) :
    sumOf f dims ≤ sumOf g dims := by
  unfold sumOf
  induction dims with
  | nil => simp
  | cons d ds ih =>
    simp only [List.map_cons, List.sum_cons]
    have := h d List.mem_cons_self
    have := ih (fun x hx => h x (List.mem_cons_of_mem _ hx))
    omega

/-- `sum_layout_dimensions` of valid dimensions never raises and is the componentwise sum. -/
theorem sumDims_eq {dims : List Dim} (hv : ValidDims dims) :
    sumDims dims = some ⟨sumOf (·.min) dims, sumOf (·.pref) dims, sumOf (·.max) dims,
      Gen.C12.defaultWeight⟩ := by
  have h1 : sumOf (·.min) dims ≤ sumOf (·.pref) dims := sumOf_le fun d hd => (hv d hd).1
  have h2 : sumOf (·.pref) dims ≤ sumOf (·.max) dims := sumOf_le fun d hd => (hv d hd).2
  have a : ¬ sumOf (·.max) dims < sumOf (·.min) dims := by omega
  have b : ¬ sumOf (·.pref) dims < sumOf (·.min) dims := by omega
  have c : ¬ sumOf (·.pref) dims > sumOf (·.max) dims := by omega
  unfold sumDims mkDim
  simp only [Option.getD_some, Option.getD_none]
  rw [if_neg a, if_neg b, if_neg c]

example : ValidDims [⟨0, 5, 9, 0⟩, ⟨1, 1, 1, 3⟩] := by
  intro d hd; simp at hd; rcases hd with rfl | rfl <;> simp [Dim.Valid]

theorem mkDim_some_of_le {mn mx : Nat} (w pr : Option Nat) (h : mn ≤ mx) :
    ∃ d, mkDim (some mn) (some mx) w pr = some d ∧ d.min = mn ∧ d.max = mx ∧
      (pr.getD mn ≤ mx → mn ≤ pr.getD mn → d.pref = pr.getD mn) := by
  unfold mkDim
  simp only [Option.getD_some]
  rw [if_neg (by omega)]
  refine ⟨_, rfl, rfl, rfl, ?_⟩
  intro h1 h2
  simp only
  split_ifs <;> omega

theorem maxDimsNZ_some (nz : List Dim) :
    ∃ d, maxDimsNZ nz = some d ∧ d.Valid ∧ d.min = maxOf (nz.map (·.min)) ∧
      (d.pref = maxOf (nz.map (·.pref)) ∨ d.pref = d.min) := by
  unfold maxDimsNZ
  simp only
  generalize maxOf (nz.map (·.min)) = mn
  generalize maxOf (nz.map (·.pref)) = pr
  generalize minOf (nz.map (·.max)) = m0
  have hle : mn ≤ (if mn > Nat.max m0 pr then mn else Nat.max m0 pr) := by split_ifs <;> omega
  obtain ⟨d, h1, h2, h3, h4⟩ := mkDim_some_of_le none (some pr) hle
  refine ⟨d, h1, mkDim_valid h1, h2, ?_⟩
  simp only [Option.getD_some] at h4
  by_cases hp : mn ≤ pr
  · left
    apply h4 _ hp
    have : pr ≤ Nat.max m0 pr := Nat.le_max_right _ _
    split_ifs <;> omega
  · right
    -- preferred below the highest minimum: clamped up to it
    unfold mkDim at h1
    simp only [Option.getD_some] at h1
    split_ifs at h1 <;> simp only [Option.some.injEq] at h1 <;> subst h1 <;> simp only <;> omega

/-- `max_layout_dimensions` of valid dimensions never raises and yields a valid dimension
    (used for the cross axis: `HSplit.preferred_width`, `VSplit.preferred_height`). -/
theorem maxDims_valid {ds : List Dim} (hv : ValidDims ds) :
    ∃ d, maxDims ds = some d ∧ d.Valid := by
  unfold maxDims
  cases ds with
  | nil =>
    refine ⟨⟨0, 0, 0, Gen.C12.defaultWeight⟩, by decide, by simp [Dim.Valid]⟩
  | cons d0 rest =>
    simp only
    by_cases hz : (d0 :: rest).all Dim.isZero = true
    · rw [if_pos hz]; exact ⟨d0, rfl, hv d0 List.mem_cons_self⟩
    · rw [if_neg hz]
      by_cases he : (List.filter (fun d => !d.isZero) (d0 :: rest)).isEmpty = true
      · rw [if_pos he]
        rcases h : mkDim none none none none with _ | d
        · exact absurd h (by decide)
        · exact ⟨d, rfl, mkDim_valid h⟩
      · rw [if_neg he]
        obtain ⟨d, h1, h2, _⟩ := maxDimsNZ_some (List.filter (fun d => !d.isZero) (d0 :: rest))
        exact ⟨d, h1, h2⟩

/-- the maximum dimension has at least the minimum of every non-empty child -/
theorem maxDims_min_ge {ds : List Dim} {d r : Dim} (hd : d ∈ ds) (hnz : d.isZero = false)
    (h : maxDims ds = some r) : d.min ≤ r.min := by
  unfold maxDims at h
  cases ds with
  | nil => simp at hd
  | cons d0 rest =>
    simp only at h
    have hmem : d ∈ List.filter (fun d => !d.isZero) (d0 :: rest) := by
      rw [List.mem_filter]; exact ⟨hd, by simp [hnz]⟩
    by_cases hz : (d0 :: rest).all Dim.isZero = true
    · rw [List.all_eq_true] at hz
      have := hz d hd
      rw [hnz] at this; cases this
    · rw [if_neg hz] at h
      by_cases he : (List.filter (fun d => !d.isZero) (d0 :: rest)).isEmpty = true
      · rw [List.isEmpty_iff] at he
        rw [he] at hmem; simp at hmem
      · rw [if_neg he] at h
        obtain ⟨d', h1, _, h3, _⟩ := maxDimsNZ_some (List.filter (fun d => !d.isZero) (d0 :: rest))
        rw [h1] at h
        simp only [Option.some.injEq] at h
        subst h
        rw [h3]
        exact le_maxOf (List.mem_map_of_mem hmem)

example : maxDims [⟨1, 2, 5, 1⟩, ⟨3, 4, 9, 2⟩, ⟨0, 0, 0, 1⟩] = some ⟨3, 4, 5, 1⟩ := by decide
example : maxDims [⟨0, 0, 7, 3⟩, ⟨0, 2, 0, 1⟩] = some ⟨0, 0, 7, 3⟩ := by decide

/-! ### list bookkeeping -/

theorem map_getD_lt {α : Type} (f : α → Nat) (l : List α) {i : Nat} (h : i < l.length) :
    (l.map f).getD i 0 = f l[i] := by
  rw [List.getD_eq_getElem?_getD]; simp [h]

theorem map_getD_ge {α : Type} (f : α → Nat) (l : List α) {i : Nat} (h : l.length ≤ i) :
    (l.map f).getD i 0 = 0 := by
  rw [List.getD_eq_getElem?_getD]; simp [h]

/-- `Σ_{i<n} (lim_i - s_i) + Σ s = Σ lim` when `s ≤ lim` pointwise -/
theorem range_cap_sum : ∀ (s lim : List Nat), s.length = lim.length →
    (∀ i, s.getD i 0 ≤ lim.getD i 0) →
    ((List.range s.length).map fun i => lim.getD i 0 - s.getD i 0).sum + s.sum = lim.sum := by
  intro s
  induction s with
  | nil => intro lim hl _; cases lim <;> simp at hl ⊢
  | cons a s ih =>
    intro lim hl hle
    cases lim with
    | nil => simp at hl
    | cons b lim =>
      have h0 := hle 0
      simp only [List.getD_cons_zero] at h0
      have := ih lim (by simpa using hl) (fun i => by simpa using hle (i + 1))
      simp only [List.length_cons, List.range_succ_eq_map, List.map_cons, List.map_map,
        List.sum_cons, List.getD_cons_zero]
      have hcomp : ((fun i => (b :: lim).getD i 0 - (a :: s).getD i 0) ∘ Nat.succ)
          = fun i => lim.getD i 0 - s.getD i 0 := by
        funext i; simp
      rw [hcomp]
      omega

theorem eq_of_le_of_sum_eq : ∀ (l1 l2 : List Nat), l1.length = l2.length →
    (∀ i, l1.getD i 0 ≤ l2.getD i 0) → l1.sum = l2.sum → l1 = l2 := by
  intro l1
  induction l1 with
  | nil => intro l2 hl _ _; cases l2 <;> simp at hl ⊢
  | cons a l1 ih =>
    intro l2 hl hle hs
    cases l2 with
    | nil => simp at hl
    | cons b l2 =>
      have h0 := hle 0
      simp only [List.getD_cons_zero] at h0
      have hle' : ∀ i, l1.getD i 0 ≤ l2.getD i 0 := fun i => by simpa using hle (i + 1)
      have hsum : l1.sum ≤ l2.sum := by
        have := range_cap_sum l1 l2 (by simpa using hl) hle'
        omega
      simp only [List.sum_cons] at hs
      have hab : a = b := by omega
      subst hab
      rw [ih l2 (by simpa using hl) hle' (by omega)]

theorem totalCap_congr {s lim : List Nat} {gens gens' : List (List Nat × Gen)}
    (h : gens'.map (·.1) = gens.map (·.1)) : totalCap s lim gens' = totalCap s lim gens := by
  have e : ∀ g : List (List Nat × Gen), totalCap s lim g = ((g.map (·.1)).map (capOf s lim)).sum := by
    intro g; unfold totalCap; rw [List.map_map]; rfl
  rw [e, e, h]

/-! ### the two phases of `divide` -/

/-- everything a finished `divide` guarantees, in index form -/
theorem divide_ok_spec {dims : List Dim} (hv : ValidDims dims) {F avail : Nat} {toMax : Bool}
    {sizes : List Nat} (h : divide F dims avail toMax = .ok sizes) :
    sumOf (·.min) dims ≤ avail ∧ sizes.length = dims.length ∧
    (∀ i, (dims.map (·.min)).getD i 0 ≤ sizes.getD i 0) ∧
    (∀ i, sizes.getD i 0 ≤ (dims.map (·.max)).getD i 0) ∧
    sizes.sum = Nat.min avail (if toMax then sumOf (·.max) dims else sumOf (·.pref) dims) ∧
    (avail ≤ sumOf (·.pref) dims → ∀ i, sizes.getD i 0 ≤ (dims.map (·.pref)).getD i 0) ∧
    (sumOf (·.pref) dims ≤ avail → ∀ i, (dims.map (·.pref)).getD i 0 ≤ sizes.getD i 0) := by
  have hmp : sumOf (·.min) dims ≤ sumOf (·.pref) dims := sumOf_le fun d hd => (hv d hd).1
  have hpm : sumOf (·.pref) dims ≤ sumOf (·.max) dims := sumOf_le fun d hd => (hv d hd).2
  -- pointwise facts about the three columns
  have col_mp : ∀ i, (dims.map (·.min)).getD i 0 ≤ (dims.map (·.pref)).getD i 0 := by
    intro i
    by_cases hi : i < dims.length
    · rw [map_getD_lt _ _ hi, map_getD_lt _ _ hi]; exact (hv _ (List.getElem_mem hi)).1
    · rw [map_getD_ge _ _ (by omega), map_getD_ge _ _ (by omega)]
  have col_pm : ∀ i, (dims.map (·.pref)).getD i 0 ≤ (dims.map (·.max)).getD i 0 := by
    intro i
    by_cases hi : i < dims.length
    · rw [map_getD_lt _ _ hi, map_getD_lt _ _ hi]; exact (hv _ (List.getElem_mem hi)).2
    · rw [map_getD_ge _ _ (by omega), map_getD_ge _ _ (by omega)]
  unfold divide at h
  rw [sumDims_eq hv] at h
  simp only at h
  by_cases hsmall : sumOf (·.min) dims > avail
  · rw [if_pos hsmall] at h; cases h
  rw [if_neg hsmall] at h
  have havail : sumOf (·.min) dims ≤ avail := by omega
  rcases h1 : growSizes F (dims.map (·.pref)) (Nat.min avail (sumOf (·.pref) dims))
      (dims.map (·.min)) (childGenerators dims) with _ | ⟨s1, gens1⟩
  · rw [h1] at h; cases h
  rw [h1] at h
  simp only at h
  -- phase 1
  have hstop1 : (dims.map (·.min)).sum ≤ Nat.min avail (sumOf (·.pref) dims) := by
    show sumOf (·.min) dims ≤ _
    simp only [Nat.min_def]; split_ifs <;> omega
  obtain ⟨ok1, grp1, len1, sum1, ge1, le1, _⟩ :=
    growSizes_spec dims.length (dims.map (·.pref)) _ F (childGenerators dims) (dims.map (·.min))
      s1 gens1 (childGenerators_ok dims) (by simp) hstop1 h1
  have hcap1 := range_cap_sum (dims.map (·.min)) (dims.map (·.pref)) (by simp) col_mp
  rw [childGenerators_totalCap] at sum1
  simp only [List.length_map] at hcap1
  have e1 : (dims.map (·.min)).sum = sumOf (·.min) dims := rfl
  have e2 : (dims.map (·.pref)).sum = sumOf (·.pref) dims := rfl
  have e3 : (dims.map (·.max)).sum = sumOf (·.max) dims := rfl
  have hs1 : s1.sum = Nat.min avail (sumOf (·.pref) dims) := by
    rw [sum1]
    simp only [Nat.min_def]; split_ifs <;> omega
  have s1_le_pref : ∀ i, s1.getD i 0 ≤ (dims.map (·.pref)).getD i 0 := by
    intro i; have := le1 i; have := col_mp i; omega
  -- `Σ pref ≤ avail`: phase 1 reaches every preferred size
  have s1_eq_pref : sumOf (·.pref) dims ≤ avail → s1 = dims.map (·.pref) := by
    intro hle
    apply eq_of_le_of_sum_eq _ _ (by simp [len1]) s1_le_pref
    rw [hs1, e2]
    simp only [Nat.min_def]; split_ifs <;> omega
  unfold phase2 at h
  cases toMax with
  | false =>
    simp only [Bool.false_eq_true, if_false, Outcome.ok.injEq] at h
    subst h
    refine ⟨havail, len1, ge1, fun i => le_trans (s1_le_pref i) (col_pm i), ?_, fun _ => s1_le_pref, ?_⟩
    · simpa using hs1
    · intro hle i; rw [s1_eq_pref hle]
  | true =>
    simp only [if_true] at h
    rcases h2 : growSizes F (dims.map (·.max)) (Nat.min avail (sumOf (·.max) dims)) s1 gens1
      with _ | ⟨s2, gens2⟩
    · rw [h2] at h; cases h
    rw [h2] at h
    simp only [Outcome.ok.injEq] at h
    subst h
    have hstop2 : s1.sum ≤ Nat.min avail (sumOf (·.max) dims) := by
      rw [hs1]; simp only [Nat.min_def]; split_ifs <;> omega
    obtain ⟨_, _, len2, sum2, ge2, le2, _⟩ :=
      growSizes_spec dims.length (dims.map (·.max)) _ F gens1 s1 s2 gens2 ok1 len1 hstop2 h2
    have s1_le_max : ∀ i, s1.getD i 0 ≤ (dims.map (·.max)).getD i 0 :=
      fun i => le_trans (s1_le_pref i) (col_pm i)
    have hcap2 := range_cap_sum s1 (dims.map (·.max)) (by simp [len1]) s1_le_max
    rw [totalCap_congr grp1, childGenerators_totalCap] at sum2
    rw [len1] at hcap2
    have hs2 : s2.sum = Nat.min avail (sumOf (·.max) dims) := by
      rw [sum2]
      simp only [Nat.min_def]; split_ifs <;> omega
    refine ⟨havail, len2, fun i => le_trans (ge1 i) (ge2 i), ?_, ?_, ?_, ?_⟩
    · intro i; have := le2 i; have := s1_le_max i; omega
    · simpa using hs2
    · -- the preferred sizes do not fit: phase 2 has nothing to hand out
      intro hle i
      have : s1 = s2 := by
        apply eq_of_le_of_sum_eq _ _ (by rw [len1, len2]) ge2
        rw [hs1, hs2]
        simp only [Nat.min_def]; split_ifs <;> omega
      rw [← this]; exact s1_le_pref i
    · intro hle i
      rw [← s1_eq_pref hle]; exact ge2 i

/-! ### the property theorems -/

/-- **Too small**: `None` is returned exactly when the minimum sizes do not fit
    (for every fuel; the test precedes all loops). -/
theorem phase2_ne (fuel : Nat) (dims : List Dim) (stop2 : Nat) (toMax : Bool) (sizes : List Nat)
    (gens : List (List Nat × Gen)) :
    phase2 fuel dims stop2 toMax sizes gens ≠ .tooSmall ∧
    phase2 fuel dims stop2 toMax sizes gens ≠ .error := by
  unfold phase2
  cases toMax
  · simp
  · simp only [if_true]
    generalize growSizes fuel (dims.map (·.max)) stop2 sizes gens = o
    cases o <;> simp

theorem tooSmall_iff {dims : List Dim} (hv : ValidDims dims) (F avail : Nat) (toMax : Bool) :
    divide F dims avail toMax = .tooSmall ↔ avail < sumOf (·.min) dims := by
  unfold divide
  rw [sumDims_eq hv]
  simp only
  by_cases h : sumOf (·.min) dims > avail
  · rw [if_pos h]; simp; omega
  · rw [if_neg h]
    constructor
    · intro h'
      rcases h1 : growSizes F (dims.map (·.pref)) (Nat.min avail (sumOf (·.pref) dims))
          (dims.map (·.min)) (childGenerators dims) with _ | r
      · rw [h1] at h'; cases h'
      · rw [h1] at h'; exact absurd h' (phase2_ne _ _ _ _ _ _).1
    · intro h'; omega

/-- valid dimensions never make `sum_layout_dimensions` raise inside `divide` -/
theorem divide_no_error {dims : List Dim} (hv : ValidDims dims) (F avail : Nat) (toMax : Bool) :
    divide F dims avail toMax ≠ .error := by
  unfold divide
  rw [sumDims_eq hv]
  simp only
  by_cases h : sumOf (·.min) dims > avail
  · rw [if_pos h]; simp
  · rw [if_neg h]
    rcases h1 : growSizes F (dims.map (·.pref)) (Nat.min avail (sumOf (·.pref) dims))
        (dims.map (·.min)) (childGenerators dims) with _ | r
    · rw [h1]; simp
    · rw [h1]; exact (phase2_ne _ _ _ _ _ _).2

/-- **Termination**: for every list of valid dimensions — weights may be 0, all of them may be
    0 — and every available size there is a fuel from which on the division finishes. -/
theorem divide_terminates {dims : List Dim} (hv : ValidDims dims) (avail : Nat) (toMax : Bool) :
    ∃ F0, ∀ F, F0 ≤ F → divide F dims avail toMax ≠ .hang := by
  have hmp : sumOf (·.min) dims ≤ sumOf (·.pref) dims := sumOf_le fun d hd => (hv d hd).1
  have hpm : sumOf (·.pref) dims ≤ sumOf (·.max) dims := sumOf_le fun d hd => (hv d hd).2
  by_cases hsmall : sumOf (·.min) dims > avail
  · refine ⟨0, fun F _ => ?_⟩
    rw [(tooSmall_iff hv F avail toMax).mpr hsmall]; simp
  have hstop1 : (dims.map (·.min)).sum ≤ Nat.min avail (sumOf (·.pref) dims) := by
    show sumOf (·.min) dims ≤ _
    simp only [Nat.min_def]; split_ifs <;> omega
  obtain ⟨F1, hF1⟩ := growSizes_terminates dims.length (dims.map (·.pref))
    (Nat.min avail (sumOf (·.pref) dims)) (childGenerators dims) (dims.map (·.min))
    (childGenerators_ok dims) (by simp) hstop1
  obtain ⟨⟨s1, gens1⟩, hr1⟩ := hF1 F1 (le_refl _)
  obtain ⟨ok1, _, len1, sum1, _, _, _⟩ :=
    growSizes_spec dims.length (dims.map (·.pref)) _ F1 (childGenerators dims) (dims.map (·.min))
      s1 gens1 (childGenerators_ok dims) (by simp) hstop1 hr1
  have hs1 : s1.sum ≤ Nat.min avail (sumOf (·.max) dims) := by
    have : s1.sum ≤ Nat.min avail (sumOf (·.pref) dims) := by
      rw [sum1]; exact Nat.min_le_left _ _
    simp only [Nat.min_def] at this ⊢; split_ifs at this ⊢ <;> omega
  obtain ⟨F2, hF2⟩ := growSizes_terminates dims.length (dims.map (·.max))
    (Nat.min avail (sumOf (·.max) dims)) gens1 s1 ok1 len1 hs1
  refine ⟨max F1 F2, fun F hF => ?_⟩
  obtain ⟨⟨s2, gens2⟩, hr2⟩ := hF2 F (by omega)
  unfold divide
  rw [sumDims_eq hv]
  simp only
  rw [if_neg hsmall, growSizes_mono _ _ (by omega : F1 ≤ F) _ _ _ hr1]
  simp only
  unfold phase2
  cases toMax
  · simp
  · simp only [if_true]; rw [hr2]; simp

/-- **The answer does not depend on the fuel**: once the division finishes it returns the same
    sizes for every larger fuel. -/
theorem divide_fuel_independent {dims : List Dim} {F F' avail : Nat} {toMax : Bool}
    {sizes : List Nat} (h : divide F dims avail toMax = .ok sizes) (hF : F ≤ F') :
    divide F' dims avail toMax = .ok sizes := by
  unfold divide at h ⊢
  rcases hsd : sumDims dims with _ | sd
  · rw [hsd] at h; cases h
  rw [hsd] at h
  simp only at h ⊢
  by_cases hsmall : sd.min > avail
  · rw [if_pos hsmall] at h; cases h
  rw [if_neg hsmall] at h ⊢
  rcases h1 : growSizes F (dims.map (·.pref)) (Nat.min avail sd.pref) (dims.map (·.min))
      (childGenerators dims) with _ | ⟨s1, gens1⟩
  · rw [h1] at h; cases h
  rw [h1] at h
  rw [growSizes_mono _ _ hF _ _ _ h1]
  simp only at h ⊢
  unfold phase2 at h ⊢
  cases toMax with
  | false => exact h
  | true =>
    simp only [if_true] at h ⊢
    rcases h2 : growSizes F (dims.map (·.max)) (Nat.min avail sd.max) s1 gens1 with _ | ⟨s2, gens2⟩
    · rw [h2] at h; cases h
    rw [h2] at h
    rw [growSizes_mono _ _ hF _ _ _ h2]
    exact h

/-- **Totality**: the division of valid dimensions has exactly one answer, `None` or a list of
    sizes, reached for all sufficiently large fuels. -/
theorem divide_total {dims : List Dim} (hv : ValidDims dims) (avail : Nat) (toMax : Bool) :
    ∃ F0 r, (r = .tooSmall ∨ ∃ sizes, r = .ok sizes) ∧
      ∀ F, F0 ≤ F → divide F dims avail toMax = r := by
  obtain ⟨F0, hF0⟩ := divide_terminates hv avail toMax
  refine ⟨F0, divide F0 dims avail toMax, ?_, ?_⟩
  · rcases h : divide F0 dims avail toMax with _ | _ | _ | sizes
    · exact Or.inl rfl
    · exact absurd h (hF0 F0 (le_refl _))
    · exact absurd h (divide_no_error hv F0 avail toMax)
    · exact Or.inr ⟨sizes, rfl⟩
  · intro F hF
    rcases h : divide F0 dims avail toMax with _ | _ | _ | sizes
    · rw [(tooSmall_iff hv F avail toMax).mpr ((tooSmall_iff hv F0 avail toMax).mp h)]
    · exact absurd h (hF0 F0 (le_refl _))
    · exact absurd h (divide_no_error hv F0 avail toMax)
    · exact divide_fuel_independent h hF

theorem forall₂_of_getD {R : Dim → Nat → Prop} {dims : List Dim} {sizes : List Nat}
    (hl : sizes.length = dims.length)
    (h : ∀ i (hi : i < dims.length), R dims[i] (sizes.getD i 0)) : List.Forall₂ R dims sizes := by
  rw [List.forall₂_iff_get]
  refine ⟨hl.symm, fun i h1 h2 => ?_⟩
  have := h i h1
  rw [List.getD_eq_getElem?_getD] at this
  simpa [h2] using this

/-- **Bounds**: one size per child, each within that child's min..max. -/
theorem sizes_in_bounds {dims : List Dim} (hv : ValidDims dims) {F avail : Nat} {toMax : Bool}
    {sizes : List Nat} (h : divide F dims avail toMax = .ok sizes) :
    List.Forall₂ (fun d s => d.min ≤ s ∧ s ≤ d.max) dims sizes := by
  obtain ⟨_, hl, hge, hle, _⟩ := divide_ok_spec hv h
  apply forall₂_of_getD hl
  intro i hi
  have a := hge i
  have b := hle i
  rw [map_getD_lt _ _ hi] at a b
  exact ⟨a, b⟩

/-- **The total never exceeds the available size.** -/
theorem sum_le_avail {dims : List Dim} (hv : ValidDims dims) {F avail : Nat} {toMax : Bool}
    {sizes : List Nat} (h : divide F dims avail toMax = .ok sizes) : sizes.sum ≤ avail := by
  obtain ⟨_, _, _, _, hs, _⟩ := divide_ok_spec hv h
  rw [hs]; exact Nat.min_le_left _ _

/-- **Preferred before extra**: if the preferred sizes do not all fit, nobody gets more than its
    preferred size; if they fit, everybody gets at least its preferred size. -/
theorem pref_before_extra {dims : List Dim} (hv : ValidDims dims) {F avail : Nat} {toMax : Bool}
    {sizes : List Nat} (h : divide F dims avail toMax = .ok sizes) :
    (avail ≤ sumOf (·.pref) dims → List.Forall₂ (fun d s => s ≤ d.pref) dims sizes) ∧
    (sumOf (·.pref) dims ≤ avail → List.Forall₂ (fun d s => d.pref ≤ s) dims sizes) := by
  obtain ⟨_, hl, _, _, _, h1, h2⟩ := divide_ok_spec hv h
  refine ⟨fun hle => forall₂_of_getD hl fun i hi => ?_, fun hle => forall₂_of_getD hl fun i hi => ?_⟩
  · have := h1 hle i; rwa [map_getD_lt _ _ hi] at this
  · have := h2 hle i; rwa [map_getD_lt _ _ hi] at this

/-- **The space is used as far as the children can grow**: the sizes add up to
    `min(available, Σ max)`; when the application is done (`toMax = false`, heights only)
    they add up to `min(available, Σ preferred)`. -/
theorem uses_space {dims : List Dim} (hv : ValidDims dims) {F avail : Nat} {toMax : Bool}
    {sizes : List Nat} (h : divide F dims avail toMax = .ok sizes) :
    sizes.sum = min avail (if toMax then sumOf (·.max) dims else sumOf (·.pref) dims) := by
  obtain ⟨_, _, _, _, hs, _⟩ := divide_ok_spec hv h
  exact hs

/-- the minimums fit whenever sizes are returned -/
theorem ok_min_fits {dims : List Dim} (hv : ValidDims dims) {F avail : Nat} {toMax : Bool}
    {sizes : List Nat} (h : divide F dims avail toMax = .ok sizes) :
    sumOf (·.min) dims ≤ avail := (divide_ok_spec hv h).1

/-! non-vacuity: the reported hang witness `[D(preferred=5, weight=0), D(preferred=5, weight=1)]`,
    available 10, and an all-zero-weight list -/
example : divide 40 [⟨0, 5, Gen.C12.defaultMax, 0⟩, ⟨0, 5, Gen.C12.defaultMax, 1⟩] 10 true
    = .ok [5, 5] := by decide +kernel
example : divide 40 [⟨0, 5, Gen.C12.defaultMax, 0⟩, ⟨0, 5, Gen.C12.defaultMax, 0⟩] 7 true
    = .ok [4, 3] := by decide +kernel
example : divide 40 [⟨1, 2, 3, 0⟩, ⟨0, 0, 2, 1⟩, ⟨2, 2, 2, 2⟩] 9 true = .ok [3, 2, 2] := by
  decide +kernel
example : divide 40 [⟨1, 2, 3, 0⟩, ⟨0, 0, 2, 1⟩, ⟨2, 2, 2, 2⟩] 2 true = .tooSmall := by
  decide +kernel
example : divide 3 [⟨0, 5, 9, 2⟩, ⟨0, 5, 9, 1⟩] 10 true = .hang := by decide +kernel

/-! ### the weighted stream -/

/-- **Fairness of `take_using_weights`**: with at least one item and positive weights, from the
    initial state (and from every later state) each item is yielded again after finitely many
    `next` calls. -/
theorem stream_fair {items weights : List Nat} (hlen : items.length = weights.length)
    (hpos : ∀ w ∈ weights, 0 < w) {x : Nat} (hx : x ∈ items) :
    ∃ m, Gen.Eventually x (Gen.init items weights) m := by
  have hne : items ≠ [] := by intro h; rw [h] at hx; simp at hx
  obtain ⟨hwf, hit⟩ := Gen.init_ok hlen hpos hne
  exact Gen.fair hwf (by rw [hit]; exact hx)

example : Gen.takeN 20 7 (Gen.init [0, 1, 2] [5, 10, 20]) = some [0, 1, 2, 2, 1, 2, 2] := by
  decide +kernel

/-! ### `_all_children` and the entry points -/

theorem allChildren_valid {al : Align} {filler pad : Dim} {children : List Dim}
    (hf : filler.Valid) (hp : pad.Valid) (hc : ValidDims children) :
    ValidDims (allChildren al filler pad children) := by
  intro d hd
  unfold allChildren at hd
  simp only [List.mem_append] at hd
  rcases hd with hd | hd
  · have hd' := (List.dropLast_sublist _).subset hd
    simp only [List.mem_append, List.mem_flatMap] at hd'
    rcases hd' with hd' | ⟨c, hc', hd'⟩
    · split_ifs at hd' <;> simp at hd'; subst hd'; exact hf
    · simp only [List.mem_cons, List.not_mem_nil, or_false] at hd'
      rcases hd' with rfl | rfl
      · exact hc _ hc'
      · exact hp
  · split_ifs at hd <;> simp at hd; subst hd; exact hf

/-- `HSplit._divide_heights` / `VSplit._divide_widths` inherit everything from `divide`:
    they call it on `_all_children` (or return `[]` when there is nothing to divide). -/
theorem divideH_eq (F : Nat) (al : Align) (filler pad : Dim) (children : List Dim) (avail : Nat)
    (done : Bool) (h : children ≠ []) :
    divideH F al filler pad children avail done
      = divide F (allChildren al filler pad children) avail (!done) := by
  unfold divideH
  cases children with
  | nil => exact absurd rfl h
  | cons c cs => rfl

theorem divideV_eq (F : Nat) (al : Align) (filler pad : Dim) (children : List Dim) (avail : Nat)
    (h : allChildren al filler pad children ≠ []) :
    divideV F al filler pad children avail
      = divide F (allChildren al filler pad children) avail true := by
  unfold divideV
  simp only
  cases h' : allChildren al filler pad children with
  | nil => exact absurd h' h
  | cons c cs => rfl

/-! ### drawing: disjoint adjacent regions in the listed order -/

theorem offsets_length (start : Nat) (sizes : List Nat) :
    (offsets start sizes).length = sizes.length := by
  induction sizes generalizing start with
  | nil => rfl
  | cons s ss ih => simp [offsets, ih]

/-- the `k`-th child is written at `start + Σ_{j<k} size_j` -/
theorem offsets_getD (start : Nat) (sizes : List Nat) (k : Nat) (hk : k < sizes.length) :
    (offsets start sizes).getD k 0 = start + (sizes.take k).sum := by
  induction sizes generalizing start k with
  | nil => simp at hk
  | cons s ss ih =>
    cases k with
    | zero => simp [offsets]
    | succ k =>
      simp only [offsets, List.getD_cons_succ, List.take_succ_cons, List.sum_cons]
      rw [ih (start + s) k (by simpa using hk)]
      omega

theorem sum_take_succ' (l : List Nat) (k : Nat) (hk : k < l.length) :
    (l.take (k + 1)).sum = (l.take k).sum + l.getD k 0 := by
  induction l generalizing k with
  | nil => simp at hk
  | cons a l ih =>
    cases k with
    | zero => simp
    | succ k =>
      simp only [List.take_succ_cons, List.sum_cons, List.getD_cons_succ]
      rw [ih k (by simpa using hk)]
      omega

theorem sum_take_le (l : List Nat) (k : Nat) : (l.take k).sum ≤ l.sum := by
  induction l generalizing k with
  | nil => simp
  | cons a l ih =>
    cases k with
    | zero => simp
    | succ k => simp only [List.take_succ_cons, List.sum_cons]; have := ih k; omega

/-- **Adjacent, disjoint, in order, inside the split**: the regions handed to the children tile
    `[start, start + Σ sizes)` from left to right (top to bottom) without gap or overlap; the
    rest `[start + Σ sizes, start + avail)` goes to the remaining-space window. -/
theorem layout_adjacent (start avail : Nat) (sizes : List Nat) (hfit : sizes.sum ≤ avail) :
    let regs := (layout start avail sizes).1
    regs.length = sizes.length ∧
    (∀ k, k < sizes.length →
      (regs.getD k (0, 0)).1 = start + (sizes.take k).sum ∧
      (regs.getD k (0, 0)).2 = sizes.getD k 0) ∧
    (∀ k, k + 1 < sizes.length →
      (regs.getD (k + 1) (0, 0)).1 = (regs.getD k (0, 0)).1 + (regs.getD k (0, 0)).2) ∧
    (∀ k, k < sizes.length →
      (regs.getD k (0, 0)).1 + (regs.getD k (0, 0)).2 ≤ start + avail) ∧
    ((layout start avail sizes).2 =
      if sizes.sum < avail then some (start + sizes.sum, avail - sizes.sum) else none) := by
  have hreg : ∀ k, k < sizes.length →
      (((offsets start sizes).zip sizes).getD k (0, 0)) = (start + (sizes.take k).sum, sizes.getD k 0) := by
    intro k hk
    have h1 := offsets_getD start sizes k hk
    have hk' : k < (offsets start sizes).length := by rw [offsets_length]; exact hk
    rw [List.getD_eq_getElem?_getD] at h1 ⊢
    rw [List.getD_eq_getElem?_getD]
    simp only [hk, hk', List.getElem?_eq_getElem, Option.getD_some] at h1 ⊢
    rw [List.getElem?_eq_getElem (by simp [offsets_length, hk])]
    simp [h1]
  have htake : ∀ k, k < sizes.length → (sizes.take (k + 1)).sum = (sizes.take k).sum + sizes.getD k 0 :=
    fun k hk => sum_take_succ' sizes k hk
  have hle : ∀ k, k ≤ sizes.length → (sizes.take k).sum ≤ sizes.sum := fun k _ => sum_take_le sizes k
  simp only [layout]
  refine ⟨by simp [offsets_length], ?_, ?_, ?_, ?_⟩
  · intro k hk; rw [hreg k hk]; exact ⟨rfl, rfl⟩
  · intro k hk
    rw [hreg (k + 1) hk, hreg k (by omega), htake k (by omega)]
    simp only; omega
  · intro k hk
    rw [hreg k hk]
    have := htake k hk
    have := hle (k + 1) (by omega)
    simp only; omega
  · split_ifs <;> first | rfl | omega

example : layout 2 10 [3, 0, 4] = ([(2, 3), (5, 0), (5, 4)], some (9, 3)) := by decide

/-- end to end on the model: for a split with valid children, padding and fillers, whatever
    `HSplit._divide_heights` returns is within bounds, fits, and is tiled adjacently. -/
theorem hsplit_regions {al : Align} {filler pad : Dim} {children : List Dim}
    (hf : filler.Valid) (hp : pad.Valid) (hc : ValidDims children) (hne : children ≠ [])
    {F start avail : Nat} {done : Bool} {sizes : List Nat}
    (h : divideH F al filler pad children avail done = .ok sizes) :
    List.Forall₂ (fun d s => d.min ≤ s ∧ s ≤ d.max) (allChildren al filler pad children) sizes ∧
    sizes.sum ≤ avail ∧
    ∀ k, k + 1 < sizes.length →
      ((layout start avail sizes).1.getD (k + 1) (0, 0)).1
        = ((layout start avail sizes).1.getD k (0, 0)).1 + ((layout start avail sizes).1.getD k (0, 0)).2 := by
  rw [divideH_eq F al filler pad children avail done hne] at h
  have hv := allChildren_valid (al := al) hf hp hc
  have hs := sum_le_avail hv h
  exact ⟨sizes_in_bounds hv h, hs, (layout_adjacent start avail sizes hs).2.2.1⟩

end Ptk.C12
