/-
  C19 — encoder/decoder lemmas: `int(color, 16)` on six hex digits, the 24-bit SGR parameters
  emitted for valid attributes decode to exactly those attributes (hex digits lower-cased).
-/
import Ptk.Model.C19Ansi
import Ptk.Model.C19
namespace Ptk.C19
open Ptk.Py

/-- six hexadecimal digits -/
def IsHex6 (c : Text) : Prop := c.length = 6 ∧ ∀ ch ∈ c, (hexVal? ch).isSome = true
instance (c : Text) : Decidable (IsHex6 c) := by unfold IsHex6; infer_instance

def hv (ch : Char) : Nat := (hexVal? ch).getD 0

/-- the RGB value denoted by six hex digits -/
def hexRgb (c : Text) : RGB :=
  match c with
  | [a, b, c, d, e, f] => (hv a * 16 + hv b, hv c * 16 + hv d, hv e * 16 + hv f)
  | _ => (0, 0, 0)

theorem hv_lt (ch : Char) : hv ch < 16 := by
  unfold hv hexVal?
  simp only
  split
  · simp; omega
  · split
    · simp; omega
    · split
      · simp; omega
      · simp

/-- whitespace predicate assumptions: visible ASCII characters are not whitespace, the blank is -/
def SpOk (sp : Char → Bool) : Prop :=
  sp ' ' = true ∧ ∀ ch : Char, 33 ≤ ch.toNat → ch.toNat ≤ 126 → sp ch = false

theorem hex_visible {ch : Char} (h : (hexVal? ch).isSome = true) : 33 ≤ ch.toNat ∧ ch.toNat ≤ 126 := by
  unfold hexVal? at h
  simp only at h
  split at h
  · omega
  · split at h
    · omega
    · split at h
      · omega
      · simp at h

theorem hexVal_of_isSome {ch : Char} (h : (hexVal? ch).isSome = true) : hexVal? ch = some (hv ch) := by
  unfold hv
  cases hh : hexVal? ch with
  | none => simp [hh] at h
  | some v => simp

theorem stripWs_id (sp : Char → Bool) (t : Text) (h : ∀ ch ∈ t, sp ch = false) : stripWs sp t = t := by
  unfold stripWs
  have h1 : ∀ (l : Text), (∀ ch ∈ l, sp ch = false) → l.dropWhile sp = l := by
    intro l hl
    cases l with
    | nil => rfl
    | cons x xs => simp [List.dropWhile, hl x (by simp)]
  rw [h1 t h, h1 t.reverse (by intro ch hch; exact h ch (by simpa using hch))]
  simp

theorem hexDigits_six (a b c d e f : Char)
    (ha : (hexVal? a).isSome = true) (hb : (hexVal? b).isSome = true) (hc : (hexVal? c).isSome = true)
    (hd : (hexVal? d).isSome = true) (he : (hexVal? e).isSome = true) (hf : (hexVal? f).isSome = true) :
    hexDigits? false 0 [a, b, c, d, e, f] =
      some (((((hv a * 16 + hv b) * 16 + hv c) * 16 + hv d) * 16 + hv e) * 16 + hv f) := by
  have nu : ∀ {ch : Char}, (hexVal? ch).isSome = true → (ch == '_') = false := by
    intro ch h
    cases hh : ch == '_' with
    | false => rfl
    | true =>
      have : ch = '_' := by simpa using hh
      subst this
      simp [hexVal?] at h
  simp [hexDigits?, nu ha, nu hb, nu hc, nu hd, nu he, nu hf, hexVal_of_isSome ha, hexVal_of_isSome hb,
    hexVal_of_isSome hc, hexVal_of_isSome hd, hexVal_of_isSome he, hexVal_of_isSome hf]

/-- `_color_name_to_rgb` on six hex digits -/
theorem colorNameToRgb_hex6 (sp : Char → Bool) (hsp : SpOk sp) (c : Text) (h : IsHex6 c) :
    colorNameToRgb sp c = some (hexRgb c) := by
  obtain ⟨hlen, hall⟩ := h
  match c, hlen with
  | [a, b, c, d, e, f], _ =>
    have ha := hall a (by simp)
    have hb := hall b (by simp)
    have hc := hall c (by simp)
    have hd := hall d (by simp)
    have he := hall e (by simp)
    have hf := hall f (by simp)
    have hstrip : stripWs sp [a, b, c, d, e, f] = [a, b, c, d, e, f] := by
      apply stripWs_id
      intro ch hch
      have := hex_visible (hall ch hch)
      exact hsp.2 ch this.1 this.2
    have ne : ∀ {ch : Char} (k : Char), (hexVal? ch).isSome = true → (hexVal? k).isSome = false → ch ≠ k := by
      intro ch k h1 h2 heq
      subst heq
      rw [h1] at h2; cases h2
    have a1 : a ≠ '-' := ne '-' ha (by decide)
    have a2 : a ≠ '+' := ne '+' ha (by decide)
    have b1 : b ≠ 'x' := ne 'x' hb (by decide)
    have b2 : b ≠ 'X' := ne 'X' hb (by decide)
    have a1' : (some a == some '-') = false := by simp [a1]
    have a2' : (some a == some '+') = false := by simp [a2]
    have b1' : (some b == some 'x') = false := by simp [b1]
    have b2' : (some b == some 'X') = false := by simp [b2]
    unfold colorNameToRgb pyIntHex pyIntHexCore
    rw [hstrip]
    simp only [List.head?_cons, a1', a2', Bool.or_self, Bool.false_eq_true, if_false]
    have hb1 : ([a, b, c, d, e, f] : Text)[1]? = some b := rfl
    rw [hb1]
    simp only [b1', b2', Bool.or_self, Bool.and_false, Bool.false_eq_true, if_false,
      hexDigits_six a b c d e f ha hb hc hd he hf, hexRgb]
    have := hv_lt a; have := hv_lt b; have := hv_lt c; have := hv_lt d; have := hv_lt e; have := hv_lt f
    simp
    refine ⟨?_, ?_, ?_⟩ <;> omega
end Ptk.C19

namespace Ptk.C19
open Ptk.Py

theorem hex02_two : ∀ v1 < 16, ∀ v2 < 16, hex02 (v1 * 16 + v2) = [hexDigitChar v1, hexDigitChar v2] := by
  decide +kernel

theorem hexDigitChar_hv {ch : Char} (h : (hexVal? ch).isSome = true) : hexDigitChar (hv ch) = lowerChar ch := by
  unfold hv hexDigitChar lowerChar hexVal? at *
  simp only at h ⊢
  split at h
  · rename_i h1
    simp only [h1, and_self, if_true, Option.getD_some]
    have h2 : ch.toNat - 48 < 10 := by omega
    have h3 : ¬(65 ≤ ch.toNat ∧ ch.toNat ≤ 90) := by omega
    simp only [h2, h3, if_true, if_false]
    have : 48 + (ch.toNat - 48) = ch.toNat := by omega
    rw [this]; exact Char.ofNat_toNat ch
  · split at h
    · rename_i h0 h1
      simp only [h0, h1, and_self, if_true, if_false, Option.getD_some]
      have h2 : ¬(ch.toNat - 87 < 10) := by omega
      have h3 : ¬(65 ≤ ch.toNat ∧ ch.toNat ≤ 90) := by omega
      simp only [h2, h3, if_false]
      have : 87 + (ch.toNat - 87) = ch.toNat := by omega
      rw [this]; exact Char.ofNat_toNat ch
    · split at h
      · rename_i h0 h00 h1
        simp only [h0, h00, h1, and_self, if_true, if_false, Option.getD_some]
        have h2 : ¬(ch.toNat - 55 < 10) := by omega
        have h3 : (65 ≤ ch.toNat ∧ ch.toNat ≤ 90) := by omega
        simp only [h2, h3, and_self, if_false, if_true]
        have : 87 + (ch.toNat - 55) = ch.toNat + 32 := by omega
        rw [this]
      · simp at h

/-- the decoder prints the components of a six-digit colour back as its lower-case spelling -/
theorem hex02_hexRgb (c : Text) (h : IsHex6 c) :
    hex02 (hexRgb c).1 ++ hex02 (hexRgb c).2.1 ++ hex02 (hexRgb c).2.2 = lower c := by
  obtain ⟨hlen, hall⟩ := h
  match c, hlen with
  | [a, b, c, d, e, f], _ =>
    simp only [hexRgb, lower, List.map_cons, List.map_nil]
    rw [hex02_two _ (hv_lt a) _ (hv_lt b), hex02_two _ (hv_lt c) _ (hv_lt d), hex02_two _ (hv_lt e) _ (hv_lt f)]
    rw [hexDigitChar_hv (hall a (by simp)), hexDigitChar_hv (hall b (by simp)),
      hexDigitChar_hv (hall c (by simp)), hexDigitChar_hv (hall d (by simp)),
      hexDigitChar_hv (hall e (by simp)), hexDigitChar_hv (hall f (by simp))]
    rfl

theorem hexRgb_inRange (c : Text) : (hexRgb c).1 ≤ 255 ∧ (hexRgb c).2.1 ≤ 255 ∧ (hexRgb c).2.2 ≤ 255 := by
  unfold hexRgb
  split
  · rename_i a b c d e f
    have := hv_lt a; have := hv_lt b; have := hv_lt c; have := hv_lt d; have := hv_lt e; have := hv_lt f
    simp; omega
  · simp
end Ptk.C19

namespace Ptk.C19
open Ptk.Py

theorem lookup_eq_none {κ α} [BEq κ] [LawfulBEq κ] (k : κ) (l : List (κ × α)) (h : ∀ kv ∈ l, kv.1 ≠ k) :
    lookup k l = none := by
  induction l with
  | nil => rfl
  | cons x xs ih =>
    obtain ⟨k', v⟩ := x
    have hne : (k' == k) = false := by
      have := h (k', v) (by simp)
      simpa using this
    simp only [lookup, hne, Bool.false_eq_true, if_false]
    exact ih (fun kv hkv => h kv (by simp [hkv]))

/-- the colour word `default` (accepted by `parse_color`, emits no code) -/
def kwDefault : Text := "default".toList

/-- decidable side conditions tying the encoder tables (output/vt100.py) to the decoder tables
    (formatted_text/ansi.py); re-decided on the regenerated tables on every run -/
def encDecOkB (T : Tables) : Bool :=
  T.ansiNames.all (fun n =>
    (match lookup n T.fg with
     | some code => lookup code T.decFg == some n
     | none => false) &&
    (match lookup n T.bg with
     | some code => lookup code T.decFg == none && lookup code T.decBg == some n
     | none => false) &&
    !n.isEmpty && !decide (IsHex6 n) && n != kwDefault) &&
  [0, 1, 3, 4, 5, 7, 8, 9, 38, 48].all (fun k => lookup k T.decFg == none && lookup k T.decBg == none) &&
  T.fg.all (fun kv => T.ansiNames.contains kv.1) && T.bg.all (fun kv => T.ansiNames.contains kv.1)

structure EncDecOk (T : Tables) : Prop where
  fg : ∀ n ∈ T.ansiNames, ∃ code, lookup n T.fg = some code ∧ lookup code T.decFg = some n
  bg : ∀ n ∈ T.ansiNames, ∃ code, lookup n T.bg = some code ∧ lookup code T.decFg = none ∧
        lookup code T.decBg = some n
  names : ∀ n ∈ T.ansiNames, n ≠ [] ∧ ¬IsHex6 n
  notDefault : kwDefault ∉ T.ansiNames
  ctl : ∀ k ∈ [0, 1, 3, 4, 5, 7, 8, 9, 38, 48], lookup k T.decFg = none ∧ lookup k T.decBg = none
  fgKeys : ∀ kv ∈ T.fg, kv.1 ∈ T.ansiNames
  bgKeys : ∀ kv ∈ T.bg, kv.1 ∈ T.ansiNames

theorem encDecOk_of_bool (T : Tables) (h : encDecOkB T = true) : EncDecOk T := by
  unfold encDecOkB at h
  simp only [Bool.and_eq_true, List.all_eq_true] at h
  obtain ⟨⟨⟨h1, h2⟩, h3⟩, h4⟩ := h
  refine ⟨?_, ?_, ?_, ?_, ?_, ?_, ?_⟩
  · intro n hn
    have := (h1 n hn).1.1.1.1
    split at this
    · rename_i code hc; exact ⟨code, hc, by simpa using this⟩
    · cases this
  · intro n hn
    have := (h1 n hn).1.1.1.2
    split at this
    · rename_i code hc
      simp at this
      exact ⟨code, hc, this.1, this.2⟩
    · cases this
  · intro n hn
    have ha := (h1 n hn).1.1.2
    have hb := (h1 n hn).1.2
    refine ⟨?_, ?_⟩
    · intro he; subst he; simp at ha
    · simpa using hb
  · intro hn
    have := (h1 _ hn).2
    simp at this
  · intro k hk
    have := h2 k hk
    simpa using this
  · intro kv hkv; simpa using h3 kv hkv
  · intro kv hkv; simpa using h4 kv hkv

/-- the colour strings in the domain of the round trip: no colour ('' or 'default'), an ANSI
    colour name, or six hexadecimal digits -/
def ValidColor (T : Tables) (c : Text) : Prop :=
  c = [] ∨ c = kwDefault ∨ c ∈ T.ansiNames ∨ IsHex6 c
instance (T : Tables) (c : Text) : Decidable (ValidColor T c) := by unfold ValidColor; infer_instance

/-- the colour as the decoder holds it: nothing, the ANSI name, or '#' + lower-case hex -/
def decColor (T : Tables) (c : Text) : Option Text :=
  if c = [] ∨ c = kwDefault then none
  else if c ∈ T.ansiNames then some c else some ('#' :: lower c)

/-- the decoder state that represents the attributes `a` -/
def sgrOf (T : Tables) (a : Attrs) : Sgr :=
  { color := decColor T (a.color.getD []), bgcolor := decColor T (a.bgcolor.getD []),
    bold := truthy a.bold, underline := truthy a.underline, strike := truthy a.strike,
    italic := truthy a.italic, blink := truthy a.blink, reverse := truthy a.reverse,
    hidden := truthy a.hidden }

theorem sgr_fgcode (T : Tables) (st : Sgr) (code : Nat) (n : Text) (h : lookup code T.decFg = some n) (rest : List Nat) :
    sgrLoop T st (code :: rest) = sgrLoop T { st with color := some n } rest := by
  rw [sgrLoop.eq_def]; simp [h]

theorem sgr_bgcode (T : Tables) (st : Sgr) (code : Nat) (n : Text) (h0 : lookup code T.decFg = none)
    (h : lookup code T.decBg = some n) (rest : List Nat) :
    sgrLoop T st (code :: rest) = sgrLoop T { st with bgcolor := some n } rest := by
  rw [sgrLoop.eq_def]; simp [h, h0]

section chunks
variable (T : Tables) (hT : EncDecOk T)
include hT

theorem sgr_reset (st : Sgr) (rest : List Nat) : sgrLoop T st (0 :: rest) = sgrLoop T {} rest := by
  have := hT.ctl 0 (by simp)
  rw [sgrLoop.eq_def]; simp [this.1, this.2]

theorem sgr_rgb_fg (st : Sgr) (r g b : Nat) (rest : List Nat) :
    sgrLoop T st (38 :: 2 :: r :: g :: b :: rest) =
      sgrLoop T { st with color := some ('#' :: (hex02 r ++ hex02 g ++ hex02 b)) } rest := by
  have := hT.ctl 38 (by simp)
  rw [sgrLoop.eq_def]; simp [this.1, this.2]

theorem sgr_rgb_bg (st : Sgr) (r g b : Nat) (rest : List Nat) :
    sgrLoop T st (48 :: 2 :: r :: g :: b :: rest) =
      sgrLoop T { st with bgcolor := some ('#' :: (hex02 r ++ hex02 g ++ hex02 b)) } rest := by
  have := hT.ctl 48 (by simp)
  rw [sgrLoop.eq_def]; simp [this.1, this.2]

theorem sgr_flag1 (st : Sgr) (b : Bool) (rest : List Nat) :
    sgrLoop T st ((if b then [1] else []) ++ rest) = sgrLoop T { st with bold := st.bold || b } rest := by
  have := hT.ctl 1 (by simp)
  cases b
  · simp
  · simp only [if_true, List.singleton_append, Bool.or_true]; rw [sgrLoop.eq_def]; simp [this.1, this.2]
theorem sgr_flag3 (st : Sgr) (b : Bool) (rest : List Nat) :
    sgrLoop T st ((if b then [3] else []) ++ rest) = sgrLoop T { st with italic := st.italic || b } rest := by
  have := hT.ctl 3 (by simp)
  cases b
  · simp
  · simp only [if_true, List.singleton_append, Bool.or_true]; rw [sgrLoop.eq_def]; simp [this.1, this.2]
theorem sgr_flag5 (st : Sgr) (b : Bool) (rest : List Nat) :
    sgrLoop T st ((if b then [5] else []) ++ rest) = sgrLoop T { st with blink := st.blink || b } rest := by
  have := hT.ctl 5 (by simp)
  cases b
  · simp
  · simp only [if_true, List.singleton_append, Bool.or_true]; rw [sgrLoop.eq_def]; simp [this.1, this.2]
theorem sgr_flag4 (st : Sgr) (b : Bool) (rest : List Nat) :
    sgrLoop T st ((if b then [4] else []) ++ rest) = sgrLoop T { st with underline := st.underline || b } rest := by
  have := hT.ctl 4 (by simp)
  cases b
  · simp
  · simp only [if_true, List.singleton_append, Bool.or_true]; rw [sgrLoop.eq_def]; simp [this.1, this.2]
theorem sgr_flag7 (st : Sgr) (b : Bool) (rest : List Nat) :
    sgrLoop T st ((if b then [7] else []) ++ rest) = sgrLoop T { st with reverse := st.reverse || b } rest := by
  have := hT.ctl 7 (by simp)
  cases b
  · simp
  · simp only [if_true, List.singleton_append, Bool.or_true]; rw [sgrLoop.eq_def]; simp [this.1, this.2]
theorem sgr_flag8 (st : Sgr) (b : Bool) (rest : List Nat) :
    sgrLoop T st ((if b then [8] else []) ++ rest) = sgrLoop T { st with hidden := st.hidden || b } rest := by
  have := hT.ctl 8 (by simp)
  cases b
  · simp
  · simp only [if_true, List.singleton_append, Bool.or_true]; rw [sgrLoop.eq_def]; simp [this.1, this.2]
theorem sgr_flag9 (st : Sgr) (b : Bool) (rest : List Nat) :
    sgrLoop T st ((if b then [9] else []) ++ rest) = sgrLoop T { st with strike := st.strike || b } rest := by
  have := hT.ctl 9 (by simp)
  cases b
  · simp
  · simp only [if_true, List.singleton_append, Bool.or_true]; rw [sgrLoop.eq_def]; simp [this.1, this.2]
end chunks
end Ptk.C19

namespace Ptk.C19
open Ptk.Py

theorem default_not_hex6 : ¬IsHex6 kwDefault := by decide

theorem colorNameToRgb_default (sp : Char → Bool) (hsp : SpOk sp) :
    colorNameToRgb sp kwDefault = none := by
  have hstrip : stripWs sp kwDefault = kwDefault := by
    apply stripWs_id
    intro ch hch
    have : 33 ≤ ch.toNat ∧ ch.toNat ≤ 126 := by
      revert ch; decide
    exact hsp.2 ch this.1 this.2
  unfold colorNameToRgb pyIntHex
  rw [hstrip]
  decide

/-- the 24-bit encoder on a valid colour -/
theorem colorCodes_d24 (T : Tables) (hT : EncDecOk T) (sp : Char → Bool) (hsp : SpOk sp)
    (fgc bgc fa c : Text) (bg : Bool) (hc : ValidColor T c) :
    colorCodes T sp .d24 fgc bgc fa c bg =
      (if c = [] ∨ c = kwDefault then []
       else if c ∈ T.ansiNames then [(lookup c (if bg then T.bg else T.fg)).getD 0]
       else [if bg then 48 else 38, 2, (hexRgb c).1, (hexRgb c).2.1, (hexRgb c).2.2], fa) := by
  have keyNone : ∀ (c : Text), c ∉ T.ansiNames → lookup c (if bg then T.bg else T.fg) = none := by
    intro c hnn
    apply lookup_eq_none
    intro kv hkv heq
    apply hnn
    rw [← heq]
    cases bg
    · exact hT.fgKeys kv (by simpa using hkv)
    · exact hT.bgKeys kv (by simpa using hkv)
  unfold colorCodes
  rcases hc with rfl | rfl | hn | hh
  · simp
  · have hlk := keyNone kwDefault hT.notDefault
    have hemp : (kwDefault).isEmpty = false := by decide
    simp [hemp, hlk, colorNameToRgb_default sp hsp]
  · have hne : c ≠ [] := (hT.names c hn).1
    have hnd : c ≠ kwDefault := fun h => hT.notDefault (h ▸ hn)
    have hemp : c.isEmpty = false := by cases c <;> simp_all
    have : ∃ code, lookup c (if bg then T.bg else T.fg) = some code := by
      cases bg
      · obtain ⟨code, h, _⟩ := hT.fg c hn; exact ⟨code, by simpa using h⟩
      · obtain ⟨code, h, _⟩ := hT.bg c hn; exact ⟨code, by simpa using h⟩
    obtain ⟨code, hcode⟩ := this
    simp [hemp, hcode, hne, hnd, hn]
  · have hne : c ≠ [] := by
      intro h; subst h; simp [IsHex6] at hh
    have hnd : c ≠ kwDefault := fun h => default_not_hex6 (h ▸ hh)
    have hemp : c.isEmpty = false := by cases c <;> simp_all
    have hnn : c ∉ T.ansiNames := fun hn => (hT.names c hn).2 hh
    simp [hemp, keyNone c hnn, colorNameToRgb_hex6 sp hsp c hh, hne, hnd, hnn]

theorem decColor_of_valid_fg (T : Tables) (hT : EncDecOk T) (sp : Char → Bool) (hsp : SpOk sp)
    (fgc bgc fa c : Text) (hc : ValidColor T c) (st : Sgr) (hst : st.color = none) (rest : List Nat) :
    sgrLoop T st ((colorCodes T sp .d24 fgc bgc fa c false).1 ++ rest) =
      sgrLoop T { st with color := decColor T c } rest := by
  rw [colorCodes_d24 T hT sp hsp fgc bgc fa c false hc]
  unfold decColor
  by_cases h1 : c = [] ∨ c = kwDefault
  · simp only [h1, if_true, List.nil_append]
    rw [← hst]
  · by_cases h2 : c ∈ T.ansiNames
    · obtain ⟨code, hcode, hdec⟩ := hT.fg c h2
      simp [h1, h2, hcode, sgr_fgcode T st code c hdec]
    · have hh : IsHex6 c := by
        rcases hc with h | h | h | h
        · exact absurd (Or.inl h) h1
        · exact absurd (Or.inr h) h1
        · exact absurd h h2
        · exact h
      simp only [h1, h2, if_false, Bool.false_eq_true, List.cons_append, List.nil_append]
      rw [sgr_rgb_fg T hT, hex02_hexRgb c hh]

theorem decColor_of_valid_bg (T : Tables) (hT : EncDecOk T) (sp : Char → Bool) (hsp : SpOk sp)
    (fgc bgc fa c : Text) (hc : ValidColor T c) (st : Sgr) (hst : st.bgcolor = none) (rest : List Nat) :
    sgrLoop T st ((colorCodes T sp .d24 fgc bgc fa c true).1 ++ rest) =
      sgrLoop T { st with bgcolor := decColor T c } rest := by
  rw [colorCodes_d24 T hT sp hsp fgc bgc fa c true hc]
  unfold decColor
  by_cases h1 : c = [] ∨ c = kwDefault
  · simp only [h1, if_true, List.nil_append]
    rw [← hst]
  · by_cases h2 : c ∈ T.ansiNames
    · obtain ⟨code, hcode, hdec0, hdec⟩ := hT.bg c h2
      simp [h1, h2, hcode, sgr_bgcode T st code c hdec0 hdec]
    · have hh : IsHex6 c := by
        rcases hc with h | h | h | h
        · exact absurd (Or.inl h) h1
        · exact absurd (Or.inr h) h1
        · exact absurd h h2
        · exact h
      simp only [h1, h2, if_false, if_true, List.cons_append, List.nil_append]
      rw [sgr_rgb_bg T hT, hex02_hexRgb c hh]

def ValidAttrs (T : Tables) (a : Attrs) : Prop :=
  ValidColor T (a.color.getD []) ∧ ValidColor T (a.bgcolor.getD [])
instance (T : Tables) (a : Attrs) : Decidable (ValidAttrs T a) := by unfold ValidAttrs; infer_instance

/-- **SGR round trip at 24 bit (parameter level).**  Feeding the parameters the encoder emits
    for `a` (`0;…`) to the decoder, from ANY previous decoder state, yields exactly the state
    that represents `a`. -/
theorem sgr_roundtrip_24bit (T : Tables) (hT : EncDecOk T) (sp : Char → Bool) (hsp : SpOk sp)
    (a : Attrs) (hv : ValidAttrs T a) (st0 : Sgr) :
    selectGraphicRendition T st0 (0 :: sgrCodes T sp .d24 a) = sgrOf T a := by
  unfold selectGraphicRendition
  simp only [List.isEmpty_cons, Bool.false_eq_true, if_false]
  rw [sgr_reset T hT]
  unfold sgrCodes colorsToCode
  dsimp only
  have hfa : (colorCodes T sp .d24 (a.color.getD []) (a.bgcolor.getD []) [] (a.color.getD []) false).2 = [] := by
    rw [colorCodes_d24 T hT sp hsp _ _ _ _ false hv.1]
  rw [hfa]
  have happ : ∀ (l : List Nat), l = l ++ [] := by simp
  rw [happ (if truthy a.strike = true then [9] else [])]
  simp only [List.append_assoc]
  rw [decColor_of_valid_fg T hT sp hsp _ _ _ _ hv.1 _ rfl,
    decColor_of_valid_bg T hT sp hsp _ _ _ _ hv.2 _ rfl,
    sgr_flag1 T hT, sgr_flag3 T hT, sgr_flag5 T hT, sgr_flag4 T hT, sgr_flag7 T hT, sgr_flag8 T hT,
    sgr_flag9 T hT]
  simp [sgrLoop, sgrOf]
end Ptk.C19
namespace Ptk.C19
open Ptk.Py

theorem digitChar_toNat : ∀ n < 10, (digitChar n).toNat = 48 + n := by decide

theorem digitChar_isDigit (n : Nat) (h : n < 10) : isAsciiDigit (digitChar n) = true := by
  unfold isAsciiDigit; rw [digitChar_toNat n h]; simp; omega

def decStep (acc : Nat) (c : Char) : Nat := acc * 10 + (c.toNat - 48)

theorem parseDec_eq (t : Text) : parseDec t = t.foldl decStep 0 := rfl

theorem natToDecFuel_spec (f n : Nat) (h : n ≤ f) :
    (∀ ch ∈ natToDecFuel f n, isAsciiDigit ch = true) ∧ (natToDecFuel f n).foldl decStep 0 = n ∧
      natToDecFuel f n ≠ [] := by
  induction f generalizing n with
  | zero =>
    have : n = 0 := by omega
    subst this
    simp [natToDecFuel, decStep]
    exact ⟨by decide, by decide⟩
  | succ f ih =>
    unfold natToDecFuel
    split
    · rename_i hlt
      refine ⟨?_, ?_, by simp⟩
      · intro ch hch; simp at hch; subst hch; exact digitChar_isDigit n hlt
      · simp [decStep, digitChar_toNat n hlt]
    · rename_i hge
      obtain ⟨h1, h2, _⟩ := ih (n / 10) (by omega)
      refine ⟨?_, ?_, by simp⟩
      · intro ch hch
        rcases List.mem_append.mp hch with h | h
        · exact h1 ch h
        · simp at h; subst h; exact digitChar_isDigit _ (by omega)
      · rw [List.foldl_append, h2]
        simp [decStep, digitChar_toNat (n % 10) (by omega)]
        omega

theorem natToDec_spec (n : Nat) :
    (∀ ch ∈ natToDec n, isAsciiDigit ch = true) ∧ parseDec (natToDec n) = n ∧ natToDec n ≠ [] :=
  natToDecFuel_spec n n (Nat.le_refl n)

/-- digits accumulate in the CSI state -/
theorem pstep_digits (T : Tables) (ds : Text) (hds : ∀ ch ∈ ds, isAsciiDigit ch = true)
    (p : PSt) (cur : Text) (ps : List Nat) (hp : p.mode = .csi cur ps) :
    ds.foldl (pstep T) p = { p with mode := .csi (cur ++ ds) ps } := by
  induction ds generalizing p cur with
  | nil => simp [← hp]
  | cons d ds ih =>
    have hd := hds d (by simp)
    have : pstep T p d = { p with mode := .csi (cur ++ [d]) ps } := by
      unfold pstep; rw [hp]; simp [hd]
    rw [List.foldl_cons, this, ih (fun ch hch => hds ch (by simp [hch])) _ (cur ++ [d]) rfl]
    simp

theorem digit_ne (ch : Char) (h : isAsciiDigit ch = true) : ch ≠ ';' ∧ ch ≠ 'm' := by
  constructor <;> (intro he; subst he; revert h; decide)

/-- one complete SGR sequence body `n1;n2;…;nk m` read from the CSI state -/
theorem pstep_params (T : Tables) (nums : List Nat) (hne : nums ≠ []) (p : PSt) (ps : List Nat)
    (hp : p.mode = .csi [] ps) :
    (join [';'] (nums.map natToDec) ++ ['m']).foldl (pstep T) p =
      { p with mode := .ground,
               sgr := selectGraphicRendition T p.sgr (ps ++ nums.map (min · 9999)),
               style := styleString (selectGraphicRendition T p.sgr (ps ++ nums.map (min · 9999))) } := by
  induction nums generalizing p ps with
  | nil => exact absurd rfl hne
  | cons n rest ih =>
    obtain ⟨hdig, hval, _⟩ := natToDec_spec n
    cases rest with
    | nil =>
      simp only [List.map_cons, List.map_nil, join, List.foldl_append]
      rw [pstep_digits T _ hdig p [] ps hp]
      simp [pstep, isAsciiDigit, hval]
    | cons m rest' =>
      have hj : join [';'] ((n :: m :: rest').map natToDec) = natToDec n ++ [';'] ++ join [';'] ((m :: rest').map natToDec) := by
        simp [join]
      rw [hj]
      simp only [List.append_assoc, List.foldl_append]
      rw [pstep_digits T _ hdig p [] ps hp]
      have hsemi : [';'].foldl (pstep T) { p with mode := .csi ([] ++ natToDec n) ps } =
          { p with mode := .csi [] (ps ++ [min n 9999]) } := by
        simp [pstep, isAsciiDigit, hval]
      rw [hsemi]
      have := ih (by simp) { p with mode := .csi [] (ps ++ [min n 9999]) } (ps ++ [min n 9999]) rfl
      simp only [List.foldl_append] at this
      rw [this]
      simp

theorem renderEscape_eq (codes : List Nat) :
    renderEscape codes = [Char.ofNat 27, '['] ++ (join [';'] ((0 :: codes).map natToDec) ++ ['m']) := by
  unfold renderEscape
  cases codes with
  | nil => simp [join]; decide
  | cons c cs =>
    have : natToDec 0 = ['0'] := by decide
    simp [join, this]

/-- **Decoding the emitted text.**  The text the encoder emits for a parameter list, followed by
    a character, is parsed by `ANSI` into exactly one fragment carrying that character, styled by
    the decoder state reached from the parameters `0;codes`. -/
theorem ansi_of_renderEscape (T : Tables) (codes : List Nat) (hb : ∀ c ∈ codes, c ≤ 9999) (x : Char)
    (hx : x ≠ Char.ofNat 27 ∧ x ≠ Char.ofNat 155 ∧ x ≠ Char.ofNat 1) :
    ansiFragments T (renderEscape codes ++ [x]) =
      [(styleString (selectGraphicRendition T {} (0 :: codes)), [x])] := by
  unfold ansiFragments
  rw [renderEscape_eq]
  simp only [List.append_assoc, List.foldl_append]
  have h0 : [Char.ofNat 27, '['].foldl (pstep T) {} = { mode := .csi [] [] } := by
    simp [pstep, checkCsi]
  rw [h0]
  have := pstep_params T (0 :: codes) (by simp) { mode := .csi [] [] } [] rfl
  simp only [List.foldl_append] at this
  rw [this]
  have hmap' : ∀ (cs : List Nat), (∀ c ∈ cs, c ≤ 9999) → cs.map (min · 9999) = cs := by
    intro cs hcs
    induction cs with
    | nil => rfl
    | cons c cs ih =>
      simp only [List.map_cons]
      rw [ih (fun c hc => hcs c (by simp [hc]))]
      have := hcs c (by simp)
      congr 1; omega
  have hmap : (0 :: codes).map (min · 9999) = 0 :: codes := by
    simp only [List.map_cons, hmap' codes hb]
    rfl
  rw [hmap]
  simp [pstep, checkCsi, hx.1, hx.2.1, hx.2.2]
end Ptk.C19
namespace Ptk.C19
open Ptk.Py

theorem lookup_mem {κ α} [BEq κ] [LawfulBEq κ] (k : κ) (l : List (κ × α)) (v : α) (h : lookup k l = some v) :
    (k, v) ∈ l := by
  induction l with
  | nil => simp [lookup] at h
  | cons x xs ih =>
    obtain ⟨k', v'⟩ := x
    unfold lookup at h
    split at h
    · rename_i heq
      have : k' = k := by simpa using heq
      cases h; subst this; simp
    · exact List.mem_cons_of_mem _ (ih h)

/-- all SGR codes in the encoder tables are small enough not to be clipped by the decoder -/
def CodesBounded (T : Tables) : Prop := (∀ kv ∈ T.fg, kv.2 ≤ 9999) ∧ (∀ kv ∈ T.bg, kv.2 ≤ 9999)
instance (T : Tables) : Decidable (CodesBounded T) := by unfold CodesBounded; infer_instance

theorem sgrCodes_d24_bound (T : Tables) (hT : EncDecOk T) (hB : CodesBounded T) (sp : Char → Bool)
    (hsp : SpOk sp) (a : Attrs) (hv : ValidAttrs T a) : ∀ c ∈ sgrCodes T sp .d24 a, c ≤ 9999 := by
  have hcol : ∀ (fgc bgc fa c : Text) (bg : Bool), ValidColor T c →
      ∀ x ∈ (colorCodes T sp .d24 fgc bgc fa c bg).1, x ≤ 9999 := by
    intro fgc bgc fa c bg hc x hx
    rw [colorCodes_d24 T hT sp hsp fgc bgc fa c bg hc] at hx
    simp only at hx
    split at hx
    · simp at hx
    · split at hx
      · rename_i _ hn
        simp at hx
        subst hx
        cases bg
        · obtain ⟨code, h, _⟩ := hT.fg c hn
          simp [h]; exact hB.1 _ (lookup_mem _ _ _ h)
        · obtain ⟨code, h, _⟩ := hT.bg c hn
          simp [h]; exact hB.2 _ (lookup_mem _ _ _ h)
      · have := hexRgb_inRange c
        simp at hx
        rcases hx with h | h | h | h | h <;> (subst h; try (cases bg <;> simp)) <;> omega
  intro c hc
  unfold sgrCodes colorsToCode at hc
  simp only [List.mem_append] at hc
  rcases hc with ((((((((h | h) | h) | h) | h) | h) | h) | h) | h)
  · exact hcol _ _ _ _ _ hv.1 c h
  · exact hcol _ _ _ _ _ hv.2 c h
  all_goals (split at h <;> simp at h <;> omega)
end Ptk.C19
