/-
  Cross-model agreement, cluster "Document queries and motions" (src/prompt_toolkit/document.py),
  part "cut": `Document.selection_ranges` and `Document.cut_selection`.

  Canonical model here: `Ptk.C09` (`Model/C09Vi.lean`: `selectionRanges`, `cutLoop`, `cutSelection`,
  all three selection types, Emacs and Vi).  Other model: `Ptk.C08` (`Model/C08.lean`: `selRange`,
  `cutSelection`; CHARACTERS / LINES only, Vi mode only, a single range).

  Translations (total): `selTy : Bool → C09.SelType` (`true ↦ .lines`, `false ↦ .chars`),
  `buf89 : C08.Doc → C09.Buf`, `clip89 : C08.Clip → C09.Clip`; `vi = true`.

  Results
    * `selectionRanges_08_iff` : the two models give the same range list EXACTLY when
      `ls = true → min cur orig ≤ t.length`  (`selectionRanges_08` is the ← direction;
      `selectionRanges_08_doc` the corollary for `cur ≤ t.length`).
      - history: until the C09 model was repaired (`C09.linesEnd`, `Int` arithmetic) it computed
        `len(text) - 1 + 1` in `Nat` and yielded `(0, 1)` for a LINES selection in the empty text,
        where the real code yields `(0, 0)` like C08; now `selectionRanges_empty_agree`.
      - `min cur orig > t.length`: outside the domain (`Document.__init__` asserts
        `cursor_position ≤ len(text)`): C09 computes `from_ - col`, C08 `len(text[:from_]) - col`.
    * `cutSelection_08_iff` : the two models agree EXACTLY when `ls = true → min cur orig ≤ t.length`
      (`cutSelection_08` is the ← direction; `cutSelection_08_doc` the corollary for `cur ≤ t.length`).
    * `textObjectCut_08` (bonus, key_binding/bindings/vi.py::TextObject.cut): `C08.cut` on the text
      object of a selection = `C09.textObjectCut`, for `cur ≤ t.length`, `orig ≤ t.length`.
-/
import Ptk.Props.AgreeDocBase
import Ptk.Model.C09Vi
namespace Ptk.AgreeDoc
open Ptk.Py
/-- `C08`'s `linesSel : Bool` → `C09.SelType` (`true` = LINES, `false` = CHARACTERS) -/
def selTy (b : Bool) : C09.SelType := if b then .lines else .chars
/-- `C08.Clip` → `C09.Clip` (`ClipboardData(text, type)`) -/
def clip89 (c : C08.Clip) : C09.Clip := ⟨c.text, selTy c.lines⟩
/-- `C08.Doc` → `C09.Buf` (same fields) -/
def buf89 (d : C08.Doc) : C09.Buf := ⟨d.text, d.cur⟩

@[simp] theorem selTy_true : selTy true = .lines := rfl
@[simp] theorem selTy_false : selTy false = .chars := rfl

/-! ### helper lemmas -/

theorem notNl89 : C09.notNl = C08.notNl := by rw [notNl09, notNl08]

/-- `str.find("\n")` as the length of the newline-free prefix -/
theorem findChar_nl (l : Text) :
    findChar? '\n' l =
      if (l.takeWhile C08.notNl).length < l.length then some (l.takeWhile C08.notNl).length else none := by
  induction l with
  | nil => rfl
  | cons x xs ih =>
    by_cases hx : x = '\n'
    · subst hx; simp [findChar?, C08.notNl]
    · simp only [findChar?, hx, if_false, ih, List.takeWhile_cons]
      have : C08.notNl x = true := by simp [C08.notNl, hx]
      simp only [this, if_true, List.length_cons, Nat.add_lt_add_iff_right]
      split <;> simp

/-- `text.find("\n", i)` — `C09.findNlFrom` vs `Ptk.Py.findChar?` on `text[i:]` (all inputs) -/
theorem findNlFrom_eq (t : Text) (i : Nat) :
    C09.findNlFrom t i = (findChar? '\n' (t.drop i)).map (i + ·) := by
  simp only [C09.findNlFrom, findChar_nl, notNl89]
  split <;> simp

/-- `max(0, text.rfind("\n", 0, a) + 1)` — `a - C09.col` vs `C08.lineStart`, for `a ≤ len(text)` -/
theorem from_eq (t : Text) (a : Nat) (h : a ≤ t.length) :
    a - C09.col { text := t, cur := a } = C08.lineStart t a := by
  simp only [C09.col, C09.lineBefore, C09.Buf.before, C08.lineStart, notNl89, List.length_reverse,
    List.length_take, Nat.min_eq_left h]

/-! ### `Document.selection_ranges` -/

/-- the upper bound of a LINES range in Vi mode — `C09.linesEnd` (`Int` arithmetic, so `len - 1 + 1`
    is `0` on the empty text) vs the `match` of `C08.selRange` (all inputs) -/
theorem linesEnd_eq (t : Text) (hi : Nat) :
    C09.linesEnd t hi true =
      match findChar? '\n' (t.drop hi) with
      | some k => hi + k + 1
      | none => t.length := by
  simp only [C09.linesEnd, C09.linesEndI, findNlFrom_eq, if_true]
  cases findChar? '\n' (t.drop hi) with
  | none => simp only [Option.map_none]; omega
  | some k => simp only [Option.map_some]; omega

/-- document.py::Document.selection_ranges — `C09.selectionRanges` (Vi mode, CHARACTERS / LINES) vs
    `C08.selRange`.  Hypothesis only for LINES: the lower cursor is inside the text (necessary:
    `selectionRanges_08_iff`); the empty text is included. -/
theorem selectionRanges_08 (t : Text) (cur orig : Nat) (ls : Bool)
    (h : ls = true → min cur orig ≤ t.length) :
    C09.selectionRanges t cur orig (selTy ls) true = [C08.selRange t (min cur orig) (max cur orig) ls] := by
  cases ls with
  | false => simp [C09.selectionRanges, C08.selRange]
  | true =>
    simp only [selTy_true, C09.selectionRanges, C08.selRange, if_true, from_eq t _ (h rfl), linesEnd_eq]
    rfl

/-! ### `Document.cut_selection` -/

/-- the loop of `cut_selection` for a single range -/
theorem cutSelection_single (t : Text) (cur orig : Nat) (ty : C09.SelType) (f e : Nat)
    (h : C09.selectionRanges t cur orig ty true = [(f, e)]) :
    C09.cutSelection t cur orig ty true =
      ({ text := t.take f ++ t.drop e, cur := f },
       { text := if ty = .lines ∧ ((t.take e).drop f).getLast? = some '\n' ∧
                    (C09.findNlFrom t (max cur orig)).isSome then ((t.take e).drop f).dropLast
                 else (t.take e).drop f,
         ty := ty }) := by
  simp only [C09.cutSelection, h, C09.cutLoop, join, List.nil_append, List.drop_zero, if_true]

/-- document.py::Document.cut_selection — `C09.cutSelection` (Vi mode, CHARACTERS / LINES) vs
    `C08.cutSelection`.  Hypothesis only for LINES: the lower cursor is inside the text (necessary:
    `cutSelection_08_iff`); the empty text is included. -/
theorem cutSelection_08 (t : Text) (cur orig : Nat) (ls : Bool)
    (h : ls = true → min cur orig ≤ t.length) :
    C09.cutSelection t cur orig (selTy ls) true =
      (buf89 (C08.cutSelection t cur orig ls).1, clip89 (C08.cutSelection t cur orig ls).2) := by
  have hr := selectionRanges_08 t cur orig ls h
  simp only [C08.cutSelection, buf89, clip89]
  generalize C08.selRange t (min cur orig) (max cur orig) ls = r at hr ⊢
  rw [cutSelection_single t cur orig (selTy ls) r.1 r.2 hr]
  simp only [findNlFrom_eq, Option.isSome_map]
  cases ls with
  | false => simp
  | true =>
    simp only [selTy_true, true_and, Bool.true_and, C08.stripNl]
    congr 2
    by_cases h1 : (findChar? '\n' (List.drop (max cur orig) t)).isSome = true <;>
    by_cases h2 : (List.drop r.1 (List.take r.2 t)).getLast? = some '\n' <;> simp [h1, h2]

/-! ### the hypotheses are exact -/

theorem col_le (t : Text) (a : Nat) : C09.col { text := t, cur := a } ≤ t.length := by
  simp only [C09.col, C09.lineBefore, C09.Buf.before, List.length_reverse]
  have := (List.takeWhile_sublist (l := (t.take a).reverse) C09.notNl).length_le
  simp only [List.length_reverse, List.length_take] at this
  omega

theorem lineStart_le (t : Text) (a : Nat) : C08.lineStart t a ≤ t.length := by
  simp only [C08.lineStart, List.length_take]; omega

theorem from_ne (t : Text) (a : Nat) (h : t.length < a) :
    a - C09.col { text := t, cur := a } ≠ C08.lineStart t a := by
  have h1 := col_le t a
  have h2 : C08.lineStart t a = t.length - C09.col { text := t, cur := a } := by
    simp only [C09.col, C09.lineBefore, C09.Buf.before, C08.lineStart, notNl89, List.length_reverse,
      List.length_take, Nat.min_eq_right (Nat.le_of_lt h)]
  omega

/-- document.py::Document.selection_ranges — `C09.selectionRanges` vs `C08.selRange`: the exact
    region of agreement (no hypotheses) -/
theorem selectionRanges_08_iff (t : Text) (cur orig : Nat) (ls : Bool) :
    C09.selectionRanges t cur orig (selTy ls) true = [C08.selRange t (min cur orig) (max cur orig) ls]
      ↔ (ls = true → min cur orig ≤ t.length) := by
  refine ⟨fun heq hl => ?_, selectionRanges_08 t cur orig ls⟩
  subst hl
  simp only [selTy_true, C09.selectionRanges, C08.selRange, if_true, linesEnd_eq, List.cons.injEq,
    Prod.mk.injEq, and_true] at heq
  by_cases h : min cur orig ≤ t.length
  · exact h
  · exact absurd heq.1 (from_ne t _ (by omega))

/-- document.py::Document.cut_selection — `C09.cutSelection` vs `C08.cutSelection`: the exact
    region of agreement (no hypotheses) -/
theorem cutSelection_08_iff (t : Text) (cur orig : Nat) (ls : Bool) :
    C09.cutSelection t cur orig (selTy ls) true =
        (buf89 (C08.cutSelection t cur orig ls).1, clip89 (C08.cutSelection t cur orig ls).2)
      ↔ (ls = true → min cur orig ≤ t.length) := by
  refine ⟨fun heq hl => ?_, cutSelection_08 t cur orig ls⟩
  subst hl
  by_cases h : min cur orig ≤ t.length
  · exact h
  · exfalso
    have hc := congrArg (fun p => p.1.cur) heq
    simp only [selTy_true, C09.cutSelection, C09.selectionRanges, C09.cutLoop, if_true, buf89,
      C08.cutSelection, C08.selRange] at hc
    exact from_ne t _ (by omega) hc

/-! ### corollaries under the `Document` invariant `cursor_position ≤ len(text)` -/

/-- document.py::Document.selection_ranges — `C09.selectionRanges` vs `C08.selRange` for every text
    (also the empty one) and a cursor inside it (`Document.__init__` asserts
    `cursor_position ≤ len(text)`; `original_cursor_position` is unconstrained) -/
theorem selectionRanges_08_doc (t : Text) (cur orig : Nat) (ls : Bool) (hc : cur ≤ t.length) :
    C09.selectionRanges t cur orig (selTy ls) true = [C08.selRange t (min cur orig) (max cur orig) ls] :=
  selectionRanges_08 t cur orig ls (fun _ => by omega)

/-- document.py::Document.selection_ranges, CHARACTERS — `C09.selectionRanges` vs `C08.selRange`, all inputs -/
theorem selectionRanges_08_chars (t : Text) (cur orig : Nat) :
    C09.selectionRanges t cur orig .chars true = [C08.selRange t (min cur orig) (max cur orig) false] :=
  selectionRanges_08 t cur orig false (by simp)

/-- document.py::Document.cut_selection — `C09.cutSelection` vs `C08.cutSelection` for every text
    (also the empty one) and a cursor inside it -/
theorem cutSelection_08_doc (t : Text) (cur orig : Nat) (ls : Bool) (hc : cur ≤ t.length) :
    C09.cutSelection t cur orig (selTy ls) true =
      (buf89 (C08.cutSelection t cur orig ls).1, clip89 (C08.cutSelection t cur orig ls).2) :=
  cutSelection_08 t cur orig ls (fun _ => by omega)

/-- document.py::Document.cut_selection, CHARACTERS — `C09.cutSelection` vs `C08.cutSelection`, all inputs -/
theorem cutSelection_08_chars (t : Text) (cur orig : Nat) :
    C09.cutSelection t cur orig .chars true =
      (buf89 (C08.cutSelection t cur orig false).1, clip89 (C08.cutSelection t cur orig false).2) :=
  cutSelection_08 t cur orig false (by simp)

/-! ### `TextObject.cut` (the caller of `cut_selection` in both models) -/

/-- `TextObject(orig - cursor, type=INCLUSIVE).cut(buffer)` calls
    `Document(text, hi, SelectionState(lo, CHARACTERS)).cut_selection()` -/
theorem cut08_inclusive (t : Text) (cur orig : Nat) (hc : cur ≤ t.length) (ho : orig ≤ t.length) :
    C08.cut ⟨t, cur⟩ ⟨(orig : Int) - cur, 0, .inclusive⟩
      = some (C08.cutSelection t (max orig cur) (min orig cur) false) := by
  simp only [C08.cut, C08.operatorRange, C08.TextObject.sorted]
  have hb : (C08.TOType.inclusive == C08.TOType.linewise) = false := by decide
  simp only [hb, Bool.not_false, Bool.true_and, Bool.false_eq_true, if_false]
  by_cases h : (orig : Int) - cur < 0
  · have e1 : min orig cur = orig := by omega
    have e2 : max orig cur = cur := by omega
    simp only [h, if_true, e1, e2]
    rw [if_neg (by simp; omega), if_neg (by omega)]
    congr 3 <;> omega
  · have e1 : min orig cur = cur := by omega
    have e2 : max orig cur = orig := by omega
    simp only [h, if_false, e1, e2]
    rw [if_neg (by simp; omega), if_neg (by omega)]
    congr 3 <;> omega

theorem lineEnd_le (t : Text) (i : Nat) : C08.lineEnd t i ≤ t.length := by
  simp only [C08.lineEnd]
  have := (List.takeWhile_sublist (l := t.drop i) C08.notNl).length_le
  simp only [List.length_drop] at this
  omega

/-- `TextObject(orig - cursor, type=LINEWISE).cut(buffer)` calls
    `Document(text, line_end(hi), SelectionState(line_start(lo), LINES)).cut_selection()` -/
theorem cut08_linewise (t : Text) (cur orig : Nat) :
    C08.cut ⟨t, cur⟩ ⟨(orig : Int) - cur, 0, .linewise⟩
      = some (C08.cutSelection t (C08.lineEnd t (max orig cur)) (C08.lineStart t (min orig cur)) true) := by
  simp only [C08.cut, C08.operatorRange, C08.TextObject.sorted]
  have hb : (C08.TOType.linewise == C08.TOType.linewise) = true := by decide
  simp only [hb, Bool.not_true, Bool.false_and, Bool.false_eq_true, if_false, if_true]
  have hE := lineEnd_le t (max orig cur)
  by_cases h : (orig : Int) - cur < 0
  · have e1 : min orig cur = orig := by omega
    have e2 : max orig cur = cur := by omega
    rw [e2] at hE
    have a1 : (orig : Int) - cur + cur = orig := by omega
    have a2 : (0 : Int) + cur = cur := by omega
    simp only [h, if_true, e1, e2, a1, a2, C08.lineStartI, C08.lineEndI, Int.toNat_natCast]
    rw [if_neg (by omega), if_neg (by omega), if_neg (by omega)]
    congr 3 <;> omega
  · have e1 : min orig cur = cur := by omega
    have e2 : max orig cur = orig := by omega
    rw [e2] at hE
    have a1 : (orig : Int) - cur + cur = orig := by omega
    have a2 : (0 : Int) + cur = cur := by omega
    simp only [h, if_false, e1, e2, a1, a2, C08.lineStartI, C08.lineEndI, Int.toNat_natCast]
    rw [if_neg (by omega), if_neg (by omega), if_neg (by omega)]
    congr 3 <;> omega

/-- `TextObject.type` of the text object that `_operator_in_selection` builds -/
def toTy (b : Bool) : C08.TOType := if b then .linewise else .inclusive

/-- key_binding/bindings/vi.py::TextObject.cut (for the text object `TextObject(orig - cursor, type)`
    that `_operator_in_selection` builds from a CHARACTERS / LINES selection) — `C09.textObjectCut`
    vs `C08.cut`; both cursors inside the text (for INCLUSIVE with a cursor behind the end `C08.cut`
    is `none` = the `Document(...)` assertion, `C09.textObjectCut` is total) -/
theorem textObjectCut_08 (t : Text) (cur orig : Nat) (ls : Bool) (hc : cur ≤ t.length) (ho : orig ≤ t.length) :
    (C08.cut ⟨t, cur⟩ ⟨(orig : Int) - cur, 0, toTy ls⟩).map (fun p => (buf89 p.1, clip89 p.2))
      = some (C09.textObjectCut ⟨t, cur⟩ orig (selTy ls)) := by
  cases ls with
  | false =>
    simp only [toTy, selTy_false, Bool.false_eq_true, if_false, cut08_inclusive t cur orig hc ho,
      C09.textObjectCut, cutSelection_08_chars, Option.map_some]
  | true =>
    have hlo : min orig cur ≤ t.length := by omega
    have hhi : max orig cur ≤ t.length := by omega
    have e1 : max orig cur + (C09.lineAfter ⟨t, max orig cur⟩).length = C08.lineEnd t (max orig cur) := by
      simp only [C08.lineEnd, C09.lineAfter, C09.Buf.after, notNl89, Nat.min_eq_left hhi]
    have hs := lineStart_le t (min orig cur)
    simp only [toTy, selTy_true, if_true, cut08_linewise, C09.textObjectCut, Option.map_some,
      from_eq t _ hlo, e1]
    rw [← selTy_true, cutSelection_08 _ _ _ true (fun _ => by omega)]

/-! ### witnesses: the empty text (agreement) and the region outside the domain (disagreement) -/

/-- LINES selection in the empty document: the real
    `Document("", 0, SelectionState(0, LINES)).selection_ranges()` under `vi_mode` is `[(0, 0)]`
    (`len(text) - 1 = -1`, then `+ 1`); both models give that (C09 since its repair). -/
theorem selectionRanges_empty_agree :
    C09.selectionRanges [] 0 0 .lines true = [(0, 0)] ∧ C08.selRange [] 0 0 true = (0, 0) := by decide

/-- `cut_selection` in the empty document: both models give
    `(Document("", 0), ClipboardData("", LINES))`, as the real code does. -/
theorem cutSelection_empty_agree :
    C09.cutSelection [] 0 0 .lines true = (⟨[], 0⟩, ⟨[], .lines⟩) ∧
    C08.cutSelection [] 0 0 true = (⟨[], 0⟩, ⟨[], true⟩) := by decide

/-- OUTSIDE the domain (both cursors behind the end of the text; `Document(...)` raises
    `AssertionError`): LINES ranges differ -/
theorem selectionRanges_outside_disagree :
    C09.selectionRanges ['a'] 2 2 .lines true = [(1, 1)] ∧ C08.selRange ['a'] 2 2 true = (0, 1) := by decide

/-- OUTSIDE the domain: LINES cut differs (`C09` cuts nothing, `C08` cuts the line) -/
theorem cutSelection_outside_disagree :
    C09.cutSelection ['a'] 2 2 .lines true = (⟨['a'], 1⟩, ⟨[], .lines⟩) ∧
    C08.cutSelection ['a'] 2 2 true = (⟨[], 0⟩, ⟨['a'], true⟩) := by decide

end Ptk.AgreeDoc
